/-
  Proofs/RoundTripFull.lean — the walk over the forest of mark elements of a textblock, and the round trip with marks.
-/
import Proofs.RoundTripSerM
import Proofs.RoundTripMarks
import Proofs.Marks
namespace PM.RoundTrip
open PM PM.Dom PM.FromDom PM.DomWalk

/-- `addDom_markElem` carrying `Stable` -/
theorem addDom_markElem' (R : RParser) (w : WState) (base : List NodeCtx) (cx : NodeCtx) (c c2 : List Node)
    (t : TypeId) (q q2 : Nat) (pa pp : List TMark) (m : Mark) (tag : String) (attrs : List (String × List Char))
    (r : TagRule) (ra : Option Attrs) (dkids : List DNode) (ptag : String) (prevBr : Bool)
    (hi : Inv R.P.S w base cx [] c) (hs : MarkSt cx t q pa pp)
    (hig : ignoreTags.contains tag = false) (hlt : listTags.contains tag = false)
    (hf : firstRule R tag attrs = some (r, ra)) (hst : straight r = true) (hrn : r.node = none)
    (hrm : r.mark = some (some m.ty)) (hca : computeAttrs (R.P.S.markType m.ty).attrs (ra.getD []) = .ok m.attrs)
    (hfo : follows R.P.S ((pa ++ pp).map (·.2)) m)
    (hkids : ∀ w1 mk, mk.2 = m → Inv R.P.S w1 base { cx with pending := pp ++ [mk] } [] c →
      ∃ w2 cx2, addAll R.P tag dkids false w1 = .ok w2 ∧ Inv R.P.S w2 base cx2 [] c2 ∧
        MarkSt cx2 t q2 (pa ++ pp ++ [mk]) [] ∧ Stable cx cx2) :
    ∃ w3 cx3, addDom R.P ptag prevBr (.elem tag [] (candsFrom tag attrs R.sel 0) dkids) w = .ok w3 ∧
      Inv R.P.S w3 base cx3 [] c2 ∧ MarkSt cx3 t q2 (pa ++ pp) [] ∧ Stable cx cx3 := by
  obtain ⟨mr, hmt, hmr, hma, hmk⟩ := firstRule_matchTag R tag attrs r ra hf w.stack
  obtain ⟨id, nx, hcr⟩ := createMark_value R.P.S m.ty ra m.attrs w.nextMark hca
  have hmv : (⟨m.ty, m.attrs⟩ : Mark) = m := rfl
  have hc : c = cx.content := settles_nil_inv _ _ _ hi.settles
  obtain ⟨hadd, hs1⟩ := addPendingMark_marks R.P.S w.st base cx t q pa pp (id, m) hi.nodes hi.open_ hs hfo
  have hi1 : Inv R.P.S { w with st := { w.st with nodes := base ++ [{ cx with pending := pp ++ [(id, m)] }] },
                                log := w.log ++ [.addPending (id, m)], nextMark := nx } base
      { cx with pending := pp ++ [(id, m)] } [] c :=
    ⟨rfl, hi.open_, by rw [hc]; exact settles_nil _ _, hi.below, hi.fresh⟩
  obtain ⟨w2, cx2, hall, hi2, hs2, hst2⟩ := hkids _ (id, m) rfl hi1
  have hu2 := hst2.uid
  have hc2 : c2 = cx2.content := settles_nil_inv _ _ _ hi2.settles
  have hidx : w2.idxOf cx.uid = some base.length := by
    unfold WState.idxOf
    rw [hi2.nodes]
    exact findIdx?_base _ base cx2 [] (fun x hx => by have := hi2.below x hx; rw [hu2] at this; simp; omega) (by simp [hu2])
  have hfo2 : follows R.P.S ((pa ++ pp).map (·.2)) (id, m).2 := hfo
  obtain ⟨aT, hrem, hs3⟩ := removePendingMark_active R.P.S w2.st base cx2 t q2 (pa ++ pp) (id, m) hi2.nodes hi2.open_ hs2 hfo2
  have hnk : normKids R.P tag dkids = dkids := by
    simp only [normKids, hlt, Bool.false_and, Bool.false_eq_true, if_false]
  have hcons : r.consuming = true := by unfold straight at hst; simp only [Bool.and_eq_true] at hst; exact hst.2
  refine ⟨{ w2 with st := { w2.st with nodes := base ++ [{ cx2 with active := (pa ++ pp).map (·.2), activeT := aT }] },
                    log := w2.log ++ [.removePending (id, m) (some base.length)] }, _, ?_,
    ⟨rfl, hi2.open_, by rw [hc2]; exact settles_nil _ _, by intro x hx; exact hi2.below x hx, hi2.fresh⟩, hs3,
    ⟨hst2.attrs, hst2.marks, hst2.opts, hst2.uid⟩⟩
  rw [addDom]
  simp only [stylePre_nil R.P w cx hi.top]
  rw [addElement_eq]
  simp only [hmt, decideTag_straight tag mr (by rw [hmr]; exact hst) hig, hmr, hma]
  unfold ruleOpen ruleFirst
  have htop1 : (({ w with st := { w.st with nodes := base ++ [{ cx with pending := pp ++ [(id, m)] }] },
                          log := w.log ++ [.addPending (id, m)], nextMark := nx } : WState)).top =
      some { cx with pending := pp ++ [(id, m)] } := hi1.top
  simp only [hrn, hrm, hcr, hmv, emit', emit, PState.step, hadd, Except.map, htop1, Bool.false_eq_true, if_false, hcons,
    Bool.not_true, hmk, hnk, hall]
  unfold ruleClose
  simp only [Bool.false_eq_true, if_false, emit', emit, PState.step, hidx, hrem, Except.map, stylePost_nil]

/-! ### inserting a node inside mark elements, as events of the walk -/

def insCx (cx : NodeCtx) (vals : Marks) (aT : List TMark) (q' : Nat) (n : Node) : NodeCtx :=
  { cx with active := vals, pending := [], activeT := aT, mtch := some q', content := cx.content ++ [n] }

theorem emit_insert_marks (P : Parser) (w : WState) (base : List NodeCtx) (cx : NodeCtx) (c : List Node)
    (t : TypeId) (q q' : Nat) (pa pp : List TMark) (node : Node)
    (hi : Inv P.S w base cx [] c) (hs : MarkSt cx t q pa pp)
    (hch : Chain P.S ((pa ++ pp).map (·.2))) (hal : ∀ m ∈ pp, (P.S.nodeType t).allowsMarkType m.2.ty = true)
    (hm : (P.S.dfa t).matchType q (P.S.tyOf node) = some q') (hmk : node.marks = []) :
    ∃ w' cx', emit P w (.insertNode node) = .ok (w', some true) ∧
      Inv P.S w' base cx' [] (c ++ [node.withMarks ((pa ++ pp).map (·.2))]) ∧ MarkSt cx' t q' (pa ++ pp) [] ∧ Stable cx cx' := by
  have hc : c = cx.content := settles_nil_inv _ _ _ hi.settles
  obtain ⟨aT, hins⟩ := insertNode_marks P.S P.wsPre w.st base cx t q q' pa pp node hi.nodes hi.open_ hs hch hal hm hmk
  refine ⟨afterInsert w (base ++ [insCx cx ((pa ++ pp).map (·.2)) aT q' (node.withMarks ((pa ++ pp).map (·.2)))]) (.insertNode node),
    _, ?_, ⟨rfl, hi.open_, by rw [hc]; exact settles_nil _ _, hi.below, hi.fresh⟩,
    ⟨hs.ty, rfl, hs.solid, rfl, rfl, hs.stash⟩, ⟨rfl, rfl, rfl, rfl⟩⟩
  unfold emit
  simp only [PState.step, hins, Except.map]
  rfl


theorem addTextNode_marks (P : Parser) (w : WState) (base : List NodeCtx) (cx : NodeCtx) (c : List Node)
    (t : TypeId) (q q' : Nat) (pa pp : List TMark) (s : List Nat) (prev : Option (Node × String)) (ptag : Option String) (prevBr : Bool)
    (hi : Inv P.S w base cx [] c) (hs : MarkSt cx t q pa pp) (hinl : (P.S.nodeType t).inlineContent = true)
    (hok : textOk cx.opts prev s = true)
    (hdrop : cx.opts.preserveWs = false → startsWithSpace s = true → dropsLead cx prevBr = false)
    (hch : Chain P.S ((pa ++ pp).map (·.2))) (hal : ∀ m ∈ pp, (P.S.nodeType t).allowsMarkType m.2.ty = true)
    (hm : (P.S.dfa t).matchType q P.S.textTy = some q') :
    ∃ w' cx', addTextNode P w (some s) ptag prevBr = .ok w' ∧
      Inv P.S w' base cx' [] (c ++ [.text s ((pa ++ pp).map (·.2))]) ∧ MarkSt cx' t q' (pa ++ pp) [] ∧ Stable cx cx' := by
  have hne : s.isEmpty = false := by
    unfold textOk at hok; simp only [Bool.and_eq_true] at hok; simpa using hok.1.2
  have hv : textValue w cx s prevBr = s := textValue_normal w cx s prev prevBr hok (fun h1 h2 _ => hdrop h1 h2)
  obtain ⟨w', cx', hem, hi', hs', hst'⟩ := emit_insert_marks P w base cx c t q q' pa pp (.text s []) hi hs hch hal hm rfl
  refine ⟨w', cx', ?_, hi', hs', hst'⟩
  unfold addTextNode
  simp only [hi.top, inlineContext, hs.ty, hinl, Bool.or_true, Bool.true_or, if_true, hv, hne, Bool.false_eq_true, if_false]
  unfold emit'
  simp only [hem]

theorem addDom_leaf_marks (R : RParser) (w : WState) (base : List NodeCtx) (cx : NodeCtx) (c : List Node)
    (t : TypeId) (q q' : Nat) (pa pp : List TMark) (tl : TypeId) (ra : Option Attrs) (a : Attrs) (tag : String)
    (attrs : List (String × List Char)) (r : TagRule) (dkids : List DNode) (ptag : String) (prevBr : Bool)
    (hi : Inv R.P.S w base cx [] c) (hs : MarkSt cx t q pa pp)
    (hig : ignoreTags.contains tag = false)
    (hf : firstRule R tag attrs = some (r, ra)) (hst : straight r = true) (hr : r.node = some (some tl))
    (hl : (R.P.S.nodeType tl).isLeaf = true) (hnt : (R.P.S.nodeType tl).isText = false)
    (hch : Chain R.P.S ((pa ++ pp).map (·.2))) (hal : ∀ m ∈ pp, (R.P.S.nodeType t).allowsMarkType m.2.ty = true)
    (hm : (R.P.S.dfa t).matchType q tl = some q')
    (ha : computeAttrs (R.P.S.nodeType tl).attrs (ra.getD []) = .ok a) :
    ∃ w' cx', addDom R.P ptag prevBr (.elem tag [] (candsFrom tag attrs R.sel 0) dkids) w = .ok w' ∧
      Inv R.P.S w' base cx' [] (c ++ [.leaf tl a ((pa ++ pp).map (·.2))]) ∧ MarkSt cx' t q' (pa ++ pp) [] ∧ Stable cx cx' := by
  obtain ⟨m, hmt, hmr, hma, _⟩ := firstRule_matchTag R tag attrs r ra hf w.stack
  obtain ⟨w', cx', hem, hi', hs', hst'⟩ := emit_insert_marks R.P w base cx c t q q' pa pp (.leaf tl a []) hi hs hch hal hm rfl
  refine ⟨w', cx', ?_, hi', hs', hst'⟩
  rw [addDom]
  simp only [stylePre_nil R.P w cx hi.top]
  rw [addElement_eq]
  simp only [hmt, decideTag_straight tag m (by rw [hmr]; exact hst) hig, hmr, hma]
  unfold ruleOpen ruleFirst
  simp only [hr, hl, hnt, Bool.not_true, Bool.false_eq_true, if_false, ha, hem, Option.getD_some, if_true, hi'.top]
  unfold ruleClose
  simp only [Bool.false_eq_true, if_false, stylePost_nil]

/-! ### what `rtOk` says about an emitted mark element -/

theorem markRule_spec (R : RParser) (D : ToDom) (m : Mark) (h : markRule R D m true = true) :
    ∃ name sattrs r ra, D.mark m true = some (.el name sattrs [.hole]) ∧ D.spanning m.ty = true ∧
      ignoreTags.contains (lowerName name) = false ∧ (lowerName name == "br") = false ∧
      listTags.contains (lowerName name) = false ∧ selfClosing.contains name = false ∧
      firstRule R (lowerName name) (renderedAttrs sattrs) = some (r, ra) ∧ straight r = true ∧ r.node = none ∧
      r.mark = some (some m.ty) ∧ computeAttrs (R.P.S.markType m.ty).attrs (ra.getD []) = .ok m.attrs := by
  unfold markRule at h
  simp only [Bool.and_eq_true] at h
  obtain ⟨hsp, hm⟩ := h
  split at hm
  · rename_i name sattrs hd
    simp only [Bool.and_eq_true, Bool.not_eq_true', bne_iff_ne, ne_eq] at hm
    obtain ⟨⟨⟨⟨hu, hbr⟩, hlt⟩, hsc⟩, hfr⟩ := hm
    unfold tagUsable at hu
    simp only [Bool.and_eq_true, Bool.not_eq_true'] at hu
    cases hf : firstRule R (lowerName name) (renderedAttrs sattrs) with
    | none => rw [hf] at hfr; cases hfr
    | some p =>
      obtain ⟨r, ra⟩ := p
      rw [hf] at hfr
      simp only [Bool.and_eq_true, beq_iff_eq] at hfr
      obtain ⟨⟨⟨⟨hs, hrn⟩, hrm⟩, _⟩, hat⟩ := hfr
      exact ⟨name, sattrs, r, ra, hd, hsp, hu.1, by simpa using hbr, hlt, hsc, hf, hs, by simpa using hrn, hrm,
        attrsEq_ok _ _ hat⟩
  · cases hm


/-! ### the canonical DOM of a forest, bookkeeping lemmas -/

mutual
def treeDom (R : RParser) (D : ToDom) : MTree → DNode
  | .leaf n => domOf R D n
  | .wrap m kids =>
    match markSpec D m with
    | some (name, sattrs) => elemDom R name sattrs (forestDom R D kids)
    | none => .other
def forestDom (R : RParser) (D : ToDom) : List MTree → List DNode
  | [] => []
  | t :: ts => treeDom R D t :: forestDom R D ts
end

def lastPrev (R : RParser) (D : ToDom) : Option (Node × String) → List Node → Option (Node × String)
  | prev, [] => prev
  | _, k :: ks => lastPrev R D (some (k, prevTag R D k)) ks

theorem kidsOk_append (R : RParser) (D : ToDom) (opts : Opts) (pt : TypeId) : ∀ (a b : List Node) (prev : Option (Node × String)),
    kidsOk R D opts pt prev (a ++ b) = (kidsOk R D opts pt prev a && kidsOk R D opts pt (lastPrev R D prev a) b)
  | [], b, prev => by simp [kidsOk, lastPrev]
  | k :: a, b, prev => by
    have ih := kidsOk_append R D opts pt a b (some (k, prevTag R D k))
    cases k <;> simp only [List.cons_append, kidsOk, ih, lastPrev, Bool.and_assoc]

theorem lastPrev_getLast (R : RParser) (D : ToDom) : ∀ (a : List Node) (prev : Option (Node × String)) (c : List Node),
    c.getLast? = prev.map (·.1) → (c ++ a).getLast? = (lastPrev R D prev a).map (·.1)
  | [], prev, c, h => by simpa [lastPrev] using h
  | k :: a, prev, c, _ => by
    rw [lastPrev, show c ++ k :: a = (c ++ [k]) ++ a by simp]
    exact lastPrev_getLast R D a _ (c ++ [k]) (by simp)

theorem run_append (d : Dfa) : ∀ (a b : List TypeId) (q : Nat),
    d.run q (a ++ b) = (match d.run q a with
      | some q1 => d.run q1 b
      | none => none)
  | [], b, q => by simp [Dfa.run]
  | t :: a, b, q => by
    simp only [List.cons_append, Dfa.run]
    cases d.matchType q t with
    | none => rfl
    | some q1 => exact run_append d a b q1

theorem chain_of_canon (S : Schema) (l : Marks) (h : CanonP S l) : Chain S l := by
  intro a m b he o ho
  subst he
  have hs := h.sorted
  have hn := h.nodup
  unfold RankSorted at hs
  rw [List.pairwise_append] at hs
  rw [List.nodup_append] at hn
  have hne : o ≠ m := hn.2.2 o ho m List.mem_cons_self
  refine ⟨⟨hs.2.2 o ho m List.mem_cons_self, hne⟩, ?_, ?_⟩
  · exact h.exclFree m (by simp) o (by simp [ho]) (Ne.symm hne)
  · exact h.exclFree o (by simp [ho]) m (by simp) hne

mutual
theorem leaf_below_tree : ∀ (p : Marks) (T : MTree), treeOk p T = true → ∀ n ∈ flatT T, ∃ b, n.marks = p ++ b
  | p, .leaf n, h, x, hx => by
    simp only [flatT, List.mem_singleton] at hx
    subst hx
    exact ⟨[], by simpa [treeOk] using h⟩
  | p, .wrap m kids, h, x, hx => by
    rw [treeOk] at h
    simp only [Bool.and_eq_true] at h
    rw [flatT] at hx
    obtain ⟨b, hb⟩ := leaf_below_forest (p ++ [m]) kids h.1 x hx
    exact ⟨m :: b, by rw [hb]; simp⟩
theorem leaf_below_forest : ∀ (p : Marks) (F : List MTree), forestOk p F = true → ∀ n ∈ flatF F, ∃ b, n.marks = p ++ b
  | _, [], _, x, hx => by simp [flatF] at hx
  | p, T :: Ts, h, x, hx => by
    rw [forestOk] at h
    simp only [Bool.and_eq_true] at h
    rw [flatF] at hx
    rcases List.mem_append.1 hx with hx | hx
    · exact leaf_below_tree p T h.1 x hx
    · exact leaf_below_forest p Ts h.2 x hx
end

mutual
theorem hasLeaf_mem : ∀ (T : MTree), hasLeaf T = true → ∃ n, n ∈ flatT T
  | .leaf n, _ => ⟨n, by simp [flatT]⟩
  | .wrap m kids, h => by
    rw [hasLeaf] at h
    obtain ⟨n, hn⟩ := hasLeafF_mem kids h
    exact ⟨n, by rw [flatT]; exact hn⟩
theorem hasLeafF_mem : ∀ (F : List MTree), hasLeafF F = true → ∃ n, n ∈ flatF F
  | [], h => by simp [hasLeafF] at h
  | T :: Ts, h => by
    rw [hasLeafF] at h
    rw [flatF]
    simp only [Bool.or_eq_true] at h
    rcases h with h | h
    · obtain ⟨n, hn⟩ := hasLeaf_mem T h
      exact ⟨n, List.mem_append_left _ hn⟩
    · obtain ⟨n, hn⟩ := hasLeafF_mem Ts h
      exact ⟨n, List.mem_append_right _ hn⟩
end

theorem treeOk_hasLeaf (p : Marks) (T : MTree) (h : treeOk p T = true) : hasLeaf T = true := by
  cases T with
  | leaf n => rfl
  | wrap m kids => rw [treeOk] at h; simp only [Bool.and_eq_true] at h; rw [hasLeaf]; exact h.2


/-! ### the walk over the forest -/

/-- what validity gives for an inline child of a textblock of type `t` -/
structure LeafHyp (R : RParser) (t : TypeId) (n : Node) : Prop where
  leaf : n.isLeaf = true
  canon : CanonP R.P.S n.marks
  allowed : ∀ m ∈ n.marks, (R.P.S.nodeType t).allowsMarkType m.ty = true

theorem nodeOk_markRule (R : RParser) (D : ToDom) (opts : Opts) (t : TypeId) (n : Node) (hl : n.isLeaf = true)
    (h : nodeOk R D opts t n = true) : ∀ m ∈ n.marks, markRule R D m true = true := by
  cases n with
  | text s ms =>
    rw [nodeOk] at h
    simp only [Bool.and_eq_true, List.all_eq_true] at h
    exact h.2
  | leaf tl a ms =>
    rw [nodeOk] at h
    simp only [Bool.and_eq_true, List.all_eq_true, Bool.or_eq_true, List.isEmpty_iff] at h
    intro m hm
    have hin : (R.P.S.nodeType tl).isInline = true := by
      rcases h.1.2 with h' | h'
      · rw [show ms = [] from h'] at hm; cases hm
      · exact h'
    have := h.2 m hm
    rw [hin] at this
    exact this
  | elem => simp [Node.isLeaf] at hl

mutual
theorem walk_tree (R : RParser) (D : ToDom) : ∀ (T : MTree) (w : WState) (base : List NodeCtx) (cx : NodeCtx) (c : List Node)
    (t : TypeId) (q q' : Nat) (opts : Opts) (prev : Option (Node × String)) (prevBr : Bool) (ptag : String)
    (pa pp : List TMark) (p : Marks),
    Inv R.P.S w base cx [] c → MarkSt cx t q pa pp → cx.opts = opts → (pa ++ pp).map (·.2) = p →
    (∀ m ∈ pp, (R.P.S.nodeType t).allowsMarkType m.2.ty = true) → treeOk p T = true →
    kidsOk R D opts t prev (flatT T) = true → (∀ n ∈ flatT T, LeafHyp R t n) →
    (R.P.S.dfa t).run q (R.P.S.types (flatT T)) = some q' → PrevOk prev c prevBr →
    ∃ w' cx', addDom R.P ptag prevBr (treeDom R D T) w = .ok w' ∧ Inv R.P.S w' base cx' [] (c ++ flatT T) ∧
      MarkSt cx' t q' (pa ++ pp) [] ∧ Stable cx cx'
  | .leaf n, w, base, cx, c, t, q, q', opts, prev, prevBr, ptag, pa, pp, p, hi, hs, ho, hpath, hal, hok, hko, hlh, hrun, hprev => by
    have hn := hlh n (by simp [flatT])
    have hmk : n.marks = p := by simpa [treeOk] using hok
    have hch : Chain R.P.S ((pa ++ pp).map (·.2)) := by rw [hpath, ← hmk]; exact chain_of_canon _ _ hn.canon
    rw [flatT] at hko hrun
    unfold kidsOk at hko
    simp only [Bool.and_eq_true] at hko
    simp only [Schema.types, List.map_cons, List.map_nil, Dfa.run] at hrun
    cases hmt : (R.P.S.dfa t).matchType q (R.P.S.tyOf n) with
    | none => rw [hmt] at hrun; cases hrun
    | some q1 =>
      rw [hmt] at hrun
      simp only [Option.some.injEq] at hrun
      subst hrun
      have hc : c = cx.content := settles_nil_inv _ _ _ hi.settles
      cases n with
      | text s ms =>
        simp only [Node.marks] at hmk
        subst ho
        have hinl : (R.P.S.nodeType t).inlineContent = true := by
          have := hko.1.2
          rw [nodeOk] at this
          simp only [Bool.and_eq_true] at this
          exact this.1
        obtain ⟨w', cx', hadd, hi', hs', hst'⟩ := addTextNode_marks R.P w base cx c t q q1 pa pp s prev (some ptag) prevBr hi hs hinl
          hko.1.1 (hdrop_of cx prev s prevBr hko.1.1 (by rw [← hc]; exact hprev)) hch hal hmt
        refine ⟨w', cx', by rw [treeDom, domOf, addDom]; exact hadd, ?_, hs', hst'⟩
        rw [flatT, hmk, ← hpath]; exact hi'
      | leaf tl a ms =>
        simp only [Node.marks] at hmk
        have hnk := hko.1.2
        rw [nodeOk] at hnk
        simp only [Bool.and_eq_true, Bool.not_eq_true'] at hnk
        obtain ⟨⟨⟨⟨hlr, hl⟩, hnt⟩, _⟩, _⟩ := hnk
        cases hlr' : leafRule R D tl a with
        | none => rw [hlr'] at hlr; cases hlr
        | some tag =>
          obtain ⟨name, sattrs, pw, hd, hnr, _⟩ := leafRule_cases R D tl a tag hlr'
          obtain ⟨hu, r, ra, hf, hst, hr, hca, _⟩ := nodeRule_spec R tl a name sattrs pw hnr
          have hig : ignoreTags.contains (lowerName name) = false := by
            unfold tagUsable at hu; simp only [Bool.and_eq_true, Bool.not_eq_true'] at hu; exact hu.1
          obtain ⟨w', cx', hadd, hi', hs', hst'⟩ := addDom_leaf_marks R w base cx c t q q1 pa pp tl ra a (lowerName name)
            (renderedAttrs sattrs) r [] ptag prevBr hi hs hig hf hst hr hl hnt hch hal hmt hca
          refine ⟨w', cx', ?_, ?_, hs', hst'⟩
          · simp only [treeDom, domOf, hd, elemDom]; exact hadd
          · rw [flatT, hmk, ← hpath]; exact hi'
      | elem te ae me ke => have := hn.leaf; simp [Node.isLeaf] at this
  | .wrap m kids, w, base, cx, c, t, q, q', opts, prev, prevBr, ptag, pa, pp, p, hi, hs, ho, hpath, hal, hok, hko, hlh, hrun, hprev => by
    rw [treeOk] at hok
    simp only [Bool.and_eq_true] at hok
    rw [flatT] at hko hlh hrun
    obtain ⟨n0, hn0⟩ := hasLeafF_mem kids hok.2
    obtain ⟨b, hb⟩ := leaf_below_forest (p ++ [m]) kids hok.1 n0 hn0
    have hmem : m ∈ n0.marks := by rw [hb]; simp
    have hfo : follows R.P.S ((pa ++ pp).map (·.2)) m := by
      rw [hpath]
      exact chain_of_canon _ _ (hlh n0 hn0).canon p m b (by rw [hb]; simp)
    have hmr := nodeOk_markRule R D opts t n0 (hlh n0 hn0).leaf (nodeOk_of_kidsOk R D opts t prev _ hko n0 hn0) m hmem
    obtain ⟨name, sattrs, r, ra, hd, _, hig, _, hlt, _, hf, hst, hrn, hrm, hca⟩ := markRule_spec R D m hmr
    have hms := markSpec_of D m name sattrs hd
    have hallm : (R.P.S.nodeType t).allowsMarkType m.ty = true := (hlh n0 hn0).allowed m hmem
    obtain ⟨w3, cx3, hadd, hi3, hs3, hst3⟩ := addDom_markElem' R w base cx c (c ++ flatF kids) t q q' pa pp m (lowerName name)
      (renderedAttrs sattrs) r ra (forestDom R D kids) ptag prevBr hi hs hig hlt hf hst hrn hrm hca hfo
      (fun w1 mk hmk hi1 => by
        have hs1 : MarkSt { cx with pending := pp ++ [mk] } t q pa (pp ++ [mk]) := ⟨hs.ty, hs.mtch, hs.solid, hs.active, rfl, hs.stash⟩
        obtain ⟨w2, cx2, hall, hi2, hs2, hst2⟩ := walk_forest R D kids w1 base _ c t q q' opts prev false (lowerName name) pa (pp ++ [mk])
          (p ++ [m]) hi1 hs1 ho (by rw [← hpath, ← hmk]; simp)
          (fun x hx => by
            rcases List.mem_append.1 hx with hx | hx
            · exact hal x hx
            · simp only [List.mem_singleton] at hx; subst hx; rw [hmk]; exact hallm)
          hok.1 hko hlh hrun ⟨hprev.1, fun h => by cases h⟩
        simp only [hok.2, if_true] at hs2
        exact ⟨w2, cx2, hall, hi2, by simpa [List.append_assoc] using hs2,
          ⟨hst2.attrs, hst2.marks, hst2.opts, hst2.uid⟩⟩)
    refine ⟨w3, cx3, ?_, hi3, hs3, hst3⟩
    simp only [treeDom, hms, elemDom]
    exact hadd
theorem walk_forest (R : RParser) (D : ToDom) : ∀ (F : List MTree) (w : WState) (base : List NodeCtx) (cx : NodeCtx) (c : List Node)
    (t : TypeId) (q qe : Nat) (opts : Opts) (prev : Option (Node × String)) (prevBr : Bool) (ptag : String)
    (pa pp : List TMark) (p : Marks),
    Inv R.P.S w base cx [] c → MarkSt cx t q pa pp → cx.opts = opts → (pa ++ pp).map (·.2) = p →
    (∀ m ∈ pp, (R.P.S.nodeType t).allowsMarkType m.2.ty = true) → forestOk p F = true →
    kidsOk R D opts t prev (flatF F) = true → (∀ n ∈ flatF F, LeafHyp R t n) →
    (R.P.S.dfa t).run q (R.P.S.types (flatF F)) = some qe → PrevOk prev c prevBr →
    ∃ w' cx', addAll R.P ptag (forestDom R D F) prevBr w = .ok w' ∧ Inv R.P.S w' base cx' [] (c ++ flatF F) ∧
      MarkSt cx' t qe (if hasLeafF F then pa ++ pp else pa) (if hasLeafF F then [] else pp) ∧ Stable cx cx'
  | [], w, base, cx, c, t, q, qe, opts, prev, prevBr, ptag, pa, pp, p, hi, hs, _, _, _, _, _, _, hrun, _ => by
    simp only [flatF, Schema.types, List.map_nil, Dfa.run, Option.some.injEq] at hrun
    subst hrun
    exact ⟨w, cx, by rw [forestDom, addAll], by simpa [flatF] using hi, by simpa [hasLeafF] using hs, Stable.refl cx⟩
  | T :: Ts, w, base, cx, c, t, q, qe, opts, prev, prevBr, ptag, pa, pp, p, hi, hs, ho, hpath, hal, hok, hko, hlh, hrun, hprev => by
    rw [forestOk] at hok
    simp only [Bool.and_eq_true] at hok
    rw [flatF] at hko hlh hrun
    rw [kidsOk_append] at hko
    simp only [Bool.and_eq_true] at hko
    simp only [Schema.types, List.map_append] at hrun
    rw [run_append] at hrun
    cases hr1 : (R.P.S.dfa t).run q (List.map R.P.S.tyOf (flatT T)) with
    | none => rw [hr1] at hrun; cases hrun
    | some q1 =>
      rw [hr1] at hrun
      simp only at hrun
      obtain ⟨w1, cx1, hadd, hi1, hs1, hst1⟩ := walk_tree R D T w base cx c t q q1 opts prev prevBr ptag pa pp p hi hs ho hpath hal hok.1
        hko.1 (fun n hn => hlh n (List.mem_append_left _ hn)) hr1 hprev
      have hleafT := treeOk_hasLeaf p T hok.1
      have hprev1 : PrevOk (lastPrev R D prev (flatT T)) (c ++ flatT T) (treeDom R D T).isBr := by
        refine ⟨lastPrev_getLast R D (flatT T) prev c hprev.1, ?_⟩
        intro hb
        cases T with
        | leaf n =>
          have hnk : nodeOk R D opts t n = true := nodeOk_of_kidsOk R D opts t prev _ hko.1 n (by simp [flatT])
          have := (prevOk_next R D opts t n c hnk).2
          simp only [treeDom] at hb
          simpa [flatT, lastPrev] using this hb
        | wrap m kids =>
          exfalso
          rw [treeOk] at hok
          simp only [Bool.and_eq_true] at hok
          obtain ⟨n0, hn0⟩ := hasLeafF_mem kids hok.1.2
          obtain ⟨b, hb'⟩ := leaf_below_forest (p ++ [m]) kids hok.1.1 n0 hn0
          have hn0' : n0 ∈ flatT (.wrap m kids) := by rw [flatT]; exact hn0
          have hmr := nodeOk_markRule R D opts t n0 (hlh n0 (List.mem_append_left _ hn0')).leaf
            (nodeOk_of_kidsOk R D opts t prev _ hko.1 n0 hn0') m (by rw [hb']; simp)
          obtain ⟨name, sattrs, r, ra, hd, _, _, hbr, _⟩ := markRule_spec R D m hmr
          simp only [treeDom, markSpec_of D m name sattrs hd, elemDom, DNode.isBr, hbr] at hb
          cases hb
      obtain ⟨w2, cx2, hall, hi2, hs2, hst2⟩ := walk_forest R D Ts w1 base cx1 (c ++ flatT T) t q1 qe opts _ _ ptag (pa ++ pp) [] p
        hi1 hs1 (by rw [hst1.opts]; exact ho) (by simpa using hpath) (fun x hx => by cases hx) hok.2 hko.2
        (fun n hn => hlh n (List.mem_append_right _ hn)) hrun hprev1
      refine ⟨w2, cx2, ?_, by rw [flatF]; simpa [List.append_assoc] using hi2, ?_, hst1.trans hst2⟩
      · rw [forestDom, addAll]
        simp only [hadd, hall]
      · rw [hasLeafF, hleafT]
        simp only [Bool.true_or, if_true]
        by_cases hl : hasLeafF Ts = true
        · simpa [hl] using hs2
        · simp only [hl, Bool.false_eq_true, if_false, List.append_nil] at hs2
          exact hs2
end

end PM.RoundTrip
