/-
  Proofs/JoinSuccess.lean — **an approved join applies, given `check_join`'s test** (C12).

  `Transform.join(pos)` deletes the close token before `pos` and the open token after it
  (`ReplaceStep(pos - 1, pos + 1, Slice.empty, structure = True)`).  `replace` descends to the parent of
  `pos` and joins the two neighbours there (`replace_two_way`): `check_join` asks `compatible_content` of the two
  types, the joined node is `close`d (its content: the children of both, adjacent text merged), and the
  parent's shorter child list is re-validated.  `can_join` tested `a.can_append(b)` and
  `parent.can_replace(index, index + 1)`; what it did not test is `compatible_content` (`joinGuardR`) — and
  `can_append` looks at the unmerged child list (hence `TextStable`).
-/
import PM.Step
import PM.Structure2
import PM.StructEdit
import Proofs.SplitSuccess
import Proofs.ContentBetween
namespace PM

/-! ### the level of the join -/

/-- the two-way join of an element child with its right neighbour, at the parent's level -/
theorem twoWay_join (S : Schema) (pre post : List Node) (ta : TypeId) (aa : Attrs) (ma : Marks)
    (ka : List Node) (tb : TypeId) (ab : Attrs) (mb : Marks) (kb : List Node)
    (hn : fnorm (pre ++ .elem ta aa ma ka :: .elem tb ab mb kb :: post) = true)
    (hcomp : S.compatibleContent tb ta = true)
    (hva : S.validContent ta (fromArray (ka ++ kb)) = true) :
    twoWay S (pre ++ .elem ta aa ma ka :: .elem tb ab mb kb :: post) (fsize pre + (1 + fsize ka))
      (pre ++ .elem ta aa ma ka :: .elem tb ab mb kb :: post) (fsize pre + (2 + fsize ka + 1))
      = .ok (pre ++ .elem ta aa ma (fromArray (ka ++ kb)) :: post) := by
  have hp := fnormKids_of_fnorm (fnorm_append_left hn)
  have hka : fnormKids ka = true := by
    have := (fnorm_cons (fnorm_append_right hn)).1
    rw [Node.norm_elem] at this
    exact fnormKids_of_fnorm this
  have hs : splitRight (pre ++ .elem ta aa ma ka :: .elem tb ab mb kb :: post) (fsize pre + (2 + fsize ka + 1))
      = some (.deep (.elem tb ab mb kb) 0 post) := by
    rw [splitRight_skip_pre pre _ _ hp, splitRight_skip _ _ _ (by omega) (by simp)]
    have : 2 + fsize ka + 1 - (Node.elem ta aa ma ka).size = 1 := by simp
    rw [this, splitRight_elem tb ab mb kb post 1 (by omega) (by omega)]
  have hin : twoWay S ka (fsize ka) kb 0 = .ok (ka ++ kb) := by
    have := twoWay_skip_pre S ka [] 0 kb 0 hka
    simp only [Nat.add_zero, List.append_nil] at this
    rw [this, twoWay_zero S [] kb 0 kb (by simp)]
    rfl
  rw [twoWay_skip_pre S pre _ _ _ _ hp]
  unfold twoWay
  rw [if_neg (by omega), if_neg (by simp)]
  simp only [hs, hcomp, if_true, Nat.add_sub_cancel_left, hin, close_ok_of_valid S ta aa ma _ hva]
  rfl

/-- **the join seen from the parent**: the two neighbours become one node -/
theorem atLevel_join (S : Schema) (hts : TextStableP S) (tyP : TypeId) (pre post : List Node) (ta : TypeId)
    (aa : Attrs) (ma : Marks) (ka : List Node) (tb : TypeId) (ab : Attrs) (mb : Marks) (kb : List Node) (e : Nat)
    (hn : fnorm (pre ++ .elem ta aa ma ka :: .elem tb ab mb kb :: post) = true)
    (hcomp : S.compatibleContent tb ta = true)
    (hva : S.validContent ta (ka ++ kb) = true)
    (hvp : S.validContent tyP (pre ++ .elem ta aa ma ka :: post) = true) :
    ∃ Y, atLevel S Slice.empty tyP (pre ++ .elem ta aa ma ka :: .elem tb ab mb kb :: post)
      (fsize pre + (1 + fsize ka)) (fsize pre + (2 + fsize ka + 1)) e = .ok Y := by
  have hva' := validContent_fromArray hts ta _ hva
  have h2 := twoWay_join S pre post ta aa ma ka tb ab mb kb hn hcomp hva'
  have hvp' : S.validContent tyP (pre ++ .elem ta aa ma (fromArray (ka ++ kb)) :: post) = true := by
    rw [validContent_sig S tyP _ (pre ++ .elem ta aa ma ka :: post) (by simp [Schema.tyOf, Node.tyOr, Node.marks])]
    exact hvp
  have hvp'' := validContent_fromArray hts tyP _ hvp'
  unfold atLevel
  simp only [Slice.empty, fsize_nil, if_true, h2, Except.map, hvp'']
  exact ⟨_, rfl⟩

/-- the scan of `outer` stops at the parent: the two ends lie in different children -/
theorem outer_join (S : Schema) (sl : Slice) (tyP : TypeId) (pre post : List Node) (ta : TypeId)
    (aa : Attrs) (ma : Marks) (ka : List Node) (b : Node) (e : Nat) (hp : fnormKids pre = true) :
    outer S sl tyP (pre ++ .elem ta aa ma ka :: b :: post) (fsize pre + (1 + fsize ka))
        (fsize pre + (2 + fsize ka + 1)) 0 (pre ++ .elem ta aa ma ka :: b :: post)
        (fsize pre + (1 + fsize ka)) (fsize pre + (2 + fsize ka + 1)) e
      = atLevel S sl tyP (pre ++ .elem ta aa ma ka :: b :: post) (fsize pre + (1 + fsize ka))
        (fsize pre + (2 + fsize ka + 1)) e := by
  rw [Flat.outer_scan_pre S sl tyP _ _ _ e pre _ 0 _ _ hp (fun _ => by omega)]
  unfold outer
  rw [if_neg (by omega), if_neg (by simp)]
  simp only [Node.size_elem]
  rw [if_neg (by simp)]

/-! ### what `can_join` checked -/

theorem canJoinR_facts (S : Schema) {doc : Node} {pos : Nat} {r : RPos} (R : Resolved doc pos r)
    (h : canJoinR S r = some (some true)) :
    ∃ ta aa ma ka b, r.textOffset = 0 ∧ 1 ≤ r.index r.depth ∧
      r.parent.kids[r.index r.depth - 1]? = some (.elem ta aa ma ka) ∧
      r.parent.kids[r.index r.depth]? = some b ∧
      S.canAppend ta ka (S.tyOf b) b.kids = some true ∧
      S.nodeCanReplace r.parent (r.index r.depth) (r.index r.depth + 1) [] = some true := by
  unfold canJoinR at h
  by_cases ht : r.textOffset = 0
  · unfold RPos.nodeBeforeR RPos.nodeAfterR at h
    simp only [ht, ne_eq, not_true_eq_false, if_false, if_true] at h
    by_cases hi : r.index r.depth = 0
    · simp only [hi, if_true] at h
      split at h
      · rename_i a b h1 h2
        simp only [Option.some.injEq] at h1
        subst h1
        simp [Schema.joinable] at h
      · simp at h
    · simp only [hi, if_false] at h
      cases ha : r.parent.kids[r.index r.depth - 1]? with
      | none => simp [ha] at h
      | some a =>
        cases hb : r.parent.kids[r.index r.depth]? with
        | none => simp [ha, hb, Schema.joinable] at h
        | some b =>
          simp only [ha, hb, Schema.joinable] at h
          cases a with
          | text s m => simp [Node.isLeaf] at h
          | leaf t at_ m => simp [Node.isLeaf] at h
          | elem ta aa ma ka =>
            simp only [Node.isLeaf, Bool.false_eq_true, if_false] at h
            refine ⟨ta, aa, ma, ka, b, ht, by omega, rfl, rfl, ?_, ?_⟩
            · cases hca : S.canAppend (S.tyOf (Node.elem ta aa ma ka)) (Node.elem ta aa ma ka).kids (S.tyOf b) b.kids with
              | none => simp [hca] at h
              | some v =>
                cases v with
                | false => simp [hca] at h
                | true => exact hca
            · cases hca : S.canAppend (S.tyOf (Node.elem ta aa ma ka)) (Node.elem ta aa ma ka).kids (S.tyOf b) b.kids with
              | none => simp [hca] at h
              | some v =>
                cases v with
                | false => simp [hca] at h
                | true =>
                  simp only [hca] at h
                  cases hcr : S.nodeCanReplace r.parent (r.index r.depth) (r.index r.depth + 1) [] with
                  | none => simp [hcr] at h
                  | some w => simp only [hcr, Option.some.injEq] at h; rw [h]
  · exfalso
    obtain ⟨s, m, hc, hlt⟩ := R.in_text ht
    unfold RPos.nodeBeforeR at h
    simp only [ne_eq, ht, not_false_eq_true, if_true, hc] at h
    simp only [Node.cut] at h
    cases hct : cutText s 0 r.textOffset with
    | error e => simp [hct, Except.map] at h
    | ok s' =>
      simp only [hct, Except.map] at h
      cases hna : r.nodeAfterR with
      | none => simp [hna] at h
      | some b' =>
        simp only [hna] at h
        cases b' <;> simp [Schema.joinable, Node.isLeaf] at h

/-! ### content validity from `can_append` and `can_replace(index, index + 1)` -/

theorem canAppend_valid (S : Schema) (ta : TypeId) (ka : List Node) (tb : TypeId) (kb : List Node)
    (hva : S.validContent ta ka = true) (hnb : fnormKids kb = true)
    (h : S.canAppend ta ka tb kb = some true) : S.validContent ta (ka ++ kb) = true := by
  unfold Schema.canAppend at h
  split at h
  · unfold Schema.canReplace Schema.contentMatchAt at h
    simp only [List.take_length, List.drop_zero, List.drop_length, Schema.types, List.map_nil, Dfa.run] at h
    have hall := allowsMarks_of_valid S _ _ hva
    split at h
    · simp at h
    · rename_i q hq
      split at h
      · simp at h
      · rename_i q1 hq1
        simp only [Option.some.injEq, Bool.and_eq_true, List.all_eq_true] at h
        simp only [Schema.validContent, Bool.and_eq_true, List.all_eq_true]
        constructor
        · unfold Dfa.accepts
          simp only [Schema.types, List.map_append]
          rw [Dfa.run_append, hq]
          simp only [Option.bind_some, hq1]
          exact h.1
        · intro k hk
          rcases List.mem_append.mp hk with hk | hk
          · exact hall k hk
          · exact h.2 k hk
  · rename_i hz
    have : kb = [] := fsize_zero_of_fnormKids kb hnb (by simpa using hz)
    subst this
    simpa using hva

theorem nodeCanReplace_remove (S : Schema) (n : Node) (pre post : List Node) (a b : Node)
    (hk : n.kids = pre ++ a :: b :: post) (hvn : S.validContent (S.tyOf n) n.kids = true)
    (h : S.nodeCanReplace n (pre.length + 1) (pre.length + 1 + 1) [] = some true) :
    S.validContent (S.tyOf n) (pre ++ a :: post) = true := by
  have hall := allowsMarks_of_valid S _ _ hvn
  unfold Schema.nodeCanReplace at h
  split at h
  · simp at h
  · unfold Schema.canReplace Schema.contentMatchAt at h
    have e1 : n.kids.take (pre.length + 1) = pre ++ [a] := by rw [hk]; exact take_mid pre (b :: post) a
    have e2 : n.kids.drop (pre.length + 1 + 1) = post := by
      rw [hk]
      have : pre ++ a :: b :: post = (pre ++ [a]) ++ b :: post := by simp
      rw [this]
      have := drop_mid (pre ++ [a]) post b
      simpa using this
    simp only [List.take_nil, List.drop_nil, Schema.types, List.map_nil, Dfa.run, List.all_nil,
      Bool.and_true, e1, e2] at h
    split at h
    · simp at h
    · rename_i q hq
      split at h
      · simp at h
      · rename_i q1 hq1
        simp only [Option.some.injEq] at h
        simp only [Schema.validContent, Bool.and_eq_true, List.all_eq_true]
        constructor
        · unfold Dfa.accepts
          have : S.types (pre ++ a :: post) = S.types (pre ++ [a]) ++ S.types post := by simp [Schema.types]
          rw [this, Dfa.run_append]
          simp only [Schema.types] at hq hq1 ⊢
          rw [hq]
          simp only [Option.bind_some, hq1]
          exact h
        · intro k hkm
          refine hall k ?_
          rw [hk]
          simp only [List.mem_append, List.mem_cons] at hkm ⊢
          rcases hkm with h' | h' | h'
          · exact .inl h'
          · exact .inr (.inl h')
          · exact .inr (.inr (.inr h'))

/-- the two tokens a join deletes: a close token, then an open token -/
theorem join_toks (pre post : List Node) (ta : TypeId) (aa : Attrs) (ma : Marks) (ka : List Node)
    (tb : TypeId) (ab : Attrs) (mb : Marks) (kb : List Node) :
    ((ftoks (pre ++ .elem ta aa ma ka :: .elem tb ab mb kb :: post)).drop (fsize pre + (1 + fsize ka))).take 2
      = [Tok.cl, Tok.op tb ab mb] := by
  rw [ftoks_append, List.drop_append, List.drop_of_length_le (by rw [ftoks_length]; omega),
    ftoks_length, List.nil_append, show fsize pre + (1 + fsize ka) - fsize pre = 1 + fsize ka by omega]
  simp only [ftoks_cons, Node.toks, List.cons_append, List.append_assoc]
  rw [show 1 + fsize ka = fsize ka + 1 by omega, List.drop_succ_cons, List.drop_append,
    List.drop_of_length_le (by rw [ftoks_length]; omega), ftoks_length, Nat.sub_self]
  simp

/-! ### `TextStable` is decidable -/

theorem textStableP_of_C (S : Schema) (h : textStableC S = true) : TextStableP S := by
  intro t q q1 q2 h1 h2
  by_cases hq : q < (S.dfa t).size
  · by_cases ht : t < S.nodes.size
    · simp only [textStableC, List.all_eq_true, List.mem_range] at h
      have := h t ht q hq
      simp only [h1, h2, beq_iff_eq] at this
      exact this
    · have : (S.dfa t).size = 0 := by
        simp only [Schema.dfa, Schema.nodeType]
        rw [getElem!_neg S.nodes t ht]
        rfl
      omega
  · have : (S.dfa t).edgesOf q = [] := by
      simp only [Dfa.edgesOf]
      rw [Array.getElem?_eq_none (by omega)]
    simp [Dfa.matchType, this] at h1

/-! ### an approved join applies -/

/-- **`can_join` approves ∧ `check_join`'s test (`joinGuardR`) ∧ `TextStable` ⇒ the join step applies** -/
theorem join_applies (S : Schema) (hts : TextStableP S) (ty0 : TypeId) (a0 : Attrs) (m0 : Marks) (K : List Node)
    (pos : Nat) (r : RPos) (st : Step)
    (h : (Node.elem ty0 a0 m0 K).resolve pos = some r)
    (hv : S.checkNode (.elem ty0 a0 m0 K) = true) (hn : fnorm K = true)
    (hg : joinGuardR S r = true) (hc : canJoinR S r = some (some true))
    (hb : joinStep pos 1 = .ok st) :
    ∃ doc', S.apply st (.elem ty0 a0 m0 K) = .ok doc' := by
  have R := resolve_resolved h
  obtain ⟨ta, aa, ma, ka, b, hto, hi1, ha, hbk, hca, hcr⟩ := canJoinR_facts S R hc
  -- the node after is an element node with compatible content
  unfold joinGuardR at hg
  rw [ha, hbk] at hg
  obtain ⟨tb, ab, mb, kb, rfl⟩ : ∃ tb ab mb kb, b = Node.elem tb ab mb kb := by
    cases b with
    | elem tb ab mb kb => exact ⟨tb, ab, mb, kb, rfl⟩
    | text s m => simp at hg
    | leaf t a m => simp at hg
  have hcomp : S.compatibleContent tb ta = true := hg
  -- the parent's child list
  obtain ⟨tyP, aP, mP, ctx, eP, hl⟩ := Resolved.lvl h hn r.depth (Nat.le_refl _)
  have hs1 := kids_split _ _ _ ha
  have hs2 := kids_split _ _ _ hbk
  rw [show r.index r.depth - 1 + 1 = r.index r.depth by omega] at hs1
  have hdrop : r.parent.kids.drop (r.index r.depth)
      = Node.elem tb ab mb kb :: r.parent.kids.drop (r.index r.depth + 1) := by
    conv => lhs; rw [hs2]
    rw [List.drop_append]
    have hlen : (r.parent.kids.take (r.index r.depth)).length = r.index r.depth := by
      have : r.index r.depth < r.parent.kids.length := by
        rcases Nat.lt_or_ge (r.index r.depth) r.parent.kids.length with h' | h'
        · exact h'
        · simp [List.getElem?_eq_none h'] at hbk
      rw [List.length_take]; omega
    rw [List.drop_of_length_le (by omega), hlen, Nat.sub_self]
    simp
  rw [hdrop] at hs1
  generalize hpre : r.parent.kids.take (r.index r.depth - 1) = pre at hs1
  generalize hpost : r.parent.kids.drop (r.index r.depth + 1) = post at hs1
  have hprelen : pre.length = r.index r.depth - 1 := by
    rw [← hpre, List.length_take]
    have := R.index_le r.depth (Nat.le_refl _)
    change r.index r.depth ≤ r.parent.kids.length at this
    omega
  have hL : (r.node r.depth).kids = pre ++ Node.elem ta aa ma ka :: Node.elem tb ab mb kb :: post := hs1
  have hnL := hl.norm hn
  rw [hL] at hl hnL
  -- positions
  have E := R.entry r.depth (Nat.le_refl _)
  have hpe : (r.entry r.depth).pos = r.start r.depth + fsize ((r.node r.depth).kids.take (r.index r.depth)) :=
    E.pos_eq
  have hple := E.pos_le
  have hto' : r.textOffset = pos - (r.entry r.depth).pos := by unfold RPos.textOffset; rw [R.pos_eq]
  have htk : fsize ((r.node r.depth).kids.take (r.index r.depth)) = fsize pre + (2 + fsize ka) := by
    rw [hL, show r.index r.depth = pre.length + 1 by omega, take_mid, fsize_append]
    simp
  have hpos : pos = r.start r.depth + (fsize pre + (2 + fsize ka)) := by omega
  have hf : pos - 1 = r.start r.depth + (fsize pre + (1 + fsize ka)) := by omega
  have ht : pos + 1 = r.start r.depth + (fsize pre + (2 + fsize ka + 1)) := by omega
  -- the step
  unfold joinStep at hb
  rw [if_neg (by omega)] at hb
  simp only [Except.ok.injEq] at hb
  subst hb
  rw [hf, ht]
  -- validity of the joined node and of the parent's shorter child list
  have hvP := path_valid S R hv r.depth (Nat.le_refl _)
  have hvnP : S.validContent (S.tyOf (r.node r.depth)) (r.node r.depth).kids = true :=
    validContent_of_checkNode S _ tyP aP mP eP hvP
  have htyP : S.tyOf (r.node r.depth) = tyP := by rw [eP]; rfl
  have hva0 : S.checkNode (Node.elem ta aa ma ka) = true :=
    checkNode_child S _ _ hvP (List.mem_of_getElem? ha)
  have hvaa : S.validContent ta ka = true := by
    rw [checkNode_elem] at hva0
    simp only [Bool.and_eq_true] at hva0
    exact hva0.1.1
  have hnkb : fnormKids kb = true := by
    have := fnorm_append_right hnL
    have := (fnorm_cons (fnorm_cons this).2).1
    rw [Node.norm_elem] at this
    exact fnormKids_of_fnorm this
  have hva : S.validContent ta (ka ++ kb) = true := canAppend_valid S ta ka tb kb hvaa hnkb hca
  have hvp : S.validContent tyP (pre ++ Node.elem ta aa ma ka :: post) = true := by
    rw [← htyP]
    refine nodeCanReplace_remove S (r.node r.depth) pre post _ (Node.elem tb ab mb kb) hL hvnP ?_
    rw [hprelen, show r.index r.depth - 1 + 1 = r.index r.depth by omega]
    exact hcr
  obtain ⟨Y, hY⟩ := atLevel_join S hts tyP pre post ta aa ma ka tb ab mb kb 1 hnL hcomp hva hvp
  -- the structure flag's guard
  have hLsize : fsize pre + (2 + fsize ka + 1) + 1 ≤
      fsize (pre ++ Node.elem ta aa ma ka :: Node.elem tb ab mb kb :: post) := by
    simp [fsize_append]; omega
  have hrange := hl.range
  obtain ⟨A, D, hA, hX⟩ := hl.toks
  have hK : ftoks K = A ++ ftoks (pre ++ Node.elem ta aa ma ka :: Node.elem tb ab mb kb :: post) ++ D := by
    rw [← hX, hl.ctx_self]
  have hwin : ((ftoks K).drop (r.start r.depth + (fsize pre + (1 + fsize ka)))).take 2
      = [Tok.cl, Tok.op tb ab mb] := by
    have hlenL : (ftoks (pre ++ Node.elem ta aa ma ka :: Node.elem tb ab mb kb :: post)).length
        = fsize (pre ++ Node.elem ta aa ma ka :: Node.elem tb ab mb kb :: post) := ftoks_length _
    rw [hK, List.append_assoc, List.drop_append, List.drop_of_length_le (by omega), hA, List.nil_append,
      show r.start r.depth + (fsize pre + (1 + fsize ka)) - r.start r.depth = fsize pre + (1 + fsize ka) by omega,
      List.drop_append, List.take_append_of_le_length (by rw [List.length_drop, hlenL]; omega), join_toks]
  have hcb : contentBetween (Node.elem ty0 a0 m0 K) (r.start r.depth + (fsize pre + (1 + fsize ka)))
      (r.start r.depth + (fsize pre + (2 + fsize ka + 1))) = some false := by
    refine contentBetween_closesOpens (Node.elem ty0 a0 m0 K) _ _ hn (by omega)
      (by show _ ≤ fsize K; omega) ?_
    show closesOpens (((ftoks K).drop _).take _) = true
    rw [show r.start r.depth + (fsize pre + (2 + fsize ka + 1)) - (r.start r.depth + (fsize pre + (1 + fsize ka))) = 2
      by omega, hwin]
    rfl
  -- the replace
  obtain ⟨d1, _⟩ := hl.depth (fsize pre + (1 + fsize ka)) (by omega)
  obtain ⟨d2, _⟩ := hl.depth (fsize pre + (2 + fsize ka + 1)) (by omega)
  have hdf : depthAt (pre ++ Node.elem ta aa ma ka :: Node.elem tb ab mb kb :: post) (fsize pre + (1 + fsize ka)) = 1 := by
    rw [depthAt_append_pre, depthAt_elem_cons _ _ _ _ _ _ (by omega) (by omega),
      show 1 + fsize ka - 1 = fsize ka by omega, depthAt_fsize]
  have hdt : depthAt (pre ++ Node.elem ta aa ma ka :: Node.elem tb ab mb kb :: post) (fsize pre + (2 + fsize ka + 1)) = 1 := by
    rw [depthAt_append_pre, depthAt_skip _ _ _ (by simp)]
    have : 2 + fsize ka + 1 - (Node.elem ta aa ma ka).size = 1 := by simp
    rw [this, depthAt_elem_cons _ _ _ _ _ _ (by omega) (by omega)]
    simp
  have hrep : ∃ X, replaceKids S ty0 K (r.start r.depth + (fsize pre + (1 + fsize ka)))
      (r.start r.depth + (fsize pre + (2 + fsize ka + 1))) Slice.empty = .ok X := by
    unfold replaceKids
    rw [if_neg (by simp [inRange]; omega)]
    simp only []
    rw [if_neg (by simp [Slice.empty]), if_neg (by simp [Slice.empty, d1, d2, hdf, hdt]),
      if_neg (by simp [Slice.empty, Slice.wf, spineL, spineR]), d1, hdf]
    simp only [Slice.empty, Nat.sub_zero]
    have := hl.outer_extra (S := S) ⟨[], 0, 0⟩ (fsize pre + (1 + fsize ka)) (fsize pre + (2 + fsize ka + 1)) 1
      (by omega) (by omega)
    rw [this, outer_join S _ tyP pre post ta aa ma ka _ 1 (fnormKids_of_fnorm (fnorm_append_left hnL))]
    simp only [Slice.empty] at hY
    rw [hY]
    exact ⟨_, rfl⟩
  obtain ⟨X, hX'⟩ := hrep
  simp only [Schema.apply, if_true, hcb, Schema.fromReplace, Schema.replace, hX', Except.map]
  exact ⟨_, rfl⟩

end PM
