/-
  Proofs/ReplaceValid.lean — whatever `replace` returns is schema-valid (used by C01, C02, C11):
  every node rebuilt along the two cuts goes through `close` (content automaton + mark permissions),
  untouched subtrees are valid by hypothesis, nodes strictly inside the slice by `openValid`.
-/
import PM.Basic
import PM.Fragment
import PM.Content
import PM.Replace
import Proofs.Toks
import Proofs.ReplaceToks
import Proofs.FlatInsertCore
namespace PM

/-- validity of slice content whose left side is open `a` levels (right side closed) -/
def leftOpenValid (S : Schema) : Nat → List Node → Bool
  | 0, kids => S.checkKids kids
  | a + 1, (.elem _ _ m k) :: rest => canonicalMarks S m && leftOpenValid S a k && S.checkKids rest
  | _ + 1, _ => false

/-- validity of slice content whose right side is open `b` levels (left side closed) -/
def rightOpenValid (S : Schema) : Nat → List Node → Bool
  | 0, kids => S.checkKids kids
  | _ + 1, [] => false
  | b + 1, [.elem _ _ m k] => canonicalMarks S m && rightOpenValid S b k
  | _ + 1, [_] => false
  | b + 1, n :: n' :: rest => S.checkNode n && rightOpenValid S (b + 1) (n' :: rest)

/-- **payload validity of a slice**: every node off the two open spines is fully valid
    (`Node.check`), the spine nodes have canonical mark sets; spine nodes' own content is only
    validated once they are joined (that is `close`'s job). -/
def openValid (S : Schema) : Nat → Nat → List Node → Bool
  | 0, b, kids => rightOpenValid S b kids
  | a + 1, 0, kids => leftOpenValid S (a + 1) kids
  | a + 1, b + 1, [.elem _ _ m k] => canonicalMarks S m && openValid S a b k
  | a + 1, b + 1, (.elem _ _ m k) :: n :: rest =>
    canonicalMarks S m && leftOpenValid S a k && rightOpenValid S (b + 1) (n :: rest)
  | _ + 1, _ + 1, _ => false

/-! ### basics of `checkNode` / `checkKids` -/

@[simp] theorem checkKids_nil (S : Schema) : S.checkKids [] = true := by simp [Schema.checkKids]
@[simp] theorem checkKids_cons (S : Schema) (n : Node) (ns : List Node) :
    S.checkKids (n :: ns) = (S.checkNode n && S.checkKids ns) := by simp [Schema.checkKids]
@[simp] theorem checkNode_text (S : Schema) (s : List Nat) (m : Marks) :
    S.checkNode (.text s m) = canonicalMarks S m := by simp [Schema.checkNode]
theorem checkNode_leaf (S : Schema) (t : TypeId) (a : Attrs) (m : Marks) :
    S.checkNode (.leaf t a m) = (canonicalMarks S m && S.validContent t []) := by simp [Schema.checkNode]
theorem checkNode_elem (S : Schema) (t : TypeId) (a : Attrs) (m : Marks) (k : List Node) :
    S.checkNode (.elem t a m k) = (S.validContent t k && canonicalMarks S m && S.checkKids k) := by
  simp [Schema.checkNode]

theorem checkKids_append (S : Schema) (a b : List Node) :
    S.checkKids (a ++ b) = (S.checkKids a && S.checkKids b) := by
  induction a with
  | nil => simp
  | cons n ns ih => simp [ih, Bool.and_assoc]

theorem checkKids_iff (S : Schema) (l : List Node) : S.checkKids l = true ↔ ∀ n ∈ l, S.checkNode n = true := by
  induction l with
  | nil => simp
  | cons n ns ih => simp [ih]

/-- `valid_content` only looks at the types and marks of the children -/
theorem validContent_congr (S : Schema) (t : TypeId) (a b : List Node)
    (h : a.map (fun n => (S.tyOf n, n.marks)) = b.map (fun n => (S.tyOf n, n.marks))) :
    S.validContent t a = S.validContent t b := by
  have h1 : S.types a = S.types b := by
    have := congrArg (List.map Prod.fst) h
    simpa [Schema.types, List.map_map, Function.comp_def] using this
  have h2 : a.map Node.marks = b.map Node.marks := by
    have := congrArg (List.map Prod.snd) h
    simpa [List.map_map, Function.comp_def] using this
  have h3 : ∀ l : List Node, l.all (fun k => (S.nodeType t).allowsMarks k.marks)
      = (l.map Node.marks).all (fun m => (S.nodeType t).allowsMarks m) := by
    intro l; rw [List.all_map]; rfl
  unfold Schema.validContent
  rw [h1, h3 a, h3 b, h2]

theorem addNode_checkKids (S : Schema) (t : List Node) (c : Node) (ht : S.checkKids t = true)
    (hc : S.checkNode c = true) : S.checkKids (addNode t c) = true := by
  unfold addNode
  split
  · rename_i s m s' m' h
    split
    · have h2 := getLast?_decomp h
      rw [h2, checkKids_append] at ht
      simp only [Bool.and_eq_true, checkKids_cons, checkNode_text, checkKids_nil] at ht
      simp [checkKids_append, ht.1, ht.2.1]
    · simp [checkKids_append, ht, hc]
  · simp [checkKids_append, ht, hc]

theorem addNodes_checkKids (S : Schema) (t cs : List Node) (ht : S.checkKids t = true)
    (hc : S.checkKids cs = true) : S.checkKids (addNodes t cs) = true := by
  induction cs generalizing t with
  | nil => simpa [addNodes] using ht
  | cons c cs ih =>
    simp only [checkKids_cons, Bool.and_eq_true] at hc
    simp only [addNodes, List.foldl_cons] at *
    exact ih _ (addNode_checkKids S t c ht hc.1) hc.2

/-- text merging keeps validity of a child list -/
theorem fromArray_checkKids (S : Schema) (l : List Node) (h : S.checkKids l = true) :
    S.checkKids (fromArray l) = true :=
  addNodes_checkKids S [] l (by simp) h

theorem fappend_checkKids (S : Schema) (a b : List Node) (ha : S.checkKids a = true)
    (hb : S.checkKids b = true) : S.checkKids (fappend a b) = true := by
  unfold fappend
  cases b with
  | nil => exact ha
  | cons c rest =>
    simp only [checkKids_cons, Bool.and_eq_true] at hb
    simp only
    split
    · simp [hb]
    · rw [checkKids_append, addNode_checkKids S a c ha hb.1, hb.2]; rfl

/-! ### flat cuts -/

theorem fcutLoop_checkKids_flat (S : Schema) : ∀ (kids : List Node) (f t : Nat) (c : List Node),
    S.checkKids kids = true → depthAt kids f = 0 → depthAt kids t = 0 →
    fcutLoop kids f t = .ok c → S.checkKids c = true
  | [], f, t, c, hk, hf, ht, h => by
    unfold fcutLoop at h
    split at h
    · simp at h
    · simp at h; subst h; simp
  | n :: ns, f, t, c, hk, hf, ht, h => by
    simp only [checkKids_cons, Bool.and_eq_true] at hk
    unfold fcutLoop at h
    split at h
    · simp at h; subst h; simp
    · rename_i ht0
      -- depths for the recursive call
      have hf' : depthAt ns (f - n.size) = 0 := by
        unfold depthAt at hf
        split at hf
        · rename_i h0; subst h0; simp [depthAt_zero]
        · split at hf
          · exact hf
          · rename_i h1 h2
            have : f - n.size = 0 := by omega
            rw [this]; exact depthAt_zero ns
      have ht' : depthAt ns (t - n.size) = 0 := by
        unfold depthAt at ht
        rw [if_neg ht0] at ht
        split at ht
        · exact ht
        · have : t - n.size = 0 := by omega
          rw [this]; exact depthAt_zero ns
      have ih := fun c' => fcutLoop_checkKids_flat S ns (f - n.size) (t - n.size) c' hk.2 hf' ht'
      simp only at h
      split at h
      · rename_i hlt
        split at h
        · rename_i hcond
          split at h
          · rename_i s m
            split at h
            · rename_i s' hs'
              split at h
              · rename_i rest hrest
                simp at h; subst h
                have := hk.1
                simp only [checkNode_text] at this
                simp [this, ih rest hrest]
              · simp at h
            · simp at h
          · rename_i ty a m
            split at h
            · rename_i rest hrest
              simp at h; subst h
              simp [hk.1, ih rest hrest]
            · simp at h
          · rename_i ty a m kids'
            exfalso
            simp only [Node.size_elem] at hlt
            by_cases hf0 : f = 0
            · subst hf0
              simp only [Nat.lt_irrefl, decide_false, Bool.false_or, decide_eq_true_eq, Node.size_elem] at hcond
              unfold depthAt at ht
              rw [if_neg ht0, if_neg (by simp only [Node.size_elem]; omega)] at ht
              simp at ht
            · unfold depthAt at hf
              rw [if_neg hf0, if_neg (by simp only [Node.size_elem]; omega)] at hf
              simp at hf
        · split at h
          · rename_i rest hrest
            simp at h; subst h
            simp [hk.1, ih rest hrest]
          · simp at h
      · exact ih c h

/-- cutting a valid child list at a flat range (both ends at depth 0) gives valid children -/
theorem fcut_checkKids_flat (S : Schema) (kids c : List Node) (f t : Nat)
    (hk : S.checkKids kids = true) (hf : depthAt kids f = 0) (ht : depthAt kids t = 0)
    (h : fcut kids f t = .ok c) : S.checkKids c = true := by
  unfold fcut at h
  split at h
  · simp at h; subst h; exact hk
  · split at h
    · simp at h; subst h; simp
    · exact fcutLoop_checkKids_flat S kids f t c hk hf ht h

/-! ### validity of the part of a child list before / after an offset -/

/-- everything of `L` strictly before offset `f` is valid (nodes cut by `f`: canonical marks) -/
def prefixValid (S : Schema) : List Node → Nat → Bool
  | [], _ => true
  | n :: ns, f =>
    if f = 0 then true
    else if n.size ≤ f then S.checkNode n && prefixValid S ns (f - n.size)
    else match n with
      | .text _ m => canonicalMarks S m
      | .leaf .. => true
      | .elem _ _ m k => canonicalMarks S m && prefixValid S k (f - 1)

/-- everything of `R` after offset `t` is valid (a text node cut by `t`: canonical marks) -/
def suffixValid (S : Schema) : List Node → Nat → Bool
  | [], _ => true
  | n :: ns, t =>
    if t = 0 then S.checkKids (n :: ns)
    else if n.size ≤ t then suffixValid S ns (t - n.size)
    else match n with
      | .text _ m => canonicalMarks S m && S.checkKids ns
      | .leaf .. => S.checkKids ns
      | .elem _ _ _ k => suffixValid S k (t - 1) && S.checkKids ns

theorem prefixValid_of_check (S : Schema) : ∀ (L : List Node) (f : Nat), S.checkKids L = true →
    prefixValid S L f = true
  | [], f, h => by simp [prefixValid]
  | n :: ns, f, h => by
    simp only [checkKids_cons, Bool.and_eq_true] at h
    unfold prefixValid
    split
    · rfl
    · split
      · simp [h.1, prefixValid_of_check S ns _ h.2]
      · cases n with
        | text s m => simpa using h.1
        | leaf t a m => rfl
        | elem t a m k =>
          have h1 := h.1
          simp only [checkNode_elem, Bool.and_eq_true] at h1
          simp [h1.1.2, prefixValid_of_check S k _ h1.2]

theorem suffixValid_of_check (S : Schema) : ∀ (R : List Node) (t : Nat), S.checkKids R = true →
    suffixValid S R t = true
  | [], t, h => by simp [suffixValid]
  | n :: ns, t, h => by
    unfold suffixValid
    split
    · exact h
    · simp only [checkKids_cons, Bool.and_eq_true] at h
      split
      · exact suffixValid_of_check S ns _ h.2
      · cases n with
        | text s m => simpa [h.2] using h.1
        | leaf t a m => exact h.2
        | elem t a m k =>
          have h1 := h.1
          simp only [checkNode_elem, Bool.and_eq_true] at h1
          simp [h.2, suffixValid_of_check S k _ h1.2]

/-- what `splitRight` returns, under `suffixValid` -/
def RSplit.validK (S : Schema) : RSplit → Bool
  | .flat rest => S.checkKids rest
  | .deep (.elem _ _ _ k) inner rest => suffixValid S k inner && S.checkKids rest
  | .deep _ _ rest => S.checkKids rest

theorem splitRight_valid (S : Schema) : ∀ (Rt : List Node) (t : Nat) (r : RSplit),
    suffixValid S Rt t = true → splitRight Rt t = some r → r.validK S = true
  | [], 0, r, hv, h => by simp [splitRight] at h; subst h; simp [RSplit.validK]
  | [], _+1, r, hv, h => by simp [splitRight] at h
  | n :: ns, t, r, hv, h => by
    unfold splitRight at h
    unfold suffixValid at hv
    split at h
    · rename_i ht; rw [if_pos ht] at hv
      simp at h; subst h; simpa [RSplit.validK] using hv
    · rename_i ht; rw [if_neg ht] at hv
      split at h
      · rename_i hle; rw [if_pos hle] at hv
        exact splitRight_valid S ns _ r hv h
      · rename_i hle; rw [if_neg hle] at hv
        cases n with
        | text s m =>
          simp only at h
          split at h
          · simp at h; subst h
            simpa [RSplit.validK] using hv
          · simp at h
        | leaf ty a m => simp at h
        | elem ty a m kids =>
          simp at h; subst h
          simpa [RSplit.validK] using hv

theorem RSplit.rest_valid {S : Schema} {rs : RSplit} (h : rs.validK S = true) :
    S.checkKids rs.rest = true := by
  cases rs with
  | flat r => simpa [RSplit.validK, RSplit.rest] using h
  | deep c i r =>
    cases c <;> simp only [RSplit.validK, Bool.and_eq_true] at h <;>
      first | exact h | exact h.2

theorem close_valid {S : Schema} {ty a m} {pieces : List Node} {c : Node}
    (hm : canonicalMarks S m = true) (hp : S.checkKids pieces = true)
    (h : S.close ty a m (fromArray pieces) = .ok c) : S.checkNode c = true := by
  have hc := close_ok h
  unfold Schema.close at h
  split at h
  · rename_i hv
    rw [hc, checkNode_elem, hv, hm, fromArray_checkKids S _ hp]; rfl
  · simp at h

theorem twoWay_valid_gen (S : Schema) : ∀ (L : List Node) (f : Nat) (Rt : List Node) (t : Nat) (X : List Node),
    prefixValid S L f = true → suffixValid S Rt t = true → twoWay S L f Rt t = .ok X →
    S.checkKids X = true
  | [], f, Rt, t, X, hL, hR, h => by
    unfold twoWay at h
    split at h
    · split at h
      · rename_i rest hs; simp at h; subst h
        simpa [RSplit.validK] using splitRight_valid S _ _ _ hR hs
      · simp at h
      · simp at h
    · simp at h
  | n :: ns, f, Rt, t, X, hL, hR, h => by
    unfold twoWay at h
    unfold prefixValid at hL
    split at h
    · split at h
      · rename_i rest hs; simp at h; subst h
        simpa [RSplit.validK] using splitRight_valid S _ _ _ hR hs
      · simp at h
      · simp at h
    · rename_i hf; rw [if_neg hf] at hL
      split at h
      · rename_i hle; rw [if_pos hle] at hL
        simp only [Bool.and_eq_true] at hL
        split at h
        · rename_i r hr
          simp at h; subst h
          simp [hL.1, twoWay_valid_gen S ns _ Rt t r hL.2 hR hr]
        · simp at h
      · rename_i hle; rw [if_neg hle] at hL
        cases n with
        | text s m =>
          simp only at h hL
          split at h
          · simp at h
          · split at h
            · rename_i rest hs; simp at h; subst h
              have hr : S.checkKids rest = true := by
                simpa [RSplit.validK] using splitRight_valid S _ _ _ hR hs
              simp [hr, hL]
            · simp at h
            · simp at h
        | leaf ty a m => simp at h
        | elem ty a m kids =>
          simp only [Bool.and_eq_true] at h hL
          split at h
          · rename_i ty' a' m' kids' inner rest hs
            split at h
            · split at h
              · rename_i innerRes hin
                split at h
                · rename_i c hc
                  simp at h; subst h
                  have hr := splitRight_valid S _ _ _ hR hs
                  simp only [RSplit.validK, Bool.and_eq_true] at hr
                  have ih := twoWay_valid_gen S kids (f - 1) kids' inner innerRes hL.2 hr.1 hin
                  simp [close_valid hL.1 ih hc, hr.2]
                · simp at h
              · simp at h
            · simp at h
          · simp at h
          · simp at h

theorem twoWay_valid (S : Schema) (L : List Node) (f : Nat) (Rt : List Node) (t : Nat) (X : List Node)
    (hL : S.checkKids L = true) (hR : S.checkKids Rt = true)
    (h : twoWay S L f Rt t = .ok X) : S.checkKids X = true :=
  twoWay_valid_gen S L f Rt t X (prefixValid_of_check S L f hL) (suffixValid_of_check S Rt t hR) h

/-! ### open validity: sizes, relation to prefix/suffix validity -/

theorem leftOpenValid_size (S : Schema) : ∀ (a : Nat) (k : List Node), leftOpenValid S a k = true →
    2 * a ≤ fsize k
  | 0, _, _ => by omega
  | a + 1, [], h => by simp [leftOpenValid] at h
  | a + 1, .text .. :: _, h => by simp [leftOpenValid] at h
  | a + 1, .leaf .. :: _, h => by simp [leftOpenValid] at h
  | a + 1, .elem _ _ m k :: rest, h => by
    simp only [leftOpenValid, Bool.and_eq_true] at h
    have := leftOpenValid_size S a k h.1.2
    simp; omega

theorem rightOpenValid_size (S : Schema) : ∀ (b : Nat) (L : List Node), rightOpenValid S b L = true →
    2 * b ≤ fsize L
  | 0, _, _ => by omega
  | b + 1, [], h => by simp [rightOpenValid] at h
  | b + 1, [.text ..], h => by simp [rightOpenValid] at h
  | b + 1, [.leaf ..], h => by simp [rightOpenValid] at h
  | b + 1, [.elem _ _ m k], h => by
    simp only [rightOpenValid, Bool.and_eq_true] at h
    have := rightOpenValid_size S b k h.2
    simp; omega
  | b + 1, n :: n' :: rest, h => by
    simp only [rightOpenValid, Bool.and_eq_true] at h
    have := rightOpenValid_size S (b + 1) (n' :: rest) h.2
    simp only [fsize_cons] at *; omega

theorem leftOpenValid_suffix (S : Schema) : ∀ (a : Nat) (R : List Node), leftOpenValid S a R = true →
    suffixValid S R a = true
  | 0, R, h => by
    simp only [leftOpenValid] at h
    cases R with
    | nil => simp [suffixValid]
    | cons n ns => unfold suffixValid; simpa using h
  | a + 1, [], h => by simp [leftOpenValid] at h
  | a + 1, .text .. :: _, h => by simp [leftOpenValid] at h
  | a + 1, .leaf .. :: _, h => by simp [leftOpenValid] at h
  | a + 1, .elem _ _ m k :: rest, h => by
    simp only [leftOpenValid, Bool.and_eq_true] at h
    have hs := leftOpenValid_size S a k h.1.2
    unfold suffixValid
    rw [if_neg (by omega), if_neg (by simp only [Node.size_elem]; omega)]
    simp [leftOpenValid_suffix S a k h.1.2, h.2]

theorem rightOpenValid_prefix (S : Schema) : ∀ (b : Nat) (L : List Node), rightOpenValid S b L = true →
    prefixValid S L (fsize L - b) = true
  | 0, L, h => by
    simp only [rightOpenValid] at h
    exact prefixValid_of_check S L _ h
  | b + 1, [], h => by simp [rightOpenValid] at h
  | b + 1, [.text ..], h => by simp [rightOpenValid] at h
  | b + 1, [.leaf ..], h => by simp [rightOpenValid] at h
  | b + 1, [.elem _ _ m k], h => by
    simp only [rightOpenValid, Bool.and_eq_true] at h
    have hs := rightOpenValid_size S b k h.2
    have ih := rightOpenValid_prefix S b k h.2
    unfold prefixValid
    simp only [fsize_cons, fsize_nil, Node.size_elem]
    rw [if_neg (by omega), if_neg (by omega)]
    have : 2 + fsize k + 0 - (b + 1) - 1 = fsize k - b := by omega
    simp only [this, h.1, ih, Bool.and_self]
  | b + 1, n :: n' :: rest, h => by
    simp only [rightOpenValid, Bool.and_eq_true] at h
    have hs := rightOpenValid_size S (b + 1) (n' :: rest) h.2
    have ih := rightOpenValid_prefix S (b + 1) (n' :: rest) h.2
    unfold prefixValid
    split
    · rfl
    · rw [if_pos (by simp only [fsize_cons] at *; omega)]
      have : fsize (n :: n' :: rest) - (b + 1) - n.size = fsize (n' :: rest) - (b + 1) := by
        simp only [fsize_cons]; omega
      rw [this, h.1, ih]; rfl

theorem rightOpenValid_concat (S : Schema) (b : Nat) (ty a m) (k : List Node) : ∀ init : List Node,
    rightOpenValid S (b + 1) (init ++ [Node.elem ty a m k]) = true →
    S.checkKids init = true ∧ canonicalMarks S m = true ∧ rightOpenValid S b k = true
  | [], h => by
    simp only [List.nil_append, rightOpenValid, Bool.and_eq_true] at h
    exact ⟨by simp, h.1, h.2⟩
  | [x], h => by
    simp only [List.cons_append, List.nil_append, rightOpenValid, Bool.and_eq_true] at h
    exact ⟨by simp [h.1], h.2.1, h.2.2⟩
  | x :: y :: r, h => by
    simp only [List.cons_append, rightOpenValid, Bool.and_eq_true] at h
    have ih := rightOpenValid_concat S b ty a m k (y :: r) (by simpa using h.2)
    exact ⟨by simp only [checkKids_cons, Bool.and_eq_true] at ih ⊢; exact ⟨h.1, ih.1⟩, ih.2⟩

theorem openValid_zero_left (S : Schema) (b : Nat) (k : List Node) :
    openValid S 0 b k = rightOpenValid S b k := by
  simp [openValid]

theorem openValid_zero_right (S : Schema) (a : Nat) (k : List Node) :
    openValid S a 0 k = leftOpenValid S a k := by
  cases a with
  | zero => simp [openValid, rightOpenValid, leftOpenValid]
  | succ a => simp [openValid]

/-! ### three-way join -/

theorem rightJoin_congr (S : Schema) {M M' : List Node} (b : Nat) (rs : RSplit)
    (h : M.getLast? = M'.getLast?) : rightJoin S M b rs = rightJoin S M' b rs := by
  unfold rightJoin; rw [h]

/-- the pieces after the left part of a level: slice middle, right join node, rest of `R` -/
theorem tailPieces_valid {S : Schema} {M : List Node} {b : Nat} {rs : RSplit} {rj : List Node}
    (hM : rightOpenValid S b M = true) (hrs : rs.validK S = true)
    (h : rightJoin S M b rs = .ok rj) :
    S.checkKids ((if b ≠ 0 then M.dropLast else M) ++ rj ++ rs.rest) = true := by
  unfold rightJoin at h
  split at h
  · split at h
    · rename_i hb; subst hb
      simp at h; subst h
      simp only [rightOpenValid] at hM
      simp [checkKids_append, hM, RSplit.rest_valid hrs]
    · simp at h
  · rename_i cR innerT rest
    split at h
    · simp at h
    · rename_i hb
      split at h
      · rename_i tyE aE mE kidsE tyR aR mR kidsR hl
        split at h
        · split at h
          · rename_i r hr
            split at h
            · rename_i c hc
              simp at h; subst h
              obtain ⟨init, hMi⟩ : ∃ init, M = init ++ [Node.elem tyE aE mE kidsE] := ⟨_, getLast?_decomp hl⟩
              subst hMi
              obtain ⟨b', rfl⟩ : ∃ b', b = b' + 1 := ⟨b - 1, by omega⟩
              obtain ⟨hi, hm, hk⟩ := rightOpenValid_concat S b' tyE aE mE kidsE init hM
              simp only [RSplit.validK, Bool.and_eq_true] at hrs
              have hr' := twoWay_valid_gen S _ _ _ _ _ (rightOpenValid_prefix S b' kidsE hk) hrs.1
                (by simpa using hr)
              simp [checkKids_append, hi, close_valid hm hr' hc, RSplit.rest, hrs.2]
            · simp at h
          · simp at h
        · simp at h
      · simp at h

theorem flatTail_valid {S : Schema} {M : List Node} {a b : Nat} {Rt : List Node} {t : Nat} {X : List Node}
    (hM : openValid S a b M = true) (hR : suffixValid S Rt t = true) (h : flatTail S M a b Rt t = .ok X) :
    S.checkKids X = true := by
  unfold flatTail at h
  split at h
  · simp at h
  · rename_i ha; simp at ha; subst ha
    rw [openValid_zero_left] at hM
    split at h
    · simp at h
    · rename_i rs hs
      have hrs := splitRight_valid S _ _ _ hR hs
      split at h
      · rename_i rj hrj
        simp at h; subst h
        have := tailPieces_valid hM hrs hrj
        have hmid : middle M false (b != 0) = if b ≠ 0 then M.dropLast else M := by
          by_cases hb : b = 0 <;> simp [middle, hb]
        rw [hmid]; simpa using this
      · simp at h

theorem threeWay_valid_gen (S : Schema) : ∀ (L : List Node) (f extra : Nat) (M : List Node) (a b : Nat)
    (Rt : List Node) (t : Nat) (X : List Node),
    S.checkKids L = true → suffixValid S Rt t = true → openValid S a b M = true →
    threeWay S L f extra M a b Rt t = .ok X → S.checkKids X = true
  | [], f, extra, M, a, b, Rt, t, X, hL, hR, hM, h => by
    unfold threeWay at h
    split at h
    · split at h
      · exact flatTail_valid hM hR h
      · simp at h
    · simp at h
  | n :: ns, f, extra, M, a, b, Rt, t, X, hL, hR, hM, h => by
    unfold threeWay at h
    simp only [checkKids_cons, Bool.and_eq_true] at hL
    split at h
    · split at h
      · exact flatTail_valid hM hR h
      · simp at h
    · rename_i hf
      split at h
      · split at h
        · rename_i r hr
          simp at h; subst h
          simp [hL.1, threeWay_valid_gen S ns _ extra M a b Rt t r hL.2 hR hM hr]
        · simp at h
      · cases n with
        | text s m =>
          simp only at h
          split at h
          · simp at h
          · split at h
            · simp at h
            · split at h
              · rename_i r hr
                simp at h; subst h
                have h1 := hL.1
                simp only [checkNode_text] at h1
                simp [flatTail_valid hM hR hr, h1]
              · simp at h
        | leaf ty at_ m => simp at h
        | elem tyL aL mL kidsL =>
          have hnL := hL.1
          simp only [checkNode_elem, Bool.and_eq_true] at hnL
          have hkL := hnL.2
          have hmL := hnL.1.2
          simp only at h
          split at h
          · simp at h
          · rename_i rs hs
            have hrs := splitRight_valid S _ _ _ hR hs
            split at h
            · split at h
              · rename_i tyR aR mR kidsR innerT rest
                simp only [RSplit.validK, Bool.and_eq_true] at hrs
                split at h
                · split at h
                  · rename_i inner hin
                    split at h
                    · rename_i c hc
                      simp at h; subst h
                      have ih := threeWay_valid_gen S kidsL (f - 1) (extra - 1) M a b kidsR innerT inner
                        hkL hrs.1 hM hin
                      simp [close_valid hmL ih hc, hrs.2]
                    · simp at h
                  · simp at h
                · simp at h
              · simp at h
            · split at h
              · simp at h
              · rename_i ha0
                split at h
                · simp at h
                · rename_i cS Mtail
                  split at h
                  · rename_i tyS aS mS kidsS
                    split at h
                    · simp at h
                    · obtain ⟨a', rfl⟩ : ∃ a', a = a' + 1 := ⟨a - 1, by omega⟩
                      split at h
                      · rename_i tyR aR mR kidsR innerT rest b' x hx
                        obtain ⟨rfl, rfl⟩ : Node.elem tyS aS mS kidsS = x ∧ Mtail = [] := by
                          simpa using hx
                        simp only [RSplit.validK, Bool.and_eq_true] at hrs
                        simp only [openValid, Bool.and_eq_true] at hM
                        split at h
                        · simp at h
                        · split at h
                          · rename_i inner hin
                            split at h
                            · rename_i c hc
                              simp at h; subst h
                              have ih := threeWay_valid_gen S kidsL (f - 1) 0 kidsS a' b' kidsR innerT inner
                                hkL hrs.1 hM.2 (by simpa using hin)
                              simp [close_valid hmL ih hc, hrs.2]
                            · simp at h
                          · simp at h
                      · rename_i rs b _ _ _ hnot
                        split at h
                        · simp at h
                        · split at h
                          · rename_i lr hlr
                            split at h
                            · rename_i cl hcl
                              split at h
                              · rename_i rj hrj
                                simp at h; subst h
                                have hne : b ≠ 0 → Mtail ≠ [] := by
                                  intro hb0 hMt; subst hMt
                                  rcases rightJoin_toks hs hrj with ⟨h0, _⟩ |
                                    ⟨_, _, _, _, tyR, aR, mR, kidsR, innerT, rest, _, _, hrs', _⟩
                                  · exact hb0 h0
                                  · obtain ⟨b', rfl⟩ : ∃ b', b = b' + 1 := ⟨b - 1, by omega⟩
                                    exact hnot tyR aR mR kidsR innerT rest b' _ hrs' rfl rfl
                                -- decompose the slice's validity
                                have hparts : canonicalMarks S mS = true ∧ leftOpenValid S a' kidsS = true ∧
                                    rightOpenValid S b Mtail = true := by
                                  cases b with
                                  | zero =>
                                    simp only [openValid, leftOpenValid, Bool.and_eq_true] at hM
                                    exact ⟨hM.1.1, hM.1.2, by simpa [rightOpenValid] using hM.2⟩
                                  | succ b' =>
                                    cases Mtail with
                                    | nil => exact absurd rfl (hne (by omega))
                                    | cons y ys =>
                                      simp only [openValid, Bool.and_eq_true] at hM
                                      exact ⟨hM.1.1, hM.1.2, hM.2⟩
                                have hlr' := twoWay_valid_gen S _ _ _ _ _ (prefixValid_of_check S kidsL _ hkL)
                                  (leftOpenValid_suffix S a' kidsS hparts.2.1) (by simpa using hlr)
                                have hrj' : rightJoin S Mtail b rs = .ok rj := by
                                  by_cases hb0 : b = 0
                                  · subst hb0
                                    rw [← hrj]; unfold rightJoin
                                    cases rs <;> simp
                                  · rw [← hrj]
                                    apply rightJoin_congr
                                    cases Mtail with
                                    | nil => exact absurd rfl (hne hb0)
                                    | cons y ys => simp [List.getLast?_cons_cons]
                                have htail := tailPieces_valid hparts.2.2 hrs hrj'
                                have hmid : middle (Node.elem tyS aS mS kidsS :: Mtail) true (b != 0)
                                    = if b ≠ 0 then Mtail.dropLast else Mtail := by
                                  by_cases hb : b = 0 <;> simp [middle, hb]
                                rw [hmid]
                                simp only [checkKids_cons, close_valid hmL hlr' hcl, Bool.true_and]
                                simpa using htail
                              · simp at h
                            · simp at h
                          · simp at h
                  · simp at h

theorem threeWay_valid (S : Schema) (L : List Node) (f extra : Nat) (M : List Node) (a b : Nat)
    (Rt : List Node) (t : Nat) (X : List Node)
    (hL : S.checkKids L = true) (hR : S.checkKids Rt = true) (hM : openValid S a b M = true)
    (h : threeWay S L f extra M a b Rt t = .ok X) : S.checkKids X = true :=
  threeWay_valid_gen S L f extra M a b Rt t X hL (suffixValid_of_check S Rt t hR) hM h

/-! ### `atLevel`, `outer`, `replace` -/

theorem atLevel_valid {S : Schema} {sl : Slice} {ty : TypeId} {level : List Node} {f t extra : Nat}
    {X : List Node} (hl : S.checkKids level = true)
    (hs : openValid S sl.openStart sl.openEnd sl.content = true)
    (h : atLevel S sl ty level f t extra = .ok X) :
    S.checkKids X = true ∧ S.validContent ty X = true := by
  unfold atLevel at h
  simp only at h
  split at h
  · rename_i c hc
    split at h
    · rename_i hv
      simp at h; subst h
      refine ⟨?_, hv⟩
      split at hc
      · cases hx : twoWay S level f level t with
        | error e => rw [hx] at hc; simp [Except.map] at hc
        | ok r =>
          rw [hx] at hc; simp [Except.map] at hc; subst hc
          exact fromArray_checkKids S _ (twoWay_valid S _ _ _ _ _ hl hl hx)
      · split at hc
        · rename_i hcond
          simp only [Bool.and_eq_true, decide_eq_true_eq] at hcond
          obtain ⟨⟨⟨ha, hb⟩, hdf⟩, hdt⟩ := hcond
          rw [ha, hb] at hs
          simp only [openValid, rightOpenValid] at hs
          split at hc
          · rename_i l r hl' hr'
            simp at hc; subst hc
            exact fappend_checkKids S _ _
              (fappend_checkKids S _ _ (fcut_checkKids_flat S _ _ _ _ hl (depthAt_zero _) hdf hl') hs)
              (fcut_checkKids_flat S _ _ _ _ hl hdt (depthAt_fsize _) hr')
          · simp at hc
          · simp at hc
        · cases hx : threeWay S level f extra sl.content sl.openStart sl.openEnd level t with
          | error e => rw [hx] at hc; simp [Except.map] at hc
          | ok r =>
            rw [hx] at hc; simp [Except.map] at hc; subst hc
            exact fromArray_checkKids S _ (threeWay_valid S _ _ _ _ _ _ _ _ _ hl hl hs hx)
    · simp at h
  · simp at h

theorem outer_valid (S : Schema) (sl : Slice)
    (hs : openValid S sl.openStart sl.openEnd sl.content = true) :
    ∀ (rest : List Node) (ty : TypeId) (level : List Node) (f0 t0 idx f t extra : Nat)
      (pre X : List Node),
      level = pre ++ rest → idx = pre.length → S.checkKids level = true →
      S.validContent ty level = true →
      outer S sl ty level f0 t0 idx rest f t extra = .ok X →
      S.checkKids X = true ∧ S.validContent ty X = true
  | [], ty, level, f0, t0, idx, f, t, extra, pre, X, hl, hi, hk, hv, h => by
    unfold outer at h
    exact atLevel_valid hk hs h
  | n :: ns, ty, level, f0, t0, idx, f, t, extra, pre, X, hl, hi, hk, hv, h => by
    unfold outer at h
    split at h
    · exact atLevel_valid hk hs h
    · split at h
      · refine outer_valid S sl hs ns ty level f0 t0 (idx + 1) (f - n.size) (t - n.size) extra
          (pre ++ [n]) X ?_ ?_ hk hv h
        · simp [hl]
        · simp [hi]
      · split at h
        · rename_i tyC aC mC kidsC _
          split at h
          · split at h
            · rename_i inner hin
              simp at h; subst h
              subst hl; subst hi
              have hk' := hk
              simp only [checkKids_append, checkKids_cons, checkNode_elem, Bool.and_eq_true] at hk'
              have ih := outer_valid S sl hs kidsC tyC kidsC (f - 1) (t - 1) 0 (f - 1) (t - 1) (extra - 1)
                [] inner rfl rfl hk'.2.1.2 hk'.2.1.1.1 hin
              rw [set_mid]
              constructor
              · simp only [checkKids_append, checkKids_cons, checkNode_elem, Bool.and_eq_true]
                exact ⟨hk'.1, ⟨⟨ih.2, hk'.2.1.1.2⟩, ih.1⟩, hk'.2.2⟩
              · rw [← hv]
                apply validContent_congr
                simp [Schema.tyOf, Node.tyOr, Node.marks]
            · simp at h
          · exact atLevel_valid hk hs h
        · exact atLevel_valid hk hs h

/-- **replace returns valid children**: all children valid, and the parent's own content
    constraint still holds (validated by `close` at the level rebuilt, unchanged types/marks above). -/
theorem replaceKids_valid (S : Schema) (ty : TypeId) (kids : List Node) (f t : Nat) (sl : Slice)
    (kids' : List Node) (hk : S.checkKids kids = true) (hv : S.validContent ty kids = true)
    (hs : openValid S sl.openStart sl.openEnd sl.content = true)
    (h : replaceKids S ty kids f t sl = .ok kids') :
    S.checkKids kids' = true ∧ S.validContent ty kids' = true := by
  obtain ⟨_, _, _, ho⟩ := replaceKids_ok h
  exact outer_valid S sl hs kids ty kids f t 0 f t _ [] kids' rfl rfl hk hv ho

/-- **`Node.replace` on a valid document returns a valid document** -/
theorem replace_valid (S : Schema) (doc doc' : Node) (f t : Nat) (sl : Slice)
    (hd : S.checkNode doc = true)
    (hs : openValid S sl.openStart sl.openEnd sl.content = true)
    (h : S.replace doc f t sl = .ok doc') : S.checkNode doc' = true := by
  unfold Schema.replace at h
  split at h
  · rename_i ty a m kids
    simp only [checkNode_elem, Bool.and_eq_true] at hd
    cases hx : replaceKids S ty kids f t sl with
    | error e => rw [hx] at h; simp [Except.map] at h
    | ok kids' =>
      rw [hx] at h; simp [Except.map] at h; subst h
      have := replaceKids_valid S ty kids f t sl kids' hd.2 hd.1.1 hs hx
      simp [checkNode_elem, this.1, this.2, hd.1.2]
  · simp at h

set_option linter.unusedVariables false in
/-- `insert_into` below the top level validates the receiving node: the child list it returns for a
    node of type `p` is valid content for `p` when insertion happened directly in that node. -/
theorem flatInsert_valid (S : Schema) (ins level c : List Node) (p : TypeId) (d idx : Nat)
    (hidx : (findIndex level d).map (·.1) = some idx) (hd : depthAt level d = 0)
    (hal : alignedAt level d = true)
    (hl : S.checkKids level = true) (hi : S.checkKids ins = true)
    (h : flatInsert S ins (some p) level d idx = .ok (some c)) :
    S.checkKids c = true := by
  obtain ⟨l, r, hl', hr', rfl⟩ := flatInsert_ok_cuts h
  exact fappend_checkKids S _ _
    (fappend_checkKids S _ _ (fcut_checkKids_flat S _ _ _ _ hl (depthAt_zero _) hd hl') hi)
    (fcut_checkKids_flat S _ _ _ _ hl hd (depthAt_fsize _) hr')

/-! ### a slice cut from a valid document -/

theorem rightOpenValid_cons {S : Schema} {n : Node} {b : Nat} {rest : List Node}
    (hn : S.checkNode n = true) (hr : rightOpenValid S b rest = true) :
    rightOpenValid S b (n :: rest) = true := by
  cases b with
  | zero => simp only [rightOpenValid] at hr ⊢; simp [hn, hr]
  | succ b =>
    cases rest with
    | nil => simp [rightOpenValid] at hr
    | cons y ys => simp only [rightOpenValid, hn, hr]; rfl

theorem openValid_cons_elem {S : Schema} {ty at_ m} {k rest : List Node} {a b : Nat}
    (hm : canonicalMarks S m = true) (hk : leftOpenValid S a k = true)
    (hr : rightOpenValid S b rest = true) :
    openValid S (a + 1) b (Node.elem ty at_ m k :: rest) = true := by
  cases b with
  | zero =>
    simp only [rightOpenValid] at hr
    simp [openValid, leftOpenValid, hm, hk, hr]
  | succ b =>
    cases rest with
    | nil => simp [rightOpenValid] at hr
    | cons y ys => simp only [openValid, hm, hk, hr]; rfl

theorem openValid_single_elem {S : Schema} {ty at_ m} {k : List Node} {a b : Nat}
    (hm : canonicalMarks S m = true) (hk : openValid S a b k = true) :
    openValid S (a + 1) (b + 1) [Node.elem ty at_ m k] = true := by
  simp only [openValid, hm, hk]; rfl

def CutValidSpec (S : Schema) (kids : List Node) : Prop :=
  ∀ (f t : Nat) (c : List Node), (f < t ∨ (f = 0 ∧ t = 0)) → t ≤ fsize kids →
    fcutLoop kids f t = .ok c → openValid S (depthAt kids f) (depthAt kids t) c = true

theorem cutElem_valid (S : Schema) (ty : TypeId) (a : Attrs) (m : Marks) (kids : List Node)
    (IH : CutValidSpec S kids) (hk : S.checkKids kids = true)
    (f2 t2 : Nat) (c : Node) (hle : f2 ≤ t2) (ht2 : t2 ≤ fsize kids)
    (hdeg : f2 = t2 → f2 = 0 ∨ f2 = fsize kids)
    (h : Node.cut (.elem ty a m kids) f2 t2 = .ok c) :
    ∃ k', c = .elem ty a m k' ∧ openValid S (depthAt kids f2) (depthAt kids t2) k' = true := by
  rw [Node.cut] at h
  split at h
  · rename_i h1
    simp at h1 h
    obtain ⟨rfl, rfl⟩ := h1
    subst h
    exact ⟨kids, rfl, by simp [depthAt_fsize, openValid, rightOpenValid, hk]⟩
  · split at h
    · simp at h; subst h
      have : f2 = t2 := by omega
      subst this
      rcases hdeg rfl with rfl | rfl
      · exact ⟨[], rfl, by simp [openValid, rightOpenValid]⟩
      · exact ⟨[], rfl, by simp [depthAt_fsize, openValid, rightOpenValid]⟩
    · cases hc : fcutLoop kids f2 t2 with
      | error e => simp [hc, Except.map] at h
      | ok c' =>
        simp [hc, Except.map] at h
        subst h
        exact ⟨c', rfl, IH f2 t2 c' (by omega) ht2 hc⟩

theorem fcutLoop_openValid (S : Schema) : ∀ kids : List Node, S.checkKids kids = true → CutValidSpec S kids
  | [], _, f, t, c, hft, ht, h => by
    have : t = 0 := by simpa using ht
    subst this
    rw [fcutLoop_zero] at h; simp at h; subst h
    simp [depthAt, openValid, rightOpenValid]
  | n :: ns, hk, f, t, c, hft, ht, h => by
    simp only [checkKids_cons, Bool.and_eq_true] at hk
    have IHns := fcutLoop_openValid S ns hk.2
    by_cases ht0 : t = 0
    · subst ht0
      have : f = 0 := by omega
      subst this
      rw [fcutLoop_zero] at h; simp at h; subst h
      simp [openValid, rightOpenValid]
    have hft : f < t := by omega
    rw [fcutLoop] at h
    simp only [if_neg ht0] at h
    simp only [fsize_cons] at ht
    obtain ⟨sz, hsz⟩ : ∃ sz, sz = n.size := ⟨_, rfl⟩
    rw [← hsz] at h
    split at h
    · rename_i hfsz
      have h0 : f - sz = 0 := by omega
      rw [h0] at h
      -- the part after the head node
      have tailV : ∀ rest, fcutLoop ns 0 (t - sz) = .ok rest →
          rightOpenValid S (depthAt ns (t - sz)) rest = true := by
        intro rest hr
        by_cases hz : t - sz = 0
        · rw [hz, fcutLoop_zero] at hr; simp at hr; subst hr
          rw [hz]; simp [rightOpenValid]
        · have := IHns 0 (t - sz) rest (by omega) (by omega) hr
          simpa [openValid] using this
      have tailNil : ∀ rest, fcutLoop ns 0 (t - sz) = .ok rest → t < sz → rest = [] := by
        intro rest hr hlt
        have : t - sz = 0 := by omega
        rw [this, fcutLoop_zero] at hr
        simp at hr; exact hr
      -- depth at `t` when the head is not an element
      have dT_flat : (∀ ty a m k, n ≠ .elem ty a m k) → depthAt (n :: ns) t = depthAt ns (t - sz) := by
        intro hne
        by_cases hle : sz ≤ t
        · rw [depthAt_skip n ns t (by omega), ← hsz]
        · rw [depthAt_nonelem_cons n ns t (by omega) hne]
          have : t - sz = 0 := by omega
          rw [this]; simp
      split at h
      · rename_i hcut
        cases n with
        | text s m =>
          simp only at h
          cases hct : cutText s f (min s.length t) with
          | error e => simp [hct] at h
          | ok s' =>
            cases hr : fcutLoop ns 0 (t - sz) with
            | error e => simp [hct, hr] at h
            | ok rest =>
              simp [hct, hr] at h
              subst h
              rw [depthAt_nonelem_cons _ ns f (by omega) (by simp), dT_flat (by simp), openValid_zero_left]
              exact rightOpenValid_cons (by simpa using hk.1) (tailV rest hr)
        | leaf ty a m =>
          simp only at h
          cases hr : fcutLoop ns 0 (t - sz) with
          | error e => simp [hr] at h
          | ok rest =>
            simp [hr] at h
            subst h
            rw [depthAt_nonelem_cons _ ns f (by omega) (by simp), dT_flat (by simp), openValid_zero_left]
            exact rightOpenValid_cons hk.1 (tailV rest hr)
        | elem ty a m kids =>
          simp only at h
          have hnk := hk.1
          simp only [checkNode_elem, Bool.and_eq_true] at hnk
          cases hct : Node.cut (.elem ty a m kids) (f - 1) (min (fsize kids) (t - 1)) with
          | error e => simp [hct] at h
          | ok hd =>
            cases hr : fcutLoop ns 0 (t - sz) with
            | error e => simp [hct, hr] at h
            | ok rest =>
              simp [hct, hr] at h
              subst h
              simp at hsz
              obtain ⟨k', rfl, hv⟩ := cutElem_valid S ty a m kids (fcutLoop_openValid S kids hnk.2) hnk.2
                _ _ hd (by omega) (by omega) (by omega) hct
              by_cases hle : sz ≤ t
              · -- `t` beyond the head: the head is left-open only
                have hf0 : 0 < f := by
                  simp at hcut; omega
                have hm : min (fsize kids) (t - 1) = fsize kids := by omega
                rw [hm, depthAt_fsize, openValid_zero_right] at hv
                rw [depthAt_elem_cons _ _ _ _ _ _ hf0 (by omega), depthAt_skip _ ns t (by simp; omega),
                  Nat.add_comm 1]
                have := tailV rest hr
                rw [hsz] at this
                exact openValid_cons_elem hnk.1.2 hv this
              · have := tailNil rest hr (by omega)
                subst this
                have hm : min (fsize kids) (t - 1) = t - 1 := by omega
                rw [hm] at hv
                rw [depthAt_elem_cons _ _ _ _ ns t (by omega) (by omega), Nat.add_comm 1]
                by_cases hf0 : f = 0
                · subst hf0
                  simp only [Nat.zero_sub, depthAt_zero, openValid_zero_left] at hv ⊢
                  simp only [rightOpenValid, hnk.1.2, hv]; rfl
                · rw [depthAt_elem_cons _ _ _ _ _ _ (by omega) (by omega), Nat.add_comm 1]
                  exact openValid_single_elem hnk.1.2 hv
      · rename_i hcut
        simp at hcut
        cases hr : fcutLoop ns 0 (t - sz) with
        | error e => simp [hr] at h
        | ok rest =>
          simp [hr] at h
          subst h
          have hf0 : f = 0 := by omega
          subst hf0
          rw [depthAt_zero, depthAt_skip n ns t (by omega), openValid_zero_left, ← hsz]
          exact rightOpenValid_cons hk.1 (tailV rest hr)
    · rename_i hfsz
      have := IHns (f - sz) (t - sz) c (by omega) (by omega) h
      rw [depthAt_skip n ns f (by omega), depthAt_skip n ns t (by omega), ← hsz]
      exact this

theorem fcut_openValid (S : Schema) (kids c : List Node) (f t : Nat) (hk : S.checkKids kids = true)
    (hft : f < t) (ht : t ≤ fsize kids) (h : fcut kids f t = .ok c) :
    openValid S (depthAt kids f) (depthAt kids t) c = true := by
  unfold fcut at h
  split at h
  · rename_i h1
    simp at h1 h
    obtain ⟨rfl, rfl⟩ := h1
    subst h
    simp [depthAt_fsize, openValid, rightOpenValid, hk]
  · rw [if_neg (by omega)] at h
    exact fcutLoop_openValid S kids hk f t c (Or.inl hft) ht h

theorem sliceHere_openValid (S : Schema) (level : List Node) (f t : Nat) (s : Slice)
    (hk : S.checkKids level = true) (hft : f < t) (ht : t ≤ fsize level)
    (h : sliceHere level f t = .ok s) : openValid S s.openStart s.openEnd s.content = true := by
  unfold sliceHere at h
  split at h
  · rename_i c hc
    simp at h; subst h
    exact fcut_openValid S level c f t hk hft ht hc
  · simp at h

theorem sliceScan_openValid (S : Schema) : ∀ (rest level : List Node) (f0 t0 f t : Nat) (s : Slice),
    S.checkKids level = true → S.checkKids rest = true → f0 < t0 → t0 ≤ fsize level → f < t →
    sliceScan level f0 t0 rest f t = .ok s → openValid S s.openStart s.openEnd s.content = true
  | [], level, f0, t0, f, t, s, hl, hr, hft0, ht0, hft, h => by
    unfold sliceScan at h
    exact sliceHere_openValid S level f0 t0 s hl hft0 ht0 h
  | n :: ns, level, f0, t0, f, t, s, hl, hr, hft0, ht0, hft, h => by
    simp only [checkKids_cons, Bool.and_eq_true] at hr
    rw [sliceScan_cons] at h
    split at h
    · exact sliceHere_openValid S level f0 t0 s hl hft0 ht0 h
    · rename_i hf0
      split at h
      · exact sliceScan_openValid S ns level f0 t0 _ _ s hl hr.2 hft0 ht0 (by omega) h
      · cases n with
        | text s' m => exact sliceHere_openValid S level f0 t0 s hl hft0 ht0 h
        | leaf ty a m => exact sliceHere_openValid S level f0 t0 s hl hft0 ht0 h
        | elem ty a m kids =>
          simp only at h
          have hnk := hr.1
          simp only [checkNode_elem, Bool.and_eq_true] at hnk
          split at h
          · rename_i htsz
            simp only [Node.size_elem] at htsz
            exact sliceScan_openValid S kids kids (f - 1) (t - 1) (f - 1) (t - 1) s hnk.2 hnk.2
              (by omega) (by omega) (by omega) h
          · exact sliceHere_openValid S level f0 t0 s hl hft0 ht0 h

/-- **a slice cut from a valid document is a valid payload** -/
theorem sliceKids_openValid (S : Schema) (kids : List Node) (f t : Nat) (s : Slice)
    (hk : S.checkKids kids = true) (h : sliceKids kids f t = .ok s) :
    openValid S s.openStart s.openEnd s.content = true := by
  unfold sliceKids at h
  split at h
  · simp at h; subst h
    simp [Slice.empty, openValid, rightOpenValid]
  · rename_i hne
    split at h
    · simp at h
    · rename_i hg
      simp only [inRange, Bool.or_eq_true, Bool.not_eq_true', decide_eq_false_iff_not,
        decide_eq_true_eq, not_or, Nat.not_lt, Decidable.not_not] at hg
      exact sliceScan_openValid S kids kids f t f t s hk hk (by omega) hg.1.2 (by omega) h

end PM
