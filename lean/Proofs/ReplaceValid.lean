/-
  Proofs/ReplaceValid.lean — whatever `replace` returns is schema-valid (used by C01, C02, C11):
  every node rebuilt along the two cuts goes through `close` (content automaton + mark permissions),
  untouched subtrees are valid by hypothesis, nodes strictly inside the slice by `openValid`.
-/
import PM.Basic
import PM.Fragment
import PM.Content
import PM.Replace
import Proofs.Toks
import Proofs.ReplaceToks
namespace PM

/-- validity of slice content whose left side is open `a` levels (right side closed) -/
def leftOpenValid (S : Schema) : Nat → List Node → Bool
  | 0, kids => S.checkKids kids
  | a + 1, (.elem _ _ m k) :: rest => canonicalMarks S m && leftOpenValid S a k && S.checkKids rest
  | _ + 1, _ => false

/-- validity of slice content whose right side is open `b` levels (left side closed) -/
def rightOpenValid (S : Schema) : Nat → List Node → Bool
  | 0, kids => S.checkKids kids
  | _ + 1, [] => false
  | b + 1, [.elem _ _ m k] => canonicalMarks S m && rightOpenValid S b k
  | _ + 1, [_] => false
  | b + 1, n :: n' :: rest => S.checkNode n && rightOpenValid S (b + 1) (n' :: rest)

/-- **payload validity of a slice**: every node off the two open spines is fully valid
    (`Node.check`), the spine nodes have canonical mark sets; spine nodes' own content is only
    validated once they are joined (that is `close`'s job). -/
def openValid (S : Schema) : Nat → Nat → List Node → Bool
  | 0, b, kids => rightOpenValid S b kids
  | a + 1, 0, kids => leftOpenValid S (a + 1) kids
  | a + 1, b + 1, [.elem _ _ m k] => canonicalMarks S m && openValid S a b k
  | a + 1, b + 1, (.elem _ _ m k) :: n :: rest =>
    canonicalMarks S m && leftOpenValid S a k && rightOpenValid S (b + 1) (n :: rest)
  | _ + 1, _ + 1, _ => false

/-- `valid_content` only looks at the types and marks of the children -/
theorem validContent_congr (S : Schema) (t : TypeId) (a b : List Node)
    (h : a.map (fun n => (S.tyOf n, n.marks)) = b.map (fun n => (S.tyOf n, n.marks))) :
    S.validContent t a = S.validContent t b := by
  sorry

/-- text merging keeps validity of a child list -/
theorem fromArray_checkKids (S : Schema) (l : List Node) (h : S.checkKids l = true) :
    S.checkKids (fromArray l) = true := by
  sorry

theorem fappend_checkKids (S : Schema) (a b : List Node) (ha : S.checkKids a = true)
    (hb : S.checkKids b = true) : S.checkKids (fappend a b) = true := by
  sorry

/-- cutting a valid child list at a flat range (both ends at depth 0) gives valid children -/
theorem fcut_checkKids_flat (S : Schema) (kids c : List Node) (f t : Nat)
    (hk : S.checkKids kids = true) (hf : depthAt kids f = 0) (ht : depthAt kids t = 0)
    (h : fcut kids f t = .ok c) : S.checkKids c = true := by
  sorry

/-- **a slice cut from a valid document is a valid payload** -/
theorem sliceKids_openValid (S : Schema) (kids : List Node) (f t : Nat) (s : Slice)
    (hk : S.checkKids kids = true) (h : sliceKids kids f t = .ok s) :
    openValid S s.openStart s.openEnd s.content = true := by
  sorry

theorem twoWay_valid (S : Schema) (L : List Node) (f : Nat) (Rt : List Node) (t : Nat) (X : List Node)
    (hL : S.checkKids L = true) (hR : S.checkKids Rt = true)
    (h : twoWay S L f Rt t = .ok X) : S.checkKids X = true := by
  sorry

theorem threeWay_valid (S : Schema) (L : List Node) (f extra : Nat) (M : List Node) (a b : Nat)
    (Rt : List Node) (t : Nat) (X : List Node)
    (hL : S.checkKids L = true) (hR : S.checkKids Rt = true) (hM : openValid S a b M = true)
    (h : threeWay S L f extra M a b Rt t = .ok X) : S.checkKids X = true := by
  sorry

/-- **replace returns valid children**: all children valid, and the parent's own content
    constraint still holds (validated by `close` at the level rebuilt, unchanged types/marks above). -/
theorem replaceKids_valid (S : Schema) (ty : TypeId) (kids : List Node) (f t : Nat) (sl : Slice)
    (kids' : List Node) (hk : S.checkKids kids = true) (hv : S.validContent ty kids = true)
    (hs : openValid S sl.openStart sl.openEnd sl.content = true)
    (h : replaceKids S ty kids f t sl = .ok kids') :
    S.checkKids kids' = true ∧ S.validContent ty kids' = true := by
  sorry

/-- **`Node.replace` on a valid document returns a valid document** -/
theorem replace_valid (S : Schema) (doc doc' : Node) (f t : Nat) (sl : Slice)
    (hd : S.checkNode doc = true)
    (hs : openValid S sl.openStart sl.openEnd sl.content = true)
    (h : S.replace doc f t sl = .ok doc') : S.checkNode doc' = true := by
  sorry

/-- `insert_into` below the top level validates the receiving node: the child list it returns for a
    node of type `p` is valid content for `p` when insertion happened directly in that node. -/
theorem flatInsert_valid (S : Schema) (ins level c : List Node) (p : TypeId) (d idx : Nat)
    (hidx : (findIndex level d).map (·.1) = some idx) (hd : depthAt level d = 0)
    (hal : alignedAt level d = true)
    (hl : S.checkKids level = true) (hi : S.checkKids ins = true)
    (h : flatInsert S ins (some p) level d idx = .ok (some c)) :
    S.checkKids c = true := by
  sorry

end PM
