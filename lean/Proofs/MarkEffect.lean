/- Proofs/MarkEffect.lean — helper lemmas for Props/C13.lean -/
import PM.Step
import Proofs.StepToks
import Proofs.Marks
namespace PM

theorem mapIdxCtx_length (g : Nat → TypeId → Tok → Tok) (top : TypeId) (l : List Tok) :
    (mapIdxCtx g top l).length = l.length := by
  simp [mapIdxCtx]

/-- the enclosing types depend on the shapes only -/
theorem ctxAux_shape : ∀ (l l' : List Tok) (st : List TypeId),
    l.map Tok.shape = l'.map Tok.shape → ctxAux st l = ctxAux st l'
  | [], [], _, _ => rfl
  | [], _ :: _, _, h => by simp at h
  | _ :: _, [], _, h => by simp at h
  | a :: l, b :: l', st, h => by
    simp only [List.map_cons, List.cons.injEq] at h
    obtain ⟨hab, hl⟩ := h
    cases a <;> cases b <;> simp [Tok.shape] at hab <;>
      simp [ctxAux, hab, ctxAux_shape l l' _ hl]

theorem sameMarkup_tyOf (S : Schema) (a b : Node) (h : a.sameMarkup b = true) : S.tyOf a = S.tyOf b := by
  cases a <;> cases b <;> simp [Node.sameMarkup] at h <;> simp [Schema.tyOf, Node.tyOr, h]

theorem mapIdxCtx_getD (g : Nat → TypeId → Tok → Tok) (top : TypeId) (l : List Tok) (i : Nat)
    (hi : i < l.length) :
    (mapIdxCtx g top l).getD i Tok.cl = g i ((ctxOf top l).getD i 0) (l.getD i Tok.cl) := by
  rw [List.getD_eq_getElem?_getD, mapIdxCtx_getElem?, if_pos hi]
  rfl

theorem Tok.withMarks_marks (ms : Marks) (tok : Tok) (h : tok ≠ Tok.cl) :
    (tok.withMarks ms).marks = ms := by
  cases tok <;> first | rfl | exact absurd rfl h

theorem isAtomTok_ne_cl (S : Schema) (tok : Tok) (h : isAtomTok S tok = true) : tok ≠ Tok.cl := by
  intro e; subst e; simp [isAtomTok] at h

theorem isInlineTok_ne_cl (S : Schema) (tok : Tok) (h : isInlineTok S tok = true) : tok ≠ Tok.cl := by
  intro e; subst e; simp [isInlineTok] at h

/-- pointwise description of `addMarkToks` -/
theorem addMarkToks_getD (S : Schema) (m : Mark) (f t : Nat) (top : TypeId) (l : List Tok) (i : Nat)
    (hi : i < l.length) :
    (addMarkToks S m f t top l).getD i Tok.cl =
      if f ≤ i ∧ i < t ∧ isAtomTok S (l.getD i Tok.cl) = true ∧
          (S.nodeType ((ctxOf top l).getD i 0)).allowsMarkType m.ty = true
      then (l.getD i Tok.cl).withMarks (m.addToSet S (l.getD i Tok.cl).marks) else l.getD i Tok.cl := by
  unfold addMarkToks
  rw [mapIdxCtx_getD _ _ _ _ hi]

theorem removeMarkToks_getD (S : Schema) (m : Mark) (f t : Nat) (top : TypeId) (l : List Tok) (i : Nat)
    (hi : i < l.length) :
    (removeMarkToks S m f t top l).getD i Tok.cl =
      if f ≤ i ∧ i < t ∧ isInlineTok S (l.getD i Tok.cl) = true
      then (l.getD i Tok.cl).withMarks (m.removeFromSet (l.getD i Tok.cl).marks) else l.getD i Tok.cl := by
  unfold removeMarkToks
  rw [mapIdxCtx_getD _ _ _ _ hi]

/-- a splice of one token: lengths and pointwise behaviour -/
theorem splice_one_length (L : List Tok) (x : Tok) (pos : Nat) (h : pos < L.length) :
    (L.take pos ++ [x] ++ L.drop (pos + 1)).length = L.length := by
  simp; omega

theorem splice_one_getD_ne (L : List Tok) (x : Tok) (pos i : Nat) (h : pos < L.length) (hi : i ≠ pos) :
    (L.take pos ++ [x] ++ L.drop (pos + 1)).getD i Tok.cl = L.getD i Tok.cl := by
  rw [List.getD_eq_getElem?_getD, List.getD_eq_getElem?_getD]
  congr 1
  rcases Nat.lt_or_gt_of_ne hi with hlt | hgt
  · rw [List.append_assoc, List.getElem?_append_left (by simp; omega), List.getElem?_take_of_lt hlt]
  · rw [List.getElem?_append_right (by simp; omega)]
    simp only [List.length_append, List.length_take, List.length_singleton, List.getElem?_drop]
    congr 1
    omega

/-- the token list produced by wrapping a kept gap in a fresh empty element -/
theorem retype_arith (L : List Tok) (o c : Tok) (pos size : Nat) (hsz : 2 ≤ size)
    (hL : pos + size ≤ L.length) (N : List Tok)
    (hN : N = L.take pos ++ [o] ++ (L.drop (pos + 1)).take (size - 2) ++ [c] ++ L.drop (pos + size)) :
    N.length = L.length ∧
    (N.drop (pos + 1)).take (size - 2) = (L.drop (pos + 1)).take (size - 2) ∧
    N.take pos = L.take pos ∧
    N.drop (pos + size) = L.drop (pos + size) ∧
    N[pos]? = some o := by
  have hA : (L.take pos).length = pos := by simp; omega
  have hG : ((L.drop (pos + 1)).take (size - 2)).length = size - 2 := by simp; omega
  subst hN
  refine ⟨?_, ?_, ?_, ?_, ?_⟩
  · simp; omega
  · have e : L.take pos ++ [o] ++ (L.drop (pos + 1)).take (size - 2) ++ [c] ++ L.drop (pos + size)
        = (L.take pos ++ [o]) ++ ((L.drop (pos + 1)).take (size - 2) ++ ([c] ++ L.drop (pos + size))) := by
      simp
    rw [e, List.drop_left' (by simp; omega)]
    exact List.take_left' hG
  · simp only [List.append_assoc]
    exact List.take_left' hA
  · exact List.drop_left' (by simp; omega)
  · simp only [List.append_assoc]
    rw [List.getElem?_append_right (by omega)]
    simp [hA]

/-- an index/context-wise map that is the identity outside a window leaves the tokens there alone -/
theorem mapIdxCtx_outside (g : Nat → TypeId → Tok → Tok) (top : TypeId) (l : List Tok) (f t : Nat)
    (hout : ∀ i p tok, ¬ (f ≤ i ∧ i < t) → g i p tok = tok) (i : Nat) (hi : ¬ (f ≤ i ∧ i < t)) :
    (mapIdxCtx g top l)[i]? = l[i]? := by
  rw [mapIdxCtx_getElem?]
  by_cases h : i < l.length
  · rw [if_pos h, hout i _ _ hi, List.getD_eq_getElem?_getD, List.getElem?_eq_getElem h]
    simp
  · rw [if_neg h]
    exact (List.getElem?_eq_none (by omega)).symm

end PM
