/- Proofs/FitDeleteNorm.lean — the slice of the step the Fitter emits for a **deletion** is in normal form
   (`fnorm`): it contains no text node at all (`textFreeKids`): empty copies of the ancestors of `from`,
   fillers (`mkNodeO`: leaves and elements) and re-opened elements. -/
import Proofs.FitValid
import Proofs.FitterText
namespace PM
open PM

mutual
/-- no text node anywhere in the node -/
def Node.textFree : Node → Bool
  | .text .. => false
  | .leaf .. => true
  | .elem _ _ _ kids => textFreeKids kids
def textFreeKids : List Node → Bool
  | [] => true
  | n :: ns => n.textFree && textFreeKids ns
end

@[simp] theorem textFreeKids_nil : textFreeKids [] = true := by simp [textFreeKids]

theorem textFreeKids_cons (n : Node) (ns : List Node) :
    textFreeKids (n :: ns) = (n.textFree && textFreeKids ns) := by simp [textFreeKids]

theorem textFree_elem (t : TypeId) (a : Attrs) (m : Marks) (k : List Node) :
    (Node.elem t a m k).textFree = textFreeKids k := by simp [Node.textFree]

theorem textFreeKids_append : ∀ (a b : List Node),
    textFreeKids (a ++ b) = (textFreeKids a && textFreeKids b)
  | [], b => by simp
  | n :: ns, b => by
    simp only [List.cons_append, textFreeKids_cons, textFreeKids_append ns b, Bool.and_assoc]

theorem textFree_notText (n : Node) (h : n.textFree = true) : PM.FromDom.notText n := by
  cases n <;> simp_all [Node.textFree, PM.FromDom.notText]

theorem textFreeKids_mem : ∀ (l : List Node), textFreeKids l = true → ∀ n ∈ l, n.textFree = true
  | [], _, n, hn => by simp at hn
  | x :: xs, h, n, hn => by
    simp only [textFreeKids_cons, Bool.and_eq_true] at h
    rcases List.mem_cons.mp hn with rfl | hm
    · exact h.1
    · exact textFreeKids_mem xs h.2 n hm

theorem textFreeKids_of_forall : ∀ (l : List Node), (∀ n ∈ l, n.textFree = true) → textFreeKids l = true
  | [], _ => textFreeKids_nil
  | n :: ns, h => by
    rw [textFreeKids_cons, h n List.mem_cons_self,
      textFreeKids_of_forall ns fun x hx => h x (List.mem_cons_of_mem _ hx)]
    rfl

theorem textFreeKids_fappend (a b : List Node) (ha : textFreeKids a = true) (hb : textFreeKids b = true) :
    textFreeKids (fappend a b) = true := by
  rw [PM.FromDom.fappend_notText a b (fun n hn => textFree_notText n (textFreeKids_mem b hb n hn)),
    textFreeKids_append, ha, hb]
  rfl

/-! ### text-free implies normal form -/

theorem adjOk_textFree (a b : Node) (ha : a.textFree = true) : adjOk a b = true := by
  cases a <;> simp_all [Node.textFree, adjOk]

theorem chainOk_textFree : ∀ (l : List Node), textFreeKids l = true → chainOk l = true
  | [], _ => by simp [chainOk]
  | [a], _ => by simp [chainOk]
  | a :: b :: rest, h => by
    simp only [textFreeKids_cons, Bool.and_eq_true] at h
    have ih := chainOk_textFree (b :: rest) (by simp [textFreeKids_cons, h.2.1, h.2.2])
    simp [chainOk, adjOk_textFree a b h.1, ih]

mutual
theorem norm_textFree : ∀ (n : Node), n.textFree = true → n.norm = true
  | .text s m, h => by simp [Node.textFree] at h
  | .leaf .., _ => by simp [Node.norm]
  | .elem t a m kids, h => by
    rw [textFree_elem] at h
    simp [Node.norm, fnormKids_textFree kids h, chainOk_textFree kids h]
theorem fnormKids_textFree : ∀ (l : List Node), textFreeKids l = true → fnormKids l = true
  | [], _ => by simp [fnormKids]
  | n :: ns, h => by
    simp only [textFreeKids_cons, Bool.and_eq_true] at h
    simp [fnormKids, norm_textFree n h.1, fnormKids_textFree ns h.2]
end

theorem fnorm_textFree (l : List Node) (h : textFreeKids l = true) : fnorm l = true := by
  simp [fnorm, fnormKids_textFree l h, chainOk_textFree l h]

/-! ### fillers are text-free -/

theorem textFree_mkNode (S : Schema) (ty : TypeId) (a : Attrs) (m : Marks) (k : List Node)
    (hk : textFreeKids k = true) : (S.mkNodeO ty a m k).textFree = true := by
  unfold Schema.mkNodeO
  split
  · simp [Node.textFree]
  · rw [textFree_elem, hk]

theorem createAndFill_textFree (S : Schema) : ∀ (fuel : Nat) (ty : TypeId) (n : Node),
    createAndFill S fuel ty = some n → n.textFree = true
  | 0, _, _, h => by simp [createAndFill] at h
  | fuel + 1, ty, n, h => by
    unfold createAndFill at h
    split at h
    · simp at h
    · split at h
      · simp at h
      · split at h
        · simp at h
        · rename_i kids hk
          simp only [Option.some.injEq] at h
          subst h
          apply textFree_mkNode
          apply textFreeKids_of_forall
          exact mapM_option_forall _ _ (fun a b hab => createAndFill_textFree S fuel a b hab) _ _ hk

theorem fillBeforeNodes_textFree (S : Schema) (d : Dfa) (q : Nat) (after : List TypeId) (toEnd : Bool)
    (ns : List Node) (h : fillBeforeNodes S d q after toEnd = some (some ns)) : textFreeKids ns = true := by
  unfold fillBeforeNodes at h
  split at h
  · simp at h
  · split at h
    · simp at h
    · rename_i r hr
      simp only [Option.some.injEq] at h
      subst h
      apply textFreeKids_of_forall
      exact mapM_option_forall _ _ (fun a b hab => createAndFill_textFree S _ a b hab) _ _ hr

theorem fillOpt_textFree (S : Schema) (d : Dfa) (q : Nat) (after : List TypeId) (toEnd : Bool)
    (ns : List Node) (h : fillOpt S d q after toEnd = .ok (some ns)) : textFreeKids ns = true :=
  fillBeforeNodes_textFree S d q after toEnd ns (liftRaise_ok h)

/-! ### the fragment helpers -/

theorem addToFragment_textFree : ∀ (d : Nat) (frag c r : List Node),
    addToFragment frag d c = .ok r → textFreeKids frag = true → textFreeKids c = true →
    textFreeKids r = true
  | 0, frag, c, r, h, hf, hc => by
    have := pure_ok h
    subst this
    exact textFreeKids_fappend _ _ hf hc
  | d + 1, frag, c, r, h, hf, hc => by
    unfold addToFragment at h
    split at h
    · rename_i t a m kids hl
      obtain ⟨inner, hi, h⟩ := FM.bind_ok h
      have := pure_ok h
      subst this
      have hfrag : frag = frag.dropLast ++ [Node.elem t a m kids] := by
        obtain ⟨ys, rfl⟩ := List.getLast?_eq_some_iff.mp hl
        simp
      rw [hfrag, textFreeKids_append, textFreeKids_cons, textFree_elem] at hf
      simp only [Bool.and_eq_true, textFreeKids_nil, and_true] at hf
      have ih := addToFragment_textFree d kids c inner hi hf.2 hc
      simp [textFreeKids_append, textFreeKids_cons, textFree_elem, hf.1, ih]
    · simp [throw, throwThe, MonadExceptOf.throw] at h

/-! ### frontier operations -/

theorem closeFrontierNode_textFree (S : Schema) (fr : List FItem) (placed : List Node)
    (r : List FItem × List Node) (h : closeFrontierNode S fr placed = .ok r)
    (hp : textFreeKids placed = true) : textFreeKids r.2 = true := by
  unfold closeFrontierNode at h
  split at h
  · simp [throw, throwThe, MonadExceptOf.throw] at h
  · obtain ⟨q, _, h⟩ := FM.bind_ok h
    obtain ⟨add, hadd, h⟩ := FM.bind_ok h
    cases add with
    | none =>
      have := pure_ok h
      subst this; exact hp
    | some a =>
      simp only at h
      split at h
      · have := pure_ok h
        subst this; exact hp
      · obtain ⟨p, hp', h⟩ := FM.bind_ok h
        have := pure_ok h
        subst this
        exact addToFragment_textFree _ _ _ _ hp' hp (fillOpt_textFree S _ _ _ _ _ hadd)

theorem closeMany_textFree (S : Schema) : ∀ (n : Nat) (fr : List FItem) (placed : List Node)
    (r : List FItem × List Node), closeMany S n fr placed = .ok r → textFreeKids placed = true →
    textFreeKids r.2 = true
  | 0, fr, placed, r, h, hp => by
    have := pure_ok h
    subst this; exact hp
  | n + 1, fr, placed, r, h, hp => by
    unfold closeMany at h
    obtain ⟨x, hx, h⟩ := FM.bind_ok h
    exact closeMany_textFree S n _ _ r h (closeFrontierNode_textFree S fr placed x hx hp)

theorem openFrontierNode_textFree (S : Schema) (fr : List FItem) (placed : List Node) (ty : TypeId)
    (attrs : Option Attrs) (content : List Node) (hc : textFreeKids content = true)
    (r : List FItem × List Node) (h : openFrontierNode S fr placed ty attrs content = .ok r)
    (hp : textFreeKids placed = true) : textFreeKids r.2 = true := by
  unfold openFrontierNode at h
  obtain ⟨top, _, h⟩ := FM.bind_ok h
  obtain ⟨q, _, h⟩ := FM.bind_ok h
  obtain ⟨node, hnode, h⟩ := FM.bind_ok h
  obtain ⟨p', hp', h⟩ := FM.bind_ok h
  have := pure_ok h
  subst this
  have hn : node.textFree = true := by
    unfold Schema.createNodeO at hnode
    split at hnode
    · simp [throw, throwThe, MonadExceptOf.throw] at hnode
    · split at hnode
      · have := pure_ok hnode
        subst this
        exact textFree_mkNode S _ _ _ _ hc
      · simp [throw, throwThe, MonadExceptOf.throw] at hnode
  exact addToFragment_textFree _ _ _ _ hp' hp (by simp [textFreeKids_cons, hn])

/-! ### `close` -/

theorem contentAfterFitsAt_textFree (S : Schema) (node : Node) (index : Nat) (ty : TypeId) (st : Option Nat)
    (f : List Node) (h : contentAfterFitsAt S node index ty st = .ok (some f)) : textFreeKids f = true := by
  unfold contentAfterFitsAt at h
  split at h
  · simp [pure, Except.pure] at h
  · obtain ⟨q, _, h⟩ := FM.bind_ok h
    obtain ⟨fit, hfit, h⟩ := FM.bind_ok h
    cases fit with
    | none => simp [pure, Except.pure] at h
    | some g =>
      simp only at h
      split at h
      · simp [pure, Except.pure] at h
      · have := pure_ok h
        simp only [Option.some.injEq] at this
        subst this
        exact fillOpt_textFree S _ _ _ _ _ hfit

theorem contentAfterFits_textFree (S : Schema) (rt : RPos) (depth : Nat) (ty : TypeId) (st : Option Nat)
    (open_ : Bool) (f : List Node) (h : contentAfterFits S rt depth ty st open_ = .ok (some f)) :
    textFreeKids f = true := by
  unfold contentAfterFits at h
  by_cases hd : rt.depth < depth
  · simp [hd, throw, throwThe, MonadExceptOf.throw] at h
  · rw [if_neg hd] at h
    exact contentAfterFitsAt_textFree S _ _ _ _ f h

theorem findCloseLevelLoop_fit_textFree (S : Schema) (doc : Node) (rt : RPos) (fr : List FItem) :
    ∀ (n : Nat) (lv : CloseLevel), findCloseLevelLoop S doc rt fr n = .ok (some lv) →
      textFreeKids lv.fit = true
  | 0, lv, h => by simp [findCloseLevelLoop, pure, Except.pure] at h
  | i + 1, lv, h => by
    unfold findCloseLevelLoop at h
    obtain ⟨it, _, h⟩ := FM.bind_ok h
    simp only at h
    obtain ⟨r, hr, h⟩ := FM.bind_ok h
    cases r with
    | none => exact findCloseLevelLoop_fit_textFree S doc rt fr i lv h
    | some fit =>
      simp only at h
      obtain ⟨b, _, h⟩ := FM.bind_ok h
      cases b with
      | false => exact findCloseLevelLoop_fit_textFree S doc rt fr i lv h
      | true =>
        simp only [if_true] at h
        obtain ⟨mv, _, h⟩ := FM.bind_ok h
        have := pure_ok h
        simp only [Option.some.injEq] at this
        subst this
        exact contentAfterFits_textFree S rt i _ _ _ fit hr

theorem reopen_textFree (S : Schema) (mv : RPos) : ∀ (n d : Nat) (fr : List FItem) (placed : List Node)
    (r : List FItem × List Node), reopen S mv n d fr placed = .ok r → textFreeKids placed = true →
    textFreeKids r.2 = true
  | 0, d, fr, placed, r, h, hp => by
    have := pure_ok h
    subst this; exact hp
  | n + 1, d, fr, placed, r, h, hp => by
    unfold reopen at h
    simp only at h
    obtain ⟨add, hadd, h⟩ := FM.bind_ok h
    obtain ⟨x, hx, h⟩ := FM.bind_ok h
    have hc : textFreeKids (add.getD []) = true := by
      cases add with
      | none => rfl
      | some a => exact fillOpt_textFree S _ _ _ _ _ hadd
    exact reopen_textFree S mv n _ _ _ r h (openFrontierNode_textFree S fr placed _ _ _ hc x hx hp)

theorem closeFit_textFree (S : Schema) (doc : Node) (rt : RPos) (fr : List FItem) (placed : List Node)
    (mv : RPos) (p : List Node) (h : closeFit S doc rt fr placed = .ok (some (mv, p)))
    (hp : textFreeKids placed = true) : textFreeKids p = true := by
  unfold closeFit at h
  obtain ⟨r, hr, h⟩ := FM.bind_ok h
  cases r with
  | none => simp [pure, Except.pure] at h
  | some lv =>
    simp only at h
    obtain ⟨c1, hc1, h⟩ := FM.bind_ok h
    obtain ⟨pl, hpl, h⟩ := FM.bind_ok h
    obtain ⟨c2, hc2, h⟩ := FM.bind_ok h
    have := pure_ok h
    simp only [Option.some.injEq, Prod.mk.injEq] at this
    rw [← this.2]
    apply reopen_textFree S _ _ _ _ _ c2 hc2
    have hfit : textFreeKids lv.fit = true := findCloseLevelLoop_fit_textFree S doc rt fr _ lv hr
    have h1 := closeMany_textFree S _ _ _ c1 hc1 hp
    split at hpl
    · exact addToFragment_textFree _ _ _ _ hpl h1 hfit
    · have := pure_ok hpl
      subst this
      exact h1

/-! ### before and after -/

theorem fitInit_textFree {doc : Node} {f : Nat} {rf : RPos} (S : Schema) (hf : doc.resolve f = some rf)
    (sl : Slice) (st0 : FitState) (h : fitInit S rf sl = .ok st0) : textFreeKids st0.placed = true := by
  unfold fitInit at h
  obtain ⟨fr, _, h⟩ := FM.bind_ok h
  have := pure_ok h
  subst this
  have key : ∀ l : List Nat, (∀ i ∈ l, i < rf.depth) →
      textFreeKids (l.foldr (fun i acc => [(rf.node (i + 1)).withKids acc]) []) = true := by
    intro l
    induction l with
    | nil => intro _; rfl
    | cons i l ih =>
      intro hl
      obtain ⟨t, a, m, k, hn⟩ := resolve_node_elem hf i (hl i List.mem_cons_self)
      simp only [List.foldr_cons, textFreeKids_cons, textFreeKids_nil, Bool.and_true, hn, Node.withKids,
        textFree_elem]
      exact ih fun j hj => hl j (List.mem_cons_of_mem _ hj)
  exact key _ (fun i hi => List.mem_range.mp hi)

theorem textFreeKids_kids (n : Node) (h : n.textFree = true) : textFreeKids n.kids = true := by
  cases n with
  | text s m => simp [Node.kids]
  | leaf t a m => simp [Node.kids]
  | elem t a m k => simpa [Node.kids, textFree_elem] using h

theorem normalizeOpen_textFree : ∀ (n : Nat) (c : List Node) (os oe : Nat), textFreeKids c = true →
    textFreeKids (normalizeOpen n c os oe).1 = true
  | 0, c, os, oe, h => h
  | n + 1, c, os, oe, h => by
    unfold normalizeOpen
    split
    · rename_i only
      split
      · apply normalizeOpen_textFree n only.kids (os - 1) (oe - 1)
        apply textFreeKids_kids
        simpa [textFreeKids_cons] using h
      · exact h
    · exact h

theorem fitEmit_textFree (rf rt : RPos) (mi : Option Nat) (ps : Int) (to_ : RPos) (placed : List Node)
    (st : Step) (h : fitEmit rf rt mi ps to_ placed = .ok (some st)) (hp : textFreeKids placed = true) :
    ∀ sl', st.sliceOf = some sl' → textFreeKids sl'.content = true := by
  unfold fitEmit at h
  simp only at h
  have hn := normalizeOpen_textFree (rf.depth + 1) placed rf.depth to_.depth hp
  cases mi with
  | none =>
    simp only at h
    split at h
    · have := pure_ok h
      simp only [Option.some.injEq] at this
      subst this
      intro sl' hs
      simp only [Step.sliceOf, Option.some.injEq] at hs
      subst hs
      exact hn
    · simp [pure, Except.pure] at h
  | some p =>
    simp only at h
    split at h
    · simp [throw, throwThe, MonadExceptOf.throw] at h
    · have := pure_ok h
      simp only [Option.some.injEq] at this
      subst this
      intro sl' hs
      simp only [Step.sliceOf, Option.some.injEq] at hs
      subst hs
      exact hn

/-- the slice of every step `replace_step` emits for a deletion contains no text node -/
theorem replaceStep_empty_textFree (S : Schema) (doc : Node) (f t : Nat) (hv : S.checkNode doc = true)
    (st : Step) (h : replaceStep S doc f t Slice.empty = .ok (some st)) :
    ∀ sl', st.sliceOf = some sl' → textFreeKids sl'.content = true := by
  unfold replaceStep at h
  split at h
  · simp [pure, Except.pure] at h
  · split at h
    · rename_i rf rt hf ht
      split at h
      · simp [throw, throwThe, MonadExceptOf.throw] at h
      · have := pure_ok h
        simp only [Option.some.injEq] at this
        subst this
        intro sl' hs
        simp only [Step.sliceOf, Option.some.injEq] at hs
        subst hs
        rfl
      · obtain ⟨st0, h0, hu, _, hlen, _, _⟩ := fitInit_ok S hf hv Slice.empty
        have hp0 := fitInit_textFree S hf Slice.empty st0 h0
        unfold fitterFit at h
        rw [FM.bind_eq h0, FM.bind_eq (fitLoop_empty S _ st0 hu)] at h
        obtain ⟨mi, _, h⟩ := FM.bind_ok h
        simp only at h
        obtain ⟨target, htg, h⟩ := FM.bind_ok h
        obtain ⟨c, hc, h⟩ := FM.bind_ok h
        cases c with
        | none => simp [pure, Except.pure] at h
        | some c =>
          simp only at h
          have hcv := closeFit_textFree S doc target st0.frontier st0.placed c.1 c.2 hc hp0
          exact fitEmit_textFree rf rt mi _ c.1 c.2 st h hcv
    · simp [throw, throwThe, MonadExceptOf.throw] at h

/-- **the slice of every step `replace_step` emits for a deletion is in normal form** -/
theorem replaceStep_empty_norm (S : Schema) (doc : Node) (f t : Nat) (hv : S.checkNode doc = true)
    (st : Step) (h : replaceStep S doc f t Slice.empty = .ok (some st)) :
    ∀ sl', st.sliceOf = some sl' → fnorm sl'.content = true :=
  fun sl' hs => fnorm_textFree _ (replaceStep_empty_textFree S doc f t hv st h sl' hs)

end PM
