/- Proofs/FitCutGuard.lean — which ordinary slices satisfy the static guard `Slice.openPrefixOk` of `fit_no_raise`: every
   slice **cut from a valid document** (in normal form) all of whose non-leaf nodes have suffix-closed content
   (`Schema.suffixClosedB`: `x*`, `x+`, `(x | y)*`, `title? block*`, …).  `Fragment.cut` returns a contiguous run of the
   children with the first and last one cut themselves, so the children of every node of the slice are, by type, an infix
   of a sequence the node's automaton accepts; with suffix-closed content every suffix of an infix is matchable from the
   start state. -/
import Proofs.FitStable
set_option linter.unusedVariables false
namespace PM

/-! ### suffix-closed content -/

theorem run_of_suffixClosed (S : Schema) (w : TypeId) (h : S.suffixClosedB w = true) :
    ∀ (l : List TypeId) (q r : Nat), l ≠ [] → (S.dfa w).run q l = some r → (S.dfa w).run 0 l = some r
  | [], _, _, hne, _ => absurd rfl hne
  | t :: l, q, r, _, hr => by
    simp only [Dfa.run] at hr ⊢
    cases hm : (S.dfa w).matchType q t with
    | none => simp [hm] at hr
    | some q' =>
      rw [hm] at hr
      have hmem := Dfa.mem_of_matchType hm
      have hq : q < (S.dfa w).size := by
        rcases Nat.lt_or_ge q (S.dfa w).size with h1 | h1
        · exact h1
        · have : (S.dfa w).edgesOf q = [] := by
            simp only [Dfa.edgesOf]
            rw [Array.getElem?_eq_none (by omega)]
          rw [this] at hmem
          simp at hmem
      simp only [Schema.suffixClosedB, List.all_eq_true, List.mem_range, beq_iff_eq] at h
      have := h q hq (t, q') hmem
      simp only at this
      rw [this]
      exact hr

/-- of a sequence some state can run, every suffix can be run from the start state -/
theorem run_suffix_of_suffixClosed (S : Schema) (w : TypeId) (h : S.suffixClosedB w = true) (l : List TypeId)
    (q r : Nat) (hr : (S.dfa w).run q l = some r) (n : Nat) : ((S.dfa w).run 0 (l.drop n)).isSome = true := by
  by_cases hne : l.drop n = []
  · rw [hne]; rfl
  · have hsplit : l = l.take n ++ l.drop n := (List.take_append_drop n l).symm
    rw [hsplit, Dfa.run_append] at hr
    cases hq : (S.dfa w).run q (l.take n) with
    | none => simp [hq] at hr
    | some q' =>
      rw [hq] at hr
      simp only [Option.bind_some] at hr
      rw [run_of_suffixClosed S w h _ q' r hne hr]
      rfl

theorem suffixAll_of_drop (p : List TypeId → Bool) : ∀ (l : List TypeId), (∀ n, p (l.drop n) = true) →
    suffixAll p l = true
  | [], h => by simpa [suffixAll] using h 0
  | t :: l, h => by
    simp only [suffixAll, Bool.and_eq_true]
    exact ⟨by simpa using h 0, suffixAll_of_drop p l (fun n => by simpa using h (n + 1))⟩

/-! ### what the nodes of a slice cut from a valid document satisfy -/

mutual
/-- every non-leaf node of the tree has a type of the schema with suffix-closed content, and children some state of
    its automaton can run (they are an infix of an accepted sequence) -/
def Schema.infixNode (S : Schema) : Node → Prop
  | .elem t _ _ k => t < S.nodes.size ∧ S.suffixClosedB t = true ∧ (∃ q r, (S.dfa t).run q (S.types k) = some r) ∧
      S.infixKids k
  | _ => True
def Schema.infixKids (S : Schema) : List Node → Prop
  | [] => True
  | n :: ns => S.infixNode n ∧ S.infixKids ns
end

/-- **such nodes satisfy the static guard** -/
theorem openPrefix_of_infix (S : Schema) : ∀ (l : List Node), S.infixKids l →
    S.fillableKids l = true ∧ S.endChainOk l = true
  | [], _ => by simp [Schema.fillableKids, Schema.endChainOk]
  | n :: ns, h => by
    simp only [Schema.infixKids] at h
    obtain ⟨hn, hns⟩ := h
    obtain ⟨ih1, ih2⟩ := openPrefix_of_infix S ns hns
    have hnode : S.fillableNode n = true ∧ S.endChainNode n = true := by
      cases n with
      | text s m => simp [Schema.fillableNode, Schema.endChainNode]
      | leaf t a m => simp [Schema.fillableNode, Schema.endChainNode]
      | elem t a m k =>
        simp only [Schema.infixNode] at hn
        obtain ⟨hlt, hsc, ⟨q, r, hrun⟩, hk⟩ := hn
        obtain ⟨k1, k2⟩ := openPrefix_of_infix S k hk
        have hall : suffixAll (fun ts => ((S.dfa t).run 0 ts).isSome) (S.types k) = true :=
          suffixAll_of_drop _ _ (fun n => run_suffix_of_suffixClosed S t hsc _ q r hrun n)
        have hall2 : suffixAll (fun ts => (fillBeforeTypes S (S.dfa t) 0 ts false).isSome) (S.types k) = true := by
          apply suffixAll_of_drop
          intro n
          obtain ⟨r', hr'⟩ := Option.isSome_iff_exists.1 (run_suffix_of_suffixClosed S t hsc _ q r hrun n)
          rw [fillBeforeTypes_nil_of_run S _ 0 _ r' hr']
          rfl
        simp only [Schema.fillableNode, Schema.endChainNode, Bool.and_eq_true, decide_eq_true_eq]
        exact ⟨⟨⟨hlt, hall2⟩, k1⟩, hall, k2⟩
    refine ⟨by simp [Schema.fillableKids, hnode.1, ih1], ?_⟩
    rw [Schema.endChainOk]
    split
    · exact hnode.2
    · exact ih2

/-! ### the source: valid, in normal form, homogeneous -/

def SrcOK (S : Schema) (kids : List Node) : Prop :=
  S.checkKids kids = true ∧ fnormKids kids = true ∧ S.homogKids kids = true

theorem SrcOK_cons (S : Schema) (n : Node) (ns : List Node) (h : SrcOK S (n :: ns)) :
    (S.checkNode n = true ∧ n.norm = true ∧ S.homogNode n = true) ∧ SrcOK S ns := by
  obtain ⟨h1, h2, h3⟩ := h
  simp only [checkKids_cons, fnormKids_cons, Schema.homogKids, Bool.and_eq_true] at h1 h2 h3
  exact ⟨⟨h1.1, h2.1, h3.1⟩, h1.2, h2.2, h3.2⟩

theorem SrcOK_elem (S : Schema) (t : TypeId) (a : Attrs) (m : Marks) (k : List Node)
    (h : S.checkNode (.elem t a m k) = true ∧ (Node.elem t a m k).norm = true ∧ S.homogNode (.elem t a m k) = true) :
    t < S.nodes.size ∧ S.suffixClosedB t = true ∧ (∃ r, (S.dfa t).run 0 (S.types k) = some r) ∧ SrcOK S k := by
  obtain ⟨h1, h2, h3⟩ := h
  have hlt := checkNode_elem_ty S t a m k h1
  obtain ⟨_, _, hk⟩ := checkNode_elem_parts S t a m k h1
  rw [checkNode_elem] at h1
  simp only [Bool.and_eq_true, Schema.validContent] at h1
  have hacc := h1.1.1.1
  simp only [Schema.homogNode, Bool.and_eq_true] at h3
  rw [Node.norm_elem] at h2
  unfold fnorm at h2
  rw [Bool.and_eq_true] at h2
  refine ⟨hlt, h3.1, ?_, hk, h2.1, h3.2⟩
  unfold Dfa.accepts at hacc
  cases hr : (S.dfa t).run 0 (S.types k) with
  | none => simp [hr] at hacc
  | some r => exact ⟨r, rfl⟩

theorem infix_of_src (S : Schema) : ∀ (kids : List Node), SrcOK S kids → S.infixKids kids
  | [], _ => by simp [Schema.infixKids]
  | n :: ns, h => by
    obtain ⟨hn, hns⟩ := SrcOK_cons S n ns h
    simp only [Schema.infixKids]
    refine ⟨?_, infix_of_src S ns hns⟩
    cases n with
    | text s m => simp [Schema.infixNode]
    | leaf t a m => simp [Schema.infixNode]
    | elem t a m k =>
      obtain ⟨h1, h2, ⟨r, hr⟩, hk⟩ := SrcOK_elem S t a m k hn
      simp only [Schema.infixNode]
      exact ⟨h1, h2, ⟨0, r, hr⟩, infix_of_src S k hk⟩

/-! ### `Fragment.cut` returns, by type, an infix of the children -/

theorem Node.cut_tyOf (S : Schema) (n : Node) (f t : Nat) (c : Node) (h : Node.cut n f t = .ok c) :
    S.tyOf c = S.tyOf n := by
  cases n with
  | text s m =>
    rw [Node.cut] at h
    cases hc : cutText s f t with
    | error e => simp [hc, Except.map] at h
    | ok s' =>
      simp [hc, Except.map] at h
      subst h; rfl
  | leaf ty a m =>
    rw [Node.cut] at h
    simp at h
    subst h; rfl
  | elem ty a m kids =>
    rw [Node.cut] at h
    split at h
    · simp at h; subst h; rfl
    · split at h
      · simp at h; subst h; rfl
      · cases hc : fcutLoop kids f t with
        | error e => simp [hc, Except.map] at h
        | ok c' =>
          simp [hc, Except.map] at h
          subst h; rfl

/-- the shape of one kept node of the loop: the head (cut or not) keeps its type, the rest comes from the loop on
    the tail started at offset 0 -/
theorem fcutLoop_cons_kept (S : Schema) (n : Node) (ns : List Node) (f t : Nat) (c : List Node)
    (hnorm : n.norm = true) (ht : t ≠ 0) (hf : f < n.size) (h : fcutLoop (n :: ns) f t = .ok c) :
    ∃ hd rest, c = hd :: rest ∧ S.tyOf hd = S.tyOf n ∧ fcutLoop ns 0 (t - n.size) = .ok rest := by
  have hz : f - n.size = 0 := by omega
  rw [fcutLoop] at h
  rw [if_neg ht] at h
  simp only [hf, if_true, hz] at h
  split at h
  · cases n with
    | text s m =>
      simp only at h
      cases hct : cutText s f (min s.length t) with
      | error e => simp [hct] at h
      | ok s' =>
        simp only [hct] at h
        obtain ⟨rest, hr, rfl⟩ := match_cons_ok h
        exact ⟨_, rest, rfl, rfl, hr⟩
    | leaf ty a m =>
      simp only at h
      obtain ⟨rest, hr, rfl⟩ := match_cons_ok h
      exact ⟨_, rest, rfl, rfl, hr⟩
    | elem ty a m kids =>
      simp only at h
      cases hct : Node.cut (.elem ty a m kids) (f - 1) (min (fsize kids) (t - 1)) with
      | error e => simp [hct] at h
      | ok hd =>
        simp only [hct] at h
        obtain ⟨rest, hr, rfl⟩ := match_cons_ok h
        exact ⟨hd, rest, rfl, Node.cut_tyOf S _ _ _ hd hct, hr⟩
  · obtain ⟨rest, hr, rfl⟩ := match_cons_ok h
    exact ⟨n, rest, rfl, rfl, hr⟩

theorem fcutLoop_types_prefix (S : Schema) : ∀ (ns : List Node) (t : Nat) (c : List Node), fnormKids ns = true →
    fcutLoop ns 0 t = .ok c → ∃ k, S.types c = (S.types ns).take k
  | [], t, c, _, h => by
    rw [fcutLoop] at h
    split at h
    · simp at h
    · simp at h; subst h; exact ⟨0, rfl⟩
  | n :: ns, t, c, hn, h => by
    simp only [fnormKids_cons, Bool.and_eq_true] at hn
    by_cases ht : t = 0
    · subst ht
      rw [fcutLoop] at h
      simp at h
      subst h
      exact ⟨0, rfl⟩
    · have hpos := Node.size_pos_of_norm n hn.1
      obtain ⟨hd, rest, rfl, hty, hr⟩ := fcutLoop_cons_kept S n ns 0 t c hn.1 ht hpos h
      obtain ⟨k, hk⟩ := fcutLoop_types_prefix S ns _ rest hn.2 hr
      exact ⟨k + 1, by simp [Schema.types, hty] at hk ⊢; exact hk⟩

theorem fcutLoop_types_infix (S : Schema) : ∀ (ns : List Node) (f t : Nat) (c : List Node), fnormKids ns = true →
    fcutLoop ns f t = .ok c → ∃ i k, S.types c = ((S.types ns).drop i).take k
  | [], f, t, c, _, h => by
    rw [fcutLoop] at h
    split at h
    · simp at h
    · simp at h; subst h; exact ⟨0, 0, rfl⟩
  | n :: ns, f, t, c, hn, h => by
    simp only [fnormKids_cons, Bool.and_eq_true] at hn
    by_cases ht : t = 0
    · subst ht
      rw [fcutLoop] at h
      simp at h
      subst h
      exact ⟨0, 0, rfl⟩
    · by_cases hf : f < n.size
      · obtain ⟨hd, rest, rfl, hty, hr⟩ := fcutLoop_cons_kept S n ns f t c hn.1 ht hf h
        obtain ⟨k, hk⟩ := fcutLoop_types_prefix S ns _ rest hn.2 hr
        exact ⟨0, k + 1, by simp [Schema.types, hty] at hk ⊢; exact hk⟩
      · rw [fcutLoop] at h
        rw [if_neg ht] at h
        simp only [hf, if_false] at h
        obtain ⟨i, k, hik⟩ := fcutLoop_types_infix S ns _ _ c hn.2 h
        exact ⟨i + 1, k, by simpa [Schema.types] using hik⟩

theorem run_infix (d : Dfa) (l : List TypeId) (r : Nat) (h : d.run 0 l = some r) (i k : Nat) :
    ∃ q r', d.run q ((l.drop i).take k) = some r' := by
  have h1 : l = l.take i ++ l.drop i := (List.take_append_drop i l).symm
  rw [h1, Dfa.run_append] at h
  cases hq : d.run 0 (l.take i) with
  | none => simp [hq] at h
  | some q =>
    rw [hq] at h
    simp only [Option.bind_some] at h
    have h2 : l.drop i = (l.drop i).take k ++ (l.drop i).drop k := (List.take_append_drop k _).symm
    rw [h2, Dfa.run_append] at h
    cases hq' : d.run q ((l.drop i).take k) with
    | none => simp [hq'] at h
    | some r' => exact ⟨q, r', hq'⟩

/-! ### the nodes `Fragment.cut` returns -/

def CutInfix (S : Schema) (kids : List Node) : Prop := ∀ f t c, fcutLoop kids f t = .ok c → S.infixKids c

theorem cutElem_infix (S : Schema) (ty : TypeId) (a : Attrs) (m : Marks) (kids : List Node) (IH : CutInfix S kids)
    (hsrc : S.checkNode (.elem ty a m kids) = true ∧ (Node.elem ty a m kids).norm = true ∧
      S.homogNode (.elem ty a m kids) = true)
    (f2 t2 : Nat) (c : Node) (h : Node.cut (.elem ty a m kids) f2 t2 = .ok c) : S.infixNode c := by
  obtain ⟨h1, h2, ⟨r, hr⟩, hk⟩ := SrcOK_elem S ty a m kids hsrc
  rw [Node.cut] at h
  split at h
  · simp at h; subst h
    simp only [Schema.infixNode]
    exact ⟨h1, h2, ⟨0, r, hr⟩, infix_of_src S kids hk⟩
  · split at h
    · simp at h; subst h
      simp only [Schema.infixNode]
      exact ⟨h1, h2, ⟨0, 0, rfl⟩, by simp [Schema.infixKids]⟩
    · cases hc : fcutLoop kids f2 t2 with
      | error e => simp [hc, Except.map] at h
      | ok c' =>
        simp [hc, Except.map] at h
        subst h
        obtain ⟨i, k, hik⟩ := fcutLoop_types_infix S kids f2 t2 c' hk.2.1 hc
        obtain ⟨q, r', hq⟩ := run_infix (S.dfa ty) _ r hr i k
        simp only [Schema.infixNode]
        exact ⟨h1, h2, ⟨q, r', by rw [hik]; exact hq⟩, IH f2 t2 c' hc⟩

theorem fcutLoop_infix (S : Schema) : ∀ kids : List Node, SrcOK S kids → CutInfix S kids
  | [], _, f, t, c, h => by
    unfold fcutLoop at h
    split at h
    · simp at h
    · simp at h; subst h
      simp [Schema.infixKids]
  | n :: ns, hk, f, t, c, h => by
    obtain ⟨hn, hns⟩ := SrcOK_cons S n ns hk
    have IHns := fcutLoop_infix S ns hns
    have hnode : S.infixNode n := by
      have := infix_of_src S [n] ⟨by simp [hn.1], by simp [hn.2.1], by simp [Schema.homogKids, hn.2.2]⟩
      simpa [Schema.infixKids] using this
    rw [fcutLoop] at h
    split at h
    · simp at h; subst h
      simp [Schema.infixKids]
    · simp only at h
      split at h
      · split at h
        · cases n with
          | text s m =>
            simp only at h
            cases hct : cutText s f (min s.length t) with
            | error e => simp [hct] at h
            | ok s' =>
              simp only [hct] at h
              obtain ⟨rest, hr, rfl⟩ := match_cons_ok h
              simp only [Schema.infixKids, Schema.infixNode, true_and]
              exact IHns _ _ rest hr
          | leaf ty a m =>
            simp only at h
            obtain ⟨rest, hr, rfl⟩ := match_cons_ok h
            simp only [Schema.infixKids, Schema.infixNode, true_and]
            exact IHns _ _ rest hr
          | elem ty a m kids =>
            simp only at h
            obtain ⟨_, _, _, hkk⟩ := SrcOK_elem S ty a m kids hn
            cases hct : Node.cut (.elem ty a m kids) (f - 1) (min (fsize kids) (t - 1)) with
            | error e => simp [hct] at h
            | ok hd =>
              simp only [hct] at h
              obtain ⟨rest, hr, rfl⟩ := match_cons_ok h
              simp only [Schema.infixKids]
              exact ⟨cutElem_infix S ty a m kids (fcutLoop_infix S kids hkk) hn _ _ hd hct, IHns _ _ rest hr⟩
        · obtain ⟨rest, hr, rfl⟩ := match_cons_ok h
          simp only [Schema.infixKids]
          exact ⟨hnode, IHns _ _ rest hr⟩
      · exact IHns _ _ c h

theorem fcut_infix (S : Schema) (kids c : List Node) (f t : Nat) (hk : SrcOK S kids)
    (h : fcut kids f t = .ok c) : S.infixKids c := by
  unfold fcut at h
  split at h
  · simp at h; subst h; exact infix_of_src S kids hk
  · split at h
    · simp at h; subst h; simp [Schema.infixKids]
    · exact fcutLoop_infix S kids hk f t c h

theorem sliceScan_infix (S : Schema) : ∀ (rest level : List Node) (f0 t0 f t : Nat) (s : Slice),
    SrcOK S level → SrcOK S rest → sliceScan level f0 t0 rest f t = .ok s → S.infixKids s.content
  | [], level, f0, t0, f, t, s, hl, _, h => by
    unfold sliceScan at h
    unfold sliceHere at h
    split at h
    · rename_i c hc
      simp at h; subst h
      exact fcut_infix S level c f0 t0 hl hc
    · simp at h
  | n :: ns, level, f0, t0, f, t, s, hl, hr, h => by
    have here : sliceHere level f0 t0 = .ok s → S.infixKids s.content := by
      intro hh
      unfold sliceHere at hh
      split at hh
      · rename_i c hc
        simp at hh; subst hh
        exact fcut_infix S level c f0 t0 hl hc
      · simp at hh
    obtain ⟨hn, hns⟩ := SrcOK_cons S n ns hr
    rw [sliceScan_cons] at h
    split at h
    · exact here h
    · split at h
      · exact sliceScan_infix S ns level f0 t0 _ _ s hl hns h
      · cases n with
        | text s' m => exact here h
        | leaf ty a m => exact here h
        | elem ty a m kids =>
          simp only at h
          obtain ⟨_, _, _, hkk⟩ := SrcOK_elem S ty a m kids hn
          split at h
          · exact sliceScan_infix S kids kids _ _ _ _ s hkk hkk h
          · exact here h

/-- **every slice cut from a valid document in normal form whose non-leaf nodes have suffix-closed content satisfies the
    static guard `openPrefixOk`**, whatever its open depths -/
theorem slice_openPrefixOk (S : Schema) (src : Node) (f t : Nat) (sl : Slice) (hs : S.checkNode src = true)
    (hn : fnormKids src.kids = true) (hh : S.homogKids src.kids = true) (h : src.slice f t = .ok sl) :
    sl.openPrefixOk S = true := by
  have hsrc : SrcOK S src.kids := ⟨checkNode_kids hs, hn, hh⟩
  have : S.infixKids sl.content := by
    unfold Node.slice sliceKids at h
    split at h
    · simp at h; subst h
      simp [Slice.empty, Schema.infixKids]
    · split at h
      · simp at h
      · exact sliceScan_infix S _ _ _ _ _ _ sl hsrc hsrc h
  obtain ⟨h1, h2⟩ := openPrefix_of_infix S _ this
  simp [Slice.openPrefixOk, h1, h2]

/-- with a schema all of whose node types have suffix-closed content, every valid tree is homogeneous -/
theorem homogKids_of_schema (S : Schema) (hS : S.homogSchemaB = true) : ∀ (kids : List Node),
    S.checkKids kids = true → S.homogKids kids = true
  | [], _ => by simp [Schema.homogKids]
  | n :: ns, h => by
    simp only [checkKids_cons, Bool.and_eq_true] at h
    have ih := homogKids_of_schema S hS ns h.2
    cases n with
    | text s m => simp [Schema.homogKids, Schema.homogNode, ih]
    | leaf t a m => simp [Schema.homogKids, Schema.homogNode, ih]
    | elem t a m k =>
      obtain ⟨_, _, p3⟩ := checkNode_elem_parts S t a m k h.1
      have hk := homogKids_of_schema S hS k p3
      have hlt := checkNode_elem_ty S t a m k h.1
      simp only [Schema.homogSchemaB, List.all_eq_true, List.mem_range] at hS
      simp [Schema.homogKids, Schema.homogNode, hS t hlt, hk, ih]

end PM
