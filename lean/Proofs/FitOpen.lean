/- Proofs/FitOpen.lean — the validity invariant `VInv` (Proofs/FitPayload.lean) under `place_nodes` when the unplaced
   slice is **open**: what is carried along the unplaced slice (`UL`: closed nodes valid; the nodes of the two open spines
   with canonical marks, a type of the schema and children whose marks the type allows), what `close_node_start` returns
   for a start-open node (`closeNodeStart_open`: closed completely → valid, `closeNodeStart_closed_valid`; open at the end →
   right-loose with the same spine), what the take loop adds (`takeLoop_good`), and the levels `pushOpenEnd` pushes
   (`ValR_of_coh_RL`: their matches are `pushOpenEnd_coh`, their validity the right-looseness of the last taken node). -/
import Proofs.FitCloseStart
import Proofs.NoInternal
import Proofs.FitAround
set_option linter.unusedVariables false
namespace PM

/-! ### loose validity of a fragment with open sides -/

/-- the last child open `oe` levels: closed nodes valid; spine nodes with canonical marks, a type of the schema,
    children whose marks the type allows -/
def RL (S : Schema) : Nat → List Node → Prop
  | 0, frag => S.checkKids frag = true
  | oe + 1, frag => ∃ init t a m k, frag = init ++ [.elem t a m k] ∧ S.checkKids init = true ∧
      canonicalMarks S m = true ∧ t < S.nodes.size ∧ MarksOK S t k ∧ RL S oe k

/-- the first child open `os` levels, the last child `oe` levels -/
def UL (S : Schema) : Nat → Nat → List Node → Prop
  | 0, oe, frag => RL S oe frag
  | os + 1, oe, frag => ∃ t a m k rest, frag = .elem t a m k :: rest ∧ canonicalMarks S m = true ∧
      t < S.nodes.size ∧ MarksOK S t k ∧
      ((rest = [] ∧ UL S os (oe - 1) k) ∨ (rest ≠ [] ∧ UL S os 0 k ∧ RL S oe rest))

theorem checkNode_elem_ty (S : Schema) (t : TypeId) (a : Attrs) (m : Marks) (k : List Node)
    (h : S.checkNode (.elem t a m k) = true) : t < S.nodes.size := by
  rcases Nat.lt_or_ge t S.nodes.size with hlt | hge
  · exact hlt
  · exfalso
    rw [checkNode_elem] at h
    simp only [Bool.and_eq_true, Schema.validContent] at h
    have hacc := h.1.1.1
    have hd : S.dfa t = #[] := by
      simp only [Schema.dfa, Schema.nodeType]
      rw [getElem!_neg S.nodes t (by omega)]
      rfl
    unfold Dfa.accepts at hacc
    rw [hd] at hacc
    cases hk : S.types k with
    | nil =>
      rw [hk] at hacc
      simp [Dfa.run, Dfa.validEnd] at hacc
    | cons x xs =>
      rw [hk] at hacc
      simp [Dfa.run, Dfa.matchType, Dfa.edgesOf] at hacc

theorem checkNode_elem_parts (S : Schema) (t : TypeId) (a : Attrs) (m : Marks) (k : List Node)
    (h : S.checkNode (.elem t a m k) = true) :
    canonicalMarks S m = true ∧ MarksOK S t k ∧ S.checkKids k = true := by
  rw [checkNode_elem] at h
  simp only [Bool.and_eq_true, Schema.validContent, List.all_eq_true] at h
  exact ⟨h.1.2, h.1.1.2, h.2⟩

theorem RL_cons (S : Schema) (b : Nat) (n : Node) (rest : List Node) (hn : S.checkNode n = true)
    (hr : RL S b rest) (hne : rest ≠ [] ∨ b = 0) : RL S b (n :: rest) := by
  cases b with
  | zero =>
    simp only [RL] at hr ⊢
    simp [hn, hr]
  | succ b =>
    obtain ⟨init, t, a, m, k, e, h1, h2, h3, h4, h5⟩ := hr
    exact ⟨n :: init, t, a, m, k, by rw [e]; rfl, by simp [hn, h1], h2, h3, h4, h5⟩

theorem fappend_snoc_elem' (Y init : List Node) (t : TypeId) (a : Attrs) (m : Marks) (k : List Node) :
    fappend Y (init ++ [.elem t a m k]) = fappend Y init ++ [.elem t a m k] := by
  cases init with
  | nil =>
    simp only [List.nil_append]
    rw [fappend_singleton_elem]
    rfl
  | cons c i' =>
    unfold fappend
    simp only [List.cons_append]
    split
    · rfl
    · simp

theorem RL_fappend_left (S : Schema) (b : Nat) (Y F : List Node) (hY : S.checkKids Y = true) (h : RL S b F) :
    RL S b (fappend Y F) := by
  cases b with
  | zero =>
    simp only [RL] at h ⊢
    exact fappend_checkKids S Y F hY h
  | succ b =>
    obtain ⟨init, t, a, m, k, e, h1, h2, h3, h4, h5⟩ := h
    subst e
    rw [fappend_snoc_elem']
    exact ⟨_, t, a, m, k, rfl, fappend_checkKids S Y init hY h1, h2, h3, h4, h5⟩

theorem fappend_nil_right (X : List Node) : fappend X [] = X := rfl

/-- a start-open node whose content is closed at the end is `leftLoose` -/
theorem leftLoose_of_UL (S : Schema) : ∀ (x : Nat) (t : TypeId) (k : List Node), MarksOK S t k → UL S x 0 k →
    leftLoose S x t k
  | 0, t, k, hm, h => ⟨h, hm⟩
  | x + 1, t, k, hm, ⟨tc, ac, mc, kc, rest, e, h1, h2, h3, h4⟩ => by
    subst e
    rcases h4 with ⟨hr, hu⟩ | ⟨hr, hu, hrl⟩
    · subst hr
      exact ⟨hm, by simp, h1, leftLoose_of_UL S x tc kc h3 (by simpa using hu)⟩
    · exact ⟨hm, hrl, h1, leftLoose_of_UL S x tc kc h3 hu⟩

/-- the fragment at slice depth `sd ≤ open_start`: open `open_start - sd` levels at its start; at its end open
    `open_end - sd` levels when it lies at the end of a single chain, closed otherwise -/
theorem UL_contentAt (S : Schema) : ∀ (sd os oe : Nat) (c F : List Node), UL S os oe c → contentAt c sd = .ok F →
    sd ≤ os → ∃ oe', UL S (os - sd) oe' F ∧ ((pureTo sd c F ∧ oe' = oe - sd) ∨ (¬ pureTo sd c F ∧ oe' = 0))
  | 0, os, oe, c, F, h, hc, _ => by
    have := pure_ok hc
    subst this
    exact ⟨oe, h, .inl ⟨rfl, rfl⟩⟩
  | sd + 1, os, oe, c, F, h, hc, hle => by
    obtain ⟨os', rfl⟩ : ∃ os', os = os' + 1 := ⟨os - 1, by omega⟩
    obtain ⟨t, a, m, k, rest, e, h1, h2, h3, h4⟩ := h
    subst e
    unfold contentAt at hc
    simp only [Node.kids] at hc
    rw [show os' + 1 - (sd + 1) = os' - sd by omega]
    rcases h4 with ⟨hr, hu⟩ | ⟨hr, hu, _⟩
    · subst hr
      obtain ⟨oe', hu', hd⟩ := UL_contentAt S sd os' (oe - 1) k F hu hc (by omega)
      refine ⟨oe', hu', ?_⟩
      rcases hd with ⟨hp, he⟩ | ⟨hp, he⟩
      · exact .inl ⟨⟨t, a, m, k, rfl, hp⟩, by omega⟩
      · refine .inr ⟨?_, he⟩
        intro ⟨t', a', m', k', e', hp'⟩
        simp only [List.cons.injEq, Node.elem.injEq, and_true] at e'
        obtain ⟨_, _, _, e4⟩ := e'
        subst e4
        exact hp hp'
    · obtain ⟨oe', hu', hd⟩ := UL_contentAt S sd os' 0 k F hu hc (by omega)
      refine ⟨oe', hu', .inr ⟨?_, ?_⟩⟩
      · intro ⟨t', a', m', k', e', _⟩
        simp only [List.cons.injEq] at e'
        exact hr e'.2
      · rcases hd with ⟨_, he⟩ | ⟨_, he⟩
        · omega
        · exact he

/-- the nodes of such a fragment off its two open ends are valid -/
theorem UL_closed_at (S : Schema) (x b : Nat) (F : List Node) (h : UL S x b F) (j : Nat) (node : Node)
    (hj : F[j]? = some node) (hx : x = 0 ∨ 0 < j) (hb : b = 0 ∨ j + 1 < F.length) : S.checkNode node = true := by
  have hRL : ∀ (b : Nat) (G : List Node), RL S b G → ∀ (i : Nat) (nd : Node), G[i]? = some nd →
      (b = 0 ∨ i + 1 < G.length) → S.checkNode nd = true := by
    intro b G hG i nd hi hbi
    cases b with
    | zero =>
      exact (checkKids_iff S G).1 hG nd (List.mem_of_getElem? hi)
    | succ b =>
      obtain ⟨init, t, a, m, k, e, h1, _⟩ := hG
      subst e
      have hlt : i < init.length := by
        rcases hbi with h0 | h0
        · omega
        · simp only [List.length_append, List.length_singleton] at h0
          omega
      rw [List.getElem?_append_left hlt] at hi
      exact (checkKids_iff S init).1 h1 nd (List.mem_of_getElem? hi)
  cases x with
  | zero => exact hRL b F h j node hj hb
  | succ x =>
    obtain ⟨t, a, m, k, rest, e, h1, h2, h3, h4⟩ := h
    subst e
    have hj0 : 0 < j := by
      rcases hx with h0 | h0
      · omega
      · exact h0
    obtain ⟨j', rfl⟩ : ∃ j', j = j' + 1 := ⟨j - 1, by omega⟩
    simp only [List.getElem?_cons_succ] at hj
    rcases h4 with ⟨hr, _⟩ | ⟨hr, _, hrl⟩
    · subst hr
      simp at hj
    · exact hRL b rest hrl j' node hj (by
        rcases hb with h0 | h0
        · exact .inl h0
        · simp only [List.length_cons] at h0
          exact .inr (by omega))

/-! ### `close_node_start` on a start-open node -/

/-- open at the end: the children stay right-loose along the same spine, their marks allowed -/
theorem closeNodeStart_open (S : Schema) (hdet : DetS S) (hleaf : PM.FromDom.LeafOk S) (hts : TextStableP S) :
    ∀ (x : Nat) (t : TypeId) (a : Attrs) (m : Marks) (k : List Node) (b : Nat) (r : Node),
    canonicalMarks S m = true → MarksOK S t k → UL S x b k →
    closeNodeStart S (x + 1) (.elem t a m k) ((b + 1 : Nat) : Int) = .ok r →
    ∃ kk, r = .elem t a m kk ∧ MarksOK S t kk ∧ RL S b kk := by
  intro x
  induction x with
  | zero =>
    intro t a m k b r hm hmk hu h
    unfold closeNodeStart at h
    simp only [Node.kids, if_true, Schema.tyOf, Node.tyOr] at h
    obtain ⟨frag, hfrag, h⟩ := FM.bind_ok h
    have := pure_ok hfrag
    subst this
    obtain ⟨fill, hfill, h⟩ := FM.bind_ok h
    obtain ⟨fill', hfill', h⟩ := FM.bind_ok h
    have hf := liftRaise_ok hfill'
    rw [hf] at hfill
    obtain ⟨tail, htail, h⟩ := FM.bind_ok h
    have := pure_ok h
    subst this
    rw [if_neg (by omega)] at htail
    have := pure_ok htail
    subst this
    have hn1 := fillOpt_nodes S hdet hleaf _ _ _ _ fill' hfill
    have hv1 : S.checkKids fill' = true := (checkKids_iff S _).2 (fun n hn => (hn1 n hn).1)
    refine ⟨fappend fill' k, by simp only [Node.withKids, fappend_nil_right], ?_, RL_fappend_left S b fill' k hv1 hu⟩
    exact MarksOK_fappend S t _ _ (MarksOK_of_nil S _ _ (fun n hn => (hn1 n hn).2)) hmk
  | succ x ih =>
    intro t a m k b r hm hmk hu h
    obtain ⟨tc, ac, mc, kc, rest, e, h1, h2, h3, h4⟩ := hu
    subst e
    unfold closeNodeStart at h
    simp only [Node.kids, Schema.tyOf, Node.tyOr, Nat.add_one_ne_zero, if_false] at h
    obtain ⟨frag, hfrag, h⟩ := FM.bind_ok h
    obtain ⟨c', hc', hfrag⟩ := FM.bind_ok hfrag
    have := pure_ok hfrag
    subst this
    have hc'm : c'.marks = mc := closeNodeStart_marks S _ _ _ c' hc'
    have hmk' : MarksOK S t (c' :: rest) := by
      intro y hy
      rcases List.mem_cons.mp hy with rfl | hy
      · rw [hc'm]; exact hmk (.elem tc ac mc kc) (by simp)
      · exact hmk y (by simp [hy])
    have hfragRL : RL S b (c' :: rest) := by
      rcases h4 with ⟨hr, hu⟩ | ⟨hr, hu, hrl⟩
      · subst hr
        simp only [List.length_singleton, beq_self_eq_true, if_true] at hc'
        cases b with
        | zero =>
          have hcv := closeNodeStart_closed_valid S hdet hleaf hts x tc ac mc kc _ c' (by omega) h1
            (leftLoose_of_UL S x tc kc h3 (by simpa using hu)) hc'
          simp only [RL]
          simp [hcv]
        | succ b' =>
          have e : ((b' + 1 + 1 : Nat) : Int) - 1 = ((b' + 1 : Nat) : Int) := by omega
          rw [e] at hc'
          obtain ⟨kk', hr', hm', hrl'⟩ := ih tc ac mc kc b' c' h1 h3 (by simpa using hu) hc'
          exact ⟨[], tc, ac, mc, kk', by rw [hr']; rfl, by simp, h1, h2, hm', hrl'⟩
      · have hlen : ((Node.elem tc ac mc kc :: rest).length == 1) = false := by
          cases rest with
          | nil => exact absurd rfl hr
          | cons y ys => simp
        simp only [hlen, Bool.false_eq_true, if_false] at hc'
        have hcv := closeNodeStart_closed_valid S hdet hleaf hts x tc ac mc kc _ c' (by omega) h1
          (leftLoose_of_UL S x tc kc h3 hu) hc'
        exact RL_cons S b c' rest hcv hrl (.inl hr)
    obtain ⟨fill, hfill, h⟩ := FM.bind_ok h
    obtain ⟨fill', hfill', h⟩ := FM.bind_ok h
    have hf := liftRaise_ok hfill'
    rw [hf] at hfill
    obtain ⟨tail, htail, h⟩ := FM.bind_ok h
    have := pure_ok h
    subst this
    rw [if_neg (by omega)] at htail
    have := pure_ok htail
    subst this
    have hn1 := fillOpt_nodes S hdet hleaf _ _ _ _ fill' hfill
    have hv1 : S.checkKids fill' = true := (checkKids_iff S _).2 (fun n hn => (hn1 n hn).1)
    refine ⟨fappend fill' (c' :: rest), by simp only [Node.withKids, fappend_nil_right], ?_,
      RL_fappend_left S b fill' _ hv1 hfragRL⟩
    exact MarksOK_fappend S t _ _ (MarksOK_of_nil S _ _ (fun n hn => (hn1 n hn).2)) hmk'

/-! ### what the take loop adds -/

/-- the image of a node that stays open `b + 1` levels at its end -/
def OpenImg (S : Schema) (b : Nat) (r : Node) : Prop :=
  ∃ t a m kk, r = .elem t a m kk ∧ canonicalMarks S m = true ∧ t < S.nodes.size ∧ MarksOK S t kk ∧ RL S b kk

/-- what has been added after `taken` nodes: marks allowed by the frontier node's type; all valid, except that the
    last one is an open image when the whole fragment was taken and an open end will be pushed -/
def TakeGood (S : Schema) (fty : TypeId) (total : Nat) (oec : Int) (b : Nat) (taken : Nat) (add : List Node) : Prop :=
  MarksOK S fty add ∧
  ((taken = total ∧ 0 < oec) → ∃ pre r, add = pre ++ [r] ∧ S.checkKids pre = true ∧ OpenImg S b r) ∧
  (¬ (taken = total ∧ 0 < oec) → S.checkKids add = true)

theorem takeLoop_tail_good (S : Schema) (d : Dfa) (fty : TypeId) (os : Nat) (oec : Int) (total b : Nat) :
    ∀ (rest : List Node) (taken q : Nat) (add : List Node) (tk : Nat × Nat × List Node),
    takeLoop S d fty os oec total rest taken q add = .ok tk → 1 ≤ taken → total = taken + rest.length →
    (∀ j node, rest[j]? = some node → (j + 1 < rest.length ∨ ¬ 0 < oec) → S.checkNode node = true) →
    (0 < oec → ∀ ln, rest.getLast? = some ln → ∃ t a m k, ln = .elem t a m k ∧ canonicalMarks S m = true ∧
      t < S.nodes.size ∧ MarksOK S t k ∧ RL S b k) →
    TakeGood S fty total oec b taken add → TakeGood S fty total oec b tk.1 tk.2.2
  | [], taken, q, add, tk, h, _, _, _, _, hq => by
    have := pure_ok h
    subst this
    exact hq
  | next :: rest', taken, q, add, tk, h, h1, htot, hv, hl, hq => by
    unfold takeLoop at h
    split at h
    · have := pure_ok h
      subst this
      exact hq
    · rename_i q' hm
      simp only at h
      have hne1 : (taken + 1 == 1) = false := by
        simp only [beq_eq_false_iff_ne, ne_eq]; omega
      simp only [List.length_cons] at htot
      have hadd : S.checkKids add = true := hq.2.2 (by intro hh; omega)
      split at h
      · obtain ⟨n, hn, h⟩ := FM.bind_ok h
        simp only [hne1, Bool.false_eq_true, if_false] at hn
        have hn' : n = next.withMarks ((S.nodeType fty).allowedMarks next.marks) := (pure_ok hn).symm
        subst hn'
        refine takeLoop_tail_good S d fty os oec total b rest' _ q' _ tk h (by omega) (by omega) ?_ ?_ ?_
        · intro j node hj hjl
          exact hv (j + 1) node (by simpa using hj) (by
            rcases hjl with h0 | h0
            · exact .inl (by simp only [List.length_cons]; omega)
            · exact .inr h0)
        · intro hpos ln hln
          cases rest' with
          | nil => simp at hln
          | cons y ys => exact hl hpos ln (by rw [List.getLast?_cons_cons]; exact hln)
        · refine ⟨?_, ?_, ?_⟩
          · intro c hc
            rcases List.mem_append.mp hc with hc | hc
            · exact hq.1 c hc
            · simp only [List.mem_singleton] at hc
              subst hc
              rw [withMarks_marks]
              exact allowsMarks_allowedMarks _ _
          · intro ⟨he, hpos⟩
            have hr0 : rest' = [] := by
              cases rest' with
              | nil => rfl
              | cons y ys => simp only [List.length_cons] at htot; omega
            subst hr0
            obtain ⟨t, a, m, k, e, h2, h3, h4, h5⟩ := hl hpos next rfl
            subst e
            exact ⟨add, _, rfl, hadd, t, a, _, k, rfl, canonicalMarks_allowedMarks S _ m h2, h3, h4, h5⟩
          · intro hno
            rw [checkKids_append]
            have hnv : S.checkNode next = true := hv 0 next rfl (by
              by_cases hpos : 0 < oec
              · left
                simp only [List.length_cons]
                have : taken + 1 ≠ total := fun he => hno ⟨he, hpos⟩
                omega
              · exact .inr hpos)
            simp [hadd, checkNode_withMarks_allowed S (S.nodeType fty) next hnv]
      · rename_i hc
        exfalso
        apply hc
        simp only [Bool.or_eq_true, decide_eq_true_eq]
        exact .inl (.inl (by omega))

/-- **the take loop**: what it has added is good, given what is known of the first node's `close_node_start` image -/
theorem takeLoop_good (S : Schema) (d : Dfa) (fty : TypeId) (os : Nat) (oec : Int) (total b : Nat)
    (next : Node) (rest' : List Node) (q : Nat) (add : List Node) (tk : Nat × Nat × List Node)
    (h : takeLoop S d fty os oec total (next :: rest') 0 q add = .ok tk) (htot : total = 1 + rest'.length)
    (hadd : S.checkKids add = true) (haddm : MarksOK S fty add)
    (hfc : ¬ (total = 1 ∧ 0 < oec) → ∀ n1, closeNodeStart S os
      (next.withMarks ((S.nodeType fty).allowedMarks next.marks)) (if (0 + 1 == total) = true then oec else -1) = .ok n1 →
      S.checkNode n1 = true)
    (hfo : total = 1 → 0 < oec → ∀ n1, closeNodeStart S os
      (next.withMarks ((S.nodeType fty).allowedMarks next.marks)) oec = .ok n1 → OpenImg S b n1)
    (hskip : ¬ (total = 1 ∧ 0 < oec ∧ os ≠ 0 ∧ fsize next.kids = 0))
    (hv : ∀ j node, rest'[j]? = some node → (j + 1 < rest'.length ∨ ¬ 0 < oec) → S.checkNode node = true)
    (hl : 0 < oec → ∀ ln, rest'.getLast? = some ln → ∃ t a m k, ln = .elem t a m k ∧ canonicalMarks S m = true ∧
      t < S.nodes.size ∧ MarksOK S t k ∧ RL S b k) :
    TakeGood S fty total oec b tk.1 tk.2.2 := by
  have hq0 : TakeGood S fty total oec b 0 add := ⟨haddm, fun ⟨he, _⟩ => by omega, fun _ => hadd⟩
  unfold takeLoop at h
  split at h
  · have := pure_ok h
    subst this
    exact hq0
  · rename_i q' hm
    simp only at h
    split at h
    · obtain ⟨n1, hn1, h⟩ := FM.bind_ok h
      simp only [beq_self_eq_true, if_true] at hn1
      refine takeLoop_tail_good S d fty os oec total b rest' 1 q' _ tk h (Nat.le_refl _) (by omega) hv hl ?_
      have hm1 : n1.marks = (S.nodeType fty).allowedMarks next.marks := by
        rw [closeNodeStart_marks S _ _ _ n1 hn1, withMarks_marks]
      refine ⟨?_, ?_, ?_⟩
      · intro c hc
        rcases List.mem_append.mp hc with hc | hc
        · exact haddm c hc
        · simp only [List.mem_singleton] at hc
          subst hc
          rw [hm1]
          exact allowsMarks_allowedMarks _ _
      · intro ⟨he, hpos⟩
        have hn1' := hn1
        rw [← he] at hn1'
        simp only [beq_self_eq_true, if_true] at hn1'
        exact ⟨add, n1, rfl, hadd, hfo he.symm hpos n1 hn1'⟩
      · intro hno
        rw [checkKids_append]
        have := hfc (fun ⟨he, hpos⟩ => hno ⟨he.symm, hpos⟩) n1 hn1
        simp [hadd, this]
    · rename_i hc
      have hc' : os ≠ 0 ∧ fsize next.kids = 0 := by
        simp only [Bool.or_eq_true, decide_eq_true_eq, beq_iff_eq, bne_iff_ne, ne_eq, not_or, Decidable.not_not] at hc
        exact ⟨hc.1.2, hc.2⟩
      refine takeLoop_tail_good S d fty os oec total b rest' 1 q _ tk h (Nat.le_refl _) (by omega) hv hl ?_
      exact ⟨haddm, fun ⟨he, hpos⟩ => absurd ⟨he.symm, hpos, hc'.1, hc'.2⟩ hskip, fun _ => hadd⟩

/-! ### the levels pushed for the open end -/

theorem ValR_of_coh_RL (S : Schema) (D g : Nat) (base : List FItem) : ∀ (pushed : List FItem) (j n : Nat)
    (kk : List Node), pushed.length = n + 1 → g < j → Coh S D g base j pushed kk → RL S n kk →
    (∀ it, pushed.head? = some it → it.ty < S.nodes.size ∧ MarksOK S it.ty kk) →
    ValR S (LevelR S) true 0 pushed kk
  | [], _, _, _, hl, _, _, _, _ => by simp at hl
  | [it], j, n, kk, hl, hg, hc, hrl, hh => by
    have hn : n = 0 := by simpa using hl.symm
    subst hn
    obtain ⟨⟨⟨s, q, h1, h2, h3⟩, _⟩, _⟩ := hc
    unfold cohStart at h1
    rw [if_neg (by omega)] at h1
    simp only [Option.some.injEq] at h1
    subst h1
    unfold cohKids at h3
    rw [if_neg (by omega)] at h3
    obtain ⟨ht, hm⟩ := hh it rfl
    exact ⟨by simpa [leftOpenValid, RL] using hrl, fun _ => ⟨ht, hm, q, h2, h3⟩⟩
  | it :: nxt :: rest, j, n, kk, hl, hg, hc, hrl, hh => by
    obtain ⟨n', rfl⟩ : ∃ n', n = n' + 1 := ⟨n - 1, by simp only [List.length_cons] at hl; omega⟩
    obtain ⟨⟨⟨s, q, h1, h2, h3⟩, _⟩, t', a', m', k', hlast, ht', hc'⟩ := hc
    unfold cohStart at h1
    rw [if_neg (by omega)] at h1
    simp only [Option.some.injEq] at h1
    subst h1
    unfold cohKids at h3
    rw [if_neg (by omega)] at h3
    obtain ⟨init, t, a, m, k, e, r1, r2, r3, r4, r5⟩ := hrl
    subst e
    simp only [List.getLast?_concat, Option.some.injEq, Node.elem.injEq] at hlast
    obtain ⟨e1, e2, e3, e4⟩ := hlast
    subst e1; subst e2; subst e3; subst e4
    obtain ⟨hty, hm⟩ := hh it rfl
    refine ⟨init, t, a, m, k, rfl, ht', by simpa [leftOpenValid] using r1, fun _ => ⟨hty, hm, q, h2, h3⟩, r2, ?_⟩
    refine ValR_of_coh_RL S D g base (nxt :: rest) (j + 1) n' k (by simp only [List.length_cons] at hl ⊢; omega)
      (by omega) hc' r5 ?_
    intro it' hit'
    simp only [List.head?_cons, Option.some.injEq] at hit'
    subst hit'
    rw [← ht']
    exact ⟨r3, r4⟩

/-! ### the take loop on the fragment of a loose-valid slice -/

theorem RL_last (S : Schema) (b : Nat) (G : List Node) (h : RL S (b + 1) G) (ln : Node) (hl : G.getLast? = some ln) :
    ∃ t a m k, ln = .elem t a m k ∧ canonicalMarks S m = true ∧ t < S.nodes.size ∧ MarksOK S t k ∧ RL S b k := by
  obtain ⟨init, t, a, m, k, e, _, h2, h3, h4, h5⟩ := h
  subst e
  simp only [List.getLast?_concat, Option.some.injEq] at hl
  exact ⟨t, a, m, k, hl.symm, h2, h3, h4, h5⟩

theorem takeLoop_good_UL (S : Schema) (hdet : DetS S) (hleaf : PM.FromDom.LeafOk S) (hts : TextStableP S)
    (d : Dfa) (fty : TypeId) (x : Nat) (oec0 : Int) (b oe' : Nat) (F : List Node) (q : Nat) (add : List Node)
    (tk : Nat × Nat × List Node) (hU : UL S x oe' F)
    (hK : 0 < oec0 → oe' = b + 1 ∧ oec0 = ((b + 1 : Nat) : Int)) (hK' : ¬ 0 < oec0 → oe' = 0)
    (hskip : ∀ next, F = [next] → ¬ (0 < oec0 ∧ x ≠ 0 ∧ fsize next.kids = 0))
    (hF : F = [] → ¬ 0 < oec0)
    (h : takeLoop S d fty x oec0 F.length F 0 q add = .ok tk)
    (hadd : S.checkKids add = true) (haddm : MarksOK S fty add) :
    TakeGood S fty F.length oec0 b tk.1 tk.2.2 := by
  cases F with
  | nil =>
    have := pure_ok h
    subst this
    exact ⟨haddm, fun ⟨_, hpos⟩ => absurd hpos (hF rfl), fun _ => hadd⟩
  | cons next rest' =>
    have hlen : (next :: rest').length = 1 + rest'.length := by simp only [List.length_cons]; omega
    refine takeLoop_good S d fty x oec0 _ b next rest' q add tk h hlen hadd haddm ?_ ?_ ?_ ?_ ?_
    · -- the first node, closed completely
      intro hno n1 hn1
      have hoe : (if (0 + 1 == (next :: rest').length) = true then oec0 else -1) ≤ (0 : Int) := by
        split
        · rename_i he
          have he' : (next :: rest').length = 1 := by simpa using he
          have : ¬ 0 < oec0 := fun hp => hno ⟨he', hp⟩
          omega
        · omega
      cases x with
      | zero =>
        have := pure_ok hn1
        subst this
        apply checkNode_withMarks_allowed
        refine UL_closed_at S 0 oe' _ hU 0 next rfl (.inl rfl) ?_
        by_cases h1 : rest' = []
        · subst h1
          left
          exact hK' (fun hp => hno ⟨rfl, hp⟩)
        · right
          cases rest' with
          | nil => exact absurd rfl h1
          | cons y ys => simp
      | succ x' =>
        obtain ⟨t, a, m, k, rest, e, h1, h2, h3, h4⟩ := hU
        simp only [List.cons.injEq] at e
        obtain ⟨e1, e2⟩ := e
        subst e1; subst e2
        simp only [Node.withMarks, Node.marks] at hn1
        refine closeNodeStart_closed_valid S hdet hleaf hts x' t a _ k _ n1 hoe
          (canonicalMarks_allowedMarks S _ m h1) (leftLoose_of_UL S x' t k h3 ?_) hn1
        rcases h4 with ⟨hr, hu⟩ | ⟨_, hu, _⟩
        · subst hr
          have : oe' = 0 := hK' (fun hp => hno ⟨rfl, hp⟩)
          subst this
          simpa using hu
        · exact hu
    · -- the only node, open at the end
      intro he hpos n1 hn1
      obtain ⟨hoe', hoc⟩ := hK hpos
      have hr0 : rest' = [] := by
        cases rest' with
        | nil => rfl
        | cons y ys => simp only [List.length_cons] at he; omega
      subst hr0
      subst hoe'
      rw [hoc] at hn1
      cases x with
      | zero =>
        have := pure_ok hn1
        subst this
        obtain ⟨t, a, m, k, e, h2, h3, h4, h5⟩ := RL_last S b [next] hU next rfl
        subst e
        exact ⟨t, a, _, k, rfl, canonicalMarks_allowedMarks S _ m h2, h3, h4, h5⟩
      | succ x' =>
        obtain ⟨t, a, m, k, rest, e, h1, h2, h3, h4⟩ := hU
        simp only [List.cons.injEq] at e
        obtain ⟨e1, e2⟩ := e
        subst e1; subst e2
        simp only [Node.withMarks, Node.marks] at hn1
        rcases h4 with ⟨_, hu⟩ | ⟨hr, _, _⟩
        · simp only [Nat.add_sub_cancel] at hu
          obtain ⟨kk, hr', hm', hrl'⟩ := closeNodeStart_open S hdet hleaf hts x' t a _ k b n1
            (canonicalMarks_allowedMarks S _ m h1) h3 hu hn1
          exact ⟨t, a, _, kk, hr', canonicalMarks_allowedMarks S _ m h1, h2, hm', hrl'⟩
        · exact absurd rfl hr
    · intro ⟨he, hpos, hx, hk⟩
      have hr0 : rest' = [] := by
        cases rest' with
        | nil => rfl
        | cons y ys => simp only [List.length_cons] at he; omega
      subst hr0
      exact hskip next rfl ⟨hpos, hx, hk⟩
    · intro j node hj hjl
      refine UL_closed_at S x oe' _ hU (j + 1) node (by simpa using hj) (.inr (by omega)) ?_
      rcases hjl with h0 | h0
      · exact .inr (by simp only [List.length_cons]; omega)
      · exact .inl (hK' h0)
    · intro hpos ln hln
      obtain ⟨hoe', _⟩ := hK hpos
      subst hoe'
      have hne : rest' ≠ [] := by intro h0; subst h0; simp at hln
      cases x with
      | zero =>
        refine RL_last S b _ hU ln ?_
        cases rest' with
        | nil => exact absurd rfl hne
        | cons y ys => rw [List.getLast?_cons_cons]; exact hln
      | succ x' =>
        obtain ⟨t, a, m, k, rest, e, h1, h2, h3, h4⟩ := hU
        simp only [List.cons.injEq] at e
        obtain ⟨e1, e2⟩ := e
        subst e1; subst e2
        rcases h4 with ⟨hr, _⟩ | ⟨_, _, hrl⟩
        · exact absurd hr hne
        · exact RL_last S b _ hrl ln hln

theorem fromArray_snoc_elem_eq (l : List Node) (t : TypeId) (a : Attrs) (m : Marks) (k : List Node) :
    fromArray (l ++ [.elem t a m k]) = fromArray l ++ [.elem t a m k] := by
  unfold fromArray addNodes
  rw [List.foldl_append]
  simp only [List.foldl_cons, List.foldl_nil, addNode_elem]

/-- adding `from_array(Xraw)` at a level and moving its match along -/
theorem LevelR_add (S : Schema) (hts : TextStableP S) (mk : Bool) (top : FItem) (q q' : Nat) (F0 Xraw : List Node)
    (h2 : LevelR S mk top F0) (hq : top.st = some q) (hrun : (S.dfa top.ty).run q (S.types Xraw) = some q')
    (hXm : MarksOK S top.ty Xraw) : LevelR S mk ⟨top.ty, some q'⟩ (fappend F0 (fromArray Xraw)) := by
  intro hmk
  obtain ⟨a1, a2, qq, a3, a4⟩ := h2 hmk
  rw [hq] at a3
  simp only [Option.some.injEq] at a3
  subst a3
  refine ⟨a1, MarksOK_fappend S _ F0 _ a2 (MarksOK_fromArray S _ _ hXm), q', rfl, ?_⟩
  apply run_fappend_some hts
  rw [Dfa.run_append, a4]
  exact run_fromArray_some hts _ _ _ _ hrun

/-! ### `place_nodes` keeps the invariant, whatever the unplaced slice (the skeleton of `placeNodes_coh`) -/

theorem placeNodes_vinv_gen (S : Schema) (hts : TextStableP S) (hdet : DetS S) (hf : FillersOK S) (hw : WrapOK S)
    (hlab : LabelsOK S) (hleaf : PM.FromDom.LeafOk S) (hcl : Closable S) (D g : Nat) (st : FitState) (inv : InStep st)
    (hv : VInv S D g st.frontier st.placed)
    (hU1 : st.unplaced.openEnd ≤ spineR st.unplaced.content)
    (hU2 : st.unplaced.openStart ≤ spineL st.unplaced.content) (hsz : (st.unplaced.size == 0) = false)
    (hU : UL S st.unplaced.openStart st.unplaced.openEnd st.unplaced.content)
    (f : Fittable) (hfit : findFittable S st = .ok (some f)) (st' : FitState)
    (h : placeNodes S st f = .ok st') :
    ∃ g', VInv S D g' st'.frontier st'.placed := by
  obtain ⟨lvl, it, hsd, hlvl, hpar, hit, kind, _⟩ := findFittable_kind S st f hfit
  have hfragment := fragment_eq_lvl hlvl hpar
  have hfdlt : f.frontierDepth < st.frontier.length := by
    rcases Nat.lt_or_ge f.frontierDepth st.frontier.length with h1 | h1
    · exact h1
    · rw [List.getElem?_eq_none h1] at hit; simp at hit
  obtain ⟨c1, hc1, hc1f, hc1s⟩ := closeMany_ok S hdet hf (st.frontier.length - 1 - f.frontierDepth)
    st.frontier st.placed inv.frok (by omega) inv.sp
  let pre := st.frontier.take f.frontierDepth
  have hprelen : pre.length = f.frontierDepth := by
    simp only [pre, List.length_take]; omega
  have hc1f' : c1.1 = pre ++ [it] := by
    rw [hc1f, show st.frontier.length - (st.frontier.length - 1 - f.frontierDepth) = f.frontierDepth + 1 by omega]
    exact take_succ_of_getElem? _ _ _ hit
  have hc1len : c1.1.length = f.frontierDepth + 1 := by rw [hc1f']; simp [hprelen]
  have hc1ok : FrOK c1.1 := by rw [hc1f]; exact inv.frok.take _
  have hc1last : c1.1.getLast? = some it := by rw [hc1f']; simp
  obtain ⟨q, hq⟩ := inv.frok it (List.mem_of_getElem? hit)
  have hv1 : VInv S D (min g f.frontierDepth) c1.1 c1.2 := by
    have := closeMany_vinv S hdet hf hleaf hts hcl D _ g st.frontier st.placed (by omega) inv.frok inv.sp hv c1 hc1
    rwa [show st.frontier.length - 1 - (st.frontier.length - 1 - f.frontierDepth) = f.frontierDepth by omega] at this
  have hchain : ChainFrom S (S.dfa it.ty) q (f.wrap.getD []) := by
    cases kind with
    | direct _ _ _ _ _ _ hwn => rw [hwn]; trivial
    | inject _ _ _ _ _ _ _ hwn => rw [hwn]; trivial
    | empty _ _ _ _ hwn => rw [hwn]; trivial
    | wrap fst q' w hfst hq' hfw _ hwn =>
      rw [hwn]
      rw [hq] at hq'
      simp only [Option.some.injEq] at hq'
      subst hq'
      exact findWrappingTypes_chain S _ _ _ w hfw
  obtain ⟨c2, hc2, hc2ok, hc2len, hc2s, _, hc2pre, hc2top⟩ :=
    openMany_ok S hw (f.wrap.getD []) c1.1 c1.2 it q hc1last hq hchain hc1ok hc1s
  rw [hc1len] at hc2len hc2top
  simp only [Nat.add_sub_cancel] at hc2top
  have hv2 : VInv S D (min g f.frontierDepth) c2.1 c2.2 :=
    openMany_vinv S hlab D _ (f.wrap.getD []) pre it c1.2 q hq hchain (by rw [hprelen]; omega) c2
      (by rw [← hc1f']; exact hc2) (by rw [← hc1f']; exact hv1)
  have hitem : ∃ item q0, c2.1[f.frontierDepth]? = some item ∧ item.st = some q0 ∧ item.ty = it.ty ∧
      (f.wrap.getD [] = [] → item = it ∧ q0 = q) ∧
      (∀ w0 rest, f.wrap.getD [] = w0 :: rest → (S.dfa it.ty).matchType q w0 = some q0) := by
    cases hws : f.wrap.getD [] with
    | nil =>
      rw [hws] at hc2
      have := pure_ok hc2
      subst this
      have : c1.1[f.frontierDepth]? = some it := by rw [hc1f']; simp [← hprelen]
      exact ⟨it, q, this, hq, rfl, fun _ => ⟨rfl, rfl⟩, fun _ _ h => by simp at h⟩
    | cons w0 rest =>
      have htop := hc2top w0 rest hws
      rw [hws] at hchain
      obtain ⟨q', hq'⟩ := Option.isSome_iff_exists.1 hchain.2.1
      refine ⟨_, q', htop, by simp [hq'], rfl, fun h => by simp at h, ?_⟩
      intro w0' rest' h
      simp only [List.cons.injEq] at h
      rw [← h.1]; exact hq'
  obtain ⟨item0, q00, hitem0, hitq0, hitty0, hq0nil, hq0cons⟩ := hitem
  unfold placeNodes at h
  rw [FM.bind_eq hc1, FM.bind_eq hc2] at h
  simp only [hfragment] at h
  obtain ⟨item, hgi, h⟩ := FM.bind_ok h
  have hie : item = item0 := by
    have := getItem_ok hgi
    rw [hitem0] at this
    simpa using this.symm
  subst hie
  obtain ⟨q0, hgs, h⟩ := FM.bind_ok h
  have hq0e : q0 = q00 := by
    have := getSt_ok hgs
    rw [hitq0] at this
    simpa using this.symm
  subst hq0e
  obtain ⟨q1, hq1, h⟩ := FM.bind_ok h
  have hq1 := liftRaise_ok hq1
  obtain ⟨tk, htk, h⟩ := FM.bind_ok h
  obtain ⟨p, hp, h⟩ := FM.bind_ok h
  obtain ⟨top, _, h⟩ := FM.bind_ok h
  obtain ⟨c3, hc3, h⟩ := FM.bind_ok h
  obtain ⟨fr4, hpush, h⟩ := FM.bind_ok h
  obtain ⟨u', _, h⟩ := FM.bind_ok h
  have := pure_ok h
  subst this
  simp only
  have hset_len : (c2.1.set f.frontierDepth ⟨item.ty, some tk.2.1⟩).length = c2.1.length := List.length_set
  have hset_ok : FrOK (c2.1.set f.frontierDepth ⟨item.ty, some tk.2.1⟩) := FrOK_set hc2ok _ _ ⟨_, rfl⟩
  cases hws : f.wrap.getD [] with
  | cons w0 rest =>
    rw [hws] at hc2len
    -- wrappers were opened: nothing is taken, the frontier entry keeps its match
    have hnothing : tk = (0, q1, []) ∧ lvl.2 ≠ [] ∧ q1 = q0 := by
      cases kind with
      | direct _ _ _ _ _ _ hwn => rw [hwn] at hws; simp at hws
      | inject _ _ _ _ _ _ _ hwn => rw [hwn] at hws; simp at hws
      | empty _ _ _ _ hwn => rw [hwn] at hws; simp at hws
      | wrap fst q' w hfst hq' hfw hinj hwn =>
        rw [hwn] at hws
        simp only [Option.getD_some] at hws
        subst hws
        rw [hq] at hq'
        simp only [Option.some.injEq] at hq'
        subst hq'
        obtain ⟨rest', hl2⟩ : ∃ rest', lvl.2 = fst :: rest' := by
          cases hl : lvl.2 with
          | nil => rw [hl] at hfst; simp at hfst
          | cons a l => rw [hl] at hfst; simp at hfst; subst hfst; exact ⟨l, rfl⟩
        have hm0 := hq0cons w0 rest (by rw [hwn]; rfl)
        have hnm : (S.dfa it.ty).matchType q0 (S.tyOf fst) = none := by
          by_cases hx : S.tyOf fst < S.nodes.size
          · exact hw.2 it.ty q (S.tyOf fst) w0 rest q0 hx hfw hm0
          · cases hmm : (S.dfa it.ty).matchType q0 (S.tyOf fst) with
            | none => rfl
            | some y => exact absurd (hlab it.ty q0 _ (Dfa.mem_of_matchType hmm)) hx
        have hq1' : q1 = q0 := by
          rw [hinj] at hq1
          simpa [Schema.types, Dfa.run] using hq1.symm
        rw [hl2, hinj, hq1', hitty0, takeLoop_nomatch S _ _ _ _ _ fst rest' 0 q0 _ hnm] at htk
        have := pure_ok htk
        rw [hl2, ← this, hq1']
        exact ⟨rfl, by simp, rfl⟩
    obtain ⟨htk0, hlne, hq10⟩ := hnothing
    subst htk0
    subst hq10
    have hsp' : rspineOK f.frontierDepth c2.2 := rspineOK_le _ _ _ (by rw [hc2len]; simp only [List.length_cons]; omega) hc2s
    have hpe : p = c2.2 := by
      have := addToFragment_nil _ _ hsp'
      simp only [fromArray, addNodes, List.foldl_nil] at hp
      rw [this] at hp
      simpa using hp.symm
    subst hpe
    have hsetid : c2.1.set f.frontierDepth ⟨item.ty, some q1⟩ = c2.1 := by
      have : (⟨item.ty, some q1⟩ : FItem) = item := by
        cases item with
        | mk ty st => simp only at hitq0; rw [hitq0]
      rw [this]
      exact set_self_of_getElem? _ _ _ hitem0
    rw [hsetid] at hc3
    have hte : ((0 : Nat) == lvl.2.length) = false := by
      cases hl : lvl.2 with
      | nil => exact absurd hl hlne
      | cons a l => rfl
    simp only [hte, Bool.false_and, Bool.false_eq_true, if_false] at hc3 hpush
    have := pure_ok hc3
    subst this
    have e0 : (-1 : Int).toNat = 0 := rfl
    rw [e0] at hpush
    have := pure_ok hpush
    subst this
    exact ⟨_, hv2⟩
  | nil =>
    rw [hws] at hc2len
    simp only [List.length_nil, Nat.add_zero] at hc2len
    obtain ⟨hie, hqe⟩ := hq0nil hws
    subst hie
    subst hqe
    have hc2e : c2 = c1 := by
      rw [hws] at hc2
      exact (pure_ok hc2).symm
    subst hc2e
    -- what was added and the match after it
    obtain ⟨added, ha1, ha2⟩ := takeLoop_run S _ _ _ _ _ _ _ _ _ tk htk
    have hrun : (S.dfa item.ty).run q0 (S.types tk.2.2) = some tk.2.1 := by
      rw [ha1, types_append, Dfa.run_append, hq1]
      exact ha2
    have hfr3 : c2.1.set f.frontierDepth ⟨item.ty, some tk.2.1⟩ = pre ++ [⟨item.ty, some tk.2.1⟩] := by
      rw [hc1f', ← hprelen]
      exact set_append_last pre item _
    rw [hfr3] at hc3
    -- what is known of the fragment the nodes are taken from
    have hcon := sliceLevel_contentAt hlvl
    obtain ⟨oe', hUF, hdisj⟩ := UL_contentAt S f.sliceDepth _ _ _ _ hU hcon hsd
    have hinjv : S.checkKids (f.inject.getD []) = true ∧ MarksOK S item.ty (f.inject.getD []) := by
      cases kind with
      | direct _ _ _ _ _ hinj _ => rw [hinj]; exact ⟨by simp, by intro c hc; simp at hc⟩
      | empty _ _ _ hinj _ => rw [hinj]; exact ⟨by simp, by intro c hc; simp at hc⟩
      | wrap _ _ _ _ _ _ hinj _ => rw [hinj]; exact ⟨by simp, by intro c hc; simp at hc⟩
      | inject fst q' inj hfst hq' hfill hinj hwn =>
        rw [hinj]
        simp only [Option.getD_some]
        have hn := fillOpt_nodes S hdet hleaf _ _ _ _ inj hfill
        exact ⟨(checkKids_iff S inj).2 (fun n hn' => (hn n hn').1),
          MarksOK_of_nil S _ inj (fun n hn' => (hn n hn').2)⟩
    have hset_ok3 : FrOK (pre ++ [⟨item.ty, some tk.2.1⟩]) := by rw [← hfr3]; exact hset_ok
    -- the open-end count against the open depth of the fragment
    have hFE : lvl.2 = [] → ¬ (0 : Int) <
        ((fsize lvl.2 : Int) + f.sliceDepth) - ((fsize st.unplaced.content : Int) - st.unplaced.openEnd) := by
      intro hF0 hpos
      have htk0 : tk.1 = 0 := by
        rw [hF0] at htk
        have := pure_ok htk
        rw [← this]
      have hfr4ok : FrOK c3.1 := by
        rcases ite_ok_cases hc3 with ⟨_, hc3'⟩ | ⟨_, hc3'⟩
        · obtain ⟨x', hx', hx1, _⟩ := closeFrontierNode_ok S hdet hf _ p hset_ok3 (by simp)
            (by
              obtain ⟨r0, hr0, hr0s, _⟩ := addToFragment_ok f.frontierDepth c2.2 (fromArray tk.2.2)
                (by have := hc2s; rwa [hc2len, Nat.add_sub_cancel] at this)
              have : r0 = p := by rw [hr0] at hp; exact Except.ok.inj hp
              subst this
              simpa [hprelen] using hr0s)
          have : x' = c3 := by rw [hx'] at hc3'; exact Except.ok.inj hc3'
          subst this
          rw [hx1]; exact hset_ok3.dropLast
        · have := pure_ok hc3'
          subst this
          exact hset_ok3
      have hsp := pushOpenEnd_spec S _ lvl.2 _ fr4 hpush hfr4ok
      rw [htk0, hF0] at hsp
      simp only [List.length_nil, beq_self_eq_true, if_true] at hsp
      rw [hF0] at hpos
      exact hsp.2.2 (by omega) rfl
    have hK : (0 : Int) < ((fsize lvl.2 : Int) + f.sliceDepth) - ((fsize st.unplaced.content : Int) - st.unplaced.openEnd) →
        oe' = (oe' - 1) + 1 ∧ ((fsize lvl.2 : Int) + f.sliceDepth) - ((fsize st.unplaced.content : Int) - st.unplaced.openEnd)
          = ((oe' - 1 + 1 : Nat) : Int) := by
      intro hpos
      have hne : lvl.2 ≠ [] := fun h0 => hFE h0 hpos
      obtain ⟨hpure, hsdle⟩ := pure_of_size f.sliceDepth st.unplaced.content lvl.2 st.unplaced.openEnd hcon hne hU1
        (by omega)
      have e2 := pureTo_fsize f.sliceDepth _ _ hpure
      rcases hdisj with ⟨_, he⟩ | ⟨hnp, _⟩
      · omega
      · exact absurd hpure hnp
    have hK' : ¬ (0 : Int) < ((fsize lvl.2 : Int) + f.sliceDepth) - ((fsize st.unplaced.content : Int) - st.unplaced.openEnd) →
        oe' = 0 := by
      intro hno
      rcases hdisj with ⟨hpure, he⟩ | ⟨_, he⟩
      · have e2 := pureTo_fsize f.sliceDepth _ _ hpure
        omega
      · exact he
    have hskip : ∀ next, lvl.2 = [next] → ¬ ((0 : Int) <
        ((fsize lvl.2 : Int) + f.sliceDepth) - ((fsize st.unplaced.content : Int) - st.unplaced.openEnd) ∧
        st.unplaced.openStart - f.sliceDepth ≠ 0 ∧ fsize next.kids = 0) := by
      intro next hF1 ⟨hpos, hx, hk0⟩
      obtain ⟨hpure, hsdle⟩ := pure_of_size f.sliceDepth st.unplaced.content lvl.2 st.unplaced.openEnd hcon
        (by rw [hF1]; simp) hU1 (by omega)
      have e1 := pureTo_spineR f.sliceDepth _ _ hpure
      have e2 := pureTo_fsize f.sliceDepth _ _ hpure
      have e3 := pureTo_spineL f.sliceDepth _ _ hpure
      rw [hF1] at e1 e2 e3 hpos
      obtain ⟨z1, z2⟩ := fsize_zero_spine next.kids hk0
      simp only [Slice.size, beq_eq_false_iff_ne, ne_eq] at hsz
      cases next with
      | elem t a m kids =>
        simp only [Node.kids] at hk0 z1 z2
        rw [spineR_singleton_elem, z1] at e1
        simp only [spineL, z2] at e3
        simp only [fsize, Node.size_elem, hk0] at e2 hpos
        apply hsz
        omega
      | text s m =>
        simp only [spineL] at e3
        omega
      | leaf t a m =>
        simp only [spineL] at e3
        omega
    have hgood := takeLoop_good_UL S hdet hleaf hts _ item.ty _ _ (oe' - 1) oe' lvl.2 q1 _ tk hUF hK hK' hskip hFE htk
      hinjv.1 hinjv.2
    have hpsp : rspineOK f.frontierDepth p := by
      obtain ⟨r0, hr0, hr0s, _⟩ := addToFragment_ok f.frontierDepth c2.2 (fromArray tk.2.2)
        (by have := hc2s; rwa [hc2len, Nat.add_sub_cancel] at this)
      have : r0 = p := by rw [hr0] at hp; exact Except.ok.inj hp
      subst this
      exact hr0s
    cases hk : ((if (tk.1 == lvl.2.length) = true then
        ((fsize lvl.2 : Int) + f.sliceDepth) - ((fsize st.unplaced.content : Int) - st.unplaced.openEnd)
        else -1) : Int).toNat with
    | zero =>
      rw [hk] at hpush
      have := pure_ok hpush
      subst this
      have hno : ¬ (tk.1 = lvl.2.length ∧ (0 : Int) <
          ((fsize lvl.2 : Int) + f.sliceDepth) - ((fsize st.unplaced.content : Int) - st.unplaced.openEnd)) := by
        intro ⟨he, hpos⟩
        rw [he] at hk
        simp only [beq_self_eq_true, if_true] at hk
        omega
      have hvk := hgood.2.2 hno
      have hv3 : VInv S D (min g f.frontierDepth) (pre ++ [⟨item.ty, some tk.2.1⟩]) p :=
        addTaken_vinv S hts D _ pre item c2.2 p q0 tk.2.1 tk.2.2 hitq0 hrun hvk hgood.1 (by rw [hprelen]; omega)
          (by rw [hprelen]; exact hp) (by rw [← hc1f']; exact hv2)
      rcases ite_ok_cases hc3 with ⟨hcnd, hc3'⟩ | ⟨_, hc3'⟩
      · simp only [Bool.and_eq_true, decide_eq_true_eq] at hcnd
        have := closeFrontierNode_vinv S hdet hleaf hts hcl D _ _ p (by have := hcnd.2; omega)
          (by simpa [hprelen] using hpsp) hv3 c3 hc3'
        exact ⟨_, this⟩
      · have := pure_ok hc3'
        subst this
        exact ⟨_, hv3⟩
    | succ k =>
      have hte : (tk.1 == lvl.2.length) = true := by
        cases hb : (tk.1 == lvl.2.length) with
        | true => rfl
        | false => rw [hb] at hk; simp at hk
      rw [hte] at hk
      simp only [if_true] at hk
      have hoec : ((fsize lvl.2 : Int) + f.sliceDepth) - ((fsize st.unplaced.content : Int) - st.unplaced.openEnd)
          = ((k + 1 : Nat) : Int) := by omega
      obtain ⟨hoe1, hoe2⟩ := hK (by omega)
      have hbk : oe' - 1 = k := by omega
      have hopen := hgood.2.1 ⟨by simpa using hte, by omega⟩
      rw [hbk] at hopen
      simp only [hte, if_true, hoec] at hc3 hpush htk
      have hnn : ¬ (((k + 1 : Nat) : Int) < 0) := by omega
      simp only [hnn, decide_false, Bool.false_and, Bool.and_false, Bool.false_eq_true, if_false] at hc3
      have := pure_ok hc3
      subst this
      simp only [Int.toNat_natCast] at hpush
      obtain ⟨hlen4, _, hne4⟩ := pushOpenEnd_spec S (k + 1) lvl.2 _ fr4 hpush hset_ok3
      obtain ⟨hsp, pre', r, ln, os', hl, hadd, hcls⟩ := placeTaken_last S (S.dfa item.ty) item.ty st.unplaced
        f.sliceDepth lvl.2 hcon (hne4 (by omega)) hU1 hU2 hsz k hoec q1 (f.inject.getD []) tk htk
        (by simpa using hte)
      obtain ⟨pushed, t, a, m, kk, e1, e2, ⟨e0, rest0, e3, e4⟩, e5⟩ :=
        pushOpenEnd_coh S D (min g f.frontierDepth) [] k lvl.2 _ fr4 ln os' _ r (0 + pre.length + 1) hpush hl
          (rspineOK_singleton_of_last hl hsp) hcls (by rw [hprelen]; omega)
      obtain ⟨pre0, r0, hadd0, hpre0, t0, a0, m0, kk0, er0, hm0, ht0, hmk0, hrl0⟩ := hopen
      have hinj := List.append_inj' (hadd0.symm.trans hadd) rfl
      obtain ⟨ep, er⟩ := hinj
      simp only [List.cons.injEq, and_true] at er
      subst ep
      rw [er0, e2] at er
      simp only [Node.elem.injEq] at er
      obtain ⟨q1e, q2e, q3e, q4e⟩ := er
      subst q1e; subst q2e; subst q3e; subst q4e
      have hplen : pushed.length = k + 1 := by
        rw [e1] at hlen4
        simp only [List.length_append] at hlen4
        omega
      have hvalr : ValR S (LevelR S) true 0 pushed kk0 :=
        ValR_of_coh_RL S D (min g f.frontierDepth) [] pushed _ k kk0 hplen (by rw [hprelen]; omega) e5 hrl0 (by
          intro it' hit'
          rw [e3] at hit'
          simp only [List.head?_cons, Option.some.injEq] at hit'
          subst hit'
          rw [e4]
          exact ⟨ht0, hmk0⟩)
      have hp' := hp
      rw [← hprelen] at hp'
      have hfin : VInv S D (min g f.frontierDepth) (pre ++ (⟨item.ty, some tk.2.1⟩ :: pushed)) p := by
        refine VInv_top S D _ (fromArray tk.2.2) item (⟨item.ty, some tk.2.1⟩ :: pushed)
          (by intro x hx; simp at hx; rw [← hx]) (by simp) pre c2.2 p (by rw [hprelen]; omega) hp'
          (by rw [← hc1f']; exact hv2) ?_
        intro mk' x' F0 hF0
        obtain ⟨h1, h2⟩ := hF0
        rw [e3]
        rw [hadd0, er0, fromArray_snoc_elem_eq, fappend_snoc_elem']
        refine ⟨_, t0, a0, m0, kk0, rfl, e4.symm, leftOpenValid_fappend S x' F0 _ h1 (fromArray_checkKids S _ hpre0),
          ?_, hm0, by rw [← e3]; exact hvalr⟩
        have := LevelR_add S hts mk' item q0 tk.2.1 F0 tk.2.2 h2 hitq0 hrun hgood.1
        rw [hadd0, er0, fromArray_snoc_elem_eq, fappend_snoc_elem'] at this
        exact this
      refine ⟨min g f.frontierDepth, ?_⟩
      rw [e1]
      simpa using hfin


/-! ### loose validity is carried along the unplaced slice: dropping children on the start spine -/

theorem RL_drop (S : Schema) (oe : Nat) (G : List Node) (n : Nat) (h : RL S oe G) :
    ∃ oe'', oe'' ≤ oe ∧ RL S oe'' (G.drop n) := by
  cases oe with
  | zero =>
    refine ⟨0, Nat.le_refl _, ?_⟩
    simp only [RL] at h ⊢
    exact (checkKids_iff S _).2 (fun x hx => (checkKids_iff S G).1 h x (List.mem_of_mem_drop hx))
  | succ oe =>
    obtain ⟨init, t, a, m, k, e, h1, h2, h3, h4, h5⟩ := h
    subst e
    rcases Nat.lt_or_ge init.length n with hlt | hge
    · refine ⟨0, Nat.zero_le _, ?_⟩
      have : (init ++ [Node.elem t a m k]).drop n = [] := by
        apply List.drop_eq_nil_of_le
        simp only [List.length_append, List.length_singleton]
        omega
      rw [this]
      simp [RL]
    · refine ⟨oe + 1, Nat.le_refl _, init.drop n, t, a, m, k, ?_, ?_, h2, h3, h4, h5⟩
      · rw [List.drop_append_of_le_length hge]
      · exact (checkKids_iff S _).2 (fun x hx => (checkKids_iff S init).1 h1 x (List.mem_of_mem_drop hx))

/-- the children `drop_from_fragment` leaves carry marks that were there before -/
theorem dropFromFragment_marks (P : Marks → Prop) : ∀ (d : Nat) (c c' : List Node) (count : Nat),
    dropFromFragment c d count = .ok c' → (∀ x ∈ c, P x.marks) → ∀ x ∈ c', P x.marks
  | 0, c, c', count, h, hc => by
    have := pure_ok h
    subst this
    exact fun x hx => hc x (List.mem_of_mem_drop hx)
  | d + 1, c, c', count, h, hc => by
    unfold dropFromFragment at h
    split at h
    · rename_i t a m kids rest
      obtain ⟨inner, _, h⟩ := FM.bind_ok h
      have := pure_ok h
      subst this
      intro x hx
      rcases List.mem_cons.mp hx with rfl | hx
      · exact hc (.elem t a m kids) (by simp)
      · exact hc x (by simp [hx])
    · simp [throw, throwThe, MonadExceptOf.throw] at h

/-- **dropping `count ≥ 1` children at depth `d` of the start spine**: what is left is open `d` levels at its start
    and no deeper at its end -/
theorem UL_drop (S : Schema) : ∀ (d os oe : Nat) (c c' : List Node) (count : Nat), UL S os oe c → d ≤ os →
    1 ≤ count → dropFromFragment c d count = .ok c' → ∃ oe'', oe'' ≤ oe ∧ UL S d oe'' c'
  | 0, os, oe, c, c', count, h, _, hcnt, hd => by
    have := pure_ok hd
    subst this
    cases os with
    | zero => exact RL_drop S oe c count h
    | succ os' =>
      obtain ⟨t, a, m, k, rest, e, h1, h2, h3, h4⟩ := h
      subst e
      obtain ⟨c1, rfl⟩ : ∃ c1, count = c1 + 1 := ⟨count - 1, by omega⟩
      simp only [List.drop_succ_cons]
      rcases h4 with ⟨hr, _⟩ | ⟨_, _, hrl⟩
      · subst hr
        exact ⟨0, Nat.zero_le _, by simp [UL, RL]⟩
      · exact RL_drop S oe rest c1 hrl
  | d + 1, os, oe, c, c', count, h, hle, hcnt, hd => by
    obtain ⟨os', rfl⟩ : ∃ os', os = os' + 1 := ⟨os - 1, by omega⟩
    obtain ⟨t, a, m, k, rest, e, h1, h2, h3, h4⟩ := h
    subst e
    unfold dropFromFragment at hd
    obtain ⟨inner, hi, hd⟩ := FM.bind_ok hd
    have := pure_ok hd
    subst this
    have hm' : MarksOK S t inner :=
      dropFromFragment_marks (fun mm => (S.nodeType t).allowsMarks mm = true) d k inner count hi h3
    rcases h4 with ⟨hr, hu⟩ | ⟨hr, hu, hrl⟩
    · subst hr
      obtain ⟨oe1, hle1, hu1⟩ := UL_drop S d os' (oe - 1) k inner count hu (by omega) hcnt hi
      cases oe with
      | zero =>
        have : oe1 = 0 := by omega
        subst this
        exact ⟨0, Nat.le_refl _, t, a, m, inner, [], rfl, h1, h2, hm', .inl ⟨rfl, hu1⟩⟩
      | succ oe0 =>
        exact ⟨oe1 + 1, by omega, t, a, m, inner, [], rfl, h1, h2, hm', .inl ⟨rfl, by simpa using hu1⟩⟩
    · obtain ⟨oe1, hle1, hu1⟩ := UL_drop S d os' 0 k inner count hu (by omega) hcnt hi
      have : oe1 = 0 := by omega
      subst this
      exact ⟨oe, Nat.le_refl _, t, a, m, inner, rest, rfl, h1, h2, hm', .inr ⟨hr, hu1, hrl⟩⟩

/-! ### sizes: when the fragment at a slice depth lies at the end of a single chain -/

theorem UL_fsize_ge (S : Schema) : ∀ (sd os oe : Nat) (c F : List Node), UL S os oe c → sd ≤ os →
    contentAt c sd = .ok F → fsize F + 2 * sd ≤ fsize c
  | 0, os, oe, c, F, _, _, hc => by
    have := pure_ok hc
    subst this
    omega
  | sd + 1, os, oe, c, F, h, hle, hc => by
    obtain ⟨os', rfl⟩ : ∃ os', os = os' + 1 := ⟨os - 1, by omega⟩
    obtain ⟨t, a, m, k, rest, e, h1, h2, h3, h4⟩ := h
    subst e
    unfold contentAt at hc
    simp only [Node.kids] at hc
    have hk : UL S os' (if rest = [] then oe - 1 else 0) k := by
      rcases h4 with ⟨hr, hu⟩ | ⟨hr, hu, _⟩
      · rw [if_pos hr]; exact hu
      · rw [if_neg hr]; exact hu
    have := UL_fsize_ge S sd os' _ k F hk (by omega) hc
    simp only [fsize, Node.size_elem]
    omega

theorem RL_succ_fsize (S : Schema) (b : Nat) (G : List Node) (h : RL S (b + 1) G) : 2 ≤ fsize G := by
  obtain ⟨init, t, a, m, k, e, _⟩ := h
  subst e
  simp [fsize_append]
  omega

theorem spineR_cons_ne_nil (n : Node) (rest : List Node) (h : rest ≠ []) : spineR (n :: rest) = spineR rest := by
  have := spineR_append_ne_nil [n] rest h
  simpa using this

/-- `open_end_count ≥ 0` (sizes) forces a single chain down to the fragment -/
theorem UL_pure_of_size (S : Schema) : ∀ (sd os oe : Nat) (c F : List Node), UL S os oe c → sd ≤ os →
    contentAt c sd = .ok F → oe ≤ spineR c → fsize c ≤ fsize F + sd + oe → pureTo sd c F ∧ sd ≤ oe
  | 0, os, oe, c, F, _, _, hc, _, _ => by
    have := pure_ok hc
    subst this
    exact ⟨rfl, Nat.zero_le _⟩
  | sd + 1, os, oe, c, F, h, hle, hc, hsp, hsz => by
    obtain ⟨os', rfl⟩ : ∃ os', os = os' + 1 := ⟨os - 1, by omega⟩
    obtain ⟨t, a, m, k, rest, e, h1, h2, h3, h4⟩ := h
    subst e
    unfold contentAt at hc
    simp only [Node.kids] at hc
    simp only [fsize, Node.size_elem] at hsz
    rcases h4 with ⟨hr, hu⟩ | ⟨hr, hu, hrl⟩
    · subst hr
      have hge := UL_fsize_ge S sd os' _ k F hu (by omega) hc
      simp only [fsize] at hsz
      rw [spineR_singleton_elem] at hsp
      obtain ⟨hp, hs⟩ := UL_pure_of_size S sd os' (oe - 1) k F hu (by omega) hc (by omega) (by omega)
      exact ⟨⟨t, a, m, k, rfl, hp⟩, by omega⟩
    · exfalso
      have hge := UL_fsize_ge S sd os' _ k F hu (by omega) hc
      rw [spineR_cons_ne_nil _ _ hr] at hsp
      have := two_spineR_le_fsize rest
      omega

/-- `open_at_end` of `drop_node` (sizes): a single chain, or the open end is shallower than the level -/
theorem UL_pure_or_shallow (S : Schema) : ∀ (sd os oe : Nat) (c F : List Node), UL S os oe c → sd ≤ os →
    contentAt c sd = .ok F → fsize c ≤ fsize F + 2 * sd → pureTo sd c F ∨ oe < sd
  | 0, os, oe, c, F, _, _, hc, _ => by
    have := pure_ok hc
    subst this
    exact .inl rfl
  | sd + 1, os, oe, c, F, h, hle, hc, hsz => by
    obtain ⟨os', rfl⟩ : ∃ os', os = os' + 1 := ⟨os - 1, by omega⟩
    obtain ⟨t, a, m, k, rest, e, h1, h2, h3, h4⟩ := h
    subst e
    unfold contentAt at hc
    simp only [Node.kids] at hc
    simp only [fsize, Node.size_elem] at hsz
    rcases h4 with ⟨hr, hu⟩ | ⟨hr, hu, hrl⟩
    · subst hr
      simp only [fsize] at hsz
      rcases UL_pure_or_shallow S sd os' (oe - 1) k F hu (by omega) hc (by omega) with hp | hs
      · exact .inl ⟨t, a, m, k, rfl, hp⟩
      · exact .inr (by omega)
    · right
      have hge := UL_fsize_ge S sd os' _ k F hu (by omega) hc
      cases oe with
      | zero => omega
      | succ b =>
        have := RL_succ_fsize S b rest hrl
        omega

/-- dropping the only child at the end of a single chain: the open end goes with it -/
theorem UL_drop_pure (S : Schema) : ∀ (d os oe : Nat) (c F0 c' : List Node), pureTo (d + 1) c F0 → UL S os oe c →
    d + 1 ≤ os → dropFromFragment c d 1 = .ok c' → UL S d (min oe d) c'
  | 0, os, oe, c, F0, c', ⟨t, a, m, k, hc, _⟩, _, _, hd => by
    subst hc
    have := pure_ok hd
    subst this
    simp [UL, RL]
  | d + 1, os, oe, c, F0, c', ⟨t, a, m, k, hc, hk⟩, h, hle, hd => by
    subst hc
    obtain ⟨os', rfl⟩ : ∃ os', os = os' + 1 := ⟨os - 1, by omega⟩
    obtain ⟨t2, a2, m2, k2, rest, e, h1, h2, h3, h4⟩ := h
    simp only [List.cons.injEq, Node.elem.injEq] at e
    obtain ⟨⟨e1, e2, e3, e4⟩, e5⟩ := e
    subst e1; subst e2; subst e3; subst e4; subst e5
    unfold dropFromFragment at hd
    obtain ⟨inner, hi, hd⟩ := FM.bind_ok hd
    have := pure_ok hd
    subst this
    have hm' : MarksOK S t inner :=
      dropFromFragment_marks (fun mm => (S.nodeType t).allowsMarks mm = true) d k inner 1 hi h3
    rcases h4 with ⟨_, hu⟩ | ⟨hr, _, _⟩
    · have ih := UL_drop_pure S d os' (oe - 1) k F0 inner hk hu (by omega) hi
      refine ⟨t, a, m, inner, [], rfl, h1, h2, hm', .inl ⟨rfl, ?_⟩⟩
      rw [show min oe (d + 1) - 1 = min (oe - 1) d by omega]
      exact ih
    · exact absurd rfl hr

/-! ### opening more of a loose-valid fragment within its spines -/

theorem RL_of_valid (S : Schema) : ∀ (oe : Nat) (G : List Node), S.checkKids G = true → oe ≤ spineR G → RL S oe G
  | 0, G, h, _ => h
  | oe + 1, G, h, hsp => by
    obtain ⟨t, a, m, k, hl⟩ := getLast_of_spineR G (by omega)
    obtain ⟨init, rfl⟩ := List.getLast?_eq_some_iff.mp hl
    rw [checkKids_append] at h
    simp only [Bool.and_eq_true, checkKids_cons, checkKids_nil, Bool.and_true] at h
    obtain ⟨p1, p2, p3⟩ := checkNode_elem_parts S t a m k h.2
    rw [spineR_concat_elem] at hsp
    exact ⟨init, t, a, m, k, rfl, h.1, p1, checkNode_elem_ty S t a m k h.2, p2, RL_of_valid S oe k p3 (by omega)⟩

theorem RL_mono (S : Schema) : ∀ (oe oe' : Nat) (G : List Node), RL S oe G → oe ≤ oe' → oe' ≤ spineR G → RL S oe' G
  | 0, oe', G, h, _, hsp => RL_of_valid S oe' G h hsp
  | oe + 1, oe', G, ⟨init, t, a, m, k, e, h1, h2, h3, h4, h5⟩, hle, hsp => by
    subst e
    obtain ⟨oe'', rfl⟩ : ∃ oe'', oe' = oe'' + 1 := ⟨oe' - 1, by omega⟩
    rw [spineR_concat_elem] at hsp
    exact ⟨init, t, a, m, k, rfl, h1, h2, h3, h4, RL_mono S oe oe'' k h5 (by omega) (by omega)⟩

theorem UL_of_valid (S : Schema) : ∀ (os oe : Nat) (G : List Node), S.checkKids G = true → os ≤ spineL G →
    oe ≤ spineR G → UL S os oe G
  | 0, oe, G, h, _, hsp => RL_of_valid S oe G h hsp
  | os + 1, oe, G, h, hl, hsp => by
    cases G with
    | nil => simp [spineL] at hl
    | cons n rest =>
      cases n with
      | text s m => simp [spineL] at hl
      | leaf t a m => simp [spineL] at hl
      | elem t a m k =>
        simp only [spineL_elem_cons] at hl
        simp only [checkKids_cons, Bool.and_eq_true] at h
        obtain ⟨p1, p2, p3⟩ := checkNode_elem_parts S t a m k h.1
        refine ⟨t, a, m, k, rest, rfl, p1, checkNode_elem_ty S t a m k h.1, p2, ?_⟩
        by_cases hr : rest = []
        · subst hr
          rw [spineR_singleton_elem] at hsp
          exact .inl ⟨rfl, UL_of_valid S os (oe - 1) k p3 (by omega) (by omega)⟩
        · rw [spineR_cons_ne_nil _ _ hr] at hsp
          exact .inr ⟨hr, UL_of_valid S os 0 k p3 (by omega) (Nat.zero_le _), RL_of_valid S oe rest h.2 hsp⟩

/-- **opening more**: a loose-valid fragment stays loose-valid for deeper open depths within its spines (what gets
    opened are valid nodes) -/
theorem UL_mono (S : Schema) : ∀ (os' os oe oe' : Nat) (c : List Node), UL S os oe c → os ≤ os' → oe ≤ oe' →
    os' ≤ spineL c → oe' ≤ spineR c → UL S os' oe' c
  | 0, os, oe, oe', c, h, hle, hle2, _, hsp => by
    have : os = 0 := by omega
    subst this
    exact RL_mono S oe oe' c h hle2 hsp
  | os' + 1, os, oe, oe', c, h, hle, hle2, hl, hsp => by
    cases c with
    | nil => simp [spineL] at hl
    | cons n rest =>
      cases n with
      | text s m => simp [spineL] at hl
      | leaf t a m => simp [spineL] at hl
      | elem t a m k =>
        simp only [spineL_elem_cons] at hl
        cases os with
        | zero =>
          cases oe with
          | zero => exact UL_of_valid S (os' + 1) oe' _ h (by simp only [spineL_elem_cons]; omega) hsp
          | succ oe0 =>
            obtain ⟨init, tl, al, ml, kl, e, r1, r2, r3, r4, r5⟩ := h
            cases init with
            | nil =>
              simp only [List.nil_append, List.cons.injEq, Node.elem.injEq] at e
              obtain ⟨⟨e1, e2, e3, e4⟩, e5⟩ := e
              subst e1; subst e2; subst e3; subst e4; subst e5
              rw [spineR_singleton_elem] at hsp
              refine ⟨t, a, m, k, [], rfl, r2, r3, r4, .inl ⟨rfl, ?_⟩⟩
              exact UL_mono S os' 0 oe0 (oe' - 1) k r5 (Nat.zero_le _) (by omega) (by omega) (by omega)
            | cons x xs =>
              simp only [List.cons_append, List.cons.injEq] at e
              obtain ⟨e1, e2⟩ := e
              subst e1; subst e2
              simp only [checkKids_cons, Bool.and_eq_true] at r1
              obtain ⟨p1, p2, p3⟩ := checkNode_elem_parts S t a m k r1.1
              have hne : xs ++ [Node.elem tl al ml kl] ≠ [] := by simp
              rw [spineR_cons_ne_nil _ _ hne] at hsp
              refine ⟨t, a, m, k, _, rfl, p1, checkNode_elem_ty S t a m k r1.1, p2, .inr ⟨hne, ?_, ?_⟩⟩
              · exact UL_of_valid S os' 0 k p3 (by omega) (Nat.zero_le _)
              · exact RL_mono S (oe0 + 1) oe' _ ⟨xs, tl, al, ml, kl, rfl, r1.2, r2, r3, r4, r5⟩ hle2 hsp
        | succ os0 =>
          obtain ⟨t2, a2, m2, k2, rest2, e, h1, h2, h3, h4⟩ := h
          simp only [List.cons.injEq, Node.elem.injEq] at e
          obtain ⟨⟨e1, e2, e3, e4⟩, e5⟩ := e
          subst e1; subst e2; subst e3; subst e4; subst e5
          refine ⟨t, a, m, k, rest, rfl, h1, h2, h3, ?_⟩
          rcases h4 with ⟨hr, hu⟩ | ⟨hr, hu, hrl⟩
          · subst hr
            rw [spineR_singleton_elem] at hsp
            exact .inl ⟨rfl, UL_mono S os' os0 (oe - 1) (oe' - 1) k hu (by omega) (by omega) (by omega) (by omega)⟩
          · rw [spineR_cons_ne_nil _ _ hr] at hsp
            exact .inr ⟨hr, UL_mono S os' os0 0 0 k hu (by omega) (Nat.le_refl _) (by omega) (Nat.zero_le _),
              RL_mono S oe oe' rest hrl hle2 hsp⟩

/-! ### the invariant on the unplaced slice, and its invariance -/

/-- the unplaced slice is loosely valid for open depths no deeper than its own (with `Slice.wf`: for its own, `UL_mono`) -/
def UInv (S : Schema) (u : Slice) : Prop :=
  ∃ os0 oe0, os0 ≤ u.openStart ∧ oe0 ≤ u.openEnd ∧ UL S os0 oe0 u.content

theorem UInv_full (S : Schema) (u : Slice) (h : UInv S u) (hwf : u.wf = true) :
    UL S u.openStart u.openEnd u.content := by
  obtain ⟨os0, oe0, h1, h2, h3⟩ := h
  simp only [Slice.wf, Bool.and_eq_true, decide_eq_true_eq] at hwf
  exact UL_mono S _ _ _ _ _ h3 h1 h2 hwf.1 hwf.2

theorem placeRest_UInv (S : Schema) (u : Slice) (sd taken : Nat) (F : List Node)
    (hfull : UL S u.openStart u.openEnd u.content) (hsd : sd ≤ u.openStart) (hcon : contentAt u.content sd = .ok F)
    (hU1 : u.openEnd ≤ spineR u.content) (u' : Slice)
    (h : placeRest u sd taken (taken == F.length)
      (if (taken == F.length) = true then ((fsize F : Int) + sd) - ((fsize u.content : Int) - u.openEnd) else -1) = .ok u') :
    UInv S u' := by
  unfold placeRest at h
  cases hte : (taken == F.length) with
  | false =>
    simp only [hte, Bool.not_false, if_true] at h
    obtain ⟨c, hc, h⟩ := FM.bind_ok h
    have := pure_ok h
    subst this
    by_cases h0 : taken = 0
    · subst h0
      have := dropFromFragment_zero sd _ c hc
      subst this
      exact ⟨_, _, Nat.le_refl _, Nat.le_refl _, hfull⟩
    · obtain ⟨oe'', hle, hu⟩ := UL_drop S sd _ _ _ c taken hfull hsd (by omega) hc
      exact ⟨sd, oe'', hsd, hle, hu⟩
  | true =>
    simp only [hte, Bool.not_true, Bool.false_eq_true, if_false, if_true] at h
    split at h
    · have := pure_ok h
      subst this
      exact ⟨0, 0, Nat.le_refl _, Nat.le_refl _, by simp [Slice.empty, UL, RL]⟩
    · rename_i hsd0
      have hsd1 : 1 ≤ sd := by
        rcases Nat.eq_zero_or_pos sd with h0 | h0
        · subst h0; simp at hsd0
        · exact h0
      obtain ⟨c, hc, h⟩ := FM.bind_ok h
      have := pure_ok h
      subst this
      by_cases hneg0 : (if (taken == F.length) = true then ((fsize F : Int) + sd) - ((fsize u.content : Int) - u.openEnd) else -1) < 0
      · obtain ⟨oe'', hle, hu⟩ := UL_drop S (sd - 1) _ _ _ c 1 hfull (by omega) (Nat.le_refl _) hc
        refine ⟨sd - 1, oe'', Nat.le_refl _, ?_, hu⟩
        simp only [hte, if_true] at hneg0 ⊢
        rw [if_pos hneg0]
        exact hle
      · simp only [hte, if_true] at hneg0
        obtain ⟨hp, hs⟩ := UL_pure_of_size S sd _ _ _ F hfull hsd hcon hU1 (by omega)
        have hp' : pureTo (sd - 1 + 1) u.content F := by rwa [show sd - 1 + 1 = sd by omega]
        have := UL_drop_pure S (sd - 1) _ _ _ F c hp' hfull (by omega) hc
        refine ⟨sd - 1, min u.openEnd (sd - 1), Nat.le_refl _, ?_, this⟩
        simp only [hte, if_true]
        rw [if_neg hneg0]
        exact Nat.min_le_right _ _

theorem dropNode_UInv (S : Schema) (st st' : FitState) (hfull : UL S st.unplaced.openStart st.unplaced.openEnd st.unplaced.content)
    (h : dropNode st = .ok st') : UInv S st'.unplaced ∧ st'.frontier = st.frontier ∧ st'.placed = st.placed := by
  unfold dropNode at h
  obtain ⟨inner, hin, h⟩ := FM.bind_ok h
  split at h
  · rename_i hcnd
    simp only [Bool.and_eq_true, decide_eq_true_eq] at hcnd
    obtain ⟨c, hc, h⟩ := FM.bind_ok h
    have := pure_ok h
    subst this
    refine ⟨?_, rfl, rfl⟩
    simp only
    split
    · rename_i hat
      simp only [decide_eq_true_eq] at hat
      rcases UL_pure_or_shallow S st.unplaced.openStart _ _ _ inner hfull (Nat.le_refl _) hin (by omega) with hp | hs
      · have hp' : pureTo (st.unplaced.openStart - 1 + 1) st.unplaced.content inner := by
          rwa [show st.unplaced.openStart - 1 + 1 = st.unplaced.openStart by omega]
        have := UL_drop_pure S (st.unplaced.openStart - 1) _ _ _ inner c hp' hfull (by omega) hc
        exact ⟨_, _, Nat.le_refl _, Nat.min_le_right _ _, this⟩
      · obtain ⟨oe'', hle, hu⟩ := UL_drop S (st.unplaced.openStart - 1) _ _ _ c 1 hfull (by omega) (Nat.le_refl _) hc
        exact ⟨_, oe'', Nat.le_refl _, by simp only; omega, hu⟩
    · obtain ⟨oe'', hle, hu⟩ := UL_drop S (st.unplaced.openStart - 1) _ _ _ c 1 hfull (by omega) (Nat.le_refl _) hc
      exact ⟨_, oe'', Nat.le_refl _, hle, hu⟩
  · obtain ⟨c, hc, h⟩ := FM.bind_ok h
    have := pure_ok h
    subst this
    refine ⟨?_, rfl, rfl⟩
    obtain ⟨oe'', hle, hu⟩ := UL_drop S st.unplaced.openStart _ _ _ c 1 hfull (Nat.le_refl _) (Nat.le_refl _) hc
    exact ⟨_, oe'', Nat.le_refl _, hle, hu⟩

theorem placeNodes_unplaced (S : Schema) (st : FitState) (f : Fittable) (st' : FitState)
    (h : placeNodes S st f = .ok st') :
    ∃ taken, placeRest st.unplaced f.sliceDepth taken (taken == (f.fragment st.unplaced).length)
      (if (taken == (f.fragment st.unplaced).length) = true then
        ((fsize (f.fragment st.unplaced) : Int) + f.sliceDepth) -
          ((fsize st.unplaced.content : Int) - st.unplaced.openEnd) else -1) = .ok st'.unplaced := by
  unfold placeNodes at h
  obtain ⟨c1, _, h⟩ := FM.bind_ok h
  obtain ⟨c2, _, h⟩ := FM.bind_ok h
  simp only at h
  obtain ⟨item, _, h⟩ := FM.bind_ok h
  obtain ⟨q0, _, h⟩ := FM.bind_ok h
  obtain ⟨q1, _, h⟩ := FM.bind_ok h
  obtain ⟨tk, _, h⟩ := FM.bind_ok h
  obtain ⟨p, _, h⟩ := FM.bind_ok h
  obtain ⟨top, _, h⟩ := FM.bind_ok h
  obtain ⟨c3, _, h⟩ := FM.bind_ok h
  obtain ⟨fr4, _, h⟩ := FM.bind_ok h
  obtain ⟨u', hu', h⟩ := FM.bind_ok h
  have := pure_ok h
  subst this
  exact ⟨tk.1, hu'⟩

/-- **one iteration of the loop**, whatever the slice: `VInv` and the invariant on the unplaced slice are kept (the
    unplaced slice well-formed before and after, as `unplacedWfRun` says) -/
theorem fitStep_vinv_gen (S : Schema) (hts : TextStableP S) (hdet : DetS S) (hf : FillersOK S) (hw : WrapOK S)
    (hlab : LabelsOK S) (hleaf : PM.FromDom.LeafOk S) (hcl : Closable S) (D g : Nat) (st : FitState) (inv : InStep st)
    (hv : VInv S D g st.frontier st.placed) (hU : UInv S st.unplaced) (hwf : st.unplaced.wf = true)
    (hsz : (st.unplaced.size == 0) = false) (st' : FitState) (h : fitStep S st = .ok st') :
    (∃ g', VInv S D g' st'.frontier st'.placed) ∧ UInv S st'.unplaced := by
  have hfull := UInv_full S _ hU hwf
  simp only [Slice.wf, Bool.and_eq_true, decide_eq_true_eq] at hwf
  unfold fitStep at h
  obtain ⟨f, hfit, h⟩ := FM.bind_ok h
  cases f with
  | some f =>
    simp only at h
    refine ⟨placeNodes_vinv_gen S hts hdet hf hw hlab hleaf hcl D g st inv hv hwf.2 hwf.1 hsz hfull f hfit st' h, ?_⟩
    obtain ⟨lvl, it, hsd, hlvl, hpar, _, _, _⟩ := findFittable_kind S st f hfit
    have hfragment := fragment_eq_lvl hlvl hpar
    have hcon := sliceLevel_contentAt hlvl
    obtain ⟨taken, htk⟩ := placeNodes_unplaced S st f st' h
    rw [hfragment] at htk
    exact placeRest_UInv S st.unplaced f.sliceDepth taken lvl.2 hfull hsd hcon hwf.2 _ htk
  | none =>
    simp only at h
    obtain ⟨o, ho, h⟩ := FM.bind_ok h
    cases o with
    | some st1 =>
      have := pure_ok h
      subst this
      unfold openMore at ho
      obtain ⟨inner, _, ho⟩ := FM.bind_ok ho
      split at ho
      · simp [pure, Except.pure] at ho
      · split at ho
        · simp [pure, Except.pure] at ho
        · have := pure_ok ho
          simp only [Option.some.injEq] at this
          subst this
          obtain ⟨os0, oe0, h1, h2, h3⟩ := hU
          exact ⟨⟨g, hv⟩, os0, oe0, by simp only; omega, by simp only; omega, h3⟩
    | none =>
      simp only at h
      obtain ⟨hu', e1, e2⟩ := dropNode_UInv S st st' hfull h
      exact ⟨⟨g, by rw [e1, e2]; exact hv⟩, hu'⟩

/-- the loop, whatever the slice -/
theorem fitLoop_vinv_gen (S : Schema) (hts : TextStableP S) (hdet : DetS S) (hf : FillersOK S) (hw : WrapOK S)
    (hlab : LabelsOK S) (hleaf : PM.FromDom.LeafOk S) (hcl : Closable S) (D : Nat) :
    ∀ (fuel g : Nat) (st st' : FitState), fitLoop S fuel st = .ok st' → InStep st →
      VInv S D g st.frontier st.placed → UInv S st.unplaced →
      fitLoopAll S (fun s => s.unplaced.wf) fuel st = some true →
      InStep st' ∧ ∃ g', VInv S D g' st'.frontier st'.placed
  | 0, g, st, st', h, inv, hv, _, _ => by
    unfold fitLoop at h
    split at h
    · have := pure_ok h
      subst this; exact ⟨inv, g, hv⟩
    · simp [throw, throwThe, MonadExceptOf.throw] at h
  | fuel + 1, g, st, st', h, inv, hv, hU, hall => by
    unfold fitLoop at h
    split at h
    · have := pure_ok h
      subst this; exact ⟨inv, g, hv⟩
    · rename_i hsz
      obtain ⟨st1, h1, h⟩ := FM.bind_ok h
      unfold fitLoopAll at hall
      rw [if_neg hsz] at hall
      simp only [h1] at hall
      cases hr : fitLoopAll S (fun s => s.unplaced.wf) fuel st1 with
      | none => rw [hr] at hall; simp at hall
      | some b =>
        rw [hr] at hall
        simp only [Option.map_some, Option.some.injEq, Bool.and_eq_true] at hall
        obtain ⟨hb, hwf⟩ := hall
        subst hb
        have hsz' : (st.unplaced.size == 0) = false := by simpa using hsz
        have inv1 := fitStep_inStep S hdet hf hw hlab st inv hwf hsz' st1 h1
        obtain ⟨⟨g1, hv1⟩, hU1⟩ := fitStep_vinv_gen S hts hdet hf hw hlab hleaf hcl D g st inv hv hU hwf hsz' st1 h1
        exact fitLoop_vinv_gen S hts hdet hf hw hlab hleaf hcl D fuel g1 st1 st' h inv1 hv1 hU1 hr

/-! ### the decidable form of loose validity, and `replace_step` as a whole -/

theorem rlB_sound (S : Schema) : ∀ (oe : Nat) (G : List Node), rlB S oe G = true → RL S oe G
  | 0, G, h => h
  | oe + 1, G, h => by
    unfold rlB at h
    split at h
    · rename_i t a m k hl
      obtain ⟨init, rfl⟩ := List.getLast?_eq_some_iff.mp hl
      simp only [List.dropLast_concat, Bool.and_eq_true, decide_eq_true_eq, List.all_eq_true] at h
      obtain ⟨⟨⟨⟨h1, h2⟩, h3⟩, h4⟩, h5⟩ := h
      exact ⟨init, t, a, m, k, rfl, h1, h2, h3, h4, rlB_sound S oe k h5⟩
    · simp at h

theorem ulB_sound (S : Schema) : ∀ (os oe : Nat) (G : List Node), ulB S os oe G = true → UL S os oe G
  | 0, oe, G, h => rlB_sound S oe G (by simpa [ulB] using h)
  | os + 1, oe, G, h => by
    cases G with
    | nil => simp [ulB] at h
    | cons n rest =>
      cases n with
      | text s m => simp [ulB] at h
      | leaf t a m => simp [ulB] at h
      | elem t a m k =>
        simp only [ulB, Bool.and_eq_true, decide_eq_true_eq, List.all_eq_true] at h
        obtain ⟨⟨⟨h1, h2⟩, h3⟩, h4⟩ := h
        refine ⟨t, a, m, k, rest, rfl, h1, h2, h3, ?_⟩
        split at h4
        · rename_i he
          have : rest = [] := by simpa using he
          exact .inl ⟨this, ulB_sound S os (oe - 1) k h4⟩
        · rename_i he
          simp only [Bool.and_eq_true] at h4
          exact .inr ⟨by intro h0; subst h0; simp at he, ulB_sound S os 0 k h4.1, rlB_sound S oe rest h4.2⟩

/-- **the payload of every step `replace_step` emits is valid**, for every loosely valid request slice that is a valid
    payload, on a valid document, when the unplaced slice stays well-formed over the run (`unplacedWfRun`) -/
theorem replaceStep_valid_gen (S : Schema) (hdet : DetS S) (hfill : FillersOK S) (hw : WrapOK S) (hlab : LabelsOK S)
    (hleaf : PM.FromDom.LeafOk S) (hts : TextStableP S) (hcl : Closable S) (doc : Node) (f t : Nat) (sl : Slice)
    (hslv : openValid S sl.openStart sl.openEnd sl.content = true) (hloose : sl.looseValid S = true)
    (hv : S.checkNode doc = true) (hattrs : S.nodeAttrsOK doc = true)
    (hrun : unplacedWfRun S doc f t sl = true) (st : Step) (h : replaceStep S doc f t sl = .ok (some st)) :
    ∃ sl', st.sliceOf = some sl' ∧ openValid S sl'.openStart sl'.openEnd sl'.content = true := by
  unfold replaceStep at h
  unfold unplacedWfRun at hrun
  split at h
  · simp [pure, Except.pure] at h
  · rename_i hcond
    rw [if_neg hcond] at hrun
    split at h
    · rename_i rf rt hf ht
      simp only [hf, ht] at hrun
      split at h
      · simp [throw, throwThe, MonadExceptOf.throw] at h
      · have := pure_ok h
        simp only [Option.some.injEq] at this
        subst this
        exact ⟨sl, rfl, hslv⟩
      · rename_i htriv
        simp only [htriv] at hrun
        obtain ⟨st0, h0, hu, hfr, hlen, hsp, _⟩ := fitInit_ok S hf hv sl
        rw [h0] at hrun
        simp only [beq_iff_eq] at hrun
        have inv0 : InStep st0 := by
          refine ⟨hfr, ?_, by rw [hlen, Nat.add_sub_cancel]; exact hsp⟩
          intro h; rw [h] at hlen; simp at hlen
        have hp0 := fitInit_pureV S hf hv sl st0 h0
        have hv0 : VInv S rf.depth rf.depth st0.frontier st0.placed := by
          refine ⟨Nat.le_refl _, by rw [hlen]; omega, [], hp0, ?_⟩
          obtain ⟨it, hit⟩ := list_one (st0.frontier.drop rf.depth) (by rw [List.length_drop, hlen]; omega)
          rw [hit, Nat.sub_self]
          exact ⟨by simp [leftOpenValid], fun hh => by cases hh⟩
        have hU0 : UInv S st0.unplaced := by
          rw [hu]
          exact ⟨_, _, Nat.le_refl _, Nat.le_refl _, ulB_sound S _ _ _ hloose⟩
        unfold fitterFit at h
        rw [FM.bind_eq h0] at h
        obtain ⟨st1, h1, h⟩ := FM.bind_ok h
        obtain ⟨inv1, g1, hv1⟩ := fitLoop_vinv_gen S hts hdet hfill hw hlab hleaf hcl rf.depth _ rf.depth st0 st1 h1
          inv0 hv0 hU0 hrun
        obtain ⟨mi, _, h⟩ := FM.bind_ok h
        simp only at h
        obtain ⟨target, htg, h⟩ := FM.bind_ok h
        obtain ⟨c, hc, h⟩ := FM.bind_ok h
        cases c with
        | none => simp [pure, Except.pure] at h
        | some c =>
          simp only at h
          have hpt : ∃ pt, doc.resolve pt = some target := by
            cases mi with
            | none =>
              have := pure_ok htg
              subst this
              exact ⟨t, ht⟩
            | some p => exact ⟨p, liftRaise_ok htg⟩
          obtain ⟨pt, hpt⟩ := hpt
          have hcv := closeFit_vinv S hdet hfill hleaf hts hcl hpt hattrs st1.frontier st1.placed rf.depth g1
            inv1.frok inv1.sp hv1 c.1 c.2 hc
          exact fitEmit_valid S rf rt mi _ c.1 c.2 st h hcv
    · simp [throw, throwThe, MonadExceptOf.throw] at h

/-! ### loose validity implies payload validity -/

theorem RL_rightOpenValid (S : Schema) : ∀ (b : Nat) (G : List Node), RL S b G → rightOpenValid S b G = true
  | 0, G, h => by
    simp only [RL] at h
    simpa [rightOpenValid] using h
  | b + 1, G, ⟨init, t, a, m, k, e, h1, h2, _, _, h5⟩ => by
    subst e
    rw [rightOpenValid_snoc]
    simp [h1, h2, RL_rightOpenValid S b k h5]

theorem UL_openValid (S : Schema) : ∀ (os oe : Nat) (c : List Node), UL S os oe c → openValid S os oe c = true
  | 0, oe, c, h => by
    rw [openValid_zero_left]
    exact RL_rightOpenValid S oe c h
  | os + 1, oe, c, ⟨t, a, m, k, rest, e, h1, _, _, h4⟩ => by
    subst e
    rcases h4 with ⟨hr, hu⟩ | ⟨hr, hu, hrl⟩
    · subst hr
      have ih := UL_openValid S os (oe - 1) k hu
      cases oe with
      | zero =>
        simp only [Nat.zero_sub] at ih
        rw [openValid_zero_right] at ih
        simp [openValid, leftOpenValid, h1, ih]
      | succ b =>
        simp only [Nat.add_sub_cancel] at ih
        simp [openValid, h1, ih]
    · have ih := UL_openValid S os 0 k hu
      rw [openValid_zero_right] at ih
      have hr' := RL_rightOpenValid S oe rest hrl
      cases rest with
      | nil => exact absurd rfl hr
      | cons y ys =>
        cases oe with
        | zero =>
          simp only [rightOpenValid] at hr'
          simp [openValid, leftOpenValid, h1, ih, hr']
        | succ b =>
          simp [openValid, h1, ih, hr']

theorem looseValid_openValid (S : Schema) (sl : Slice) (h : sl.looseValid S = true) :
    openValid S sl.openStart sl.openEnd sl.content = true :=
  UL_openValid S _ _ _ (ulB_sound S _ _ _ h)

/-! ### a slice cut from a valid document is loosely valid -/

mutual
/-- every element node in the tree has a type of the schema and children whose marks that type allows -/
def Schema.deepNode (S : Schema) : Node → Bool
  | .elem t _ _ kids =>
    decide (t < S.nodes.size) && kids.all (fun c => (S.nodeType t).allowsMarks c.marks) && S.deepKids kids
  | _ => true
def Schema.deepKids (S : Schema) : List Node → Bool
  | [] => true
  | n :: ns => S.deepNode n && S.deepKids ns
end

theorem deepKids_iff (S : Schema) (l : List Node) : S.deepKids l = true ↔ ∀ n ∈ l, S.deepNode n = true := by
  induction l with
  | nil => simp [Schema.deepKids]
  | cons n ns ih => simp [Schema.deepKids, ih]

theorem deepNode_elem (S : Schema) (t : TypeId) (a : Attrs) (m : Marks) (k : List Node) :
    S.deepNode (.elem t a m k) = true ↔ t < S.nodes.size ∧ MarksOK S t k ∧ S.deepKids k = true := by
  simp only [Schema.deepNode, Bool.and_eq_true, decide_eq_true_eq, List.all_eq_true, MarksOK]
  exact ⟨fun ⟨⟨h1, h2⟩, h3⟩ => ⟨h1, h2, h3⟩, fun ⟨h1, h2, h3⟩ => ⟨⟨h1, h2⟩, h3⟩⟩

theorem checkKids_deep (S : Schema) : ∀ (kids : List Node), S.checkKids kids = true → S.deepKids kids = true
  | [], _ => by simp [Schema.deepKids]
  | n :: ns, h => by
    simp only [checkKids_cons, Bool.and_eq_true] at h
    have ih := checkKids_deep S ns h.2
    cases n with
    | text s m => simp [Schema.deepKids, Schema.deepNode, ih]
    | leaf t a m => simp [Schema.deepKids, Schema.deepNode, ih]
    | elem t a m k =>
      obtain ⟨_, p2, p3⟩ := checkNode_elem_parts S t a m k h.1
      have hk := checkKids_deep S k p3
      simp only [Schema.deepKids, Bool.and_eq_true]
      exact ⟨(deepNode_elem S t a m k).2 ⟨checkNode_elem_ty S t a m k h.1, p2, hk⟩, ih⟩

/-- what `Fragment.cut` keeps: deepness, and every node it returns carries the marks of a node that was there -/
def DeepCut (S : Schema) (kids : List Node) : Prop :=
  ∀ f t c, fcutLoop kids f t = .ok c → S.deepKids c = true ∧ ∀ x ∈ c, ∃ y ∈ kids, x.marks = y.marks

theorem cutElem_deep (S : Schema) (ty : TypeId) (a : Attrs) (m : Marks) (kids : List Node) (IH : DeepCut S kids)
    (hd : S.deepNode (.elem ty a m kids) = true) (f2 t2 : Nat) (c : Node)
    (h : Node.cut (.elem ty a m kids) f2 t2 = .ok c) : S.deepNode c = true ∧ c.marks = m := by
  obtain ⟨h1, h2, h3⟩ := (deepNode_elem S ty a m kids).1 hd
  rw [Node.cut] at h
  split at h
  · simp at h; subst h
    exact ⟨hd, rfl⟩
  · split at h
    · simp at h; subst h
      exact ⟨(deepNode_elem S ty a m []).2 ⟨h1, by intro c hc; simp at hc, by simp [Schema.deepKids]⟩, rfl⟩
    · cases hc : fcutLoop kids f2 t2 with
      | error e => simp [hc, Except.map] at h
      | ok c' =>
        simp [hc, Except.map] at h
        subst h
        obtain ⟨d1, d2⟩ := IH f2 t2 c' hc
        refine ⟨(deepNode_elem S ty a m c').2 ⟨h1, ?_, d1⟩, rfl⟩
        intro x hx
        obtain ⟨y, hy, e⟩ := d2 x hx
        rw [e]; exact h2 y hy

theorem match_cons_ok {hd : Node} {ns : List Node} {A B : Nat} {c : List Node}
    (h : (match fcutLoop ns A B with
      | .ok rest => (Except.ok (hd :: rest) : Res (List Node))
      | .error e => .error e) = .ok c) : ∃ rest, fcutLoop ns A B = .ok rest ∧ c = hd :: rest := by
  cases hr : fcutLoop ns A B with
  | error e => rw [hr] at h; simp at h
  | ok rest =>
    rw [hr] at h
    simp only [Except.ok.injEq] at h
    exact ⟨rest, rfl, h.symm⟩

theorem fcutLoop_deep (S : Schema) : ∀ kids : List Node, S.deepKids kids = true → DeepCut S kids
  | [], _, f, t, c, h => by
    unfold fcutLoop at h
    split at h
    · simp at h
    · simp at h; subst h
      exact ⟨by simp [Schema.deepKids], by intro x hx; simp at hx⟩
  | n :: ns, hk, f, t, c, h => by
    simp only [Schema.deepKids, Bool.and_eq_true] at hk
    have IHns := fcutLoop_deep S ns hk.2
    have consOK : ∀ (hd : Node) (rest : List Node), S.deepNode hd = true → hd.marks = n.marks →
        (∃ f' t', fcutLoop ns f' t' = .ok rest) →
        S.deepKids (hd :: rest) = true ∧ ∀ x ∈ hd :: rest, ∃ y ∈ n :: ns, x.marks = y.marks := by
      intro hd rest h1 h2 ⟨f', t', hr⟩
      obtain ⟨d1, d2⟩ := IHns f' t' rest hr
      refine ⟨by simp [Schema.deepKids, h1, d1], ?_⟩
      intro x hx
      rcases List.mem_cons.mp hx with rfl | hx
      · exact ⟨n, by simp, h2⟩
      · obtain ⟨y, hy, e⟩ := d2 x hx
        exact ⟨y, by simp [hy], e⟩
    rw [fcutLoop] at h
    split at h
    · simp at h; subst h
      exact ⟨by simp [Schema.deepKids], by intro x hx; simp at hx⟩
    · simp only at h
      split at h
      · split at h
        · cases n with
          | text s m =>
            simp only at h
            cases hct : cutText s f (min s.length t) with
            | error e => simp [hct] at h
            | ok s' =>
              simp only [hct] at h
              obtain ⟨rest, hr, rfl⟩ := match_cons_ok h
              exact consOK _ rest (by simp [Schema.deepNode]) rfl ⟨_, _, hr⟩
          | leaf ty a m =>
            simp only at h
            obtain ⟨rest, hr, rfl⟩ := match_cons_ok h
            exact consOK _ rest (by simp [Schema.deepNode]) rfl ⟨_, _, hr⟩
          | elem ty a m kids =>
            simp only at h
            have hdk : S.deepKids kids = true := ((deepNode_elem S ty a m kids).1 hk.1).2.2
            cases hct : Node.cut (.elem ty a m kids) (f - 1) (min (fsize kids) (t - 1)) with
            | error e => simp [hct] at h
            | ok hd =>
              simp only [hct] at h
              obtain ⟨rest, hr, rfl⟩ := match_cons_ok h
              obtain ⟨e1, e2⟩ := cutElem_deep S ty a m kids (fcutLoop_deep S kids hdk) hk.1 _ _ hd hct
              exact consOK hd rest e1 e2 ⟨_, _, hr⟩
        · obtain ⟨rest, hr, rfl⟩ := match_cons_ok h
          exact consOK n rest hk.1 rfl ⟨_, _, hr⟩
      · obtain ⟨d1, d2⟩ := IHns _ _ c h
        exact ⟨d1, fun x hx => by
          obtain ⟨y, hy, e⟩ := d2 x hx
          exact ⟨y, by simp [hy], e⟩⟩

theorem fcut_deep (S : Schema) (kids c : List Node) (f t : Nat) (hk : S.deepKids kids = true)
    (h : fcut kids f t = .ok c) : S.deepKids c = true := by
  unfold fcut at h
  split at h
  · simp at h; subst h; exact hk
  · split at h
    · simp at h; subst h; simp [Schema.deepKids]
    · exact (fcutLoop_deep S kids hk f t c h).1

theorem sliceScan_deep (S : Schema) : ∀ (rest level : List Node) (f0 t0 f t : Nat) (s : Slice),
    S.deepKids level = true → S.deepKids rest = true →
    sliceScan level f0 t0 rest f t = .ok s → S.deepKids s.content = true
  | [], level, f0, t0, f, t, s, hl, _, h => by
    unfold sliceScan at h
    unfold sliceHere at h
    split at h
    · rename_i c hc
      simp at h; subst h
      exact fcut_deep S level c f0 t0 hl hc
    · simp at h
  | n :: ns, level, f0, t0, f, t, s, hl, hr, h => by
    have here : sliceHere level f0 t0 = .ok s → S.deepKids s.content = true := by
      intro hh
      unfold sliceHere at hh
      split at hh
      · rename_i c hc
        simp at hh; subst hh
        exact fcut_deep S level c f0 t0 hl hc
      · simp at hh
    simp only [Schema.deepKids, Bool.and_eq_true] at hr
    rw [sliceScan_cons] at h
    split at h
    · exact here h
    · split at h
      · exact sliceScan_deep S ns level f0 t0 _ _ s hl hr.2 h
      · cases n with
        | text s' m => exact here h
        | leaf ty a m => exact here h
        | elem ty a m kids =>
          simp only at h
          have hdk : S.deepKids kids = true := ((deepNode_elem S ty a m kids).1 hr.1).2.2
          split at h
          · exact sliceScan_deep S kids kids _ _ _ _ s hdk hdk h
          · exact here h

theorem deepKids_append (S : Schema) (a b : List Node) : S.deepKids (a ++ b) = (S.deepKids a && S.deepKids b) := by
  induction a with
  | nil => simp [Schema.deepKids]
  | cons n ns ih => simp [Schema.deepKids, ih, Bool.and_assoc]

theorem RL_of_rightOpenValid_deep (S : Schema) : ∀ (b : Nat) (G : List Node), rightOpenValid S b G = true →
    S.deepKids G = true → RL S b G
  | 0, G, h, _ => by simpa [rightOpenValid, RL] using h
  | b + 1, G, h, hd => by
    obtain ⟨init, t, a, m, k, e, h1, h2, h3⟩ := rightOpenValid_succ_last S b G h
    subst e
    rw [deepKids_append] at hd
    simp only [Bool.and_eq_true, Schema.deepKids, Bool.and_true] at hd
    obtain ⟨d1, d2, d3⟩ := (deepNode_elem S t a m k).1 hd.2
    exact ⟨init, t, a, m, k, rfl, h1, h2, d1, d2, RL_of_rightOpenValid_deep S b k h3 d3⟩

theorem UL_of_openValid_deep (S : Schema) : ∀ (os oe : Nat) (c : List Node), openValid S os oe c = true →
    S.deepKids c = true → UL S os oe c
  | 0, oe, c, h, hd => by
    rw [openValid_zero_left] at h
    exact RL_of_rightOpenValid_deep S oe c h hd
  | os + 1, oe, c, h, hd => by
    cases c with
    | nil => cases oe <;> simp [openValid, leftOpenValid] at h
    | cons n rest =>
      cases n with
      | text s m => cases oe <;> simp [openValid, leftOpenValid] at h
      | leaf t a m => cases oe <;> simp [openValid, leftOpenValid] at h
      | elem t a m k =>
        simp only [Schema.deepKids, Bool.and_eq_true] at hd
        obtain ⟨d1, d2, d3⟩ := (deepNode_elem S t a m k).1 hd.1
        cases oe with
        | zero =>
          simp only [openValid, leftOpenValid, Bool.and_eq_true] at h
          have hk := UL_of_openValid_deep S os 0 k (by rw [openValid_zero_right]; exact h.1.2) d3
          refine ⟨t, a, m, k, rest, rfl, h.1.1, d1, d2, ?_⟩
          by_cases hr : rest = []
          · exact .inl ⟨hr, hk⟩
          · exact .inr ⟨hr, hk, h.2⟩
        | succ b =>
          cases rest with
          | nil =>
            simp only [openValid, Bool.and_eq_true] at h
            exact ⟨t, a, m, k, [], rfl, h.1, d1, d2, .inl ⟨rfl, UL_of_openValid_deep S os b k h.2 d3⟩⟩
          | cons y ys =>
            simp only [openValid, Bool.and_eq_true] at h
            have hk := UL_of_openValid_deep S os 0 k (by rw [openValid_zero_right]; exact h.1.2) d3
            exact ⟨t, a, m, k, y :: ys, rfl, h.1.1, d1, d2,
              .inr ⟨by simp, hk, RL_of_rightOpenValid_deep S (b + 1) (y :: ys) h.2 hd.2⟩⟩

/-- **a slice cut from a valid document is loosely valid** -/
theorem slice_UL (S : Schema) (src : Node) (f t : Nat) (sl : Slice) (hs : S.checkNode src = true)
    (h : src.slice f t = .ok sl) : UL S sl.openStart sl.openEnd sl.content := by
  have hov := slice_openValid S src f t sl hs h
  have hdk : S.deepKids src.kids = true := checkKids_deep S _ (checkNode_kids hs)
  refine UL_of_openValid_deep S _ _ _ hov ?_
  unfold Node.slice sliceKids at h
  split at h
  · simp at h; subst h
    simp [Slice.empty, Schema.deepKids]
  · split at h
    · simp at h
    · exact sliceScan_deep S _ _ _ _ _ _ sl hdk hdk h

/-- `replaceStep_valid_gen` for a slice given as loosely valid in the propositional form -/
theorem replaceStep_valid_UL (S : Schema) (hdet : DetS S) (hfill : FillersOK S) (hw : WrapOK S) (hlab : LabelsOK S)
    (hleaf : PM.FromDom.LeafOk S) (hts : TextStableP S) (hcl : Closable S) (doc : Node) (f t : Nat) (sl : Slice)
    (hloose : UL S sl.openStart sl.openEnd sl.content)
    (hv : S.checkNode doc = true) (hattrs : S.nodeAttrsOK doc = true)
    (hrun : unplacedWfRun S doc f t sl = true) (st : Step) (h : replaceStep S doc f t sl = .ok (some st)) :
    ∃ sl', st.sliceOf = some sl' ∧ openValid S sl'.openStart sl'.openEnd sl'.content = true := by
  have hslv := UL_openValid S _ _ _ hloose
  unfold replaceStep at h
  unfold unplacedWfRun at hrun
  split at h
  · simp [pure, Except.pure] at h
  · rename_i hcond
    rw [if_neg hcond] at hrun
    split at h
    · rename_i rf rt hf ht
      simp only [hf, ht] at hrun
      split at h
      · simp [throw, throwThe, MonadExceptOf.throw] at h
      · have := pure_ok h
        simp only [Option.some.injEq] at this
        subst this
        exact ⟨sl, rfl, hslv⟩
      · rename_i htriv
        simp only [htriv] at hrun
        obtain ⟨st0, h0, hu, hfr, hlen, hsp, _⟩ := fitInit_ok S hf hv sl
        rw [h0] at hrun
        simp only [beq_iff_eq] at hrun
        have inv0 : InStep st0 := by
          refine ⟨hfr, ?_, by rw [hlen, Nat.add_sub_cancel]; exact hsp⟩
          intro h; rw [h] at hlen; simp at hlen
        have hp0 := fitInit_pureV S hf hv sl st0 h0
        have hv0 : VInv S rf.depth rf.depth st0.frontier st0.placed := by
          refine ⟨Nat.le_refl _, by rw [hlen]; omega, [], hp0, ?_⟩
          obtain ⟨it, hit⟩ := list_one (st0.frontier.drop rf.depth) (by rw [List.length_drop, hlen]; omega)
          rw [hit, Nat.sub_self]
          exact ⟨by simp [leftOpenValid], fun hh => by cases hh⟩
        have hU0 : UInv S st0.unplaced := by
          rw [hu]
          exact ⟨_, _, Nat.le_refl _, Nat.le_refl _, hloose⟩
        unfold fitterFit at h
        rw [FM.bind_eq h0] at h
        obtain ⟨st1, h1, h⟩ := FM.bind_ok h
        obtain ⟨inv1, g1, hv1⟩ := fitLoop_vinv_gen S hts hdet hfill hw hlab hleaf hcl rf.depth _ rf.depth st0 st1 h1
          inv0 hv0 hU0 hrun
        obtain ⟨mi, _, h⟩ := FM.bind_ok h
        simp only at h
        obtain ⟨target, htg, h⟩ := FM.bind_ok h
        obtain ⟨c, hc, h⟩ := FM.bind_ok h
        cases c with
        | none => simp [pure, Except.pure] at h
        | some c =>
          simp only at h
          have hpt : ∃ pt, doc.resolve pt = some target := by
            cases mi with
            | none =>
              have := pure_ok htg
              subst this
              exact ⟨t, ht⟩
            | some p => exact ⟨p, liftRaise_ok htg⟩
          obtain ⟨pt, hpt⟩ := hpt
          have hcv := closeFit_vinv S hdet hfill hleaf hts hcl hpt hattrs st1.frontier st1.placed rf.depth g1
            inv1.frok inv1.sp hv1 c.1 c.2 hc
          exact fitEmit_valid S rf rt mi _ c.1 c.2 st h hcv
    · simp [throw, throwThe, MonadExceptOf.throw] at h

end PM
