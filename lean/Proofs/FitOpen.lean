/- Proofs/FitOpen.lean — the validity invariant `VInv` (Proofs/FitPayload.lean) under `place_nodes` when the unplaced
   slice is **open**: what is carried along the unplaced slice (`UL`: closed nodes valid; the nodes of the two open spines
   with canonical marks, a type of the schema and children whose marks the type allows), what `close_node_start` returns
   for a start-open node (`closeNodeStart_open`: closed completely → valid, `closeNodeStart_closed_valid`; open at the end →
   right-loose with the same spine), what the take loop adds (`takeLoop_good`), and the levels `pushOpenEnd` pushes
   (`ValR_of_coh_RL`: their matches are `pushOpenEnd_coh`, their validity the right-looseness of the last taken node). -/
import Proofs.FitCloseStart
set_option linter.unusedVariables false
namespace PM

/-! ### loose validity of a fragment with open sides -/

/-- the last child open `oe` levels: closed nodes valid; spine nodes with canonical marks, a type of the schema,
    children whose marks the type allows -/
def RL (S : Schema) : Nat → List Node → Prop
  | 0, frag => S.checkKids frag = true
  | oe + 1, frag => ∃ init t a m k, frag = init ++ [.elem t a m k] ∧ S.checkKids init = true ∧
      canonicalMarks S m = true ∧ t < S.nodes.size ∧ MarksOK S t k ∧ RL S oe k

/-- the first child open `os` levels, the last child `oe` levels -/
def UL (S : Schema) : Nat → Nat → List Node → Prop
  | 0, oe, frag => RL S oe frag
  | os + 1, oe, frag => ∃ t a m k rest, frag = .elem t a m k :: rest ∧ canonicalMarks S m = true ∧
      t < S.nodes.size ∧ MarksOK S t k ∧
      ((rest = [] ∧ UL S os (oe - 1) k) ∨ (rest ≠ [] ∧ UL S os 0 k ∧ RL S oe rest))

theorem checkNode_elem_ty (S : Schema) (t : TypeId) (a : Attrs) (m : Marks) (k : List Node)
    (h : S.checkNode (.elem t a m k) = true) : t < S.nodes.size := by
  rcases Nat.lt_or_ge t S.nodes.size with hlt | hge
  · exact hlt
  · exfalso
    rw [checkNode_elem] at h
    simp only [Bool.and_eq_true, Schema.validContent] at h
    have hacc := h.1.1.1
    have hd : S.dfa t = #[] := by
      simp only [Schema.dfa, Schema.nodeType]
      rw [getElem!_neg S.nodes t (by omega)]
      rfl
    unfold Dfa.accepts at hacc
    rw [hd] at hacc
    cases hk : S.types k with
    | nil =>
      rw [hk] at hacc
      simp [Dfa.run, Dfa.validEnd] at hacc
    | cons x xs =>
      rw [hk] at hacc
      simp [Dfa.run, Dfa.matchType, Dfa.edgesOf] at hacc

theorem checkNode_elem_parts (S : Schema) (t : TypeId) (a : Attrs) (m : Marks) (k : List Node)
    (h : S.checkNode (.elem t a m k) = true) :
    canonicalMarks S m = true ∧ MarksOK S t k ∧ S.checkKids k = true := by
  rw [checkNode_elem] at h
  simp only [Bool.and_eq_true, Schema.validContent, List.all_eq_true] at h
  exact ⟨h.1.2, h.1.1.2, h.2⟩

theorem RL_cons (S : Schema) (b : Nat) (n : Node) (rest : List Node) (hn : S.checkNode n = true)
    (hr : RL S b rest) (hne : rest ≠ [] ∨ b = 0) : RL S b (n :: rest) := by
  cases b with
  | zero =>
    simp only [RL] at hr ⊢
    simp [hn, hr]
  | succ b =>
    obtain ⟨init, t, a, m, k, e, h1, h2, h3, h4, h5⟩ := hr
    exact ⟨n :: init, t, a, m, k, by rw [e]; rfl, by simp [hn, h1], h2, h3, h4, h5⟩

theorem fappend_snoc_elem' (Y init : List Node) (t : TypeId) (a : Attrs) (m : Marks) (k : List Node) :
    fappend Y (init ++ [.elem t a m k]) = fappend Y init ++ [.elem t a m k] := by
  cases init with
  | nil =>
    simp only [List.nil_append]
    rw [fappend_singleton_elem]
    rfl
  | cons c i' =>
    unfold fappend
    simp only [List.cons_append]
    split
    · rfl
    · simp

theorem RL_fappend_left (S : Schema) (b : Nat) (Y F : List Node) (hY : S.checkKids Y = true) (h : RL S b F) :
    RL S b (fappend Y F) := by
  cases b with
  | zero =>
    simp only [RL] at h ⊢
    exact fappend_checkKids S Y F hY h
  | succ b =>
    obtain ⟨init, t, a, m, k, e, h1, h2, h3, h4, h5⟩ := h
    subst e
    rw [fappend_snoc_elem']
    exact ⟨_, t, a, m, k, rfl, fappend_checkKids S Y init hY h1, h2, h3, h4, h5⟩

theorem fappend_nil_right (X : List Node) : fappend X [] = X := rfl

/-- a start-open node whose content is closed at the end is `leftLoose` -/
theorem leftLoose_of_UL (S : Schema) : ∀ (x : Nat) (t : TypeId) (k : List Node), MarksOK S t k → UL S x 0 k →
    leftLoose S x t k
  | 0, t, k, hm, h => ⟨h, hm⟩
  | x + 1, t, k, hm, ⟨tc, ac, mc, kc, rest, e, h1, h2, h3, h4⟩ => by
    subst e
    rcases h4 with ⟨hr, hu⟩ | ⟨hr, hu, hrl⟩
    · subst hr
      exact ⟨hm, by simp, h1, leftLoose_of_UL S x tc kc h3 (by simpa using hu)⟩
    · exact ⟨hm, hrl, h1, leftLoose_of_UL S x tc kc h3 hu⟩

/-- the fragment at slice depth `sd ≤ open_start`: open `open_start - sd` levels at its start; at its end either
    closed, or — when it lies at the end of a single chain — open `open_end - sd` levels -/
theorem UL_contentAt (S : Schema) : ∀ (sd os oe : Nat) (c F : List Node), UL S os oe c → contentAt c sd = .ok F →
    sd ≤ os → ∃ oe', UL S (os - sd) oe' F ∧ (oe' = 0 ∨ (pureTo sd c F ∧ oe' = oe - sd))
  | 0, os, oe, c, F, h, hc, _ => by
    have := pure_ok hc
    subst this
    exact ⟨oe, h, .inr ⟨rfl, rfl⟩⟩
  | sd + 1, os, oe, c, F, h, hc, hle => by
    obtain ⟨os', rfl⟩ : ∃ os', os = os' + 1 := ⟨os - 1, by omega⟩
    obtain ⟨t, a, m, k, rest, e, h1, h2, h3, h4⟩ := h
    subst e
    unfold contentAt at hc
    simp only [Node.kids] at hc
    rw [show os' + 1 - (sd + 1) = os' - sd by omega]
    rcases h4 with ⟨hr, hu⟩ | ⟨hr, hu, _⟩
    · subst hr
      obtain ⟨oe', hu', hd⟩ := UL_contentAt S sd os' (oe - 1) k F hu hc (by omega)
      refine ⟨oe', hu', ?_⟩
      rcases hd with h0 | ⟨hp, he⟩
      · exact .inl h0
      · exact .inr ⟨⟨t, a, m, k, rfl, hp⟩, by omega⟩
    · obtain ⟨oe', hu', hd⟩ := UL_contentAt S sd os' 0 k F hu hc (by omega)
      refine ⟨oe', hu', .inl ?_⟩
      rcases hd with h0 | ⟨_, he⟩
      · exact h0
      · omega

/-- the nodes of such a fragment off its two open ends are valid -/
theorem UL_closed_at (S : Schema) (x b : Nat) (F : List Node) (h : UL S x b F) (j : Nat) (node : Node)
    (hj : F[j]? = some node) (hx : x = 0 ∨ 0 < j) (hb : b = 0 ∨ j + 1 < F.length) : S.checkNode node = true := by
  have hRL : ∀ (b : Nat) (G : List Node), RL S b G → ∀ (i : Nat) (nd : Node), G[i]? = some nd →
      (b = 0 ∨ i + 1 < G.length) → S.checkNode nd = true := by
    intro b G hG i nd hi hbi
    cases b with
    | zero =>
      exact (checkKids_iff S G).1 hG nd (List.mem_of_getElem? hi)
    | succ b =>
      obtain ⟨init, t, a, m, k, e, h1, _⟩ := hG
      subst e
      have hlt : i < init.length := by
        rcases hbi with h0 | h0
        · omega
        · simp only [List.length_append, List.length_singleton] at h0
          omega
      rw [List.getElem?_append_left hlt] at hi
      exact (checkKids_iff S init).1 h1 nd (List.mem_of_getElem? hi)
  cases x with
  | zero => exact hRL b F h j node hj hb
  | succ x =>
    obtain ⟨t, a, m, k, rest, e, h1, h2, h3, h4⟩ := h
    subst e
    have hj0 : 0 < j := by
      rcases hx with h0 | h0
      · omega
      · exact h0
    obtain ⟨j', rfl⟩ : ∃ j', j = j' + 1 := ⟨j - 1, by omega⟩
    simp only [List.getElem?_cons_succ] at hj
    rcases h4 with ⟨hr, _⟩ | ⟨hr, _, hrl⟩
    · subst hr
      simp at hj
    · exact hRL b rest hrl j' node hj (by
        rcases hb with h0 | h0
        · exact .inl h0
        · simp only [List.length_cons] at h0
          exact .inr (by omega))

/-! ### `close_node_start` on a start-open node -/

/-- open at the end: the children stay right-loose along the same spine, their marks allowed -/
theorem closeNodeStart_open (S : Schema) (hdet : DetS S) (hleaf : PM.FromDom.LeafOk S) (hts : TextStableP S) :
    ∀ (x : Nat) (t : TypeId) (a : Attrs) (m : Marks) (k : List Node) (b : Nat) (r : Node),
    canonicalMarks S m = true → MarksOK S t k → UL S x b k →
    closeNodeStart S (x + 1) (.elem t a m k) ((b + 1 : Nat) : Int) = .ok r →
    ∃ kk, r = .elem t a m kk ∧ MarksOK S t kk ∧ RL S b kk := by
  intro x
  induction x with
  | zero =>
    intro t a m k b r hm hmk hu h
    unfold closeNodeStart at h
    simp only [Node.kids, if_true, Schema.tyOf, Node.tyOr] at h
    obtain ⟨frag, hfrag, h⟩ := FM.bind_ok h
    have := pure_ok hfrag
    subst this
    obtain ⟨fill, hfill, h⟩ := FM.bind_ok h
    obtain ⟨fill', hfill', h⟩ := FM.bind_ok h
    have hf := liftRaise_ok hfill'
    rw [hf] at hfill
    obtain ⟨tail, htail, h⟩ := FM.bind_ok h
    have := pure_ok h
    subst this
    rw [if_neg (by omega)] at htail
    have := pure_ok htail
    subst this
    have hn1 := fillOpt_nodes S hdet hleaf _ _ _ _ fill' hfill
    have hv1 : S.checkKids fill' = true := (checkKids_iff S _).2 (fun n hn => (hn1 n hn).1)
    refine ⟨fappend fill' k, by simp only [Node.withKids, fappend_nil_right], ?_, RL_fappend_left S b fill' k hv1 hu⟩
    exact MarksOK_fappend S t _ _ (MarksOK_of_nil S _ _ (fun n hn => (hn1 n hn).2)) hmk
  | succ x ih =>
    intro t a m k b r hm hmk hu h
    obtain ⟨tc, ac, mc, kc, rest, e, h1, h2, h3, h4⟩ := hu
    subst e
    unfold closeNodeStart at h
    simp only [Node.kids, Schema.tyOf, Node.tyOr, Nat.add_one_ne_zero, if_false] at h
    obtain ⟨frag, hfrag, h⟩ := FM.bind_ok h
    obtain ⟨c', hc', hfrag⟩ := FM.bind_ok hfrag
    have := pure_ok hfrag
    subst this
    have hc'm : c'.marks = mc := closeNodeStart_marks S _ _ _ c' hc'
    have hmk' : MarksOK S t (c' :: rest) := by
      intro y hy
      rcases List.mem_cons.mp hy with rfl | hy
      · rw [hc'm]; exact hmk (.elem tc ac mc kc) (by simp)
      · exact hmk y (by simp [hy])
    have hfragRL : RL S b (c' :: rest) := by
      rcases h4 with ⟨hr, hu⟩ | ⟨hr, hu, hrl⟩
      · subst hr
        simp only [List.length_singleton, beq_self_eq_true, if_true] at hc'
        cases b with
        | zero =>
          have hcv := closeNodeStart_closed_valid S hdet hleaf hts x tc ac mc kc _ c' (by omega) h1
            (leftLoose_of_UL S x tc kc h3 (by simpa using hu)) hc'
          simp only [RL]
          simp [hcv]
        | succ b' =>
          have e : ((b' + 1 + 1 : Nat) : Int) - 1 = ((b' + 1 : Nat) : Int) := by omega
          rw [e] at hc'
          obtain ⟨kk', hr', hm', hrl'⟩ := ih tc ac mc kc b' c' h1 h3 (by simpa using hu) hc'
          exact ⟨[], tc, ac, mc, kk', by rw [hr']; rfl, by simp, h1, h2, hm', hrl'⟩
      · have hlen : ((Node.elem tc ac mc kc :: rest).length == 1) = false := by
          cases rest with
          | nil => exact absurd rfl hr
          | cons y ys => simp
        simp only [hlen, Bool.false_eq_true, if_false] at hc'
        have hcv := closeNodeStart_closed_valid S hdet hleaf hts x tc ac mc kc _ c' (by omega) h1
          (leftLoose_of_UL S x tc kc h3 hu) hc'
        exact RL_cons S b c' rest hcv hrl (.inl hr)
    obtain ⟨fill, hfill, h⟩ := FM.bind_ok h
    obtain ⟨fill', hfill', h⟩ := FM.bind_ok h
    have hf := liftRaise_ok hfill'
    rw [hf] at hfill
    obtain ⟨tail, htail, h⟩ := FM.bind_ok h
    have := pure_ok h
    subst this
    rw [if_neg (by omega)] at htail
    have := pure_ok htail
    subst this
    have hn1 := fillOpt_nodes S hdet hleaf _ _ _ _ fill' hfill
    have hv1 : S.checkKids fill' = true := (checkKids_iff S _).2 (fun n hn => (hn1 n hn).1)
    refine ⟨fappend fill' (c' :: rest), by simp only [Node.withKids, fappend_nil_right], ?_,
      RL_fappend_left S b fill' _ hv1 hfragRL⟩
    exact MarksOK_fappend S t _ _ (MarksOK_of_nil S _ _ (fun n hn => (hn1 n hn).2)) hmk'

end PM
