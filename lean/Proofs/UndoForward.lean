/-
  Proofs/UndoForward.lean — C04, first half of the success proof of an inverse replace step:
  what a successful forward replace tells about its result `K'` at the end `t'` of the inserted
  content: `RightRel S K' t' K t` — the remainders agree level by level, and the ancestors of `t'`
  in `K'` have types join-compatible with those of `t` in `K`:
    * a level the step merged above the slice (`extra`): the forward step checked that pair;
    * a level merged *through* a slice node open on both sides: only `to ~ slice node ~ from` was
      checked, and `compatible_content` is not transitive — this is what `bridgeCompat` supplies;
    * a level at which the slice's end-spine node was joined with `to`'s ancestor: that pair was
      checked by the forward step.
-/
import PM.UndoGuard
import Proofs.UndoRel
import Proofs.UndoInverse
namespace PM

/-! ### the bridge guard -/

theorem bridgeCompat_congr (S : Schema) (e n : Nat) {L L2 : List Node} {f f2 : Nat}
    {R R2 : List Node} {t t2 : Nat} (h1 : splitRight L f = splitRight L2 f2)
    (h2 : splitRight R t = splitRight R2 t2) :
    bridgeCompat S e n L f R t = bridgeCompat S e n L2 f2 R2 t2 := by
  cases e with
  | zero =>
    cases n with
    | zero => simp [bridgeCompat, ancCompat]
    | succ n => simp only [bridgeCompat, ancCompat, h1, h2]
  | succ e => simp only [bridgeCompat, h1, h2]

theorem bridgeCompat_nil (S : Schema) (e : Nat) (L : List Node) (f : Nat) (R : List Node) (t : Nat) :
    bridgeCompat S e 0 L f R t = true := by
  induction e generalizing L f R t with
  | zero => simp [bridgeCompat, ancCompat]
  | succ e ih =>
    simp only [bridgeCompat]
    split
    · exact ih _ _ _ _
    · rfl

/-! ### normal form of what `splitRight` leaves -/

theorem splitRight_flat_fnorm : ∀ (R : List Node) (t : Nat) (rest : List Node), fnorm R = true →
    splitRight R t = some (.flat rest) → fnorm rest = true
  | [], 0, rest, _, h => by simp at h; subst h; simp [fnorm, chainOk]
  | [], _ + 1, _, _, h => by simp [splitRight] at h
  | n :: ns, t, rest, hn, h => by
    obtain ⟨hnn, hnns⟩ := fnorm_cons hn
    rw [splitRight_cons] at h
    split at h
    · simp at h; subst h; exact hn
    · split at h
      · exact splitRight_flat_fnorm ns _ rest hnns h
      · rename_i ht hlt
        cases n with
        | text s m =>
          simp only at h
          split at h
          · simp at h; subst h
            simp only [Node.size_text, Nat.not_le] at hlt
            simp only [fnorm, Bool.and_eq_true, fnormKids_cons, Node.norm_text] at hn ⊢
            refine ⟨⟨?_, hn.1.2⟩, ?_⟩
            · cases hd : s.drop t with
              | nil => simp at hd; omega
              | cons x xs => simp
            · rw [chainOk_cons_sameKind (sameKind_text s (s.drop t) m)]; exact hn.2
          · simp at h
        | leaf ty a m => simp at h
        | elem ty a m k => simp at h

theorem splitRight_deep_fnorm : ∀ (R : List Node) (t : Nat) (c : Node) (i : Nat) (rest : List Node),
    fnorm R = true → splitRight R t = some (.deep c i rest) → fnorm rest = true ∧ c.norm = true
  | [], 0, _, _, _, _, h => by simp at h
  | [], _ + 1, _, _, _, _, h => by simp [splitRight] at h
  | n :: ns, t, c, i, rest, hn, h => by
    obtain ⟨hnn, hnns⟩ := fnorm_cons hn
    rw [splitRight_cons] at h
    split at h
    · simp at h
    · split at h
      · exact splitRight_deep_fnorm ns _ c i rest hnns h
      · cases n with
        | text s m =>
          simp only at h
          split at h <;> simp at h
        | leaf ty a m => simp at h
        | elem ty a m k =>
          simp at h
          obtain ⟨rfl, _, rfl⟩ := h
          exact ⟨hnns, hnn⟩

/-- sizes around a deep split -/
theorem splitRight_deep_size {R : List Node} {t : Nat} {ty : TypeId} {a : Attrs} {m : Marks}
    {k : List Node} {i : Nat} {rest : List Node}
    (h : splitRight R t = some (.deep (.elem ty a m k) i rest)) :
    i ≤ fsize k ∧ t ≤ fsize R ∧ fsize R - t = (fsize k - i) + 1 + fsize rest := by
  obtain ⟨_, _, _, _, e, _, hi, _⟩ := splitRight_deep_facts _ _ _ _ _ h
  cases e
  have ht := splitRight_le _ _ _ h
  have := congrArg List.length (splitRight_deep_toks h)
  simp only [List.length_append, List.length_drop, List.length_cons, ftoks_length] at this
  exact ⟨hi, ht, by omega⟩

theorem fromArray_of_fnorm {l : List Node} (h : fnorm l = true) : fromArray l = l :=
  ftoks_inj _ _ (fromArray_norm _ (fnormKids_of_fnorm h)) h (fromArray_toks l)

/-- `from_array` does not merge across an element node -/
theorem fromArray_mid_elem (ty : TypeId) (a : Attrs) (m : Marks) (k : List Node) (B : List Node) :
    ∀ A : List Node, fromArray (A ++ .elem ty a m k :: B) = fromArray A ++ .elem ty a m k :: fromArray B := by
  intro A
  have e : A ++ Node.elem ty a m k :: B = (A ++ [Node.elem ty a m k]) ++ B := by simp
  have h1 : ∀ (T : List Node), addNodes (T ++ [Node.elem ty a m k]) B
      = T ++ Node.elem ty a m k :: addNodes [] B := by
    intro T
    induction T with
    | nil =>
      simp only [List.nil_append]
      have := fromArray_cons_nontext (Node.elem ty a m k) B (by simp [Node.isText])
      simp only [fromArray] at this
      rw [← this]
      simp [addNodes]
      rfl
    | cons x xs ih =>
      rw [List.cons_append, addNodes_cons_head x B _ (.inl (by simp)), ih]
      simp
  rw [e]
  show addNodes [] ((A ++ [Node.elem ty a m k]) ++ B) = _
  simp only [addNodes, List.foldl_append] at h1 ⊢
  have h2 := fromArray_concat_elem A ty a m k
  simp only [fromArray, addNodes, List.foldl_append] at h2
  rw [h2]
  exact h1 _

/-! ### introducing `RightRel` -/

/-- flat on the old side: equal remaining tokens suffice -/
theorem rightRel_flat_of_toks (S : Schema) {L' R : List Node} {p t : Nat} {rest : List Node}
    (hs : splitRight R t = some (.flat rest)) (hR : fnorm R = true) (hL' : fnorm L' = true)
    (hp : p ≤ fsize L') (ha : alignedAt L' p = true)
    (htk : (ftoks L').drop p = (ftoks R).drop t) : RightRel S L' p R t := by
  obtain ⟨rs', hrs'⟩ := splitRight_total L' p hp ha
  have ht := splitRight_le _ _ _ hs
  have hd : depthAt L' p = 0 := by
    have h1 := depthAt_balance L' p hp
    have h2 := depthAt_balance R t ht
    have h3 := balance_ftoks L'
    have h4 := balance_ftoks R
    rw [← List.take_append_drop p (ftoks L'), balance_append] at h3
    rw [← List.take_append_drop t (ftoks R), balance_append] at h4
    rw [htk] at h3
    have := splitRight_flat_depth _ _ _ hs
    omega
  cases rs' with
  | flat r' =>
    have hr' := splitRight_flat_fnorm _ _ _ hL' hrs'
    have hr := splitRight_flat_fnorm _ _ _ hR hs
    have : r' = rest := by
      apply ftoks_inj _ _ hr' hr
      rw [splitRight_flat_toks hrs', splitRight_flat_toks hs, htk]
    subst this
    exact .flat hrs' hs
  | deep c i r =>
    obtain ⟨_, _, _, _, _, d, _, _⟩ := splitRight_deep_facts _ _ _ _ _ hrs'
    omega

/-- the same for the normalised pieces of a join whose tokens end with the old remainder -/
theorem rightRel_flat_intro (S : Schema) {R : List Node} {t : Nat} {rest : List Node}
    (hs : splitRight R t = some (.flat rest)) (hR : fnorm R = true) {Y : List Node}
    (hY : fnormKids Y = true) {Z : List Tok} (htk : ftoks Y = Z ++ (ftoks R).drop t)
    (ha : alignedAt (fromArray Y) (fsize Y - (fsize R - t)) = true) :
    RightRel S (fromArray Y) (fsize Y - (fsize R - t)) R t := by
  have ht := splitRight_le _ _ _ hs
  have hlen := congrArg List.length htk
  simp only [List.length_append, List.length_drop, ftoks_length] at hlen
  refine rightRel_flat_of_toks S hs hR (fromArray_norm _ hY) (by rw [fromArray_size]; omega) ha ?_
  rw [fromArray_toks, htk, drop_app_ge _ _ _ (by omega)]
  have : fsize Y - (fsize R - t) - Z.length = 0 := by omega
  rw [this, List.drop_zero]

/-- deep on the old side: the pieces are `P ++ node :: rest`, the position lies in `node` -/
theorem rightRel_deep_intro (S : Schema) {R : List Node} {t : Nat} {tyR : TypeId} {aR : Attrs}
    {mR : Marks} {kR : List Node} {iR : Nat} {rest : List Node}
    (hs : splitRight R t = some (.deep (.elem tyR aR mR kR) iR rest)) (hR : fnorm R = true)
    {P Xin : List Node} {ty : TypeId} {a : Attrs} {m : Marks} (hP : fnormKids P = true)
    (hcomp : S.compatibleContent ty tyR = true) (hlen : fsize kR - iR ≤ fsize Xin)
    (hrec : alignedAt (fromArray Xin) (fsize Xin - (fsize kR - iR)) = true →
      RightRel S (fromArray Xin) (fsize Xin - (fsize kR - iR)) kR iR)
    (ha : alignedAt (fromArray (P ++ .elem ty a m (fromArray Xin) :: rest))
      (fsize (P ++ .elem ty a m (fromArray Xin) :: rest) - (fsize R - t)) = true) :
    RightRel S (fromArray (P ++ .elem ty a m (fromArray Xin) :: rest))
      (fsize (P ++ .elem ty a m (fromArray Xin) :: rest) - (fsize R - t)) R t := by
  obtain ⟨hi, ht, hsz⟩ := splitRight_deep_size hs
  obtain ⟨hrn, _⟩ := splitRight_deep_fnorm _ _ _ _ _ hR hs
  have hpos : fsize (P ++ Node.elem ty a m (fromArray Xin) :: rest) - (fsize R - t)
      = fsize (fromArray P) + (1 + (fsize Xin - (fsize kR - iR))) := by
    rw [fsize_append, fromArray_size]
    simp only [fsize_cons, Node.size_elem, fromArray_size]
    omega
  rw [hpos, fromArray_mid_elem, fromArray_of_fnorm hrn] at ha ⊢
  have hPn := fnormKids_of_fnorm (fromArray_norm _ hP)
  have hsp : splitRight (fromArray P ++ Node.elem ty a m (fromArray Xin) :: rest)
      (fsize (fromArray P) + (1 + (fsize Xin - (fsize kR - iR))))
      = some (.deep (.elem ty a m (fromArray Xin)) (fsize Xin - (fsize kR - iR)) rest) := by
    rw [splitRight_append_pre _ _ _ hPn,
      splitRight_elem ty a m (fromArray Xin) rest _ (by omega) (by rw [fromArray_size]; omega)]
    simp
  rw [alignedAt_append_pre, alignedAt_cons, if_neg (by omega),
    if_neg (by simp [fromArray_size]; omega)] at ha
  simp only [Nat.add_sub_cancel_left] at ha
  exact .deep hsp hs hcomp (hrec ha)

theorem rrel_flat_done (S : Schema) {R : List Node} {t : Nat} {rest : List Node}
    (hs : splitRight R t = some (.flat rest)) (hR : fnorm R = true) {P X : List Node}
    (hP : fnormKids P = true) (hX : fnormKids X = true) {Z : List Tok}
    (htk : ftoks X = Z ++ (ftoks R).drop t)
    (ha : alignedAt (fromArray (P ++ X)) (fsize (P ++ X) - (fsize R - t)) = true) :
    RightRel S (fromArray (P ++ X)) (fsize (P ++ X) - (fsize R - t)) R t :=
  rightRel_flat_intro S hs hR (by rw [fnormKids_append]; simp [hP, hX]) (Z := ftoks P ++ Z)
    (by rw [ftoks_append, htk]; simp) ha

/-! ### the two-way join -/

theorem twoWay_rrel (S : Schema) : ∀ (L : List Node) (f : Nat) (R : List Node) (t : Nat) (X : List Node),
    twoWay S L f R t = .ok X → fnormKids L = true → fnorm R = true →
    ∀ P : List Node, fnormKids P = true →
      alignedAt (fromArray (P ++ X)) (fsize (P ++ X) - (fsize R - t)) = true →
      RightRel S (fromArray (P ++ X)) (fsize (P ++ X) - (fsize R - t)) R t
  | [], f, R, t, X, h, hL, hR, P, hP, ha => by
    have htk := twoWay_toks S _ _ _ _ _ h
    have hXn := twoWay_norm S _ _ _ _ _ hL (fnormKids_of_fnorm hR) h
    unfold twoWay at h
    split at h
    · split at h
      · rename_i rest hs
        exact rrel_flat_done S hs hR hP hXn htk ha
      · simp at h
      · simp at h
    · simp at h
  | n :: ns, f, R, t, X, h, hL, hR, P, hP, ha => by
    have htk := twoWay_toks S _ _ _ _ _ h
    have hXn := twoWay_norm S _ _ _ _ _ hL (fnormKids_of_fnorm hR) h
    simp only [fnormKids_cons, Bool.and_eq_true] at hL
    unfold twoWay at h
    split at h
    · split at h
      · rename_i rest hs
        exact rrel_flat_done S hs hR hP hXn htk ha
      · simp at h
      · simp at h
    · split at h
      · rename_i hf hle
        split at h
        · rename_i r hr
          simp at h; subst h
          have e : P ++ n :: r = (P ++ [n]) ++ r := by simp
          rw [e] at ha ⊢
          exact twoWay_rrel S ns (f - n.size) R t r hr hL.2 hR (P ++ [n])
            (by rw [fnormKids_append]; simp [hP, hL.1]) ha
        · simp at h
      · rename_i hf hlt
        cases n with
        | text s m =>
          simp only at h
          split at h
          · simp at h
          · split at h
            · rename_i rest hs
              exact rrel_flat_done S hs hR hP hXn htk ha
            · simp at h
            · simp at h
        | leaf ty a m => simp at h
        | elem ty a m kids =>
          simp only at h
          split at h
          · rename_i ty' a' m' kids' inner rest hs
            split at h
            · rename_i hcomp
              split at h
              · rename_i innerRes hin
                split at h
                · rename_i c hc
                  simp at h; subst h
                  rw [close_ok hc] at ha ⊢
                  simp only [Node.norm_elem] at hL
                  have hk := fnormKids_of_fnorm hL.1
                  obtain ⟨_, hcn⟩ := splitRight_deep_fnorm _ _ _ _ _ hR hs
                  simp only [Node.norm_elem] at hcn
                  have hlen : fsize kids' - inner ≤ fsize innerRes := by
                    have := congrArg List.length (twoWay_toks S _ _ _ _ _ hin)
                    simp only [List.length_append, List.length_drop, ftoks_length] at this
                    omega
                  refine rightRel_deep_intro S hs hR hP (by rw [compat_symm]; exact hcomp) hlen ?_ ha
                  intro ha'
                  have := twoWay_rrel S kids (f - 1) kids' inner innerRes hin hk hcn [] (by simp)
                    (by simpa using ha')
                  simpa using this
                · simp at h
              · simp at h
            · simp at h
          · simp at h
          · simp at h

/-! ### right join and what follows it -/

theorem getLast?_mem {α} {l : List α} {x : α} (h : l.getLast? = some x) : x ∈ l := by
  rw [getLast?_decomp h]; simp

theorem tail_rrel (S : Schema) {M : List Node} {b : Nat} {rs : RSplit} {rj : List Node}
    {R : List Node} {t : Nat} (hs : splitRight R t = some rs) (h : rightJoin S M b rs = .ok rj)
    (hR : fnorm R = true) (hM : fnormKids M = true) :
    ∀ P : List Node, fnormKids P = true →
      alignedAt (fromArray (P ++ (rj ++ rs.rest))) (fsize (P ++ (rj ++ rs.rest)) - (fsize R - t)) = true →
      RightRel S (fromArray (P ++ (rj ++ rs.rest))) (fsize (P ++ (rj ++ rs.rest)) - (fsize R - t)) R t := by
  intro P hP ha
  unfold rightJoin at h
  split at h
  · rename_i rest
    split at h
    · simp at h; subst h
      have hrn := RSplit.rest_norm (splitRight_norm _ _ _ (fnormKids_of_fnorm hR) hs)
      simp only [RSplit.rest, List.nil_append] at ha hrn ⊢
      exact rrel_flat_done S hs hR hP hrn (Z := []) (by simpa using splitRight_flat_toks hs) ha
    · simp at h
  · rename_i cR innerT rest
    split at h
    · simp at h
    · split at h
      · rename_i tyE aE mE kidsE tyR aR mR kidsR hl
        split at h
        · rename_i hcomp
          split at h
          · rename_i r hr
            split at h
            · rename_i c hc
              simp at h; subst h
              rw [close_ok hc] at ha ⊢
              simp only [RSplit.rest, List.singleton_append] at ha ⊢
              have hkE : fnormKids kidsE = true := by
                have := (fnormKids_iff M).mp hM _ (getLast?_mem hl)
                simp only [Node.norm_elem] at this
                exact fnormKids_of_fnorm this
              obtain ⟨_, hcn⟩ := splitRight_deep_fnorm _ _ _ _ _ hR hs
              simp only [Node.norm_elem] at hcn
              have hlen : fsize kidsR - innerT ≤ fsize r := by
                have := congrArg List.length (twoWay_toks S _ _ _ _ _ hr)
                simp only [List.length_append, List.length_drop, ftoks_length] at this
                omega
              refine rightRel_deep_intro S hs hR hP (by rw [compat_symm]; exact hcomp) hlen ?_ ha
              intro ha'
              have := twoWay_rrel S kidsE _ kidsR innerT r hr hkE hcn [] (by simp) (by simpa using ha')
              simpa using this
            · simp at h
          · simp at h
        · simp at h
      · simp at h

theorem flatTail_rrel (S : Schema) {M : List Node} {a b : Nat} {R : List Node} {t : Nat}
    {Y : List Node} (h : flatTail S M a b R t = .ok Y) (hR : fnorm R = true)
    (hM : fnormKids M = true) :
    ∀ P : List Node, fnormKids P = true →
      alignedAt (fromArray (P ++ Y)) (fsize (P ++ Y) - (fsize R - t)) = true →
      RightRel S (fromArray (P ++ Y)) (fsize (P ++ Y) - (fsize R - t)) R t := by
  intro P hP ha
  unfold flatTail at h
  split at h
  · simp at h
  · split at h
    · simp at h
    · rename_i rs hs
      split at h
      · rename_i rj hrj
        simp at h; subst h
        have e : P ++ (middle M false (b != 0) ++ (rj ++ rs.rest))
            = (P ++ middle M false (b != 0)) ++ (rj ++ rs.rest) := by simp
        rw [e] at ha ⊢
        exact tail_rrel S hs hrj hR hM _ (by rw [fnormKids_append]; simp [hP, middle_norm hM]) ha
      · simp at h

/-! ### the three-way join -/

theorem threeWay_rrel (S : Schema) : ∀ (L : List Node) (f extra : Nat) (M : List Node) (a b : Nat)
    (R : List Node) (t : Nat) (X : List Node),
    threeWay S L f extra M a b R t = .ok X → fnormKids L = true → fnormKids M = true →
    fnorm R = true → a ≤ spineL M → b ≤ spineR M →
    bridgeCompat S extra (singleDepth M a b) L f R t = true →
    ∀ P : List Node, fnormKids P = true →
      alignedAt (fromArray (P ++ X)) (fsize (P ++ X) - (fsize R - t)) = true →
      RightRel S (fromArray (P ++ X)) (fsize (P ++ X) - (fsize R - t)) R t
  | [], f, extra, M, a, b, R, t, X, h, hL, hM, hR, hsa, hsb, hbr, P, hP, ha => by
    unfold threeWay at h
    split at h
    · split at h
      · exact flatTail_rrel S h hR hM P hP ha
      · simp at h
    · simp at h
  | n :: ns, f, extra, M, a, b, R, t, X, h, hL, hM, hR, hsa, hsb, hbr, P, hP, ha => by
    have hLn := hL
    simp only [fnormKids_cons, Bool.and_eq_true] at hL
    unfold threeWay at h
    split at h
    · split at h
      · exact flatTail_rrel S h hR hM P hP ha
      · simp at h
    · rename_i hf
      split at h
      · rename_i hle
        split at h
        · rename_i r hr
          simp at h; subst h
          have e : P ++ n :: r = (P ++ [n]) ++ r := by simp
          rw [e] at ha ⊢
          rw [bridgeCompat_congr S extra _ (splitRight_skip n ns f hf hle) rfl] at hbr
          exact threeWay_rrel S ns (f - n.size) extra M a b R t r hr hL.2 hM hR hsa hsb hbr (P ++ [n])
            (by rw [fnormKids_append]; simp [hP, hL.1]) ha
        · simp at h
      · rename_i hlt
        cases n with
        | text s m =>
          simp only at h
          split at h
          · simp at h
          · split at h
            · simp at h
            · split at h
              · rename_i r hr
                simp at h; subst h
                have e : P ++ Node.text (List.take f s) m :: r = (P ++ [Node.text (List.take f s) m]) ++ r := by
                  simp
                rw [e] at ha ⊢
                refine flatTail_rrel S hr hR hM _ ?_ ha
                rw [fnormKids_append]
                simp only [hP, fnormKids_cons, fnormKids_nil, Node.norm_text, Bool.and_true, Bool.true_and]
                have := take_nonempty hf (by simpa using hL.1)
                simpa using this
              · simp at h
        | leaf ty at_ m => simp at h
        | elem tyL aL mL kidsL =>
          simp only [Node.size_elem, Nat.not_le] at hlt
          simp only [Node.norm_elem] at hL
          have hkL := fnormKids_of_fnorm hL.1
          have hsL := splitRight_elem tyL aL mL kidsL ns f hf hlt
          simp only at h
          split at h
          · simp at h
          · rename_i rs hs
            split at h
            · -- above the slice
              rename_i hex
              split at h
              · rename_i tyR aR mR kidsR innerT rest
                split at h
                · rename_i hcomp
                  split at h
                  · rename_i inner hin
                    split at h
                    · rename_i c hc
                      simp at h; subst h
                      rw [close_ok hc] at ha ⊢
                      obtain ⟨_, hcn⟩ := splitRight_deep_fnorm _ _ _ _ _ hR hs
                      simp only [Node.norm_elem] at hcn
                      have hlen : fsize kidsR - innerT ≤ fsize inner := by
                        have := congrArg List.length (threeWay_toks S _ _ _ _ _ _ _ _ _ hsa hsb hin)
                        simp only [List.length_append, List.length_drop, ftoks_length] at this
                        omega
                      obtain ⟨e, rfl⟩ : ∃ e, extra = e + 1 := ⟨extra - 1, by omega⟩
                      simp only [bridgeCompat, hsL, hs] at hbr
                      refine rightRel_deep_intro S hs hR hP (by rw [compat_symm]; exact hcomp) hlen ?_ ha
                      intro ha'
                      have := threeWay_rrel S kidsL (f - 1) e M a b kidsR innerT inner hin hkL hM hcn
                        hsa hsb hbr [] (by simp) (by simpa using ha')
                      simpa using this
                    · simp at h
                  · simp at h
                · simp at h
              · simp at h
            · rename_i hex
              have hex0 : extra = 0 := by simpa using hex
              subst hex0
              split at h
              · simp at h
              · rename_i ha0
                split at h
                · simp at h
                · rename_i cS Mtail
                  split at h
                  · rename_i tyS aS mS kidsS
                    have hkS : fnormKids kidsS = true := by
                      simp only [fnormKids_cons, Node.norm_elem, Bool.and_eq_true] at hM
                      exact fnormKids_of_fnorm hM.1
                    split at h
                    · simp at h
                    · split at h
                      · -- both open, single slice child: merged through the slice node
                        rename_i tyR aR mR kidsR innerT rest b' x hx
                        obtain ⟨rfl, rfl⟩ : Node.elem tyS aS mS kidsS = x ∧ Mtail = [] := by
                          simpa using hx
                        split at h
                        · simp at h
                        · split at h
                          · rename_i inner hin
                            split at h
                            · rename_i c hc
                              simp at h; subst h
                              rw [close_ok hc] at ha ⊢
                              have ha' : a - 1 ≤ spineL kidsS := by simp only [spineL] at hsa; omega
                              have hb' : b' ≤ spineR kidsS := by simp only [spineR] at hsb; omega
                              obtain ⟨_, hcn⟩ := splitRight_deep_fnorm _ _ _ _ _ hR hs
                              simp only [Node.norm_elem] at hcn
                              have hlen : fsize kidsR - innerT ≤ fsize inner := by
                                have := congrArg List.length
                                  (threeWay_toks S _ _ _ _ _ _ _ _ _ ha' hb' hin)
                                simp only [List.length_append, List.length_drop, ftoks_length] at this
                                omega
                              obtain ⟨a', rfl⟩ : ∃ a', a = a' + 1 := ⟨a - 1, by omega⟩
                              simp only [singleDepth, bridgeCompat, Nat.add_comm 1, ancCompat, hsL, hs,
                                Bool.and_eq_true] at hbr
                              refine rightRel_deep_intro S hs hR hP hbr.1 hlen ?_ ha
                              intro haa
                              have := threeWay_rrel S kidsL (f - 1) 0 kidsS a' b' kidsR innerT inner hin
                                hkL hkS hcn (by simpa using ha') hb' (by simpa [bridgeCompat] using hbr.2)
                                [] (by simp) (by simpa using haa)
                              simpa using this
                            · simp at h
                          · simp at h
                      · rename_i rs b _ _ _ hnot
                        split at h
                        · simp at h
                        · split at h
                          · rename_i lr hlr
                            split at h
                            · rename_i cl hcl
                              split at h
                              · rename_i rj hrj
                                simp at h; subst h
                                have hcln : cl.norm = true :=
                                  close_norm (twoWay_norm S _ _ _ _ _ hkL hkS hlr) hcl
                                have e : P ++ cl :: (middle (Node.elem tyS aS mS kidsS :: Mtail) true (b != 0)
                                      ++ (rj ++ rs.rest))
                                    = (P ++ cl :: middle (Node.elem tyS aS mS kidsS :: Mtail) true (b != 0))
                                      ++ (rj ++ rs.rest) := by simp
                                rw [e] at ha ⊢
                                refine tail_rrel S hs hrj hR hM _ ?_ ha
                                rw [fnormKids_append]
                                simp [hP, hcln, middle_norm hM]
                              · simp at h
                            · simp at h
                          · simp at h
                  · simp at h

/-! ### `atLevel`, `outer`, `replaceKids` -/

theorem rightRel_flat_of_toks' (S : Schema) {L' R : List Node} {t : Nat} {rest : List Node}
    (hs : splitRight R t = some (.flat rest)) (hR : fnorm R = true) (hL' : fnorm L' = true)
    {Z : List Tok} (htk : ftoks L' = Z ++ (ftoks R).drop t)
    (ha : alignedAt L' (fsize L' - (fsize R - t)) = true) :
    RightRel S L' (fsize L' - (fsize R - t)) R t := by
  have ht := splitRight_le _ _ _ hs
  have hlen := congrArg List.length htk
  simp only [List.length_append, List.length_drop, ftoks_length] at hlen
  refine rightRel_flat_of_toks S hs hR hL' (by omega) ha ?_
  rw [htk, drop_app_ge _ _ _ (by omega)]
  have : fsize L' - (fsize R - t) - Z.length = 0 := by omega
  rw [this, List.drop_zero]

theorem atLevel_rrel (S : Schema) {sl : Slice} {ty : TypeId} {level : List Node} {f t extra : Nat}
    {level' : List Node} (h : atLevel S sl ty level f t extra = .ok level')
    (hn : fnorm level = true) (hsn : fnorm sl.content = true) (hwf : sl.wf = true)
    (hf : f ≤ fsize level) (ht : t ≤ fsize level)
    (hbr : bridgeCompat S extra (singleDepth sl.content sl.openStart sl.openEnd) level f level t = true)
    (ha : alignedAt level' (fsize level' - (fsize level - t)) = true) :
    RightRel S level' (fsize level' - (fsize level - t)) level t := by
  have htk := atLevel_toks hwf hf h
  have hn' := atLevel_norm hn hsn h
  have hk := fnormKids_of_fnorm hn
  have hwf' := hwf
  simp only [Slice.wf, Bool.and_eq_true, decide_eq_true_eq] at hwf'
  -- whenever the old side is flat at `t`, tokens suffice
  have flatCase : ∀ rest, splitRight level t = some (.flat rest) →
      RightRel S level' (fsize level' - (fsize level - t)) level t :=
    fun rest hs => rightRel_flat_of_toks' S hs hn hn' htk ha
  unfold atLevel at h
  simp only at h
  split at h
  · rename_i c hc
    split at h
    · simp at h; subst h
      split at hc
      · cases hx : twoWay S level f level t with
        | error e => rw [hx] at hc; simp [Except.map] at hc
        | ok r =>
          rw [hx] at hc; simp [Except.map] at hc; subst hc
          have := twoWay_rrel S level f level t r hx hk hn [] (by simp)
            (by simpa [fromArray_size] using ha)
          simpa [fromArray_size] using this
      · split at hc
        · rename_i hcond
          simp only [Bool.and_eq_true, decide_eq_true_eq] at hcond
          obtain ⟨_, hdt⟩ := hcond
          split at hc
          · rename_i l r hl hr
            have hat : alignedAt level t = true := by
              by_cases hlt : t < fsize level
              · exact (fcut_aligned hlt (Nat.le_refl _) hr).1
              · have : t = fsize level := by omega
                rw [this]; exact alignedAt_fsize _
            obtain ⟨rest, hs⟩ := splitRight_flat_of_depth level t ht hat hdt
            exact flatCase rest hs
          · simp at hc
          · simp at hc
        · cases hx : threeWay S level f extra sl.content sl.openStart sl.openEnd level t with
          | error e => rw [hx] at hc; simp [Except.map] at hc
          | ok r =>
            rw [hx] at hc; simp [Except.map] at hc; subst hc
            have := threeWay_rrel S level f extra sl.content sl.openStart sl.openEnd level t r hx hk
              (fnormKids_of_fnorm hsn) hn hwf'.1 hwf'.2 hbr [] (by simp)
              (by simpa [fromArray_size] using ha)
            simpa [fromArray_size] using this
    · simp at h
  · simp at h

theorem outer_rrel (S : Schema) (sl : Slice) (hsn : fnorm sl.content = true) (hwf : sl.wf = true) :
    ∀ (rest : List Node) (ty : TypeId) (level : List Node) (f0 t0 idx f t extra : Nat)
      (pre level' : List Node),
      level = pre ++ rest → idx = pre.length → f0 = fsize pre + f → t0 = fsize pre + t →
      f ≤ t → t ≤ fsize rest →
      outer S sl ty level f0 t0 idx rest f t extra = .ok level' → fnorm level = true →
      bridgeCompat S extra (singleDepth sl.content sl.openStart sl.openEnd) rest f rest t = true →
      alignedAt level' (fsize level' - (fsize level - t0)) = true →
      RightRel S level' (fsize level' - (fsize level - t0)) level t0
  | [], ty, level, f0, t0, idx, f, t, extra, pre, level', hl, hi, hf0, ht0, hft, ht, h, hn, hbr, ha => by
    have hpre : fnormKids pre = true := by rw [hl] at hn; exact fnormKids_append_left hn
    unfold outer at h
    have htz : t = 0 := by simpa using ht
    refine atLevel_rrel S h hn hsn hwf (by rw [hl, fsize_append]; simp; omega)
      (by rw [hl, fsize_append]; simp; omega) ?_ ha
    rw [bridgeCompat_congr S extra _ (L2 := []) (f2 := f) (R2 := []) (t2 := t)
      (by rw [hl, hf0]; exact splitRight_append_pre pre [] f hpre)
      (by rw [hl, ht0]; exact splitRight_append_pre pre [] t hpre)]
    exact hbr
  | n :: ns, ty, level, f0, t0, idx, f, t, extra, pre, level', hl, hi, hf0, ht0, hft, ht, h, hn, hbr, ha => by
    have hpre : fnormKids pre = true := by rw [hl] at hn; exact fnormKids_append_left hn
    simp only [fsize_cons] at ht
    have here : atLevel S sl ty level f0 t0 extra = .ok level' →
        RightRel S level' (fsize level' - (fsize level - t0)) level t0 := by
      intro h'
      refine atLevel_rrel S h' hn hsn hwf (by rw [hl, fsize_append]; simp; omega)
        (by rw [hl, fsize_append]; simp; omega) ?_ ha
      rw [bridgeCompat_congr S extra _ (L2 := n :: ns) (f2 := f) (R2 := n :: ns) (t2 := t)
        (by rw [hl, hf0]; exact splitRight_append_pre pre _ f hpre)
        (by rw [hl, ht0]; exact splitRight_append_pre pre _ t hpre)]
      exact hbr
    unfold outer at h
    split at h
    · exact here h
    · rename_i hf
      split at h
      · rename_i hle
        refine outer_rrel S sl hsn hwf ns ty level f0 t0 (idx + 1) (f - n.size) (t - n.size) extra
          (pre ++ [n]) level' (by simp [hl]) (by simp [hi]) (by rw [fsize_append]; simp; omega)
          (by rw [fsize_append]; simp; omega) (by omega) (by omega) h hn ?_ ha
        rw [← bridgeCompat_congr S extra _ (splitRight_skip n ns f hf hle)
          (splitRight_skip n ns t (by omega) (by omega))]
        exact hbr
      · rename_i hlt
        split at h
        · rename_i tyC aC mC kidsC
          split at h
          · rename_i hcond
            simp only [Bool.and_eq_true, decide_eq_true_eq, Node.size_elem] at hcond
            simp only [Node.size_elem, Nat.not_le] at hlt
            obtain ⟨hex, htsz⟩ := hcond
            split at h
            · rename_i inner hin
              simp at h
              subst hl
              have hnk := fnorm_child hn
              have hlev : level' = pre ++ Node.elem tyC aC mC inner :: ns := by
                rw [← h, hi, set_mid]
              subst hlev
              have ht00 : t ≠ 0 := by omega
              have htk := outer_toks S sl hwf kidsC tyC kidsC (f - 1) (t - 1) 0 (f - 1) (t - 1)
                (extra - 1) [] inner rfl rfl (by simp) (by simp) (by omega) (by omega) hin
              have hlen : fsize kidsC - (t - 1) ≤ fsize inner := by
                have := congrArg List.length htk
                simp only [List.length_append, List.length_drop, ftoks_length] at this
                omega
              have hpos : fsize (pre ++ Node.elem tyC aC mC inner :: ns)
                    - (fsize (pre ++ Node.elem tyC aC mC kidsC :: ns) - t0)
                  = fsize pre + (1 + (fsize inner - (fsize kidsC - (t - 1)))) := by
                rw [fsize_append, fsize_append]
                simp only [fsize_cons, Node.size_elem]
                omega
              rw [hpos] at ha ⊢
              have hs' : splitRight (pre ++ Node.elem tyC aC mC inner :: ns)
                  (fsize pre + (1 + (fsize inner - (fsize kidsC - (t - 1)))))
                  = some (.deep (.elem tyC aC mC inner) (fsize inner - (fsize kidsC - (t - 1))) ns) := by
                rw [splitRight_append_pre _ _ _ hpre,
                  splitRight_elem tyC aC mC inner ns _ (by omega) (by omega)]
                simp
              have hs0 : splitRight (pre ++ Node.elem tyC aC mC kidsC :: ns) t0
                  = some (.deep (.elem tyC aC mC kidsC) (t - 1) ns) := by
                rw [ht0, splitRight_append_pre _ _ _ hpre, splitRight_elem tyC aC mC kidsC ns t ht00 htsz]
              rw [alignedAt_append_pre, alignedAt_cons, if_neg (by omega),
                if_neg (by simp; omega)] at ha
              simp only [Nat.add_sub_cancel_left] at ha
              obtain ⟨e, rfl⟩ : ∃ e, extra = e + 1 := ⟨extra - 1, by omega⟩
              simp only [bridgeCompat, splitRight_elem tyC aC mC kidsC ns f hf hlt,
                splitRight_elem tyC aC mC kidsC ns t ht00 htsz] at hbr
              have ih := outer_rrel S sl hsn hwf kidsC tyC kidsC (f - 1) (t - 1) 0 (f - 1) (t - 1) e
                [] inner rfl rfl (by simp) (by simp) (by omega) (by omega) hin hnk hbr ha
              exact .deep hs' hs0 (compatibleContent_self S tyC) ih
            · simp at h
          · exact here h
        · exact here h

/-- **what a successful replace leaves at the end of the inserted content** -/
theorem replaceKids_rrel (S : Schema) (ty : TypeId) (K K' : List Node) (f t : Nat) (sl : Slice)
    (hn : fnorm K = true) (hsn : fnorm sl.content = true)
    (h : replaceKids S ty K f t sl = .ok K')
    (hbr : bridgeCompat S (depthAt K f - sl.openStart)
      (singleDepth sl.content sl.openStart sl.openEnd) K f K t = true)
    (ha : alignedAt K' (fsize K' - (fsize K - t)) = true) :
    RightRel S K' (fsize K' - (fsize K - t)) K t := by
  obtain ⟨hft, ht, hwf, ho⟩ := replaceKids_ok h
  exact outer_rrel S sl hsn hwf K ty K f t 0 f t _ [] K' rfl rfl (by simp) (by simp) hft ht ho hn hbr ha

theorem singleDepth_closed_left (M : List Node) (b : Nat) : singleDepth M 0 b = 0 := by
  unfold singleDepth; split <;> simp_all

theorem singleDepth_closed_right (M : List Node) (a : Nat) : singleDepth M a 0 = 0 := by
  unfold singleDepth; split <;> simp_all

/-- a slice closed on one side never bridges -/
theorem sidesCompatible_of_closed (S : Schema) (doc : Node) (f t : Nat) (sl : Slice)
    (h : sl.openStart = 0 ∨ sl.openEnd = 0) : sidesCompatible S doc f t sl = true := by
  unfold sidesCompatible
  rcases h with h | h
  · rw [h, singleDepth_closed_left]; exact bridgeCompat_nil S _ _ _ _ _
  · rw [h, singleDepth_closed_right]; exact bridgeCompat_nil S _ _ _ _ _

/-! ### the guard follows from the forward step when `compatible_content` is transitive -/

def CompatTrans (S : Schema) : Prop :=
  ∀ x y z : TypeId, S.compatibleContent x y = true → S.compatibleContent y z = true →
    S.compatibleContent x z = true

theorem ancCompat_of_not_deep (S : Schema) (n : Nat) (L : List Node) (f : Nat) (R : List Node) (t : Nat)
    (h : ∀ c i r, splitRight L f ≠ some (.deep c i r)) : bridgeCompat S 0 n L f R t = true := by
  cases n with
  | zero => simp [bridgeCompat, ancCompat]
  | succ n =>
    simp only [bridgeCompat, ancCompat]
    split
    · rename_i h1 _; exact absurd h1 (h _ _ _)
    · rfl

theorem ancCompat_of_right_flat (S : Schema) (n : Nat) (L : List Node) (f : Nat) (R : List Node) (t : Nat)
    (r : List Node) (h : splitRight R t = some (.flat r)) : bridgeCompat S 0 n L f R t = true := by
  cases n with
  | zero => simp [bridgeCompat, ancCompat]
  | succ n =>
    simp only [bridgeCompat, ancCompat, h]
    split
    · rename_i h2; simp at h2
    · rfl

theorem singleDepth_pos {M : List Node} {a b : Nat} (h : singleDepth M a b ≠ 0) :
    ∃ ty at_ m k a' b', M = [.elem ty at_ m k] ∧ a = a' + 1 ∧ b = b' + 1 := by
  unfold singleDepth at h
  split at h
  · exact ⟨_, _, _, _, _, _, rfl, rfl, rfl⟩
  · simp at h

theorem threeWay_bridge (S : Schema) (htr : CompatTrans S) : ∀ (L : List Node) (f extra : Nat)
    (M : List Node) (a b : Nat) (R : List Node) (t : Nat) (X : List Node),
    threeWay S L f extra M a b R t = .ok X →
    bridgeCompat S extra (singleDepth M a b) L f R t = true
  | [], f, extra, M, a, b, R, t, X, h => by
    unfold threeWay at h
    split at h
    · split at h
      · rename_i hf he; subst hf; subst he
        exact ancCompat_of_not_deep S _ _ _ _ _ (by simp)
      · simp at h
    · simp at h
  | n :: ns, f, extra, M, a, b, R, t, X, h => by
    unfold threeWay at h
    split at h
    · split at h
      · rename_i hf he; subst hf; subst he
        exact ancCompat_of_not_deep S _ _ _ _ _ (by simp)
      · simp at h
    · rename_i hf
      split at h
      · rename_i hle
        split at h
        · rename_i r hr
          rw [bridgeCompat_congr S extra _ (splitRight_skip n ns f hf hle) rfl]
          exact threeWay_bridge S htr ns (f - n.size) extra M a b R t r hr
        · simp at h
      · rename_i hlt
        cases n with
        | text s m =>
          simp only at h
          split at h
          · simp at h
          · split at h
            · simp at h
            · rename_i he
              have he0 : extra = 0 := by simpa using he
              subst he0
              refine ancCompat_of_not_deep S _ _ _ _ _ ?_
              intro c i r
              rw [splitRight_cons, if_neg hf, if_neg hlt]
              simp only
              split <;> simp
        | leaf ty at_ m => simp at h
        | elem tyL aL mL kidsL =>
          simp only [Node.size_elem, Nat.not_le] at hlt
          have hsL := splitRight_elem tyL aL mL kidsL ns f hf hlt
          simp only at h
          split at h
          · simp at h
          · rename_i rs hs
            split at h
            · rename_i hex
              split at h
              · rename_i tyR aR mR kidsR innerT rest
                split at h
                · split at h
                  · rename_i inner hin
                    obtain ⟨e, rfl⟩ : ∃ e, extra = e + 1 := ⟨extra - 1, by omega⟩
                    simp only [bridgeCompat, hsL, hs]
                    exact threeWay_bridge S htr kidsL (f - 1) e M a b kidsR innerT inner hin
                  · simp at h
                · simp at h
              · simp at h
            · rename_i hex
              have hex0 : extra = 0 := by simpa using hex
              subst hex0
              split at h
              · simp at h
              · rename_i ha0
                split at h
                · simp at h
                · rename_i cS Mtail
                  split at h
                  · rename_i tyS aS mS kidsS
                    split at h
                    · simp at h
                    · rename_i hcSL
                      split at h
                      · rename_i tyR aR mR kidsR innerT rest b' x hx
                        obtain ⟨rfl, rfl⟩ : Node.elem tyS aS mS kidsS = x ∧ Mtail = [] := by
                          simpa using hx
                        split at h
                        · simp at h
                        · rename_i hcRS
                          split at h
                          · rename_i inner hin
                            obtain ⟨a', rfl⟩ : ∃ a', a = a' + 1 := ⟨a - 1, by omega⟩
                            have ih := threeWay_bridge S htr kidsL (f - 1) 0 kidsS a' b' kidsR innerT inner
                              (by simpa using hin)
                            simp only [Bool.not_eq_eq_eq_not, Bool.not_true, Bool.not_eq_false] at hcSL hcRS
                            have hc : S.compatibleContent tyL tyR = true := by
                              rw [compat_symm]; exact htr _ _ _ hcRS hcSL
                            simp only [singleDepth, bridgeCompat, Nat.add_comm 1, ancCompat, hsL, hs,
                              Bool.and_eq_true]
                            exact ⟨hc, by simpa [bridgeCompat] using ih⟩
                          · simp at h
                      · rename_i rs b _ _ _ hnot
                        -- no merge through the slice at this level: the guard asks nothing
                        by_cases hsd : singleDepth (Node.elem tyS aS mS kidsS :: Mtail) a b = 0
                        · rw [hsd]; exact bridgeCompat_nil S _ _ _ _ _
                        · obtain ⟨_, _, _, _, a', b', hM, _, hb⟩ := singleDepth_pos hsd
                          cases rs with
                          | flat r => exact ancCompat_of_right_flat S _ _ _ _ _ r hs
                          | deep c i r =>
                            cases c with
                            | elem tyR aR mR kidsR => exact absurd hM (by
                                intro hM'; exact hnot tyR aR mR kidsR i r b' _ rfl hb hM')
                            | text s' m' =>
                              exfalso
                              simp [threeWay.rightJoinCheck, rightJoin] at h
                              split at h <;> try simp at h
                              all_goals (split at h <;> try simp at h)
                              all_goals (split at h <;> simp at h)
                            | leaf ty' a' m' =>
                              exfalso
                              simp [threeWay.rightJoinCheck, rightJoin] at h
                              split at h <;> try simp at h
                              all_goals (split at h <;> try simp at h)
                              all_goals (split at h <;> simp at h)
                  · simp at h

theorem atLevel_bridge (S : Schema) (htr : CompatTrans S) {sl : Slice} {ty : TypeId}
    {level : List Node} {f t extra : Nat} {level' : List Node}
    (h : atLevel S sl ty level f t extra = .ok level') :
    bridgeCompat S extra (singleDepth sl.content sl.openStart sl.openEnd) level f level t = true := by
  unfold atLevel at h
  simp only at h
  split at h
  · rename_i c hc
    split at hc
    · rename_i h0
      by_cases hsd : singleDepth sl.content sl.openStart sl.openEnd = 0
      · rw [hsd]; exact bridgeCompat_nil S _ _ _ _ _
      · obtain ⟨_, _, _, _, _, _, hM, _, _⟩ := singleDepth_pos hsd
        rw [hM] at h0
        simp at h0
    · split at hc
      · rename_i hcond
        simp only [Bool.and_eq_true, decide_eq_true_eq] at hcond
        rw [hcond.1.1.1, singleDepth_closed_left]
        exact bridgeCompat_nil S _ _ _ _ _
      · cases hx : threeWay S level f extra sl.content sl.openStart sl.openEnd level t with
        | error e => rw [hx] at hc; simp [Except.map] at hc
        | ok r => exact threeWay_bridge S htr _ _ _ _ _ _ _ _ _ hx
  · simp at h

theorem outer_bridge (S : Schema) (htr : CompatTrans S) (sl : Slice) :
    ∀ (rest : List Node) (ty : TypeId) (level : List Node) (f0 t0 idx f t extra : Nat)
      (pre level' : List Node),
      level = pre ++ rest → f0 = fsize pre + f → t0 = fsize pre + t → f ≤ t →
      outer S sl ty level f0 t0 idx rest f t extra = .ok level' → fnorm level = true →
      bridgeCompat S extra (singleDepth sl.content sl.openStart sl.openEnd) rest f rest t = true
  | [], ty, level, f0, t0, idx, f, t, extra, pre, level', hl, hf0, ht0, hft, h, hn => by
    have hpre : fnormKids pre = true := by rw [hl] at hn; exact fnormKids_append_left hn
    unfold outer at h
    have := atLevel_bridge S htr h
    rwa [bridgeCompat_congr S extra _ (L2 := []) (f2 := f) (R2 := []) (t2 := t)
      (by rw [hl, hf0]; exact splitRight_append_pre pre [] f hpre)
      (by rw [hl, ht0]; exact splitRight_append_pre pre [] t hpre)] at this
  | n :: ns, ty, level, f0, t0, idx, f, t, extra, pre, level', hl, hf0, ht0, hft, h, hn => by
    have hpre : fnormKids pre = true := by rw [hl] at hn; exact fnormKids_append_left hn
    have here : atLevel S sl ty level f0 t0 extra = .ok level' →
        bridgeCompat S extra (singleDepth sl.content sl.openStart sl.openEnd) (n :: ns) f (n :: ns) t
          = true := by
      intro h'
      have := atLevel_bridge S htr h'
      rwa [bridgeCompat_congr S extra _ (L2 := n :: ns) (f2 := f) (R2 := n :: ns) (t2 := t)
        (by rw [hl, hf0]; exact splitRight_append_pre pre _ f hpre)
        (by rw [hl, ht0]; exact splitRight_append_pre pre _ t hpre)] at this
    unfold outer at h
    split at h
    · exact here h
    · rename_i hf
      split at h
      · rename_i hle
        rw [bridgeCompat_congr S extra _ (splitRight_skip n ns f hf hle)
          (splitRight_skip n ns t (by omega) (by omega))]
        exact outer_bridge S htr sl ns ty level f0 t0 (idx + 1) (f - n.size) (t - n.size) extra
          (pre ++ [n]) level' (by simp [hl]) (by rw [fsize_append]; simp; omega)
          (by rw [fsize_append]; simp; omega) (by omega) h hn
      · rename_i hlt
        split at h
        · rename_i tyC aC mC kidsC
          split at h
          · rename_i hcond
            simp only [Bool.and_eq_true, decide_eq_true_eq, Node.size_elem] at hcond
            simp only [Node.size_elem, Nat.not_le] at hlt
            obtain ⟨hex, htsz⟩ := hcond
            split at h
            · rename_i inner hin
              subst hl
              obtain ⟨e, rfl⟩ : ∃ e, extra = e + 1 := ⟨extra - 1, by omega⟩
              simp only [bridgeCompat, splitRight_elem tyC aC mC kidsC ns f hf hlt,
                splitRight_elem tyC aC mC kidsC ns t (by omega) htsz]
              exact outer_bridge S htr sl kidsC tyC kidsC (f - 1) (t - 1) 0 (f - 1) (t - 1) e
                [] inner rfl (by simp) (by simp) (by omega) hin (fnorm_child hn)
            · simp at h
          · exact here h
        · exact here h

/-- when `compatible_content` is transitive, a successful replace satisfies the guard by itself -/
theorem sidesCompatible_of_trans (S : Schema) (htr : CompatTrans S) (ty : TypeId) (a : Attrs)
    (m : Marks) (K K' : List Node) (f t : Nat) (sl : Slice) (hn : fnorm K = true)
    (h : replaceKids S ty K f t sl = .ok K') :
    sidesCompatible S (.elem ty a m K) f t sl = true := by
  obtain ⟨hft, ht, hwf, ho⟩ := replaceKids_ok h
  exact outer_bridge S htr sl K ty K f t 0 f t _ [] K' rfl (by simp) (by simp) hft ho hn

/-! ### transitivity of `compatible_content` as a decidable schema property -/

theorem compat_oob (S : Schema) (x y : TypeId) (hx : S.nodes.size ≤ x) :
    S.compatibleContent x y = (x == y) := by
  have : (S.dfa x) = #[] := by
    simp only [Schema.dfa, Schema.nodeType]
    rw [getElem!_neg S.nodes x (by omega)]
    rfl
  simp [Schema.compatibleContent, Dfa.compatible, Dfa.edgesOf, this]

theorem compatTrans_of_B (S : Schema) (h : compatTransB S = true) : CompatTrans S := by
  intro x y z hxy hyz
  by_cases hx : S.nodes.size ≤ x
  · rw [compat_oob S x y hx] at hxy
    have : x = y := by simpa using hxy
    subst this; exact hyz
  by_cases hy : S.nodes.size ≤ y
  · rw [compat_symm, compat_oob S y x hy] at hxy
    have : y = x := by simpa using hxy
    subst this; exact hyz
  by_cases hz : S.nodes.size ≤ z
  · rw [compat_symm, compat_oob S z y hz] at hyz
    have : z = y := by simpa using hyz
    subst this; exact hxy
  simp only [compatTransB, List.all_eq_true, List.mem_range] at h
  have := h x (by omega) y (by omega) z (by omega)
  simp only [hxy, hyz, Bool.and_self, Bool.not_true, Bool.false_or] at this
  exact this

end PM
