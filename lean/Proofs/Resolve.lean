/- Proofs/Resolve.lean — helper lemmas for Props/C09.lean -/
import PM.Resolve
import Proofs.Toks
import Proofs.TokCore
namespace PM

/-! ### The invariant of `resolveScan` -/

/-- facts about one path entry whose node's content starts at absolute position `st` -/
structure EntryOK (st target : Nat) (e : PE) : Prop where
  idx_le : e.index ≤ e.node.kids.length
  pos_eq : e.pos = st + fsize (e.node.kids.take e.index)
  pos_le : e.pos ≤ target
  le_end : target ≤ st + fsize e.node.kids

/-- the innermost entry: the target is at a child boundary or strictly inside a text child -/
def LastOK (target : Nat) (e : PE) : Prop :=
  target = e.pos ∨ ∃ s m, e.node.kids[e.index]? = some (.text s m) ∧ target - e.pos < s.length

/-- a resolved path below a node whose content starts at `st` -/
def PathOK (target : Nat) : Nat → Path → Prop
  | _, [] => False
  | st, [e] => EntryOK st target e ∧ LastOK target e
  | st, e :: e' :: tl => EntryOK st target e ∧ e.node.kids[e.index]? = some e'.node ∧
      e'.node.size = fsize e'.node.kids + 2 ∧ PathOK target (e.pos + 1) (e' :: tl)

theorem fsize_take_le (l : List Node) (i : Nat) : fsize (l.take i) ≤ fsize l := by
  have := fsize_append (l.take i) (l.drop i)
  rw [List.take_append_drop] at this; omega

theorem resolveScan_ok (node : Node) (start : Nat) (rest : List Node) (idx cur po : Nat)
    (path : Path) (pre : List Node) (hk : node.kids = pre ++ rest) (hi : idx = pre.length)
    (hc : cur = fsize pre) (h : resolveScan node start rest idx cur po = some path) :
    PathOK (start + cur + po) start path ∧ (∃ e tl, path = e :: tl ∧ e.node = node) ∧
      po ≤ fsize rest := by
  fun_induction resolveScan node start rest idx cur po generalizing path pre
  case case1 node start idx cur =>
    simp only [Option.some.injEq] at h; subst h
    refine ⟨⟨⟨?_, ?_, ?_, ?_⟩, Or.inl (by simp)⟩, ⟨_, _, rfl, rfl⟩, by simp⟩
    · simp [hk, hi]
    · simp [hk, hi, hc]
    · simp
    · simp [hk, hc]
  case case2 => simp at h
  case case3 node start n ns idx cur =>
    simp only [Option.some.injEq] at h; subst h
    refine ⟨⟨⟨?_, ?_, ?_, ?_⟩, Or.inl (by simp)⟩, ⟨_, _, rfl, rfl⟩, by simp⟩
    · simp [hk, hi]
    · simp [hk, hi, hc]
    · simp
    · simp [hk, hc, fsize_append]
  case case4 node start n ns idx cur po h0 h1 ih =>
    have := ih path (pre ++ [n]) (by simp [hk]) (by simp [hi]) (by simp [hc, fsize_append]) h
    have e : start + (cur + n.size) + (po - n.size) = start + cur + po := by omega
    rw [e] at this
    refine ⟨this.1, this.2.1, ?_⟩
    have := this.2.2
    simp; omega
  case case5 node start ns idx cur po h0 ty ats mk kids h1 ih =>
    cases hr : resolveScan (Node.elem ty ats mk kids) (start + cur + 1) kids 0 0 (po - 1) with
    | none => simp [hr] at h
    | some p' =>
      simp only [hr, Option.map_some, Option.some.injEq] at h
      obtain ⟨hp, ⟨e', tl, rfl, he'⟩, hle⟩ := ih p' [] (by simp [Node.kids]) rfl (by simp) hr
      have e : start + cur + 1 + 0 + (po - 1) = start + cur + po := by omega
      rw [e] at hp
      subst h
      simp only [Node.size_elem, Nat.not_le] at h1
      refine ⟨⟨⟨?_, ?_, ?_, ?_⟩, ?_, ?_, hp⟩, ⟨_, _, rfl, rfl⟩, by simp; omega⟩
      · simp [hk, hi]
      · simp [hk, hi, hc]
      · simp
      · simp [hk, hc, fsize_append]; omega
      · simp [hk, hi, he']
      · simp [he', Node.kids]; omega
  case case6 node start n ns idx cur po h0 h1 hne =>
    simp only [Option.some.injEq] at h; subst h
    have : ∃ s m, n = .text s m ∧ po < s.length := by
      cases n with
      | text s m => exact ⟨s, m, rfl, by simpa using h1⟩
      | leaf => simp at h1; omega
      | elem t a m k => exact (hne t a m k rfl).elim
    obtain ⟨s, m, rfl, hlt⟩ := this
    refine ⟨⟨⟨?_, ?_, ?_, ?_⟩, Or.inr ⟨s, m, ?_, ?_⟩⟩, ⟨_, _, rfl, rfl⟩, by simp; omega⟩
    · simp [hk, hi]
    · simp [hk, hi, hc]
    · simp
    · simp [hk, hc, fsize_append]; omega
    · simp [hk, hi]
    · simp; omega

theorem resolveScan_some (node : Node) (start : Nat) (rest : List Node) (idx cur po : Nat)
    (h : po ≤ fsize rest) : ∃ path, resolveScan node start rest idx cur po = some path := by
  fun_induction resolveScan node start rest idx cur po
  case case1 => exact ⟨_, rfl⟩
  case case2 => simp at h; omega
  case case3 => exact ⟨_, rfl⟩
  case case4 node start n ns idx cur po h0 h1 ih => exact ih (by simp at h; omega)
  case case5 node start ns idx cur po h0 ty ats mk kids h1 ih =>
    simp only [Node.size_elem, Nat.not_le] at h1
    obtain ⟨p, hp⟩ := ih (by omega)
    exact ⟨_, by rw [hp]; rfl⟩
  case case6 => exact ⟨_, rfl⟩

theorem resolveScan_depth (node : Node) (start : Nat) (rest : List Node) (idx cur po : Nat)
    (path : Path) (h : resolveScan node start rest idx cur po = some path) :
    path.length = depthAt rest po + 1 := by
  fun_induction resolveScan node start rest idx cur po generalizing path
  case case1 => simp at h; subst h; simp
  case case2 => simp at h
  case case3 => simp at h; subst h; simp
  case case4 node start n ns idx cur po h0 h1 ih =>
    rw [depthAt_skip _ _ _ h1]; exact ih path h
  case case5 node start ns idx cur po h0 ty ats mk kids h1 ih =>
    simp only [Node.size_elem, Nat.not_le] at h1
    cases hr : resolveScan (Node.elem ty ats mk kids) (start + cur + 1) kids 0 0 (po - 1) with
    | none => simp [hr] at h
    | some p' =>
      simp only [hr, Option.map_some, Option.some.injEq] at h
      subst h
      rw [depthAt_elem_cons _ _ _ _ _ _ (by omega) h1, List.length_cons, ih p' hr]; omega
  case case6 node start n ns idx cur po h0 h1 hne =>
    simp at h; subst h
    rw [depthAt_cons, if_neg h0, if_neg h1]
    cases n with
    | elem t a m k => exact (hne t a m k rfl).elim
    | _ => simp

/-! ### Indexed access to a `PathOK` path -/

/-- start of the content of the node at relative depth `k` of a path whose root content starts at `st` -/
def pstart (st : Nat) (path : Path) (k : Nat) : Nat := if k = 0 then st else path[k - 1]!.pos + 1

theorem pstart_succ (st : Nat) (e : PE) (p : Path) (k : Nat) :
    pstart st (e :: p) (k + 1) = pstart (e.pos + 1) p k := by
  cases k <;> simp [pstart]

theorem PathOK.entry {target : Nat} : ∀ (path : Path) (st k : Nat), PathOK target st path →
    k < path.length → EntryOK (pstart st path k) target path[k]!
  | [], _, _, h, _ => h.elim
  | [e], st, k, h, hk => by
    have : k = 0 := by simpa using hk
    subst this; simpa [pstart] using h.1
  | e :: e' :: tl, st, 0, h, _ => by simpa [pstart] using h.1
  | e :: e' :: tl, st, k + 1, h, hk => by
    rw [pstart_succ]
    simpa using PathOK.entry (e' :: tl) (e.pos + 1) k h.2.2.2 (by simpa using hk)

theorem PathOK.chain {target : Nat} : ∀ (path : Path) (st k : Nat), PathOK target st path →
    k + 1 < path.length →
    path[k]!.node.kids[path[k]!.index]? = some path[k + 1]!.node ∧
      path[k + 1]!.node.size = fsize path[k + 1]!.node.kids + 2
  | [], _, _, h, _ => h.elim
  | [e], st, k, h, hk => by simp at hk
  | e :: e' :: tl, st, 0, h, _ => by simpa using ⟨h.2.1, h.2.2.1⟩
  | e :: e' :: tl, st, k + 1, h, hk => by
    simpa using PathOK.chain (e' :: tl) (e.pos + 1) k h.2.2.2 (by simpa using hk)

theorem PathOK.last {target : Nat} : ∀ (path : Path) (st : Nat), PathOK target st path →
    LastOK target path[path.length - 1]!
  | [], _, h => h.elim
  | [e], st, h => by simpa using h.2
  | e :: e' :: tl, st, h => by
    simpa using PathOK.last (e' :: tl) (e.pos + 1) h.2.2.2

/-! ### Resolved positions -/

structure Resolved (doc : Node) (pos : Nat) (r : RPos) : Prop where
  pos_eq : r.pos = pos
  ok : PathOK pos 0 r.path
  head : ∃ e tl, r.path = e :: tl ∧ e.node = doc
  len : r.path.length = depthAt doc.kids pos + 1
  le : pos ≤ fsize doc.kids

theorem resolve_resolved {doc : Node} {pos : Nat} {r : RPos} (h : doc.resolve pos = some r) :
    Resolved doc pos r := by
  unfold Node.resolve at h
  split at h
  · rename_i hle
    cases hr : resolveScan doc 0 doc.kids 0 0 pos with
    | none => simp [hr] at h
    | some p =>
      simp only [hr, Option.map_some, Option.some.injEq] at h
      subst h
      have := resolveScan_ok doc 0 doc.kids 0 0 pos p [] (by simp) rfl (by simp) hr
      simp only [Nat.zero_add] at this
      exact ⟨rfl, this.1, this.2.1, resolveScan_depth _ _ _ _ _ _ _ hr, hle⟩
  · simp at h

theorem resolve_isSome (doc : Node) (pos : Nat) (h : pos ≤ fsize doc.kids) :
    ∃ r, doc.resolve pos = some r := by
  obtain ⟨p, hp⟩ := resolveScan_some doc 0 doc.kids 0 0 pos h
  exact ⟨⟨pos, p⟩, by simp [Node.resolve, h, hp]⟩

namespace Resolved
variable {doc : Node} {pos : Nat} {r : RPos}

theorem depth_eq (R : Resolved doc pos r) : r.depth = depthAt doc.kids pos := by
  simp [RPos.depth, R.len]

theorem length_eq (R : Resolved doc pos r) : r.path.length = r.depth + 1 := by
  simp [RPos.depth, R.len]

theorem start_eq (r : RPos) (k : Nat) : r.start k = pstart 0 r.path k := by
  simp [RPos.start, pstart, RPos.entry]

theorem node_zero (R : Resolved doc pos r) : r.node 0 = doc := by
  obtain ⟨e, tl, h1, h2⟩ := R.head
  simp [RPos.node, RPos.entry, h1, h2]

theorem entry (R : Resolved doc pos r) (k : Nat) (hk : k ≤ r.depth) :
    EntryOK (r.start k) pos (r.entry k) := by
  rw [start_eq]
  exact PathOK.entry r.path 0 k R.ok (by rw [R.length_eq]; omega)

theorem chain (R : Resolved doc pos r) (k : Nat) (hk : k < r.depth) :
    (r.node k).kids[r.index k]? = some (r.node (k + 1)) ∧
      (r.node (k + 1)).size = fsize (r.node (k + 1)).kids + 2 :=
  PathOK.chain r.path 0 k R.ok (by rw [R.length_eq]; omega)

theorem last (R : Resolved doc pos r) : LastOK pos (r.entry r.depth) :=
  PathOK.last r.path 0 R.ok

theorem start_succ (r : RPos) (k : Nat) : r.start (k + 1) = (r.entry k).pos + 1 := by
  simp [RPos.start]

end Resolved

/-! ### Token windows -/

theorem list_window_mid {α : Type} (G : List α) (st n : Nat) (A T B : List α)
    (h : (G.drop st).take n = A ++ T ++ B) : (G.drop (st + A.length)).take T.length = T := by
  have : G.drop st = A ++ T ++ B ++ (G.drop st).drop n := by rw [← h, List.take_append_drop]
  rw [← List.drop_drop, this]; simp

theorem kids_split (kids : List Node) (i : Nat) (c : Node) (h : kids[i]? = some c) :
    kids = kids.take i ++ c :: kids.drop (i + 1) := by
  have hi : i < kids.length := by
    rcases Nat.lt_or_ge i kids.length with h' | h'
    · exact h'
    · simp [List.getElem?_eq_none h'] at h
  rw [List.getElem?_eq_getElem hi] at h
  simp only [Option.some.injEq] at h
  rw [← h]; simp

/-- the tokens of child `i` sit in the window of its parent's content -/
theorem window_child (G : List Tok) (st : Nat) (kids : List Node) (i : Nat) (c : Node)
    (hw : (G.drop st).take (fsize kids) = ftoks kids) (hc : kids[i]? = some c) :
    (G.drop (st + fsize (kids.take i))).take c.size = c.toks := by
  have hs := kids_split kids i c hc
  have : ftoks kids = ftoks (kids.take i) ++ c.toks ++ ftoks (kids.drop (i + 1)) := by
    conv => lhs; rw [hs]
    simp [ftoks_append]
  rw [this] at hw
  have := list_window_mid G st _ _ _ _ hw
  rwa [ftoks_length, Node.toks_length] at this

/-- … and the content tokens of a node one past its open token -/
theorem window_content (G : List Tok) (p : Nat) (c : Node)
    (hw : (G.drop p).take c.size = c.toks) :
    (G.drop (p + 1)).take (fsize c.kids) = ftoks c.kids := by
  cases c with
  | text s m => simp [Node.kids]
  | leaf t a m => simp [Node.kids]
  | elem t a m k =>
    have h' : (G.drop p).take (Node.elem t a m k).size = [Tok.op t a m] ++ ftoks k ++ [Tok.cl] := by
      rw [hw]; simp
    have := list_window_mid G p _ _ _ _ h'
    simpa [Node.kids, ftoks_length] using this

theorem child_size_le (kids : List Node) (i : Nat) (c : Node) (h : kids[i]? = some c) :
    fsize (kids.take i) + c.size ≤ fsize kids := by
  have hs := kids_split kids i c h
  have : fsize kids = fsize (kids.take i) + (c.size + fsize (kids.drop (i + 1))) := by
    conv => lhs; rw [hs]
    simp [fsize_append]
  omega

namespace Resolved
variable {doc : Node} {pos : Nat} {r : RPos}

theorem window_kids (R : Resolved doc pos r) : ∀ (k : Nat), k ≤ r.depth →
    ((ftoks doc.kids).drop (r.start k)).take (fsize (r.node k).kids) = ftoks (r.node k).kids
  | 0, _ => by
    rw [R.node_zero]
    simp [RPos.start, ← ftoks_length]
  | k + 1, hk => by
    have ih := R.window_kids k (by omega)
    have hc := (R.chain k (by omega)).1
    have he := (R.entry k (by omega)).pos_eq
    have := window_child _ _ _ _ _ ih hc
    rw [show r.start k + fsize ((r.node k).kids.take (r.index k)) = (r.entry k).pos from he.symm] at this
    rw [start_succ]
    exact window_content _ _ _ this

theorem window_node (R : Resolved doc pos r) (k : Nat) (hk : k < r.depth) :
    ((ftoks doc.kids).drop (r.entry k).pos).take (r.node (k + 1)).size = (r.node (k + 1)).toks := by
  have ih := R.window_kids k (by omega)
  have hc := (R.chain k (by omega)).1
  have he := (R.entry k (by omega)).pos_eq
  have := window_child _ _ _ _ _ ih hc
  rwa [show r.start k + fsize ((r.node k).kids.take (r.index k)) = (r.entry k).pos from he.symm] at this

end Resolved

/-! ### shared depth, marks -/

theorem sharedDepth_go (r : RPos) (other : Nat) : ∀ D : Nat,
    RPos.sharedDepth.go r other D ≤ D ∧
    (RPos.sharedDepth.go r other D = 0 ∨
      (r.start (RPos.sharedDepth.go r other D) ≤ other ∧
        other ≤ r.end_ (RPos.sharedDepth.go r other D))) ∧
    ∀ k, RPos.sharedDepth.go r other D < k → k ≤ D → ¬ (r.start k ≤ other ∧ other ≤ r.end_ k)
  | 0 => by simp [RPos.sharedDepth.go]; intro k h1 h2; omega
  | D + 1 => by
    unfold RPos.sharedDepth.go
    split
    · rename_i hc
      simp only [Bool.and_eq_true, decide_eq_true_eq] at hc
      exact ⟨Nat.le_refl _, Or.inr hc, fun k h1 h2 => by omega⟩
    · rename_i hc
      simp only [Bool.and_eq_true, decide_eq_true_eq] at hc
      obtain ⟨h1, h2, h3⟩ := sharedDepth_go r other D
      refine ⟨by omega, h2, fun k hk1 hk2 => ?_⟩
      rcases Nat.lt_or_ge D k with h | h
      · have : k = D + 1 := by omega
        subst this; exact hc
      · exact h3 k hk1 h

theorem dropNonInclusive_sublist (S : Schema) (m : Marks) (o : Option Node) :
    (RPos.dropNonInclusive S m o).Sublist m := by
  unfold RPos.dropNonInclusive; exact List.filter_sublist

/-! ### node_at -/

theorem list_window_ext {α : Type} (A B T : List α) (q m : Nat)
    (h : (A.drop q).take m = T) (hl : T.length = m) : ((A ++ B).drop q).take m = T := by
  have h1 : m ≤ A.length - q := by
    rw [← h, List.length_take, List.length_drop] at hl; omega
  rw [List.drop_append, List.take_append, h, List.length_drop]
  have : m - (A.length - q) = 0 := by omega
  rw [this]; simp

theorem nodeAtKids_some (kids : List Node) (pos : Nat) (n : Node)
    (h : nodeAtKids kids pos = .ok (some n)) :
    ∃ p, p ≤ pos ∧ (n.size ≠ 0 → pos < p + n.size) ∧
      ((ftoks kids).drop p).take n.size = n.toks ∧ (p = pos ∨ n.isText = true) := by
  fun_induction nodeAtKids kids pos
  case case1 => simp at h
  case case2 => simp at h
  case case3 n' ns =>
    simp only [Except.ok.injEq, Option.some.injEq] at h; subst h
    exact ⟨0, Nat.le_refl _, fun h => by omega, by simp [← Node.toks_length], Or.inl rfl⟩
  case case4 n' ns pos h0 h1 ih =>
    obtain ⟨p, hp1, hp2, hp3, hp4⟩ := ih h
    refine ⟨n'.size + p, by omega, fun h => by have := hp2 h; omega, ?_, ?_⟩
    · rw [ftoks_cons, List.drop_append, List.drop_of_length_le (by rw [Node.toks_length]; omega),
        Node.toks_length]
      simpa using hp3
    · rcases hp4 with h | h
      · left; omega
      · right; exact h
  case case5 ns pos h0 ty ats mk k h1 ih =>
    simp only [Node.size_elem, Nat.not_le] at h1
    obtain ⟨p, hp1, hp2, hp3, hp4⟩ := ih h
    refine ⟨p + 1, by omega, fun h => by have := hp2 h; omega, ?_, ?_⟩
    · simp only [ftoks_cons, Node.toks_elem, List.cons_append, List.drop_succ_cons, List.append_assoc]
      exact list_window_ext _ _ _ _ _ hp3 (Node.toks_length n)
    · rcases hp4 with h | h
      · left; omega
      · right; exact h
  case case6 n' ns pos h0 h1 hne =>
    simp only [Except.ok.injEq, Option.some.injEq] at h; subst h
    refine ⟨0, by omega, fun _ => by omega, by simp [← Node.toks_length], Or.inr ?_⟩
    cases n' with
    | text s m => rfl
    | leaf => simp at h1; omega
    | elem t a m k => exact (hne t a m k rfl).elim

/-- a token list that can follow a complete child list -/
def ClosedTail (X : List Tok) : Prop := X.head? = none ∨ X.head? = some Tok.cl

theorem nodeAtKids_none (kids : List Node) (pos : Nat) (h : nodeAtKids kids pos = .ok none) :
    pos ≤ fsize kids ∧ ∀ X : List Tok, ClosedTail X → ClosedTail ((ftoks kids ++ X).drop pos) := by
  fun_induction nodeAtKids kids pos
  case case1 => exact ⟨Nat.le_refl _, fun X hX => by simpa using hX⟩
  case case2 => simp at h
  case case3 => simp at h
  case case4 n' ns pos h0 h1 ih =>
    obtain ⟨h2, h3⟩ := ih h
    refine ⟨by simp; omega, fun X hX => ?_⟩
    rw [ftoks_cons, List.append_assoc, List.drop_append,
      List.drop_of_length_le (by rw [Node.toks_length]; omega), Node.toks_length]
    simpa using h3 X hX
  case case5 ns pos h0 ty ats mk k h1 ih =>
    simp only [Node.size_elem, Nat.not_le] at h1
    obtain ⟨h2, h3⟩ := ih h
    refine ⟨by simp; omega, fun X hX => ?_⟩
    obtain ⟨p, rfl⟩ : ∃ p, pos = p + 1 := ⟨pos - 1, by omega⟩
    have := h3 (Tok.cl :: (ftoks ns ++ X)) (Or.inr rfl)
    simpa using this
  case case6 => simp at h

/-! ### text_between -/

/-- the text units among a list of tokens (same as `C09.unitsOf`) -/
def tokUnits : List Tok → List Nat
  | [] => []
  | .unit u _ :: r => u :: tokUnits r
  | _ :: r => tokUnits r

@[simp] theorem tokUnits_nil : tokUnits [] = [] := rfl
@[simp] theorem tokUnits_unit (u : Nat) (m : Marks) (r : List Tok) :
    tokUnits (.unit u m :: r) = u :: tokUnits r := rfl
@[simp] theorem tokUnits_op (t : TypeId) (a : Attrs) (m : Marks) (r : List Tok) :
    tokUnits (.op t a m :: r) = tokUnits r := rfl
@[simp] theorem tokUnits_cl (r : List Tok) : tokUnits (.cl :: r) = tokUnits r := rfl
@[simp] theorem tokUnits_leaf (t : TypeId) (a : Attrs) (m : Marks) (r : List Tok) :
    tokUnits (.leaf t a m :: r) = tokUnits r := rfl

theorem tokUnits_append (a b : List Tok) : tokUnits (a ++ b) = tokUnits a ++ tokUnits b := by
  induction a with
  | nil => simp
  | cons x a ih => cases x <;> simp [ih]

theorem tokUnits_map_unit (s : List Nat) (m : Marks) : tokUnits (s.map (Tok.unit · m)) = s := by
  induction s with
  | nil => simp
  | cons c s ih => simp [ih]

theorem slice_append {α : Type} (A B : List α) (f t : Nat) :
    ((A ++ B).take t).drop f = (A.take t).drop f ++ (B.take (t - A.length)).drop (f - A.length) := by
  rw [List.take_append, List.drop_append, List.length_take]
  rcases Nat.le_total A.length t with h | h
  · rw [Nat.min_eq_right h]
  · have : t - A.length = 0 := by omega
    simp [this]

theorem tokUnits_slice_cl (a b : Nat) : tokUnits (([Tok.cl].take a).drop b) = [] := by
  cases a <;> cases b <;> simp

theorem take_min_length {α : Type} (K : List α) (t : Nat) : K.take (min K.length t) = K.take t := by
  rcases Nat.le_total K.length t with h | h
  · rw [Nat.min_eq_left h, List.take_length, List.take_of_length_le h]
  · rw [Nat.min_eq_right h]

theorem tokUnits_slice_elem (ty : TypeId) (a : Attrs) (m : Marks) (K : List Tok) (f t : Nat)
    (ht : t ≠ 0) :
    tokUnits (((Tok.op ty a m :: (K ++ [Tok.cl])).take t).drop f) =
      tokUnits ((K.take (min K.length (t - 1))).drop (f - 1)) := by
  obtain ⟨t', rfl⟩ : ∃ t', t = t' + 1 := ⟨t - 1, by omega⟩
  have h1 : tokUnits (((Tok.op ty a m :: (K ++ [Tok.cl])).take (t' + 1)).drop f) =
      tokUnits (((K ++ [Tok.cl]).take t').drop (f - 1)) := by
    cases f <;> simp
  rw [h1, slice_append, tokUnits_append, tokUnits_slice_cl, take_min_length]
  simp

theorem textBetween_cons (n : Node) (ns : List Node) (f t : Nat) (ht0 : t ≠ 0) :
    textBetween (n :: ns) f t =
      (if f < n.size then
          match n with
          | .text s _ => (s.take t).drop f
          | .elem _ _ _ kids => textBetween kids (f - 1) (min (fsize kids) (t - 1))
          | .leaf .. => []
        else []) ++ textBetween ns (f - n.size) (t - n.size) := by
  conv => lhs; unfold textBetween
  rw [if_neg ht0]
  rfl

theorem textBetween_zero (kids : List Node) (f : Nat) : textBetween kids f 0 = [] := by
  cases kids with
  | nil => unfold textBetween; rfl
  | cons n ns => unfold textBetween; simp

theorem textBetween_step (n : Node) (ns : List Node) (f t : Nat) (here : List Nat)
    (hcons : textBetween (n :: ns) f t =
      (if f < n.size then here else []) ++ textBetween ns (f - n.size) (t - n.size))
    (ihns : textBetween ns (f - n.size) (t - n.size) =
      tokUnits (((ftoks ns).take (t - n.size)).drop (f - n.size)))
    (hhere : f < n.size → here = tokUnits ((n.toks.take t).drop f)) :
    textBetween (n :: ns) f t = tokUnits (((ftoks (n :: ns)).take t).drop f) := by
  rw [hcons, ftoks_cons, slice_append, tokUnits_append, Node.toks_length, ihns]
  congr 1
  split
  · rename_i h; exact hhere h
  · rw [List.drop_of_length_le]
    · rfl
    · rw [List.length_take, Node.toks_length]; omega

theorem textBetween_toks : ∀ (kids : List Node) (f t : Nat), f ≤ t → t ≤ fsize kids →
    textBetween kids f t = tokUnits (((ftoks kids).take t).drop f)
  | [], f, t, _, _ => by simp [textBetween]
  | .text s m :: ns, f, t, hft, ht => by
    rcases Nat.eq_zero_or_pos t with h0 | h0
    · subst h0; simp [textBetween_zero]
    · refine textBetween_step _ ns f t _ (textBetween_cons _ _ _ _ (by omega))
        (textBetween_toks ns _ _ (by omega) (by simp at ht ⊢; omega)) (fun _ => ?_)
      simp only [Node.toks_text]
      rw [← List.map_take, ← List.map_drop, tokUnits_map_unit]
  | .leaf ty a m :: ns, f, t, hft, ht => by
    rcases Nat.eq_zero_or_pos t with h0 | h0
    · subst h0; simp [textBetween_zero]
    · refine textBetween_step _ ns f t _ (textBetween_cons _ _ _ _ (by omega))
        (textBetween_toks ns _ _ (by omega) (by simp at ht ⊢; omega)) (fun _ => ?_)
      obtain ⟨t', rfl⟩ : ∃ t', t = t' + 1 := ⟨t - 1, by omega⟩
      cases f <;> simp
  | .elem ty a m kids :: ns, f, t, hft, ht => by
    rcases Nat.eq_zero_or_pos t with h0 | h0
    · subst h0; simp [textBetween_zero]
    · refine textBetween_step _ ns f t _ (textBetween_cons _ _ _ _ (by omega))
        (textBetween_toks ns _ _ (by omega) (by simp at ht ⊢; omega)) (fun hf => ?_)
      simp only [Node.size_elem] at hf
      simp only [Node.toks_elem]
      rw [tokUnits_slice_elem _ _ _ _ _ _ (by omega), ftoks_length]
      exact textBetween_toks kids _ _ (by omega) (Nat.min_le_left _ _)

/-! ### nodes_between -/

theorem nodesBetween_cons (n : Node) (ns : List Node) (f t start i : Nat) :
    nodesBetween (n :: ns) f t start i =
      if t = 0 then []
      else (if f < n.size then
          (n, start, i) ::
            (match n with
             | .elem _ _ _ kids =>
               if fsize kids = 0 then []
               else nodesBetween kids (f - 1) (min (fsize kids) (t - 1)) (start + 1) 0
             | _ => [])
        else []) ++ nodesBetween ns (f - n.size) (t - n.size) (start + n.size) (i + 1) := by
  conv => lhs; unfold nodesBetween
  rfl

/-- what `nodes_between` reports about a visited node -/
def Visit (kids : List Node) (f t start : Nat) (n : Node) (p : Nat) : Prop :=
  ∃ q, p = start + q ∧ ((ftoks kids).drop q).take n.size = n.toks ∧ q < t ∧ f < q + n.size

theorem visit_head (n : Node) (ns : List Node) (f t start : Nat) (ht0 : t ≠ 0) (hf : f < n.size) :
    Visit (n :: ns) f t start n start :=
  ⟨0, rfl, by simp [← Node.toks_length], by omega, by omega⟩

theorem visit_tail (n : Node) (ns : List Node) (f t start : Nat) (x : Node) (p : Nat)
    (h : Visit ns (f - n.size) (t - n.size) (start + n.size) x p) : Visit (n :: ns) f t start x p := by
  obtain ⟨q, h1, h2, h3, h4⟩ := h
  refine ⟨n.size + q, by omega, ?_, by omega, by omega⟩
  rw [ftoks_cons, List.drop_append, List.drop_of_length_le (by rw [Node.toks_length]; omega),
    Node.toks_length]
  simpa using h2

theorem visit_inner (ty : TypeId) (a : Attrs) (m : Marks) (kids ns : List Node) (f t start : Nat)
    (x : Node) (p : Nat)
    (h : Visit kids (f - 1) (min (fsize kids) (t - 1)) (start + 1) x p) :
    Visit (.elem ty a m kids :: ns) f t start x p := by
  obtain ⟨q, h1, h2, h3, h4⟩ := h
  have : q < t - 1 := Nat.lt_of_lt_of_le h3 (Nat.min_le_right _ _)
  refine ⟨q + 1, by omega, ?_, by omega, by omega⟩
  simp only [ftoks_cons, Node.toks_elem, List.cons_append, List.drop_succ_cons, List.append_assoc]
  exact list_window_ext _ _ _ _ _ h2 (Node.toks_length x)

theorem nodesBetween_visit : ∀ (kids : List Node) (f t start i0 : Nat) (x : Node) (p i : Nat),
    t ≤ fsize kids → (x, p, i) ∈ nodesBetween kids f t start i0 → Visit kids f t start x p
  | [], f, t, start, i0, x, p, i, _, hv => by simp [nodesBetween] at hv
  | .text s m :: ns, f, t, start, i0, x, p, i, ht, hv => by
    rw [nodesBetween_cons] at hv
    split at hv
    · simp at hv
    · rename_i ht0
      rcases List.mem_append.mp hv with hv | hv
      · split at hv
        · rename_i hf
          simp only [List.mem_singleton, Prod.mk.injEq] at hv
          obtain ⟨rfl, rfl, _⟩ := hv
          exact visit_head _ _ _ _ _ ht0 hf
        · simp at hv
      · exact visit_tail _ _ _ _ _ _ _
          (nodesBetween_visit ns _ _ _ _ x p i (by simp at ht ⊢; omega) hv)
  | .leaf ty a m :: ns, f, t, start, i0, x, p, i, ht, hv => by
    rw [nodesBetween_cons] at hv
    split at hv
    · simp at hv
    · rename_i ht0
      rcases List.mem_append.mp hv with hv | hv
      · split at hv
        · rename_i hf
          simp only [List.mem_singleton, Prod.mk.injEq] at hv
          obtain ⟨rfl, rfl, _⟩ := hv
          exact visit_head _ _ _ _ _ ht0 hf
        · simp at hv
      · exact visit_tail _ _ _ _ _ _ _
          (nodesBetween_visit ns _ _ _ _ x p i (by simp at ht ⊢; omega) hv)
  | .elem ty a m kids :: ns, f, t, start, i0, x, p, i, ht, hv => by
    rw [nodesBetween_cons] at hv
    split at hv
    · simp at hv
    · rename_i ht0
      rcases List.mem_append.mp hv with hv | hv
      · split at hv
        · rename_i hf
          rcases List.mem_cons.mp hv with hv | hv
          · simp only [Prod.mk.injEq] at hv
            obtain ⟨rfl, rfl, _⟩ := hv
            exact visit_head _ _ _ _ _ ht0 hf
          · simp only at hv
            split at hv
            · simp at hv
            · exact visit_inner _ _ _ _ _ _ _ _ _ _
                (nodesBetween_visit kids _ _ _ _ x p i (Nat.min_le_left _ _) hv)
        · simp at hv
      · exact visit_tail _ _ _ _ _ _ _
          (nodesBetween_visit ns _ _ _ _ x p i (by simp at ht ⊢; omega) hv)

end PM
