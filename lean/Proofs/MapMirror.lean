/-
  Proofs/MapMirror.lean — what `append_mapping`, `append_mapping_inverted` and `Mapping.invert` do
  to the `mirror` table (helper lemmas for Props/C08.lean).
-/
import PM.Map
import Proofs.Map
namespace PM

/-! ### the flat table as a list of pairs -/

/-- the flat mirror list of a list of pairs -/
def flatPairs : List (Nat × Nat) → List Nat
  | [] => []
  | (a, b) :: r => a :: b :: flatPairs r

theorem flatPairs_append (p q : List (Nat × Nat)) : flatPairs (p ++ q) = flatPairs p ++ flatPairs q := by
  induction p with
  | nil => rfl
  | cons x r ih => obtain ⟨a, b⟩ := x; simp [flatPairs, ih]

/-- a table with an even number of entries, none of them `n`, is invisible to `get_mirror(n)` -/
theorem getMirrorAux_skip (n : Nat) : ∀ (A B : List Nat), A.length % 2 = 0 → (∀ x ∈ A, x ≠ n) →
    getMirrorAux n (A ++ B) = getMirrorAux n B
  | [], B, _, _ => rfl
  | [_], _, h, _ => by simp at h
  | a :: b :: r, B, h, hn => by
    have ha : a ≠ n := hn a (by simp)
    have hb : b ≠ n := hn b (by simp)
    simp only [List.cons_append, getMirrorAux, ha, hb, if_false]
    exact getMirrorAux_skip n r B (by simp only [List.length_cons] at h; omega) (fun x hx => hn x (by simp [hx]))

/-- `get_mirror(n)` on a table of pairs in which every pair containing `n` pairs it with `m` -/
theorem getMirrorAux_pairs_some (n m : Nat) : ∀ (P : List (Nat × Nat)),
    (∃ p ∈ P, p.1 = n ∨ p.2 = n) → (∀ p ∈ P, (p.1 = n → p.2 = m) ∧ (p.2 = n → p.1 = m)) →
    getMirrorAux n (flatPairs P) = some m
  | [], h, _ => by simp at h
  | (a, b) :: r, hex, hall => by
    simp only [flatPairs, getMirrorAux]
    have hab := hall (a, b) (by simp)
    by_cases ha : a = n
    · have := hab.1 ha; simp only at this; simp [ha, this]
    · by_cases hb : b = n
      · have := hab.2 hb; simp only at this; subst hb; subst this; simp [ha]
      · simp only [ha, hb, if_false]
        apply getMirrorAux_pairs_some n m r
        · obtain ⟨p, hp, hpn⟩ := hex
          simp only [List.mem_cons] at hp
          rcases hp with rfl | hp
          · simp only at hpn; rcases hpn with h | h <;> contradiction
          · exact ⟨p, hp, hpn⟩
        · exact fun p hp => hall p (by simp [hp])

theorem getMirrorAux_pairs_none (n : Nat) : ∀ (P : List (Nat × Nat)),
    (∀ p ∈ P, p.1 ≠ n ∧ p.2 ≠ n) → getMirrorAux n (flatPairs P) = none
  | [], _ => rfl
  | (a, b) :: r, hall => by
    have hab := hall (a, b) (by simp)
    simp only [flatPairs, getMirrorAux, hab.1, hab.2, if_false]
    exact getMirrorAux_pairs_none n r (fun p hp => hall p (by simp [hp]))

/-! ### `append_mapping` -/

/-- the pair `append_mapping` registers for map `i` of `other` (receiver length `start`) -/
def carriedPair (other : Mapping) (start i : Nat) : Option (Nat × Nat) :=
  match other.getMirror i with
  | some k => if k < i then some (start + i, start + k) else none
  | none => none

/-- the pairs `append_mapping` registers, in order -/
def carriedPairs (other : Mapping) (start n : Nat) : List (Nat × Nat) :=
  (List.range n).filterMap (carriedPair other start)

theorem carriedPairs_succ (other : Mapping) (start n : Nat) :
    carriedPairs other start (n + 1) =
      carriedPairs other start n ++ (carriedPair other start n).toList := by
  simp only [carriedPairs, List.range_succ, List.filterMap_append]
  cases h : carriedPair other start n <;> simp [List.filterMap, h]

theorem appendMap_some_mirror (acc : Mapping) (sm : StepMap) (k : Nat) :
    (acc.appendMap sm (some k)).mirror = acc.mirror ++ [acc.maps.length, k] := by
  simp [Mapping.appendMap, Mapping.setMirror]

theorem appendMap_from (acc : Mapping) (sm : StepMap) (mirr : Option Nat) :
    (acc.appendMap sm mirr).from_ = acc.from_ := by
  cases mirr <;> simp [Mapping.appendMap, Mapping.setMirror]

theorem appendMap_to (acc : Mapping) (sm : StepMap) (mirr : Option Nat) :
    (acc.appendMap sm mirr).to = acc.maps.length + 1 := by
  cases mirr <;> simp [Mapping.appendMap, Mapping.setMirror]

theorem appendMapping_fold (mp other : Mapping) : ∀ n, n ≤ other.maps.length →
    let r := (List.range n).foldl (fun acc i =>
      match other.maps[i]? with
      | none => acc
      | some sm =>
        let mirr := other.getMirror i
        acc.appendMap sm (match mirr with
          | some k => if k < i then some (mp.maps.length + k) else none
          | none => none)) mp
    r.maps = mp.maps ++ other.maps.take n ∧
    r.mirror = mp.mirror ++ flatPairs (carriedPairs other mp.maps.length n) ∧
    r.from_ = mp.from_ ∧ r.to = (if n = 0 then mp.to else mp.maps.length + n) := by
  intro n
  induction n with
  | zero => intro _; simp [carriedPairs, flatPairs]
  | succ n ih =>
    intro hn
    obtain ⟨i1, i2, i3, i4⟩ := ih (by omega)
    have hlt : n < other.maps.length := by omega
    simp only [List.range_succ, List.foldl_append, List.foldl_cons, List.foldl_nil,
      List.getElem?_eq_getElem hlt]
    refine ⟨?_, ?_, ?_, ?_⟩
    · rw [appendMap_maps, i1, List.append_assoc, List.take_add_one]
      simp [List.getElem?_eq_getElem hlt]
    · rw [carriedPairs_succ, flatPairs_append, ← List.append_assoc, ← i2]
      unfold carriedPair
      cases hg : other.getMirror n with
      | none => simp [Mapping.appendMap, flatPairs]
      | some k =>
        by_cases hk : k < n
        · simp only [hk, if_true, appendMap_some_mirror, Option.toList, flatPairs, i1]
          simp [Nat.min_eq_left (Nat.le_of_lt hlt)]
        · simp [hk, Mapping.appendMap, flatPairs]
    · rw [appendMap_from, i3]
    · rw [appendMap_to, i1]
      simp [Nat.min_eq_left (Nat.le_of_lt hlt)]
      omega

theorem appendMapping_mirror (mp other : Mapping) :
    (mp.appendMapping other).mirror =
      mp.mirror ++ flatPairs (carriedPairs other mp.maps.length other.maps.length) ∧
    (mp.appendMapping other).from_ = mp.from_ ∧
    (mp.appendMapping other).to =
      (if other.maps.length = 0 then mp.to else mp.maps.length + other.maps.length) := by
  have := appendMapping_fold mp other other.maps.length (Nat.le_refl _)
  exact ⟨this.2.1, this.2.2.1, this.2.2.2⟩

/-! ### `append_mapping_inverted` -/

/-- the pair `append_mapping_inverted` registers for map `i` of `other`: the inverted map lands at
    `start + (len − 1 − i)` and is paired with `total − k − 1` -/
def invertedPair (other : Mapping) (start total i : Nat) : Option (Nat × Nat) :=
  match other.getMirror i with
  | some k => if k > i then some (start + (other.maps.length - 1 - i), total - k - 1) else none
  | none => none

/-- the pairs `append_mapping_inverted` registers, in order (last map of `other` first) -/
def invertedPairs (other : Mapping) (start total n : Nat) : List (Nat × Nat) :=
  (List.range n).reverse.filterMap (invertedPair other start total)

theorem invertedPairs_succ (other : Mapping) (start total n : Nat) :
    invertedPairs other start total (n + 1) =
      (invertedPair other start total n).toList ++ invertedPairs other start total n := by
  simp only [invertedPairs, List.range_succ, List.reverse_append, List.reverse_singleton,
    List.singleton_append, List.filterMap_cons]
  cases invertedPair other start total n <;> simp

theorem appendMappingInverted_fold (other : Mapping) (total : Nat) : ∀ n, n ≤ other.maps.length →
    ∀ (acc : Mapping) (start : Nat), acc.maps.length + n = start + other.maps.length →
    let r := (List.range n).reverse.foldl (fun acc i =>
      match other.maps[i]? with
      | none => acc
      | some sm =>
        let mirr := other.getMirror i
        acc.appendMap sm.invert (match mirr with
          | some k => if k > i then some (total - k - 1) else none
          | none => none)) acc
    r.maps = acc.maps ++ (other.maps.take n).reverse.map StepMap.invert ∧
    r.mirror = acc.mirror ++
      flatPairs (invertedPairs other start total n) ∧
    r.from_ = acc.from_ ∧ r.to = (if n = 0 then acc.to else acc.maps.length + n) := by
  intro n
  induction n with
  | zero => intro _ acc start _; simp [invertedPairs, flatPairs]
  | succ n ih =>
    intro hn acc start hst
    have hlt : n < other.maps.length := by omega
    simp only [List.range_succ, List.reverse_append, List.reverse_singleton, List.singleton_append,
      List.foldl_cons, List.getElem?_eq_getElem hlt]
    have e : other.maps.take (n + 1) = other.maps.take n ++ [other.maps[n]] := by
      rw [List.take_add_one]; simp [List.getElem?_eq_getElem hlt]
    generalize hacc' : acc.appendMap other.maps[n].invert
      (match other.getMirror n with
        | some k => if k > n then some (total - k - 1) else none
        | none => none) = acc'
    have hm : acc'.maps = acc.maps ++ [other.maps[n].invert] := by rw [← hacc', appendMap_maps]
    have hlen : acc'.maps.length = acc.maps.length + 1 := by simp [hm]
    obtain ⟨i1, i2, i3, i4⟩ := ih (by omega) acc' start (by omega)
    refine ⟨?_, ?_, ?_, ?_⟩
    · rw [i1, hm, e]
      simp only [List.reverse_append, List.reverse_singleton, List.map_cons,
        List.append_assoc, List.singleton_append]
    · rw [i2, invertedPairs_succ, flatPairs_append, ← List.append_assoc]
      congr 1
      rw [← hacc']
      unfold invertedPair
      cases hg : other.getMirror n with
      | none => simp [Mapping.appendMap, flatPairs]
      | some k =>
        by_cases hk : k > n
        · simp only [hk, if_true, appendMap_some_mirror, Option.toList, flatPairs]
          have : start + (other.maps.length - 1 - n) = acc.maps.length := by omega
          rw [this]
        · simp [hk, Mapping.appendMap, flatPairs]
    · rw [i3, ← hacc', appendMap_from]
    · rw [i4, hlen]
      by_cases h0 : n = 0
      · subst h0; rw [← hacc', appendMap_to]; simp
      · simp [h0]; omega

theorem appendMappingInverted_mirror (mp other : Mapping) :
    (mp.appendMappingInverted other).mirror =
      mp.mirror ++ flatPairs (invertedPairs other mp.maps.length
        (mp.maps.length + other.maps.length) other.maps.length) ∧
    (mp.appendMappingInverted other).from_ = mp.from_ ∧
    (mp.appendMappingInverted other).to =
      (if other.maps.length = 0 then mp.to else mp.maps.length + other.maps.length) := by
  have := appendMappingInverted_fold other (mp.maps.length + other.maps.length)
    other.maps.length (Nat.le_refl _) mp mp.maps.length rfl
  exact ⟨this.2.1, this.2.2.1, this.2.2.2⟩

/-! ### the tables read through `get_mirror` -/

theorem getMirrorAux_append (n : Nat) : ∀ (A B : List Nat), A.length % 2 = 0 →
    getMirrorAux n (A ++ B) =
      match getMirrorAux n A with
      | some m => some m
      | none => getMirrorAux n B
  | [], B, _ => rfl
  | [_], _, h => by simp at h
  | a :: b :: r, B, h => by
    simp only [List.cons_append, getMirrorAux]
    by_cases ha : a = n
    · simp [ha]
    · by_cases hb : b = n
      · simp [ha, hb]
      · simp only [ha, hb, if_false]
        exact getMirrorAux_append n r B (by simp only [List.length_cons] at h; omega)

theorem mem_carriedPairs (other : Mapping) (start n : Nat) (p : Nat × Nat) :
    p ∈ carriedPairs other start n ↔
      ∃ i k, i < n ∧ other.getMirror i = some k ∧ k < i ∧ p = (start + i, start + k) := by
  simp only [carriedPairs, List.mem_filterMap, List.mem_range, carriedPair]
  constructor
  · rintro ⟨i, hi, h⟩
    cases hg : other.getMirror i with
    | none => simp [hg] at h
    | some k =>
      by_cases hk : k < i
      · simp only [hg, hk, if_true, Option.some.injEq] at h
        exact ⟨i, k, hi, hg, hk, h.symm⟩
      · simp [hg, hk] at h
  · rintro ⟨i, k, hi, hg, hk, rfl⟩
    exact ⟨i, hi, by simp [hg, hk]⟩

theorem mem_invertedPairs (other : Mapping) (start total n : Nat) (p : Nat × Nat) :
    p ∈ invertedPairs other start total n ↔
      ∃ i k, i < n ∧ other.getMirror i = some k ∧ i < k ∧
        p = (start + (other.maps.length - 1 - i), total - k - 1) := by
  simp only [invertedPairs, List.mem_filterMap, List.mem_reverse, List.mem_range, invertedPair]
  constructor
  · rintro ⟨i, hi, h⟩
    cases hg : other.getMirror i with
    | none => simp [hg] at h
    | some k =>
      by_cases hk : k > i
      · simp only [hg, hk, if_true, Option.some.injEq] at h
        exact ⟨i, k, hi, hg, hk, h.symm⟩
      · simp [hg, hk] at h
  · rintro ⟨i, k, hi, hg, hk, rfl⟩
    exact ⟨i, hi, by simp [hg, hk]⟩

/-- a mirror table in which partners are mutual and distinct -/
def MirrorSym (m : Mapping) : Prop :=
  ∀ i k, m.getMirror i = some k → m.getMirror k = some i ∧ k ≠ i

/-- … and stay inside the maps -/
def MirrorInRange (m : Mapping) : Prop :=
  ∀ i k, i < m.maps.length → m.getMirror i = some k → k < m.maps.length

theorem appendMapping_getMirror_old (mp other : Mapping) (hev : mp.mirror.length % 2 = 0)
    (i : Nat) (hi : i < mp.maps.length) :
    (mp.appendMapping other).getMirror i = mp.getMirror i := by
  unfold Mapping.getMirror
  rw [(appendMapping_mirror mp other).1, getMirrorAux_append _ _ _ hev]
  cases getMirrorAux i mp.mirror with
  | some m => rfl
  | none =>
    apply getMirrorAux_pairs_none
    intro p hp
    obtain ⟨i', k, _, _, _, rfl⟩ := (mem_carriedPairs _ _ _ _).mp hp
    exact ⟨by simp only; omega, by simp only; omega⟩

theorem appendMapping_getMirror_new (mp other : Mapping) (hev : mp.mirror.length % 2 = 0)
    (hin : ∀ x ∈ mp.mirror, x < mp.maps.length) (hsym : MirrorSym other) (hrng : MirrorInRange other)
    (j : Nat) (hj : j < other.maps.length) :
    (mp.appendMapping other).getMirror (mp.maps.length + j) =
      (other.getMirror j).map (mp.maps.length + ·) := by
  unfold Mapping.getMirror
  rw [(appendMapping_mirror mp other).1,
    getMirrorAux_skip _ _ _ hev (fun x hx => by have := hin x hx; omega)]
  cases hg : getMirrorAux j other.mirror with
  | some k0 =>
    have hg' : other.getMirror j = some k0 := hg
    obtain ⟨hs1, hs2⟩ := hsym j k0 hg'
    have hk0 := hrng j k0 hj hg'
    apply getMirrorAux_pairs_some
    · rcases Nat.lt_or_ge k0 j with hlt | hge
      · exact ⟨_, (mem_carriedPairs _ _ _ _).mpr ⟨j, k0, hj, hg', hlt, rfl⟩, Or.inl rfl⟩
      · exact ⟨_, (mem_carriedPairs _ _ _ _).mpr ⟨k0, j, hk0, hs1, by omega, rfl⟩, Or.inr rfl⟩
    · intro p hp
      obtain ⟨i, k, _, hgi, hki, rfl⟩ := (mem_carriedPairs _ _ _ _).mp hp
      constructor
      · intro h
        have : i = j := by simp only at h; omega
        subst this
        rw [hg'] at hgi
        simp only [Option.some.injEq] at hgi
        simp [hgi]
      · intro h
        have : k = j := by simp only at h; omega
        subst this
        have := (hsym i k hgi).1
        rw [hg'] at this
        simp only [Option.some.injEq] at this
        simp [this]
  | none =>
    have hg' : other.getMirror j = none := hg
    apply getMirrorAux_pairs_none
    intro p hp
    obtain ⟨i, k, _, hgi, hki, rfl⟩ := (mem_carriedPairs _ _ _ _).mp hp
    constructor
    · intro h
      have : i = j := by simp only at h; omega
      subst this
      rw [hg'] at hgi; simp at hgi
    · intro h
      have : k = j := by simp only at h; omega
      subst this
      have := (hsym i k hgi).1
      rw [hg'] at this; simp at this

theorem appendMappingInverted_getMirror_old (mp other : Mapping) (hev : mp.mirror.length % 2 = 0)
    (hrng : MirrorInRange other) (i : Nat) (hi : i < mp.maps.length) :
    (mp.appendMappingInverted other).getMirror i = mp.getMirror i := by
  unfold Mapping.getMirror
  rw [(appendMappingInverted_mirror mp other).1, getMirrorAux_append _ _ _ hev]
  cases getMirrorAux i mp.mirror with
  | some m => rfl
  | none =>
    apply getMirrorAux_pairs_none
    intro p hp
    obtain ⟨i', k, hi', hg, _, rfl⟩ := (mem_invertedPairs _ _ _ _ _).mp hp
    have := hrng i' k hi' hg
    exact ⟨by simp only; omega, by simp only; omega⟩

theorem appendMappingInverted_getMirror_new (mp other : Mapping) (hev : mp.mirror.length % 2 = 0)
    (hin : ∀ x ∈ mp.mirror, x < mp.maps.length) (hsym : MirrorSym other) (hrng : MirrorInRange other)
    (j : Nat) (hj : j < other.maps.length) :
    (mp.appendMappingInverted other).getMirror (mp.maps.length + (other.maps.length - 1 - j)) =
      (other.getMirror j).map (fun k => mp.maps.length + (other.maps.length - 1 - k)) := by
  unfold Mapping.getMirror
  rw [(appendMappingInverted_mirror mp other).1,
    getMirrorAux_skip _ _ _ hev (fun x hx => by have := hin x hx; omega)]
  have htot : ∀ k, k < other.maps.length →
      mp.maps.length + other.maps.length - k - 1 = mp.maps.length + (other.maps.length - 1 - k) := by
    intro k hk; omega
  cases hg : getMirrorAux j other.mirror with
  | some k0 =>
    have hg' : other.getMirror j = some k0 := hg
    obtain ⟨hs1, hs2⟩ := hsym j k0 hg'
    have hk0 := hrng j k0 hj hg'
    apply getMirrorAux_pairs_some
    · rcases Nat.lt_or_ge j k0 with hlt | hge
      · exact ⟨_, (mem_invertedPairs _ _ _ _ _).mpr ⟨j, k0, hj, hg', hlt, rfl⟩, Or.inl rfl⟩
      · refine ⟨_, (mem_invertedPairs _ _ _ _ _).mpr ⟨k0, j, hk0, hs1, by omega, rfl⟩, Or.inr ?_⟩
        exact htot j hj
    · intro p hp
      obtain ⟨i, k, hi, hgi, hki, rfl⟩ := (mem_invertedPairs _ _ _ _ _).mp hp
      have hk := hrng i k hi hgi
      constructor
      · intro h
        have : i = j := by simp only at h; omega
        subst this
        rw [hg'] at hgi
        simp only [Option.some.injEq] at hgi
        subst hgi
        exact htot _ hk
      · intro h
        have : k = j := by simp only at h; omega
        subst this
        have := (hsym i k hgi).1
        rw [hg'] at this
        simp only [Option.some.injEq] at this
        simp [this]
  | none =>
    have hg' : other.getMirror j = none := hg
    apply getMirrorAux_pairs_none
    intro p hp
    obtain ⟨i, k, hi, hgi, hki, rfl⟩ := (mem_invertedPairs _ _ _ _ _).mp hp
    have hk := hrng i k hi hgi
    constructor
    · intro h
      have : i = j := by simp only at h; omega
      subst this
      rw [hg'] at hgi; simp at hgi
    · intro h
      have : k = j := by simp only at h; omega
      subst this
      have := (hsym i k hgi).1
      rw [hg'] at this; simp at this

end PM
