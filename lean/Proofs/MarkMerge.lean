/-
  Proofs/MarkMerge.lean — success of a merged mark step (C16): if two add-mark (or two remove-mark)
  steps with the same mark and touching / overlapping ranges apply one after the other to a valid,
  normal-form document, the merged step applies to the original document.

  Ingredients: `addMark_applies` / `removeMark_applies` (Proofs/MarkSuccess.lean) reduce the claim to
  range and pair-alignment of the merged step's ends in the *original* document.  An end taken from the
  first step is aligned there because that step's slice was cut; an end taken from the second step is
  aligned in the intermediate document, and alignment outside the first step's range is the same in
  both documents because pair-alignment of a normal-form child list can be read off two neighbouring
  tokens (`alignedAt_toks`) and the first step leaves the tokens outside its range alone.
-/
import PM.Step
import Proofs.Reinsert
import Proofs.StepToks
import Proofs.StepValid
import Proofs.TokValid
import Proofs.MarkSuccess
import Proofs.Merge
namespace PM

/-! ### a slice that could be cut has pair-aligned ends -/

theorem sliceScan_aligned : ∀ (rest level : List Node) (f0 t0 f t : Nat) (pre : List Node) (s : Slice),
    level = pre ++ rest → f0 = fsize pre + f → t0 = fsize pre + t → f < t → t ≤ fsize rest →
    sliceScan level f0 t0 rest f t = .ok s → alignedAt level f0 = true ∧ alignedAt level t0 = true
  | [], level, f0, t0, f, t, pre, s, _, _, _, hft, ht, _ => by simp at ht; omega
  | n :: ns, level, f0, t0, f, t, pre, s, hl, hf0, ht0, hft, ht, h => by
    simp only [fsize_cons] at ht
    have htl : t0 ≤ fsize level := by rw [hl, fsize_append]; simp; omega
    have here : sliceHere level f0 t0 = .ok s → alignedAt level f0 = true ∧ alignedAt level t0 = true := by
      intro hh
      obtain ⟨c, hc, _⟩ := sliceHere_inv hh
      exact fcut_aligned (by omega) htl hc
    rw [sliceScan_cons] at h
    split at h
    · exact here h
    · rename_i hfz
      split at h
      · rename_i hle
        exact sliceScan_aligned ns level f0 t0 (f - n.size) (t - n.size) (pre ++ [n]) s (by simp [hl])
          (by rw [fsize_append]; simp; omega) (by rw [fsize_append]; simp; omega) (by omega) (by omega) h
      · rename_i hlt
        cases n with
        | text s' m => exact here h
        | leaf ty a m => exact here h
        | elem ty a m kids =>
          simp only at h
          simp only [Node.size_elem, Nat.not_le] at hlt
          split at h
          · rename_i htsz
            simp only [Node.size_elem] at htsz
            obtain ⟨h1, h2⟩ := sliceScan_aligned kids kids (f - 1) (t - 1) (f - 1) (t - 1) [] s rfl (by simp)
              (by simp) (by omega) (by omega) h
            subst hl
            constructor
            · rw [hf0, alignedAt_append_pre, alignedAt_cons, if_neg hfz, if_neg (by simp; omega)]
              exact h1
            · rw [ht0, alignedAt_append_pre, alignedAt_cons, if_neg (by omega), if_neg (by simp; omega)]
              exact h2
          · exact here h

theorem sliceKids_aligned (kids : List Node) (f t : Nat) (s : Slice) (hft : f < t)
    (h : sliceKids kids f t = .ok s) : alignedAt kids f = true ∧ alignedAt kids t = true := by
  unfold sliceKids at h
  rw [if_neg (by omega)] at h
  split at h
  · simp at h
  · rename_i hg
    simp only [inRange, Bool.or_eq_true, Bool.not_eq_true', decide_eq_false_iff_not,
      decide_eq_true_eq, not_or, Nat.not_lt, Decidable.not_not] at hg
    exact sliceScan_aligned kids kids f t f t [] s rfl (by simp) (by simp) hft hg.1.2 h

/-! ### pair-alignment read off the tokens -/

/-- position `p` does not separate a high-surrogate unit from a low-surrogate unit carrying the same
    marks -/
def tokAligned (l : List Tok) : Nat → Bool
  | 0 => true
  | p + 1 =>
    match l[p]?, l[p + 1]? with
    | some (.unit h m), some (.unit lo m') => !(m == m' && isHigh h && isLow lo)
    | _, _ => true

theorem tokAligned_congr (l l' : List Tok) (p : Nat)
    (h1 : l[p - 1]? = l'[p - 1]?) (h2 : l[p]? = l'[p]?) : tokAligned l p = tokAligned l' p := by
  cases p with
  | zero => rfl
  | succ p =>
    simp only [Nat.add_sub_cancel] at h1
    simp only [tokAligned, h1, h2]

/-- first token of a normal-form child list that follows a text node with marks `m` -/
theorem head_after_text {m : Marks} {s : List Nat} {ns : List Node}
    (hc : chainOk (.text s m :: ns) = true) (hn : fnormKids ns = true) :
    ∀ c m', (ftoks ns)[0]? = some (.unit c m') → m ≠ m' := by
  intro c m' h
  cases ns with
  | nil => simp at h
  | cons x xs =>
    simp only [fnormKids_cons, Bool.and_eq_true] at hn
    cases x with
    | text s' mm =>
      have hne : s' ≠ [] := by
        have := hn.1; simp [Node.norm] at this; exact this
      cases s' with
      | nil => exact absurd rfl hne
      | cons c' s'' =>
        simp at h
        simp only [chainOk, adjOk, Bool.and_eq_true, bne_iff_ne, ne_eq] at hc
        rw [← h.2]; exact hc.1
    | leaf t a mm => simp at h
    | elem t a mm k => simp at h

theorem getElem?_units (s : List Nat) (m : Marks) (i : Nat) :
    (s.map (Tok.unit · m))[i]? = (s[i]?).map (Tok.unit · m) := by
  simp

theorem last_tok_not_unit (n : Node) (hnt : n.isText = false) (hsz : 0 < n.size) :
    ∀ c m, n.toks[n.size - 1]? ≠ some (.unit c m) := by
  intro c m
  cases n with
  | text s mm => simp [Node.isText] at hnt
  | leaf t a mm => simp
  | elem t a mm k =>
    simp only [Node.toks_elem, Node.size_elem]
    rw [show 2 + fsize k - 1 = (fsize k) + 1 by omega, List.getElem?_cons_succ,
      List.getElem?_append_right (by rw [ftoks_length]; exact Nat.le_refl _), ftoks_length]
    simp

theorem alignedAt_toks : ∀ (kids : List Node) (p : Nat), fnorm kids = true →
    alignedAt kids p = tokAligned (ftoks kids) p
  | [], p, _ => by
    cases p <;> simp [alignedAt, tokAligned]
  | n :: ns, p, hn => by
    obtain ⟨hnn, hnns⟩ := fnorm_cons hn
    have hpos := Node.size_pos_of_norm n hnn
    have hch : chainOk (n :: ns) = true := by
      simp only [fnorm, Bool.and_eq_true] at hn; exact hn.2
    cases p with
    | zero => simp [tokAligned]
    | succ p =>
      rw [alignedAt_cons, if_neg (by omega), ftoks_cons]
      by_cases hle : n.size ≤ p + 1
      · rw [if_pos hle, alignedAt_toks ns _ hnns]
        by_cases hgt : n.size < p + 1
        · -- both tokens in the tail
          obtain ⟨p', hp'⟩ : ∃ p', p + 1 - n.size = p' + 1 := ⟨p - n.size, by omega⟩
          rw [hp']
          simp only [tokAligned]
          rw [List.getElem?_append_right (by rw [Node.toks_length]; omega),
            List.getElem?_append_right (by rw [Node.toks_length]; omega), Node.toks_length,
            show p - n.size = p' by omega, show p + 1 - n.size = p' + 1 by omega]
        · -- the seam between `n` and the tail
          have hp : p + 1 = n.size := by omega
          rw [show p + 1 - n.size = 0 by omega]
          simp only [tokAligned]
          rw [List.getElem?_append_left (by rw [Node.toks_length]; omega),
            List.getElem?_append_right (by rw [Node.toks_length]; omega), Node.toks_length,
            show p + 1 - n.size = 0 by omega]
          cases n with
          | text s m =>
            have hh := head_after_text hch (fnormKids_of_fnorm hnns)
            split
            · rename_i h mm lo mm' e1 e2
              have hm : mm = m := by
                rw [Node.toks_text, getElem?_units] at e1
                cases hs : s[p]? with
                | none => simp [hs] at e1
                | some c => simp [hs] at e1; exact e1.2.symm
              have := hh lo mm' e2
              subst hm
              simp [this]
            · rfl
          | leaf t a m =>
            split
            · rename_i h mm lo mm' e1 e2
              have := last_tok_not_unit (.leaf t a m) rfl (by simp) h mm
              rw [show (Node.leaf t a m).size - 1 = p by omega] at this
              exact absurd e1 this
            · rfl
          | elem t a m k =>
            split
            · rename_i h mm lo mm' e1 e2
              have := last_tok_not_unit (.elem t a m k) rfl (by simp; omega) h mm
              rw [show (Node.elem t a m k).size - 1 = p by omega] at this
              exact absurd e1 this
            · rfl
      · rw [if_neg hle]
        have hlt : p + 1 < n.size := by omega
        simp only [tokAligned]
        rw [List.getElem?_append_left (by rw [Node.toks_length]; omega),
          List.getElem?_append_left (by rw [Node.toks_length]; omega)]
        cases n with
        | text s m =>
          simp only [Node.size_text] at hlt
          simp only [Node.toks_text, getElem?_units, splitOk]
          rw [List.getElem?_eq_getElem (by omega), List.getElem?_eq_getElem (by omega)]
          simp
        | leaf t a m => simp at hlt
        | elem t a m k =>
          simp only [Node.size_elem] at hlt
          have hnk : fnorm k = true := by rw [Node.norm_elem] at hnn; exact hnn
          simp only [Nat.add_sub_cancel]
          rw [alignedAt_toks k p hnk, Node.toks_elem]
          cases p with
          | zero => simp [tokAligned]
          | succ p =>
            simp only [tokAligned, List.getElem?_cons_succ]
            by_cases hin : p + 1 < fsize k
            · rw [List.getElem?_append_left (by rw [ftoks_length]; omega),
                List.getElem?_append_left (by rw [ftoks_length]; omega)]
            · have hp : p + 1 = fsize k := by omega
              rw [List.getElem?_append_right (l₁ := ftoks k) (i := p + 1) (by rw [ftoks_length]; omega),
                ftoks_length, show p + 1 - fsize k = 0 by omega]
              have hnone : (ftoks k)[p + 1]? = none := by
                apply List.getElem?_eq_none; rw [ftoks_length]; omega
              rw [hnone]
              simp only [List.getElem?_cons_zero]
              split <;> simp_all

/-- pair-alignment at `p` is the same in two normal-form child lists whose tokens at `p - 1` and `p` agree -/
theorem alignedAt_transfer (K K1 : List Node) (p : Nat) (hn : fnorm K = true) (hn1 : fnorm K1 = true)
    (h1 : (ftoks K1)[p - 1]? = (ftoks K)[p - 1]?) (h2 : (ftoks K1)[p]? = (ftoks K)[p]?)
    (ha : alignedAt K1 p = true) : alignedAt K p = true := by
  rw [alignedAt_toks K p hn, ← tokAligned_congr _ _ p h1 h2, ← alignedAt_toks K1 p hn1]
  exact ha

/-! ### what a mark step leaves alone -/

private theorem mapIdxCtx_outside (g : Nat → TypeId → Tok → Tok) (top : TypeId) (l : List Tok) (f t : Nat)
    (hout : ∀ i p tok, ¬ (f ≤ i ∧ i < t) → g i p tok = tok) (i : Nat) (hi : ¬ (f ≤ i ∧ i < t)) :
    (mapIdxCtx g top l)[i]? = l[i]? := by
  rw [mapIdxCtx_getElem?]
  by_cases h : i < l.length
  · rw [if_pos h, hout i _ _ hi, List.getD_eq_getElem?_getD, List.getElem?_eq_getElem h]
    simp
  · rw [if_neg h]
    exact (List.getElem?_eq_none (by omega)).symm

theorem fromReplace_parts (S : Schema) (doc doc' : Node) (f t : Nat) (sl : Slice)
    (h : S.fromReplace doc f t sl = .ok doc') :
    ∃ ty a m K K', doc = .elem ty a m K ∧ doc' = .elem ty a m K' ∧
      replaceKids S ty K f t sl = .ok K' := by
  unfold Schema.fromReplace Schema.replace at h
  cases doc with
  | text s m => simp at h
  | leaf t a m => simp at h
  | elem ty a m K =>
    simp only at h
    cases hr : replaceKids S ty K f t sl with
    | error e => simp [hr, Except.map] at h
    | ok K' =>
      simp [hr, Except.map] at h
      exact ⟨ty, a, m, K, K', rfl, h.symm, hr⟩

/-- the facts about one applied mark step the merge argument uses -/
structure MarkStepFacts (K K1 : List Node) (f t : Nat) : Prop where
  range : f ≤ t ∧ t ≤ fsize K
  size : fsize K1 = fsize K
  norm : fnorm K = true → fnorm K1 = true
  outside : ∀ i, ¬ (f ≤ i ∧ i < t) → (ftoks K1)[i]? = (ftoks K)[i]?
  aligned : f < t → alignedAt K f = true ∧ alignedAt K t = true

theorem addMark_facts (S : Schema) (d d1 : Node) (f t : Nat) (m : Mark)
    (h : S.apply (.addMark f t m) d = .ok d1) : MarkStepFacts d.kids d1.kids f t := by
  obtain ⟨htk, _⟩ := apply_addMark_toks S d d1 f t m h
  have h' := h
  unfold Schema.apply at h'
  simp only at h'
  split at h'
  · simp at h'
  · rename_i old hold
    split at h'
    · simp at h'
    · rename_i p hp
      obtain ⟨_, hft, htl, _, _⟩ := fromReplace_toks S d d1 f t _ h'
      refine ⟨⟨hft, htl⟩, ?_, ?_, ?_, ?_⟩
      · rw [← ftoks_length, ← ftoks_length, htk]
        simp [addMarkToks, mapIdxCtx]
      · intro hn
        obtain ⟨ty, a, mk, K, K', rfl, rfl, hr⟩ := fromReplace_parts S d d1 f t _ h'
        simp only [Node.kids] at hn ⊢
        have hon := (sliceKids_norm K f t old hn hold).1
        refine replaceKids_norm S ty K f t _ K' hn ?_ hr
        simp only [addMarkKids_eq_map]
        exact fromArray_norm _ ((addMark_markMap S m).norm_list _ p (fnormKids_of_fnorm hon))
      · intro i hi
        rw [htk]
        exact mapIdxCtx_outside _ _ _ f t
          (fun i p tok hn => by rw [if_neg (fun hc => hn ⟨hc.1, hc.2.1⟩)]) i hi
      · intro hlt
        exact sliceKids_aligned d.kids f t old hlt hold

theorem removeMark_facts (S : Schema) (d d1 : Node) (f t : Nat) (m : Mark)
    (h : S.apply (.removeMark f t m) d = .ok d1) : MarkStepFacts d.kids d1.kids f t := by
  obtain ⟨htk, _⟩ := apply_removeMark_toks S d d1 f t m h
  have h' := h
  unfold Schema.apply at h'
  simp only at h'
  split at h'
  · simp at h'
  · rename_i old hold
    obtain ⟨_, hft, htl, _, _⟩ := fromReplace_toks S d d1 f t _ h'
    refine ⟨⟨hft, htl⟩, ?_, ?_, ?_, ?_⟩
    · rw [← ftoks_length, ← ftoks_length, htk]
      simp [removeMarkToks, mapIdxCtx]
    · intro hn
      obtain ⟨ty, a, mk, K, K', rfl, rfl, hr⟩ := fromReplace_parts S d d1 f t _ h'
      simp only [Node.kids] at hn ⊢
      have hon := (sliceKids_norm K f t old hn hold).1
      refine replaceKids_norm S ty K f t _ K' hn ?_ hr
      simp only [removeMarkKids_eq_map]
      exact fromArray_norm _ ((removeMark_markMap S m).norm_list _ 0 (fnormKids_of_fnorm hon))
    · intro i hi
      rw [htk]
      exact mapIdxCtx_outside _ _ _ f t
        (fun i p tok hn => by rw [if_neg (fun hc => hn ⟨hc.1, hc.2.1⟩)]) i hi
    · intro hlt
      exact sliceKids_aligned d.kids f t old hlt hold

/-- **the ends of the merged range are in range and pair-aligned in the original document**
    (second step not degenerate) -/
theorem merged_ends (K K1 K2 : List Node) (f t f' t' : Nat) (hn : fnorm K = true)
    (F1 : MarkStepFacts K K1 f t) (F2 : MarkStepFacts K1 K2 f' t') (hc2 : f ≤ t') (hc3 : f' ≤ t)
    (hnd : f' < t') :
    min f f' ≤ max t t' ∧ max t t' ≤ fsize K ∧
      alignedAt K (min f f') = true ∧ alignedAt K (max t t') = true := by
  have hn1 := F1.norm hn
  obtain ⟨ha1, ha2⟩ := F2.aligned hnd
  have hr1 := F1.range
  have hr2 := F2.range
  have hs := F1.size
  refine ⟨by omega, by omega, ?_, ?_⟩
  · by_cases hlt : f' < f
    · rw [show min f f' = f' by omega]
      exact alignedAt_transfer K K1 f' hn hn1 (F1.outside _ (by omega)) (F1.outside _ (by omega)) ha1
    · by_cases he : f < t
      · rw [show min f f' = f by omega]
        exact (F1.aligned he).1
      · -- first step degenerate: nothing changed
        have : f' = f := by omega
        rw [show min f f' = f' by omega]
        exact alignedAt_transfer K K1 f' hn hn1 (F1.outside _ (by omega)) (F1.outside _ (by omega)) ha1
  · by_cases hlt : t < t'
    · rw [show max t t' = t' by omega]
      exact alignedAt_transfer K K1 t' hn hn1 (F1.outside _ (by omega)) (F1.outside _ (by omega)) ha2
    · by_cases he : f < t
      · rw [show max t t' = t by omega]
        exact (F1.aligned he).2
      · have : t' = t := by omega
        rw [show max t t' = t' by omega]
        exact alignedAt_transfer K K1 t' hn hn1 (F1.outside _ (by omega)) (F1.outside _ (by omega)) ha2

/-- **two add-mark steps that merge: the merged step applies** -/
theorem merge_succeeds_addMark (S : Schema) (hts : TextLoop S) (d d1 d2 : Node) (f t f' t' : Nat)
    (mk : Mark) (hv : S.checkNode d = true) (hn : fnorm d.kids = true)
    (h1 : S.apply (.addMark f t mk) d = .ok d1) (h2 : S.apply (.addMark f' t' mk) d1 = .ok d2)
    (hc2 : f ≤ t') (hc3 : f' ≤ t) :
    ∃ d', S.apply (.addMark (min f f') (max t t') mk) d = .ok d' := by
  have F1 := addMark_facts S d d1 f t mk h1
  have F2 := addMark_facts S d1 d2 f' t' mk h2
  by_cases hnd : f' < t'
  · obtain ⟨ty, a, m, K, rfl⟩ := apply_addMark_elem S d d1 f t mk h1
    obtain ⟨e1, e2, e3, e4⟩ := merged_ends K d1.kids d2.kids f t f' t' hn F1 F2 hc2 hc3 hnd
    exact addMark_applies S hts ty a m K _ _ mk hv hn e1 e2 e3 e4
  · have := F1.range; have := F2.range
    rw [show min f f' = f by omega, show max t t' = t by omega]
    exact ⟨d1, h1⟩

/-- **two remove-mark steps that merge: the merged step applies** -/
theorem merge_succeeds_removeMark (S : Schema) (hts : TextLoop S) (d d1 d2 : Node) (f t f' t' : Nat)
    (mk : Mark) (hv : S.checkNode d = true) (hn : fnorm d.kids = true)
    (h1 : S.apply (.removeMark f t mk) d = .ok d1) (h2 : S.apply (.removeMark f' t' mk) d1 = .ok d2)
    (hc2 : f ≤ t') (hc3 : f' ≤ t) :
    ∃ d', S.apply (.removeMark (min f f') (max t t') mk) d = .ok d' := by
  have F1 := removeMark_facts S d d1 f t mk h1
  have F2 := removeMark_facts S d1 d2 f' t' mk h2
  by_cases hnd : f' < t'
  · obtain ⟨ty, a, m, K, rfl⟩ := apply_removeMark_elem S d d1 f t mk h1
    obtain ⟨e1, e2, e3, e4⟩ := merged_ends K d1.kids d2.kids f t f' t' hn F1 F2 hc2 hc3 hnd
    exact removeMark_applies S hts ty a m K _ _ mk hv hn e1 e2 e3 e4
  · have := F1.range; have := F2.range
    rw [show min f f' = f by omega, show max t t' = t by omega]
    exact ⟨d1, h1⟩

end PM
