/- Proofs/Undo.lean — helper lemmas for Props/C04.lean -/
import PM.Step
import PM.Transform
import Proofs.StepToks
import Proofs.Marks
namespace PM
end PM
