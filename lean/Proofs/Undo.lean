/- Proofs/Undo.lean — helper lemmas for Props/C04.lean -/
import PM.Step
import PM.Transform
import Proofs.StepToks
import Proofs.Marks
import Proofs.FlatInsertCore
namespace PM

/-! ### step maps of one and two ranges, read forwards and backwards -/

theorem mapAux_single_inv (f o n : Int) (p a : Int) :
    mapAux false p a [(f, o, n)] 0 0 = mapAux true p a [(f, n, o)] 0 0 := by
  simp [mapAux, Range.oldSize, Range.newSize]

theorem mapAux_pair_inv (s1 o1 n1 s2 s2' o2 n2 : Int) (p a : Int) (hs : s2' - (n1 - o1) = s2) :
    mapAux false p a [(s1, o1, n1), (s2, o2, n2)] 0 0 =
      mapAux true p a [(s1, n1, o1), (s2', n2, o2)] 0 0 := by
  subst hs
  simp [mapAux, Range.oldSize, Range.newSize]

/-! ### sizes -/

theorem removeBetween_size (sl out : Slice) (f t : Nat) (hft : f ≤ t)
    (h : sl.removeBetween f t = .ok out) :
    out.size = sl.size - ((t : Int) - f) ∧ out.openStart = sl.openStart ∧ out.openEnd = sl.openEnd ∧
      t + sl.openStart ≤ fsize sl.content := by
  unfold Slice.removeBetween at h
  simp only at h
  split at h
  · simp at h
  · split at h
    · rename_i c hc
      simp at h; subst h
      obtain ⟨htk, hle⟩ := removeRange_toks sl.content sl.content _ _ 0 _ _ [] c rfl rfl (by simp) (by simp)
        (by omega) hc
      have := congrArg List.length htk
      simp only [List.length_append, List.length_take, List.length_drop, ftoks_length] at this
      refine ⟨?_, rfl, rfl, hle⟩
      simp only [Slice.size]
      omega
    · simp at h

/-! ### replace steps, structurally -/

theorem fromReplace_elem (S : Schema) (doc doc' : Node) (f t : Nat) (sl : Slice)
    (h : S.fromReplace doc f t sl = .ok doc') :
    ∃ ty a m K K', doc = .elem ty a m K ∧ doc' = .elem ty a m K' ∧
      replaceKids S ty K f t sl = .ok K' := by
  unfold Schema.fromReplace Schema.replace at h
  cases doc with
  | text s m => simp at h
  | leaf t a m => simp at h
  | elem ty a m K =>
    simp only at h
    cases hr : replaceKids S ty K f t sl with
    | error e => simp [hr, Except.map] at h
    | ok K' =>
      simp [hr, Except.map] at h
      exact ⟨ty, a, m, K, K', rfl, h.symm, hr⟩

theorem apply_replace_fromReplace (S : Schema) (doc doc' : Node) (f t : Nat) (sl : Slice) (st : Bool)
    (h : S.apply (.replace f t sl st) doc = .ok doc') : S.fromReplace doc f t sl = .ok doc' := by
  unfold Schema.apply at h
  simp only at h
  split at h
  · split at h
    · simp at h
    · simp at h
    · exact h
  · exact h

theorem Slice.toks_length_of_wf {sl : Slice} (hwf : sl.wf = true) :
    sl.toks.length = sl.size.toNat ∧ 0 ≤ sl.size := by
  have hw := wf_opens_le hwf
  simp only [Slice.toks, Slice.size, List.length_take, List.length_drop, ftoks_length]
  omega

/-- splicing `X` over `[f, t)` and then splicing the old window back over `X` restores the list -/
theorem splice_undo {α} (K X : List α) (f t : Nat) (hft : f ≤ t) (ht : t ≤ K.length) :
    (K.take f ++ X ++ K.drop t).take f ++ (K.drop f).take (t - f)
      ++ (K.take f ++ X ++ K.drop t).drop (f + X.length) = K := by
  have h1 : (K.take f ++ X ++ K.drop t).take f = K.take f := by
    rw [List.append_assoc]
    exact List.take_left' (by simp; omega)
  have h2 : (K.take f ++ X ++ K.drop t).drop (f + X.length) = K.drop t := by
    exact List.drop_left' (by simp; omega)
  rw [h1, h2]
  have h3 : (K.drop f).take (t - f) ++ K.drop t = K.drop f := by
    have : K.drop t = (K.drop f).drop (t - f) := by
      rw [List.drop_drop]; congr 1; omega
    rw [this, List.take_append_drop]
  rw [List.append_assoc, h3, List.take_append_drop]

/-! ### normal form is preserved by `insert_into` and `remove_range` -/

theorem set_elem_norm (pre : List Node) (ty : TypeId) (a : Attrs) (m : Marks) (kids inner ns : List Node)
    (hn : fnorm (pre ++ Node.elem ty a m kids :: ns) = true) (hi : fnorm inner = true) :
    fnorm (pre ++ Node.elem ty a m inner :: ns) = true := by
  simp only [fnorm, Bool.and_eq_true] at hn ⊢
  refine ⟨?_, chainOk_set_elem _ _ _ _ _ _ _ hn.2⟩
  have h1 := hn.1
  simp only [fnormKids_append, fnormKids_cons, Bool.and_eq_true] at h1 ⊢
  exact ⟨h1.1, by rw [Node.norm_elem]; exact hi, h1.2.2⟩

theorem elem_kids_norm (pre : List Node) (ty : TypeId) (a : Attrs) (m : Marks) (kids ns : List Node)
    (hn : fnorm (pre ++ Node.elem ty a m kids :: ns) = true) : fnorm kids = true := by
  simp only [fnorm, Bool.and_eq_true] at hn
  have h1 := hn.1
  simp only [fnormKids_append, fnormKids_cons, Bool.and_eq_true] at h1
  rw [← Node.norm_elem ty a m]; exact h1.2.1

theorem flatInsert_norm (S : Schema) (ins : List Node) (parent : Option TypeId) (level : List Node)
    (d idx : Nat) (c : List Node) (hn : fnorm level = true) (hins : fnorm ins = true)
    (h : flatInsert S ins parent level d idx = .ok (some c)) : fnorm c = true := by
  obtain ⟨l, r, hl, hr, rfl⟩ := flatInsert_ok_cuts h
  exact fappend_norm _ _ (fappend_norm _ _ (fcut_norm level l 0 d hn hl) hins)
    (fcut_norm level r d _ hn hr)

theorem insertInto_norm_aux (S : Schema) (ins : List Node) (hins : fnorm ins = true) :
    ∀ (rest : List Node) (parent : Option TypeId) (level : List Node) (d0 idx d oa ob : Nat)
      (pre c : List Node), level = pre ++ rest → idx = pre.length → fnorm level = true →
      insertInto S ins parent level d0 idx rest d oa ob = .ok (some c) → fnorm c = true
  | [], parent, level, d0, idx, d, oa, ob, pre, c, hl, hi, hn, h => by
    unfold insertInto at h
    split at h
    · exact flatInsert_norm S ins parent level d0 idx c hn hins h
    · simp at h
  | n :: ns, parent, level, d0, idx, d, oa, ob, pre, c, hl, hi, hn, h => by
    unfold insertInto at h
    split at h
    · exact flatInsert_norm S ins parent level d0 idx c hn hins h
    · split at h
      · refine insertInto_norm_aux S ins hins ns parent level d0 (idx + 1) (d - n.size) oa ob (pre ++ [n]) c
          ?_ ?_ hn h
        · simp [hl]
        · simp [hi]
      · split at h
        · rename_i ty a m kids _
          simp only at h
          split at h
          · rename_i inner hin
            simp at h; subst h
            subst hl; subst hi
            have ih := insertInto_norm_aux S ins hins kids _ kids (d - 1) 0 (d - 1) _ _ [] inner rfl rfl
              (elem_kids_norm _ _ _ _ _ _ hn) hin
            rw [set_mid]
            exact set_elem_norm _ _ _ _ _ _ _ hn ih
          · simp at h
          · simp at h
        · exact flatInsert_norm S ins parent level d0 idx c hn hins h

theorem insertAt_norm (S : Schema) (sl out : Slice) (pos : Nat) (frag : List Node)
    (hs : fnorm sl.content = true) (hf : fnorm frag = true)
    (h : sl.insertAt S pos frag = .ok (some out)) :
    fnorm out.content = true := by
  rw [insertAt_of_le (insertAt_ok h).1] at h
  unfold Slice.insertAtIn at h
  split at h
  · rename_i c hc
    simp at h; subst h
    exact insertInto_norm_aux S frag hf sl.content none sl.content _ 0 _ _ _ [] c rfl rfl hs hc
  · simp at h
  · simp at h

theorem removeFlat_norm (level : List Node) (f t : Nat) (c : List Node) (hn : fnorm level = true)
    (h : removeRange.removeFlat level f t = .ok c) : fnorm c = true := by
  unfold removeRange.removeFlat at h
  split at h
  · simp at h
  · split at h
    · simp at h
    · split at h
      · rename_i l r hl hr
        simp at h; subst h
        exact fappend_norm _ _ (fcut_norm level l 0 f hn hl) (fcut_norm level r t _ hn hr)
      · simp at h
      · simp at h

theorem removeRange_norm :
    ∀ (rest : List Node) (level : List Node) (f0 t0 idx f t : Nat) (pre c : List Node),
      level = pre ++ rest → idx = pre.length → fnorm level = true →
      removeRange level f0 t0 idx rest f t = .ok c → fnorm c = true
  | [], level, f0, t0, idx, f, t, pre, c, hl, hi, hn, h => by
    unfold removeRange at h
    split at h
    · exact removeFlat_norm level f0 t0 c hn h
    · simp at h
  | n :: ns, level, f0, t0, idx, f, t, pre, c, hl, hi, hn, h => by
    unfold removeRange at h
    split at h
    · exact removeFlat_norm level f0 t0 c hn h
    · split at h
      · refine removeRange_norm ns level f0 t0 (idx + 1) (f - n.size) (t - n.size) (pre ++ [n]) c
          ?_ ?_ hn h
        · simp [hl]
        · simp [hi]
      · split at h
        · rename_i ty a m kids _
          split at h
          · split at h
            · rename_i inner hin
              simp at h; subst h
              subst hl; subst hi
              have ih := removeRange_norm kids kids (f - 1) (t - 1) 0 (f - 1) (t - 1) [] inner rfl rfl
                (elem_kids_norm _ _ _ _ _ _ hn) hin
              rw [set_mid]
              exact set_elem_norm _ _ _ _ _ _ _ hn ih
            · simp at h
          · simp at h
        · exact removeFlat_norm level f0 t0 c hn h

theorem removeBetween_norm (sl out : Slice) (f t : Nat) (hs : fnorm sl.content = true)
    (h : sl.removeBetween f t = .ok out) : fnorm out.content = true := by
  unfold Slice.removeBetween at h
  simp only at h
  split at h
  · simp at h
  · split at h
    · rename_i c hc
      simp at h; subst h
      exact removeRange_norm sl.content sl.content _ _ 0 _ _ [] c rfl rfl hs hc
    · simp at h

/-! ### the parts of a replace-around step -/

theorem apply_replaceAround_parts (S : Schema) (doc doc' : Node) (f t gf gt : Nat) (sl : Slice)
    (ins : Nat) (st : Bool) (h : S.apply (.replaceAround f t gf gt sl ins st) doc = .ok doc') :
    ∃ gap inserted, doc.slice gf gt = .ok gap ∧ gap.openStart = 0 ∧ gap.openEnd = 0 ∧
      sl.insertAt S ins gap.content = .ok (some inserted) ∧
      S.fromReplace doc f t inserted = .ok doc' := by
  unfold Schema.apply at h
  simp only at h
  split at h
  · simp at h
  · split at h
    · simp at h
    · rename_i gap hgap
      split at h
      · simp at h
      · rename_i hopen
        simp only [ne_eq, Bool.or_eq_true, decide_eq_true_eq, not_or, Decidable.not_not] at hopen
        split at h
        · simp at h
        · simp at h
        · rename_i inserted hinst
          exact ⟨gap, inserted, hgap, hopen.1, hopen.2, hinst, h⟩

/-- `insertAt_toks` without the well-formedness premise (the size bound alone suffices) -/
theorem insertAt_toks' (S : Schema) (sl ins : Slice) (pos : Nat) (frag : List Node)
    (hp : (pos : Int) ≤ sl.size)
    (h : sl.insertAt S pos frag = .ok (some ins)) :
    ins.toks = sl.toks.take pos ++ ftoks frag ++ sl.toks.drop pos := by
  rw [insertAt_of_le (insertAt_ok h).1] at h
  unfold Slice.insertAtIn at h
  split at h
  · rename_i c hc
    simp at h; subst h
    obtain ⟨htk, hle⟩ := insertInto_toks S frag none sl.content _ _ _ c hc
    simp only [Slice.size] at hp
    have hsz : fsize c = fsize sl.content + fsize frag := by
      have := congrArg List.length htk
      simp only [List.length_append, List.length_take, List.length_drop, ftoks_length] at this
      omega
    simp only [Slice.toks, htk, hsz]
    have := insert_window (ftoks sl.content) (ftoks frag) sl.openStart pos sl.openEnd
      (by rw [ftoks_length]; omega)
    simpa only [ftoks_length] using this
  · simp at h
  · simp at h

/-! ### list windows -/

theorem split5 {α} (K : List α) (f gf gt t : Nat) (h1 : f ≤ gf) (h2 : gf ≤ gt) (h3 : gt ≤ t)
    (h4 : t ≤ K.length) :
    ∃ A P G Q D, K = A ++ P ++ G ++ Q ++ D ∧ A.length = f ∧ P.length = gf - f ∧
      G.length = gt - gf ∧ Q.length = t - gt :=
  ⟨K.take f, (K.drop f).take (gf - f), (K.drop gf).take (gt - gf), (K.drop gt).take (t - gt), K.drop t,
    by
      have e1 : K.drop gf = (K.drop f).drop (gf - f) := by rw [List.drop_drop]; congr 1; omega
      have e2 : K.drop gt = (K.drop gf).drop (gt - gf) := by rw [List.drop_drop]; congr 1; omega
      have e3 : K.drop t = (K.drop gt).drop (t - gt) := by rw [List.drop_drop]; congr 1; omega
      rw [List.append_assoc, List.append_assoc, List.append_assoc, e3, List.take_append_drop, e2,
        List.take_append_drop, e1, List.take_append_drop, List.take_append_drop],
    by simp; omega, by simp; omega, by simp; omega, by simp; omega⟩

theorem win_take {α} (A R : List α) (n : Nat) (h : A.length = n) : (A ++ R).take n = A :=
  List.take_left' h

theorem win_drop {α} (A R : List α) (n : Nat) (h : A.length = n) : (A ++ R).drop n = R :=
  List.drop_left' h

theorem win_mid {α} (A W R : List α) (a w : Nat) (ha : A.length = a) (hw : W.length = w) :
    ((A ++ W ++ R).drop a).take w = W := by
  rw [List.append_assoc, List.drop_left' ha, List.take_left' hw]


/-! ### attribute computation -/

/-- lookup in an attribute list -/
def lk (g : Attrs) (x : String) : Option String := (g.find? (·.1 == x)).map (·.2)

/-- the value `compute_attrs` gives a declared attribute -/
def valOf (d : AttrDecl) : Option String → Option String
  | some v => if v != "null" then some v else if d.hasDefault then some d.default else none
  | none => if d.hasDefault then some d.default else none

theorem computeAttrs_nil (g : Attrs) : computeAttrs [] g = .ok [] := rfl

theorem computeAttrs_cons_valOf (d : AttrDecl) (ds : List AttrDecl) (g : Attrs) :
    computeAttrs (d :: ds) g =
      match computeAttrs ds g with
      | .error e => .error e
      | .ok rest =>
        match valOf d (lk g d.name) with
        | some v => .ok ((d.name, v) :: rest)
        | none => .error .valueError := by
  simp only [computeAttrs, List.foldr_cons]
  cases List.foldr _ _ ds with
  | error e => rfl
  | ok rest =>
    simp only [lk, valOf]
    cases List.find? (fun x => x.1 == d.name) g with
    | none => simp only [Option.map_none]; split <;> rfl
    | some q =>
      simp only [Option.map_some]
      split
      · rfl
      · split <;> rfl

theorem computeAttrs_congr (g g' : Attrs) : ∀ (ds : List AttrDecl),
    (∀ d ∈ ds, lk g d.name = lk g' d.name) → computeAttrs ds g = computeAttrs ds g'
  | [], _ => rfl
  | d :: ds, h => by
    rw [computeAttrs_cons_valOf, computeAttrs_cons_valOf,
      computeAttrs_congr g g' ds (fun d hd => h d (by simp [hd])), h d (by simp)]

theorem lk_cons (k v : String) (g : Attrs) (x : String) :
    lk ((k, v) :: g) x = if k = x then some v else lk g x := by
  simp only [lk, List.find?_cons]
  by_cases hk : k = x
  · simp [hk]
  · have : (k == x) = false := by simpa using hk
    simp only [this, hk, if_false]

theorem computeAttrs_lk (g g' : Attrs) (x : String) (hx : lk g x = lk g' x) :
    ∀ (ds : List AttrDecl) (r r' : Attrs), computeAttrs ds g = .ok r → computeAttrs ds g' = .ok r' →
      lk r x = lk r' x
  | [], r, r', h, h' => by
    simp only [computeAttrs_nil, Except.ok.injEq] at h h'
    subst h; subst h'; rfl
  | d :: ds, r, r', h, h' => by
    rw [computeAttrs_cons_valOf] at h h'
    cases h1 : computeAttrs ds g with
    | error e => simp [h1] at h
    | ok rest =>
      cases h2 : computeAttrs ds g' with
      | error e => simp [h2] at h'
      | ok rest' =>
        simp only [h1, h2] at h h'
        have ih := computeAttrs_lk g g' x hx ds rest rest' h1 h2
        cases hv : valOf d (lk g d.name) with
        | none => simp [hv] at h
        | some v =>
          cases hv' : valOf d (lk g' d.name) with
          | none => simp [hv'] at h'
          | some v' =>
            simp only [hv, hv', Except.ok.injEq] at h h'
            subst h; subst h'
            rw [lk_cons, lk_cons, ih]
            by_cases hd : d.name = x
            · subst hd
              rw [hx, hv'] at hv
              simp [hv]
            · simp [hd]

theorem lk_set (g : Attrs) (name w x : String) :
    lk (g.filter (·.1 != name) ++ [(name, w)]) x = if x = name then some w else lk g x := by
  induction g with
  | nil =>
    simp only [List.filter_nil, List.nil_append, lk_cons]
    by_cases h : x = name
    · simp [h]
    · have : ¬ name = x := fun e => h e.symm
      simp [h, this, lk]
  | cons q g ih =>
    obtain ⟨k, v⟩ := q
    simp only [List.filter_cons]
    by_cases hk : k = name
    · subst hk
      simp only [bne_self_eq_false, Bool.false_eq_true, if_false, ih, lk_cons]
      by_cases h : x = k
      · simp [h]
      · have : ¬ k = x := fun e => h e.symm
        simp [h, this]
    · have : (k != name) = true := by simpa using hk
      simp only [this, if_true, List.cons_append, lk_cons, ih]
      by_cases h : k = x
      · subst h; simp [hk]
      · simp [h]

/-- setting an attribute to its previous value again restores a canonically built attribute list -/
theorem computeAttrs_undo (ds : List AttrDecl) (a a' : Attrs) (name value v : String)
    (ha : computeAttrs ds a = .ok a) (hv : lk a name = some v)
    (h1 : computeAttrs ds (a.filter (·.1 != name) ++ [(name, value)]) = .ok a') :
    computeAttrs ds (a'.filter (·.1 != name) ++ [(name, v)]) = .ok a := by
  refine Eq.trans ?_ ha
  apply computeAttrs_congr
  intro d _
  rw [lk_set]
  by_cases hd : d.name = name
  · simp [hd, hv]
  · simp only [hd, if_false]
    have := computeAttrs_lk (a.filter (·.1 != name) ++ [(name, value)]) a d.name
      (by rw [lk_set]; simp [hd]) ds a' a h1 ha
    exact this

/-- a canonically built attribute list has an entry for every declared attribute -/
theorem computeAttrs_lk_isSome : ∀ (ds : List AttrDecl) (g a : Attrs), computeAttrs ds g = .ok a →
    ∀ d ∈ ds, (lk a d.name).isSome = true
  | [], _, _, _, d, hd => by simp at hd
  | d0 :: ds, g, a, h, d, hd => by
    rw [computeAttrs_cons_valOf] at h
    cases h1 : computeAttrs ds g with
    | error e => simp [h1] at h
    | ok rest =>
      simp only [h1] at h
      cases hv : valOf d0 (lk g d0.name) with
      | none => simp [hv] at h
      | some v =>
        simp only [hv, Except.ok.injEq] at h
        subst h
        rw [lk_cons]
        by_cases he : d0.name = d.name
        · simp [he]
        · simp only [he, if_false]
          rcases List.mem_cons.mp hd with rfl | hm
          · exact absurd rfl he
          · exact computeAttrs_lk_isSome ds g rest h1 d hm

/-- setting an attribute the node does not carry (its type does not declare it) changes nothing, and
    setting it again (to anything) gives the list back -/
theorem computeAttrs_undo_none (ds : List AttrDecl) (a a' : Attrs) (name value w : String)
    (ha : computeAttrs ds a = .ok a) (hv : lk a name = none)
    (h1 : computeAttrs ds (a.filter (·.1 != name) ++ [(name, value)]) = .ok a') :
    computeAttrs ds (a'.filter (·.1 != name) ++ [(name, w)]) = .ok a := by
  have hnd : ∀ d ∈ ds, d.name ≠ name := by
    intro d hd e
    have := computeAttrs_lk_isSome ds a a ha d hd
    rw [e, hv] at this
    cases this
  refine Eq.trans ?_ ha
  apply computeAttrs_congr
  intro d hd
  rw [lk_set]
  simp only [hnd d hd, if_false]
  exact computeAttrs_lk (a.filter (·.1 != name) ++ [(name, value)]) a d.name
    (by rw [lk_set]; simp [hnd d hd]) ds a' a h1 ha

/-! ### mark sets: remove / re-add -/

theorem filter_ne_of_not_mem (m : Mark) (l : Marks) (h : m ∉ l) : l.filter (· != m) = l :=
  List.filter_eq_self.mpr (fun o ho => by
    have : o ≠ m := fun e => h (e ▸ ho)
    simpa using this)

theorem removeFromSet_of_not_mem (m : Mark) (l : Marks) (h : m ∉ l) : m.removeFromSet l = l :=
  filter_ne_of_not_mem m l h

theorem filter_ne_insertByRank (m : Mark) (l : Marks) (h : m ∉ l) :
    (insertByRank m l).filter (· != m) = l := by
  induction l with
  | nil => simp [insertByRank]
  | cons o rest ih =>
    have hom : o ≠ m := fun e => h (by simp [e])
    have hr : m ∉ rest := fun hm => h (by simp [hm])
    simp only [insertByRank]
    split
    · simp only [List.filter_cons, bne_self_eq_false, Bool.false_eq_true, if_false]
      have : (o != m) = true := by simpa using hom
      simp [this, filter_ne_of_not_mem m rest hr]
    · have : (o != m) = true := by simpa using hom
      simp only [List.filter_cons, this, if_true, ih hr]

/-- a predicate that drops exactly the inserted mark -/
theorem filter_insertByRank_drop (p : Mark → Bool) (m : Mark) (l : Marks) (hm : p m = false)
    (hl : ∀ o ∈ l, p o = true) : (insertByRank m l).filter p = l := by
  induction l with
  | nil => simp [insertByRank, hm]
  | cons o rest ih =>
    have ho := hl o (by simp)
    have hr : ∀ o ∈ rest, p o = true := fun x hx => hl x (by simp [hx])
    simp only [insertByRank]
    split
    · simp only [List.filter_cons, hm, Bool.false_eq_true, if_false, ho, if_true]
      rw [List.filter_eq_self.mpr hr]
    · simp only [List.filter_cons, ho, if_true, ih hr]

/-- re-inserting a removed mark puts it back in place when no other mark has its type -/
theorem insertByRank_erase (m : Mark) : ∀ (ms : Marks), RankSorted ms → ms.Nodup → m ∈ ms →
    (∀ o ∈ ms, o.ty = m.ty → o = m) → insertByRank m (ms.filter (· != m)) = ms
  | [], _, _, hm, _ => by simp at hm
  | o :: rest, hs, hnd, hm, hty => by
    have ⟨hs1, hs2⟩ := List.pairwise_cons.mp hs
    have ⟨hnd1, hnd2⟩ := List.nodup_cons.mp hnd
    by_cases hom : o = m
    · subst hom
      simp only [List.filter_cons, bne_self_eq_false, Bool.false_eq_true, if_false]
      rw [filter_ne_of_not_mem o rest hnd1]
      cases rest with
      | nil => simp [insertByRank]
      | cons r rs =>
        have h1 : o.ty ≤ r.ty := hs1 r (by simp)
        have h2 : r.ty ≠ o.ty := fun e => hnd1 (by rw [hty r (by simp) e]; simp)
        have : r.ty > o.ty := Nat.lt_of_le_of_ne h1 (Ne.symm h2)
        simp [insertByRank, this]
    · have hmr : m ∈ rest := by
        rcases List.mem_cons.mp hm with h | h
        · exact absurd h.symm hom
        · exact h
      have : (o != m) = true := by simpa using hom
      simp only [List.filter_cons, this, if_true, insertByRank]
      have hle : ¬ o.ty > m.ty := Nat.not_lt.mpr (hs1 m hmr)
      simp only [hle, if_false]
      rw [insertByRank_erase m rest hs2 hnd2 hmr (fun x hx => hty x (by simp [hx]))]

/-- **remove, then add again** -/
theorem add_remove_eq (S : Schema) (ms : Marks) (m : Mark) (hc : CanonP S ms) (hm : m ∈ ms)
    (hty : ∀ o ∈ ms, o.ty = m.ty → o = m) : m.addToSet S (m.removeFromSet ms) = ms := by
  rw [addToSet_eq]
  have hsub : ∀ o ∈ m.removeFromSet ms, o ∈ ms ∧ o ≠ m := by
    intro o ho
    have := List.mem_filter.mp ho
    exact ⟨this.1, by simpa using this.2⟩
  have hc1 : ((m.removeFromSet ms).any (fun o => o == m) ||
      (m.removeFromSet ms).any (fun o => !S.excludes m.ty o.ty && S.excludes o.ty m.ty)) = false := by
    simp only [Bool.or_eq_false_iff, List.any_eq_false, beq_iff_eq, Bool.and_eq_true,
      Bool.not_eq_eq_eq_not, Bool.not_true, not_and, Bool.not_eq_true]
    exact ⟨fun o ho => (hsub o ho).2,
      fun o ho _ => hc.exclFree o (hsub o ho).1 m hm (hsub o ho).2⟩
  rw [hc1]
  simp only [Bool.false_eq_true, if_false]
  have hf : (m.removeFromSet ms).filter (fun o => !S.excludes m.ty o.ty) = m.removeFromSet ms :=
    List.filter_eq_self.mpr (fun o ho => by
      simp [hc.exclFree m hm o (hsub o ho).1 (fun e => (hsub o ho).2 e.symm)])
  rw [hf]
  exact insertByRank_erase m ms hc.sorted hc.nodup hm hty

/-- `addToSet` when the mark is new and nothing blocks it -/
theorem addToSet_length_gt (S : Schema) (ms : Marks) (m : Mark)
    (h : ms.length < (m.addToSet S ms).length) :
    m ∉ ms ∧ m.addToSet S ms = insertByRank m ms := by
  rw [addToSet_eq] at h ⊢
  split at h
  · omega
  · rename_i hcond
    rw [if_neg hcond]
    simp only [Bool.or_eq_true, List.any_eq_true, beq_iff_eq, not_or, not_exists, not_and] at hcond
    have hlen : (insertByRank m (ms.filter fun o => !S.excludes m.ty o.ty)).length =
        (ms.filter fun o => !S.excludes m.ty o.ty).length + 1 := by
      simpa using (insertByRank_perm m _).length_eq
    have hle := List.length_filter_le (fun o => !S.excludes m.ty o.ty) ms
    have hfe : ms.filter (fun o => !S.excludes m.ty o.ty) = ms :=
      List.filter_sublist.eq_of_length (by omega)
    exact ⟨fun hm => hcond.1 m hm rfl, by rw [hfe]⟩

/-- **add (nothing displaced), then remove** -/
theorem remove_add_eq (S : Schema) (ms : Marks) (m : Mark)
    (h : (m.addToSet S ms).length = ms.length + 1) : m.removeFromSet (m.addToSet S ms) = ms := by
  obtain ⟨hm, he⟩ := addToSet_length_gt S ms m (by omega)
  rw [he]
  exact filter_ne_insertByRank m ms hm

/-- **add displacing exactly one mark `x`, then add `x` again** -/
theorem add_displaced_eq (S : Schema) (ms : Marks) (m x : Mark) (hc : CanonP S ms)
    (hlen : (m.addToSet S ms).length = ms.length)
    (hx : ms.find? (fun x => !(x.isInSet (m.addToSet S ms))) = some x)
    (hty : ∀ o ∈ ms, o.ty = x.ty → o = x)
    (hsym : ∀ o ∈ ms, S.excludes m.ty o.ty = true → S.excludes o.ty m.ty = true) :
    x.addToSet S (m.addToSet S ms) = ms := by
  have hxm : x ∈ ms := List.mem_of_find?_eq_some hx
  have hxn : x ∉ m.addToSet S ms := by
    have := List.find?_some hx
    simp only [Bool.not_eq_eq_eq_not, Bool.not_true] at this
    intro hmem
    rw [(isInSet_iff x _).mpr hmem] at this
    exact Bool.noConfusion this
  rw [addToSet_eq] at hlen hxn
  rw [addToSet_eq S m ms]
  split at hlen
  · rename_i hcond
    rw [if_pos hcond] at hxn
    exact absurd hxm hxn
  · rename_i hcond
    rw [if_neg hcond] at hxn ⊢
    simp only [Bool.or_eq_true, List.any_eq_true, beq_iff_eq, not_or, not_exists, not_and] at hcond
    have hmn : m ∉ ms := fun hm => hcond.1 m hm rfl
    -- the kept marks are all but `x`
    have hkx : S.excludes m.ty x.ty = true := by
      have : x ∉ ms.filter (fun o => !S.excludes m.ty o.ty) :=
        fun hm => hxn ((mem_insertByRank m x _).mpr (Or.inr hm))
      have h2 : ¬ ((!S.excludes m.ty x.ty) = true) := fun hp => this (List.mem_filter.mpr ⟨hxm, hp⟩)
      simpa using h2
    have hl1 : (ms.filter fun o => !S.excludes m.ty o.ty).length + 1 = ms.length := by
      have := (insertByRank_perm m (ms.filter fun o => !S.excludes m.ty o.ty)).length_eq
      simp only [List.length_cons] at this
      omega
    have hkeep : ms.filter (fun o => !S.excludes m.ty o.ty) = ms.filter (· != x) := by
      have e1 : ms.filter (fun o => !S.excludes m.ty o.ty)
          = (ms.filter (· != x)).filter (fun o => !S.excludes m.ty o.ty) := by
        rw [List.filter_filter]
        apply List.filter_congr
        intro o _
        by_cases hox : o = x
        · subst hox; simp [hkx]
        · have : (o != x) = true := by simpa using hox
          simp [this]
      have hlt : (ms.filter (· != x)).length < ms.length :=
        List.length_filter_lt_length_iff_exists.mpr ⟨x, hxm, by simp⟩
      rw [e1]
      apply List.Sublist.eq_of_length List.filter_sublist
      have h3 : ((ms.filter (· != x)).filter (fun o => !S.excludes m.ty o.ty)).length
          = (ms.filter fun o => !S.excludes m.ty o.ty).length := by rw [← e1]
      have h4 := List.length_filter_le (fun o => !S.excludes m.ty o.ty) (ms.filter (· != x))
      omega
    rw [hkeep] at hxn ⊢
    have hsubm : ∀ o ∈ ms.filter (· != x), o ∈ ms ∧ o ≠ x := by
      intro o ho
      have := List.mem_filter.mp ho
      exact ⟨this.1, by simpa using this.2⟩
    have hxm' : x ≠ m := fun e => hmn (e ▸ hxm)
    -- adding `x` back
    rw [addToSet_eq]
    have hc1 : ((insertByRank m (ms.filter (· != x))).any (fun o => o == x) ||
        (insertByRank m (ms.filter (· != x))).any
          (fun o => !S.excludes x.ty o.ty && S.excludes o.ty x.ty)) = false := by
      simp only [Bool.or_eq_false_iff, List.any_eq_false, beq_iff_eq, Bool.and_eq_true,
        Bool.not_eq_eq_eq_not, Bool.not_true, not_and, Bool.not_eq_true]
      refine ⟨fun o ho e => hxn (e ▸ ho), fun o ho hno => ?_⟩
      rcases (mem_insertByRank m o _).mp ho with rfl | ho
      · rw [hsym x hxm hkx] at hno; exact Bool.noConfusion hno
      · exact hc.exclFree o (hsubm o ho).1 x hxm (hsubm o ho).2
    rw [hc1]
    simp only [Bool.false_eq_true, if_false]
    rw [filter_insertByRank_drop _ m _ (by simp [hsym x hxm hkx])
      (fun o ho => by
        simp [hc.exclFree x hxm o (hsubm o ho).1 (fun e => (hsubm o ho).2 e.symm)])]
    exact insertByRank_erase x ms hc.sorted hc.nodup hxm hty

/-- the "nothing displaced, same length" case: the set is unchanged -/
theorem add_same_length_none (S : Schema) (ms : Marks) (m : Mark)
    (hlen : (m.addToSet S ms).length = ms.length)
    (hx : ms.find? (fun x => !(x.isInSet (m.addToSet S ms))) = none) :
    m.addToSet S ms = ms := by
  have hall : ∀ o ∈ ms, o ∈ m.addToSet S ms := by
    intro o ho
    have := List.find?_eq_none.mp hx o ho
    simp only [Bool.not_eq_eq_eq_not, Bool.not_true, Bool.not_eq_false] at this
    exact (isInSet_iff o _).mp (by simpa using this)
  rw [addToSet_eq] at hlen hall ⊢
  split
  · rfl
  · rename_i hcond
    rw [if_neg hcond] at hlen hall
    simp only [Bool.or_eq_true, List.any_eq_true, beq_iff_eq, not_or, not_exists, not_and] at hcond
    have hl1 : (ms.filter fun o => !S.excludes m.ty o.ty).length + 1 = ms.length := by
      have := (insertByRank_perm m (ms.filter fun o => !S.excludes m.ty o.ty)).length_eq
      simp only [List.length_cons] at this
      omega
    have hlt : (ms.filter fun o => !S.excludes m.ty o.ty).length < ms.length := by omega
    obtain ⟨o, ho, hpo⟩ := List.length_filter_lt_length_iff_exists.mp hlt
    exfalso
    rcases (mem_insertByRank m o _).mp (hall o ho) with rfl | h
    · exact hcond.1 o ho rfl
    · exact hpo (List.mem_filter.mp h).2

/-! ### node-markup steps: the addressed token -/

def Tok.remark (a : Attrs) (m : Marks) : Tok → Tok
  | .op t _ _ => .op t a m
  | .leaf t _ _ => .leaf t a m
  | t => t

def Tok.ty : Tok → TypeId
  | .op t _ _ => t
  | .leaf t _ _ => t
  | _ => 0

theorem recreate_spec (S : Schema) (n u : Node) (attrs : Attrs) (marks : Marks)
    (h : S.recreate n attrs marks = .ok u) :
    n.isText = false ∧ fnorm [u] = true ∧
      ∃ a', computeAttrs (S.nodeType n.headTok.ty).attrs attrs = .ok a' ∧
        u.headTok = n.headTok.remark a' (setFrom marks) := by
  unfold Schema.recreate at h
  cases n with
  | text s m => simp at h
  | leaf t a m =>
    simp only at h
    cases hc : computeAttrs (S.nodeType t).attrs attrs with
    | error e => rw [hc] at h; simp [Except.map] at h
    | ok a' =>
      rw [hc] at h; simp [Except.map] at h; subst h
      exact ⟨rfl, by simp [fnorm, chainOk], a', hc, rfl⟩
  | elem t a m k =>
    simp only at h
    cases hc : computeAttrs (S.nodeType t).attrs attrs with
    | error e => rw [hc] at h; simp [Except.map] at h
    | ok a' =>
      rw [hc] at h; simp [Except.map] at h; subst h
      exact ⟨rfl, by simp [fnorm, chainOk, Node.norm_elem], a', hc, rfl⟩

theorem headTok_remark_self (n : Node) : n.headTok.remark n.attrs n.marks = n.headTok := by
  cases n <;> rfl

theorem headTok_eq_remark {n n2 : Node} {a : Attrs} {m : Marks} (hn : n.isText = false)
    (hn2 : n2.isText = false) (h : n2.headTok = n.headTok.remark a m) :
    n2.headTok.ty = n.headTok.ty ∧ n2.attrs = a ∧ n2.marks = m ∧
      ∀ a' m', n2.headTok.remark a' m' = n.headTok.remark a' m' := by
  cases n with
  | text s mk => simp [Node.isText] at hn
  | leaf t at_ mk =>
    cases n2 with
    | text s mk => simp [Node.isText] at hn2
    | leaf t2 a2 m2 =>
      simp only [Node.headTok, Tok.remark, Tok.leaf.injEq] at h
      obtain ⟨rfl, rfl, rfl⟩ := h
      exact ⟨rfl, rfl, rfl, fun _ _ => rfl⟩
    | elem t2 a2 m2 k2 => simp [Node.headTok, Tok.remark] at h
  | elem t at_ mk k =>
    cases n2 with
    | text s mk => simp [Node.isText] at hn2
    | leaf t2 a2 m2 => simp [Node.headTok, Tok.remark] at h
    | elem t2 a2 m2 k2 =>
      simp only [Node.headTok, Tok.remark, Tok.op.injEq] at h
      obtain ⟨rfl, rfl, rfl⟩ := h
      exact ⟨rfl, rfl, rfl, fun _ _ => rfl⟩

theorem take_one_drop_getD (K : List Tok) (pos : Nat) (h : pos < K.length) :
    (K.drop pos).take (pos + 1 - pos) = [K.getD pos Tok.cl] := by
  rw [show pos + 1 - pos = 1 by omega, List.drop_eq_getElem_cons h, List.take_succ_cons,
    List.take_zero, List.getD_eq_getElem?_getD, List.getElem?_eq_getElem h, Option.getD_some]

/-- two successive node-markup replacements at `pos` restore the document when the second one
    rebuilds the original markup of the addressed node -/
theorem node_undo (S : Schema) (doc doc' doc'' n n2 u1 u2 : Node) (pos : Nat)
    (attrs1 attrs2 : Attrs) (marks1 marks2 : Marks)
    (hn : fnorm doc.kids = true)
    (hn1 : doc.nodeAt pos = .ok (some n)) (hu1 : S.recreate n attrs1 marks1 = .ok u1)
    (hr1 : S.fromReplace doc pos (pos + 1) ⟨[u1], 0, if n.isLeaf then 0 else 1⟩ = .ok doc')
    (hn2 : doc'.nodeAt pos = .ok (some n2)) (hu2 : S.recreate n2 attrs2 marks2 = .ok u2)
    (hr2 : S.fromReplace doc' pos (pos + 1) ⟨[u2], 0, if n2.isLeaf then 0 else 1⟩ = .ok doc'')
    (hfin : ∀ a1 a2, computeAttrs (S.nodeType n.headTok.ty).attrs attrs1 = .ok a1 →
      n2.attrs = a1 → n2.marks = setFrom marks1 →
      computeAttrs (S.nodeType n.headTok.ty).attrs attrs2 = .ok a2 →
      a2 = n.attrs ∧ setFrom marks2 = n.marks) : doc'' = doc := by
  obtain ⟨p1, t1, g1, _⟩ := nodeRepl_toks S doc doc' n u1 pos attrs1 marks1 hn1 hu1 hr1
  obtain ⟨p2, t2, g2, _⟩ := nodeRepl_toks S doc' doc'' n2 u2 pos attrs2 marks2 hn2 hu2 hr2
  obtain ⟨hnt1, hnu1, a1, hc1, hh1⟩ := recreate_spec S n u1 attrs1 marks1 hu1
  obtain ⟨hnt2, hnu2, a2, hc2, hh2⟩ := recreate_spec S n2 u2 attrs2 marks2 hu2
  obtain ⟨ty, a, m, K, K', rfl, rfl, hk1⟩ := fromReplace_elem S doc doc' _ _ _ hr1
  obtain ⟨ty', a', m', K0, K'', he, rfl, hk2⟩ := fromReplace_elem S _ doc'' _ _ _ hr2
  cases he
  simp only [Node.kids] at hn p1 t1 g1 p2 t2 g2
  have hn' := replaceKids_norm S ty K _ _ _ K' hn hnu1 hk1
  have hn'' := replaceKids_norm S ty K' _ _ _ K'' hn' hnu2 hk2
  have hlen : pos < (ftoks K).length := by rw [ftoks_length]; exact p1
  have e2 : n2.headTok = n.headTok.remark a1 (setFrom marks1) := by
    rw [← g2, t1, getD_splice _ _ _ _ hlen, hh1]
  obtain ⟨hty2, hat2, hmk2, hrm2⟩ := headTok_eq_remark hnt1 hnt2 e2
  rw [hty2] at hc2
  obtain ⟨ha2, hm2⟩ := hfin a1 a2 hc1 hat2 hmk2 hc2
  have e3 : u2.headTok = (ftoks K).getD pos Tok.cl := by
    rw [hh2, hrm2, ha2, hm2, headTok_remark_self, g1]
  have : ftoks K'' = ftoks K := by
    rw [t2, t1, e3, ← take_one_drop_getD (ftoks K) pos hlen]
    exact splice_undo (ftoks K) [u1.headTok] pos (pos + 1) (by omega) (by omega)
  rw [ftoks_inj K'' K hn'' hn this]

/-! ### the parts of the node-markup steps -/

theorem apply_attr_parts (S : Schema) (doc doc' : Node) (pos : Nat) (name value : String)
    (h : S.apply (.attr pos name value) doc = .ok doc') :
    ∃ n u, doc.nodeAt pos = .ok (some n) ∧
      S.recreate n (n.attrs.filter (·.1 != name) ++ [(name, value)]) n.marks = .ok u ∧
      S.fromReplace doc pos (pos + 1) ⟨[u], 0, if n.isLeaf then 0 else 1⟩ = .ok doc' := by
  unfold Schema.apply at h
  simp only at h
  split at h
  · simp at h
  · simp at h
  · rename_i n hn
    split at h
    · simp at h
    · rename_i u hu
      exact ⟨n, u, hn, hu, h⟩

theorem apply_addNodeMark_parts (S : Schema) (doc doc' : Node) (pos : Nat) (mrk : Mark)
    (h : S.apply (.addNodeMark pos mrk) doc = .ok doc') :
    ∃ n u, doc.nodeAt pos = .ok (some n) ∧
      S.recreate n n.attrs (mrk.addToSet S n.marks) = .ok u ∧
      S.fromReplace doc pos (pos + 1) ⟨[u], 0, if n.isLeaf then 0 else 1⟩ = .ok doc' := by
  unfold Schema.apply at h
  simp only at h
  split at h
  · simp at h
  · simp at h
  · rename_i n hn
    split at h
    · simp at h
    · rename_i u hu
      exact ⟨n, u, hn, hu, h⟩

theorem apply_removeNodeMark_parts (S : Schema) (doc doc' : Node) (pos : Nat) (mrk : Mark)
    (h : S.apply (.removeNodeMark pos mrk) doc = .ok doc') :
    ∃ n u, doc.nodeAt pos = .ok (some n) ∧
      S.recreate n n.attrs (mrk.removeFromSet n.marks) = .ok u ∧
      S.fromReplace doc pos (pos + 1) ⟨[u], 0, if n.isLeaf then 0 else 1⟩ = .ok doc' := by
  unfold Schema.apply at h
  simp only at h
  split at h
  · simp at h
  · simp at h
  · rename_i n hn
    split at h
    · simp at h
    · rename_i u hu
      exact ⟨n, u, hn, hu, h⟩

theorem setFrom_idem_of_canonical (S : Schema) (m : Marks) (h : canonicalMarks S m = true) :
    setFrom m = m :=
  setFrom_of_sorted m ((canonicalMarks_iff_canonP S m).1 h).sorted

end PM
