/- Proofs/ReplaceRange.lean — helper lemmas for `Transform.replace_range` / `replace_range_with`
   (model: PM/ReplaceRange.lean; theorems: Props/C11.lean, Props/C18.lean): `close_fragment` keeps
   the text, every entry of `target_depths` is a covered depth or a run of open tokens in front of
   `from`, and every `(from, to)` handed to `replace` is the requested pair widened over structure. -/
import PM.ReplaceRange
import PM.Monitor
import Proofs.Resolve
import Proofs.Range
import Proofs.Structure
import Proofs.RangeOps
import Proofs.Fitter
import Proofs.FitterText
import Proofs.Structure2
namespace PM

/-! ### close_fragment only adds fillers -/

/-- what `closeLevel` returns: fillers in front, and — unless the end filler is skipped — fillers
    behind -/
theorem closeLevel_shape (S : Schema) (pt : Option TypeId) (skip : Bool) (frag r : List Node)
    (h : closeLevel S pt skip frag = .ok r) :
    ∃ fill fill2, ftext fill = [] ∧ ftext fill2 = [] ∧ r = fappend (fappend fill frag) fill2 ∧
      (skip = true → fill2 = []) := by
  unfold closeLevel at h
  split at h
  · simp [throw, throwThe, MonadExceptOf.throw] at h
  · simp only at h
    obtain ⟨fo, hfo, h⟩ := FM.bind_ok h
    obtain ⟨fill, hfill, h⟩ := FM.bind_ok h
    have e1 : ftext fill = [] := by
      have := liftRaise_ok hfill
      subst this
      exact fillOpt_noText S _ _ _ _ _ hfo
    split at h
    · have := pure_ok h
      subst this
      exact ⟨fill, [], e1, rfl, by simp [fappend], fun _ => rfl⟩
    · rename_i hsk
      obtain ⟨q, _, h⟩ := FM.bind_ok h
      obtain ⟨fo2, hfo2, h⟩ := FM.bind_ok h
      obtain ⟨fill2, hfill2, h⟩ := FM.bind_ok h
      have := pure_ok h
      subst this
      have e2 : ftext fill2 = [] := by
        have := liftRaise_ok hfill2
        subst this
        exact fillOpt_noText S _ _ _ _ _ hfo2
      exact ⟨fill, fill2, e1, e2, rfl, fun hs => absurd hs hsk⟩

theorem closeLevel_text (S : Schema) (pt : Option TypeId) (skip : Bool) (frag r : List Node)
    (h : closeLevel S pt skip frag = .ok r) : ftext r = ftext frag := by
  obtain ⟨fill, fill2, e1, e2, rfl, _⟩ := closeLevel_shape S pt skip frag r h
  simp [ftext_fappend, e1, e2]

theorem closeFragment_text (S : Schema) (oo no oe : Nat) : ∀ (n : Nat) (frag : List Node) (pt : Option TypeId)
    (onEnd : Bool) (r : List Node), closeFragment S oo no oe n frag pt onEnd = .ok r → ftext r = ftext frag
  | 0, frag, pt, onEnd, r, h => by
    unfold closeFragment at h
    split at h
    · exact closeLevel_text S pt _ frag r h
    · have := pure_ok h
      subst this; rfl
  | n + 1, [], pt, onEnd, r, h => by
    simp [closeFragment, throw, throwThe, MonadExceptOf.throw] at h
  | n + 1, first :: rest, pt, onEnd, r, h => by
    unfold closeFragment at h
    obtain ⟨inner, hi, h⟩ := FM.bind_ok h
    have ih := closeFragment_text S oo no oe n first.kids _ _ inner hi
    have hn : ntext (first.withKids inner) = ntext first := by
      rw [ntext_withKids]
      cases first with
      | text s m => rfl
      | leaf t a m => rfl
      | elem t a m k => simp only [ih, Node.kids, ntext_elem]
    have e : ftext (first.withKids inner :: rest) = ftext (first :: rest) := by
      rw [ftext_cons, ftext_cons, hn]
    split at h
    · rw [closeLevel_text S pt _ _ r h, e]
    · have := pure_ok h
      subst this
      exact e

/-- **`close_fragment` neither invents nor drops text** -/
theorem closeSlice_text (S : Schema) (sl : Slice) (od : Nat) (c : List Node)
    (h : closeSlice S sl od = .ok c) : ftext c = ftext sl.content :=
  closeFragment_text S _ _ _ _ _ _ _ c h

/-! ### close_fragment keeps both spines: the closed slice is well-formed -/

theorem spineR_cons_of_ne_nil (x : Node) (rest : List Node) (h : rest ≠ []) :
    spineR (x :: rest) = spineR rest := by
  cases rest with
  | nil => exact absurd rfl h
  | cons y ys => simp [spineR]

theorem spineR_append_of_ne_nil : ∀ (a b : List Node), b ≠ [] → spineR (a ++ b) = spineR b
  | [], b, _ => rfl
  | x :: a, b, h => by
    rw [List.cons_append, spineR_cons_of_ne_nil x (a ++ b) (by simp [h]), spineR_append_of_ne_nil a b h]

theorem spineR_addNode_ge (a : List Node) (c : Node) : spineR [c] ≤ spineR (addNode a c) := by
  unfold addNode
  split
  · split
    · simp [spineR]
    · rw [spineR_append_of_ne_nil _ _ (by simp)]; exact Nat.le_refl _
  · rw [spineR_append_of_ne_nil _ _ (by simp)]; exact Nat.le_refl _

/-- `Fragment.append` never shortens the end spine of its second argument -/
theorem spineR_fappend_ge (a b : List Node) : spineR b ≤ spineR (fappend a b) := by
  unfold fappend
  split
  · simp [spineR]
  · rename_i c rest
    split
    · exact Nat.le_refl _
    · cases rest with
      | nil => simpa using spineR_addNode_ge a c
      | cons y ys =>
        rw [spineR_append_of_ne_nil _ _ (by simp), spineR_cons_of_ne_nil c (y :: ys) (by simp)]
        exact Nat.le_refl _

theorem closeLevel_endSpine (S : Schema) (pt : Option TypeId) (skip : Bool) (frag r : List Node) (k : Nat)
    (h : closeLevel S pt skip frag = .ok r) (hk : k ≤ spineR frag) (hskip : skip = false → k = 0) :
    k ≤ spineR r := by
  obtain ⟨fill, fill2, _, _, rfl, hs⟩ := closeLevel_shape S pt skip frag r h
  cases skip with
  | false => simp [hskip rfl]
  | true =>
    rw [hs rfl]
    simp only [fappend]
    exact Nat.le_trans hk (spineR_fappend_ge fill frag)

/-- **the end spine survives**: on the end spine (`on_end_spine`), a fragment whose last-child
    chain is at least `open_end - depth` deep keeps such a chain — no filler is appended behind a
    node that stays open at the end -/
theorem closeFragment_keeps_end_spine (S : Schema) (oo no oe : Nat) : ∀ (n : Nat) (frag : List Node)
    (pt : Option TypeId) (onEnd : Bool) (r : List Node), n ≤ oo →
    closeFragment S oo no oe n frag pt onEnd = .ok r → onEnd = true →
    oe - (oo - n) ≤ spineR frag → oe - (oo - n) ≤ spineR r
  | 0, frag, pt, onEnd, r, _, h, hon, hk => by
    unfold closeFragment at h
    split at h
    · refine closeLevel_endSpine S pt _ frag r _ h hk fun hsk => ?_
      simp only [hon, Bool.true_and, decide_eq_false_iff_not, Nat.not_lt] at hsk
      omega
    · have := pure_ok h
      subst this; exact hk
  | n + 1, [], pt, onEnd, r, _, h, _, _ => by
    simp [closeFragment, throw, throwThe, MonadExceptOf.throw] at h
  | n + 1, first :: rest, pt, onEnd, r, hn, h, hon, hk => by
    unfold closeFragment at h
    obtain ⟨inner, hi, h⟩ := FM.bind_ok h
    have hk' : oe - (oo - (n + 1)) ≤ spineR (first.withKids inner :: rest) := by
      cases rest with
      | cons y ys =>
        rw [spineR_cons_of_ne_nil _ _ (by simp)]
        rwa [spineR_cons_of_ne_nil _ _ (by simp)] at hk
      | nil =>
        rcases Nat.eq_zero_or_pos (oe - (oo - (n + 1))) with h0 | h0
        · omega
        · cases first with
          | text s m => simp [spineR] at hk; omega
          | leaf t a m => simp [spineR] at hk; omega
          | elem t a m kids =>
            simp only [spineR, Node.withKids] at hk ⊢
            have ih := closeFragment_keeps_end_spine S oo no oe n kids _ _ inner (by omega) hi
              (by simp [hon]) (by simp only [Node.kids] at *; omega)
            omega
    split at h
    · refine closeLevel_endSpine S pt _ _ r _ h hk' fun hsk => ?_
      simp only [hon, Bool.true_and, decide_eq_false_iff_not, Nat.not_lt] at hsk
      omega
    · have := pure_ok h
      subst this; exact hk'

/-- **the start spine survives down to the new open depth**: no filler is put in front of a node
    at a depth `≤ new_open` -/
theorem closeFragment_keeps_start_spine (S : Schema) (oo no oe : Nat) : ∀ (n : Nat) (frag : List Node)
    (pt : Option TypeId) (onEnd : Bool) (r : List Node), n ≤ oo → no ≤ oo →
    closeFragment S oo no oe n frag pt onEnd = .ok r → n ≤ spineL frag → no - (oo - n) ≤ spineL r
  | 0, frag, pt, onEnd, r, _, hno, h, _ => by
    unfold closeFragment at h
    split at h
    · omega
    · have := pure_ok h
      subst this; omega
  | n + 1, [], pt, onEnd, r, _, _, h, _ => by
    simp [closeFragment, throw, throwThe, MonadExceptOf.throw] at h
  | n + 1, first :: rest, pt, onEnd, r, hn, hno, h, hk => by
    unfold closeFragment at h
    obtain ⟨inner, hi, h⟩ := FM.bind_ok h
    split at h
    · omega
    · have := pure_ok h
      subst this
      cases first with
      | text s m => simp [spineL] at hk
      | leaf t a m => simp [spineL] at hk
      | elem t a m kids =>
        simp only [spineL, Node.withKids] at hk ⊢
        have ih := closeFragment_keeps_start_spine S oo no oe n kids _ _ inner (by omega) hno hi (by omega)
        omega

/-- **the slice `replace_range` builds from a well-formed slice is well-formed**: closing
    `slice.content` to an open depth `≤ open_start` and keeping `open_end` -/
theorem closeSlice_wf (S : Schema) (sl : Slice) (od : Nat) (c : List Node) (hwf : sl.wf = true)
    (hod : od ≤ sl.openStart) (h : closeSlice S sl od = .ok c) : (Slice.mk c od sl.openEnd).wf = true := by
  simp only [Slice.wf, Bool.and_eq_true, decide_eq_true_eq] at hwf ⊢
  have h1 := closeFragment_keeps_start_spine S _ _ _ _ _ _ _ c (Nat.le_refl _) hod h hwf.1
  have h2 := closeFragment_keeps_end_spine S _ _ _ _ _ _ _ c (Nat.le_refl _) h rfl (by simpa using hwf.2)
  simp only [Nat.sub_self, Nat.sub_zero] at h1 h2
  exact ⟨h1, h2⟩

/-! ### the entries of `target_depths` -/

/-- what an entry of `target_depths` can be: the "preferred" entry `-(from.depth + 1)`; a covered
    depth `≥ 1`; or `-d` for an ancestor depth `d ≥ 1` of `from` such that `from` sits right after
    the open tokens of its ancestors from depth `d` on, none of which is
    defining / definingAsContext / isolating -/
def TargetOk (S : Schema) (rf rt : RPos) (td : Int) : Prop :=
  td = -((rf.depth + 1 : Nat) : Int) ∨
  (∃ d : Nat, td = (d : Int) ∧ 1 ≤ d ∧ d ∈ coveredDepthsR S rf rt) ∨
  (∃ d : Nat, td = -(d : Int) ∧ 1 ≤ d ∧ d ≤ rf.depth ∧ rf.pos = rf.start d + (rf.depth - d) ∧
    ∀ j, d ≤ j → j ≤ rf.depth → S.contextBreak (rf.node j) = false)

theorem popZero_mem (l : List Nat) (hp : l.Pairwise (· > ·)) (d : Nat) (hd : d ∈ popZero l) :
    d ∈ l ∧ 1 ≤ d := by
  unfold popZero at hd
  split at hd
  · rename_i hl
    obtain ⟨ys, rfl⟩ := List.getLast?_eq_some_iff.mp (by simpa using hl)
    simp only [List.dropLast_concat] at hd
    rw [List.pairwise_append] at hp
    have := hp.2.2 d hd 0 (by simp)
    exact ⟨List.mem_append_left _ hd, by omega⟩
  · rename_i hl
    refine ⟨hd, ?_⟩
    rcases Nat.eq_zero_or_pos d with h0 | h0
    · subst h0
      obtain ⟨s, t, rfl⟩ := List.append_of_mem hd
      rw [List.pairwise_append, List.pairwise_cons] at hp
      have ht : t = [] := by
        cases t with
        | nil => rfl
        | cons b _ => have := hp.2.1.1 b (by simp); omega
      subst ht
      simp at hl
    · exact h0

theorem mem_pyInsert1 (l : List Int) (x y : Int) (h : y ∈ pyInsert1 l x) : y ∈ l ∨ y = x := by
  unfold pyInsert1 at h
  rcases List.mem_append.mp h with h | h
  · exact .inl (List.mem_of_mem_take h)
  · rcases List.mem_cons.mp h with h | h
    · exact .inr h
    · exact .inl (List.mem_of_mem_drop h)

theorem rrWalk_ok (S : Schema) {doc : Node} {f : Nat} {rf : RPos} (Rf : Resolved doc f rf) (rt : RPos) :
    ∀ (d : Nat) (tds : List Int) (pt : Int) (r : List Int × Int), d ≤ rf.depth →
    (∀ j, d < j → j ≤ rf.depth → S.contextBreak (rf.node j) = false) →
    (∀ x ∈ tds, TargetOk S rf rt x) → rrWalk S rf d tds pt = some r → ∀ x ∈ r.1, TargetOk S rf rt x
  | 0, tds, pt, r, _, _, hok, h => by
    simp only [rrWalk, Option.some.injEq] at h
    subst h; exact hok
  | d + 1, tds, pt, r, hd, hnb, hok, h => by
    unfold rrWalk at h
    split at h
    · simp only [Option.some.injEq] at h
      subst h; exact hok
    · rename_i hbr
      have hnb' : ∀ j, d < j → j ≤ rf.depth → S.contextBreak (rf.node j) = false := by
        intro j hj1 hj2
        rcases Nat.lt_or_ge (d + 1) j with c | c
        · exact hnb j c hj2
        · have : j = d + 1 := by omega
          subst this; simpa using hbr
      split at h
      · exact rrWalk_ok S Rf rt d tds _ r (by omega) hnb' hok h
      · split at h
        · simp at h
        · rename_i b hb
          split at h
          · rename_i htest
            refine rrWalk_ok S Rf rt d _ pt r (by omega) hnb' ?_ h
            intro x hx
            rcases mem_pyInsert1 _ _ _ hx with hx | hx
            · exact hok x hx
            · subst hx
              rw [Rf.before_eq (d + 1) (by omega) hd] at hb
              simp only [Option.some.injEq] at hb
              have hs := Resolved.start_succ rf d
              simp only [beq_iff_eq] at htest
              exact .inr (.inr ⟨d + 1, rfl, by omega, hd, by omega, fun j hj1 hj2 => hnb' j (by omega) hj2⟩)
          · exact rrWalk_ok S Rf rt d tds pt r (by omega) hnb' hok h

theorem rrTargets_ok (S : Schema) {doc : Node} {f : Nat} {rf : RPos} (Rf : Resolved doc f rf) (rt : RPos)
    (r : List Int × Int) (h : rrTargets S rf rt = some r) : ∀ x ∈ r.1, TargetOk S rf rt x := by
  unfold rrTargets at h
  refine rrWalk_ok S Rf rt rf.depth _ _ r (Nat.le_refl _) (fun j h1 h2 => by omega) ?_ h
  intro x hx
  rcases List.mem_cons.mp hx with hx | hx
  · exact .inl hx
  · obtain ⟨d, hd, rfl⟩ := List.mem_map.mp hx
    obtain ⟨hm, h1⟩ := popZero_mem _ (coveredLoop_pairwise S rf rt _) d hd
    exact .inr (.inl ⟨d, rfl, h1, hm⟩)

/-! ### the ranges handed to `replace` -/

/-- a `(from', to')` pair `replace_range` can hand to `replace`: the requested pair; the pair
    widened to the node at a covered depth; or `from` moved in front of the open tokens of its
    ancestors from depth `d` on (none of them defining / definingAsContext / isolating), `to` kept -/
def Widened (S : Schema) (rf rt : RPos) (f t a b : Nat) : Prop :=
  (a = f ∧ b = t) ∨
  (∃ d ∈ coveredDepthsR S rf rt, 1 ≤ d ∧ a = rf.start d - 1 ∧ b = rt.end_ d + 1) ∨
  (∃ d, 1 ≤ d ∧ d ≤ rf.depth ∧ f = rf.start d + (rf.depth - d) ∧
    (∀ j, d ≤ j → j ≤ rf.depth → S.contextBreak (rf.node j) = false) ∧ a = rf.start d - 1 ∧ b = t)

theorem rrTarget_widened (S : Schema) {doc : Node} {f t : Nat} {rf rt : RPos}
    (Rf : Resolved doc f rf) (Rt : Resolved doc t rt) (ins : Node) (td : Int) (a b : Nat)
    (hok : TargetOk S rf rt td) (h : rrTarget S rf rt t ins td = some (some (a, b))) :
    Widened S rf rt f t a b := by
  unfold rrTarget at h
  split at h
  · simp at h
  · simp only at h
    split at h
    · simp at h
    · simp at h
    · split at h
      · rename_i a' b' ha hb
        simp only [Option.some.injEq, Prod.mk.injEq] at h
        obtain ⟨rfl, rfl⟩ := h
        rcases hok with rfl | ⟨d, rfl, h1, hm⟩ | ⟨d, rfl, h1, hd, hpos, hnb⟩
        · have e : (-((rf.depth + 1 : Nat) : Int)).natAbs = rf.depth + 1 := by omega
          rw [e] at ha
          have hneg : ¬ (0 : Int) < -((rf.depth + 1 : Nat) : Int) := by omega
          simp only [hneg, decide_false, Bool.false_eq_true, if_false, Option.some.injEq] at hb
          simp only [RPos.before, show rf.depth + 1 ≠ 0 by omega, if_true, if_false, Option.some.injEq] at ha
          exact .inl ⟨by rw [← ha, Rf.pos_eq], hb.symm⟩
        · obtain ⟨hdf, hdt, _, _⟩ := covered_tight S Rf Rt d hm
          have e : ((d : Nat) : Int).natAbs = d := by omega
          rw [e] at ha hb
          have hpos : (0 : Int) < (d : Int) := by omega
          simp only [hpos, decide_true, if_true] at hb
          rw [Rf.before_eq d h1 hdf] at ha
          rw [Rt.after_eq d h1 hdt] at hb
          simp only [Option.some.injEq] at ha hb
          exact .inr (.inl ⟨d, hm, h1, ha.symm, hb.symm⟩)
        · have e : (-(d : Int)).natAbs = d := by omega
          rw [e] at ha
          have hneg : ¬ (0 : Int) < -(d : Int) := by omega
          simp only [hneg, decide_false, Bool.false_eq_true, if_false, Option.some.injEq] at hb
          rw [Rf.before_eq d h1 hd] at ha
          simp only [Option.some.injEq] at ha
          exact .inr (.inr ⟨d, h1, hd, by rw [← Rf.pos_eq, hpos], hnb, ha.symm, hb.symm⟩)
      · simp at h

theorem rrTryTargets_spec (S : Schema) (rf rt : RPos) (t : Nat) (ins : Node) :
    ∀ (l : List Int) (p : Nat × Nat), rrTryTargets S rf rt t ins l = some (some p) →
    ∃ td ∈ l, rrTarget S rf rt t ins td = some (some p)
  | [], p, h => by simp [rrTryTargets] at h
  | td :: rest, p, h => by
    unfold rrTryTargets at h
    split at h
    · simp at h
    · rename_i q hq
      simp only [Option.some.injEq] at h
      subst h
      exact ⟨td, List.mem_cons_self, hq⟩
    · obtain ⟨td', hm, hq⟩ := rrTryTargets_spec S rf rt t ins rest p h
      exact ⟨td', List.mem_cons_of_mem _ hm, hq⟩

theorem rotated_mem (tds : List Int) (pti : Nat) (x : Int) (h : x ∈ rotated tds pti) : x ∈ tds := by
  unfold rotated at h
  obtain ⟨i, _, hi⟩ := List.mem_filterMap.mp h
  exact List.mem_of_getElem? hi

theorem rrOpenLoop_spec (S : Schema) (rf rt : RPos) (t : Nat) (sl : Slice) (ln : List (Option Node)) (pd : Nat)
    (targets : List Int) : ∀ (n : Nat) (c : Nat × Nat × Slice),
    rrOpenLoop S rf rt t sl ln pd targets n = some (some c) →
    ∃ td ∈ targets, ∃ ins od, rrTarget S rf rt t ins td = some (some (c.1, c.2.1)) ∧
      closeSlice S sl od = .ok c.2.2.content ∧ c.2.2.openStart = od ∧ od ≤ sl.openStart ∧
      c.2.2.openEnd = sl.openEnd
  | 0, c, h => by simp [rrOpenLoop] at h
  | j + 1, c, h => by
    unfold rrOpenLoop at h
    simp only at h
    split at h
    · exact rrOpenLoop_spec S rf rt t sl ln pd targets j c h
    · rename_i ins _
      split at h
      · simp at h
      · rename_i a b htry
        split at h
        · rename_i cc hcl
          simp only [Option.some.injEq] at h
          subst h
          obtain ⟨td, hm, htd⟩ := rrTryTargets_spec S rf rt t ins targets _ htry
          have hlt : (j + pd + 1) % (sl.openStart + 1) < sl.openStart + 1 := Nat.mod_lt _ (by omega)
          exact ⟨td, hm, ins, _, htd, hcl, rfl, by omega, rfl⟩
        · simp at h
      · exact rrOpenLoop_spec S rf rt t sl ln pd targets j c h

theorem rrFallback_widened (S : Schema) {doc : Node} {f t : Nat} {rf rt : RPos}
    (Rf : Resolved doc f rf) (Rt : Resolved doc t rt) (sl : Slice) :
    ∀ (l : List Int) (a b : Nat) (cs : List (Nat × Nat × Slice)),
    (∀ x ∈ l, TargetOk S rf rt x) → Widened S rf rt f t a b →
    rrFallback S doc rf rt sl l a b = some cs →
    ∀ c ∈ cs, Widened S rf rt f t c.1 c.2.1 ∧ c.2.2 = sl
  | [], a, b, cs, _, _, h => by
    simp only [rrFallback, Option.some.injEq] at h
    subst h; simp
  | td :: rest, a, b, cs, hok, hw, h => by
    unfold rrFallback at h
    have hrest : ∀ x ∈ rest, TargetOk S rf rt x := fun x hx => hok x (List.mem_cons_of_mem _ hx)
    split at h
    · split at h
      · obtain ⟨cs', hcs', rfl⟩ := Option.map_eq_some_iff.mp h
        intro c hc
        rcases List.mem_cons.mp hc with rfl | hc
        · exact ⟨hw, rfl⟩
        · exact rrFallback_widened S Rf Rt sl rest a b cs' hrest hw hcs' c hc
      · rename_i hneg
        split at h
        · rename_i a' b' ha hb
          obtain ⟨cs', hcs', rfl⟩ := Option.map_eq_some_iff.mp h
          have hw' : Widened S rf rt f t a' b' := by
            rcases hok td List.mem_cons_self with rfl | ⟨d, rfl, h1, hm⟩ | ⟨d, rfl, h1, _⟩
            · omega
            · obtain ⟨hdf, hdt, _, _⟩ := covered_tight S Rf Rt d hm
              have e : ((d : Nat) : Int).toNat = d := by omega
              rw [e] at ha hb
              rw [Rf.before_eq d h1 hdf] at ha
              rw [Rt.after_eq d h1 hdt] at hb
              simp only [Option.some.injEq] at ha hb
              exact .inr (.inl ⟨d, hm, h1, ha.symm, hb.symm⟩)
            · omega
          intro c hc
          rcases List.mem_cons.mp hc with rfl | hc
          · exact ⟨hw, rfl⟩
          · exact rrFallback_widened S Rf Rt sl rest a' b' cs' hrest hw' hcs' c hc
        · simp at h
    · simp only [Option.some.injEq] at h
      subst h
      intro c hc
      simp only [List.mem_singleton] at hc
      subst hc
      exact ⟨hw, rfl⟩

/-- **what `replace_range` asks of the document** (after `fits_trivially` failed): every request
    is for a `Widened` range; its slice has the requested content text, the requested open end and
    an open start no deeper than the requested one -/
theorem replaceRangeR_calls (S : Schema) {doc : Node} {f t : Nat} {rf rt : RPos}
    (Rf : Resolved doc f rf) (Rt : Resolved doc t rt) (sl : Slice) (plan : RRPlan)
    (h : replaceRangeR S doc rf rt f t sl = some plan) :
    ∀ c ∈ plan.toCalls, Widened S rf rt f t c.1 c.2.1 ∧ ftext c.2.2.content = ftext sl.content ∧
      c.2.2.openStart ≤ sl.openStart ∧ c.2.2.openEnd = sl.openEnd ∧ (sl.wf = true → c.2.2.wf = true) := by
  unfold replaceRangeR at h
  split at h
  · simp at h
  · rename_i tds pt htg
    have hok := rrTargets_ok S Rf rt _ htg
    simp only at h
    split at h
    · simp at h
    · split at h
      · simp at h
      · split at h
        · simp at h
        · rename_i c hloop
          simp only [Option.some.injEq] at h
          subst h
          obtain ⟨td, hm, ins, od, htd, hcl, hos, hod, hoe⟩ := rrOpenLoop_spec S rf rt t sl _ _ _ _ c hloop
          intro c' hc'
          simp only [RRPlan.toCalls, List.mem_singleton] at hc'
          subst hc'
          refine ⟨rrTarget_widened S Rf Rt ins td _ _ (hok td (rotated_mem _ _ _ hm)) htd,
            closeSlice_text S sl od _ hcl, by omega, hoe, fun hwf => ?_⟩
          have := closeSlice_wf S sl od _ hwf hod hcl
          obtain ⟨a, b, ⟨cc, os', oe'⟩⟩ := c'
          simp only at hos hoe this ⊢
          subst hos hoe
          exact this
        · obtain ⟨cs, hcs, rfl⟩ := Option.map_eq_some_iff.mp h
          intro c hc
          obtain ⟨hw, he⟩ := rrFallback_widened S Rf Rt sl _ f t cs
            (fun x hx => hok x (List.mem_reverse.mp hx)) (.inl ⟨rfl, rfl⟩) hcs c hc
          exact ⟨hw, by rw [he], by rw [he]; exact Nat.le_refl _, by rw [he], fun hwf => by rw [he]; exact hwf⟩

/-! ### a widened range grows over structure only, and stays below an isolating ancestor -/

theorem Widened.structural (S : Schema) {doc : Node} {f t : Nat} {rf rt : RPos}
    (hf : doc.resolve f = some rf) (ht : doc.resolve t = some rt) {a b : Nat}
    (w : Widened S rf rt f t a b) :
    a ≤ f ∧ t ≤ b ∧ b ≤ fsize doc.kids ∧
    (∀ i, a ≤ i → i < f → ∃ ty at_ m, (ftoks doc.kids)[i]? = some (Tok.op ty at_ m)) ∧
    (∀ i, t ≤ i → i < b → (ftoks doc.kids)[i]? = some Tok.cl) := by
  have Rf := resolve_resolved hf
  have Rt := resolve_resolved ht
  rcases w with ⟨rfl, rfl⟩ | ⟨d, hm, h1, rfl, rfl⟩ | ⟨d, h1, hdf, hfd, _, rfl, rfl⟩
  · exact ⟨Nat.le_refl _, Nat.le_refl _, Rt.le, fun i h1 h2 => by omega, fun i h1 h2 => by omega⟩
  · obtain ⟨hdf, hdt, hfd, htd⟩ := covered_tight S Rf Rt d hm
    refine ⟨by omega, by omega, (Rt.end_le_size d hdt).2 h1,
      fun i h1' h2 => Rf.open_run_before hf d h1 hdf hfd i h1' h2,
      fun i h1' h2 => Rt.close_run_after ht d h1 hdt htd i h1' h2⟩
  · exact ⟨by omega, Nat.le_refl _, Rt.le, fun i h1' h2 => Rf.open_run_before hf d h1 hdf hfd i h1' h2,
      fun i h1' h2 => by omega⟩

theorem contextBreak_of_isolating (S : Schema) (n : Node) (h : S.isolating n = true) :
    S.contextBreak n = true := by
  simp only [Schema.isolating] at h
  simp [Schema.contextBreak, h]

theorem Widened.inside_isolating (S : Schema) {doc : Node} {f t : Nat} {rf rt : RPos}
    (hf : doc.resolve f = some rf) (ht : doc.resolve t = some rt) {a b : Nat}
    (w : Widened S rf rt f t a b)
    (k : Nat) (hkf : k ≤ rf.depth) (hkt : k ≤ rt.depth)
    (hiso : S.isolating (rf.node k) = true ∨ S.isolating (rt.node k) = true)
    (hsame : rf.start k = rt.start k) :
    rf.start k ≤ a ∧ a ≤ f ∧ t ≤ b ∧ b ≤ rf.end_ k := by
  have Rf := resolve_resolved hf
  have Rt := resolve_resolved ht
  have pf := Rf.pos_in k hkf
  have pt := Rt.pos_in k hkt
  obtain ⟨hn, _, he, _⟩ := same_ancestors Rf Rt k (rf.start k) hkf hkt (Nat.le_refl _) (by omega)
    (by omega) (by omega) k (Nat.le_refl _)
  have hisof : S.isolating (rf.node k) = true := by
    rcases hiso with h | h
    · exact h
    · rw [hn]; exact h
  rcases w with ⟨rfl, rfl⟩ | ⟨d, hm, h1, rfl, rfl⟩ | ⟨d, h1, hdf, hfd, hnb, rfl, rfl⟩
  · omega
  · obtain ⟨hdf, hdt, hfd, htd⟩ := covered_tight S Rf Rt d hm
    have hkd : k < d := by
      obtain ⟨_, _, h3⟩ := coveredLoop_mem S rf rt _ d hm
      rcases Nat.lt_or_ge k d with hlt | hge
      · exact hlt
      · have hb := h3 k hge (by omega)
        rw [coveredBreak_of_isolating S rf rt k hiso] at hb
        exact absurd hb (by simp)
    have nf := Rf.nestW k d (by omega) hdf
    have nt := Rt.nestW k d (by omega) hdt
    omega
  · have hkd : k < d := by
      rcases Nat.lt_or_ge k d with hlt | hge
      · exact hlt
      · have := hnb k hge hkf
        rw [contextBreak_of_isolating S _ hisof] at this
        exact absurd this (by simp)
    have nf := Rf.nestW k d (by omega) hdf
    omega

/-! ### insert_point moves over structure only -/

theorem insertLoopStart_tight (S : Schema) {doc : Node} {pos : Nat} {r : RPos} (R : Resolved doc pos r)
    (ty : TypeId) : ∀ (n p : Nat), n ≤ r.depth → pos = r.start n + (r.depth - n) →
    insertLoopStart S r ty n = some (some (some p)) →
    ∃ d, 1 ≤ d ∧ d ≤ r.depth ∧ pos = r.start d + (r.depth - d) ∧ p = r.start d - 1
  | 0, p, _, _, h => by simp [insertLoopStart] at h
  | d + 1, p, hn, ht, h => by
    unfold insertLoopStart at h
    simp only at h
    split at h
    · simp at h
    · split at h
      · simp at h
      · rename_i p' hp'
        simp only [Option.some.injEq] at h
        subst h
        rw [R.before_eq (d + 1) (by omega) hn] at hp'
        simp only [Option.some.injEq] at hp'
        exact ⟨d + 1, by omega, hn, ht, hp'.symm⟩
    · split at h
      · simp at h
      · rename_i hidx
        have E := R.entry d (by omega)
        have hs := Resolved.start_succ r d
        have h0 : r.index d = 0 := by omega
        have hp : (r.entry d).pos = r.start d := by
          have := E.pos_eq
          simp only [RPos.index] at h0
          rw [h0] at this
          simpa [fsize] using this
        exact insertLoopStart_tight S R ty d p (by omega) (by omega) h

theorem insertLoopEnd_tight (S : Schema) {doc : Node} {pos : Nat} {r : RPos} (R : Resolved doc pos r)
    (ty : TypeId) : ∀ (n p : Nat), n ≤ r.depth → r.end_ n = pos + (r.depth - n) →
    insertLoopEnd S r ty n = some (some (some p)) →
    ∃ d, 1 ≤ d ∧ d ≤ r.depth ∧ r.end_ d = pos + (r.depth - d) ∧ p = r.end_ d + 1
  | 0, p, _, _, h => by simp [insertLoopEnd] at h
  | d + 1, p, hn, ht, h => by
    unfold insertLoopEnd at h
    simp only at h
    split at h
    · simp at h
    · split at h
      · simp at h
      · rename_i p' hp'
        simp only [Option.some.injEq] at h
        subst h
        rw [R.after_eq (d + 1) (by omega) hn] at hp'
        simp only [Option.some.injEq] at hp'
        exact ⟨d + 1, by omega, hn, ht, hp'.symm⟩
    · split at h
      · simp at h
      · rename_i hidx
        have E := R.entry d (by omega)
        obtain ⟨hc, hsz⟩ := R.chain d (by omega)
        have hs := Resolved.start_succ r d
        have hia : r.indexAfter d = r.index d + 1 := by
          simp [RPos.indexAfter, show d ≠ r.depth by omega]
        have hlt : r.index d < (r.node d).kids.length := by
          rcases Nat.lt_or_ge (r.index d) (r.node d).kids.length with c | c
          · exact c
          · rw [List.getElem?_eq_none c] at hc; simp at hc
        have htk : (r.node d).kids.take (r.index d + 1) = (r.node d).kids :=
          List.take_of_length_le (by omega)
        have hsum := fsize_take_succ _ _ _ hc
        rw [htk] at hsum
        have hp := E.pos_eq
        simp only [RPos.index, RPos.node] at hsum hp hsz
        have he1 : r.end_ d = r.start d + fsize (r.node d).kids := rfl
        have he2 : r.end_ (d + 1) = r.start (d + 1) + fsize (r.node (d + 1)).kids := rfl
        simp only [RPos.node] at he1 he2
        exact insertLoopEnd_tight S R ty d p (by omega) (by omega) h

/-- **`insert_point` moves the position over structure only**: its answer `p` is the position
    itself, or lies in front of it with nothing but open tokens between them, or behind it with
    nothing but close tokens between them -/
theorem insertPoint_structural (S : Schema) (doc : Node) (pos : Nat) (ty : TypeId) (p : Nat)
    (h : insertPoint S doc pos ty = some (some p)) :
    (p ≤ pos ∧ ∀ i, p ≤ i → i < pos → ∃ t a m, (ftoks doc.kids)[i]? = some (Tok.op t a m)) ∨
    (pos ≤ p ∧ p ≤ fsize doc.kids ∧ ∀ i, pos ≤ i → i < p → (ftoks doc.kids)[i]? = some Tok.cl) := by
  unfold insertPoint at h
  cases hr : doc.resolve pos with
  | none => simp [hr] at h
  | some r =>
    simp only [hr] at h
    have R := resolve_resolved hr
    have pin := R.pos_in r.depth (Nat.le_refl _)
    have hpe := R.pos_eq
    unfold insertPointR at h
    split at h
    · simp at h
    · simp only [Option.some.injEq] at h
      rw [hpe] at h
      subst h
      exact .inl ⟨Nat.le_refl _, fun i h1 h2 => by omega⟩
    · simp only at h
      split at h
      · simp at h
      · rename_i res hfirst
        simp only [Option.some.injEq] at h
        subst h
        split at hfirst
        · rename_i hpo
          simp only [RPos.parentOffset] at hpo
          obtain ⟨d, h1, hd, htight, rfl⟩ := insertLoopStart_tight S R ty r.depth p (Nat.le_refl _)
            (by omega) hfirst
          exact .inl ⟨by omega, fun i hi1 hi2 => R.open_run_before hr d h1 hd htight i hi1 hi2⟩
        · simp at hfirst
      · split at h
        · rename_i hpo
          simp only [RPos.parentOffset] at hpo
          split at h
          · simp at h
          · rename_i res hend
            simp only [Option.some.injEq] at h
            subst h
            have he : r.end_ r.depth = r.start r.depth + fsize (r.node r.depth).kids := rfl
            simp only [RPos.parent] at hpo
            obtain ⟨d, h1, hd, htight, rfl⟩ := insertLoopEnd_tight S R ty r.depth p (Nat.le_refl _)
              (by omega) hend
            exact .inr ⟨by omega, (R.end_le_size d hd).2 h1,
              fun i hi1 hi2 => R.close_run_after hr d h1 hd htight i hi1 hi2⟩
          · simp at h
        · simp at h

end PM
