/-
  Proofs/PlacementNoInternal.lean — the placement core of the HTML importer (PM/FromDom.lean) never dies with
  an internal error (IndexError / AttributeError / RecursionError in the real code) when the schema's automata
  are well formed and fillings never fail (`fillOkB`, decidable, evaluated on every schema of the tie).
  What remains possible is a ValueError (a required attribute is missing).
-/
import PM.FromDom
import Proofs.Fill
import Proofs.Placement
namespace PM.FromDom

/-- a result that is not an internal error, and satisfies `Q` when it is a value -/
def Safe {α : Type} (Q : α → Prop) : Res α → Prop
  | .ok a => Q a
  | .error e => e ≠ .internal

theorem Safe.bind {α β : Type} {Q : α → Prop} {R : β → Prop} {r : Res α} {k : α → Res β} :
    Safe Q r → (∀ a, Q a → Safe R (k a)) →
    Safe R (match r with
      | .error e => .error e
      | .ok a => k a) := by
  intro hr hk
  cases r with
  | error e => exact hr
  | ok a => exact hk a hr

theorem Safe.mono {α : Type} {Q R : α → Prop} {r : Res α} (h : ∀ a, Q a → R a) (hr : Safe Q r) : Safe R r := by
  cases r with
  | error e => exact hr
  | ok a => exact h a hr

theorem Safe.map_pair {Q : PState → Prop} {r : Res PState} (b : Bool) (h : Safe Q r) :
    Safe (fun (p : PState × Bool) => Q p.1) (Except.map (fun s => (s, b)) r) := by
  cases r with
  | error e => exact h
  | ok a => exact h

structure SchemaOk (S : Schema) : Prop where
  det : Det S
  top : S.top < S.nodes.size
  start : ∀ t, t < S.nodes.size → 0 < (S.dfa t).size
  edge : ∀ t q e, e ∈ (S.dfa t).edgesOf q → e.2 < (S.dfa t).size ∧ e.1 < S.nodes.size
  fill : ∀ t q, q < (S.dfa t).size → (fillBefore (S.dfa t) S.generatable q [] true).isSome = true
  create : ∀ t, t < S.nodes.size → S.generatable t = true → ∃ n, createAndFill S (S.nodes.size + 1) t = .ok n

theorem dfa_default (S : Schema) (t : TypeId) (h : ¬ t < S.nodes.size) : S.dfa t = #[] := by
  simp only [Schema.dfa, Schema.nodeType]
  rw [getElem!_neg S.nodes t h]
  rfl

theorem edgesOf_empty (q : Nat) : Dfa.edgesOf #[] q = [] := by simp [Dfa.edgesOf]

theorem edgesOf_ge (d : Dfa) (q : Nat) (h : ¬ q < d.size) : d.edgesOf q = [] := by
  simp only [Dfa.edgesOf]
  rw [Array.getElem?_eq_none (Nat.le_of_not_lt h)]

theorem schemaOk_of_B (S : Schema) (hdet : detB S = true) (h : fillOkB S = true) : SchemaOk S := by
  simp only [fillOkB, Bool.and_eq_true, decide_eq_true_eq, List.all_eq_true, List.mem_range, Bool.or_eq_true,
    Bool.not_eq_eq_eq_not, Bool.not_true] at h
  obtain ⟨htop, hall⟩ := h
  refine ⟨det_of_detB S hdet, htop, fun t ht => (hall t ht).1.1, ?_, fun t q hq => ?_, fun t ht hg => ?_⟩
  · intro t q e he
    by_cases ht : t < S.nodes.size
    · by_cases hq : q < (S.dfa t).size
      · exact ((hall t ht).2 q hq).2 e he
      · rw [edgesOf_ge _ _ hq] at he; cases he
    · rw [dfa_default S t ht, edgesOf_empty] at he; cases he
  · by_cases ht : t < S.nodes.size
    · exact ((hall t ht).2 q hq).1
    · rw [dfa_default S t ht] at hq; simp at hq
  · have := (hall t ht).1.2
    rcases this with h1 | h1
    · rw [h1] at hg; cases hg
    · cases hc : createAndFill S (S.nodes.size + 1) t with
      | ok n => exact ⟨n, rfl⟩
      | error e => simp [hc] at h1

/-! ### fillings -/

theorem mapRes_ok {α β : Type} (f : α → Res β) : ∀ (l : List α), (∀ a ∈ l, ∃ b, f a = .ok b) → ∃ bs, mapRes f l = .ok bs
  | [], _ => ⟨[], rfl⟩
  | a :: as, h => by
    obtain ⟨b, hb⟩ := h a (by simp)
    obtain ⟨bs, hbs⟩ := mapRes_ok f as (fun x hx => h x (by simp [hx]))
    exact ⟨b :: bs, by simp [mapRes, hb, hbs]⟩

theorem run_labels (d : Dfa) : ∀ (l : List TypeId) (q f : Nat), d.run q l = some f →
    ∀ t ∈ l, ∃ q1 e, e ∈ d.edgesOf q1 ∧ e.1 = t
  | [], _, _, _, _, ht => by cases ht
  | x :: xs, q, f, h, t, ht => by
    simp only [Dfa.run] at h
    cases hm : d.matchType q x with
    | none => simp [hm] at h
    | some q' =>
      simp only [hm] at h
      rcases List.mem_cons.1 ht with rfl | ht
      · simp only [Dfa.matchType, Option.map_eq_some_iff] at hm
        obtain ⟨e, he, _⟩ := hm
        refine ⟨q, e, List.mem_of_find?_eq_some he, ?_⟩
        have := List.find?_some he
        simpa using this
      · exact run_labels d xs q' f h t ht

/-- `fill_before` at a state of a node type's automaton never makes the caller crash: it answers `None`, or
    fillers that can all be created -/
theorem fillNodes_ok (S : Schema) (G : SchemaOk S) (t : TypeId) (q : Nat) (after : List TypeId) (toEnd : Bool) :
    ∃ r, fillNodes S (S.dfa t) q after toEnd = .ok r ∧
      (r.isSome = (fillBefore (S.dfa t) S.generatable q after toEnd).isSome) := by
  unfold fillNodes
  cases hf : fillBefore (S.dfa t) S.generatable q after toEnd with
  | none => exact ⟨none, rfl, rfl⟩
  | some tys =>
    have hfill := fillBefore_sound_aux (S.dfa t) S.generatable q after toEnd (G.det t) tys hf
    simp only [isFill, Bool.and_eq_true, List.all_eq_true] at hfill
    obtain ⟨hgen, hrun⟩ := hfill
    cases hr : (S.dfa t).run q (tys ++ after) with
    | none => simp [hr] at hrun
    | some f =>
      have hlab := run_labels (S.dfa t) _ q f hr
      obtain ⟨bs, hbs⟩ := mapRes_ok (createAndFill S (S.nodes.size + 1)) tys (by
        intro a ha
        obtain ⟨q1, e, he, rfl⟩ := hlab a (List.mem_append_left _ ha)
        exact G.create e.1 (G.edge t q1 e he).2 (hgen e.1 ha))
      exact ⟨some bs, by simp [hbs, Except.map], rfl⟩

/-! ### the invariant -/

/-- a context's type is a node type of the schema and its match a state of that type's automaton -/
def CtxOk (S : Schema) (cx : NodeCtx) : Prop :=
  ∀ t, cx.ty = some t → t < S.nodes.size ∧ ∀ q, cx.mtch = some q → q < (S.dfa t).size

/-- the stack of contexts: all but the root have a type, all are `CtxOk` -/
def StackOk (S : Schema) (nodes : List NodeCtx) : Prop :=
  (∀ i cx, nodes[i]? = some cx → 0 < i → cx.ty.isSome = true) ∧ ∀ cx ∈ nodes, CtxOk S cx

structure CInv (S : Schema) (st : PState) : Prop where
  lt : st.open_ < st.nodes.length
  stack : StackOk S st.nodes

theorem ctxOk_of_same {S : Schema} {a b : NodeCtx} (h : Same a b) (hb : CtxOk S b) : CtxOk S a := by
  intro t ht
  rw [h.1] at ht
  have := hb t ht
  rw [h.2.1]
  exact this

theorem computeAttrs_err' (decls : List AttrDecl) (given : Attrs) (e : Err) (h : computeAttrs decls given = .error e) :
    e = .valueError := by
  induction decls generalizing e with
  | nil => simp [computeAttrs] at h
  | cons d ds ih =>
    simp only [computeAttrs, List.foldr_cons] at h ih
    split at h
    · rename_i e' he'
      simp only [Except.error.injEq] at h; subst h
      exact ih _ he'
    · split at h
      · split at h
        · cases h
        · split at h
          · cases h
          · simp only [Except.error.injEq] at h; exact h.symm
      · split at h
        · cases h
        · simp only [Except.error.injEq] at h; exact h.symm

theorem finishContent_safe (S : Schema) (G : SchemaOk S) (cx : NodeCtx) (oe : Bool) (hc : CtxOk S cx) :
    Safe (fun _ => True) (cx.finishContent S oe) := by
  unfold NodeCtx.finishContent
  dsimp only
  cases oe with
  | true => trivial
  | false =>
    cases hm : cx.mtch with
    | none => trivial
    | some q =>
      cases hty : cx.ty with
      | none => trivial
      | some t =>
        dsimp only
        obtain ⟨_, hq⟩ := hc t hty
        obtain ⟨r, hr, hsome⟩ := fillNodes_ok S G t q [] true
        rw [hr]
        have := G.fill t q (hq q hm)
        rw [← hsome] at this
        cases r with
        | none => cases this
        | some fill => trivial

theorem finishNode_safe (S : Schema) (G : SchemaOk S) (cx : NodeCtx) (oe : Bool) (t : TypeId) (hc : CtxOk S cx) :
    Safe (fun _ => True) (cx.finishNode S oe t) := by
  unfold NodeCtx.finishNode
  have := finishContent_safe S G cx oe hc
  cases hf : cx.finishContent S oe with
  | error e => rw [hf] at this; exact this
  | ok content =>
    dsimp only
    cases ha : computeAttrs (S.nodeType t).attrs (cx.attrs.getD []) with
    | error e => rw [computeAttrs_err' _ _ _ ha]; simp [Safe]
    | ok a => trivial

theorem stackOk_dropLast {S : Schema} {nodes : List NodeCtx} (h : StackOk S nodes) : StackOk S nodes.dropLast := by
  refine ⟨fun i cx hi hpos => h.1 i cx ?_ hpos, fun cx hcx => h.2 cx (List.dropLast_subset _ hcx)⟩
  rw [List.getElem?_dropLast] at hi
  split at hi
  · exact hi
  · cases hi

theorem stackOk_appendToLast {S : Schema} {nodes : List NodeCtx} (n : Node) (h : StackOk S nodes) :
    StackOk S (appendToLast nodes n) ∧ (appendToLast nodes n).length = nodes.length := by
  unfold appendToLast
  cases hl : nodes.getLast? with
  | none => exact ⟨h, rfl⟩
  | some cx =>
    dsimp only
    have hnodes := eq_dropLast_append_getLast nodes cx hl
    have hcx : cx ∈ nodes := List.mem_of_getLast? hl
    constructor
    · constructor
      · intro i c hi hpos
        rw [List.getElem?_append] at hi
        split at hi
        · exact (stackOk_dropLast h).1 i c hi hpos
        · rename_i hge
          have : i - nodes.dropLast.length = 0 := by
            cases hsub : i - nodes.dropLast.length with
            | zero => rfl
            | succ k => rw [hsub] at hi; simp at hi
          rw [this] at hi
          simp only [List.getElem?_cons_zero, Option.some.injEq] at hi
          subst hi
          have hidx : nodes[i]? = some cx := by
            rw [hnodes, List.getElem?_append_right (by omega)]
            have : i - nodes.dropLast.length = 0 := this
            rw [this]; rfl
          exact h.1 i cx hidx hpos
      · intro c hc
        rcases List.mem_append.1 hc with hc | hc
        · exact (stackOk_dropLast h).2 c hc
        · simp only [List.mem_singleton] at hc
          subst hc
          exact fun t ht => h.2 cx hcx t ht
    · rw [List.length_append, List.length_dropLast]
      have : nodes.length ≠ 0 := by
        intro h0; rw [List.length_eq_zero_iff] at h0; subst h0; cases hcx
      simp; omega

theorem closeExtraLoop_safe (S : Schema) (G : SchemaOk S) (oe : Bool) : ∀ (k : Nat) (nodes : List NodeCtx),
    k + 1 ≤ nodes.length → StackOk S nodes →
    Safe (fun ns => StackOk S ns ∧ ns.length = nodes.length - k) (closeExtraLoop S oe k nodes)
  | 0, nodes, _, hs => by simpa [closeExtraLoop, Safe] using hs
  | k + 1, nodes, hlen, hs => by
    unfold closeExtraLoop
    cases hl : nodes.getLast? with
    | none =>
      rw [List.getLast?_eq_none_iff] at hl
      subst hl; simp at hlen
    | some cx =>
      dsimp only
      have hcx : cx ∈ nodes := List.mem_of_getLast? hl
      have hidx : nodes[nodes.length - 1]? = some cx := by
        rw [← List.getLast?_eq_getElem?]; exact hl
      cases hty : cx.ty with
      | none =>
        have := hs.1 (nodes.length - 1) cx hidx (by omega)
        rw [hty] at this; cases this
      | some t =>
        dsimp only
        have hfn := finishNode_safe S G cx oe t (hs.2 cx hcx)
        cases hf : cx.finishNode S oe t with
        | error e => rw [hf] at hfn; exact hfn
        | ok n =>
          dsimp only
          obtain ⟨h1, h2⟩ := stackOk_appendToLast n (stackOk_dropLast hs)
          have hdl : nodes.dropLast.length = nodes.length - 1 := List.length_dropLast
          have := closeExtraLoop_safe S G oe k (appendToLast nodes.dropLast n) (by omega) h1
          cases hr : closeExtraLoop S oe k (appendToLast nodes.dropLast n) with
          | error e => rw [hr] at this; exact this
          | ok ns =>
            rw [hr] at this
            exact ⟨this.1, by rw [this.2, h2, hdl]; omega⟩

theorem closeExtra_safe (S : Schema) (G : SchemaOk S) (st : PState) (oe : Bool) (hi : CInv S st) :
    Safe (fun st' => CInv S st' ∧ st'.nodes.length = st.open_ + 1 ∧ st'.open_ = st.open_ ∧
      st'.isOpen = st.isOpen ∧ st'.topOpen = st.topOpen ∧ st'.needsBlock = st.needsBlock) (st.closeExtra S oe) := by
  unfold PState.closeExtra
  have := closeExtraLoop_safe S G oe (st.nodes.length - 1 - st.open_) st.nodes (by have := hi.lt; omega) hi.stack
  cases hr : closeExtraLoop S oe (st.nodes.length - 1 - st.open_) st.nodes with
  | error e => rw [hr] at this; simpa [Except.map, Safe] using this
  | ok ns =>
    rw [hr] at this
    have hlt := hi.lt
    obtain ⟨h1, h2⟩ := this
    simp only [Except.map, Safe]
    refine ⟨⟨?_, h1⟩, ?_, trivial, trivial, trivial, trivial⟩
    · show st.open_ < ns.length
      omega
    · show ns.length = st.open_ + 1
      omega

/-! ### stack updates -/

theorem matchType_label (S : Schema) (G : SchemaOk S) (t : TypeId) (q x q' : Nat)
    (h : (S.dfa t).matchType q x = some q') : x < S.nodes.size ∧ q' < (S.dfa t).size := by
  simp only [Dfa.matchType, Option.map_eq_some_iff] at h
  obtain ⟨e, he, rfl⟩ := h
  have hmem := List.mem_of_find?_eq_some he
  have hx := List.find?_some he
  have := G.edge t q e hmem
  simp only [beq_iff_eq] at hx
  exact ⟨hx ▸ this.2, this.1⟩

theorem run_lt (S : Schema) (G : SchemaOk S) (t : TypeId) : ∀ (l : List TypeId) (q f : Nat),
    q < (S.dfa t).size → (S.dfa t).run q l = some f → f < (S.dfa t).size
  | [], q, f, hq, h => by simp only [Dfa.run, Option.some.injEq] at h; exact h ▸ hq
  | x :: xs, q, f, _, h => by
    simp only [Dfa.run] at h
    cases hm : (S.dfa t).matchType q x with
    | none => simp [hm] at h
    | some q' =>
      simp only [hm] at h
      exact run_lt S G t xs q' f (matchType_label S G t q x q' hm).2 h

theorem stackOk_set {S : Schema} {nodes : List NodeCtx} (i : Nat) (old cx : NodeCtx) (h : StackOk S nodes)
    (hold : nodes[i]? = some old) (hty : cx.ty = old.ty) (hok : CtxOk S cx) : StackOk S (nodes.set i cx) := by
  constructor
  · intro j c hj hpos
    rw [List.getElem?_set] at hj
    split at hj
    · rename_i hij
      split at hj
      · simp only [Option.some.injEq] at hj; subst hj; subst hij
        rw [hty]; exact h.1 i old hold hpos
      · cases hj
    · exact h.1 j c hj hpos
  · intro c hc
    rcases List.mem_or_eq_of_mem_set hc with hc | rfl
    · exact h.2 c hc
    · exact hok

theorem stackOk_snoc {S : Schema} {nodes : List NodeCtx} (cx : NodeCtx) (h : StackOk S nodes)
    (hty : cx.ty.isSome = true) (hok : CtxOk S cx) : StackOk S (nodes ++ [cx]) := by
  constructor
  · intro j c hj hpos
    rw [List.getElem?_append] at hj
    split at hj
    · exact h.1 j c hj hpos
    · cases hsub : j - nodes.length with
      | zero => rw [hsub] at hj; simp only [List.getElem?_cons_zero, Option.some.injEq] at hj; subst hj; exact hty
      | succ k => rw [hsub] at hj; simp at hj
  · intro c hc
    rcases List.mem_append.1 hc with hc | hc
    · exact h.2 c hc
    · simp only [List.mem_singleton] at hc; subst hc; exact hok

/-- the context after `top.match = top.match.match_type(type)` -/
theorem ctxOk_advance (S : Schema) (G : SchemaOk S) (top : NodeCtx) (ty : TypeId) (h : CtxOk S top) :
    CtxOk S (match top.mtch, top.ty with
      | some q, some t => { top with mtch := (S.dfa t).matchType q ty }
      | _, _ => top) ∧
    (match top.mtch, top.ty with
      | some q, some t => { top with mtch := (S.dfa t).matchType q ty }
      | _, _ => top).ty = top.ty := by
  cases hm : top.mtch with
  | none => exact ⟨h, rfl⟩
  | some q =>
    cases ht : top.ty with
    | none => exact ⟨h, ht⟩
    | some t =>
      refine ⟨?_, by simp only [ht]⟩
      intro t' ht'
      simp only [ht, Option.some.injEq] at ht'
      subst ht'
      refine ⟨(h t ht).1, fun q' hq' => ?_⟩
      simp only at hq'
      exact (matchType_label S G t q ty q' hq').2

theorem new_mtch (ty : TypeId) (attrs : Option Attrs) (marks : Marks) (pending : List TMark) (solid : Bool) (opts : Opts)
    (q : Nat) (h : (NodeCtx.new (some ty) attrs marks pending solid opts).mtch = some q) : q = 0 := by
  unfold NodeCtx.new at h
  simp only at h
  split at h
  · cases h
  · simp only [Option.some.injEq] at h; exact h.symm

theorem stackOk_push (S : Schema) (G : SchemaOk S) (nodes : List NodeCtx) (hs : StackOk S nodes) (ty : TypeId)
    (attrs : Option Attrs) (marks : Marks) (pending : List TMark) (solid : Bool) (opts : Opts) (uid : Nat)
    (hty : ty < S.nodes.size) :
    StackOk S (nodes ++ [{ NodeCtx.new (some ty) attrs marks pending solid opts with uid := uid }]) := by
  refine stackOk_snoc _ hs rfl ?_
  intro t ht
  have ht' : some ty = some t := ht
  simp only [Option.some.injEq] at ht'
  subst ht'
  refine ⟨hty, fun q hq => ?_⟩
  have := new_mtch ty attrs marks pending solid opts q hq
  subst this
  exact G.start ty hty

theorem enterInner_safe (S : Schema) (G : SchemaOk S) (wsPre : TypeId → Bool) (st : PState) (ty : TypeId)
    (attrs : Option Attrs) (solid : Bool) (pw : WS) (hi : CInv S st) (hty : ty < S.nodes.size) :
    Safe (CInv S) (st.enterInner S wsPre ty attrs solid pw) := by
  unfold PState.enterInner
  have h0 := closeExtra_safe S G st false hi
  cases hce : st.closeExtra S with
  | error e => rw [hce] at h0; exact h0
  | ok st1 =>
  rw [hce] at h0
  obtain ⟨h1, hlen, hopen, _⟩ := h0
  dsimp only
  cases htop : st1.nodes[st1.open_]? with
  | none =>
    have := h1.lt
    rw [List.getElem?_eq_none_iff] at htop
    omega
  | some top =>
    dsimp only
    have hap := applyPending_same S top ty
    have hok0 : CtxOk S (top.applyPending S ty) := ctxOk_of_same hap (h1.stack.2 top (List.mem_of_getElem? htop))
    obtain ⟨hok1, hty1⟩ := ctxOk_advance S G (top.applyPending S ty) ty hok0
    simp only [Safe]
    constructor
    · simp only [PState.setTop, List.length_append, List.length_set, List.length_singleton]
      have := h1.lt; omega
    · exact stackOk_push S G _ (stackOk_set st1.open_ top _ h1.stack htop (hty1.trans hap.1) hok1) ty attrs _ _ solid _ _ hty

theorem enterRoute_safe (S : Schema) (G : SchemaOk S) (wsPre : TypeId → Bool) : ∀ (route : List TypeId) (st : PState),
    CInv S st → (∀ w ∈ route, w < S.nodes.size) → Safe (CInv S) (enterRoute S wsPre route st)
  | [], st, hi, _ => hi
  | r :: rs, st, hi, hr => by
    unfold enterRoute
    have h0 := enterInner_safe S G wsPre st r none false .unset hi (hr r (by simp))
    cases he : st.enterInner S wsPre r none false .unset with
    | error e => rw [he] at h0; exact h0
    | ok st' =>
      rw [he] at h0
      exact enterRoute_safe S G wsPre rs st' h0 (fun w hw => hr w (by simp [hw]))

/-! ### find_wrapping / find_place -/

theorem chainInner_valid (S : Schema) (G : SchemaOk S) (target : TypeId) : ∀ (w : TypeId) (rest : List TypeId),
    w < S.nodes.size → chainInner S target (w :: rest) = true → ∀ x ∈ w :: rest, x < S.nodes.size
  | w, [], hw, _, x, hx => by simp only [List.mem_singleton] at hx; exact hx ▸ hw
  | w, w' :: rest, hw, h, x, hx => by
    simp only [chainInner, Bool.and_eq_true] at h
    rcases List.mem_cons.1 hx with rfl | hx
    · exact hw
    · cases hm : (S.dfa w).matchType 0 w' with
      | none => simp [hm] at h
      | some q =>
        exact chainInner_valid S G target w' rest (matchType_label S G w 0 w' q hm).1 h.2 x hx

theorem findWrapping_valid (S : Schema) (G : SchemaOk S) (t : TypeId) (q : Nat) (target : TypeId) (chain : List TypeId)
    (h : PM.findWrapping S (S.dfa t) q target = some chain) : ∀ w ∈ chain, w < S.nodes.size := by
  have hs := findWrapping_sound_aux S (S.dfa t) q target (fun w => G.det w 0) chain h
  simp only [isWrapChain, Bool.and_eq_true] at hs
  cases chain with
  | nil => intro w hw; cases hw
  | cons w rest =>
    simp only [Bool.and_eq_true] at hs
    cases hm : (S.dfa t).matchType q w with
    | none => simp [hm] at hs
    | some q' => exact chainInner_valid S G target w rest (matchType_label S G t q w q' hm).1 hs.2.2

theorem findWrapping_safe (S : Schema) (G : SchemaOk S) (cx : NodeCtx) (nodeTy : TypeId) (hc : CtxOk S cx) :
    Safe (fun (r : NodeCtx × Option (List TypeId)) => CtxOk S r.1 ∧ r.1.ty = cx.ty ∧ ∀ l, r.2 = some l → ∀ w ∈ l, w < S.nodes.size)
      (cx.findWrapping S nodeTy) := by
  unfold NodeCtx.findWrapping
  cases hm : cx.mtch with
  | some q =>
    cases ht : cx.ty with
    | some t => exact ⟨hc, ht, fun l hl => findWrapping_valid S G t q nodeTy l hl⟩
    | none => exact ⟨hc, ht, fun l hl => by cases hl⟩
  | none =>
    cases ht : cx.ty with
    | none => exact ⟨hc, ht, fun l hl w hw => by simp only [Option.some.injEq] at hl; subst hl; cases hw⟩
    | some t =>
      dsimp only
      obtain ⟨r, hr, _⟩ := fillNodes_ok S G t 0 [nodeTy] false
      rw [hr]
      have htv := (hc t ht).1
      have hnew : ∀ (c' : NodeCtx) (q : Nat), q < (S.dfa t).size → c'.ty = some t → c'.mtch = some q → CtxOk S c' := by
        intro c' q hq h1 h2 t' ht'
        rw [h1] at ht'
        simp only [Option.some.injEq] at ht'
        subst ht'
        refine ⟨htv, fun q' hq' => ?_⟩
        rw [h2] at hq'
        simp only [Option.some.injEq] at hq'
        subst hq'
        exact hq
      cases r with
      | some fill =>
        dsimp only
        cases hrun : (S.dfa t).run 0 (S.types fill) with
        | some q =>
          exact ⟨hnew _ q (run_lt S G t _ 0 q (G.start t htv) hrun) rfl rfl, rfl, fun l hl => findWrapping_valid S G t q nodeTy l hl⟩
        | none => exact ⟨hc, ht, fun l hl => by cases hl⟩
      | none =>
        dsimp only
        cases hw : PM.findWrapping S (S.dfa t) 0 nodeTy with
        | some wrap =>
          exact ⟨hnew _ 0 (G.start t htv) rfl rfl, rfl, fun l hl => by
            simp only [Option.some.injEq] at hl; subst hl
            exact findWrapping_valid S G t 0 nodeTy wrap hw⟩
        | none => exact ⟨hc, ht, fun l hl => by cases hl⟩

theorem ite_some_imp {α : Type} (b : Bool) (x y : Option α) (Q : α → Prop) (hx : ∀ l, x = some l → Q l) (hy : ∀ l, y = some l → Q l) :
    ∀ l, (if b = true then x else y) = some l → Q l := by
  cases b
  · simpa using hy
  · simpa using hx

theorem findPlaceLoop_safe (S : Schema) (G : SchemaOk S) (ty : TypeId) : ∀ (n : Nat) (nodes : List NodeCtx)
    (route : Option (List TypeId)) (sync : Option Nat), n ≤ nodes.length → StackOk S nodes →
    (∀ l, route = some l → ∀ w ∈ l, w < S.nodes.size) → (∀ k, sync = some k → k < nodes.length) →
    Safe (fun (r : List NodeCtx × Option (List TypeId) × Option Nat) =>
      StackOk S r.1 ∧ r.1.length = nodes.length ∧ (∀ l, r.2.1 = some l → ∀ w ∈ l, w < S.nodes.size) ∧
      (∀ k, r.2.2 = some k → k < nodes.length))
      (findPlaceLoop S ty n nodes route sync)
  | 0, nodes, route, sync, _, hs, hr, hk => ⟨hs, rfl, hr, hk⟩
  | d + 1, nodes, route, sync, hn, hs, hr, hk => by
    unfold findPlaceLoop
    cases hd : nodes[d]? with
    | none => rw [List.getElem?_eq_none_iff] at hd; omega
    | some cx =>
      dsimp only
      have hfw := findWrapping_safe S G cx ty (hs.2 cx (List.mem_of_getElem? hd))
      cases hf : cx.findWrapping S ty with
      | error e => rw [hf] at hfw; exact hfw
      | ok res =>
        obtain ⟨cx', found⟩ := res
        rw [hf] at hfw
        obtain ⟨hok', hty', hfound⟩ := hfw
        dsimp only at hok' hty' hfound ⊢
        have hs' : StackOk S (nodes.set d cx') := stackOk_set d cx cx' hs hd hty' hok'
        have hlen' : (nodes.set d cx').length = nodes.length := List.length_set
        have hdl : d < nodes.length := by omega
        have hroute' := fun (b : Bool) => ite_some_imp b found route (fun l => ∀ w ∈ l, w < S.nodes.size) hfound hr
        have hsync' := fun (b : Bool) => ite_some_imp b (some d) sync (fun k => k < nodes.length)
          (fun k hk' => by simp only [Option.some.injEq] at hk'; omega) hk
        split
        · refine ⟨hs', hlen', ?_, ?_⟩
          · exact hroute' _
          · exact hsync' _
        · refine Safe.mono ?_ (findPlaceLoop_safe S G ty d (nodes.set d cx') _ _ (by rw [hlen']; omega) hs' ?_ ?_)
          · intro r hr'
            exact ⟨hr'.1, by rw [hr'.2.1, hlen'], hr'.2.2.1, fun k hk' => by have := hr'.2.2.2 k hk'; rwa [hlen'] at this⟩
          · exact hroute' _
          · intro k hk'; rw [hlen']; exact hsync' _ k hk'

theorem findPlace_safe (S : Schema) (G : SchemaOk S) (wsPre : TypeId → Bool) (st : PState) (ty : TypeId) (hi : CInv S st) :
    Safe (fun (r : PState × Bool) => CInv S r.1) (st.findPlace S wsPre ty) := by
  unfold PState.findPlace
  have h0 := findPlaceLoop_safe S G ty (st.open_ + 1) st.nodes none none (by have := hi.lt; omega) hi.stack
    (fun l hl => by cases hl) (fun k hk => by cases hk)
  cases hl : findPlaceLoop S ty (st.open_ + 1) st.nodes none none with
  | error e => rw [hl] at h0; exact h0
  | ok r =>
    obtain ⟨nodes, route, sync⟩ := r
    rw [hl] at h0
    obtain ⟨hs, hlen, hroute, hsync⟩ := h0
    dsimp only at hs hlen hroute hsync ⊢
    cases route with
    | none => exact ⟨by show st.open_ < nodes.length; rw [hlen]; exact hi.lt, hs⟩
    | some route =>
      dsimp only
      cases sync with
      | none =>
        exact Safe.map_pair true (enterRoute_safe S G wsPre route _
          ⟨by show st.open_ < nodes.length; rw [hlen]; exact hi.lt, hs⟩ (hroute route rfl))
      | some d =>
        exact Safe.map_pair true (enterRoute_safe S G wsPre route _
          ⟨by show d < nodes.length; rw [hlen]; exact hsync d rfl, hs⟩ (hroute route rfl))

theorem textblock_valid (S : Schema) (b : TypeId) (h : textblockFromContext S = some b) : b < S.nodes.size := by
  unfold textblockFromContext at h
  have := List.mem_of_find?_eq_some h
  simpa using this

theorem insertNode_safe (S : Schema) (G : SchemaOk S) (wsPre : TypeId → Bool) (st : PState) (node : Node) (hi : CInv S st) :
    Safe (fun (r : PState × Bool) => CInv S r.1) (st.insertNode S wsPre node) := by
  unfold PState.insertNode
  dsimp only
  have hpre : Safe (CInv S) (if ((S.nodeType (S.tyOf node)).isInline && st.needsBlock &&
        ((st.nodes[st.open_]?.map (·.ty)).getD none).isNone) = true then
      match textblockFromContext S with
      | some b => st.enterInner S wsPre b none false .unset
      | none => .ok st
    else .ok st) := by
    split
    · cases hb : textblockFromContext S with
      | none => exact hi
      | some b => exact enterInner_safe S G wsPre st b none false .unset hi (textblock_valid S b hb)
    · exact hi
  generalize (if ((S.nodeType (S.tyOf node)).isInline && st.needsBlock &&
        ((st.nodes[st.open_]?.map (·.ty)).getD none).isNone) = true then
      match textblockFromContext S with
      | some b => st.enterInner S wsPre b none false .unset
      | none => .ok st
    else .ok st) = pre at hpre ⊢
  cases pre with
  | error e => exact hpre
  | ok st0 =>
    dsimp only
    have hfp := findPlace_safe S G wsPre st0 (S.tyOf node) hpre
    cases hf : st0.findPlace S wsPre (S.tyOf node) with
    | error e => rw [hf] at hfp; exact hfp
    | ok r =>
      obtain ⟨st1, b⟩ := r
      rw [hf] at hfp
      cases b with
      | false => exact hfp
      | true =>
        dsimp only
        have hce := closeExtra_safe S G st1 false hfp
        cases hc : st1.closeExtra S with
        | error e => rw [hc] at hce; exact hce
        | ok st2 =>
          rw [hc] at hce
          obtain ⟨h2, _⟩ := hce
          dsimp only
          cases htop : st2.nodes[st2.open_]? with
          | none => have := h2.lt; rw [List.getElem?_eq_none_iff] at htop; omega
          | some top =>
            dsimp only
            have hap := applyPending_same S top (S.tyOf node)
            have hok0 : CtxOk S (top.applyPending S (S.tyOf node)) :=
              ctxOk_of_same hap (h2.stack.2 top (List.mem_of_getElem? htop))
            obtain ⟨hok1, hty1⟩ := ctxOk_advance S G (top.applyPending S (S.tyOf node)) (S.tyOf node) hok0
            refine ⟨by simp only [PState.setTop, List.length_set]; exact h2.lt, ?_⟩
            refine stackOk_set st2.open_ top _ h2.stack htop (hty1.trans hap.1) ?_
            exact fun t ht => hok1 t ht

theorem enter_safe (S : Schema) (G : SchemaOk S) (wsPre : TypeId → Bool) (st : PState) (ty : TypeId) (attrs : Option Attrs)
    (pw : WS) (hi : CInv S st) (hty : ty < S.nodes.size) :
    Safe (fun (r : PState × Bool) => CInv S r.1) (st.enter S wsPre ty attrs pw) := by
  unfold PState.enter
  cases hc : computeAttrs (S.nodeType ty).attrs (attrs.getD []) with
  | error e => rw [computeAttrs_err' _ _ _ hc]; simp [Safe]
  | ok a =>
    dsimp only
    have hfp := findPlace_safe S G wsPre st ty hi
    cases hf : st.findPlace S wsPre ty with
    | error e => rw [hf] at hfp; exact hfp
    | ok r =>
      obtain ⟨st1, b⟩ := r
      rw [hf] at hfp
      cases b with
      | false => exact hfp
      | true =>
        dsimp only
        exact Safe.map_pair true (enterInner_safe S G wsPre st1 ty attrs true pw hfp hty)

theorem addPendingMark_safe (S : Schema) (st : PState) (m : TMark) (hi : CInv S st) :
    Safe (CInv S) (st.addPendingMark S m) := by
  unfold PState.addPendingMark
  cases htop : st.nodes[st.open_]? with
  | none => have := hi.lt; rw [List.getElem?_eq_none_iff] at htop; omega
  | some top =>
    dsimp only
    refine ⟨by simp only [PState.setTop, List.length_set]; exact hi.lt, ?_⟩
    refine stackOk_set st.open_ top _ hi.stack htop ?_ ?_
    · cases findSameMark m.2 top.pending <;> rfl
    · have hok := hi.stack.2 top (List.mem_of_getElem? htop)
      cases findSameMark m.2 top.pending <;> exact fun t ht => hok t ht

theorem removePendingLoop_safe (S : Schema) (m : TMark) (upto : Option Nat) : ∀ (n : Nat) (nodes : List NodeCtx),
    n ≤ nodes.length → StackOk S nodes →
    Safe (fun ns => StackOk S ns ∧ ns.length = nodes.length) (removePendingLoop S m upto n nodes)
  | 0, nodes, _, hs => ⟨hs, rfl⟩
  | d + 1, nodes, hn, hs => by
    unfold removePendingLoop
    cases hd : nodes[d]? with
    | none => rw [List.getElem?_eq_none_iff] at hd; omega
    | some level =>
      dsimp only
      have hsame := removePending_same S level m
      have hs' : StackOk S (nodes.set d (level.removePending S m)) :=
        stackOk_set d level _ hs hd hsame.1 (ctxOk_of_same hsame (hs.2 level (List.mem_of_getElem? hd)))
      split
      · exact ⟨hs', List.length_set⟩
      · refine Safe.mono ?_ (removePendingLoop_safe S m upto d _ (by rw [List.length_set]; omega) hs')
        intro ns h
        exact ⟨h.1, by rw [h.2, List.length_set]⟩

theorem removePendingMark_safe (S : Schema) (st : PState) (m : TMark) (upto : Option Nat) (hi : CInv S st) :
    Safe (CInv S) (st.removePendingMark S m upto) := by
  unfold PState.removePendingMark
  have := removePendingLoop_safe S m upto (st.open_ + 1) st.nodes (by have := hi.lt; omega) hi.stack
  cases hr : removePendingLoop S m upto (st.open_ + 1) st.nodes with
  | error e => rw [hr] at this; simpa [Except.map, Safe] using this
  | ok ns =>
    rw [hr] at this
    simp only [Except.map, Safe]
    exact ⟨by show st.open_ < ns.length; rw [this.2]; exact hi.lt, this.1⟩

theorem finish_safe (S : Schema) (G : SchemaOk S) (st : PState) (hi : CInv S st) :
    Safe (fun _ => True) (st.finish S) := by
  unfold PState.finish
  have h0 : CInv S ({ st with open_ := 0 } : PState) := ⟨by show 0 < st.nodes.length; have := hi.lt; omega, hi.stack⟩
  have hce := closeExtra_safe S G _ st.isOpen h0
  cases hc : ({ st with open_ := 0 } : PState).closeExtra S st.isOpen with
  | error e => rw [hc] at hce; exact hce
  | ok st1 =>
    rw [hc] at hce
    obtain ⟨h1, hlen, _⟩ := hce
    dsimp only
    cases hh : st1.nodes.head? with
    | none =>
      rw [List.head?_eq_none_iff] at hh
      rw [hh] at hlen; simp at hlen
    | some root =>
      dsimp only
      have hroot := h1.stack.2 root (List.mem_of_head? hh)
      cases hty : root.ty with
      | some t =>
        have := finishNode_safe S G root (st1.isOpen || st1.topOpen) t hroot
        cases hf : root.finishNode S (st1.isOpen || st1.topOpen) t with
        | error e => rw [hf] at this; simpa [hf, Except.map, Safe] using this
        | ok n => simp [hf, Except.map, Safe]
      | none =>
        have := finishContent_safe S G root (st1.isOpen || st1.topOpen) hroot
        cases hf : root.finishContent S (st1.isOpen || st1.topOpen) with
        | error e => rw [hf] at this; simpa [hf, Except.map, Safe] using this
        | ok n => simp [hf, Except.map, Safe]

/-- the calls into the core that keep its invariant: node types named by the caller exist, `open` is only
    ever lowered -/
def EventSafe (S : Schema) (st : PState) : Event → Prop
  | .enter ty _ _ => ty < S.nodes.size
  | .setOpen v => v ≤ st.open_
  | _ => True

/-- **no call into the placement core dies with an internal error**, and the invariant is kept -/
theorem step_safe (S : Schema) (G : SchemaOk S) (wsPre : TypeId → Bool) (st : PState) (e : Event) (hi : CInv S st)
    (he : EventSafe S st e) : Safe (fun (r : PState × Option Bool) => CInv S r.1) (st.step S wsPre e) := by
  cases e with
  | insertNode n =>
    have := insertNode_safe S G wsPre st n hi
    simp only [PState.step]
    cases h : st.insertNode S wsPre n with
    | error e => rw [h] at this; simpa [Except.map, Safe] using this
    | ok r => rw [h] at this; simpa [Except.map, Safe] using this
  | enter ty attrs pw =>
    have := enter_safe S G wsPre st ty attrs pw hi he
    simp only [PState.step]
    cases h : st.enter S wsPre ty attrs pw with
    | error e => rw [h] at this; simpa [Except.map, Safe] using this
    | ok r => rw [h] at this; simpa [Except.map, Safe] using this
  | findPlace n =>
    have := findPlace_safe S G wsPre st (S.tyOf n) hi
    simp only [PState.step]
    cases h : st.findPlace S wsPre (S.tyOf n) with
    | error e => rw [h] at this; simpa [Except.map, Safe] using this
    | ok r => rw [h] at this; simpa [Except.map, Safe] using this
  | addPending m =>
    have := addPendingMark_safe S st m hi
    simp only [PState.step]
    cases h : st.addPendingMark S m with
    | error e => rw [h] at this; simpa [Except.map, Safe] using this
    | ok r => rw [h] at this; simpa [Except.map, Safe] using this
  | removePending m upto =>
    have := removePendingMark_safe S st m upto hi
    simp only [PState.step]
    cases h : st.removePendingMark S m upto with
    | error e => rw [h] at this; simpa [Except.map, Safe] using this
    | ok r => rw [h] at this; simpa [Except.map, Safe] using this
  | sync to =>
    simp only [PState.step, PState.sync]
    cases to with
    | none => exact hi
    | some k =>
      dsimp only
      split
      · rename_i hk
        exact ⟨by show k < st.nodes.length; have := hi.lt; omega, hi.stack⟩
      · exact hi
  | setOpen v =>
    simp only [PState.step]
    exact ⟨by show v < st.nodes.length; have := hi.lt; have : v ≤ st.open_ := he; omega, hi.stack⟩
  | setNeedsBlock b =>
    simp only [PState.step]
    exact ⟨hi.lt, hi.stack⟩
  | closeExtra oe =>
    have := closeExtra_safe S G st oe hi
    simp only [PState.step]
    cases h : st.closeExtra S oe with
    | error e => rw [h] at this; simpa [Except.map, Safe] using this
    | ok r => rw [h] at this; simp only [Except.map, Safe]; exact this.1

theorem init_cinv (S : Schema) (G : SchemaOk S) (isOpen : Bool) (pw : WS) (topOpen : Bool) :
    CInv S (PState.init S isOpen pw topOpen) := by
  refine ⟨by simp [PState.init], ?_, ?_⟩
  · intro i cx hi hpos
    simp only [PState.init, List.getElem?_cons] at hi
    split at hi
    · omega
    · simp at hi
  · intro cx hcx
    simp only [PState.init, List.mem_singleton] at hcx
    subst hcx
    intro t ht
    cases isOpen with
    | true => simp [NodeCtx.new] at ht
    | false =>
      simp only [NodeCtx.new, Bool.false_eq_true, if_false, Option.some.injEq] at ht
      subst ht
      refine ⟨G.top, fun q hq => ?_⟩
      simp only [NodeCtx.new, Bool.false_eq_true, if_false, Option.isNone_some, Bool.or_false] at hq
      simp only [Option.some.injEq] at hq; subst hq; exact G.start _ G.top

/-! ### the only exceptions are ValueError and the internal ones -/

theorem mapRes_nf {α β : Type} (f : α → Res β) (hf : ∀ a e, f a = .error e → e ≠ .failed) :
    ∀ (l : List α) (e : Err), mapRes f l = .error e → e ≠ .failed
  | [], e, h => by simp [mapRes] at h
  | a :: as, e, h => by
    unfold mapRes at h
    split at h
    · rename_i e' he'; cases h; exact hf a _ he'
    · split at h
      · rename_i e' he'; cases h; exact mapRes_nf f hf as _ he'
      · cases h

theorem computeAttrs_nf (decls : List AttrDecl) (given : Attrs) (e : Err) (h : computeAttrs decls given = .error e) :
    e ≠ .failed := by rw [computeAttrs_err' _ _ _ h]; decide

theorem createAndFill_nf (S : Schema) : ∀ (fuel : Nat) (t : TypeId) (e : Err), createAndFill S fuel t = .error e → e ≠ .failed
  | 0, _, e, h => by simp only [createAndFill] at h; cases h; decide
  | fuel + 1, t, e, h => by
    unfold createAndFill at h
    split at h
    · rename_i e' he'; cases h; exact computeAttrs_nf _ _ _ he'
    · split at h
      · cases h; decide
      · split at h
        · rename_i e' he'; cases h; exact mapRes_nf _ (createAndFill_nf S fuel) _ _ he'
        · cases h

theorem fillNodes_nf (S : Schema) (d : Dfa) (q : Nat) (after : List TypeId) (toEnd : Bool) (e : Err)
    (h : fillNodes S d q after toEnd = .error e) : e ≠ .failed := by
  unfold fillNodes at h
  split at h
  · cases h
  · cases hm : mapRes (createAndFill S (S.nodes.size + 1)) ‹_› with
    | error e' => rw [hm] at h; simp only [Except.map] at h; cases h; exact mapRes_nf _ (createAndFill_nf S _) _ _ hm
    | ok v => rw [hm] at h; simp [Except.map] at h

theorem findWrapping_nf (S : Schema) (cx : NodeCtx) (ty : TypeId) (e : Err) (h : cx.findWrapping S ty = .error e) : e ≠ .failed := by
  unfold NodeCtx.findWrapping at h
  repeat' split at h
  all_goals first
    | (cases h; done)
    | (rename_i e' he'; cases h; exact fillNodes_nf _ _ _ _ _ _ he')

theorem finishContent_nf (S : Schema) (cx : NodeCtx) (oe : Bool) (e : Err) (h : cx.finishContent S oe = .error e) : e ≠ .failed := by
  unfold NodeCtx.finishContent at h
  dsimp only at h
  repeat' split at h
  all_goals first
    | (cases h; done)
    | (cases h; decide)
    | (rename_i e' he'; cases h; exact fillNodes_nf _ _ _ _ _ _ he')

theorem finishNode_nf (S : Schema) (cx : NodeCtx) (oe : Bool) (t : TypeId) (e : Err) (h : cx.finishNode S oe t = .error e) : e ≠ .failed := by
  unfold NodeCtx.finishNode at h
  repeat' split at h
  all_goals first
    | (cases h; done)
    | (rename_i e' he'; cases h; exact finishContent_nf _ _ _ _ he')
    | (rename_i e' he'; cases h; exact computeAttrs_nf _ _ _ he')

theorem closeExtraLoop_nf (S : Schema) (oe : Bool) : ∀ (k : Nat) (nodes : List NodeCtx) (e : Err),
    closeExtraLoop S oe k nodes = .error e → e ≠ .failed
  | 0, _, e, h => by simp [closeExtraLoop] at h
  | k + 1, nodes, e, h => by
    unfold closeExtraLoop at h
    repeat' split at h
    all_goals first
      | (cases h; done)
      | (cases h; decide)
      | (rename_i e' he'; cases h; exact finishNode_nf _ _ _ _ _ he')
      | exact closeExtraLoop_nf S oe k _ e h

theorem closeExtra_nf (S : Schema) (st : PState) (oe : Bool) (e : Err) (h : st.closeExtra S oe = .error e) : e ≠ .failed := by
  unfold PState.closeExtra at h
  cases hl : closeExtraLoop S oe (st.nodes.length - 1 - st.open_) st.nodes with
  | error e' => rw [hl] at h; simp only [Except.map] at h; cases h; exact closeExtraLoop_nf _ _ _ _ _ hl
  | ok v => rw [hl] at h; simp [Except.map] at h

theorem enterInner_nf (S : Schema) (wsPre : TypeId → Bool) (st : PState) (ty : TypeId) (attrs : Option Attrs) (solid : Bool)
    (pw : WS) (e : Err) (h : st.enterInner S wsPre ty attrs solid pw = .error e) : e ≠ .failed := by
  unfold PState.enterInner at h
  repeat' split at h
  all_goals first
    | (cases h; done)
    | (cases h; decide)
    | (rename_i e' he'; cases h; exact closeExtra_nf _ _ _ _ he')

theorem findPlaceLoop_nf (S : Schema) (ty : TypeId) : ∀ (n : Nat) (nodes : List NodeCtx) (route : Option (List TypeId))
    (sync : Option Nat) (e : Err), findPlaceLoop S ty n nodes route sync = .error e → e ≠ .failed
  | 0, _, _, _, e, h => by simp [findPlaceLoop] at h
  | d + 1, nodes, route, sync, e, h => by
    unfold findPlaceLoop at h
    split at h
    · cases h; decide
    · split at h
      · rename_i e' he'; cases h; exact findWrapping_nf _ _ _ _ he'
      · dsimp only at h
        split at h
        · cases h
        · exact findPlaceLoop_nf S ty d _ _ _ e h

theorem enterRoute_nf (S : Schema) (wsPre : TypeId → Bool) : ∀ (route : List TypeId) (st : PState) (e : Err),
    enterRoute S wsPre route st = .error e → e ≠ .failed
  | [], _, e, h => by simp [enterRoute] at h
  | r :: rs, st, e, h => by
    unfold enterRoute at h
    split at h
    · rename_i e' he'; cases h; exact enterInner_nf _ _ _ _ _ _ _ _ he'
    · exact enterRoute_nf S wsPre rs _ e h

theorem map_nf {α β : Type} (f : α → β) (r : Res α) (e : Err) (h : Except.map f r = .error e) : r = .error e := by
  cases r with
  | error e' => simpa [Except.map] using h
  | ok v => simp [Except.map] at h

theorem findPlace_nf (S : Schema) (wsPre : TypeId → Bool) (st : PState) (ty : TypeId) (e : Err)
    (h : st.findPlace S wsPre ty = .error e) : e ≠ .failed := by
  unfold PState.findPlace at h
  split at h
  · rename_i e' he'; cases h; exact findPlaceLoop_nf _ _ _ _ _ _ _ he'
  · dsimp only at h
    split at h
    · cases h
    · exact enterRoute_nf _ _ _ _ _ (map_nf _ _ _ h)

theorem insertNode_nf (S : Schema) (wsPre : TypeId → Bool) (st : PState) (node : Node) (e : Err)
    (h : st.insertNode S wsPre node = .error e) : e ≠ .failed := by
  unfold PState.insertNode at h
  dsimp only at h
  split at h
  · rename_i e' he'
    cases h
    split at he'
    · split at he'
      · exact enterInner_nf _ _ _ _ _ _ _ _ he'
      · cases he'
    · cases he'
  · split at h
    · rename_i e' he'; cases h; exact findPlace_nf _ _ _ _ _ he'
    · cases h
    · split at h
      · rename_i e' he'; cases h; exact closeExtra_nf _ _ _ _ he'
      · split at h
        · cases h; decide
        · cases h

theorem enter_nf (S : Schema) (wsPre : TypeId → Bool) (st : PState) (ty : TypeId) (attrs : Option Attrs) (pw : WS) (e : Err)
    (h : st.enter S wsPre ty attrs pw = .error e) : e ≠ .failed := by
  unfold PState.enter at h
  split at h
  · rename_i e' he'; cases h; exact computeAttrs_nf _ _ _ he'
  · split at h
    · rename_i e' he'; cases h; exact findPlace_nf _ _ _ _ _ he'
    · cases h
    · exact enterInner_nf _ _ _ _ _ _ _ _ (map_nf _ _ _ h)

theorem addPendingMark_nf (S : Schema) (st : PState) (m : TMark) (e : Err) (h : st.addPendingMark S m = .error e) : e ≠ .failed := by
  unfold PState.addPendingMark at h
  split at h
  · cases h; decide
  · cases h

theorem removePendingLoop_nf (S : Schema) (m : TMark) (upto : Option Nat) : ∀ (n : Nat) (nodes : List NodeCtx) (e : Err),
    removePendingLoop S m upto n nodes = .error e → e ≠ .failed
  | 0, _, e, h => by simp [removePendingLoop] at h
  | d + 1, nodes, e, h => by
    unfold removePendingLoop at h
    split at h
    · cases h; decide
    · dsimp only at h
      split at h
      · cases h
      · exact removePendingLoop_nf S m upto d _ e h

theorem finish_nf (S : Schema) (st : PState) (e : Err) (h : st.finish S = .error e) : e ≠ .failed := by
  unfold PState.finish at h
  split at h
  · rename_i e' he'; cases h; exact closeExtra_nf _ _ _ _ he'
  · split at h
    · cases h; decide
    · split at h
      · exact finishNode_nf _ _ _ _ _ (map_nf _ _ _ h)
      · exact finishContent_nf _ _ _ _ (map_nf _ _ _ h)

/-- the placement core raises ValueError or dies with an internal error, nothing else -/
theorem step_nf (S : Schema) (wsPre : TypeId → Bool) (st : PState) (ev : Event) (e : Err)
    (h : st.step S wsPre ev = .error e) : e ≠ .failed := by
  cases ev with
  | insertNode n => exact insertNode_nf _ _ _ _ _ (map_nf _ _ _ h)
  | enter ty attrs pw => exact enter_nf _ _ _ _ _ _ _ (map_nf _ _ _ h)
  | findPlace n => exact findPlace_nf _ _ _ _ _ (map_nf _ _ _ h)
  | addPending m => exact addPendingMark_nf _ _ _ _ (map_nf _ _ _ h)
  | removePending m upto =>
    have := map_nf _ _ _ h
    unfold PState.removePendingMark at this
    exact removePendingLoop_nf _ _ _ _ _ _ (map_nf _ _ _ this)
  | sync to => simp [PState.step] at h
  | setOpen v => simp [PState.step] at h
  | setNeedsBlock b => simp [PState.step] at h
  | closeExtra oe => exact closeExtra_nf _ _ _ _ (map_nf _ _ _ h)

end PM.FromDom
