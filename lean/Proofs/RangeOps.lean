/- Proofs/RangeOps.lean — helper lemmas for the planning code of the replace family
   (model: PM/RangeOps.lean; theorems: Props/C11.lean, Props/C18.lean): which tokens sit between a
   position and the boundaries of its ancestors, and what the loops of `delete_range` return. -/
import PM.RangeOps
import PM.Monitor
import Proofs.Resolve
import Proofs.Range
import Proofs.Structure
import Proofs.Respects
namespace PM

/-! ### The tokens at the boundaries of the ancestors of a resolved position -/

namespace Resolved
variable {doc : Node} {pos : Nat} {r : RPos}

/-- the token just before the content of the depth-`j+1` ancestor is that node's open token -/
theorem tok_open (R : Resolved doc pos r) (hr : doc.resolve pos = some r) (j : Nat) (hj : j < r.depth) :
    ∃ ty a m, (ftoks doc.kids)[(r.entry j).pos]? = some (Tok.op ty a m) := by
  obtain ⟨ty, a, m, kids, hn⟩ := resolve_node_elem hr j hj
  have hw := R.window_node j hj
  rw [hn] at hw
  have := getElem?_of_window _ _ _ _ hw 0 (by simp [Node.toks])
  refine ⟨ty, a, m, ?_⟩
  simpa [Node.toks] using this

/-- the token at the end of the content of the depth-`j` ancestor (`j ≥ 1`) is a close token -/
theorem tok_close (R : Resolved doc pos r) (hr : doc.resolve pos = some r) (j : Nat) (h1 : 1 ≤ j)
    (hj : j ≤ r.depth) : (ftoks doc.kids)[r.end_ j]? = some Tok.cl := by
  obtain ⟨i, rfl⟩ : ∃ i, j = i + 1 := ⟨j - 1, by omega⟩
  obtain ⟨ty, a, m, kids, hn⟩ := resolve_node_elem hr i (by omega)
  have hw := R.window_node i (by omega)
  have he : r.end_ (i + 1) = (r.entry i).pos + (fsize kids + 1) := by
    rw [end_eq, start_succ, hn]; simp [Node.kids]; omega
  rw [hn] at hw
  have := getElem?_of_window _ _ _ _ hw (fsize kids + 1) (by simp [Node.toks, ftoks_length])
  rw [he, this]
  simp [Node.toks, ← ftoks_length]

/-- a position that is `depth - d` tokens after the start of its depth-`d` ancestor: the starts of
    the ancestors in between are consecutive -/
theorem tight_start (R : Resolved doc pos r) (d : Nat) (hd : d ≤ r.depth)
    (h : pos = r.start d + (r.depth - d)) (j : Nat) (hdj : d ≤ j) (hj : j ≤ r.depth) :
    r.start j = r.start d + (j - d) := by
  have n1 := R.nestW d j hdj hj
  have n2 := R.nestW j r.depth hj (Nat.le_refl _)
  have p := R.pos_in r.depth (Nat.le_refl _)
  omega

theorem tight_end (R : Resolved doc pos r) (d : Nat) (hd : d ≤ r.depth)
    (h : r.end_ d = pos + (r.depth - d)) (j : Nat) (hdj : d ≤ j) (hj : j ≤ r.depth) :
    r.end_ j = pos + (r.depth - j) := by
  have n1 := R.nestW d j hdj hj
  have n2 := R.nestW j r.depth hj (Nat.le_refl _)
  have p := R.pos_in r.depth (Nat.le_refl _)
  omega

/-- … so everything between the start of that ancestor and the position is open tokens -/
theorem open_run (R : Resolved doc pos r) (hr : doc.resolve pos = some r) (d : Nat) (hd : d ≤ r.depth)
    (h : pos = r.start d + (r.depth - d)) (i : Nat) (h1 : r.start d ≤ i) (h2 : i < pos) :
    ∃ ty a m, (ftoks doc.kids)[i]? = some (Tok.op ty a m) := by
  have ht := R.tight_start d hd h (d + (i - r.start d) + 1) (by omega) (by omega)
  have hs := start_succ r (d + (i - r.start d))
  have : (r.entry (d + (i - r.start d))).pos = i := by omega
  have := R.tok_open hr (d + (i - r.start d)) (by omega)
  rwa [‹(r.entry (d + (i - r.start d))).pos = i›] at this

/-- a position that is `depth - d` tokens before the end of its depth-`d` ancestor: everything
    between the position and that end is close tokens -/
theorem close_run (R : Resolved doc pos r) (hr : doc.resolve pos = some r) (d : Nat) (hd : d ≤ r.depth)
    (h : r.end_ d = pos + (r.depth - d)) (i : Nat) (h1 : pos ≤ i) (h2 : i < r.end_ d) :
    (ftoks doc.kids)[i]? = some Tok.cl := by
  have ht := R.tight_end d hd h (r.depth - (i - pos)) (by omega) (by omega)
  have := R.tok_close hr (r.depth - (i - pos)) (by omega) (by omega)
  rwa [show r.end_ (r.depth - (i - pos)) = i by omega] at this

/-- … including that ancestor's own open token when it is not the root -/
theorem open_run_before (R : Resolved doc pos r) (hr : doc.resolve pos = some r) (d : Nat) (h1d : 1 ≤ d)
    (hd : d ≤ r.depth) (h : pos = r.start d + (r.depth - d)) (i : Nat) (h1 : r.start d - 1 ≤ i)
    (h2 : i < pos) : ∃ ty a m, (ftoks doc.kids)[i]? = some (Tok.op ty a m) := by
  rcases Nat.lt_or_ge i (r.start d) with hlt | hge
  · have hs := start_succ r (d - 1)
    rw [show d - 1 + 1 = d by omega] at hs
    have := R.tok_open hr (d - 1) (by omega)
    rwa [show (r.entry (d - 1)).pos = i by omega] at this
  · exact R.open_run hr d hd h i hge h2

/-- … including that ancestor's own close token when it is not the root -/
theorem close_run_after (R : Resolved doc pos r) (hr : doc.resolve pos = some r) (d : Nat) (h1d : 1 ≤ d)
    (hd : d ≤ r.depth) (h : r.end_ d = pos + (r.depth - d)) (i : Nat) (h1 : pos ≤ i)
    (h2 : i < r.end_ d + 1) : (ftoks doc.kids)[i]? = some Tok.cl := by
  rcases Nat.lt_or_ge i (r.end_ d) with hlt | hge
  · exact R.close_run hr d hd h i h1 hlt
  · have := R.tok_close hr d h1d hd
    rwa [show r.end_ d = i by omega] at this

/-- every ancestor's content ends inside the document; a non-root ancestor's close token too -/
theorem end_le_size (R : Resolved doc pos r) (d : Nat) (hd : d ≤ r.depth) :
    r.end_ d ≤ fsize doc.kids ∧ (1 ≤ d → r.end_ d + 1 ≤ fsize doc.kids) := by
  have h0 : r.end_ 0 = fsize doc.kids := by rw [end_eq, R.node_zero]; simp [RPos.start]
  have n := R.nestW 0 d (Nat.zero_le _) hd
  omega

end Resolved

/-! ### From pointwise token facts to the monitor's `structuralOnly (between …)` -/

theorem structuralOnly_between_of (toks : List Tok) (a b : Nat) (hab : a ≤ b)
    (h : ∀ i, a ≤ i → i < b → ∀ tk, toks[i]? = some tk → tk.isContent = false) :
    structuralOnly (between toks a b) = true := by
  rw [between_of_le _ _ _ hab]
  simp only [structuralOnly, List.all_eq_true]
  intro tk htk
  obtain ⟨i, hi, he⟩ := List.getElem_of_mem htk
  have hi' := hi
  simp only [List.length_take, List.length_drop] at hi'
  have : toks[a + i]? = some tk := by
    rw [← he, List.getElem_take, List.getElem_drop]
    exact List.getElem?_eq_getElem (by omega)
  simp [h (a + i) (by omega) (by omega) tk this]

theorem isContent_op (ty : TypeId) (a : Attrs) (m : Marks) : (Tok.op ty a m).isContent = false := rfl
theorem isContent_cl : Tok.cl.isContent = false := rfl

/-- pointwise reading of the monitor's window test (for either order of the two positions) -/
theorem structuralOnly_between_iff (toks : List Tok) (a b : Nat) :
    structuralOnly (between toks a b) = true ↔
      ∀ i, min a b ≤ i → i < max a b → ∀ tk, toks[i]? = some tk → tk.isContent = false := by
  constructor
  · intro h i h1 h2 tk htk
    simp only [structuralOnly, between, List.all_eq_true] at h
    have hi : i < toks.length := by
      rcases Nat.lt_or_ge i toks.length with hl | hl
      · exact hl
      · simp [List.getElem?_eq_none hl] at htk
    have hm : tk ∈ (toks.drop (min a b)).take (max a b - min a b) := by
      rw [List.mem_iff_getElem?]
      refine ⟨i - min a b, ?_⟩
      rw [List.getElem?_take_of_lt (by omega), List.getElem?_drop,
        show min a b + (i - min a b) = i by omega, htk]
    simpa using h tk hm
  · intro h
    have := structuralOnly_between_of toks (min a b) (max a b) (by omega) (by
      intro i h1 h2 tk htk
      exact h i h1 h2 tk htk)
    simpa [between, Nat.min_eq_left (show min a b ≤ max a b by omega),
      Nat.max_eq_right (show min a b ≤ max a b by omega)] using this

theorem isSubseq_refl {α} [DecidableEq α] : ∀ l : List α, isSubseq l l = true
  | [] => rfl
  | x :: xs => by simp [isSubseq, isSubseq_refl xs]

/-! ### The loops of `delete_range` -/

theorem deleteRangeCovered_spec (S : Schema) (rf rt : RPos) : ∀ (ds : List Nat) (a b : Nat),
    deleteRangeCovered S rf rt ds = some (some (a, b)) →
    ∃ d ∈ ds, (a = rf.start d ∧ b = rt.end_ d) ∨
      (1 ≤ d ∧ rf.before d = some a ∧ rt.after d = some b)
  | [], a, b, h => by simp [deleteRangeCovered] at h
  | d :: rest, a, b, h => by
    unfold deleteRangeCovered at h
    simp only at h
    split at h
    · simp only [Option.some.injEq, Prod.mk.injEq] at h
      exact ⟨d, List.mem_cons_self, .inl ⟨h.1.symm, h.2.symm⟩⟩
    · split at h
      · simp at h
      · rename_i hsec
        have hd1 : 1 ≤ d := by
          rcases Nat.eq_zero_or_pos d with h0 | h0
          · subst h0; simp at hsec
          · exact h0
        split at h
        · rename_i b' a' hb ha
          simp only [Option.some.injEq, Prod.mk.injEq] at h
          exact ⟨d, List.mem_cons_self, .inr ⟨hd1, by rw [hb, h.1], by rw [ha, h.2]⟩⟩
        · simp at h
      · obtain ⟨d', hm, hc⟩ := deleteRangeCovered_spec S rf rt rest a b h
        exact ⟨d', List.mem_cons_of_mem _ hm, hc⟩

theorem deleteRangeOuter_spec (rf rt : RPos) (f t bound : Nat) : ∀ (n a b : Nat), n ≤ bound →
    deleteRangeOuter rf rt f t bound n = some (some (a, b)) →
    ∃ d, 1 ≤ d ∧ d ≤ bound ∧ f = rf.start d + (rf.depth - d) ∧ rf.end_ d < t ∧
      rf.before d = some a ∧ b = t
  | 0, a, b, _, h => by simp [deleteRangeOuter] at h
  | n + 1, a, b, hn, h => by
    unfold deleteRangeOuter at h
    simp only at h
    split at h
    · rename_i hc
      simp only [Bool.and_eq_true, beq_iff_eq, decide_eq_true_eq] at hc
      split at h
      · rename_i b' hb
        simp only [Option.some.injEq, Prod.mk.injEq] at h
        exact ⟨bound - n, by omega, by omega, hc.1.1, hc.1.2, by rw [hb, h.1], h.2.symm⟩
      · simp at h
    · exact deleteRangeOuter_spec rf rt f t bound n a b (by omega) h

/-- a depth reported by `covered_depths`: `from` sits right after the open tokens of its ancestors
    below that depth, `to` right before their close tokens -/
theorem covered_tight {doc : Node} {f t : Nat} {rf rt : RPos} (S : Schema)
    (Rf : Resolved doc f rf) (Rt : Resolved doc t rt) (d : Nat) (hd : d ∈ coveredDepthsR S rf rt) :
    d ≤ rf.depth ∧ d ≤ rt.depth ∧ f = rf.start d + (rf.depth - d) ∧
      rt.end_ d = t + (rt.depth - d) := by
  obtain ⟨h1, _, h3⟩ := coveredLoop_mem S rf rt _ d hd
  have hb := h3 d (Nat.le_refl _) h1
  simp only [coveredBreak, Bool.or_eq_false_iff, decide_eq_false_iff_not, Nat.not_lt] at hb
  have hdf : d ≤ rf.depth := by omega
  have hdt : d ≤ rt.depth := by omega
  have n1 := Rf.nestW d rf.depth hdf (Nat.le_refl _)
  have n2 := Rt.nestW d rt.depth hdt (Nat.le_refl _)
  have p1 := Rf.pos_in rf.depth (Nat.le_refl _)
  have p2 := Rt.pos_in rt.depth (Nat.le_refl _)
  have e1 := Rf.pos_eq
  have e2 := Rt.pos_eq
  refine ⟨hdf, hdt, ?_, ?_⟩ <;> omega

/-- **which pair `delete_range` hands to `delete`** -/
theorem deleteRangeTargetR_cases {doc : Node} {f t : Nat} {rf rt : RPos} (S : Schema)
    (Rf : Resolved doc f rf) (Rt : Resolved doc t rt) (f' t' : Nat)
    (h : deleteRangeTargetR S rf rt f t = some (f', t')) :
    (∃ d ∈ coveredDepthsR S rf rt, f' = rf.start d ∧ t' = rt.end_ d) ∨
    (∃ d ∈ coveredDepthsR S rf rt, 1 ≤ d ∧ f' = rf.start d - 1 ∧ t' = rt.end_ d + 1) ∨
    (∃ d, 1 ≤ d ∧ d ≤ rf.depth ∧ d ≤ rt.depth ∧ f = rf.start d + (rf.depth - d) ∧ rf.end_ d < t ∧
      f' = rf.start d - 1 ∧ t' = t) ∨
    (f' = f ∧ t' = t) := by
  unfold deleteRangeTargetR at h
  split at h
  · simp at h
  · rename_i p hc
    simp only [Option.some.injEq] at h
    subst h
    obtain ⟨d, hm, hcase⟩ := deleteRangeCovered_spec S rf rt _ f' t' hc
    obtain ⟨hdf, hdt, _, _⟩ := covered_tight S Rf Rt d hm
    rcases hcase with ⟨ha, hb⟩ | ⟨h1, ha, hb⟩
    · exact .inl ⟨d, hm, ha, hb⟩
    · rw [Rf.before_eq d h1 hdf] at ha
      rw [Rt.after_eq d h1 hdt] at hb
      simp only [Option.some.injEq] at ha hb
      exact .inr (.inl ⟨d, hm, h1, ha.symm, hb.symm⟩)
  · simp only at h
    split at h
    · simp at h
    · rename_i p hc
      simp only [Option.some.injEq] at h
      subst h
      obtain ⟨d, h1, h2, h3, h4, h5, h6⟩ := deleteRangeOuter_spec rf rt f t _ _ f' t' (Nat.le_refl _) hc
      rw [Rf.before_eq d h1 (by omega)] at h5
      simp only [Option.some.injEq] at h5
      exact .inr (.inr (.inl ⟨d, h1, by omega, by omega, h3, h4, h5.symm, h6⟩))
    · simp only [Option.some.injEq, Prod.mk.injEq] at h
      exact .inr (.inr (.inr ⟨h.1.symm, h.2.symm⟩))

end PM
