/- Proofs/FitInv.lean — invariants of `placed` over the whole run of the Fitter (PM/Fitter.lean), in
   partial-correctness form (*if* the operation returns, the invariant is kept):

   * `AddStable P`: a predicate on `placed` kept by `add_to_fragment` is kept by every operation of the
     Fitter (`close_frontier_node`, `open_frontier_node`, `place_nodes`, the loop, `close`) — `placed` is
     only ever changed through `add_to_fragment`;
   * instance 1, the **start spine**: `D ≤ spineL placed` (`D` = depth of `from`): the first-child chain
     `Fitter.__init__` builds is never destroyed, so the emitted slice's `open_start` is covered;
   * instance 2, **size**: `placed` only grows; `close` adds at least one position per re-opened node,
     so `insert = placed_size ≤ slice.size` for a replace-around answer;
   * `normalizeOpen` keeps covered open depths covered and the size.

   Together: `fitterFit_wf_left` — the start half of `Slice.wf` and the `insert` bound of `StepWF` for
   every step the Fitter emits, without any hypothesis on schema or slice. -/
import Proofs.FitInline
import Proofs.FitterText
import PM.StepWF
import PM.CommuteGuard
namespace PM

/-! ### predicates on `placed` kept by `add_to_fragment` -/

def AddStable (P : List Node → Prop) : Prop :=
  ∀ (d : Nat) (frag c r : List Node), addToFragment frag d c = .ok r → P frag → P r

section stable
variable {P : List Node → Prop} (hP : AddStable P)
include hP

theorem closeFrontierNode_stable (S : Schema) (fr : List FItem) (placed : List Node)
    (r : List FItem × List Node) (h : closeFrontierNode S fr placed = .ok r) (hp : P placed) : P r.2 := by
  unfold closeFrontierNode at h
  split at h
  · simp [throw, throwThe, MonadExceptOf.throw] at h
  · obtain ⟨q, _, h⟩ := FM.bind_ok h
    obtain ⟨add, hadd, h⟩ := FM.bind_ok h
    cases add with
    | none =>
      have := pure_ok h
      subst this; exact hp
    | some a =>
      simp only at h
      split at h
      · have := pure_ok h
        subst this; exact hp
      · obtain ⟨p, hp', h⟩ := FM.bind_ok h
        have := pure_ok h
        subst this
        exact hP _ _ _ _ hp' hp

theorem closeMany_stable (S : Schema) : ∀ (n : Nat) (fr : List FItem) (placed : List Node)
    (r : List FItem × List Node), closeMany S n fr placed = .ok r → P placed → P r.2
  | 0, fr, placed, r, h, hp => by
    have := pure_ok h
    subst this; exact hp
  | n + 1, fr, placed, r, h, hp => by
    unfold closeMany at h
    obtain ⟨x, hx, h⟩ := FM.bind_ok h
    exact closeMany_stable S n _ _ r h (closeFrontierNode_stable hP S fr placed x hx hp)

theorem openFrontierNode_stable (S : Schema) (fr : List FItem) (placed : List Node) (ty : TypeId)
    (attrs : Option Attrs) (content : List Node)
    (r : List FItem × List Node) (h : openFrontierNode S fr placed ty attrs content = .ok r) (hp : P placed) :
    P r.2 := by
  unfold openFrontierNode at h
  obtain ⟨top, _, h⟩ := FM.bind_ok h
  obtain ⟨q, _, h⟩ := FM.bind_ok h
  obtain ⟨node, hnode, h⟩ := FM.bind_ok h
  obtain ⟨p', hp', h⟩ := FM.bind_ok h
  have := pure_ok h
  subst this
  exact hP _ _ _ _ hp' hp

theorem openMany_stable (S : Schema) : ∀ (ws : List TypeId) (fr : List FItem) (placed : List Node)
    (r : List FItem × List Node), openMany S ws fr placed = .ok r → P placed → P r.2
  | [], fr, placed, r, h, hp => by
    have := pure_ok h
    subst this; exact hp
  | w :: ws, fr, placed, r, h, hp => by
    unfold openMany at h
    obtain ⟨x, hx, h⟩ := FM.bind_ok h
    exact openMany_stable S ws _ _ r h (openFrontierNode_stable hP S fr placed w none [] x hx hp)

theorem maybeClose_stable (S : Schema) (b : Bool) (fr : List FItem) (placed : List Node)
    (r : List FItem × List Node)
    (h : (if b = true then closeFrontierNode S fr placed else pure (fr, placed)) = .ok r) (hp : P placed) :
    P r.2 := by
  cases b with
  | true => exact closeFrontierNode_stable hP S fr placed r h hp
  | false =>
    have := pure_ok h
    subst this; exact hp

theorem placeNodes_stable (S : Schema) (st st' : FitState) (fit : Fittable)
    (h : placeNodes S st fit = .ok st') (hp : P st.placed) : P st'.placed := by
  unfold placeNodes at h
  obtain ⟨c1, hc1, h⟩ := FM.bind_ok h
  obtain ⟨c2, hc2, h⟩ := FM.bind_ok h
  simp only at h
  obtain ⟨item, _, h⟩ := FM.bind_ok h
  obtain ⟨q0, _, h⟩ := FM.bind_ok h
  obtain ⟨q1, _, h⟩ := FM.bind_ok h
  obtain ⟨tk, htk, h⟩ := FM.bind_ok h
  obtain ⟨placed, hplaced, h⟩ := FM.bind_ok h
  obtain ⟨top, _, h⟩ := FM.bind_ok h
  obtain ⟨c3, hc3, h⟩ := FM.bind_ok h
  obtain ⟨fr, _, h⟩ := FM.bind_ok h
  obtain ⟨u', hu', h⟩ := FM.bind_ok h
  have := pure_ok h
  subst this
  exact maybeClose_stable hP S _ _ _ c3 hc3
    (hP _ _ _ _ hplaced (openMany_stable hP S _ _ _ c2 hc2 (closeMany_stable hP S _ _ _ c1 hc1 hp)))

theorem fitStep_stable (S : Schema) (st st' : FitState) (h : fitStep S st = .ok st') (hp : P st.placed) :
    P st'.placed := by
  unfold fitStep at h
  obtain ⟨f, _, h⟩ := FM.bind_ok h
  cases f with
  | some f => exact placeNodes_stable hP S st st' f h hp
  | none =>
    simp only at h
    obtain ⟨o, ho, h⟩ := FM.bind_ok h
    cases o with
    | some st1 =>
      have := pure_ok h
      subst this
      unfold openMore at ho
      obtain ⟨inner, _, ho⟩ := FM.bind_ok ho
      split at ho
      · simp [pure, Except.pure] at ho
      · split at ho
        · simp [pure, Except.pure] at ho
        · have := pure_ok ho
          simp only [Option.some.injEq] at this
          subst this
          exact hp
    | none =>
      simp only at h
      unfold dropNode at h
      obtain ⟨inner, _, h⟩ := FM.bind_ok h
      split at h
      · obtain ⟨c, _, h⟩ := FM.bind_ok h
        have := pure_ok h
        subst this
        exact hp
      · obtain ⟨c, _, h⟩ := FM.bind_ok h
        have := pure_ok h
        subst this
        exact hp

theorem fitLoop_stable (S : Schema) : ∀ (fuel : Nat) (st st' : FitState),
    fitLoop S fuel st = .ok st' → P st.placed → P st'.placed
  | 0, st, st', h, hp => by
    unfold fitLoop at h
    split at h
    · have := pure_ok h
      subst this; exact hp
    · simp [throw, throwThe, MonadExceptOf.throw] at h
  | fuel + 1, st, st', h, hp => by
    unfold fitLoop at h
    split at h
    · have := pure_ok h
      subst this; exact hp
    · obtain ⟨st1, h1, h⟩ := FM.bind_ok h
      exact fitLoop_stable S fuel st1 st' h (fitStep_stable hP S st st1 h1 hp)

theorem reopen_stable (S : Schema) (mv : RPos) : ∀ (n d : Nat) (fr : List FItem) (placed : List Node)
    (r : List FItem × List Node), reopen S mv n d fr placed = .ok r → P placed → P r.2
  | 0, d, fr, placed, r, h, hp => by
    have := pure_ok h
    subst this; exact hp
  | n + 1, d, fr, placed, r, h, hp => by
    unfold reopen at h
    simp only at h
    obtain ⟨add, hadd, h⟩ := FM.bind_ok h
    obtain ⟨x, hx, h⟩ := FM.bind_ok h
    exact reopen_stable S mv n _ _ _ r h (openFrontierNode_stable hP S fr placed _ _ _ x hx hp)

theorem closeFit_stable (S : Schema) (doc : Node) (rt : RPos) (fr : List FItem) (placed : List Node)
    (mv : RPos) (p : List Node) (h : closeFit S doc rt fr placed = .ok (some (mv, p))) (hp : P placed) :
    P p := by
  unfold closeFit at h
  obtain ⟨r, hr, h⟩ := FM.bind_ok h
  cases r with
  | none => simp [pure, Except.pure] at h
  | some lv =>
    simp only at h
    obtain ⟨c1, hc1, h⟩ := FM.bind_ok h
    obtain ⟨pl, hpl, h⟩ := FM.bind_ok h
    obtain ⟨c2, hc2, h⟩ := FM.bind_ok h
    have := pure_ok h
    simp only [Option.some.injEq, Prod.mk.injEq] at this
    rw [← this.2]
    refine reopen_stable hP S _ _ _ _ _ c2 hc2 ?_
    have h1 := closeMany_stable hP S _ _ _ c1 hc1 hp
    split at hpl
    · exact hP _ _ _ _ hpl h1
    · have := pure_ok hpl
      subst this
      exact h1

end stable

/-! ### instance 1: the start spine -/

theorem spineL_cons_congr (x : Node) (l l' : List Node) : spineL (x :: l) = spineL (x :: l') := by
  cases x <;> simp [spineL]

theorem spineL_append_of_ne_nil : ∀ (l l' : List Node), l ≠ [] → spineL (l ++ l') = spineL l
  | [], _, h => absurd rfl h
  | x :: _, _, _ => spineL_cons_congr x _ _

theorem spineL_addNode (frag : List Node) (c : Node) : spineL frag ≤ spineL (addNode frag c) := by
  cases frag with
  | nil => simp [spineL]
  | cons x rest =>
    unfold addNode
    split
    · rename_i s m s' m' hl
      split
      · cases rest with
        | nil =>
          simp only [List.getLast?_singleton, Option.some.injEq] at hl
          subst hl
          simp [spineL]
        | cons y ys =>
          rw [List.dropLast_cons_cons, List.cons_append]
          exact Nat.le_of_eq (spineL_cons_congr x _ _)
      · rw [List.cons_append]
        exact Nat.le_of_eq (spineL_cons_congr x _ _)
    · rw [List.cons_append]
      exact Nat.le_of_eq (spineL_cons_congr x _ _)

theorem spineL_fappend (frag c : List Node) : spineL frag ≤ spineL (fappend frag c) := by
  unfold fappend
  cases c with
  | nil => exact Nat.le_refl _
  | cons c0 rest =>
    simp only
    split
    · rename_i he
      have : frag = [] := by simpa using he
      subst this
      simp [spineL]
    · rename_i he
      have hne : addNode frag c0 ≠ [] := by
        unfold addNode
        split
        · split <;> simp
        · simp
      rw [spineL_append_of_ne_nil _ _ hne]
      exact spineL_addNode frag c0

theorem addToFragment_spineL : ∀ (d : Nat) (frag c r : List Node), addToFragment frag d c = .ok r →
    spineL frag ≤ spineL r
  | 0, frag, c, r, h => by
    have := pure_ok h
    subst this
    exact spineL_fappend frag c
  | d + 1, frag, c, r, h => by
    unfold addToFragment at h
    split at h
    · rename_i t a m kids hl
      obtain ⟨inner, hi, h⟩ := FM.bind_ok h
      have := pure_ok h
      subst this
      have ih := addToFragment_spineL d kids c inner hi
      cases frag with
      | nil => simp at hl
      | cons x rest =>
        cases rest with
        | nil =>
          simp only [List.getLast?_singleton, Option.some.injEq] at hl
          subst hl
          simp only [List.dropLast_singleton, List.nil_append, spineL]
          omega
        | cons y ys =>
          rw [List.dropLast_cons_cons, List.cons_append]
          exact Nat.le_of_eq (spineL_cons_congr x _ _)
    · simp [throw, throwThe, MonadExceptOf.throw] at h

theorem spineL_stable (D : Nat) : AddStable (fun p => D ≤ spineL p) := by
  intro d frag c r h hp
  have := addToFragment_spineL d frag c r h
  omega

/-- the chain `Fitter.__init__` builds has `depth(from)` start-open levels -/
theorem nestPlaced_spineL (rf : RPos) : ∀ (l : List Nat), (∀ i ∈ l, ∃ t a m k, rf.node (i + 1) = .elem t a m k) →
    l.length ≤ spineL (nestPlaced rf l)
  | [], _ => Nat.zero_le _
  | i :: l, h => by
    obtain ⟨t, a, m, k, hn⟩ := h i (by simp)
    have ih := nestPlaced_spineL rf l (fun j hj => h j (by simp [hj]))
    simp only [nestPlaced, List.foldr_cons, hn, Node.withKids, spineL, List.length_cons] at ih ⊢
    omega

theorem fitInit_spineL (S : Schema) {doc : Node} {f : Nat} {rf : RPos} (hf : doc.resolve f = some rf)
    (sl : Slice) (st0 : FitState) (h : fitInit S rf sl = .ok st0) : rf.depth ≤ spineL st0.placed := by
  unfold fitInit at h
  obtain ⟨fr, _, h⟩ := FM.bind_ok h
  have := pure_ok h
  subst this
  have := nestPlaced_spineL rf (List.range rf.depth) (by
    intro i hi
    simp only [List.mem_range] at hi
    exact resolve_node_isElem hf (i + 1) (by omega) (by omega))
  simpa [nestPlaced] using this

/-! ### instance 2: sizes -/

theorem size_stable (n : Nat) : AddStable (fun p => n ≤ fsize p) := by
  intro d frag c r h hp
  have := addToFragment_size d frag c r h
  omega

theorem createNodeO_size (S : Schema) (ty : TypeId) (attrs : Option Attrs) (content : List Node) (node : Node)
    (h : S.createNodeO ty attrs content = .ok node) : 1 ≤ node.size := by
  unfold Schema.createNodeO at h
  split at h
  · simp [throw, throwThe, MonadExceptOf.throw] at h
  · split at h
    · have := pure_ok h
      subst this
      unfold Schema.mkNodeO
      split
      · simp [Node.size]
      · simp only [Node.size_elem]; omega
    · simp [throw, throwThe, MonadExceptOf.throw] at h

theorem openFrontierNode_grow (S : Schema) (fr : List FItem) (placed : List Node) (ty : TypeId)
    (attrs : Option Attrs) (content : List Node)
    (r : List FItem × List Node) (h : openFrontierNode S fr placed ty attrs content = .ok r) :
    fsize placed + 1 ≤ fsize r.2 := by
  unfold openFrontierNode at h
  obtain ⟨top, _, h⟩ := FM.bind_ok h
  obtain ⟨q, _, h⟩ := FM.bind_ok h
  obtain ⟨node, hnode, h⟩ := FM.bind_ok h
  obtain ⟨p', hp', h⟩ := FM.bind_ok h
  have := pure_ok h
  subst this
  have h1 := addToFragment_size _ _ _ _ hp'
  have h2 := createNodeO_size S ty attrs content node hnode
  simp only [fsize, Nat.add_zero] at h1
  simp only
  omega

theorem reopen_grow (S : Schema) (mv : RPos) : ∀ (n d : Nat) (fr : List FItem) (placed : List Node)
    (r : List FItem × List Node), reopen S mv n d fr placed = .ok r → fsize placed + n ≤ fsize r.2
  | 0, d, fr, placed, r, h => by
    have := pure_ok h
    subst this; simp
  | n + 1, d, fr, placed, r, h => by
    unfold reopen at h
    simp only at h
    obtain ⟨add, hadd, h⟩ := FM.bind_ok h
    obtain ⟨x, hx, h⟩ := FM.bind_ok h
    have h1 := openFrontierNode_grow S fr placed _ _ _ x hx
    have h2 := reopen_grow S mv n _ _ _ r h
    omega

theorem findCloseLevel_depth (S : Schema) (doc : Node) (rt : RPos) (fr : List FItem) (lv : CloseLevel)
    (h : findCloseLevel S doc rt fr = .ok (some lv)) : lv.depth ≤ fr.length - 1 := by
  unfold findCloseLevel at h
  have := findCloseLevelLoop_depth S doc rt fr _ lv h
  omega

/-- `close` adds at least one position for every level between the close level and the target's
    depth: enough for `placed_size ≤ slice.size` -/
theorem closeFit_grow (S : Schema) (doc : Node) (rt : RPos) (fr : List FItem) (placed : List Node)
    (mv : RPos) (p : List Node) (h : closeFit S doc rt fr placed = .ok (some (mv, p))) :
    fsize placed + mv.depth ≤ fsize p + (fr.length - 1) := by
  unfold closeFit at h
  obtain ⟨r, hr, h⟩ := FM.bind_ok h
  cases r with
  | none => simp [pure, Except.pure] at h
  | some lv =>
    simp only at h
    obtain ⟨c1, hc1, h⟩ := FM.bind_ok h
    obtain ⟨pl, hpl, h⟩ := FM.bind_ok h
    obtain ⟨c2, hc2, h⟩ := FM.bind_ok h
    have := pure_ok h
    simp only [Option.some.injEq, Prod.mk.injEq] at this
    obtain ⟨hmv, hp⟩ := this
    subst hp
    have hd := findCloseLevel_depth S doc rt fr lv hr
    have h1 := closeMany_size S _ _ _ c1 hc1
    have h3 := reopen_grow S _ _ _ _ _ c2 hc2
    have h2 : fsize c1.2 ≤ fsize pl := by
      split at hpl
      · have := addToFragment_size _ _ _ _ hpl
        omega
      · have := pure_ok hpl
        subst this
        exact Nat.le_refl _
    rw [hmv] at h3
    omega

/-! ### `normalizeOpen` -/

theorem spineR_singleton_elem (t : TypeId) (a : Attrs) (m : Marks) (k : List Node) :
    spineR [.elem t a m k] = 1 + spineR k := by simp

/-- covered open depths stay covered, and `content.size - open_start - open_end` is kept -/
theorem normalizeOpen_wf : ∀ (n : Nat) (c : List Node) (os oe : Nat), os ≤ spineL c →
    (normalizeOpen n c os oe).2.1 ≤ spineL (normalizeOpen n c os oe).1 ∧
    ((fsize (normalizeOpen n c os oe).1 : Int) - (normalizeOpen n c os oe).2.1 - (normalizeOpen n c os oe).2.2 =
      (fsize c : Int) - os - oe) ∧
    (oe ≤ spineR c → (normalizeOpen n c os oe).2.2 ≤ spineR (normalizeOpen n c os oe).1)
  | 0, c, os, oe, h => ⟨h, rfl, fun h' => h'⟩
  | n + 1, c, os, oe, h => by
    unfold normalizeOpen
    split
    · rename_i only
      split
      · rename_i hc
        simp only [bne_iff_ne, ne_eq, Bool.and_eq_true] at hc
        cases only with
        | elem t a m k =>
          simp only [spineL] at h
          obtain ⟨i1, i2, i3⟩ := normalizeOpen_wf n k (os - 1) (oe - 1) (by omega)
          simp only [Node.kids] at i1 i2 i3 ⊢
          refine ⟨i1, ?_, ?_⟩
          · rw [i2]
            simp only [fsize, Node.size_elem]
            omega
          · intro hr
            rw [spineR_singleton_elem] at hr
            exact i3 (by omega)
        | text s m => simp only [spineL] at h; omega
        | leaf t a m => simp only [spineL] at h; omega
      · exact ⟨h, rfl, fun h' => h'⟩
    · exact ⟨h, rfl, fun h' => h'⟩

/-! ### the emitted step -/

/-- **start half of `Slice.wf` and the `insert` bound**, for every step the Fitter emits: the slice's
    `open_start` is covered by its content; for a replace-around step `insert ≤ slice.size`; and the
    end half of `Slice.wf` follows from `depth(close target) ≤ spineR` of the final `placed` -/
theorem fitEmit_wf_left (rf rt : RPos) (mi : Option Nat) (ps : Int) (to_ : RPos) (placed : List Node)
    (st : Step) (h : fitEmit rf rt mi ps to_ placed = .ok (some st)) (hl : rf.depth ≤ spineL placed)
    (hps : ps ≤ (fsize placed : Int) - rf.depth - to_.depth) :
    ∃ sl', st.sliceOf = some sl' ∧ sl'.openStart ≤ spineL sl'.content ∧
      (to_.depth ≤ spineR placed → sl'.openEnd ≤ spineR sl'.content) ∧
      (∀ F T G1 G2 sl ins b, st = .replaceAround F T G1 G2 sl ins b → (ins : Int) ≤ sl.size) := by
  unfold fitEmit at h
  simp only at h
  obtain ⟨n1, n2, n3⟩ := normalizeOpen_wf (rf.depth + 1) placed rf.depth to_.depth hl
  cases mi with
  | none =>
    simp only at h
    split at h
    · have := pure_ok h
      simp only [Option.some.injEq] at this
      subst this
      exact ⟨_, rfl, n1, n3, by intro F T G1 G2 sl ins b hst; cases hst⟩
    · simp [pure, Except.pure] at h
  | some p =>
    simp only at h
    split at h
    · simp [throw, throwThe, MonadExceptOf.throw] at h
    · rename_i hneg
      have := pure_ok h
      simp only [Option.some.injEq] at this
      subst this
      refine ⟨_, rfl, n1, n3, ?_⟩
      intro F T G1 G2 sl ins b hst
      simp only [Step.replaceAround.injEq] at hst
      obtain ⟨_, _, _, _, hsl, hins, _⟩ := hst
      subst hsl; subst hins
      simp only [Slice.size, n2]
      omega

theorem fitterFit_wf_left {doc : Node} {f : Nat} {rf : RPos} (S : Schema) (hf : doc.resolve f = some rf)
    (rt : RPos) (sl : Slice) (fuel : Nat) (st : Step)
    (h : fitterFit S doc rf rt sl fuel = .ok (some st)) :
    ∃ sl', st.sliceOf = some sl' ∧ sl'.openStart ≤ spineL sl'.content ∧
      (∀ F T G1 G2 sl ins b, st = .replaceAround F T G1 G2 sl ins b → (ins : Int) ≤ sl.size) := by
  unfold fitterFit at h
  obtain ⟨st0, h0, h⟩ := FM.bind_ok h
  obtain ⟨st1, h1, h⟩ := FM.bind_ok h
  obtain ⟨mi, _, h⟩ := FM.bind_ok h
  simp only at h
  obtain ⟨target, _, h⟩ := FM.bind_ok h
  obtain ⟨c, hc, h⟩ := FM.bind_ok h
  cases c with
  | none => simp [pure, Except.pure] at h
  | some c =>
    simp only at h
    have hl0 := fitInit_spineL S hf sl st0 h0
    have hl1 := fitLoop_stable (spineL_stable rf.depth) S fuel st0 st1 h1 hl0
    have hl2 := closeFit_stable (spineL_stable rf.depth) S doc target st1.frontier st1.placed c.1 c.2 hc hl1
    have hg := closeFit_grow S doc target st1.frontier st1.placed c.1 c.2 hc
    obtain ⟨sl', hs, hw1, _, hw3⟩ := fitEmit_wf_left rf rt mi _ c.1 c.2 st h hl2 (by omega)
    exact ⟨sl', hs, hw1, hw3⟩

/-! ### the end spine, for runs whose loop keeps `placed` and the frontier in step

`rspineOK (frontier.length - 1) placed` at the end of the loop (the invariant `FitLoopInv` of
Proofs/FitInline.lean, or the state `Fitter.__init__` builds) is carried through `close`: the final
`placed` has a last-child chain of non-leaf nodes as long as the depth of the position `close`
stopped at — the emitted slice's `open_end`. -/

theorem spineR_of_getLast : ∀ (l : List Node) (t : TypeId) (a : Attrs) (m : Marks) (k : List Node),
    l.getLast? = some (.elem t a m k) → spineR l = 1 + spineR k
  | [], _, _, _, _, h => by simp at h
  | [x], t, a, m, k, h => by
    simp only [List.getLast?_singleton, Option.some.injEq] at h
    subst h
    simp
  | x :: y :: ys, t, a, m, k, h => by
    rw [List.getLast?_cons_cons] at h
    have := spineR_of_getLast (y :: ys) t a m k h
    simpa [spineR] using this

theorem rspineOK_spineR : ∀ (d : Nat) (l : List Node), rspineOK d l → d ≤ spineR l
  | 0, _, _ => Nat.zero_le _
  | d + 1, l, ⟨t, a, m, k, h1, h2⟩ => by
    rw [spineR_of_getLast l t a m k h1]
    have := rspineOK_spineR d k h2
    omega

theorem reopen_spine (S : Schema) (hdet : DetS S) (hf : FillersOK S) {doc : Node} {p : Nat} {mv : RPos}
    (hmv : doc.resolve p = some mv) (hattrs : S.nodeAttrsOK doc = true) :
    ∀ (n d : Nat) (fr : List FItem) (placed : List Node), 1 ≤ d → (∀ j, d ≤ j → j < d + n → j ≤ mv.depth) →
      LastOKF fr → rspineOK (fr.length - 1) placed →
      ∃ r, reopen S mv n d fr placed = .ok r ∧ r.1.length = fr.length + n ∧ rspineOK (r.1.length - 1) r.2
  | 0, d, fr, placed, _, _, _, hsp => ⟨(fr, placed), rfl, rfl, hsp⟩
  | n + 1, d, fr, placed, hd, hrange, hl, hsp => by
    have R := resolve_resolved hmv
    have hdle : d ≤ mv.depth := hrange d (Nat.le_refl _) (by omega)
    obtain ⟨t, a, m, ks, hn⟩ := resolve_node_isElem hmv d hd hdle
    have hok := R.node_attrsOK hattrs d hdle
    rw [hn] at hok
    obtain ⟨h1, h2, h3⟩ := nodeAttrsOK_elem hok
    unfold reopen
    simp only [hn, Schema.tyOf, Node.tyOr, Node.kids, Node.attrs]
    obtain ⟨add, hadd⟩ := fillOpt_ok S hdet hf t 0 (S.types (ks.drop (mv.index d))) true
    rw [FM.bind_eq hadd]
    obtain ⟨r, hr, hr1, hr2, hr3⟩ := openFrontierNode_ok S fr placed t a (add.getD []) hl hsp h1 h2 h3
    rw [FM.bind_eq hr]
    obtain ⟨r', hr', hlen', hsp'⟩ := reopen_spine S hdet hf hmv hattrs n (d + 1) r.1 r.2 (by omega)
      (fun j h1 h2 => hrange j (by omega) (by omega)) hr1 hr3
    exact ⟨r', hr', by rw [hlen', hr2]; omega, hsp'⟩

theorem closeFit_spine (S : Schema) (hdet : DetS S) (hf : FillersOK S) {doc : Node} {t : Nat} {rt : RPos}
    (ht : doc.resolve t = some rt) (hattrs : S.nodeAttrsOK doc = true) (fr : List FItem) (placed : List Node)
    (hfr : FrOK fr) (hne : fr ≠ []) (hsp : rspineOK (fr.length - 1) placed)
    (mv : RPos) (p : List Node) (h : closeFit S doc rt fr placed = .ok (some (mv, p))) :
    mv.depth ≤ spineR p := by
  have hlen : 1 ≤ fr.length := by
    cases fr with
    | nil => exact absurd rfl hne
    | cons a l => simp
  unfold closeFit at h
  obtain ⟨lvo, hlv, h⟩ := FM.bind_ok h
  cases lvo with
  | none => simp [pure, Except.pure] at h
  | some lv =>
    simp only at h
    have hdep : lv.depth < min (fr.length - 1) rt.depth + 1 := findCloseLevelLoop_depth S doc rt fr _ lv hlv
    obtain ⟨c1, hc1, hc1f, hc1s⟩ := closeMany_ok S hdet hf (fr.length - 1 - lv.depth) fr placed hfr (by omega) hsp
    rw [FM.bind_eq hc1] at h
    have hc1len : c1.1.length = lv.depth + 1 := by
      rw [hc1f, List.length_take]; omega
    have hplaced : ∃ p, (if !lv.fit.isEmpty then addToFragment c1.2 lv.depth lv.fit else pure c1.2) = .ok p ∧
        rspineOK lv.depth p := by
      rw [hc1len, Nat.add_sub_cancel] at hc1s
      split
      · obtain ⟨p, hp, hps, _⟩ := addToFragment_ok lv.depth c1.2 lv.fit hc1s
        exact ⟨p, hp, hps⟩
      · exact ⟨c1.2, rfl, hc1s⟩
    obtain ⟨p1, hp1, hps⟩ := hplaced
    rw [FM.bind_eq hp1] at h
    have hmv : ∃ pm, doc.resolve pm = some lv.move := by
      rcases findCloseLevelLoop_move S doc rt fr _ lv hlv with hm | ⟨i, a, _, _, _, hres⟩
      · exact ⟨t, by rw [hm]; exact ht⟩
      · exact ⟨a, hres⟩
    obtain ⟨pm, hpm⟩ := hmv
    have hlast : LastOKF c1.1 := by
      have hc1ok : FrOK c1.1 := by rw [hc1f]; exact hfr.take _
      have hl : lv.depth < c1.1.length := by omega
      refine ⟨c1.1[lv.depth], ?_⟩
      obtain ⟨q, hq⟩ := hc1ok c1.1[lv.depth] (List.getElem_mem _)
      refine ⟨q, ?_, hq⟩
      rw [List.getLast?_eq_getElem?, hc1len, Nat.add_sub_cancel, List.getElem?_eq_getElem hl]
    obtain ⟨c2, hc2, hc2len, hc2sp⟩ := reopen_spine S hdet hf hpm hattrs (lv.move.depth - lv.depth) (lv.depth + 1)
      c1.1 p1 (by omega) (fun j h1 h2 => by omega) hlast (by rw [hc1len, Nat.add_sub_cancel]; exact hps)
    rw [FM.bind_eq hc2] at h
    have := pure_ok h
    simp only [Option.some.injEq, Prod.mk.injEq] at this
    obtain ⟨e1, e2⟩ := this
    subst e1; subst e2
    exact rspineOK_spineR _ _ (rspineOK_le _ _ _ (by rw [hc2len, hc1len]; omega) hc2sp)

/-- **`StepWF`-part of the emitted step** when the loop ends with `placed` and the frontier in step -/
theorem fitterFit_wf_of_loop (S : Schema) (hdet : DetS S) (hfill : FillersOK S) {doc : Node} {f t : Nat}
    {rf rt : RPos} (hf : doc.resolve f = some rf) (ht : doc.resolve t = some rt)
    (hattrs : S.nodeAttrsOK doc = true) (sl : Slice) (fuel : Nat) (st0 st1 : FitState)
    (h0 : fitInit S rf sl = .ok st0) (hl : fitLoop S fuel st0 = .ok st1) (hfr : FrOK st1.frontier)
    (hne : st1.frontier ≠ []) (hsp : rspineOK (st1.frontier.length - 1) st1.placed)
    (st : Step) (h : fitterFit S doc rf rt sl fuel = .ok (some st)) : StepWF st = true := by
  obtain ⟨sl', hs, hw1, hw3⟩ := fitterFit_wf_left S hf rt sl fuel st h
  unfold fitterFit at h
  rw [FM.bind_eq h0, FM.bind_eq hl] at h
  obtain ⟨mi, _, h⟩ := FM.bind_ok h
  simp only at h
  obtain ⟨target, htg, h⟩ := FM.bind_ok h
  obtain ⟨c, hc, h⟩ := FM.bind_ok h
  cases c with
  | none => simp [pure, Except.pure] at h
  | some c =>
    simp only at h
    have hpt : ∃ pt, doc.resolve pt = some target := by
      cases mi with
      | none =>
        have := pure_ok htg
        subst this
        exact ⟨t, ht⟩
      | some p => exact ⟨p, liftRaise_ok htg⟩
    obtain ⟨pt, hpt⟩ := hpt
    have hr := closeFit_spine S hdet hfill hpt hattrs st1.frontier st1.placed hfr hne hsp c.1 c.2 hc
    have hl0 := fitInit_spineL S hf sl st0 h0
    have hl1 := fitLoop_stable (spineL_stable rf.depth) S fuel st0 st1 hl hl0
    have hl2 := closeFit_stable (spineL_stable rf.depth) S doc target st1.frontier st1.placed c.1 c.2 hc hl1
    have hg := closeFit_grow S doc target st1.frontier st1.placed c.1 c.2 hc
    obtain ⟨sl2, hs2, _, hw2, _⟩ := fitEmit_wf_left rf rt mi _ c.1 c.2 st h hl2 (by omega)
    have hw2 := hw2 hr
    rw [hs] at hs2
    simp only [Option.some.injEq] at hs2
    subst hs2
    cases st with
    | replace F T s b =>
      simp only [Step.sliceOf, Option.some.injEq] at hs
      subst hs
      simp only [StepWF, Slice.wf, Bool.and_eq_true, decide_eq_true_eq]
      exact ⟨hw1, hw2⟩
    | replaceAround F T G1 G2 s ins b =>
      simp only [Step.sliceOf, Option.some.injEq] at hs
      subst hs
      simp only [StepWF, Slice.wf, Bool.and_eq_true, decide_eq_true_eq]
      exact ⟨⟨hw1, hw2⟩, hw3 _ _ _ _ _ _ _ rfl⟩
    | _ => simp [Step.sliceOf] at hs

/-! ### `replace_step` as a whole -/

theorem replaceStep_wf_left (S : Schema) (doc : Node) (f t : Nat) (sl : Slice) (st : Step)
    (hsl : sl.openStart ≤ spineL sl.content) (h : replaceStep S doc f t sl = .ok (some st)) :
    ∃ sl', st.sliceOf = some sl' ∧ sl'.openStart ≤ spineL sl'.content ∧
      (∀ F T G1 G2 sl ins b, st = .replaceAround F T G1 G2 sl ins b → (ins : Int) ≤ sl.size) := by
  unfold replaceStep at h
  split at h
  · simp [pure, Except.pure] at h
  · split at h
    · rename_i rf rt hf ht
      split at h
      · simp [throw, throwThe, MonadExceptOf.throw] at h
      · have := pure_ok h
        simp only [Option.some.injEq] at this
        subst this
        exact ⟨sl, rfl, hsl, by intro F T G1 G2 sl ins b hst; cases hst⟩
      · exact fitterFit_wf_left S hf rt sl _ st h
    · simp [throw, throwThe, MonadExceptOf.throw] at h

/-- every step `replace_step` emits for a **deletion** is well-formed -/
theorem replaceStep_empty_wf (S : Schema) (hdet : DetS S) (hfill : FillersOK S) (doc : Node) (f t : Nat)
    (hv : S.checkNode doc = true) (hattrs : S.nodeAttrsOK doc = true) (st : Step)
    (h : replaceStep S doc f t Slice.empty = .ok (some st)) : StepWF st = true := by
  unfold replaceStep at h
  split at h
  · simp [pure, Except.pure] at h
  · split at h
    · rename_i rf rt hf ht
      split at h
      · simp [throw, throwThe, MonadExceptOf.throw] at h
      · have := pure_ok h
        simp only [Option.some.injEq] at this
        subst this
        rfl
      · obtain ⟨st0, h0, hu, hfr, hlen, hsp, _⟩ := fitInit_ok S hf hv Slice.empty
        have hne : st0.frontier ≠ [] := by
          intro h; rw [h] at hlen; simp at hlen
        exact fitterFit_wf_of_loop S hdet hfill hf ht hattrs Slice.empty _ st0 st0 h0 (fitLoop_empty S _ st0 hu)
          hfr hne (by rw [hlen, Nat.add_sub_cancel]; exact hsp) st h
    · simp [throw, throwThe, MonadExceptOf.throw] at h

/-- every step `replace_step` emits for a **closed slice of leaf / text nodes** is well-formed -/
theorem replaceStep_inline_wf (S : Schema) (hdet : DetS S) (hfill : FillersOK S) (hw : WrapOK S)
    (doc : Node) (f t : Nat) (sl : Slice) (hsl : sl.inlineLeaves S = true)
    (hv : S.checkNode doc = true) (hattrs : S.nodeAttrsOK doc = true) (st : Step)
    (h : replaceStep S doc f t sl = .ok (some st)) : StepWF st = true := by
  have hsl' := hsl
  simp only [Slice.inlineLeaves, Bool.and_eq_true, beq_iff_eq, List.all_eq_true, decide_eq_true_eq] at hsl
  obtain ⟨⟨hos, hoe⟩, hall⟩ := hsl
  unfold replaceStep at h
  split at h
  · simp [pure, Except.pure] at h
  · split at h
    · rename_i rf rt hf ht
      split at h
      · simp [throw, throwThe, MonadExceptOf.throw] at h
      · have := pure_ok h
        simp only [Option.some.injEq] at this
        subst this
        simp only [StepWF, Slice.wf, hos, hoe, Nat.zero_le, decide_true, Bool.and_self]
      · obtain ⟨st0, h0, hu, hfr, hlen, hsp, hsz⟩ := fitInit_ok S hf hv sl
        have inv0 : FitLoopInv S rf.depth st0 := by
          refine ⟨hfr, ?_, by rw [hlen, Nat.add_sub_cancel]; exact hsp, ?_, ?_, by rw [hu]; exact hos,
            by rw [hu]; exact hoe, by rw [hlen, hsz]; omega⟩
          · intro h; rw [h] at hlen; simp at hlen
          · intro n hn; rw [hu] at hn; exact (hall n hn).1
          · intro n hn; rw [hu] at hn; exact (hall n hn).2
        obtain ⟨st1, hl, inv⟩ := fitLoop_ok S hdet hfill hw rf.depth (fitFuel S sl) st0 inv0 (by
          have := fitFuel_enough S st0
          rw [hu] at this
          rw [hu]; exact this)
        exact fitterFit_wf_of_loop S hdet hfill hf ht hattrs sl _ st0 st1 h0 hl inv.frok inv.ne inv.sp st h
    · simp [throw, throwThe, MonadExceptOf.throw] at h

/-! ### the full statement, reduced to the in-step invariant at the end of the loop -/

theorem getLast_of_spineR : ∀ (l : List Node), 1 ≤ spineR l → ∃ t a m k, l.getLast? = some (.elem t a m k)
  | [], h => by simp [spineR] at h
  | [x], h => by
    cases x with
    | elem t a m k => exact ⟨t, a, m, k, rfl⟩
    | text s m => simp [spineR] at h
    | leaf t a m => simp [spineR] at h
  | x :: y :: ys, h => by
    have h' : 1 ≤ spineR (y :: ys) := by simpa [spineR] using h
    obtain ⟨t, a, m, k, hl⟩ := getLast_of_spineR (y :: ys) h'
    exact ⟨t, a, m, k, by rw [List.getLast?_cons_cons]; exact hl⟩

theorem spineR_rspineOK : ∀ (d : Nat) (l : List Node), d ≤ spineR l → rspineOK d l
  | 0, _, _ => trivial
  | d + 1, l, h => by
    obtain ⟨t, a, m, k, hl⟩ := getLast_of_spineR l (by omega)
    rw [spineR_of_getLast l t a m k hl] at h
    exact ⟨t, a, m, k, hl, spineR_rspineOK d k (by omega)⟩

/-- if the loop of `fit` ends with `placed` and the frontier in step, the emitted step is well-formed -/
theorem replaceStep_wf_of_inStep (S : Schema) (hdet : DetS S) (hfill : FillersOK S) (doc : Node) (f t : Nat)
    (sl : Slice) (hattrs : S.nodeAttrsOK doc = true) (hwf : sl.wf = true) (st : Step)
    (h : replaceStep S doc f t sl = .ok (some st))
    (hin : ∀ rf st0 st1, doc.resolve f = some rf → fitInit S rf sl = .ok st0 →
      fitLoop S (fitFuel S sl) st0 = .ok st1 → st1.inStepB = true) : StepWF st = true := by
  unfold replaceStep at h
  split at h
  · simp [pure, Except.pure] at h
  · split at h
    · rename_i rf rt hf ht
      split at h
      · simp [throw, throwThe, MonadExceptOf.throw] at h
      · have := pure_ok h
        simp only [Option.some.injEq] at this
        subst this
        exact hwf
      · have h' := h
        unfold fitterFit at h'
        obtain ⟨st0, h0, h'⟩ := FM.bind_ok h'
        obtain ⟨st1, h1, _⟩ := FM.bind_ok h'
        have hi := hin rf st0 st1 hf h0 h1
        simp only [FitState.inStepB, Bool.and_eq_true, Bool.not_eq_eq_eq_not, Bool.not_true, List.all_eq_true,
          decide_eq_true_eq] at hi
        obtain ⟨⟨hne, hall⟩, hsp⟩ := hi
        refine fitterFit_wf_of_loop S hdet hfill hf ht hattrs sl _ st0 st1 h0 h1 ?_ ?_ (spineR_rspineOK _ _ hsp) st h
        · intro it hit
          exact Option.isSome_iff_exists.1 (hall it hit)
        · intro h0
          rw [h0] at hne
          simp at hne
    · simp [throw, throwThe, MonadExceptOf.throw] at h

end PM
