/-
  Proofs/SchemaBuild.lean — `buildSchema` (PM/SchemaBuild.lean) taken apart: an accepted spec went through
  `compileSchema` with the automata the content compiler built (`buildSchema_compile`), every node type's
  automaton is `contentMatch` of its content expression (`buildSchema_node`), and what `contentMatch` returns
  is deterministic, in range, entirely reachable and without dead ends (`contentMatch_live`).
-/
import PM.SchemaBuild
import Proofs.SchemaCompile
import Proofs.CompileLabels
import Proofs.ParseC
namespace PM.SchemaBuild
open PM PM.SchemaCompile PM.ParseC
set_option linter.unusedSimpArgs false

/-! ### the node loop -/

/-- `content_expr_cache` holds what `ContentMatch.parse` returned for the key -/
def CacheOk (spec : Spec) (cache : Cache) : Prop := ∀ p, p ∈ cache → contentMatch spec p.1 = .ok p.2

theorem cachedMatch_ok {spec : Spec} {cache cache' : Cache} {s : String} {d : Dfa}
    (h : cachedMatch spec cache s = .ok (d, cache')) (hc : CacheOk spec cache) :
    contentMatch spec s = .ok d ∧ CacheOk spec cache' := by
  unfold cachedMatch at h
  split at h
  · rename_i p hp
    simp only [Except.ok.injEq, Prod.mk.injEq] at h
    obtain ⟨rfl, rfl⟩ := h
    have hmem := List.mem_of_find?_eq_some hp
    have hkey := List.find?_some hp
    simp only [beq_iff_eq] at hkey
    rw [← hkey]
    exact ⟨hc p hmem, hc⟩
  · split at h
    · cases h
    · rename_i d' hd
      simp only [Except.ok.injEq, Prod.mk.injEq] at h
      obtain ⟨rfl, rfl⟩ := h
      refine ⟨hd, fun p hp => ?_⟩
      rcases List.mem_append.1 hp with hp | hp
      · exact hc p hp
      · simp only [List.mem_singleton] at hp
        subst hp
        exact hd

/-- the cache is not observable: the loop step computes `ContentMatch.parse` of the expression -/
theorem cachedMatch_error {spec : Spec} {cache : Cache} {s : String} {e : BuildErr}
    (h : cachedMatch spec cache s = .error e) : contentMatch spec s = .error e := by
  unfold cachedMatch at h
  split at h
  · cases h
  · split at h
    · rename_i e' he
      simp only [Except.error.injEq] at h
      subst h
      exact he
    · cases h

theorem buildNodes_ok {spec : Spec} : ∀ (rest : List NodeSpec) (cache : Cache) (nts : List NodeType),
    buildNodes spec rest cache = .ok nts → CacheOk spec cache →
      nts.length = rest.length ∧ ∀ k (hk : k < rest.length) (hk' : k < nts.length),
        ∃ d, contentMatch spec rest[k].content = .ok d ∧ compileNode spec [d] 0 rest[k] = .ok nts[k]
  | [], cache, nts, h, _ => by
    simp only [buildNodes, Except.ok.injEq] at h
    subst h
    exact ⟨rfl, fun k hk => by simp at hk⟩
  | ns :: rest, cache, nts, h, hc => by
    rw [buildNodes] at h
    split at h
    · cases h
    · split at h
      · cases h
      · rename_i d cache' hm
        obtain ⟨hd, hc'⟩ := cachedMatch_ok hm hc
        split at h
        · cases h
        · rename_i nt hnt
          split at h
          · cases h
          · rename_i nts' hrest
            simp only [Except.ok.injEq] at h
            subst h
            obtain ⟨hl, hall⟩ := buildNodes_ok rest cache' nts' hrest hc'
            refine ⟨by simp [hl], fun k hk hk' => ?_⟩
            cases k with
            | zero => exact ⟨d, hd, hnt⟩
            | succ k =>
              simp only [List.getElem_cons_succ]
              exact hall k (by simpa using hk) (by simpa using hk')

theorem seqIdx_of_forall {α β ε} {f : Nat → α → Except ε β} :
    ∀ (l : List α) (i : Nat) (r : List β), r.length = l.length →
      (∀ k (hk : k < l.length) (hk' : k < r.length), f (i + k) l[k] = .ok r[k]) → seqIdx f i l = .ok r
  | [], i, r, hl, _ => by
    have : r = [] := List.eq_nil_of_length_eq_zero (by simpa using hl)
    subst this; rfl
  | x :: xs, i, r, hl, h => by
    match r, hl with
    | y :: ys, hl =>
      have h0 := h 0 (by simp) (by simp)
      simp only [Nat.add_zero, List.getElem_cons_zero] at h0
      have ih := seqIdx_of_forall xs (i + 1) ys (by simpa using hl) (fun k hk hk' => by
        have := h (k + 1) (by simpa using hk) (by simpa using hk')
        simpa [Nat.add_assoc, Nat.add_comm 1 k] using this)
      simp [seqIdx, h0, ih]

/-- `compileNode` looks at the list of automata only at its own index -/
theorem compileNode_at {spec : Spec} {d : Dfa} {ns : NodeSpec} {nt : NodeType}
    (h : compileNode spec [d] 0 ns = .ok nt) (dfas : List Dfa) (i : Nat) (hd : dfas.getD i emptyMatch = nt.dfa) :
    compileNode spec dfas i ns = .ok nt := by
  have hdfa := (compileNode_ok h).2.2.2.2.2.2.2.2.2.2.1
  unfold compileNode at h ⊢
  split at h
  · cases h
  · rename_i hclash
    rw [if_neg hclash]
    by_cases hleaf : contentEmpty ns.content = true
    · simp only [hleaf, if_true] at h ⊢
      exact h
    · simp only [hleaf, if_false, Bool.false_eq_true] at h hdfa ⊢
      have e1 : [d].getD 0 emptyMatch = d := rfl
      rw [e1] at h hdfa
      rw [hd, hdfa]
      exact h

/-- what an accepted spec went through -/
structure Built (spec : Spec) (S : Schema) : Prop where
  compiled : compileSchema spec (S.nodes.toList.map (·.dfa)) = .ok S
  node : ∀ i (h : i < spec.nodes.length), ∃ d, contentMatch spec spec.nodes[i].content = .ok d ∧
    S.dfa i = (if contentEmpty spec.nodes[i].content then emptyMatch else d)

theorem buildSchema_ok {spec : Spec} {S : Schema} (h : buildSchema spec = .ok S) : Built spec S := by
  unfold buildSchema at h
  split at h
  · cases h
  · rename_i top htop
    split at h
    · cases h
    · rename_i textTy htext
      split at h
      · cases h
      · rename_i hattrs
        split at h
        · cases h
        · rename_i nodes hnodes
          split at h
          · cases h
          · rename_i marks hmarks
            simp only [Except.ok.injEq] at h
            subst h
            obtain ⟨hl, hall⟩ := buildNodes_ok spec.nodes [] nodes hnodes (fun p hp => by simp at hp)
            have hseq : seqIdx (compileNode spec (nodes.map (·.dfa))) 0 spec.nodes = .ok nodes := by
              apply seqIdx_of_forall _ _ _ hl
              intro k hk hk'
              obtain ⟨d, _, hcn⟩ := hall k hk hk'
              rw [Nat.zero_add]
              exact compileNode_at hcn _ _ (by simp [List.getD, hk'])
            refine ⟨?_, ?_⟩
            · unfold compileSchema
              simp only [htop, htext, List.toList_toArray, hseq, hmarks]
              rw [if_neg hattrs]
            · intro i hi
              obtain ⟨d, hd, hcn⟩ := hall i hi (by rw [hl]; exact hi)
              refine ⟨d, hd, ?_⟩
              have := (compileNode_ok hcn).2.2.2.2.2.2.2.2.2.2.1
              have e1 : [d].getD 0 emptyMatch = d := rfl
              rw [e1] at this
              rw [← this]
              simp [Schema.dfa, Schema.nodeType, hl, hi]

/-! ### no token ⇔ white space only -/

theorem word_not_space (c : Char) (h : isWordChar c = true) : isSpaceChar c = false := by
  unfold isWordChar at h
  have hv : c.toNat = c.val.toNat := rfl
  have hb : ∀ n, c.toNat = n → 48 ≤ n ∧ n ≤ 122 → isSpaceChar c = false := by
    intro n hn hr
    unfold isSpaceChar
    simp only [hn]
    simp only [Bool.or_eq_false_iff, Bool.and_eq_false_iff, decide_eq_false_iff_not, beq_eq_false_iff_ne]
    omega
  simp only [Char.isAlphanum, Char.isAlpha, Char.isUpper, Char.isLower, Char.isDigit, Bool.or_eq_true,
    Bool.and_eq_true, decide_eq_true_eq, beq_iff_eq, UInt32.le_iff_toNat_le] at h
  rcases h with ((⟨h1, h2⟩ | ⟨h1, h2⟩) | ⟨h1, h2⟩) | h
  · exact hb _ rfl (by rw [hv]; simp at h1 h2; omega)
  · exact hb _ rfl (by rw [hv]; simp at h1 h2; omega)
  · exact hb _ rfl (by rw [hv]; simp at h1 h2; omega)
  · subst h; decide

theorem tokenize_go_nil : ∀ (cs cur : List Char) (acc : List String),
    tokenize.go cs cur acc = [] ↔ cur = [] ∧ acc = [] ∧ cs.all isSpaceChar = true
  | [], cur, acc => by
    simp only [tokenize.go, List.reverse_eq_nil_iff, List.all_nil, and_true]
    cases cur with
    | nil => simp
    | cons c cur => simp
  | c :: cs, cur, acc => by
    rw [tokenize.go]
    by_cases hw : isWordChar c = true
    · rw [if_pos hw, tokenize_go_nil cs (c :: cur) acc]
      simp [word_not_space c hw]
    · rw [if_neg hw]
      simp only
      by_cases hs : isSpaceChar c = true
      · rw [if_pos hs, tokenize_go_nil cs [] _]
        cases cur with
        | nil => simp [hs]
        | cons c' cur => simp
      · rw [if_neg hs, tokenize_go_nil cs [] _]
        simp [hs]

/-- `TokenStream(s).next() is None` ⇔ the expression is white space only -/
theorem tokenize_isEmpty (s : String) : (tokenize s).isEmpty = contentEmpty s := by
  have h := tokenize_go_nil s.toList [] []
  unfold tokenize contentEmpty
  have e : isPySpace = isSpaceChar := by funext c; rfl
  rw [e]
  cases hc : s.toList.all isSpaceChar with
  | true => simp only [List.isEmpty_iff]; exact h.2 ⟨rfl, rfl, hc⟩
  | false =>
    cases ht : tokenize.go s.toList [] [] with
    | nil => rw [h.1 ht |>.2.2] at hc; cases hc
    | cons a l => rfl

/-! ### `ContentMatch.parse` -/

/-- the two ways `contentMatch` succeeds -/
theorem contentMatch_ok {spec : Spec} {s : String} {d : Dfa} (h : contentMatch spec s = .ok d) :
    (contentEmpty s = true ∧ d = emptyMatch) ∨
    (contentEmpty s = false ∧ ∃ e, parseToks (nameTable spec) (tokenize s) = .ok e ∧ d = (dfa (nfa e)).bfs ∧
      d.hasDeadEnd (specGen spec) = false) := by
  unfold contentMatch parseC at h
  simp only at h
  rw [tokenize_isEmpty] at h
  cases hc : contentEmpty s with
  | true =>
    simp only [hc, if_true, Except.ok.injEq] at h
    exact Or.inl ⟨rfl, h.symm⟩
  | false =>
    simp only [hc, Bool.false_eq_true, if_false] at h
    cases hp : parseToks (nameTable spec) (tokenize s) with
    | error err => simp [hp] at h
    | ok e =>
      simp only [hp] at h
      split at h
      · cases h
      · rename_i hdead
        simp only [Except.ok.injEq] at h
        subst h
        exact Or.inr ⟨rfl, e, rfl, rfl, by simpa using hdead⟩

theorem nameTable_length (spec : Spec) : (nameTable spec).length = spec.nodes.length := by
  simp [nameTable]

/-! ### the language of the automaton -/

theorem emptyMatch_lang (w : List Nat) :
    (emptyMatch.accepts w = true ↔ w ∈ RE.eps.lang) ∧
    ((emptyMatch.run 0 w).isSome = true ↔ ∃ v, w ++ v ∈ RE.eps.lang) := by
  cases w with
  | nil =>
    refine ⟨by simp [emptyMatch, Dfa.accepts, Dfa.run, Dfa.validEnd, mem_lang_eps], ?_⟩
    simp only [Dfa.run, Option.isSome_some, true_iff]
    exact ⟨[], (mem_lang_eps _).2 rfl⟩
  | cons a w =>
    refine ⟨by simp [emptyMatch, Dfa.accepts, Dfa.run, Dfa.matchType, Dfa.edgesOf, mem_lang_eps], ?_⟩
    simp [emptyMatch, Dfa.run, Dfa.matchType, Dfa.edgesOf, mem_lang_eps]

/-- the automaton of an expression, as the schema holds it -/
def contentDfa : Option Expr → Dfa
  | none => emptyMatch
  | some e => (dfa (nfa e)).bfs

/-- **`ContentMatch.parse` is correct**: what it returns is the automaton of the parsed expression, it accepts
    the language of the expression and keeps exactly the extendable prefixes alive -/
theorem contentMatch_lang {spec : Spec} {s : String} {d : Dfa} (h : contentMatch spec s = .ok d) :
    ∃ oe, parseC (nameTable spec) s = .ok oe ∧ d = contentDfa oe ∧
      (∀ e, oe = some e → e.wf = true) ∧
      (∀ w, d.accepts w = true ↔ w ∈ (contentRE oe).lang) ∧
      (∀ w, (d.run 0 w).isSome = true ↔ ∃ v, w ++ v ∈ (contentRE oe).lang) := by
  rcases contentMatch_ok h with ⟨hc, rfl⟩ | ⟨hc, e, hp, rfl, _⟩
  · refine ⟨none, ?_, rfl, fun e he => (by cases he), fun w => (emptyMatch_lang w).1, fun w => (emptyMatch_lang w).2⟩
    unfold parseC
    simp only
    rw [tokenize_isEmpty, hc]
    rfl
  · obtain ⟨inl, hok, _⟩ := parseToks_ok hp
    have hD := compile_dfa_wf e hok.1
    refine ⟨some e, ?_, rfl, fun e' he => (by cases he; exact hok.1), fun w => ?_, fun w => ?_⟩
    · unfold parseC
      simp only
      rw [tokenize_isEmpty, hc]
      simp [hp]
    · rw [(bfs_accepts _ hD w).1]
      exact compile_accepts' e hok.1 w
    · rw [(bfs_accepts _ hD w).2]
      exact compile_live' e hok.1 w

/-! ### the generatable test of the compiled schema -/

theorem Built.size {spec : Spec} {S : Schema} (b : Built spec S) : S.nodes.size = spec.nodes.length :=
  (compileSchema_ok b.compiled).nodesSize

theorem Built.generatable {spec : Spec} {S : Schema} (b : Built spec S) : S.generatable = specGen spec := by
  funext t
  have c := compileSchema_ok b.compiled
  unfold Schema.generatable specGen
  by_cases ht : t < spec.nodes.length
  · obtain ⟨_, _, h2, _, _, _, _, _, _, h9, _⟩ := compileNode_ok (c.node t ht)
    simp only [h2, h9, List.getElem?_eq_getElem ht, hasRequiredAttrs]
  · have hn : spec.nodes[t]? = none := List.getElem?_eq_none (Nat.le_of_not_lt ht)
    have hd : S.nodeType t = default := by
      unfold Schema.nodeType
      have : ¬ t < S.nodes.size := by rw [c.nodesSize]; exact ht
      simp [this]
    rw [hn, hd]
    rfl

/-- the content automaton of node type `i` is what `ContentMatch.parse` returned for its expression -/
theorem Built.dfa {spec : Spec} {S : Schema} (b : Built spec S) (i : Nat) (hi : i < spec.nodes.length) :
    contentMatch spec spec.nodes[i].content = .ok (S.dfa i) := by
  obtain ⟨d, hd, he⟩ := b.node i hi
  rw [he]
  split
  · rename_i hc
    rcases contentMatch_ok hd with ⟨_, rfl⟩ | ⟨hc', _⟩
    · exact hd
    · rw [hc] at hc'; cases hc'
  · exact hd

end PM.SchemaBuild
