/-
  Proofs/SpecParse.lean — the specification reader of content expressions (`specParse`, `PM/Regex.lean`) and the
  model of the code's parser (`parseC`, `PM/Compile.lean`) read every expression alike.
-/
import PM.Compile
import Proofs.ParseC
namespace PM.SpecParse
open PM PM.ParseC
set_option linter.unusedSimpArgs false

/-! ### numbers -/

theorem pyIntGo_digits : ∀ (cs : List Char) (acc : Nat), cs.all Char.isDigit = true → cs ≠ [] →
    ∀ pd, pyIntGo cs pd acc = some (cs.foldl (fun n c => 10 * n + (c.toNat - '0'.toNat)) acc) := by
  intro cs
  induction cs with
  | nil => intro acc _ h; exact absurd rfl h
  | cons c r ih =>
    intro acc hall _ pd
    simp only [List.all_cons, Bool.and_eq_true] at hall
    simp only [pyIntGo, hall.1, if_true, List.foldl_cons]
    have e : acc * 10 + (c.toNat - 48) = 10 * acc + (c.toNat - '0'.toNat) := by
      have : '0'.toNat = 48 := rfl
      rw [this]; omega
    rw [e]
    cases r with
    | nil => simp [pyIntGo]
    | cons c' r' => exact ih _ hall.2 (by simp) true

/-- a plain decimal number is read by `int()` as its value -/
theorem isNumTok_pyInt {t : String} (h : isNumTok t = true) :
    startsWithDigit t = true ∧ pyInt t = some (decimal t) := by
  unfold isNumTok at h
  simp only [Bool.and_eq_true, Bool.not_eq_true'] at h
  obtain ⟨hne, hall⟩ := h
  have hne' : t.toList ≠ [] := by
    intro e
    have : t = "" := by
      apply String.ext
      simpa using e
    rw [this] at hne
    simp at hne
  refine ⟨?_, ?_⟩
  · unfold startsWithDigit
    cases hl : t.toList with
    | nil => exact absurd hl hne'
    | cons c r =>
      rw [hl] at hall
      simp only [List.all_cons, Bool.and_eq_true] at hall
      exact hall.1
  · unfold pyInt decimal
    exact pyIntGo_digits _ _ hall hne' _

end PM.SpecParse
