/-
  Proofs/SpecParse.lean — the specification reader of content expressions (`specParse`, `PM/Regex.lean`) and the
  model of the code's parser (`parseC`, `PM/Compile.lean`) read every expression alike.

  * `pRange_spec`, `pSuffix_spec`, `pName_spec`: the pieces (`parse_expr_range` against the three count patterns,
    the loop of `parse_expr_subscript` against the structural `sSuffix`, `resolve_name` + the mixing `iteratee`
    against `sName`).
  * `agree_inv`: the four mutually recursive functions of each side, at every recursion allowance: the same refusal
    class, or the same state with `Expr.toRE` of the code's AST equal (syntactically) to the specification's
    expression — or the specification refused a count that is no plain decimal number.
  * `sExpr_allowance`, `specParse_or`, `specParse_eq`: the top level.
-/
import PM.Compile
import Proofs.ParseC
namespace PM.SpecParse
open PM PM.ParseC
set_option linter.unusedSimpArgs false

/-! ### numbers -/

theorem pyIntGo_digits : ∀ (cs : List Char) (acc : Nat), cs.all Char.isDigit = true → cs ≠ [] →
    ∀ pd, pyIntGo cs pd acc = some (cs.foldl (fun n c => 10 * n + (c.toNat - '0'.toNat)) acc) := by
  intro cs
  induction cs with
  | nil => intro acc _ h; exact absurd rfl h
  | cons c r ih =>
    intro acc hall _ pd
    simp only [List.all_cons, Bool.and_eq_true] at hall
    simp only [pyIntGo, hall.1, if_true, List.foldl_cons]
    have e : acc * 10 + (c.toNat - 48) = 10 * acc + (c.toNat - '0'.toNat) := by
      have : '0'.toNat = 48 := rfl
      rw [this]; omega
    rw [e]
    cases r with
    | nil => simp [pyIntGo]
    | cons c' r' => exact ih _ hall.2 (by simp) true

/-- a plain decimal number is read by `int()` as its value -/
theorem isNumTok_pyInt {t : String} (h : isNumTok t = true) :
    startsWithDigit t = true ∧ pyInt t = some (decimal t) := by
  unfold isNumTok at h
  simp only [Bool.and_eq_true, Bool.not_eq_true'] at h
  obtain ⟨hne, hall⟩ := h
  have hne' : t.toList ≠ [] := by
    intro e
    have : t = "" := by
      apply String.ext
      simpa using e
    rw [this] at hne
    simp at hne
  refine ⟨?_, ?_⟩
  · unfold startsWithDigit
    cases hl : t.toList with
    | nil => exact absurd hl hne'
    | cons c r =>
      rw [hl] at hall
      simp only [List.all_cons, Bool.and_eq_true] at hall
      exact hall.1
  · unfold pyInt decimal
    exact pyIntGo_digits _ _ hall hne' _

/-! ### the postfix operators -/

/-- the counts of a range (the `{` is consumed): `(min, max, rest)` — proof-side reading of the three `{…}`
    patterns of `sSuffix` -/
def sCounts : List String → Option (Nat × Option Nat × List String)
  | n :: "}" :: ts => if isNumTok n then some (decimal n, some (decimal n), ts) else none
  | n :: "," :: "}" :: ts => if isNumTok n then some (decimal n, none, ts) else none
  | n :: "," :: m :: "}" :: ts => if isNumTok n && isNumTok m then some (decimal n, some (decimal m), ts) else none
  | _ => none

theorem sSuffix_nil (r : RE) : sSuffix r [] = .ok (r, []) := by simp [sSuffix]
theorem sSuffix_plus (r : RE) (ts : List String) : sSuffix r ("+" :: ts) = sSuffix (RE.plus r) ts := by
  rw [sSuffix]
theorem sSuffix_star (r : RE) (ts : List String) : sSuffix r ("*" :: ts) = sSuffix (RE.star r) ts := by
  rw [sSuffix]
theorem sSuffix_opt (r : RE) (ts : List String) : sSuffix r ("?" :: ts) = sSuffix (RE.opt r) ts := by
  rw [sSuffix]
theorem sSuffix_other (r : RE) (t : String) (ts : List String) (h1 : t ≠ "+") (h2 : t ≠ "*") (h3 : t ≠ "?")
    (h4 : t ≠ "{") : sSuffix r (t :: ts) = .ok (r, t :: ts) := by
  rw [sSuffix]
  all_goals simp_all
theorem sSuffix_brace (r : RE) (ts : List String) : sSuffix r ("{" :: ts) =
    match sCounts ts with
    | some (mn, mx, rest) => sSuffix (RE.range r mn mx) rest
    | none => .error .syntax := by
  fun_cases sCounts ts
  · rw [sSuffix]; simp [*]
  · rw [sSuffix]; simp [*]
  · rw [sSuffix]; simp [*]
  · rw [sSuffix]; simp [*]
  · rw [sSuffix]
    · simp [*]
    · assumption
  · rw [sSuffix]
    · simp [*]
    · assumption
  · rw [sSuffix]
    all_goals simp_all
theorem pNum_nil (inl : Option Bool) : pNum ⟨[], inl⟩ = .error .noNumber := rfl

theorem pNum_num {t : String} (r : List String) (inl : Option Bool) (h : isNumTok t = true) :
    pNum ⟨t :: r, inl⟩ = .ok (decimal t, ⟨r, inl⟩) := by
  obtain ⟨h1, h2⟩ := isNumTok_pyInt h
  simp [pNum, h1, h2]

/-- a token that is no plain number: refused (a syntax error for the grammar), or read by `int()` all the same -/
theorem pNum_other (t : String) (r : List String) (inl : Option Bool) :
    (∃ e, pNum ⟨t :: r, inl⟩ = .error e ∧ e.toPErr = .syntax) ∨
    (∃ n, pNum ⟨t :: r, inl⟩ = .ok (n, ⟨r, inl⟩) ∧ startsWithDigit t = true) := by
  simp only [pNum]
  cases hd : startsWithDigit t with
  | false => left; exact ⟨.syntax, by simp, rfl⟩
  | true =>
    cases hp : pyInt t with
    | none => left; exact ⟨.badInt, by simp, rfl⟩
    | some n => right; exact ⟨n, by simp, rfl⟩

/-- the rest of `parse_expr_range` after the first number -/
def rangeRest (mn : Nat) (st : PState) : PRes (Nat × Option Nat) :=
  let mx : PRes (Option Nat) :=
    match st.toks with
    | t :: r =>
      if t == "," then
        if r.head? == some "}" then .ok (none, { st with toks := r })
        else match pNum { st with toks := r } with
          | .error e => .error e
          | .ok (m, st) => .ok (some m, st)
      else .ok (some mn, st)
    | [] => .ok (some mn, st)
  match mx with
  | .error e => .error e
  | .ok (mx, st) =>
    match st.toks with
    | t :: r => if t == "}" then .ok ((mn, mx), { st with toks := r }) else .error .syntax
    | [] => .error .syntax

theorem pRange_eq (st : PState) : pRange st =
    match pNum st with
    | .error e => .error e
    | .ok (mn, st) => rangeRest mn st := by
  unfold pRange rangeRest
  rfl


theorem plainToks_cons {a : String} {l : List String} (h : plainToks l = false) : plainToks (a :: l) = false := by
  cases l with
  | nil => simp [plainToks] at h
  | cons b r => simp only [plainToks, Bool.and_eq_false_iff]; right; exact h

theorem sCounts_nonnum' : ∀ (l : List String) (t : String) (r : List String), l = t :: r → isNumTok t = false →
    sCounts l = none := by
  intro l
  fun_cases sCounts l <;> intro t r hl h <;> simp_all

theorem sCounts_nonnum {t : String} (r : List String) (h : isNumTok t = false) : sCounts (t :: r) = none :=
  sCounts_nonnum' _ t r rfl h

theorem sCounts_nonnum2' : ∀ (l : List String) (t y : String) (r : List String), l = t :: "," :: y :: r → y ≠ "}" →
    isNumTok y = false → sCounts l = none := by
  intro l
  fun_cases sCounts l <;> intro t y r hl hy h <;> simp_all

theorem suf2 (a b : String) (l : List String) : l <:+ a :: b :: l := ⟨[a, b], rfl⟩
theorem suf3 (a b c : String) (l : List String) : l <:+ a :: b :: c :: l := ⟨[a, b, c], rfl⟩

theorem rangeRest_gen (mn : Nat) (r : List String) (inl : Option Bool) :
    match rangeRest mn ⟨r, inl⟩ with
    | .ok (_, st') => st'.inline = inl ∧ st'.toks <:+ r
    | .error e => e.toPErr = .syntax := by
  cases r with
  | nil => simp [rangeRest, CErr.toPErr]
  | cons x r2 =>
    by_cases hx : x = ","
    · subst hx
      cases r2 with
      | nil => simp [rangeRest, pNum, CErr.toPErr]
      | cons y r3 =>
        by_cases hy : y = "}"
        · subst hy
          simp [rangeRest, suf2]
        · rcases pNum_other y r3 inl with ⟨e, he, he'⟩ | ⟨m, hm, hd⟩
          · simp [rangeRest, hy, he, he']
          · cases r3 with
            | nil => simp [rangeRest, hy, hm, CErr.toPErr]
            | cons z r4 =>
              by_cases hz : z = "}"
              · subst hz; simp [rangeRest, hy, hm, suf3]
              · simp [rangeRest, hy, hm, hz, CErr.toPErr]
    · by_cases hx' : x = "}"
      · subst hx'; simp [rangeRest]
      · simp [rangeRest, hx, hx', CErr.toPErr]

theorem rangeRest_num {t : String} (hn : isNumTok t = true) (r : List String) (inl : Option Bool) :
    match rangeRest (decimal t) ⟨r, inl⟩ with
    | .ok ((mn, mx), st') => sCounts (t :: r) = some (mn, mx, st'.toks) ∨ (sCounts (t :: r) = none ∧ plainToks (t :: r) = false)
    | .error _ => sCounts (t :: r) = none := by
  cases r with
  | nil => simp [rangeRest, sCounts]
  | cons x r2 =>
    by_cases hx : x = ","
    · subst hx
      cases r2 with
      | nil => simp [rangeRest, sCounts, pNum]
      | cons y r3 =>
        by_cases hy : y = "}"
        · subst hy
          simp [rangeRest, sCounts, hn]
        · by_cases hny : isNumTok y = true
          · cases r3 with
            | nil => simp [rangeRest, sCounts, pNum_num, hny, hy]
            | cons z r4 =>
              by_cases hz : z = "}"
              · subst hz; simp [rangeRest, sCounts, pNum_num, hny, hy, hn]
              · simp [rangeRest, sCounts, pNum_num, hny, hy, hn, hz]
          · have hny' : isNumTok y = false := by simpa using hny
            have hs : sCounts (t :: "," :: y :: r3) = none := sCounts_nonnum2' _ t y r3 rfl hy hny'
            rcases pNum_other y r3 inl with ⟨e, he, _⟩ | ⟨m, hm, hd⟩
            · simp [rangeRest, hy, he, hs]
            · have hp : plainToks (t :: "," :: y :: r3) = false := by
                simp [plainToks, hd, hny']
              cases r3 with
              | nil => simp [rangeRest, hy, hm, hs]
              | cons z r4 =>
                by_cases hz : z = "}"
                · subst hz; simp [rangeRest, hy, hm, hs, hp]
                · simp [rangeRest, hy, hm, hs, hz]
    · by_cases hx' : x = "}"
      · subst hx'; simp [rangeRest, sCounts, hn]
      · simp [rangeRest, sCounts, hn, hx, hx']


/-- `parse_expr_range` against the three count patterns of the specification: they agree, or the specification
    refuses a number that is not plain -/
theorem pRange_spec (toks : List String) (inl : Option Bool) :
    match pRange ⟨toks, inl⟩ with
    | .ok ((mn, mx), st') => st'.inline = inl ∧ st'.toks <:+ toks ∧
        (sCounts toks = some (mn, mx, st'.toks) ∨ (sCounts toks = none ∧ plainToks ("{" :: toks) = false))
    | .error e => sCounts toks = none ∧ e.toPErr = .syntax := by
  rw [pRange_eq]
  cases toks with
  | nil => simp [pNum_nil, sCounts, CErr.toPErr]
  | cons t r =>
    by_cases hn : isNumTok t = true
    · rw [pNum_num r inl hn]
      dsimp only
      have h1 := rangeRest_num hn r inl
      have h2 := rangeRest_gen (decimal t) r inl
      cases hr : rangeRest (decimal t) ⟨r, inl⟩ with
      | error e =>
        rw [hr] at h1 h2
        dsimp only at h1 h2 ⊢
        exact ⟨h1, h2⟩
      | ok v =>
        obtain ⟨⟨mn, mx⟩, st'⟩ := v
        rw [hr] at h1 h2
        simp only at h1 h2 ⊢
        refine ⟨h2.1, List.IsSuffix.trans h2.2 (List.suffix_cons _ _), ?_⟩
        rcases h1 with h1 | ⟨h1, h1'⟩
        · exact Or.inl h1
        · exact Or.inr ⟨h1, plainToks_cons h1'⟩
    · have hn' : isNumTok t = false := by simpa using hn
      have hs := sCounts_nonnum r hn'
      rcases pNum_other t r inl with ⟨e, he, he'⟩ | ⟨m, hm, hd⟩
      · rw [he]; exact ⟨hs, he'⟩
      · rw [hm]
        dsimp only
        have h2 := rangeRest_gen m r inl
        cases hr : rangeRest m ⟨r, inl⟩ with
        | error e =>
          rw [hr] at h2
          dsimp only at h2 ⊢
          exact ⟨hs, h2⟩
        | ok v =>
          obtain ⟨⟨mn, mx⟩, st'⟩ := v
          rw [hr] at h2
          simp only at h2 ⊢
          refine ⟨h2.1, List.IsSuffix.trans h2.2 (List.suffix_cons _ _), Or.inr ⟨hs, ?_⟩⟩
          simp [plainToks, hd, hn']


theorem plainToks_suffix {l l' : List String} (h : l' <:+ l) (hp : plainToks l' = false) : plainToks l = false := by
  obtain ⟨c, rfl⟩ := h
  induction c with
  | nil => exact hp
  | cons a c ih => exact plainToks_cons ih

/-- what `parse_expr_subscript`'s loop returned (`res`) is what the specification reads after `r` on `toks` -/
def SufOk (r : RE) (toks : List String) (inl : Option Bool) (res : PRes Expr) : Prop :=
  match res with
  | .ok (e', st') => st'.inline = inl ∧ st'.toks <:+ toks ∧
      (sSuffix r toks = .ok (e'.toRE, st'.toks) ∨ (sSuffix r toks = .error .syntax ∧ plainToks toks = false))
  | .error err => sSuffix r toks = .error .syntax ∧ err.toPErr = .syntax

theorem SufOk.step {r r2 : RE} {toks toks2 : List String} {inl : Option Bool} {res : PRes Expr}
    (h : SufOk r2 toks2 inl res) (hs : toks2 <:+ toks) (he : sSuffix r toks = sSuffix r2 toks2) :
    SufOk r toks inl res := by
  unfold SufOk at h ⊢
  split
  · rename_i e' st'
    simp only at h
    rw [he]
    refine ⟨h.1, h.2.1.trans hs, ?_⟩
    rcases h.2.2 with h' | ⟨h', hp⟩
    · exact Or.inl h'
    · exact Or.inr ⟨h', plainToks_suffix hs hp⟩
  · rw [he]; exact h

theorem pSuffix_spec : ∀ (n : Nat) (e : Expr) (toks : List String) (inl : Option Bool),
    pSuffix n e ⟨toks, inl⟩ ≠ .error .fuel → SufOk e.toRE toks inl (pSuffix n e ⟨toks, inl⟩) := by
  intro n
  induction n with
  | zero => intro e toks inl h; exact absurd rfl h
  | succ n ih =>
    intro e toks inl hf
    cases toks with
    | nil => simp [pSuffix, SufOk, sSuffix_nil]
    | cons t r =>
      by_cases h1 : t = "+"
      · subst h1
        have e1 : pSuffix (n + 1) e ⟨"+" :: r, inl⟩ = pSuffix n (.plus e) ⟨r, inl⟩ := by simp [pSuffix]
        rw [e1] at hf ⊢
        exact (ih _ r inl hf).step (List.suffix_cons _ _) (by rw [sSuffix_plus]; simp [Expr.toRE])
      by_cases h2 : t = "*"
      · subst h2
        have e1 : pSuffix (n + 1) e ⟨"*" :: r, inl⟩ = pSuffix n (.star e) ⟨r, inl⟩ := by simp [pSuffix]
        rw [e1] at hf ⊢
        exact (ih _ r inl hf).step (List.suffix_cons _ _) (by rw [sSuffix_star]; simp [Expr.toRE])
      by_cases h3 : t = "?"
      · subst h3
        have e1 : pSuffix (n + 1) e ⟨"?" :: r, inl⟩ = pSuffix n (.opt e) ⟨r, inl⟩ := by simp [pSuffix]
        rw [e1] at hf ⊢
        exact (ih _ r inl hf).step (List.suffix_cons _ _) (by rw [sSuffix_opt]; simp [Expr.toRE])
      by_cases h4 : t = "{"
      · subst h4
        have e1 : pSuffix (n + 1) e ⟨"{" :: r, inl⟩ =
            match pRange ⟨r, inl⟩ with
            | .error err => .error err
            | .ok ((mn, mx), st) => pSuffix n (.range mn mx e) st := by
          simp [pSuffix]
          rcases pRange ⟨r, inl⟩ with _ | ⟨⟨_, _⟩, _⟩ <;> rfl
        rw [e1] at hf ⊢
        have hr := pRange_spec r inl
        cases hp : pRange ⟨r, inl⟩ with
        | error err =>
          rw [hp] at hr
          dsimp only at hr ⊢
          refine ⟨?_, hr.2⟩
          rw [sSuffix_brace, hr.1]
        | ok v =>
          obtain ⟨⟨mn, mx⟩, ⟨toks1, inl1⟩⟩ := v
          rw [hp] at hr hf
          dsimp only at hr hf ⊢
          obtain ⟨rfl, hsuf, hc⟩ := hr
          rcases hc with hc | ⟨hc, hpl⟩
          · exact (ih _ toks1 inl1 hf).step (hsuf.trans (List.suffix_cons _ _))
              (by rw [sSuffix_brace, hc]; simp [Expr.toRE])
          · have hs : sSuffix e.toRE ("{" :: r) = .error .syntax := by rw [sSuffix_brace, hc]
            have h0 := ih _ toks1 inl1 hf
            unfold SufOk at h0 ⊢
            split
            · rename_i e' st' heq
              rw [heq] at h0
              exact ⟨h0.1, h0.2.1.trans (hsuf.trans (List.suffix_cons _ _)), Or.inr ⟨hs, hpl⟩⟩
            · rename_i err heq
              rw [heq] at h0
              exact ⟨hs, h0.2⟩
      · have e1 : pSuffix (n + 1) e ⟨t :: r, inl⟩ = .ok (e, ⟨t :: r, inl⟩) := by simp [pSuffix, h1, h2, h3, h4]
        rw [e1]
        exact ⟨rfl, List.suffix_refl _, Or.inl (sSuffix_other _ _ _ h1 h2 h3 h4)⟩

/-! ### names -/

theorem toREs_map_name (ids : List Nat) : Expr.toREs (ids.map .name) = ids.map RE.sym := by
  induction ids with
  | nil => rfl
  | cons i is ih => simp [Expr.toREs, Expr.toRE, ih]

theorem namesExpr_toRE (ids : List Nat) : (namesExpr ids).toRE = RE.alts (ids.map RE.sym) := by
  unfold namesExpr
  split
  · simp [Expr.toRE, RE.alts]
  · simp [Expr.toRE, toREs_map_name]

theorem checkInline_some (table : List NameInfo) : ∀ (ids : List Nat) (b : Bool),
    checkInline table ids (some b) =
      if (ids.map (fun i => (table[i]!).isInline)).all (· == b) then .ok (some b) else .error .mixed := by
  intro ids
  induction ids with
  | nil => intro b; simp [checkInline]
  | cons i is ih =>
    intro b
    simp only [checkInline, List.map_cons, List.all_cons, ih]
    generalize (table[i]!).isInline = f
    cases f <;> cases b <;> simp

theorem sName_eq (table : List NameInfo) (name : String) (inl : Option Bool) : sName table name inl =
    if (resolveIds table name).isEmpty then .error .unknownName
    else if ((resolveIds table name).map (fun i => (table[i]!).isInline)).all
        (· == inl.getD (((resolveIds table name).map (fun i => (table[i]!).isInline)).headD false)) then
      .ok (RE.alts ((resolveIds table name).map RE.sym),
        some (inl.getD (((resolveIds table name).map (fun i => (table[i]!).isInline)).headD false)))
    else .error .mixed := rfl

theorem pName_spec (table : List NameInfo) (t : String) (r : List String) (st : PState) :
    match pName table t r st with
    | .ok (e, st') => sName table t st.inline = .ok (e.toRE, st'.inline) ∧ st'.toks = r
    | .error err => sName table t st.inline = .error err.toPErr ∧ err ≠ .fuel := by
  rw [sName_eq]
  unfold pName
  dsimp only
  generalize resolveIds table t = ids
  cases ids with
  | nil => simp [CErr.toPErr]
  | cons i is =>
    simp only [List.isEmpty_cons, Bool.false_eq_true, if_false, List.map_cons, List.headD_cons]
    cases hinl : st.inline with
    | none =>
      simp only [checkInline, Option.getD_none, List.all_cons, beq_self_eq_true, Bool.true_and]
      rw [checkInline_some]
      cases hc : (List.map (fun i => (table[i]!).isInline) is).all (· == (table[i]!).isInline) with
      | true => simp only [if_true]; exact ⟨by rw [namesExpr_toRE]; rfl, trivial⟩
      | false => simp only [Bool.false_eq_true, if_false]; exact ⟨rfl, by simp⟩
    | some b =>
      rw [checkInline_some]
      simp only [Option.getD_some, List.map_cons]
      cases hc : ((table[i]!).isInline :: List.map (fun i => (table[i]!).isInline) is).all (· == b) with
      | true => simp only [if_true]; exact ⟨by rw [namesExpr_toRE]; rfl, trivial⟩
      | false => simp only [Bool.false_eq_true, if_false]; exact ⟨rfl, by simp⟩

/-! ### the grammar functions of the specification, unfolded -/

/-- sequencing of the specification's grammar functions (proof-side name for their `match … | other => other`) -/
def andThen (x : SRes) (f : RE → PState → SRes) : SRes :=
  match x with
  | some (.ok (r, st)) => f r st
  | other => other

@[simp] theorem andThen_ok (r : RE) (st : PState) (f : RE → PState → SRes) : andThen (some (.ok (r, st))) f = f r st := rfl
@[simp] theorem andThen_error (e : PErr) (f : RE → PState → SRes) : andThen (some (.error e)) f = some (.error e) := rfl
@[simp] theorem andThen_none (f : RE → PState → SRes) : andThen none f = none := rfl

theorem sExpr_succ (table : List NameInfo) (k : Nat) (st : PState) : sExpr table (k + 1) st =
    andThen (sSeq table k st) (fun r st1 =>
      match st1.toks with
      | [] => some (.ok (r, st1))
      | t :: ts =>
        if t = "|" then andThen (sExpr table k { st1 with toks := ts }) (fun r' st2 => some (.ok (RE.alt r r', st2)))
        else some (.ok (r, st1))) := by
  rw [sExpr]
  rcases sSeq table k st with _ | ⟨e | ⟨r, st1⟩⟩
  · rfl
  · rfl
  · simp only [andThen_ok]
    rcases h : st1.toks with _ | ⟨t, ts⟩
    · simp
    · by_cases ht : t = "|"
      · subst ht
        simp only [if_true]
        rcases sExpr table k { st1 with toks := ts } with _ | ⟨e | ⟨r', st2⟩⟩ <;> rfl
      · simp [ht]

theorem sSeq_succ (table : List NameInfo) (k : Nat) (st : PState) : sSeq table (k + 1) st =
    andThen (sSub table k st) (fun r st1 =>
      match st1.toks with
      | [] => some (.ok (r, st1))
      | t :: _ =>
        if t = ")" ∨ t = "|" then some (.ok (r, st1))
        else andThen (sSeq table k st1) (fun r' st2 => some (.ok (RE.seq r r', st2)))) := by
  rw [sSeq]
  rcases sSub table k st with _ | ⟨e | ⟨r, st1⟩⟩
  · rfl
  · rfl
  · simp only [andThen_ok]
    rcases h : st1.toks with _ | ⟨t, ts⟩
    · simp
    · by_cases ht : t = ")" ∨ t = "|"
      · rcases ht with rfl | rfl <;> simp
      · have h1 : ¬ t = ")" := fun e => ht (Or.inl e)
        have h2 : ¬ t = "|" := fun e => ht (Or.inr e)
        simp only [List.isEmpty_cons, List.head?_cons, Bool.false_or]
        have hc : (some t == some ")" || some t == some "|") = false := by simp [h1, h2]
        simp only [hc, Bool.false_eq_true, if_false, if_neg ht]
        rcases sSeq table k st1 with _ | ⟨e | ⟨r', st2⟩⟩ <;> rfl

theorem sSub_succ (table : List NameInfo) (k : Nat) (st : PState) : sSub table (k + 1) st =
    andThen (sAtom table k st) (fun r st1 =>
      match sSuffix r st1.toks with
      | .ok (r, ts) => some (.ok (r, { st1 with toks := ts }))
      | .error e => some (.error e)) := by
  rw [sSub]
  rcases sAtom table k st with _ | ⟨e | ⟨r, st1⟩⟩ <;> rfl

theorem sAtom_succ (table : List NameInfo) (k : Nat) (st : PState) : sAtom table (k + 1) st =
    match st.toks with
    | [] => some (.error .syntax)
    | t :: ts =>
      if t = "(" then
        andThen (sExpr table k { st with toks := ts }) (fun r st1 =>
          match st1.toks with
          | [] => some (.error .syntax)
          | t' :: ts' => if t' = ")" then some (.ok (r, { st1 with toks := ts' })) else some (.error .syntax))
      else if isWordTok t then
        match sName table t st.inline with
        | .ok (r, inl) => some (.ok (r, { toks := ts, inline := inl }))
        | .error e => some (.error e)
      else some (.error .syntax) := by
  rw [sAtom]
  rcases h : st.toks with _ | ⟨t, ts⟩
  · rfl
  · by_cases ht : t = "("
    · subst ht
      simp only [if_true]
      rcases sExpr table k { st with toks := ts } with _ | ⟨e | ⟨r, st1⟩⟩
      · rfl
      · rfl
      · simp only [andThen_ok]
        rcases h1 : st1.toks with _ | ⟨t', ts'⟩
        · simp
        · by_cases ht' : t' = ")"
          · subst ht'; simp
          · simp [ht']
    · simp only [if_neg ht]
      by_cases hw : isWordTok t = true
      · simp only [hw, if_true]
        rcases sName table t st.inline with e | ⟨r, inl⟩ <;> simp [ht]
      · simp [hw, ht]

/-! ### lists of alternatives and of factors -/

theorem toREs_append (a b : List Expr) : Expr.toREs (a ++ b) = Expr.toREs a ++ Expr.toREs b := by
  induction a with
  | nil => rfl
  | cons x a ih => simp [Expr.toREs, ih]

theorem alts_cons_cons (x y : RE) (l : List RE) : RE.alts (x :: y :: l) = RE.alt x (RE.alts (y :: l)) := rfl
theorem seqs_cons_cons (x y : RE) (l : List RE) : RE.seqs (x :: y :: l) = RE.seq x (RE.seqs (y :: l)) := rfl

theorem alts_cons_ne (x : RE) {l : List RE} (h : l ≠ []) : RE.alts (x :: l) = RE.alt x (RE.alts l) := by
  cases l with
  | nil => exact absurd rfl h
  | cons y l => rfl

theorem seqs_cons_ne (x : RE) {l : List RE} (h : l ≠ []) : RE.seqs (x :: l) = RE.seq x (RE.seqs l) := by
  cases l with
  | nil => exact absurd rfl h
  | cons y l => rfl

/-- the alternatives read so far, then the (right-nested) rest -/
theorem alts_snoc (xs : List RE) (a b : RE) : RE.alts (xs ++ [a, b]) = RE.alts (xs ++ [RE.alt a b]) := by
  induction xs with
  | nil => rfl
  | cons x xs ih =>
    simp only [List.cons_append]
    rw [alts_cons_ne x (by simp), alts_cons_ne x (by simp), ih]

theorem seqs_snoc (xs : List RE) (a b : RE) : RE.seqs (xs ++ [a, b]) = RE.seqs (xs ++ [RE.seq a b]) := by
  induction xs with
  | nil => rfl
  | cons x xs ih =>
    simp only [List.cons_append]
    rw [seqs_cons_ne x (by simp), seqs_cons_ne x (by simp), ih]

theorem mkChoice_toRE {l : List Expr} (h : l ≠ []) : (mkChoice l).toRE = RE.alts (Expr.toREs l) := by
  unfold mkChoice
  split
  · simp [Expr.toREs, RE.alts]
  · simp [Expr.toRE]

theorem mkSeq_toRE {l : List Expr} (h : l ≠ []) : (PM.mkSeq l).toRE = RE.seqs (Expr.toREs l) := by
  unfold PM.mkSeq
  split
  · simp [Expr.toREs, RE.seqs]
  · simp [Expr.toRE]


/-! ### the two recursive descents side by side -/

/-- the code's parser returned `p`, the specification `s`, on the tokens `toks`: the same refusal class, or the same
    state and expressions related by `P` — or the specification refused a number that is not plain -/
def Ok (P : Expr → RE → Prop) (toks : List String) (p : PRes Expr) (s : SRes) : Prop :=
  (match p with
   | .ok (e, st') => ∃ R, s = some (.ok (R, st')) ∧ P e R ∧ st'.toks <:+ toks
   | .error err => s = some (.error err.toPErr))
  ∨ (s = some (.error .syntax) ∧ plainToks toks = false)

def AgreeInv (table : List NameInfo) (n : Nat) : Prop :=
  (∀ acc st, pChoice table n acc st ≠ .error .fuel →
    Ok (fun e R => e.toRE = RE.alts (Expr.toREs acc ++ [R])) st.toks (pChoice table n acc st) (sExpr table n st)) ∧
  (∀ acc st, pSeq table n acc st ≠ .error .fuel →
    Ok (fun e R => e.toRE = RE.seqs (Expr.toREs acc ++ [R])) st.toks (pSeq table n acc st) (sSeq table n st)) ∧
  (∀ st, pSub table n st ≠ .error .fuel →
    Ok (fun e R => e.toRE = R) st.toks (pSub table n st) (sSub table n st)) ∧
  (∀ st, pAtom table n st ≠ .error .fuel →
    Ok (fun e R => e.toRE = R) st.toks (pAtom table n st) (sAtom table n st))

theorem agree_choice {table : List NameInfo} {n : Nat} (ih : AgreeInv table n) (acc : List Expr) (st : PState)
    (hf : pChoice table (n + 1) acc st ≠ .error .fuel) :
    Ok (fun e R => e.toRE = RE.alts (Expr.toREs acc ++ [R])) st.toks (pChoice table (n + 1) acc st)
      (sExpr table (n + 1) st) := by
  obtain ⟨ihC, ihQ, _, _⟩ := ih
  rw [pChoice] at hf ⊢
  rw [sExpr_succ]
  cases h1 : pSeq table n [] st with
  | error e1 =>
    have h := ihQ [] st (by rw [h1]; intro h; rw [h1] at hf; exact hf (by rw [h]))
    rw [h1] at h
    rcases h with h | ⟨hs, hp⟩
    · dsimp only at h ⊢
      rw [h]; exact Or.inl rfl
    · rw [hs]; exact Or.inr ⟨rfl, hp⟩
  | ok v =>
    obtain ⟨e1, st1⟩ := v
    have h := ihQ [] st (by rw [h1]; simp)
    rw [h1] at h hf
    rcases h with ⟨R1, hs, hR, hsuf⟩ | ⟨hs, hp⟩
    · rw [hs]
      simp only [andThen_ok]
      dsimp only at hf ⊢
      have hR1 : e1.toRE = R1 := by simpa [Expr.toREs, RE.seqs] using hR
      have hfin : Ok (fun e R => e.toRE = RE.alts (Expr.toREs acc ++ [R])) st.toks
          (.ok (mkChoice (acc ++ [e1]), st1)) (some (.ok (R1, st1))) :=
        Or.inl ⟨R1, rfl, by dsimp only; rw [mkChoice_toRE (by simp), toREs_append]; simp [Expr.toREs, hR1], hsuf⟩
      rcases hst : st1.toks with _ | ⟨t, r⟩
      · exact hfin
      · rw [hst] at hf
        dsimp only at hf ⊢
        by_cases ht : t = "|"
        · subst ht
          simp only [beq_self_eq_true, if_true] at hf ⊢
          have h2 := ihC (acc ++ [e1]) { st1 with toks := r } hf
          have hsuf2 : r <:+ st.toks := (List.suffix_cons _ _).trans (hst ▸ hsuf)
          rcases h2 with h2 | ⟨hs2, hp2⟩
          · cases h3 : pChoice table n (acc ++ [e1]) { st1 with toks := r } with
            | error e2 =>
              rw [h3] at h2
              dsimp only at h2
              rw [h2]; exact Or.inl rfl
            | ok v2 =>
              obtain ⟨e2, st2⟩ := v2
              rw [h3] at h2
              obtain ⟨R2, hs2, hR2, hsuf3⟩ := h2
              rw [hs2]
              refine Or.inl ⟨RE.alt R1 R2, rfl, ?_, hsuf3.trans hsuf2⟩
              dsimp only at hR2 ⊢
              rw [hR2, toREs_append, List.append_assoc, ← alts_snoc]
              simp [Expr.toREs, hR1]
          · rw [hs2]
            exact Or.inr ⟨rfl, plainToks_suffix hsuf2 hp2⟩
        · have ht' : (t == "|") = false := by simpa using ht
          simp only [ht', Bool.false_eq_true, if_false, if_neg ht]
          exact hfin
    · rw [hs]; exact Or.inr ⟨rfl, hp⟩


theorem agree_seq {table : List NameInfo} {n : Nat} (ih : AgreeInv table n) (acc : List Expr) (st : PState)
    (hf : pSeq table (n + 1) acc st ≠ .error .fuel) :
    Ok (fun e R => e.toRE = RE.seqs (Expr.toREs acc ++ [R])) st.toks (pSeq table (n + 1) acc st)
      (sSeq table (n + 1) st) := by
  obtain ⟨_, ihQ, ihS, _⟩ := ih
  rw [pSeq] at hf ⊢
  rw [sSeq_succ]
  cases h1 : pSub table n st with
  | error e1 =>
    have h := ihS st (by rw [h1]; intro h; rw [h1] at hf; exact hf (by rw [h]))
    rw [h1] at h
    rcases h with h | ⟨hs, hp⟩
    · dsimp only at h ⊢
      rw [h]; exact Or.inl rfl
    · rw [hs]; exact Or.inr ⟨rfl, hp⟩
  | ok v =>
    obtain ⟨e1, st1⟩ := v
    have h := ihS st (by rw [h1]; simp)
    rw [h1] at h hf
    rcases h with ⟨R1, hs, hR1, hsuf⟩ | ⟨hs, hp⟩
    · rw [hs]
      simp only [andThen_ok]
      dsimp only at hf hR1 ⊢
      have hfin : Ok (fun e R => e.toRE = RE.seqs (Expr.toREs acc ++ [R])) st.toks
          (.ok (PM.mkSeq (acc ++ [e1]), st1)) (some (.ok (R1, st1))) :=
        Or.inl ⟨R1, rfl, by dsimp only; rw [mkSeq_toRE (by simp), toREs_append]; simp [Expr.toREs, hR1], hsuf⟩
      rcases hst : st1.toks with _ | ⟨t, r⟩
      · exact hfin
      · rw [hst] at hf
        dsimp only at hf ⊢
        by_cases ht : t = ")" ∨ t = "|"
        · have ht' : (t == ")" || t == "|") = true := by rcases ht with rfl | rfl <;> simp
          simp only [ht', if_true, if_pos ht]
          exact hfin
        · have ht' : (t == ")" || t == "|") = false := by
            simp only [not_or] at ht
            simp [ht.1, ht.2]
          simp only [ht', Bool.false_eq_true, if_false, if_neg ht] at hf ⊢
          have h2 := ihQ (acc ++ [e1]) st1 hf
          rcases h2 with h2 | ⟨hs2, hp2⟩
          · cases h3 : pSeq table n (acc ++ [e1]) st1 with
            | error e2 =>
              rw [h3] at h2
              dsimp only at h2
              rw [h2]; exact Or.inl rfl
            | ok v2 =>
              obtain ⟨e2, st2⟩ := v2
              rw [h3] at h2
              obtain ⟨R2, hs2, hR2, hsuf3⟩ := h2
              rw [hs2]
              refine Or.inl ⟨RE.seq R1 R2, rfl, ?_, hsuf3.trans hsuf⟩
              dsimp only at hR2 ⊢
              rw [hR2, toREs_append, List.append_assoc, ← seqs_snoc]
              simp [Expr.toREs, hR1]
          · rw [hs2]
            exact Or.inr ⟨rfl, plainToks_suffix hsuf hp2⟩
    · rw [hs]; exact Or.inr ⟨rfl, hp⟩

theorem agree_sub {table : List NameInfo} {n : Nat} (ih : AgreeInv table n) (st : PState)
    (hf : pSub table (n + 1) st ≠ .error .fuel) :
    Ok (fun e R => e.toRE = R) st.toks (pSub table (n + 1) st) (sSub table (n + 1) st) := by
  obtain ⟨_, _, _, ihA⟩ := ih
  rw [pSub] at hf ⊢
  rw [sSub_succ]
  cases h1 : pAtom table n st with
  | error e1 =>
    have h := ihA st (by rw [h1]; intro h; rw [h1] at hf; exact hf (by rw [h]))
    rw [h1] at h
    rcases h with h | ⟨hs, hp⟩
    · dsimp only at h ⊢
      rw [h]; exact Or.inl rfl
    · rw [hs]; exact Or.inr ⟨rfl, hp⟩
  | ok v =>
    obtain ⟨e1, ⟨toks1, inl1⟩⟩ := v
    have h := ihA st (by rw [h1]; simp)
    rw [h1] at h hf
    rcases h with ⟨R1, hs, hR1, hsuf⟩ | ⟨hs, hp⟩
    · rw [hs]
      simp only [andThen_ok]
      dsimp only at hf hR1 hsuf ⊢
      subst hR1
      have h2 := pSuffix_spec n e1 toks1 inl1 hf
      unfold SufOk at h2
      cases h3 : pSuffix n e1 ⟨toks1, inl1⟩ with
      | error e2 =>
        rw [h3] at h2
        dsimp only at h2 ⊢
        rw [h2.1]
        exact Or.inl (by dsimp only; rw [h2.2])
      | ok v2 =>
        obtain ⟨e2, ⟨toks2, inl2⟩⟩ := v2
        rw [h3] at h2
        dsimp only at h2 ⊢
        obtain ⟨rfl, hsuf2, h2⟩ := h2
        rcases h2 with h2 | ⟨h2, hp2⟩
        · rw [h2]
          exact Or.inl ⟨e2.toRE, rfl, rfl, hsuf2.trans hsuf⟩
        · rw [h2]
          exact Or.inr ⟨rfl, plainToks_suffix hsuf hp2⟩
    · rw [hs]; exact Or.inr ⟨rfl, hp⟩


theorem agree_atom {table : List NameInfo} {n : Nat} (ih : AgreeInv table n) (st : PState)
    (hf : pAtom table (n + 1) st ≠ .error .fuel) :
    Ok (fun e R => e.toRE = R) st.toks (pAtom table (n + 1) st) (sAtom table (n + 1) st) := by
  obtain ⟨ihC, _, _, _⟩ := ih
  rw [pAtom] at hf ⊢
  rw [sAtom_succ]
  rcases hst : st.toks with _ | ⟨t, r⟩
  · exact Or.inl rfl
  · rw [hst] at hf
    dsimp only at hf ⊢
    by_cases ht : t = "("
    · subst ht
      simp only [beq_self_eq_true, if_true] at hf ⊢
      cases h1 : pChoice table n [] { st with toks := r } with
      | error e1 =>
        have h := ihC [] { st with toks := r } (by rw [h1]; intro h; rw [h1] at hf; exact hf (by rw [h]))
        rw [h1] at h
        rcases h with h | ⟨hs, hp⟩
        · dsimp only at h ⊢
          rw [h]; exact Or.inl rfl
        · rw [hs]; exact Or.inr ⟨rfl, plainToks_cons hp⟩
      | ok v =>
        obtain ⟨e1, st1⟩ := v
        have h := ihC [] { st with toks := r } (by rw [h1]; simp)
        rw [h1] at h
        rcases h with ⟨R1, hs, hR, hsuf⟩ | ⟨hs, hp⟩
        · rw [hs]
          simp only [andThen_ok]
          have hR1 : e1.toRE = R1 := by simpa [Expr.toREs, RE.alts] using hR
          dsimp only at hsuf ⊢
          rcases hst1 : st1.toks with _ | ⟨t', r'⟩
          · exact Or.inl rfl
          · dsimp only
            by_cases ht' : t' = ")"
            · subst ht'
              simp only [beq_self_eq_true, if_true]
              refine Or.inl ⟨R1, rfl, hR1, ?_⟩
              dsimp only
              exact (List.suffix_cons _ _).trans ((hst1 ▸ hsuf).trans (List.suffix_cons _ _))
            · have hb : (t' == ")") = false := by simpa using ht'
              simp only [hb, Bool.false_eq_true, if_false, if_neg ht']
              exact Or.inl rfl
        · rw [hs]; exact Or.inr ⟨rfl, plainToks_cons hp⟩
    · have hb : (t == "(") = false := by simpa using ht
      simp only [hb, Bool.false_eq_true, if_false, if_neg ht] at hf ⊢
      by_cases hw : isWordTok t = true
      · simp only [hw, if_true]
        have h := pName_spec table t r st
        cases h1 : pName table t r st with
        | error e1 =>
          rw [h1] at h
          dsimp only at h ⊢
          rw [h.1]; exact Or.inl rfl
        | ok v =>
          obtain ⟨e1, ⟨toks1, inl1⟩⟩ := v
          rw [h1] at h
          dsimp only at h ⊢
          obtain ⟨h, rfl⟩ := h
          rw [h]
          exact Or.inl ⟨e1.toRE, rfl, rfl, List.suffix_cons _ _⟩
      · simp only [hw, Bool.false_eq_true, if_false]
        exact Or.inl rfl

theorem agree_inv (table : List NameInfo) : ∀ n, AgreeInv table n := by
  intro n
  induction n with
  | zero =>
    refine ⟨?_, ?_, ?_, ?_⟩
    · intro acc st h; exact absurd (by simp [pChoice]) h
    · intro acc st h; exact absurd (by simp [pSeq]) h
    · intro st h; exact absurd (by simp [pSub]) h
    · intro st h; exact absurd (by simp [pAtom]) h
  | succ n ih =>
    exact ⟨agree_choice ih, agree_seq ih, agree_sub ih, agree_atom ih⟩

/-! ### the top level -/

/-- the reading of the code's parser, in the terms of the specification: the regular expression of the AST, or the
    documented reason of the refusal -/
def codeReading (x : Except CErr (Option Expr)) : Except PErr RE :=
  match x with
  | .ok oe => .ok (contentRE oe)
  | .error e => .error e.toPErr

theorem top_agree (table : List NameInfo) (toks : List String) :
    Ok (fun e R => e.toRE = R) toks (pChoice table (parseFuel toks) [] { toks := toks })
      (sExpr table (4 * toks.length + 4) { toks := toks }) := by
  have h := (agree_inv table (parseFuel toks)).1 [] { toks := toks }
    ((fuel_inv table _).1 [] _ (by simp [parseFuel]))
  simpa [Expr.toREs, RE.alts, parseFuel] using h

/-- the recursion allowance of the specification reader is never used up -/
theorem sExpr_allowance (table : List NameInfo) (toks : List String) :
    sExpr table (4 * toks.length + 4) { toks := toks } ≠ none := by
  rcases top_agree table toks with h | ⟨h, _⟩
  · cases hp : pChoice table (parseFuel toks) [] { toks := toks } with
    | error e => rw [hp] at h; dsimp only at h; rw [h]; simp
    | ok v => obtain ⟨e, st'⟩ := v; rw [hp] at h; obtain ⟨R, h, _⟩ := h; rw [h]; simp
  · rw [h]; simp

/-- **the two readers agree** — or the specification refuses a count that is not a plain decimal number -/
theorem specParse_or (table : List NameInfo) (s : String) :
    specParse table s = codeReading (parseC table s) ∨
      (specParse table s = .error .syntax ∧ plainToks (tokenize s) = false) := by
  unfold specParse parseC
  dsimp only
  by_cases hemp : (tokenize s).isEmpty = true
  · simp [hemp, codeReading, contentRE]
  · simp only [hemp, Bool.false_eq_true, if_false]
    unfold parseToks
    rcases top_agree table (tokenize s) with h | ⟨h, hp⟩
    · left
      cases hpc : pChoice table (parseFuel (tokenize s)) [] { toks := tokenize s } with
      | error e =>
        rw [hpc] at h
        dsimp only at h ⊢
        rw [h]
        rfl
      | ok v =>
        obtain ⟨e, st'⟩ := v
        rw [hpc] at h
        obtain ⟨R, h, rfl, _⟩ := h
        rw [h]
        dsimp only
        by_cases he : st'.toks.isEmpty = true
        · simp [he, codeReading, contentRE]
        · simp [he, codeReading, CErr.toPErr]
    · right
      rw [h]
      exact ⟨rfl, hp⟩

theorem specParse_eq (table : List NameInfo) (s : String) (hp : PlainNumbers s) :
    specParse table s = codeReading (parseC table s) := by
  rcases specParse_or table s with h | ⟨_, h⟩
  · exact h
  · rw [PlainNumbers] at hp; rw [hp] at h; cases h

end PM.SpecParse
