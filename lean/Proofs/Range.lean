/- Proofs/Range.lean — helper lemmas for the block-range and text-with-separators theorems of
   Props/C09.lean: two resolved positions share their ancestors as far as the ancestor's content
   contains both; the `block_range` loop; balanced windows; the `text_between` callback fold. -/
import PM.Resolve
import Proofs.Toks
import Proofs.TokCore
import Proofs.Resolve
namespace PM

/-! ### every entry of a resolved path below the root is an element node -/

theorem resolveScan_head (node : Node) (start : Nat) (rest : List Node) (idx cur po : Nat)
    (path : Path) (h : resolveScan node start rest idx cur po = some path) :
    ∃ e tl, path = e :: tl ∧ e.node = node := by
  fun_induction resolveScan node start rest idx cur po generalizing path
  case case1 => simp at h; subst h; exact ⟨_, _, rfl, rfl⟩
  case case2 => simp at h
  case case3 => simp at h; subst h; exact ⟨_, _, rfl, rfl⟩
  case case4 ih => exact ih path h
  case case5 node start ns idx cur po h0 ty ats mk kids h1 ih =>
    cases hr : resolveScan (Node.elem ty ats mk kids) (start + cur + 1) kids 0 0 (po - 1) with
    | none => simp [hr] at h
    | some p' =>
      simp only [hr, Option.map_some, Option.some.injEq] at h
      subst h; exact ⟨_, _, rfl, rfl⟩
  case case6 => simp at h; subst h; exact ⟨_, _, rfl, rfl⟩

theorem resolveScan_tailElem (node : Node) (start : Nat) (rest : List Node) (idx cur po : Nat)
    (path : Path) (h : resolveScan node start rest idx cur po = some path) :
    ∀ e ∈ path.tail, e.node.isLeaf = false := by
  fun_induction resolveScan node start rest idx cur po generalizing path
  case case1 => simp at h; subst h; simp
  case case2 => simp at h
  case case3 => simp at h; subst h; simp
  case case4 ih => exact ih path h
  case case5 node start ns idx cur po h0 ty ats mk kids h1 ih =>
    cases hr : resolveScan (Node.elem ty ats mk kids) (start + cur + 1) kids 0 0 (po - 1) with
    | none => simp [hr] at h
    | some p' =>
      simp only [hr, Option.map_some, Option.some.injEq] at h
      subst h
      obtain ⟨e', tl, rfl, he'⟩ := resolveScan_head _ _ _ _ _ _ _ hr
      have := ih _ hr
      intro e he
      simp only [List.tail_cons, List.mem_cons] at he this
      rcases he with rfl | he
      · rw [he']; rfl
      · exact this e he
  case case6 => simp at h; subst h; simp

theorem resolve_tailElem {doc : Node} {pos : Nat} {r : RPos} (h : doc.resolve pos = some r)
    (k : Nat) (hk1 : 1 ≤ k) (hk : k ≤ r.depth) : (r.node k).isLeaf = false := by
  have R := resolve_resolved h
  have hlen := R.length_eq
  unfold Node.resolve at h
  split at h
  · cases hr : resolveScan doc 0 doc.kids 0 0 pos with
    | none => simp [hr] at h
    | some p =>
      simp only [hr, Option.map_some, Option.some.injEq] at h
      subst h
      have := resolveScan_tailElem _ _ _ _ _ _ _ hr
      obtain ⟨j, rfl⟩ : ∃ j, k = j + 1 := ⟨k - 1, by omega⟩
      cases p with
      | nil => simp at hlen
      | cons e tl =>
        simp only [List.tail_cons] at this
        simp only [List.length_cons] at hlen
        have hj : j < tl.length := by omega
        have hm : tl[j] ∈ tl := List.getElem_mem hj
        simpa [RPos.node, RPos.entry, hj] using this _ hm
  · simp at h

/-! ### prefix sizes of a child list are monotone -/

theorem fsize_take_mono (l : List Node) {i j : Nat} (h : i ≤ j) : fsize (l.take i) ≤ fsize (l.take j) := by
  have : l.take i = (l.take j).take i := by rw [List.take_take, Nat.min_eq_left h]
  rw [this]; exact fsize_take_le _ _

theorem fsize_take_succ (l : List Node) (i : Nat) (c : Node) (h : l[i]? = some c) :
    fsize (l.take (i + 1)) = fsize (l.take i) + c.size := by
  rw [List.take_add_one, h, fsize_append]; simp

theorem fsize_take_lt (l : List Node) {i j : Nat} (c : Node) (hc : l[i]? = some c) (h : i < j) :
    fsize (l.take i) + c.size ≤ fsize (l.take j) := by
  rw [← fsize_take_succ l i c hc]; exact fsize_take_mono l h

/-- a position inside child `i` and inside child `j` (start inclusive, end exclusive) : `i = j` -/
theorem child_unique (l : List Node) (i j : Nat) (c c' : Node) (x : Nat)
    (hc : l[i]? = some c) (hc' : l[j]? = some c')
    (h1 : fsize (l.take i) ≤ x) (h2 : x < fsize (l.take i) + c.size)
    (h3 : fsize (l.take j) ≤ x) (h4 : x < fsize (l.take j) + c'.size) : i = j := by
  rcases Nat.lt_trichotomy i j with h | h | h
  · have := fsize_take_lt l c hc h; omega
  · exact h
  · have := fsize_take_lt l c' hc' h; omega

/-- a position strictly inside child `i` is not a child boundary -/
theorem child_not_boundary (l : List Node) (i j : Nat) (c : Node) (x : Nat)
    (hc : l[i]? = some c) (h1 : fsize (l.take i) < x) (h2 : x < fsize (l.take i) + c.size)
    (h3 : x = fsize (l.take j)) : False := by
  rcases Nat.lt_or_ge i j with h | h
  · have := fsize_take_lt l c hc h; omega
  · have := fsize_take_mono l h; omega

/-! ### ancestors nest; two positions share the ancestors that contain both -/

namespace Resolved
variable {doc : Node} {pos : Nat} {r : RPos}

theorem end_eq (r : RPos) (k : Nat) : r.end_ k = r.start k + fsize (r.node k).kids := rfl

/-- the content window of the depth-`k+1` ancestor lies strictly inside its child slot at depth `k` -/
theorem nest (R : Resolved doc pos r) (k : Nat) (hk : k < r.depth) :
    r.start (k + 1) = (r.entry k).pos + 1 ∧
    r.end_ (k + 1) + 1 = (r.entry k).pos + (r.node (k + 1)).size ∧
    r.start k ≤ (r.entry k).pos ∧ r.end_ (k + 1) + 1 ≤ r.end_ k := by
  have E := R.entry k (by omega)
  obtain ⟨hc, hs⟩ := R.chain k hk
  have hle := child_size_le _ _ _ hc
  have hp := E.pos_eq
  have hst := start_succ r k
  have hn : (r.entry k).node = r.node k := rfl
  have hi : (r.entry k).index = r.index k := rfl
  rw [hn, hi] at hp
  refine ⟨hst, ?_, ?_, ?_⟩
  · rw [end_eq, hst]; omega
  · omega
  · rw [end_eq, end_eq, hst]; omega

theorem start_mono (R : Resolved doc pos r) : ∀ (j k : Nat), j ≤ k → k ≤ r.depth → r.start j ≤ r.start k
  | j, 0, h, _ => by have : j = 0 := by omega
                     subst this; exact Nat.le_refl _
  | j, k + 1, h, hk => by
    rcases Nat.eq_or_lt_of_le h with h' | h'
    · rw [h']; exact Nat.le_refl _
    · have := R.start_mono j k (by omega) (by omega)
      have := R.nest k (by omega)
      omega

theorem end_anti (R : Resolved doc pos r) : ∀ (j k : Nat), j ≤ k → k ≤ r.depth → r.end_ k ≤ r.end_ j
  | j, 0, h, _ => by have : j = 0 := by omega
                     subst this; exact Nat.le_refl _
  | j, k + 1, h, hk => by
    rcases Nat.eq_or_lt_of_le h with h' | h'
    · rw [h']; exact Nat.le_refl _
    · have := R.end_anti j k (by omega) (by omega)
      have := R.nest k (by omega)
      omega

end Resolved

/-- If `t` lies in the content of `f`'s depth-`k` ancestor, then `t` has the same ancestors up to
    depth `k`: same nodes, same content starts, same path entries above. -/
theorem resolved_agree {doc : Node} {f t : Nat} {rf rt : RPos}
    (hf : doc.resolve f = some rf) (ht : doc.resolve t = some rt) :
    ∀ k, k ≤ rf.depth → rf.start k ≤ t → t ≤ rf.end_ k →
      k ≤ rt.depth ∧ rt.node k = rf.node k ∧ rt.start k = rf.start k ∧
      ∀ j, j < k → rt.entry j = rf.entry j
  | 0, _, _, _ => by
    have Rf := resolve_resolved hf
    have Rt := resolve_resolved ht
    refine ⟨Nat.zero_le _, by rw [Rf.node_zero, Rt.node_zero], by simp [RPos.start], ?_⟩
    intro j hj; omega
  | k + 1, hk, h1, h2 => by
    have Rf := resolve_resolved hf
    have Rt := resolve_resolved ht
    obtain ⟨n1, n2, n3, n4⟩ := Rf.nest k (by omega)
    obtain ⟨a1, a2, a3, a4⟩ := resolved_agree hf ht k (by omega) (by omega) (by omega)
    have Ef := Rf.entry k (by omega)
    have Et := Rt.entry k a1
    obtain ⟨cf, sf⟩ := Rf.chain k (by omega)
    have pf := Ef.pos_eq
    have pt := Et.pos_eq
    have hnf : (rf.entry k).node = rf.node k := rfl
    have hif : (rf.entry k).index = rf.index k := rfl
    have hnt : (rt.entry k).node = rf.node k := a2
    have hit : (rt.entry k).index = rt.index k := rfl
    rw [hnf, hif] at pf
    rw [hnt, hit, a3] at pt
    have hel := resolve_tailElem hf (k + 1) (by omega) hk
    -- `t` is strictly inside child `index k` of f's ancestor
    have hin1 : fsize ((rf.node k).kids.take (rf.index k)) < t - rf.start k := by omega
    have hin2 : t - rf.start k < fsize ((rf.node k).kids.take (rf.index k)) + (rf.node (k + 1)).size := by omega
    rcases Nat.lt_or_ge k rt.depth with hlt | hge
    · -- t goes deeper: it is strictly inside child `rt.index k`
      obtain ⟨ct, st⟩ := Rt.chain k hlt
      obtain ⟨m1, m2, m3, m4⟩ := Rt.nest k hlt
      have Et1 := Rt.entry (k + 1) (by omega)
      have hle1 := Et1.pos_le
      have hpe1 := Et1.pos_eq
      have hle2 := Et1.le_end
      rw [show (rt.entry (k + 1)).node = rt.node (k + 1) from rfl] at hle2
      rw [a2] at ct
      have hidx : rf.index k = rt.index k :=
        child_unique _ _ _ _ _ (t - rf.start k) cf ct (by omega) hin2
          (by rw [Resolved.end_eq] at m2; omega) (by rw [Resolved.end_eq] at m2; omega)
      have hent : rt.entry k = rf.entry k := by
        have e1 : (rt.entry k).node = (rf.entry k).node := a2
        have e2 : (rt.entry k).index = (rf.entry k).index := hidx.symm
        have e3 : (rt.entry k).pos = (rf.entry k).pos := by rw [pf, pt, ← hidx]
        cases hA : rt.entry k; cases hB : rf.entry k
        rw [hA] at e1 e2 e3; rw [hB] at e1 e2 e3
        simp only at e1 e2 e3
        rw [e1, e2, e3]
      refine ⟨by omega, ?_, ?_, ?_⟩
      · rw [← hidx, cf] at ct
        exact (Option.some.inj ct).symm
      · rw [m1, n1, hent]
      · intro j hj
        rcases Nat.lt_or_ge j k with h | h
        · exact a4 j h
        · have : j = k := by omega
          subst this; exact hent
    · -- t stops at depth k: impossible, child `index k` is an element node
      exfalso
      have hd : k = rt.depth := by omega
      have hl := Rt.last
      rw [← hd] at hl
      rcases hl with hl | ⟨s, m, hs, hlt⟩
      · exact child_not_boundary _ _ (rt.index k) _ (t - rf.start k) cf hin1 hin2 (by omega)
      · have hs' : (rf.node k).kids[rt.index k]? = some (.text s m) := by rw [← a2]; exact hs
        have hle := Et.pos_le
        have hidx : rf.index k = rt.index k :=
          child_unique _ _ _ _ _ (t - rf.start k) cf hs' (by omega) hin2 (by omega)
            (by simp only [Node.size_text]; omega)
        rw [← hidx, cf] at hs'
        rw [Option.some.inj hs'] at hel
        simp [Node.isLeaf] at hel

/-! ### the `block_range` loop -/

theorem blockDepth_some (r : RPos) (other : Nat) (pred : Node → Bool) : ∀ (D d : Nat),
    r.blockDepth other pred D = some d →
    d ≤ D ∧ other ≤ r.end_ d ∧ pred (r.node d) = true ∧
      ∀ k, d < k → k ≤ D → ¬ (other ≤ r.end_ k ∧ pred (r.node k) = true)
  | 0, d, h => by
    unfold RPos.blockDepth at h
    split at h
    · rename_i hc
      simp only [Bool.and_eq_true, decide_eq_true_eq] at hc
      simp only [Option.some.injEq] at h; subst h
      exact ⟨Nat.le_refl _, hc.1, hc.2, fun k h1 h2 => by omega⟩
    · simp at h
  | D + 1, d, h => by
    unfold RPos.blockDepth at h
    split at h
    · rename_i hc
      simp only [Bool.and_eq_true, decide_eq_true_eq] at hc
      simp only [Option.some.injEq] at h; subst h
      exact ⟨Nat.le_refl _, hc.1, hc.2, fun k h1 h2 => by omega⟩
    · rename_i hc
      simp only [Bool.and_eq_true, decide_eq_true_eq] at hc
      obtain ⟨h1, h2, h3, h4⟩ := blockDepth_some r other pred D d h
      refine ⟨by omega, h2, h3, fun k hk1 hk2 => ?_⟩
      rcases Nat.lt_or_ge D k with hlt | hge
      · have : k = D + 1 := by omega
        subst this; exact hc
      · exact h4 k hk1 hge

theorem blockDepth_none (r : RPos) (other : Nat) (pred : Node → Bool) : ∀ (D : Nat),
    r.blockDepth other pred D = none →
      ∀ k, k ≤ D → ¬ (other ≤ r.end_ k ∧ pred (r.node k) = true)
  | 0, h => by
    unfold RPos.blockDepth at h
    split at h
    · simp at h
    · rename_i hc
      simp only [Bool.and_eq_true, decide_eq_true_eq] at hc
      intro k hk
      have : k = 0 := by omega
      subst this; exact hc
  | D + 1, h => by
    unfold RPos.blockDepth at h
    split at h
    · simp at h
    · rename_i hc
      simp only [Bool.and_eq_true, decide_eq_true_eq] at hc
      intro k hk
      rcases Nat.lt_or_ge D k with hlt | hge
      · have : k = D + 1 := by omega
        subst this; exact hc
      · exact blockDepth_none r other pred D h k hge

/-- `block_range` of two resolved positions `f ≤ t`, spelled out -/
theorem blockRange_master (S : Schema) {doc : Node} {f t : Nat} {rf rt : RPos}
    (hf : doc.resolve f = some rf) (ht : doc.resolve t = some rt) (hft : f ≤ t) :
    let sh : Bool := (S.nodeType (S.tyOf rf.parent)).inlineContent || f == t
    let c : Nat := if sh then 1 else 0
    (rf.depth < c → blockRange S doc f t = .ok none) ∧
    (c ≤ rf.depth → ∃ d, d + c ≤ rf.depth ∧ t ≤ rf.end_ d ∧
       (∀ k, d < k → k + c ≤ rf.depth → ¬ t ≤ rf.end_ k) ∧ d ≤ rt.depth ∧
       blockRange S doc f t = .ok (some (d, (if d = rf.depth then f else (rf.entry d).pos),
           (if d = rt.depth then t else (rt.entry d).pos + (rt.node (d + 1)).size)))) := by
  intro sh c
  have Rf := resolve_resolved hf
  have Rt := resolve_resolved ht
  have pf : rf.pos = f := Rf.pos_eq
  have pt : rt.pos = t := Rt.pos_eq
  have hnlt : ¬ t < f := by omega
  have hunf : blockRange S doc f t =
      if (sh && rf.depth == 0) = true then .ok none
      else match rf.blockDepth t (fun _ => true) (rf.depth - c) with
        | none => .ok none
        | some d =>
          match rf.before (d + 1), rt.after (d + 1) with
          | some s, some e => .ok (some (d, s, e))
          | _, _ => .error .internal := by
    simp only [blockRange, hf, ht, RPos.blockRange, pf, pt, if_neg hnlt, Option.getD_none]
    rfl
  constructor
  · intro hlt
    have hs : sh = true := by
      cases hsh : sh
      · simp [c, hsh] at hlt
      · rfl
    have hd : rf.depth = 0 := by simp [c, hs] at hlt; exact hlt
    rw [hunf, if_pos (by simp [hs, hd])]
  · intro hle
    have hcond : ¬ (sh && rf.depth == 0) = true := by
      intro h
      simp only [Bool.and_eq_true, beq_iff_eq] at h
      simp [c, h.1, h.2] at hle
    rw [hunf, if_neg hcond]
    cases hb : rf.blockDepth t (fun _ => true) (rf.depth - c) with
    | none =>
      exfalso
      have := blockDepth_none rf t _ _ hb 0 (Nat.zero_le _)
      apply this
      refine ⟨?_, rfl⟩
      have : rf.end_ 0 = fsize doc.kids := by simp [RPos.end_, RPos.start, Rf.node_zero]
      rw [this]; exact Rt.le
    | some d =>
      obtain ⟨h1, h2, _, h4⟩ := blockDepth_some rf t _ _ _ hb
      have hd : d ≤ rf.depth := by omega
      have hst : rf.start d ≤ t := by
        have E := Rf.entry d hd
        have := E.pos_eq; have := E.pos_le; omega
      obtain ⟨a1, _, _, _⟩ := resolved_agree hf ht d hd hst h2
      refine ⟨d, by omega, h2, fun k hk1 hk2 hk3 => h4 k hk1 (by omega) ⟨hk3, rfl⟩, a1, ?_⟩
      have hbef : rf.before (d + 1) = some (if d = rf.depth then f else (rf.entry d).pos) := by
        unfold RPos.before
        by_cases hdd : d = rf.depth
        · simp [hdd, pf]
        · have : d + 1 ≤ rf.depth := by omega
          simp [hdd, this]
      have haft : rt.after (d + 1) = some (if d = rt.depth then t else (rt.entry d).pos + (rt.node (d + 1)).size) := by
        unfold RPos.after
        by_cases hdd : d = rt.depth
        · simp [hdd, pt]
        · have : d + 1 ≤ rt.depth := by omega
          simp [hdd, this]
      simp only [hbef, haft]

/-- with the arguments the other way round the code swaps them -/
theorem blockRange_swap (S : Schema) (doc : Node) (f t : Nat) :
    blockRange S doc f t = blockRange S doc t f := by
  unfold blockRange
  cases hf : doc.resolve f with
  | none => cases doc.resolve t <;> rfl
  | some rf =>
    cases ht : doc.resolve t with
    | none => rfl
    | some rt =>
      have pf : rf.pos = f := (resolve_resolved hf).pos_eq
      have pt : rt.pos = t := (resolve_resolved ht).pos_eq
      simp only [RPos.blockRange, pf, pt, Option.getD_none]
      rcases Nat.lt_trichotomy f t with h | h | h
      · simp [h, Nat.not_lt.mpr (Nat.le_of_lt h)]
      · subst h
        have : rf = rt := by rw [hf] at ht; exact Option.some.inj ht
        subst this; rfl
      · simp [h, Nat.not_lt.mpr (Nat.le_of_lt h)]

/-! ### balanced windows -/

theorem ftoks_take (kids : List Node) (i : Nat) :
    (ftoks kids).take (fsize (kids.take i)) = ftoks (kids.take i) := by
  have h : ftoks kids = ftoks (kids.take i) ++ ftoks (kids.drop i) := by
    rw [← ftoks_append, List.take_append_drop]
  rw [h, ← ftoks_length (kids.take i), List.take_left]

theorem balance_take_boundary (kids : List Node) (i : Nat) :
    balance ((ftoks kids).take (fsize (kids.take i))) = 0 := by
  rw [ftoks_take, balance_ftoks]

theorem balance_take_in_text (kids : List Node) (i : Nat) (s : List Nat) (m : Marks) (off : Nat)
    (h : kids[i]? = some (.text s m)) (hoff : off ≤ s.length) :
    balance ((ftoks kids).take (fsize (kids.take i) + off)) = 0 := by
  have hs := kids_split kids i _ h
  have h' : ftoks kids = ftoks (kids.take i) ++ (s.map (Tok.unit · m) ++ ftoks (kids.drop (i + 1))) := by
    conv => lhs; rw [hs]
    simp [ftoks_append]
  rw [h', List.take_append, List.take_of_length_le (by rw [ftoks_length]; omega), ftoks_length,
    show fsize (kids.take i) + off - fsize (kids.take i) = off by omega, List.take_append,
    List.length_map, show off - s.length = 0 by omega]
  simp [balance_ftoks, balance_take_units]

theorem balance_take_last {st target : Nat} {e : PE} (E : EntryOK st target e) (L : LastOK target e) :
    balance ((ftoks e.node.kids).take (target - st)) = 0 := by
  have h1 := E.pos_eq
  have h2 := E.pos_le
  rcases L with h | ⟨s, m, hs, hlt⟩
  · rw [show target - st = fsize (e.node.kids.take e.index) by omega]
    exact balance_take_boundary _ _
  · rw [show target - st = fsize (e.node.kids.take e.index) + (target - e.pos) by omega]
    exact balance_take_in_text _ _ s m _ hs (by omega)

/-- a slice of a token list between two points of balance zero is balanced in the bracket sense -/
theorem balanced_slice (K : List Tok) (a b : Nat) (hab : a ≤ b)
    (ha : balance (K.take a) = 0) (hb : balance (K.take b) = 0)
    (hpre : ∀ k, 0 ≤ balance (K.take k)) :
    balance ((K.drop a).take (b - a)) = 0 ∧ ∀ k, 0 ≤ balance (((K.drop a).take (b - a)).take k) := by
  have key : ∀ n, balance ((K.drop a).take n) = balance (K.take (a + n)) := by
    intro n
    rw [List.take_add, balance_append, ha]; omega
  constructor
  · rw [key, show a + (b - a) = b by omega, hb]
  · intro k
    rw [List.take_take, key]
    exact hpre _

theorem window_sub {α : Type} (G K : List α) (st n a b : Nat) (hK : (G.drop st).take n = K)
    (hb : b ≤ n) : (G.drop (st + a)).take (b - a) = (K.drop a).take (b - a) := by
  rw [← hK, List.drop_take, List.drop_drop, List.take_take, Nat.min_eq_left (by omega)]

/-- the children `i..j` of a node as a window of its content tokens -/
theorem ftoks_children (kids : List Node) (i j : Nat) (hij : i ≤ j) :
    ((ftoks kids).drop (fsize (kids.take i))).take (fsize (kids.take j) - fsize (kids.take i)) =
      ftoks ((kids.take j).drop i) := by
  rw [← List.drop_take, ftoks_take]
  have h : ftoks (kids.take j) = ftoks (kids.take i) ++ ftoks ((kids.take j).drop i) := by
    rw [← ftoks_append]
    congr 1
    have : kids.take i = (kids.take j).take i := by rw [List.take_take, Nat.min_eq_left hij]
    rw [this, List.take_append_drop]
  rw [h, ← ftoks_length (kids.take i), List.drop_left]

/-- bounds of the block range at depth `d` and the balance of the token prefixes up to them -/
theorem blockRange_window {doc : Node} {f t : Nat} {rf rt : RPos}
    (hf : doc.resolve f = some rf) (ht : doc.resolve t = some rt) (hft : f ≤ t)
    (d : Nat) (hd : d ≤ rf.depth) (hin : t ≤ rf.end_ d) (hdt : d ≤ rt.depth) :
    let st := rf.start d
    let K := ftoks (rf.node d).kids
    let s := if d = rf.depth then f else (rf.entry d).pos
    let e := if d = rt.depth then t else (rt.entry d).pos + (rt.node (d + 1)).size
    rt.node d = rf.node d ∧ rt.start d = rf.start d ∧
    st ≤ s ∧ s ≤ f ∧ t ≤ e ∧ e ≤ rf.end_ d ∧
    (d < rf.depth → s + 1 = rf.start (d + 1)) ∧ (d < rt.depth → e = rt.end_ (d + 1) + 1) ∧
    balance (K.take (s - st)) = 0 ∧ balance (K.take (e - st)) = 0 := by
  intro st K s e
  have Rf := resolve_resolved hf
  have Rt := resolve_resolved ht
  have Ef := Rf.entry d hd
  have Et := Rt.entry d hdt
  have hst : rf.start d ≤ t := by have := Ef.pos_eq; have := Ef.pos_le; omega
  obtain ⟨_, a2, a3, _⟩ := resolved_agree hf ht d hd hst hin
  have hnf : (rf.entry d).node = rf.node d := rfl
  have hnt : (rt.entry d).node = rf.node d := a2
  have pf := Ef.pos_eq; have lf := Ef.pos_le
  have pt := Et.pos_eq; have lt := Et.pos_le
  rw [a3] at pt
  refine ⟨a2, a3, ?_, ?_, ?_, ?_, ?_, ?_, ?_, ?_⟩
  · show st ≤ s
    by_cases h : d = rf.depth <;> simp only [s, h, if_true, if_false] <;> omega
  · show s ≤ f
    by_cases h : d = rf.depth <;> simp only [s, h, if_true, if_false] <;> omega
  · show t ≤ e
    by_cases h : d = rt.depth
    · simp only [e, h, if_true]; exact Nat.le_refl _
    · simp only [e, h, if_false]
      obtain ⟨m1, m2, m3, m4⟩ := Rt.nest d (by omega)
      have := (Rt.entry (d + 1) (by omega)).le_end
      rw [show (rt.entry (d + 1)).node = rt.node (d + 1) from rfl, ← Resolved.end_eq] at this
      omega
  · show e ≤ rf.end_ d
    by_cases h : d = rt.depth
    · simp only [e, h, if_true]; rw [← h]; exact hin
    · simp only [e, h, if_false]
      obtain ⟨m1, m2, m3, m4⟩ := Rt.nest d (by omega)
      have : rt.end_ d = rf.end_ d := by rw [Resolved.end_eq, Resolved.end_eq, a2, a3]
      omega
  · intro h
    have : d ≠ rf.depth := by omega
    simp only [s, this, if_false]
    exact (Resolved.start_succ rf d).symm
  · intro h
    have hne : d ≠ rt.depth := by omega
    simp only [e, hne, if_false]
    obtain ⟨m1, m2, m3, m4⟩ := Rt.nest d h
    omega
  · show balance (K.take (s - st)) = 0
    by_cases h : d = rf.depth
    · simp only [s, h, if_true]
      have L := Rf.last
      rw [← h] at L
      have := balance_take_last Ef L
      rw [hnf] at this; exact this
    · simp only [s, h, if_false]
      rw [hnf] at pf
      rw [show (rf.entry d).pos - st = fsize ((rf.node d).kids.take (rf.entry d).index) by omega]
      exact balance_take_boundary _ _
  · show balance (K.take (e - st)) = 0
    by_cases h : d = rt.depth
    · simp only [e, h, if_true]
      have L := Rt.last
      rw [← h] at L
      have := balance_take_last Et L
      rw [hnt, a3] at this; exact this
    · simp only [e, h, if_false]
      obtain ⟨ct, _⟩ := Rt.chain d (by omega)
      rw [a2] at ct
      rw [hnt] at pt
      have := fsize_take_succ _ _ _ ct
      rw [show (rt.entry d).pos + (rt.node (d + 1)).size - st =
        fsize ((rf.node d).kids.take (rt.index d + 1)) by
          rw [this]; show (rt.entry d).pos + _ - rf.start d = _
          have : (rt.entry d).index = rt.index d := rfl
          rw [this] at pt; omega]
      exact balance_take_boundary _ _

/-- when neither end is inside a text node at depth `d`, the bounds are child boundaries of the
    depth-`d` ancestor: `NodeRange.start_index` and `NodeRange.end_index` -/
theorem blockRange_children {doc : Node} {f t : Nat} {rf rt : RPos}
    (hf : doc.resolve f = some rf) (ht : doc.resolve t = some rt) (hft : f ≤ t)
    (d : Nat) (hd : d ≤ rf.depth) (hin : t ≤ rf.end_ d) (hdt : d ≤ rt.depth)
    (hF : d = rf.depth → rf.textOffset = 0) (hT : d = rt.depth → rt.textOffset = 0) :
    let s := if d = rf.depth then f else (rf.entry d).pos
    let e := if d = rt.depth then t else (rt.entry d).pos + (rt.node (d + 1)).size
    s = rf.start d + fsize ((rf.node d).kids.take (rf.index d)) ∧ e = rf.start d + fsize ((rf.node d).kids.take (rt.indexAfter d)) ∧
    rf.index d ≤ rt.indexAfter d := by
  intro s e
  have Rf := resolve_resolved hf
  have Rt := resolve_resolved ht
  have Ef := Rf.entry d hd
  have Et := Rt.entry d hdt
  have hst : rf.start d ≤ t := by have := Ef.pos_eq; have := Ef.pos_le; omega
  obtain ⟨_, a2, a3, _⟩ := resolved_agree hf ht d hd hst hin
  have pf := Ef.pos_eq; have lf := Ef.pos_le
  have pt := Et.pos_eq; have lt := Et.pos_le
  rw [show (rf.entry d).node = rf.node d from rfl, show (rf.entry d).index = rf.index d from rfl] at pf
  rw [show (rt.entry d).node = rf.node d from a2, show (rt.entry d).index = rt.index d from rfl, a3] at pt
  -- the start
  have hs : s = rf.start d + fsize ((rf.node d).kids.take (rf.index d)) := by
    by_cases h : d = rf.depth
    · have h0 := hF h
      simp only [RPos.textOffset, Rf.pos_eq, ← h] at h0
      simp only [s, h, if_true]
      rw [← h]; omega
    · simp only [s, h, if_false]; exact pf
  -- the end
  have he : e = rf.start d + fsize ((rf.node d).kids.take (rt.indexAfter d)) ∧
      (d = rt.depth → rt.indexAfter d = rt.index d) ∧ (d < rt.depth → rt.indexAfter d = rt.index d + 1) := by
    by_cases h : d = rt.depth
    · have h0 := hT h
      have hia : rt.indexAfter d = rt.index d := by simp [RPos.indexAfter, h, h0]
      simp only [RPos.textOffset, Rt.pos_eq, ← h] at h0
      refine ⟨?_, fun _ => hia, fun h' => by omega⟩
      simp only [e, h, if_true]
      rw [← h, hia]; omega
    · have hia : rt.indexAfter d = rt.index d + 1 := by simp [RPos.indexAfter, h]
      refine ⟨?_, fun h' => (h h').elim, fun _ => hia⟩
      simp only [e, h, if_false]
      obtain ⟨ct, _⟩ := Rt.chain d (by omega)
      rw [a2] at ct
      rw [hia, fsize_take_succ _ _ _ ct]; omega
  refine ⟨hs, he.1, ?_⟩
  -- order of the indices
  have fin : d < rf.depth → rf.start d + fsize ((rf.node d).kids.take (rf.index d)) < f := by
    intro h
    obtain ⟨n1, _, _, _⟩ := Rf.nest d h
    have E1 := Rf.entry (d + 1) (by omega)
    have := E1.pos_eq; have := E1.pos_le
    omega
  have tin : d < rt.depth → t < rf.start d + fsize ((rf.node d).kids.take (rt.index d)) + (rt.node (d + 1)).size := by
    intro h
    obtain ⟨_, n2, _, _⟩ := Rt.nest d h
    have E1 := Rt.entry (d + 1) (by omega)
    have := E1.le_end
    rw [show (rt.entry (d + 1)).node = rt.node (d + 1) from rfl, ← Resolved.end_eq] at this
    omega
  rcases Nat.lt_or_ge d rt.depth with h2 | h2
  · -- t is inside child `rt.index d`
    rw [he.2.2 h2]
    obtain ⟨ct, _⟩ := Rt.chain d h2
    rw [a2] at ct
    have := tin h2
    rcases Nat.lt_or_ge (rt.index d) (rf.index d) with hlt | hge
    · exfalso
      have hm := fsize_take_lt _ _ ct hlt
      rcases Nat.lt_or_ge d rf.depth with h1 | h1
      · have := fin h1; omega
      · have h1' : d = rf.depth := by omega
        simp only [s, h1', if_true] at hs
        rw [← h1'] at hs
        omega
    · omega
  · have h2' : d = rt.depth := by omega
    rw [he.2.1 h2']
    have het := he.1
    simp only [e, h2', if_true] at het
    rw [← h2', he.2.1 h2'] at het
    rcases Nat.lt_or_ge (rt.index d) (rf.index d) with hlt | hge
    · exfalso
      have hm := fsize_take_mono (rf.node d).kids (Nat.le_of_lt hlt)
      rcases Nat.lt_or_ge d rf.depth with h1 | h1
      · have := fin h1; omega
      · have h1' : d = rf.depth := by omega
        simp only [s, h1', if_true] at hs
        rw [← h1'] at hs
        rcases Nat.eq_or_lt_of_le hft with heq | hlt'
        · subst heq
          have : rf = rt := by rw [hf] at ht; exact Option.some.inj ht
          subst this; omega
        · omega
    · exact hge

/-! ### text_between with separators: the callback fold -/

theorem take_agree {α : Type} (s : List α) (a b N : Nat) (h : min a N = min b N) (hs : s.length ≤ N) :
    s.take a = s.take b := by
  rw [← take_min_length s a, ← take_min_length s b]
  congr 1; omega

theorem tbStep_text_nosep (S : Schema) (F T : Nat) (acc : List Nat) (s : List Nat) (m : Marks) (p i : Nat) :
    tbStep S F T [] (fun _ => []) (acc, true) (.text s m, p, i) =
      (acc ++ (s.take (T - p)).drop (F - p), true) := by
  simp only [tbStep, List.isEmpty_nil]
  rw [show max F p - p = F - p by omega]

theorem tbStep_leaf_nosep (S : Schema) (F T : Nat) (acc : List Nat) (ty : TypeId) (a : Attrs) (m : Marks) (p i : Nat) :
    tbStep S F T [] (fun _ => []) (acc, true) (.leaf ty a m, p, i) = (acc, true) := by
  simp [tbStep]

theorem tbStep_elem_nosep (S : Schema) (F T : Nat) (acc : List Nat) (ty : TypeId) (a : Attrs) (m : Marks)
    (k : List Node) (p i : Nat) :
    tbStep S F T [] (fun _ => []) (acc, true) (.elem ty a m k, p, i) = (acc, true) := by
  simp [tbStep]

/-- without separator and leaf text the fold over the visited nodes collects `textBetween`;
    `F`, `T` are the arguments of the outer call, `f`, `t`, `start` those of the current level -/
theorem tbFold_nosep (S : Schema) (F T : Nat) : ∀ (kids : List Node) (f t start i : Nat) (acc : List Nat),
    f = F - start → min (T - start) (fsize kids) = min t (fsize kids) →
    (nodesBetween kids f t start i).foldl (tbStep S F T [] (fun _ => [])) (acc, true) =
      (acc ++ textBetween kids f t, true)
  | [], f, t, start, i, acc, _, _ => by simp [nodesBetween, textBetween]
  | .text s m :: ns, f, t, start, i, acc, hf, ht => by
    rcases Nat.eq_zero_or_pos t with h0 | h0
    · subst h0; simp [nodesBetween_cons, textBetween_zero]
    · have ht0 : t ≠ 0 := by omega
      rw [nodesBetween_cons, if_neg ht0, textBetween_cons _ _ _ _ ht0, List.foldl_append]
      simp only [fsize_cons, Node.size_text] at ht
      have ih := fun acc' => tbFold_nosep S F T ns (f - s.length) (t - s.length) (start + s.length) (i + 1) acc'
        (by omega) (by omega)
      simp only [Node.size_text]
      split
      · simp only [List.foldl_cons, List.foldl_nil, tbStep_text_nosep]
        rw [ih, List.append_assoc, ← hf, take_agree s (T - start) t (s.length + fsize ns) ht (by omega)]
      · simp only [List.foldl_nil]
        rw [ih]; simp
  | .leaf ty a m :: ns, f, t, start, i, acc, hf, ht => by
    rcases Nat.eq_zero_or_pos t with h0 | h0
    · subst h0; simp [nodesBetween_cons, textBetween_zero]
    · have ht0 : t ≠ 0 := by omega
      rw [nodesBetween_cons, if_neg ht0, textBetween_cons _ _ _ _ ht0, List.foldl_append]
      simp only [fsize_cons, Node.size_leaf] at ht
      have ih := fun acc' => tbFold_nosep S F T ns (f - 1) (t - 1) (start + 1) (i + 1) acc'
        (by omega) (by omega)
      simp only [Node.size_leaf]
      split
      · simp only [List.foldl_cons, List.foldl_nil, tbStep_leaf_nosep]
        rw [ih]; simp
      · simp only [List.foldl_nil]
        rw [ih]; simp
  | .elem ty a m kids :: ns, f, t, start, i, acc, hf, ht => by
    rcases Nat.eq_zero_or_pos t with h0 | h0
    · subst h0; simp [nodesBetween_cons, textBetween_zero]
    · have ht0 : t ≠ 0 := by omega
      rw [nodesBetween_cons, if_neg ht0, textBetween_cons _ _ _ _ ht0, List.foldl_append]
      simp only [fsize_cons, Node.size_elem] at ht
      have ih := fun acc' => tbFold_nosep S F T ns (f - (2 + fsize kids)) (t - (2 + fsize kids))
        (start + (2 + fsize kids)) (i + 1) acc' (by omega) (by omega)
      simp only [Node.size_elem]
      split
      · simp only [List.foldl_cons, tbStep_elem_nosep]
        split
        · rename_i hk
          simp only [List.foldl_nil]
          rw [ih, hk, Nat.zero_min, textBetween_zero]; simp
        · have ihk := tbFold_nosep S F T kids (f - 1) (min (fsize kids) (t - 1)) (start + 1) 0 acc
            (by omega) (by omega)
          rw [ihk, ih, List.append_assoc]
      · simp only [List.foldl_nil]
        rw [ih]; simp

/-- a visited node that is a block (non-inline element): where a separator may be emitted -/
def blockVisit (S : Schema) (x : Node × Nat × Nat) : Bool :=
  match x.1 with
  | .elem ty _ _ _ => !(S.nodeType ty).isInline
  | _ => false

/-- the units a visited node contributes as leaf text -/
def leafUnits (leafText : Node → List Nat) (x : Node × Nat × Nat) : Nat :=
  match x.1 with
  | .leaf .. => (leafText x.1).length
  | _ => 0

/-- one callback step with separator / leaf text against the same step without -/
theorem tbStep_compare (S : Schema) (F T : Nat) (sep : List Nat) (leafText : Node → List Nat)
    (acc acc0 : List Nat) (b : Bool) (x : Node × Nat × Nat) :
    ∃ piece0 piece b' k,
      tbStep S F T [] (fun _ => []) (acc0, true) x = (acc0 ++ piece0, true) ∧
      tbStep S F T sep leafText (acc, b) x = (acc ++ piece, b') ∧
      piece0.Sublist piece ∧ k ≤ (if blockVisit S x then 1 else 0) ∧
      piece.length = piece0.length + sep.length * k + leafUnits leafText x := by
  obtain ⟨n, p, i⟩ := x
  cases n with
  | text s m =>
    exact ⟨(s.take (T - p)).drop (max F p - p), (s.take (T - p)).drop (max F p - p), _, 0,
      by simp [tbStep], rfl, List.Sublist.refl _, Nat.zero_le _, by simp [leafUnits]⟩
  | leaf ty a m =>
    exact ⟨[], leafText (.leaf ty a m), _, 0, by simp [tbStep], rfl, List.nil_sublist _,
      Nat.zero_le _, by simp [leafUnits]⟩
  | elem ty a m k =>
    by_cases hc : (!b && !(S.nodeType ty).isInline) = true
    · refine ⟨[], sep, true, 1, by simp [tbStep], by simp [tbStep, hc], List.nil_sublist _, ?_, by simp [leafUnits]⟩
      simp only [Bool.and_eq_true] at hc
      simp [blockVisit, hc.2]
    · refine ⟨[], [], b, 0, by simp [tbStep], by simp [tbStep, hc], List.nil_sublist _, Nat.zero_le _, by simp [leafUnits]⟩

theorem tbFold_compare (S : Schema) (F T : Nat) (sep : List Nat) (leafText : Node → List Nat) :
    ∀ (vis : List (Node × Nat × Nat)) (acc acc0 : List Nat) (b : Bool),
    ∃ out0 out b' k,
      vis.foldl (tbStep S F T [] (fun _ => [])) (acc0, true) = (acc0 ++ out0, true) ∧
      vis.foldl (tbStep S F T sep leafText) (acc, b) = (acc ++ out, b') ∧
      out0.Sublist out ∧ k ≤ vis.countP (blockVisit S) ∧
      out.length = out0.length + sep.length * k + (vis.map (leafUnits leafText)).sum
  | [], acc, acc0, b => ⟨[], [], b, 0, by simp, by simp, List.Sublist.refl _, Nat.zero_le _, by simp⟩
  | x :: rest, acc, acc0, b => by
    obtain ⟨p0, p1, b1, k1, h1, h2, h3, h4, h5⟩ := tbStep_compare S F T sep leafText acc acc0 b x
    obtain ⟨o0, o1, b2, k2, g1, g2, g3, g4, g5⟩ :=
      tbFold_compare S F T sep leafText rest (acc ++ p1) (acc0 ++ p0) b1
    refine ⟨p0 ++ o0, p1 ++ o1, b2, k1 + k2, ?_, ?_, List.Sublist.append h3 g3, ?_, ?_⟩
    · rw [List.foldl_cons, h1, g1, List.append_assoc]
    · rw [List.foldl_cons, h2, g2, List.append_assoc]
    · rw [List.countP_cons]; omega
    · simp only [List.length_append, List.map_cons, List.sum_cons, Nat.mul_add]; omega

end PM
