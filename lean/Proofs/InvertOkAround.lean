/- Proofs/InvertOkAround.lean — `Slice.remove_between` on the old slice of a replace-around step succeeds when the
   gap is a closed slice of the document and its two ends are pair-aligned — without the `gapClean` hypothesis of
   `invert_ok_replaceAround` (Proofs/InvertOk.lean).  The alignment hypothesis cannot be dropped: with
   `gap_from = gap_to` in the middle of a surrogate pair the step applies (the empty gap slice is returned without
   looking at the position) and `invert` raises (`removeBetween_misaligned_fails` below). -/
import Proofs.InvertOk
import Proofs.OpGuardLift
import Proofs.UndoFit
import Proofs.StepToks
import Proofs.MarkMerge
namespace PM

/-! ### `remove_range` on a flat pair of offsets -/

theorem flatAt_of_depth : ∀ (rest : List Node) (t : Nat), t ≤ fsize rest → depthAt rest t = 0 →
    flatAt rest t = true
  | [], t, ht, _ => by
    have : t = 0 := by simpa using ht
    subst this; simp [flatAt]
  | n :: ns, t, ht, hd => by
    unfold flatAt
    split
    · rfl
    · rename_i h0
      split
      · rename_i hle
        rw [depthAt_skip n ns t hle] at hd
        exact flatAt_of_depth ns (t - n.size) (by simp only [fsize_cons] at ht; omega) hd
      · rename_i hlt
        cases n with
        | text s m => rfl
        | leaf ty a m => simp only [Node.size_leaf] at hlt; omega
        | elem ty a m k =>
          simp only [Node.size_elem] at hlt
          rw [depthAt_elem_cons _ _ _ _ _ _ (by omega) (by omega)] at hd
          omega

theorem removeFlat_ok (level : List Node) (f0 t0 : Nat) (hn : fnorm level = true) (hft : f0 ≤ t0)
    (ht : t0 ≤ fsize level) (a1 : alignedAt level f0 = true) (a2 : alignedAt level t0 = true)
    (hd : depthAt level t0 = 0) : ∃ c, removeRange.removeFlat level f0 t0 = .ok c := by
  obtain ⟨cl, hcl⟩ := fcut_total level 0 f0 (by omega) (by omega) (alignedAt_zero _) a1 hn
  obtain ⟨cr, hcr⟩ := fcut_total level t0 (fsize level) ht (Nat.le_refl _) a2 (alignedAt_fsize _) hn
  unfold removeRange.removeFlat
  have hir : inRange level t0 = true := by unfold inRange; exact decide_eq_true ht
  simp only [hir, flatAt_of_depth level t0 ht hd, hcl, hcr, Bool.not_true, Bool.false_eq_true, if_false]
  exact ⟨_, rfl⟩

/-- `remove_range` succeeds when the two (pair-aligned) offsets have the same depth and nothing between them is
    shallower: the scan descends through the element nodes containing both and stops at a level where both are
    child boundaries or inside text children -/
theorem removeRange_ok_flat : ∀ (rest pre : List Node) (idx f t : Nat),
    fnorm (pre ++ rest) = true → f ≤ t → t ≤ fsize rest →
    alignedAt rest f = true → alignedAt rest t = true →
    depthAt rest f = depthAt rest t → (∀ k, f ≤ k → k ≤ t → depthAt rest f ≤ depthAt rest k) →
    ∃ c, removeRange (pre ++ rest) (fsize pre + f) (fsize pre + t) idx rest f t = .ok c
  | [], pre, idx, f, t, hn, hft, ht, _, _, _, _ => by
    have e1 : t = 0 := by simpa using ht
    have e2 : f = 0 := by omega
    subst e1 e2
    unfold removeRange
    rw [if_pos rfl]
    exact removeFlat_ok _ _ _ hn (Nat.le_refl _) (by simp) (by rw [alignedAt_append_pre]; simp)
      (by rw [alignedAt_append_pre]; simp) (by rw [depthAt_append_pre]; simp)
  | n :: ns, pre, idx, f, t, hn, hft, ht, a1, a2, hd, hmin => by
    have hflat : depthAt (n :: ns) t = 0 →
        ∃ c, removeRange.removeFlat (pre ++ n :: ns) (fsize pre + f) (fsize pre + t) = .ok c := fun h0 =>
      removeFlat_ok _ _ _ hn (by omega) (by rw [fsize_append]; omega) (by rw [alignedAt_append_pre]; exact a1)
        (by rw [alignedAt_append_pre]; exact a2) (by rw [depthAt_append_pre]; exact h0)
    unfold removeRange
    split
    · rename_i h0
      subst h0
      exact hflat (by rw [← hd]; simp)
    · rename_i h0
      split
      · rename_i hle
        have hn' : fnorm ((pre ++ [n]) ++ ns) = true := by simpa using hn
        have hsk : ∀ k, n.size ≤ k → depthAt (n :: ns) k = depthAt ns (k - n.size) :=
          fun k hk => depthAt_skip n ns k hk
        have ih := removeRange_ok_flat ns (pre ++ [n]) (idx + 1) (f - n.size) (t - n.size) hn' (by omega)
          (by simp only [fsize_cons] at ht; omega)
          (by rw [alignedAt_cons, if_neg h0, if_pos hle] at a1; exact a1)
          (by rw [alignedAt_cons, if_neg (by omega), if_pos (by omega)] at a2; exact a2)
          (by rw [← hsk f hle, ← hsk t (by omega)]; exact hd)
          (fun k h1 h2 => by
            have := hmin (k + n.size) (by omega) (by omega)
            rw [hsk f hle, hsk (k + n.size) (by omega), Nat.add_sub_cancel] at this
            exact this)
        have e : pre ++ [n] ++ ns = pre ++ n :: ns := by simp
        rw [e, fsize_append] at ih
        simp only [fsize_cons, fsize_nil, Nat.add_zero] at ih
        rw [show fsize pre + n.size + (f - n.size) = fsize pre + f by omega,
          show fsize pre + n.size + (t - n.size) = fsize pre + t by omega] at ih
        exact ih
      · rename_i hlt
        cases n with
        | text s m =>
          simp only
          apply hflat
          rw [← hd, depthAt_cons, if_neg h0, if_neg hlt]
        | leaf ty a m => simp only [Node.size_leaf] at hlt; omega
        | elem ty a m kids =>
          simp only [Node.size_elem] at hlt ⊢
          have hdf : depthAt (Node.elem ty a m kids :: ns) f = 1 + depthAt kids (f - 1) :=
            depthAt_elem_cons _ _ _ _ _ _ (by omega) (by omega)
          have htl : t < 2 + fsize kids := by
            apply Classical.byContradiction
            intro hc
            have := hmin (2 + fsize kids) (by omega) (by omega)
            rw [hdf, depthAt_skip _ _ _ (by simp), Node.size_elem, Nat.sub_self, depthAt_zero] at this
            omega
          have hdk : ∀ k, 0 < k → k < 2 + fsize kids →
              depthAt (Node.elem ty a m kids :: ns) k = 1 + depthAt kids (k - 1) :=
            fun k h1 h2 => depthAt_elem_cons _ _ _ _ _ _ h1 h2
          rw [if_pos htl]
          have hnk : fnorm kids = true := by
            have := (fnorm_cons (fnorm_append_right hn)).1
            rwa [Node.norm_elem] at this
          have ih := removeRange_ok_flat kids [] 0 (f - 1) (t - 1) (by simpa using hnk) (by omega) (by omega)
            (by rw [alignedAt_cons, if_neg h0, if_neg (by simp; omega)] at a1; exact a1)
            (by rw [alignedAt_cons, if_neg (by omega), if_neg (by simp; omega)] at a2; exact a2)
            (by have := hd; rw [hdk f (by omega) (by omega), hdk t (by omega) htl] at this; omega)
            (fun k h1 h2 => by
              have := hmin (k + 1) (by omega) (by omega)
              rw [hdk f (by omega) (by omega), hdk (k + 1) (by omega) (by omega), Nat.add_sub_cancel] at this
              omega)
          simp only [List.nil_append, fsize_nil, Nat.zero_add] at ih
          obtain ⟨c, hc⟩ := ih
          rw [hc]
          exact ⟨_, rfl⟩

/-! ### the content of a slice in tokens -/

theorem tokAligned_left (l : List Tok) (p : Nat) (h : ∀ c m, l[p]? ≠ some (Tok.unit c m)) :
    tokAligned l (p + 1) = true := by
  simp only [tokAligned]
  split
  · rename_i e _; exact absurd e (h _ _)
  · rfl

theorem tokAligned_right (l : List Tok) (p : Nat) (h : ∀ c m, l[p + 1]? ≠ some (Tok.unit c m)) :
    tokAligned l (p + 1) = true := by
  simp only [tokAligned]
  split
  · rename_i _ e; exact absurd e (h _ _)
  · rfl

/-- pair-alignment of an offset of the window `[f, t)` of `G`, seen in `A ++ window ++ B` with `A` open tokens and
    `B` close tokens -/
theorem tokAligned_window (G A B : List Tok) (f t x : Nat) (hA : A.all Tok.isOp = true)
    (hB : ∀ y ∈ B, y = Tok.cl) (hfx : f ≤ x) (hxt : x ≤ t) (ht : t ≤ G.length)
    (ha : tokAligned G x = true) :
    tokAligned (A ++ ((G.drop f).take (t - f) ++ B)) (A.length + (x - f)) = true := by
  have hW : ((G.drop f).take (t - f)).length = t - f := by
    rw [List.length_take, List.length_drop]; omega
  have hidx : ∀ j, j < t - f → (A ++ ((G.drop f).take (t - f) ++ B))[A.length + j]? = G[f + j]? := by
    intro j hj
    rw [List.getElem?_append_right (by omega), Nat.add_sub_cancel_left,
      List.getElem?_append_left (by omega), List.getElem?_take_of_lt hj, List.getElem?_drop]
  by_cases hxf : x = f
  · subst hxf
    rw [Nat.sub_self, Nat.add_zero]
    cases hA' : A.length with
    | zero => rfl
    | succ a =>
      apply tokAligned_left
      intro c m e
      rw [List.getElem?_append_left (by omega)] at e
      have hm := List.mem_of_getElem? e
      have := List.all_eq_true.mp hA _ hm
      simp [Tok.isOp] at this
  · obtain ⟨j, rfl⟩ : ∃ j, x = f + (j + 1) := ⟨x - f - 1, by omega⟩
    rw [show f + (j + 1) - f = j + 1 by omega, ← Nat.add_assoc]
    by_cases hlt : j + 1 < t - f
    · have e1 := hidx j (by omega)
      have e2 := hidx (j + 1) hlt
      rw [← Nat.add_assoc] at e2
      rw [show f + (j + 1) = (f + j) + 1 by omega] at ha e2
      simp only [tokAligned, e1, e2] at ha ⊢
      exact ha
    · apply tokAligned_right
      intro c m e
      rw [Nat.add_assoc, List.getElem?_append_right (by omega), Nat.add_sub_cancel_left,
        List.getElem?_append_right (by omega)] at e
      have := hB _ (List.mem_of_getElem? e)
      simp at this

/-! ### the old slice around a closed gap -/

/-- the two ends of a closed slice have the same depth and nothing between them is shallower -/
theorem closed_slice_depths (kids : List Node) (gf gt : Nat) (gap : Slice) (h2 : gf ≤ gt)
    (hgap : sliceKids kids gf gt = .ok gap) (hgc : gap.openStart = 0 ∧ gap.openEnd = 0) :
    depthAt kids gf = depthAt kids gt ∧ ∀ k, gf ≤ k → k ≤ gt → depthAt kids gf ≤ depthAt kids k := by
  by_cases he : gf = gt
  · subst he
    exact ⟨rfl, fun k h1 h2 => by have : k = gf := by omega
                                  subst this; exact Nat.le_refl _⟩
  · have htk : gt ≤ fsize kids := by
      unfold sliceKids at hgap
      rw [if_neg he] at hgap
      split at hgap
      · simp at hgap
      · rename_i hg
        simp [inRange] at hg
        omega
    obtain ⟨sh, e1, e2, hmin, _⟩ := sliceKids_open kids gf gt gap (by omega) htk hgap
    rw [hgc.1] at e1
    rw [hgc.2] at e2
    refine ⟨by omega, fun k h1 h2 => ?_⟩
    have := hmin k h1 h2
    rw [← depthAt_balance kids k (by omega)] at this
    omega

theorem removeBetween_ok_of_closed_gap_aligned (kids : List Node) (f t gf gt : Nat) (old gap : Slice)
    (hn : fnorm kids = true) (h1 : f ≤ gf) (h2 : gf ≤ gt) (h3 : gt ≤ t)
    (hold : sliceKids kids f t = .ok old) (hgap : sliceKids kids gf gt = .ok gap)
    (hgc : gap.openStart = 0 ∧ gap.openEnd = 0)
    (ha : alignedAt kids gf = true ∧ alignedAt kids gt = true) :
    ∃ rem, old.removeBetween (gf - f) (gt - f) = .ok rem := by
  by_cases hft : f = t
  · subst hft
    have e1 : gf = f := by omega
    have e2 : gt = f := by omega
    subst e1 e2
    simp [sliceKids] at hold
    subst hold
    exact ⟨_, by simp [Slice.removeBetween, Slice.empty, removeRange, removeRange.removeFlat, inRange, flatAt,
      fcut, fappend]; rfl⟩
  · have htk : t ≤ fsize kids := by
      unfold sliceKids at hold
      rw [if_neg hft] at hold
      split at hold
      · simp at hold
      · rename_i hg
        simp [inRange] at hg
        omega
    obtain ⟨hon, hwf⟩ := sliceKids_norm kids f t old hn hold
    have hosz := sliceKids_size kids f t old (by omega) htk hold
    have hOt := sliceKids_toks kids f t old (by omega) htk hold
    have hsplit := slice_content_toks old hwf
    simp only [Slice.wf, Bool.and_eq_true, decide_eq_true_eq] at hwf
    simp only [Slice.size] at hosz
    have hsp := spine_sum_le old.content
    rw [hOt, List.append_assoc] at hsplit
    have hAl : ((ftoks old.content).take old.openStart).length = old.openStart := by
      rw [List.length_take, ftoks_length]; omega
    have hAops := take_spineL_ops _ _ hwf.1
    have hBcls := drop_spineR_cls old.content old.openEnd hwf.2
    obtain ⟨hdeq, hdmin⟩ := closed_slice_depths kids gf gt gap h2 hgap hgc
    -- depths in the old slice's content
    have hdep : ∀ j, j ≤ t - f → (depthAt old.content (old.openStart + j) : Int)
        = balance ((ftoks old.content).take old.openStart) + depthAt kids (f + j) - depthAt kids f := by
      intro j hj
      rw [depthAt_balance old.content _ (by omega), depthAt_balance kids (f + j) (by omega),
        depthAt_balance kids f (by omega)]
      have e1 : (ftoks old.content).take (old.openStart + j)
          = (ftoks old.content).take old.openStart ++ ((ftoks kids).drop f).take j := by
        conv => lhs; rw [hsplit]
        rw [List.take_append, hAl, List.take_of_length_le (by omega), Nat.add_sub_cancel_left,
          List.take_append_of_le_length (by rw [List.length_take, List.length_drop, ftoks_length]; omega),
          List.take_take, Nat.min_eq_left hj]
      have e2 : (ftoks kids).take (f + j) = (ftoks kids).take f ++ ((ftoks kids).drop f).take j :=
        List.take_add
      rw [e1, e2, balance_append, balance_append]
      omega
    -- alignment in the old slice's content
    have hal : ∀ x, f ≤ x → x ≤ t → alignedAt kids x = true →
        alignedAt old.content (old.openStart + (x - f)) = true := by
      intro x hx1 hx2 hax
      rw [alignedAt_toks kids x hn] at hax
      rw [alignedAt_toks old.content _ hon, hsplit]
      have := tokAligned_window (ftoks kids) ((ftoks old.content).take old.openStart)
        ((ftoks old.content).drop (fsize old.content - old.openEnd)) f t x hAops hBcls hx1 hx2
        (by rw [ftoks_length]; exact htk) hax
      rw [hAl] at this
      exact this
    have key := removeRange_ok_flat old.content [] 0 (old.openStart + (gf - f)) (old.openStart + (gt - f))
      (by simpa using hon) (by omega) (by omega) (hal gf h1 (by omega) ha.1) (hal gt (by omega) h3 ha.2)
      (by
        have a := hdep (gf - f) (by omega)
        have b := hdep (gt - f) (by omega)
        rw [show f + (gf - f) = gf by omega] at a
        rw [show f + (gt - f) = gt by omega] at b
        omega)
      (fun k hk1 hk2 => by
        have a := hdep (gf - f) (by omega)
        have b := hdep (k - old.openStart) (by omega)
        rw [show f + (gf - f) = gf by omega] at a
        rw [show old.openStart + (k - old.openStart) = k by omega] at b
        have := hdmin (f + (k - old.openStart)) (by omega) (by omega)
        omega)
    simp only [List.nil_append, fsize_nil, Nat.zero_add] at key
    obtain ⟨c, hc⟩ := key
    unfold Slice.removeBetween
    simp only
    rw [if_neg (by omega), show gf - f + old.openStart = old.openStart + (gf - f) by omega,
      show gt - f + old.openStart = old.openStart + (gt - f) by omega, hc]
    exact ⟨_, rfl⟩

/-- **`remove_between` succeeds on the old slice around a non-empty closed gap** (for `gf < gt` the gap slice's
    success gives the pair-alignment of its ends) -/
theorem removeBetween_ok_of_closed_gap (kids : List Node) (f t gf gt : Nat) (old gap : Slice)
    (hn : fnorm kids = true) (h1 : f ≤ gf) (h2 : gf < gt) (h3 : gt ≤ t)
    (hold : sliceKids kids f t = .ok old) (hgap : sliceKids kids gf gt = .ok gap)
    (hgc : gap.openStart = 0 ∧ gap.openEnd = 0) :
    ∃ rem, old.removeBetween (gf - f) (gt - f) = .ok rem :=
  removeBetween_ok_of_closed_gap_aligned kids f t gf gt old gap hn h1 (by omega) h3 hold hgap hgc
    (sliceKids_aligned kids gf gt gap h2 hgap)

/-- **the inverse of an applied replace-around step is built** when the gap is not empty, or its position is
    pair-aligned -/
theorem invert_ok_replaceAround_full (S : Schema) (doc doc' : Node) (f t gf gt : Nat) (sl : Slice) (ins : Nat)
    (b : Bool) (hn : fnorm doc.kids = true) (hg : f ≤ gf ∧ gf ≤ gt ∧ gt ≤ t)
    (hal : gf < gt ∨ alignedAt doc.kids gf = true)
    (h : S.apply (.replaceAround f t gf gt sl ins b) doc = .ok doc') :
    ∃ inv, S.invert (.replaceAround f t gf gt sl ins b) doc = .ok inv := by
  obtain ⟨gap, inserted, hgap, hg1, hg2, _, hfr⟩ := apply_replaceAround_parts S doc doc' f t gf gt sl ins b h
  obtain ⟨old, ho⟩ := slice_ok_of_fromReplace S doc doc' f t inserted hn hfr
  have ha : alignedAt doc.kids gf = true ∧ alignedAt doc.kids gt = true := by
    rcases Nat.lt_or_ge gf gt with hlt | hge
    · exact sliceKids_aligned doc.kids gf gt gap hlt hgap
    · have e : gt = gf := by omega
      subst e
      have := hal.resolve_left (by omega)
      exact ⟨this, this⟩
  obtain ⟨rem, hrem⟩ := removeBetween_ok_of_closed_gap_aligned doc.kids f t gf gt old gap hn hg.1 hg.2.1 hg.2.2
    ho hgap ⟨hg1, hg2⟩ ha
  simp only [Schema.invert, ho, hrem]
  exact ⟨_, rfl⟩

/-- the alignment hypothesis of `removeBetween_ok_of_closed_gap_aligned` / `invert_ok_replaceAround_full` cannot be
    dropped: for an *empty* gap in the middle of a surrogate pair the gap slice is `Slice.empty` (closed, returned
    without looking at the position) and `remove_between` raises (`UnicodeDecodeError` in `TextNode.cut`) -/
theorem removeBetween_misaligned_fails :
    fnorm [Node.text [0xD83D, 0xDE00] []] = true ∧
    sliceKids [Node.text [0xD83D, 0xDE00] []] 0 2 = .ok ⟨[Node.text [0xD83D, 0xDE00] []], 0, 0⟩ ∧
    sliceKids [Node.text [0xD83D, 0xDE00] []] 1 1 = .ok Slice.empty ∧
    Slice.removeBetween ⟨[Node.text [0xD83D, 0xDE00] []], 0, 0⟩ 1 1 = .error .valueError := by
  refine ⟨by decide, ?_, by simp [sliceKids], ?_⟩
  · simp [sliceKids, inRange, sliceScan, sliceHere, fcut, depthAt, fsize, Node.size]
  simp [Slice.removeBetween, removeRange, removeRange.removeFlat, inRange, flatAt, fcut, fcutLoop, cutText,
    splitOk, Node.isText, fsize, Node.size, isHigh, isLow]

end PM
