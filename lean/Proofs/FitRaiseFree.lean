/- Proofs/FitRaiseFree.lean — `fit_no_raise` (Props/C11.lean): the two raise sites of `place_nodes` go through when
   the unplaced slice satisfies `Slice.sitesOk` (PM/FitRaiseGuard.lean); the static guard `Slice.openPrefixOk` implies
   `sitesOk` in every state the loop reaches; so under the schema guards, a well-formed unplaced slice over the run and
   the termination guard the loop of `fit` returns, and with it `replace_step`. -/
import Proofs.FitNoRaise
import Proofs.FitInline
import Proofs.FitTotal
import Proofs.FitInv
import Proofs.FitInStep
import Proofs.FitLoop
import PM.FitRaiseGuard
set_option linter.unusedVariables false
set_option linter.unusedSimpArgs false
namespace PM

/-! ### `fill_before` answers with nodes when the search over types answers -/

theorem fillOpt_some_of_types (S : Schema) (hdet : DetS S) (hf : FillersOK S) (w q : Nat) (after : List TypeId)
    (toEnd : Bool) (tys : List TypeId) (h : fillBeforeTypes S (S.dfa w) q after toEnd = some tys) :
    ∃ ns, fillOpt S (S.dfa w) q after toEnd = .ok (some ns) ∧ S.types ns = tys := by
  obtain ⟨r, hr⟩ := fillOpt_ok S hdet hf w q after toEnd
  have hr' := liftRaise_ok hr
  cases r with
  | none =>
    exfalso
    unfold fillBeforeNodes at hr'
    rw [h] at hr'
    simp only at hr'
    split at hr' <;> simp at hr'
  | some ns =>
    refine ⟨ns, hr, ?_⟩
    have := fillBeforeNodes_types S _ _ _ _ ns hr'
    rw [h] at this
    simpa using this.symm

/-- a state a run arrives at is the state it started from or the target of an edge -/
theorem run_reach (d : Dfa) : ∀ (l : List TypeId) (q q' : Nat), d.run q l = some q' →
    q' = q ∨ ∃ q0 e, e ∈ d.edgesOf q0 ∧ e.2 = q'
  | [], q, q', h => by
    simp only [Dfa.run, Option.some.injEq] at h
    exact .inl h.symm
  | t :: l, q, q', h => by
    simp only [Dfa.run] at h
    cases hm : d.matchType q t with
    | none => simp [hm] at h
    | some y =>
      rw [hm] at h
      rcases run_reach d l y q' h with he | he
      · subst he
        exact .inr ⟨q, (t, q'), Dfa.mem_of_matchType hm, rfl⟩
      · exact .inr he

theorem closable_run (S : Schema) (hcl : Closable S) (w : TypeId) (hw : w < S.nodes.size) (l : List TypeId) (q : Nat)
    (h : (S.dfa w).run 0 l = some q) : (fillBeforeTypes S (S.dfa w) q [] true).isSome = true := by
  rcases run_reach _ l 0 q h with he | ⟨q0, e, he, hq⟩
  · subst he; exact (hcl w hw).1
  · subst hq; exact (hcl w hw).2 q0 e he

/-! ### the start site: `close_node_start` -/

theorem startSiteOk_cons_congr (S : Schema) (os : Nat) (x : Node) (l l' : List Node) :
    S.startSiteOk os (x :: l) = S.startSiteOk os (x :: l') := by
  cases os with
  | zero => simp [Schema.startSiteOk]
  | succ os => cases x <;> simp [Schema.startSiteOk]

theorem spineL_head (x : Node) (l : List Node) : spineL (x :: l) = spineL [x] := by
  cases x <;> simp [spineL]

/-- the part of `close_node_start` after the first child has been closed -/
theorem closeTail_total (S : Schema) (hdet : DetS S) (hf : FillersOK S) (hcl : Closable S) (hts : TextStableP S)
    (t : TypeId) (htlt : t < S.nodes.size) (frag : List Node)
    (hfill : (fillBeforeTypes S (S.dfa t) 0 (S.types frag) false).isSome = true) (oe : Int) (node : Node) :
    ∃ r, (do
      let fill ← fillOpt S (S.dfa t) 0 (S.types frag) false
      let fill ← liftRaise fill
      let frag := fappend fill frag
      let tail ←
        (if oe ≤ 0 then do
          let q ← liftRaise ((S.dfa t).run 0 (S.types frag))
          let fill2 ← fillOpt S (S.dfa t) q [] true
          liftRaise fill2
         else pure [])
      pure (node.withKids (fappend frag tail)) : FM Node) = .ok r := by
  obtain ⟨tys, htysome⟩ := Option.isSome_iff_exists.1 hfill
  obtain ⟨fill, hfillok, hfilltys⟩ := fillOpt_some_of_types S hdet hf t 0 _ false tys htysome
  obtain ⟨_, q1, hrun1, hfin⟩ := fillBeforeTypes_sound S (S.dfa t) (hdet t) 0 _ false tys htysome
  have hq2 : ∃ q2, (S.dfa t).run q1 (S.types frag) = some q2 := by
    unfold fillFinished at hfin
    cases hr : (S.dfa t).run q1 (S.types frag) with
    | none => simp [hr] at hfin
    | some q2 => exact ⟨q2, rfl⟩
  obtain ⟨q2, hq2⟩ := hq2
  have hrunall : (S.dfa t).run 0 (S.types (fappend fill frag)) = some q2 := by
    apply run_fappend_some hts
    rw [Dfa.run_append, hfilltys, hrun1]
    exact hq2
  rw [FM.bind_eq hfillok]
  simp only [liftRaise]
  rw [FM.bind_eq (show (pure fill : FM (List Node)) = .ok fill from rfl)]
  by_cases hoe : oe ≤ 0
  · simp only [if_pos hoe, hrunall]
    obtain ⟨tys2, htys2⟩ := Option.isSome_iff_exists.1 (closable_run S hcl t htlt _ q2 hrunall)
    obtain ⟨fill2, hfill2, _⟩ := fillOpt_some_of_types S hdet hf t q2 [] true tys2 htys2
    rw [FM.bind_eq (show (pure q2 : FM Nat) = .ok q2 from rfl), FM.bind_eq hfill2]
    exact ⟨_, rfl⟩
  · simp only [if_neg hoe]
    exact ⟨_, rfl⟩

theorem FM.bind_total {α β : Type} {x : FM α} {f : α → FM β} (hx : ∃ a, x = .ok a)
    (hf : ∀ a, x = .ok a → ∃ b, f a = .ok b) : ∃ b, (x >>= f) = .ok b := by
  obtain ⟨a, ha⟩ := hx
  obtain ⟨b, hb⟩ := hf a ha
  exact ⟨b, by rw [FM.bind_eq ha]; exact hb⟩

/-- **`close_node_start` returns** on a node whose start spine is covered by its first-child chain and satisfies the
    start-site condition -/
theorem closeNodeStart_total (S : Schema) (hdet : DetS S) (hf : FillersOK S) (hcl : Closable S) (hts : TextStableP S) :
    ∀ (os : Nat) (node : Node) (oe : Int), os ≤ spineL [node] → S.startSiteOk os [node] = true →
      ∃ r, closeNodeStart S os node oe = .ok r
  | 0, node, oe, _, _ => ⟨node, rfl⟩
  | os + 1, node, oe, hsp, hok => by
    cases node with
    | text s m => simp [spineL] at hsp
    | leaf t a m => simp [spineL] at hsp
    | elem t a m kids =>
      simp only [spineL_elem_cons] at hsp
      simp only [Schema.startSiteOk, Bool.and_eq_true, decide_eq_true_eq] at hok
      obtain ⟨⟨htlt, hfill⟩, hkids⟩ := hok
      by_cases h0 : os = 0
      · subst h0
        unfold closeNodeStart
        refine FM.bind_total ⟨kids, rfl⟩ (fun frag hfrag => ?_)
        have : frag = kids := (pure_ok hfrag).symm
        subst this
        exact closeTail_total S hdet hf hcl hts t htlt frag hfill oe _
      · cases kids with
        | nil => simp [spineL] at hsp; omega
        | cons c rest =>
          have h1 : os ≤ spineL [c] := by rw [← spineL_head c rest]; omega
          have h2 : S.startSiteOk os [c] = true := by rw [startSiteOk_cons_congr S os c [] rest]; exact hkids
          have hall := fun oe' => closeNodeStart_total S hdet hf hcl hts os c oe' h1 h2
          unfold closeNodeStart
          refine FM.bind_total ?_ (fun frag hfrag => ?_)
          · rw [if_neg h0]
            exact FM.bind_total (hall _) (fun c' _ => ⟨_, rfl⟩)
          · rw [if_neg h0] at hfrag
            have hfrag' : (closeNodeStart S os c (if ((c :: rest).length == 1) = true then oe - 1 else 0) >>=
                fun c' => (pure (c' :: rest) : FM (List Node))) = .ok frag := hfrag
            obtain ⟨c', hc', hfr⟩ := FM.bind_ok hfrag'
            have : c' :: rest = frag := pure_ok hfr
            subst this
            have htys : S.types (c' :: rest) = S.types (c :: rest) :=
              types_cons_congr S c c' rest (closeNodeStart_tyOf S _ _ _ c' hc')
            exact closeTail_total S hdet hf hcl hts t htlt (c' :: rest) (by rw [htys]; exact hfill) oe _

/-! ### the take loop of `place_nodes` -/

theorem spineL_withMarks (n : Node) (mk : Marks) : spineL [n.withMarks mk] = spineL [n] := by
  cases n <;> simp [Node.withMarks, spineL]

theorem startSiteOk_withMarks (S : Schema) (os : Nat) (n : Node) (mk : Marks) :
    S.startSiteOk os [n.withMarks mk] = S.startSiteOk os [n] := by
  cases os with
  | zero => simp [Schema.startSiteOk]
  | succ os => cases n <;> simp [Node.withMarks, Schema.startSiteOk]

/-- **the take loop returns**: only the first node it takes is closed at its start, to the depth `os`, which the
    first-child chain of the fragment covers and along which the start-site condition holds -/
theorem takeLoop_total (S : Schema) (hdet : DetS S) (hf : FillersOK S) (hcl : Closable S) (hts : TextStableP S)
    (d : Dfa) (fty : TypeId) (os : Nat) (oec : Int) (total : Nat) :
    ∀ (rest : List Node) (taken q : Nat) (add : List Node),
      (taken = 0 → os ≤ spineL rest ∧ S.startSiteOk os rest = true) →
      ∃ tk, takeLoop S d fty os oec total rest taken q add = .ok tk
  | [], taken, q, add, _ => ⟨_, rfl⟩
  | next :: rest, taken, q, add, h0 => by
    unfold takeLoop
    split
    · exact ⟨_, rfl⟩
    · rename_i q' hm
      simp only
      split
      · refine FM.bind_total ?_ (fun n _ => takeLoop_total S hdet hf hcl hts d fty os oec total rest (taken + 1) q' _
          (fun h => by omega))
        by_cases ht : taken = 0
        · subst ht
          obtain ⟨h1, h2⟩ := h0 rfl
          simp only [Nat.zero_add, beq_self_eq_true, if_true]
          exact closeNodeStart_total S hdet hf hcl hts os _ _
            (by rw [spineL_withMarks, ← spineL_head next rest]; exact h1)
            (by rw [startSiteOk_withMarks, startSiteOk_cons_congr S os next [] rest]; exact h2)
        · have : (taken + 1 == 1) = false := by simp; omega
          simp only [this, Bool.false_eq_true, if_false]
          exact ⟨_, rfl⟩
      · exact takeLoop_total S hdet hf hcl hts d fty os oec total rest (taken + 1) q _ (fun h => by omega)

/-! ### the end site: pushing the open end -/

theorem endSiteOk_of_getLast (S : Schema) : ∀ (l : List Node) (t : TypeId) (a : Attrs) (m : Marks) (k : List Node)
    (n : Nat), l.getLast? = some (.elem t a m k) →
    S.endSiteOk l (n + 1) = (((S.dfa t).run 0 (S.types k)).isSome && S.endSiteOk k n)
  | [], _, _, _, _, _, h => by simp at h
  | [x], t, a, m, k, n, h => by
    simp only [List.getLast?_singleton, Option.some.injEq] at h
    subst h
    simp [Schema.endSiteOk, Schema.endSiteNode]
  | x :: y :: ys, t, a, m, k, n, h => by
    rw [List.getLast?_cons_cons] at h
    have := endSiteOk_of_getLast S (y :: ys) t a m k n h
    rw [← this]
    simp [Schema.endSiteOk, Schema.endSiteNode]

theorem endSiteOk_zero (S : Schema) : ∀ (l : List Node), S.endSiteOk l 0 = true
  | [] => by simp [Schema.endSiteOk, Schema.endSiteNode]
  | [x] => by cases x <;> simp [Schema.endSiteOk, Schema.endSiteNode]
  | x :: y :: ys => by
    have := endSiteOk_zero S (y :: ys)
    simpa [Schema.endSiteOk, Schema.endSiteNode] using this

/-- **pushing the open end returns** when the last-child chain is long enough and satisfies the end-site condition -/
theorem pushOpenEnd_total (S : Schema) : ∀ (n : Nat) (cur : List Node) (fr : List FItem), n ≤ spineR cur →
    S.endSiteOk cur n = true → ∃ fr', pushOpenEnd S n cur fr = .ok fr'
  | 0, cur, fr, _, _ => ⟨fr, rfl⟩
  | n + 1, cur, fr, hsp, hok => by
    obtain ⟨t, a, m, k, hl⟩ := getLast_of_spineR cur (by omega)
    rw [spineR_of_getLast cur t a m k hl] at hsp
    rw [endSiteOk_of_getLast S cur t a m k n hl, Bool.and_eq_true] at hok
    obtain ⟨q, hq⟩ := Option.isSome_iff_exists.1 hok.1
    unfold pushOpenEnd
    rw [hl]
    simp only [Schema.contentMatchAt, Node.kids, Schema.tyOf, Node.tyOr, List.take_length, hq, liftRaise]
    rw [FM.bind_eq (show (pure q : FM Nat) = .ok q from rfl)]
    exact pushOpenEnd_total S n k _ (by omega) hok.2

/-- … and only then (**the end site is exact**): within the last-child chain, `pushOpenEnd` returns iff every node on
    it has children that are a matchable beginning of its content -/
theorem pushOpenEnd_ok_iff (S : Schema) : ∀ (n : Nat) (cur : List Node) (fr : List FItem), n ≤ spineR cur →
    ((∃ fr', pushOpenEnd S n cur fr = .ok fr') ↔ S.endSiteOk cur n = true)
  | 0, cur, fr, _ => ⟨fun _ => endSiteOk_zero S cur, fun _ => ⟨fr, rfl⟩⟩
  | n + 1, cur, fr, hsp => by
    refine ⟨fun ⟨fr', h⟩ => ?_, fun h => pushOpenEnd_total S (n + 1) cur fr hsp h⟩
    obtain ⟨t, a, m, k, hl⟩ := getLast_of_spineR cur (by omega)
    rw [spineR_of_getLast cur t a m k hl] at hsp
    rw [endSiteOk_of_getLast S cur t a m k n hl, Bool.and_eq_true]
    unfold pushOpenEnd at h
    rw [hl] at h
    simp only at h
    obtain ⟨q, hq, h⟩ := FM.bind_ok h
    have hq := liftRaise_ok hq
    simp only [Schema.contentMatchAt, Node.kids, Schema.tyOf, Node.tyOr, List.take_length] at hq
    exact ⟨by rw [hq]; rfl, (pushOpenEnd_ok_iff S n k _ (by omega)).1 ⟨fr', h⟩⟩

/-! ### `place_nodes` -/

/-- **`place_nodes` raises only in the take loop or while pushing the open end**, with the arguments of the two
    computations pinned (the proof of `placeNodes_raise_sites`, Proofs/FitNoRaise.lean, with a sharper conclusion):
    the take loop runs over the fittable's fragment with `open_start - slice_depth`; the open end is pushed
    `open_end_count` levels along the same fragment -/
theorem placeNodes_raise_sites_pinned (S : Schema) (hdet : DetS S) (hf : FillersOK S) (hw : WrapOK S) (hlab : LabelsOK S)
    (st : FitState) (inv : InStep st) (hU2 : st.unplaced.openStart ≤ spineL st.unplaced.content)
    (f : Fittable) (hfit : findFittable S st = .ok (some f)) (e : FitErr) (h : placeNodes S st f = .error e) :
    (∃ d fty q add, takeLoop S d fty (st.unplaced.openStart - f.sliceDepth)
      (((fsize (f.fragment st.unplaced) : Int) + f.sliceDepth) - ((fsize st.unplaced.content : Int) - st.unplaced.openEnd))
      (f.fragment st.unplaced).length (f.fragment st.unplaced) 0 q add = .error e) ∨
    (∃ (b : Bool) (fr : List FItem), pushOpenEnd S ((if b = true then
        ((fsize (f.fragment st.unplaced) : Int) + f.sliceDepth) - ((fsize st.unplaced.content : Int) - st.unplaced.openEnd)
        else -1 : Int)).toNat (f.fragment st.unplaced) fr = .error e) := by
  obtain ⟨lvl, it, hsd, hlvl, hpar, hit, kind, _⟩ := findFittable_kind S st f hfit
  have hfragment := fragment_eq_lvl hlvl hpar
  have hfdlt : f.frontierDepth < st.frontier.length := by
    rcases Nat.lt_or_ge f.frontierDepth st.frontier.length with h1 | h1
    · exact h1
    · rw [List.getElem?_eq_none h1] at hit; simp at hit
  obtain ⟨q, hq⟩ := inv.frok it (List.mem_of_getElem? hit)
  obtain ⟨c1, hc1, hc1f, hc1s⟩ := closeMany_ok S hdet hf (st.frontier.length - 1 - f.frontierDepth)
    st.frontier st.placed inv.frok (by omega) inv.sp
  have hc1f' : c1.1 = st.frontier.take (f.frontierDepth + 1) := by
    rw [hc1f]; congr 1; omega
  have hc1len : c1.1.length = f.frontierDepth + 1 := by
    rw [hc1f', List.length_take]; omega
  have hc1ok : FrOK c1.1 := by rw [hc1f']; exact inv.frok.take _
  have hc1it : c1.1[f.frontierDepth]? = some it := by
    rw [hc1f', List.getElem?_take_of_lt (by omega)]; exact hit
  have hc1last : c1.1.getLast? = some it := by
    rw [List.getLast?_eq_getElem?, hc1len, Nat.add_sub_cancel]; exact hc1it
  have hchain : ChainFrom S (S.dfa it.ty) q (f.wrap.getD []) := by
    cases kind with
    | direct _ _ _ _ _ _ hwn => rw [hwn]; trivial
    | inject _ _ _ _ _ _ _ hwn => rw [hwn]; trivial
    | empty _ _ _ _ hwn => rw [hwn]; trivial
    | wrap fst q' w hfst hq' hfw _ hwn =>
      rw [hwn]
      rw [hq] at hq'
      simp only [Option.some.injEq] at hq'
      subst hq'
      exact findWrappingTypes_chain S _ _ _ w hfw
  obtain ⟨c2, hc2, hc2ok, hc2len, hc2s, hc2sz, hc2pre, hc2top⟩ :=
    openMany_ok S hw (f.wrap.getD []) c1.1 c1.2 it q hc1last hq hchain hc1ok hc1s
  rw [hc1len] at hc2len hc2top
  simp only [Nat.add_sub_cancel] at hc2top
  have hitem : ∃ item q0, c2.1[f.frontierDepth]? = some item ∧ item.st = some q0 ∧ item.ty = it.ty ∧
      (f.wrap.getD [] = [] → q0 = q) ∧
      (∀ w0 rest, f.wrap.getD [] = w0 :: rest → (S.dfa it.ty).matchType q w0 = some q0) := by
    cases hws : f.wrap.getD [] with
    | nil =>
      rw [hws] at hc2
      have := pure_ok hc2
      subst this
      exact ⟨it, q, hc1it, hq, rfl, fun _ => rfl, fun _ _ h => by simp at h⟩
    | cons w0 rest =>
      have htop := hc2top w0 rest hws
      rw [hws] at hchain
      obtain ⟨q', hq'⟩ := Option.isSome_iff_exists.1 hchain.2.1
      refine ⟨_, q', htop, by simp [hq'], rfl, fun h => by simp at h, ?_⟩
      intro w0' rest' h
      simp only [List.cons.injEq] at h
      rw [← h.1]; exact hq'
  obtain ⟨item, q0, hitem, hitq, hitty, hq0nil, hq0cons⟩ := hitem
  have hfdlt2 : f.frontierDepth < c2.1.length := by rw [hc2len]; omega
  have hrun : ∃ q1, (S.dfa item.ty).run q0 (S.types (f.inject.getD [])) = some q1 := by
    cases kind with
    | direct _ _ _ _ _ hinj _ => rw [hinj]; exact ⟨q0, rfl⟩
    | empty _ _ _ hinj _ => rw [hinj]; exact ⟨q0, rfl⟩
    | wrap _ _ _ _ _ _ hinj _ => rw [hinj]; exact ⟨q0, rfl⟩
    | inject fst q' inj hfst hq' hfill hinj hwn =>
      rw [hinj, hitty]
      have hq0 : q0 = q := hq0nil (by rw [hwn]; rfl)
      rw [hq] at hq'
      simp only [Option.some.injEq] at hq'
      subst hq'; subst hq0
      have htys := fillBeforeNodes_types S _ _ _ _ inj (liftRaise_ok hfill)
      obtain ⟨q1, hr, _⟩ := fillBeforeTypes_one S _ (hdet it.ty) q0 (S.tyOf fst) _ htys
      exact ⟨q1, hr⟩
  obtain ⟨q1, hq1⟩ := hrun
  -- peel the binds of `place_nodes`
  unfold placeNodes at h
  rw [FM.bind_eq hc1, FM.bind_eq hc2] at h
  simp only at h
  rw [FM.bind_eq (show getItem c2.1 f.frontierDepth = .ok item by unfold getItem; rw [hitem]; rfl)] at h
  rw [FM.bind_eq (show getSt item = .ok q0 by unfold getSt; rw [hitq]; rfl)] at h
  rw [FM.bind_eq (show liftRaise ((S.dfa item.ty).run q0 (S.types (f.inject.getD []))) = .ok q1 by rw [hq1]; rfl)] at h
  rcases FM.bind_error_cases h with h1 | ⟨tk, htk, h⟩
  · exact .inl ⟨_, _, _, _, h1⟩
  -- with wrappers opened nothing is taken
  have hwrap_nothing : ∀ w0 rest, f.wrap.getD [] = w0 :: rest → tk.2.2 = [] := by
    intro w0 rest hws
    cases kind with
    | direct _ _ _ _ _ _ hwn => rw [hwn] at hws; simp at hws
    | inject _ _ _ _ _ _ _ hwn => rw [hwn] at hws; simp at hws
    | empty _ _ _ _ hwn => rw [hwn] at hws; simp at hws
    | wrap fst q' w hfst hq' hfw hinj hwn =>
      rw [hwn] at hws
      simp only [Option.getD_some] at hws
      subst hws
      rw [hq] at hq'
      simp only [Option.some.injEq] at hq'
      subst hq'
      obtain ⟨rest', hl2⟩ : ∃ rest', lvl.2 = fst :: rest' := by
        cases hl : lvl.2 with
        | nil => rw [hl] at hfst; simp at hfst
        | cons a l => rw [hl] at hfst; simp at hfst; subst hfst; exact ⟨l, rfl⟩
      have hm0 := hq0cons w0 rest (by rw [hwn]; rfl)
      have hnm : (S.dfa it.ty).matchType q0 (S.tyOf fst) = none := by
        by_cases hx : S.tyOf fst < S.nodes.size
        · exact hw.2 it.ty q (S.tyOf fst) w0 rest q0 hx hfw hm0
        · cases hmm : (S.dfa it.ty).matchType q0 (S.tyOf fst) with
          | none => rfl
          | some y => exact absurd (hlab it.ty q0 _ (Dfa.mem_of_matchType hmm)) hx
      have hq1' : q1 = q0 := by
        rw [hinj] at hq1
        simpa [Schema.types, Dfa.run] using hq1.symm
      rw [hfragment, hl2, hinj, hq1', hitty, takeLoop_nomatch S _ _ _ _ _ fst rest' 0 q0 _ hnm] at htk
      have := pure_ok htk
      rw [← this]
      rfl
  have hadd : ∃ p, addToFragment c2.2 f.frontierDepth (fromArray tk.2.2) = .ok p ∧ rspineOK (c2.1.length - 1) p := by
    cases hws : f.wrap.getD [] with
    | nil =>
      have hl : c2.1.length - 1 = f.frontierDepth := by rw [hc2len, hws]; simp
      rw [hl] at hc2s ⊢
      obtain ⟨p, hp, hps, _⟩ := addToFragment_ok f.frontierDepth c2.2 (fromArray tk.2.2) hc2s
      exact ⟨p, hp, hps⟩
    | cons w0 rest =>
      rw [hwrap_nothing w0 rest hws]
      have hsp' : rspineOK f.frontierDepth c2.2 := rspineOK_le _ _ _ (by omega) hc2s
      exact ⟨c2.2, addToFragment_nil _ _ hsp', hc2s⟩
  obtain ⟨p, hp, hps⟩ := hadd
  rw [FM.bind_eq hp] at h
  have hset_len : (c2.1.set f.frontierDepth ⟨item.ty, some tk.2.1⟩).length = c2.1.length := List.length_set
  have hset_ok : FrOK (c2.1.set f.frontierDepth ⟨item.ty, some tk.2.1⟩) := FrOK_set hc2ok _ _ ⟨_, rfl⟩
  have hlast_lt : (c2.1.set f.frontierDepth ⟨item.ty, some tk.2.1⟩).length - 1 <
      (c2.1.set f.frontierDepth ⟨item.ty, some tk.2.1⟩).length := by
    rw [hset_len]; omega
  rw [FM.bind_eq (getItem_lt hlast_lt)] at h
  rcases FM.bind_error_cases h with h1 | ⟨c3, hc3, h⟩
  · exfalso
    rcases ite_error_cases h1 with ⟨_, h2⟩ | ⟨_, h2⟩
    · obtain ⟨x, hx, _⟩ := closeFrontierNode_ok S hdet hf _ p hset_ok (by
        intro h0
        have : (c2.1.set f.frontierDepth ⟨item.ty, some tk.2.1⟩).length = 0 := by rw [h0]; rfl
        rw [hset_len, hc2len] at this
        omega) (by rw [hset_len]; exact hps)
      rw [hx] at h2
      cases h2
    · simp [pure, Except.pure] at h2
  rcases FM.bind_error_cases h with h1 | ⟨fr4, hpush, h⟩
  · exact .inr ⟨_, _, h1⟩
  rcases FM.bind_error_cases h with h1 | ⟨u', hu', h⟩
  · exfalso
    obtain ⟨u, hu⟩ := placeRest_total st.unplaced f.sliceDepth tk.1 (tk.1 == (f.fragment st.unplaced).length)
      (if (tk.1 == (f.fragment st.unplaced).length) = true then
        ((fsize (f.fragment st.unplaced) : Int) + f.sliceDepth) -
          ((fsize st.unplaced.content : Int) - st.unplaced.openEnd) else -1) (by omega)
    rw [hu] at h1
    cases h1
  · simp [pure, Except.pure] at h


/-! ### the site conditions at a level of the slice -/

theorem startSiteOk_contentAt (S : Schema) : ∀ (sd os : Nat) (c F : List Node), contentAt c sd = .ok F → sd ≤ os →
    S.startSiteOk os c = true → S.startSiteOk (os - sd) F = true
  | 0, os, c, F, h, _, hok => by
    have := pure_ok h
    subst this
    exact hok
  | sd + 1, os, c, F, h, hle, hok => by
    unfold contentAt at h
    split at h
    · simp [throw, throwThe, MonadExceptOf.throw] at h
    · rename_i n rest
      obtain ⟨os', rfl⟩ : ∃ os', os = os' + 1 := ⟨os - 1, by omega⟩
      cases n with
      | elem t a m k =>
        simp only [Schema.startSiteOk, Bool.and_eq_true] at hok
        simp only [Node.kids] at h
        have := startSiteOk_contentAt S sd os' k F h (by omega) hok.2
        rwa [show os' + 1 - (sd + 1) = os' - sd by omega]
      | text s m =>
        simp only [Node.kids] at h
        have hF : F = [] := by
          cases sd with
          | zero => exact (pure_ok h).symm
          | succ d => simp [contentAt, throw, throwThe, MonadExceptOf.throw] at h
        subst hF
        cases (os' + 1 - (sd + 1)) <;> simp [Schema.startSiteOk]
      | leaf t a m =>
        simp only [Node.kids] at h
        have hF : F = [] := by
          cases sd with
          | zero => exact (pure_ok h).symm
          | succ d => simp [contentAt, throw, throwThe, MonadExceptOf.throw] at h
        subst hF
        cases (os' + 1 - (sd + 1)) <;> simp [Schema.startSiteOk]

theorem endSiteOk_pure (S : Schema) : ∀ (d : Nat) (c G : List Node) (k : Nat), pureTo d c G →
    S.endSiteOk c (d + k) = true → S.endSiteOk G k = true
  | 0, c, G, k, h, hok => by
    cases h
    simpa using hok
  | d + 1, c, G, k, ⟨t, a, m, kk, hc, hp⟩, hok => by
    subst hc
    rw [show d + 1 + k = (d + k) + 1 by omega, endSiteOk_of_getLast S _ t a m kk (d + k) rfl, Bool.and_eq_true] at hok
    exact endSiteOk_pure S d kk G k hp hok.2

theorem spine_sum_le_fsize (l : List Node) : spineL l + spineR l ≤ fsize l := by
  have h1 := two_spineR_le_fsize l
  have h2 := two_spineL_le_fsize l
  omega

/-- **`place_nodes` returns** in a state that is in step, whose unplaced slice is well-formed and satisfies the two
    site conditions -/
theorem placeNodes_total (S : Schema) (hdet : DetS S) (hf : FillersOK S) (hw : WrapOK S) (hlab : LabelsOK S)
    (hcl : Closable S) (hts : TextStableP S) (st : FitState) (inv : InStep st)
    (hU1 : st.unplaced.openEnd ≤ spineR st.unplaced.content)
    (hU2 : st.unplaced.openStart ≤ spineL st.unplaced.content) (hsites : st.unplaced.sitesOk S = true)
    (f : Fittable) (hfit : findFittable S st = .ok (some f)) : ∃ st', placeNodes S st f = .ok st' := by
  simp only [Slice.sitesOk, Bool.and_eq_true] at hsites
  obtain ⟨hstart, hend⟩ := hsites
  obtain ⟨lvl, it, hsd, hlvl, hpar, _, _, _⟩ := findFittable_kind S st f hfit
  have hfragment := fragment_eq_lvl hlvl hpar
  have hcon := sliceLevel_contentAt hlvl
  cases hres : placeNodes S st f with
  | ok st' => exact ⟨st', rfl⟩
  | error e =>
    exfalso
    rcases placeNodes_raise_sites_pinned S hdet hf hw hlab st inv hU2 f hfit e hres with
      ⟨d, fty, q, add, htake⟩ | ⟨b, fr, hpush⟩
    · rw [hfragment] at htake
      obtain ⟨G, hG, hsp⟩ := contentAt_total f.sliceDepth st.unplaced.content (by omega)
      rw [hcon] at hG
      simp only [Except.ok.injEq] at hG
      subst hG
      obtain ⟨tk, htk⟩ := takeLoop_total S hdet hf hcl hts d fty (st.unplaced.openStart - f.sliceDepth)
        (((fsize lvl.2 : Int) + f.sliceDepth) - ((fsize st.unplaced.content : Int) - st.unplaced.openEnd))
        lvl.2.length lvl.2 0 q add
        (fun _ => ⟨by omega, startSiteOk_contentAt S _ _ _ _ hcon hsd hstart⟩)
      rw [htk] at htake
      cases htake
    · rw [hfragment] at hpush
      cases hn : ((if b = true then
          ((fsize lvl.2 : Int) + f.sliceDepth) - ((fsize st.unplaced.content : Int) - st.unplaced.openEnd)
          else -1 : Int)).toNat with
      | zero =>
        rw [hn] at hpush
        simp [pushOpenEnd, pure, Except.pure] at hpush
      | succ k =>
        rw [hn] at hpush
        have hb : b = true := by
          cases b with
          | true => rfl
          | false => simp at hn
        subst hb
        simp only [if_true] at hn
        have hne : lvl.2 ≠ [] := by
          intro h0
          rw [h0] at hn
          have := spine_sum_le_fsize st.unplaced.content
          simp only [fsize] at hn
          omega
        obtain ⟨hpure, hsd2⟩ := pure_of_size f.sliceDepth st.unplaced.content lvl.2 st.unplaced.openEnd hcon hne hU1
          (by omega)
        have e1 := pureTo_spineR _ _ _ hpure
        have e2 := pureTo_fsize _ _ _ hpure
        have hk : k + 1 + f.sliceDepth = st.unplaced.openEnd := by omega
        obtain ⟨fr', hfr'⟩ := pushOpenEnd_total S (k + 1) lvl.2 fr (by omega)
          (endSiteOk_pure S f.sliceDepth _ _ (k + 1) hpure (by rw [show f.sliceDepth + (k + 1) = st.unplaced.openEnd by omega]; exact hend))
        rw [hfr'] at hpush
        cases hpush

/-- **one iteration of the loop of `fit` returns** -/
theorem fitStep_total (S : Schema) (hdet : DetS S) (hf : FillersOK S) (hw : WrapOK S) (hlab : LabelsOK S)
    (hcl : Closable S) (hts : TextStableP S) (st : FitState) (inv : InStep st) (hwf : st.unplaced.wf = true)
    (hsites : st.unplaced.sitesOk S = true) : ∃ st', fitStep S st = .ok st' := by
  simp only [Slice.wf, Bool.and_eq_true, decide_eq_true_eq] at hwf
  cases hres : fitStep S st with
  | ok st' => exact ⟨st', rfl⟩
  | error e =>
    exfalso
    obtain ⟨f, hfit, hpl⟩ := fitStep_raises_in_place S hdet hf st inv.frok hwf.1 e hres
    obtain ⟨st', hst'⟩ := placeNodes_total S hdet hf hw hlab hcl hts st inv hwf.2 hwf.1 hsites f hfit
    rw [hst'] at hpl
    cases hpl

/-! ### the static guard: kept by everything the loop does to the unplaced content, and it implies the site conditions -/

theorem suffixAll_head (p : List TypeId → Bool) : ∀ (l : List TypeId), suffixAll p l = true → p l = true
  | [], h => h
  | _ :: _, h => by
    simp only [suffixAll, Bool.and_eq_true] at h
    exact h.1

theorem suffixAll_drop (p : List TypeId → Bool) : ∀ (n : Nat) (l : List TypeId), suffixAll p l = true →
    suffixAll p (l.drop n) = true
  | 0, l, h => by simpa using h
  | n + 1, [], h => by simpa using h
  | n + 1, _ :: ks, h => by
    simp only [suffixAll, Bool.and_eq_true] at h
    simpa using suffixAll_drop p n ks h.2

/-- `drop_from_fragment` takes types away from the front of the list of types of the fragment, or leaves it as it is -/
theorem dropFromFragment_types (S : Schema) (d : Nat) (c c' : List Node) (count : Nat)
    (h : dropFromFragment c d count = .ok c') : ∃ n, S.types c' = (S.types c).drop n := by
  cases d with
  | zero =>
    have := pure_ok h
    subst this
    exact ⟨count, by simp [Schema.types]⟩
  | succ d =>
    unfold dropFromFragment at h
    split at h
    · obtain ⟨inner, _, h⟩ := FM.bind_ok h
      have := pure_ok h
      subst this
      exact ⟨0, by simp [Schema.types, Schema.tyOf, Node.tyOr]⟩
    · simp [throw, throwThe, MonadExceptOf.throw] at h

theorem fillableKids_iff (S : Schema) : ∀ (l : List Node), S.fillableKids l = true ↔ ∀ n ∈ l, S.fillableNode n = true
  | [] => by simp [Schema.fillableKids]
  | x :: xs => by
    have := fillableKids_iff S xs
    simp only [Schema.fillableKids, Bool.and_eq_true, List.mem_cons, forall_eq_or_imp, this]

theorem dropFromFragment_fillable (S : Schema) : ∀ (d : Nat) (c c' : List Node) (count : Nat),
    dropFromFragment c d count = .ok c' → S.fillableKids c = true → S.fillableKids c' = true
  | 0, c, c', count, h, hc => by
    have := pure_ok h
    subst this
    rw [fillableKids_iff] at hc ⊢
    exact fun n hn => hc n (List.mem_of_mem_drop hn)
  | d + 1, c, c', count, h, hc => by
    have h' := h
    unfold dropFromFragment at h
    split at h
    · rename_i t a m kids rest
      obtain ⟨inner, hi, h⟩ := FM.bind_ok h
      have := pure_ok h
      subst this
      simp only [Schema.fillableKids, Schema.fillableNode, Bool.and_eq_true, decide_eq_true_eq] at hc ⊢
      obtain ⟨n, hn⟩ := dropFromFragment_types S d kids inner count hi
      refine ⟨⟨⟨hc.1.1.1, ?_⟩, dropFromFragment_fillable S d kids inner count hi hc.1.2⟩, hc.2⟩
      rw [hn]
      exact suffixAll_drop _ n _ hc.1.1.2
    · simp [throw, throwThe, MonadExceptOf.throw] at h

theorem endChainOk_of_getLast (S : Schema) : ∀ (l : List Node) (x : Node), l.getLast? = some x →
    S.endChainOk l = S.endChainOk [x]
  | [], _, h => by simp at h
  | [y], x, h => by
    simp only [List.getLast?_singleton, Option.some.injEq] at h
    rw [h]
  | y :: z :: zs, x, h => by
    rw [List.getLast?_cons_cons] at h
    rw [← endChainOk_of_getLast S (z :: zs) x h]
    simp [Schema.endChainOk, Schema.endChainNode]

theorem endChainOk_drop (S : Schema) (l : List Node) (n : Nat) (h : S.endChainOk l = true) :
    S.endChainOk (l.drop n) = true := by
  cases hl : (l.drop n).getLast? with
  | none =>
    have : l.drop n = [] := by simpa using hl
    rw [this]
    simp [Schema.endChainOk, Schema.endChainNode]
  | some x =>
    have hne : l.drop n ≠ [] := by intro h0; rw [h0] at hl; simp at hl
    have hl' : l.getLast? = some x := by
      rw [← hl, List.getLast?_drop]
      rw [if_neg (by
        intro hle
        exact hne (List.drop_eq_nil_of_le hle))]
    rw [endChainOk_of_getLast S _ x hl, ← endChainOk_of_getLast S _ x hl']
    exact h

theorem dropFromFragment_endChain (S : Schema) : ∀ (d : Nat) (c c' : List Node) (count : Nat),
    dropFromFragment c d count = .ok c' → S.endChainOk c = true → S.endChainOk c' = true
  | 0, c, c', count, h, hc => by
    have := pure_ok h
    subst this
    exact endChainOk_drop S c count hc
  | d + 1, c, c', count, h, hc => by
    unfold dropFromFragment at h
    split at h
    · rename_i t a m kids rest
      obtain ⟨inner, hi, h⟩ := FM.bind_ok h
      have := pure_ok h
      subst this
      cases rest with
      | nil =>
        simp only [Schema.endChainOk, Schema.endChainNode, List.isEmpty_nil, if_true, Bool.and_eq_true] at hc ⊢
        obtain ⟨n, hn⟩ := dropFromFragment_types S d kids inner count hi
        refine ⟨?_, dropFromFragment_endChain S d kids inner count hi hc.2⟩
        rw [hn]
        exact suffixAll_drop _ n _ hc.1
      | cons y ys =>
        simpa [Schema.endChainOk, Schema.endChainNode] using hc
    · simp [throw, throwThe, MonadExceptOf.throw] at h

/-- a property of the unplaced content that holds of the empty content and is kept by `drop_from_fragment` -/
def DropStable (P : List Node → Prop) : Prop :=
  P [] ∧ ∀ (d : Nat) (c c' : List Node) (count : Nat), dropFromFragment c d count = .ok c' → P c → P c'

/-- … is kept by every iteration of the loop: the content of the unplaced slice only ever changes through
    `drop_from_fragment` (`drop_node`, `place_nodes`) or becomes empty -/
theorem fitStep_content {P : List Node → Prop} (hP : DropStable P) (S : Schema) (st st' : FitState)
    (h : fitStep S st = .ok st') (hp : P st.unplaced.content) : P st'.unplaced.content := by
  unfold fitStep at h
  obtain ⟨f, hfit, h⟩ := FM.bind_ok h
  cases f with
  | some f =>
    simp only at h
    obtain ⟨taken, htk⟩ := placeNodes_unplaced S st f st' h
    unfold placeRest at htk
    split at htk
    · obtain ⟨c, hc, htk⟩ := FM.bind_ok htk
      rw [← pure_ok htk]
      exact hP.2 _ _ _ _ hc hp
    · split at htk
      · rw [← pure_ok htk]
        exact hP.1
      · obtain ⟨c, hc, htk⟩ := FM.bind_ok htk
        rw [← pure_ok htk]
        exact hP.2 _ _ _ _ hc hp
  | none =>
    simp only at h
    obtain ⟨o, ho, h⟩ := FM.bind_ok h
    cases o with
    | some st1 =>
      have := pure_ok h
      subst this
      unfold openMore at ho
      obtain ⟨inner, _, ho⟩ := FM.bind_ok ho
      split at ho
      · simp [pure, Except.pure] at ho
      · split at ho
        · simp [pure, Except.pure] at ho
        · have := pure_ok ho
          simp only [Option.some.injEq] at this
          subst this
          exact hp
    | none =>
      simp only at h
      unfold dropNode at h
      obtain ⟨inner, _, h⟩ := FM.bind_ok h
      split at h
      · obtain ⟨c, hc, h⟩ := FM.bind_ok h
        rw [← pure_ok h]
        exact hP.2 _ _ _ _ hc hp
      · obtain ⟨c, hc, h⟩ := FM.bind_ok h
        rw [← pure_ok h]
        exact hP.2 _ _ _ _ hc hp

theorem openPrefix_stable (S : Schema) :
    DropStable (fun c => S.fillableKids c = true ∧ S.endChainOk c = true) :=
  ⟨⟨by simp [Schema.fillableKids], by simp [Schema.endChainOk, Schema.endChainNode]⟩,
   fun d c c' count h hp => ⟨dropFromFragment_fillable S d c c' count h hp.1, dropFromFragment_endChain S d c c' count h hp.2⟩⟩

/-- the static guard gives the start-site condition for every open depth -/
theorem startSiteOk_of_fillable (S : Schema) : ∀ (os : Nat) (c : List Node), S.fillableKids c = true →
    S.startSiteOk os c = true
  | 0, _, _ => by simp [Schema.startSiteOk]
  | os + 1, [], _ => by simp [Schema.startSiteOk]
  | os + 1, .text _ _ :: _, _ => by simp [Schema.startSiteOk]
  | os + 1, .leaf _ _ _ :: _, _ => by simp [Schema.startSiteOk]
  | os + 1, .elem t a m k :: rest, h => by
    simp only [Schema.fillableKids, Schema.fillableNode, Bool.and_eq_true, decide_eq_true_eq] at h
    simp only [Schema.startSiteOk, Bool.and_eq_true, decide_eq_true_eq]
    exact ⟨⟨h.1.1.1, suffixAll_head _ _ h.1.1.2⟩, startSiteOk_of_fillable S os k h.1.2⟩

/-- … and the end-site condition for every open depth -/
theorem endSiteOk_of_endChain (S : Schema) : ∀ (c : List Node) (oe : Nat), S.endChainOk c = true →
    S.endSiteOk c oe = true
  | [], _, _ => by simp [Schema.endSiteOk, Schema.endSiteNode]
  | [.text _ _], _, _ => by simp [Schema.endSiteOk, Schema.endSiteNode]
  | [.leaf _ _ _], _, _ => by simp [Schema.endSiteOk, Schema.endSiteNode]
  | [.elem t a m k], 0, _ => endSiteOk_zero S _
  | [.elem t a m k], oe + 1, h => by
    simp only [Schema.endChainOk, Schema.endChainNode, List.isEmpty_nil, if_true, Bool.and_eq_true] at h
    rw [endSiteOk_of_getLast S _ t a m k oe rfl, Bool.and_eq_true]
    exact ⟨suffixAll_head _ _ h.1, endSiteOk_of_endChain S k oe h.2⟩
  | x :: y :: ys, oe, h => by
    have h' : S.endChainOk (y :: ys) = true := by simpa [Schema.endChainOk, Schema.endChainNode] using h
    have := endSiteOk_of_endChain S (y :: ys) oe h'
    simpa [Schema.endSiteOk, Schema.endSiteNode] using this

theorem sitesOk_of_openPrefix (S : Schema) (u : Slice) (h1 : S.fillableKids u.content = true)
    (h2 : S.endChainOk u.content = true) : u.sitesOk S = true := by
  simp only [Slice.sitesOk, Bool.and_eq_true]
  exact ⟨startSiteOk_of_fillable S _ _ h1, endSiteOk_of_endChain S _ _ h2⟩

/-! ### the loop of `fit`, and `replace_step` as a whole -/

/-- **the loop of `fit` does not raise**, and ends in step: the static guard on the unplaced content, and the unplaced
    slice well-formed for as long as the loop runs -/
theorem fitLoop_no_raise (S : Schema) (hdet : DetS S) (hf : FillersOK S) (hw : WrapOK S) (hlab : LabelsOK S)
    (hcl : Closable S) (hts : TextStableP S) :
    ∀ (fuel : Nat) (st : FitState), InStep st → S.fillableKids st.unplaced.content = true →
      S.endChainOk st.unplaced.content = true → wfWhile S fuel st = true →
      fitLoop S fuel st ≠ .error .raises ∧ ∀ st', fitLoop S fuel st = .ok st' → InStep st'
  | 0, st, inv, _, _, _ => by
    unfold fitLoop
    split
    · exact ⟨by simp [pure, Except.pure], fun st' h => by rw [← pure_ok h]; exact inv⟩
    · exact ⟨by simp [throw, throwThe, MonadExceptOf.throw], fun st' h => by
        simp [throw, throwThe, MonadExceptOf.throw] at h⟩
  | fuel + 1, st, inv, h1, h2, hw' => by
    unfold fitLoop
    split
    · exact ⟨by simp [pure, Except.pure], fun st' h => by rw [← pure_ok h]; exact inv⟩
    · rename_i hsz
      unfold wfWhile at hw'
      rw [Bool.and_eq_true, if_neg hsz] at hw'
      obtain ⟨hwf, hrest⟩ := hw'
      obtain ⟨st1, hst1⟩ := fitStep_total S hdet hf hw hlab hcl hts st inv hwf (sitesOk_of_openPrefix S _ h1 h2)
      rw [hst1] at hrest
      simp only at hrest
      have inv1 := fitStep_inStep S hdet hf hw hlab st inv hwf (by simpa using hsz) st1 hst1
      have hg1 := fitStep_content (openPrefix_stable S) S st st1 hst1 ⟨h1, h2⟩
      rw [FM.bind_eq hst1]
      exact fitLoop_no_raise S hdet hf hw hlab hcl hts fuel st1 inv1 hg1.1 hg1.2 hrest

/-- **`replace_step` returns**: schema guards, a valid document whose top node is not a textblock, a request slice that
    satisfies the termination guard and the static guard `openPrefixOk`, and whose unplaced rest stays well-formed
    while the Fitter runs -/
theorem replaceStep_total_of_guards (S : Schema) (hdet : DetS S) (hfill : FillersOK S) (hw : WrapOK S)
    (hlab : LabelsOK S) (hcl : Closable S) (hts : TextStableP S) (doc : Node) (f t : Nat) (sl : Slice)
    (hv : S.checkNode doc = true) (hattrs : S.nodeAttrsOK doc = true) (htop : S.isTextblockO (S.tyOf doc) = false)
    (hf : f ≤ fsize doc.kids) (ht : t ≤ fsize doc.kids) (hterm : sl.termGuard = true)
    (hg : sl.openPrefixOk S = true) (hrun : unplacedWfWhile S doc f t sl = true) :
    ∃ r, replaceStep S doc f t sl = .ok r := by
  obtain ⟨rf, hrf⟩ := resolve_isSome doc f hf
  obtain ⟨rt, hrt⟩ := resolve_isSome doc t ht
  simp only [Slice.openPrefixOk, Bool.and_eq_true] at hg
  unfold replaceStep
  unfold unplacedWfWhile at hrun
  split
  · exact ⟨none, rfl⟩
  · rename_i hcond
    rw [if_neg hcond] at hrun
    simp only [hrf, hrt] at hrun ⊢
    obtain ⟨b, hb⟩ := fitsTriviallyR_some S hrf hv (rt := rt) sl
    rw [hb] at hrun ⊢
    cases b with
    | true => exact ⟨_, rfl⟩
    | false =>
      simp only at hrun ⊢
      obtain ⟨st0, h0, hu, hfr, hlen, hsp, hsz⟩ := fitInit_ok S hrf hv sl
      rw [h0] at hrun
      simp only at hrun
      have inv0 : InStep st0 := by
        refine ⟨hfr, ?_, by rw [hlen, Nat.add_sub_cancel]; exact hsp⟩
        intro h; rw [h] at hlen; simp at hlen
      obtain ⟨hnr, hin⟩ := fitLoop_no_raise S hdet hfill hw hlab hcl hts (fitFuel S sl) st0 inv0
        (by rw [hu]; exact hg.1) (by rw [hu]; exact hg.2) hrun
      have hfuel : fitMeasure st0.unplaced (cpot S st0) < fitFuel S sl := by
        have := fitFuel_enough S st0
        rw [hu] at this
        rw [hu]
        exact this
      have hnf := fitLoop_terminates S hdet st0 (by rw [hu]; exact hterm) (fitFuel S sl) hfuel
      cases hl : fitLoop S (fitFuel S sl) st0 with
      | error e =>
        exfalso
        rcases fitLoop_err S _ st0 e hl with he | he
        · subst he; exact hnr hl
        · subst he; exact hnf hl
      | ok st =>
        have inv := hin st hl
        have hL : rf.depth ≤ spineL st.placed :=
          fitLoop_stable (spineL_stable rf.depth) S _ st0 st hl (fitInit_spineL S hrf sl st0 h0)
        have hR := rspineOK_spineR _ _ inv.sp
        have := spine_sum_le_fsize st.placed
        exact fitterFit_ok_of_loop S hdet hfill hrt hattrs htop sl _ st0 st h0 hl inv.frok inv.ne inv.sp (by omega)

/-! ### a run that raises reaches a state in which a site condition or the well-formedness of the unplaced slice fails -/

theorem FitReach.trans_step {S : Schema} {st st1 st' : FitState} (hsz : (st.unplaced.size == 0) = false)
    (h1 : fitStep S st = .ok st1) (hr : FitReach S st1 st') : FitReach S st st' := FitReach.step hsz h1 hr

/-- the loop of `fit`, from a state that is in step: either it reaches a state (with something left to place) whose
    unplaced slice is not well-formed or fails a site condition, or it does not raise and ends in step -/
theorem fitLoop_raise_or_reach (S : Schema) (hdet : DetS S) (hf : FillersOK S) (hw : WrapOK S) (hlab : LabelsOK S)
    (hcl : Closable S) (hts : TextStableP S) :
    ∀ (fuel : Nat) (st : FitState), InStep st →
      (∃ st', FitReach S st st' ∧ (st'.unplaced.size == 0) = false ∧
        (st'.unplaced.wf = false ∨ st'.unplaced.sitesOk S = false)) ∨
      (fitLoop S fuel st ≠ .error .raises ∧ ∀ st', fitLoop S fuel st = .ok st' → InStep st')
  | 0, st, inv => by
    right
    unfold fitLoop
    split
    · exact ⟨by simp [pure, Except.pure], fun st' h => by rw [← pure_ok h]; exact inv⟩
    · exact ⟨by simp [throw, throwThe, MonadExceptOf.throw], fun st' h => by
        simp [throw, throwThe, MonadExceptOf.throw] at h⟩
  | fuel + 1, st, inv => by
    by_cases hsz : (st.unplaced.size == 0) = true
    · right
      unfold fitLoop
      rw [if_pos hsz]
      exact ⟨by simp [pure, Except.pure], fun st' h => by rw [← pure_ok h]; exact inv⟩
    · have hsz' : (st.unplaced.size == 0) = false := by simpa using hsz
      cases hwf : st.unplaced.wf with
      | false => exact .inl ⟨st, FitReach.refl st, hsz', .inl hwf⟩
      | true =>
        cases hsi : st.unplaced.sitesOk S with
        | false => exact .inl ⟨st, FitReach.refl st, hsz', .inr hsi⟩
        | true =>
          obtain ⟨st1, hst1⟩ := fitStep_total S hdet hf hw hlab hcl hts st inv hwf hsi
          have inv1 := fitStep_inStep S hdet hf hw hlab st inv hwf hsz' st1 hst1
          rcases fitLoop_raise_or_reach S hdet hf hw hlab hcl hts fuel st1 inv1 with
            ⟨st', hr, hne, hbad⟩ | ⟨h1, h2⟩
          · exact .inl ⟨st', FitReach.step hsz' hst1 hr, hne, hbad⟩
          · right
            unfold fitLoop
            rw [if_neg hsz, FM.bind_eq hst1]
            exact ⟨h1, h2⟩

/-- **`replace_step` raises only through one of the three places**: on a valid document (schema guards as in
    `fit_no_raise`) an answer `raises` means that the loop of `fit` reaches a state, with something left to place, whose
    unplaced slice is not well-formed or does not satisfy the site conditions for its open depths -/
theorem replaceStep_raises_reach (S : Schema) (hdet : DetS S) (hfill : FillersOK S) (hw : WrapOK S)
    (hlab : LabelsOK S) (hcl : Closable S) (hts : TextStableP S) (doc : Node) (f t : Nat) (sl : Slice)
    (hv : S.checkNode doc = true) (hattrs : S.nodeAttrsOK doc = true) (htop : S.isTextblockO (S.tyOf doc) = false)
    (hf : f ≤ fsize doc.kids) (ht : t ≤ fsize doc.kids) (h : replaceStep S doc f t sl = .error .raises) :
    ∃ rf st0 st', doc.resolve f = some rf ∧ fitInit S rf sl = .ok st0 ∧ FitReach S st0 st' ∧
      (st'.unplaced.size == 0) = false ∧ (st'.unplaced.wf = false ∨ st'.unplaced.sitesOk S = false) := by
  obtain ⟨rf, hrf⟩ := resolve_isSome doc f hf
  obtain ⟨rt, hrt⟩ := resolve_isSome doc t ht
  unfold replaceStep at h
  split at h
  · simp [pure, Except.pure] at h
  · simp only [hrf, hrt] at h
    obtain ⟨b, hb⟩ := fitsTriviallyR_some S hrf hv (rt := rt) sl
    rw [hb] at h
    cases b with
    | true => simp [pure, Except.pure] at h
    | false =>
      simp only at h
      obtain ⟨st0, h0, hu, hfr, hlen, hsp, hsz⟩ := fitInit_ok S hrf hv sl
      have inv0 : InStep st0 := by
        refine ⟨hfr, ?_, by rw [hlen, Nat.add_sub_cancel]; exact hsp⟩
        intro h; rw [h] at hlen; simp at hlen
      rcases fitLoop_raise_or_reach S hdet hfill hw hlab hcl hts (fitFuel S sl) st0 inv0 with
        ⟨st', hr, hne, hbad⟩ | ⟨hnr, hin⟩
      · exact ⟨rf, st0, st', hrf, h0, hr, hne, hbad⟩
      · exfalso
        cases hl : fitLoop S (fitFuel S sl) st0 with
        | error e =>
          rcases fitLoop_err S _ st0 e hl with he | he
          · subst he; exact hnr hl
          · subst he
            unfold fitterFit at h
            rw [FM.bind_eq h0, hl] at h
            simp [bind, Except.bind] at h
        | ok st =>
          have inv := hin st hl
          have hL : rf.depth ≤ spineL st.placed :=
            fitLoop_stable (spineL_stable rf.depth) S _ st0 st hl (fitInit_spineL S hrf sl st0 h0)
          have hR := rspineOK_spineR _ _ inv.sp
          have := spine_sum_le_fsize st.placed
          obtain ⟨r, hr⟩ := fitterFit_ok_of_loop S hdet hfill hrt hattrs htop sl _ st0 st h0 hl inv.frok inv.ne inv.sp
            (by omega)
          rw [hr] at h
          cases h

/-- the same with the evaluator `firstBadState` (PM/FitRaiseGuard.lean) in the place of reachability -/
theorem fitLoop_raise_or_bad (S : Schema) (hdet : DetS S) (hf : FillersOK S) (hw : WrapOK S) (hlab : LabelsOK S)
    (hcl : Closable S) (hts : TextStableP S) :
    ∀ (fuel : Nat) (st : FitState), InStep st →
      (∃ w a b, firstBadState S fuel st = some (w, a, b) ∧ (w && a && b) = false) ∨
      (fitLoop S fuel st ≠ .error .raises ∧ ∀ st', fitLoop S fuel st = .ok st' → InStep st')
  | 0, st, inv => by
    right
    unfold fitLoop
    split
    · exact ⟨by simp [pure, Except.pure], fun st' h => by rw [← pure_ok h]; exact inv⟩
    · exact ⟨by simp [throw, throwThe, MonadExceptOf.throw], fun st' h => by
        simp [throw, throwThe, MonadExceptOf.throw] at h⟩
  | fuel + 1, st, inv => by
    by_cases hsz : (st.unplaced.size == 0) = true
    · right
      unfold fitLoop
      rw [if_pos hsz]
      exact ⟨by simp [pure, Except.pure], fun st' h => by rw [← pure_ok h]; exact inv⟩
    · have hsz' : (st.unplaced.size == 0) = false := by simpa using hsz
      cases hall : (st.unplaced.wf && S.startSiteOk st.unplaced.openStart st.unplaced.content &&
          S.endSiteOk st.unplaced.content st.unplaced.openEnd) with
      | false =>
        left
        refine ⟨_, _, _, ?_, hall⟩
        unfold firstBadState
        rw [if_neg hsz]
        simp only [hall, Bool.false_eq_true, if_false]
      | true =>
        simp only [Bool.and_eq_true] at hall
        obtain ⟨st1, hst1⟩ := fitStep_total S hdet hf hw hlab hcl hts st inv hall.1.1
          (by simp [Slice.sitesOk, hall.1.2, hall.2])
        have inv1 := fitStep_inStep S hdet hf hw hlab st inv hall.1.1 hsz' st1 hst1
        rcases fitLoop_raise_or_bad S hdet hf hw hlab hcl hts fuel st1 inv1 with ⟨w, a, b, h1, h2⟩ | ⟨h1, h2⟩
        · left
          refine ⟨w, a, b, ?_, h2⟩
          unfold firstBadState
          rw [if_neg hsz]
          simp only [hall.1.1, hall.1.2, hall.2, Bool.and_self, if_true, hst1]
          exact h1
        · right
          unfold fitLoop
          rw [if_neg hsz, FM.bind_eq hst1]
          exact ⟨h1, h2⟩

theorem replaceStep_raises_bad (S : Schema) (hdet : DetS S) (hfill : FillersOK S) (hw : WrapOK S)
    (hlab : LabelsOK S) (hcl : Closable S) (hts : TextStableP S) (doc : Node) (f t : Nat) (sl : Slice)
    (hv : S.checkNode doc = true) (hattrs : S.nodeAttrsOK doc = true) (htop : S.isTextblockO (S.tyOf doc) = false)
    (hf : f ≤ fsize doc.kids) (ht : t ≤ fsize doc.kids) (h : replaceStep S doc f t sl = .error .raises) :
    ∃ w a b, requestBadState S doc f t sl = some (w, a, b) ∧ (w && a && b) = false := by
  obtain ⟨rf, hrf⟩ := resolve_isSome doc f hf
  obtain ⟨rt, hrt⟩ := resolve_isSome doc t ht
  unfold requestBadState
  unfold replaceStep at h
  split at h
  · simp [pure, Except.pure] at h
  · rename_i hcond
    rw [if_neg hcond]
    simp only [hrf, hrt] at h ⊢
    obtain ⟨b, hb⟩ := fitsTriviallyR_some S hrf hv (rt := rt) sl
    rw [hb] at h ⊢
    cases b with
    | true => simp [pure, Except.pure] at h
    | false =>
      simp only at h ⊢
      obtain ⟨st0, h0, hu, hfr, hlen, hsp, hsz⟩ := fitInit_ok S hrf hv sl
      rw [h0]
      simp only
      have inv0 : InStep st0 := by
        refine ⟨hfr, ?_, by rw [hlen, Nat.add_sub_cancel]; exact hsp⟩
        intro h; rw [h] at hlen; simp at hlen
      rcases fitLoop_raise_or_bad S hdet hfill hw hlab hcl hts (fitFuel S sl) st0 inv0 with hbad | ⟨hnr, hin⟩
      · exact hbad
      · exfalso
        cases hl : fitLoop S (fitFuel S sl) st0 with
        | error e =>
          rcases fitLoop_err S _ st0 e hl with he | he
          · subst he; exact hnr hl
          · subst he
            unfold fitterFit at h
            rw [FM.bind_eq h0, hl] at h
            simp [bind, Except.bind] at h
        | ok st =>
          have inv := hin st hl
          have hL : rf.depth ≤ spineL st.placed :=
            fitLoop_stable (spineL_stable rf.depth) S _ st0 st hl (fitInit_spineL S hrf sl st0 h0)
          have hR := rspineOK_spineR _ _ inv.sp
          have := spine_sum_le_fsize st.placed
          obtain ⟨r, hr⟩ := fitterFit_ok_of_loop S hdet hfill hrt hattrs htop sl _ st0 st h0 hl inv.frok inv.ne inv.sp
            (by omega)
          rw [hr] at h
          cases h

end PM
