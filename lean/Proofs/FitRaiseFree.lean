/- Proofs/FitRaiseFree.lean — `fit_no_raise` (Props/C11.lean): the two raise sites of `place_nodes` go through when
   the unplaced slice satisfies `Slice.sitesOk` (PM/FitRaiseGuard.lean); the static guard `Slice.openPrefixOk` implies
   `sitesOk` in every state the loop reaches; so under the schema guards, a well-formed unplaced slice over the run and
   the termination guard the loop of `fit` returns, and with it `replace_step`. -/
import Proofs.FitNoRaise
import Proofs.FitInline
import Proofs.FitTotal
import PM.FitRaiseGuard
set_option linter.unusedVariables false
namespace PM

/-! ### `fill_before` answers with nodes when the search over types answers -/

theorem fillOpt_some_of_types (S : Schema) (hdet : DetS S) (hf : FillersOK S) (w q : Nat) (after : List TypeId)
    (toEnd : Bool) (tys : List TypeId) (h : fillBeforeTypes S (S.dfa w) q after toEnd = some tys) :
    ∃ ns, fillOpt S (S.dfa w) q after toEnd = .ok (some ns) ∧ S.types ns = tys := by
  obtain ⟨r, hr⟩ := fillOpt_ok S hdet hf w q after toEnd
  have hr' := liftRaise_ok hr
  cases r with
  | none =>
    exfalso
    unfold fillBeforeNodes at hr'
    rw [h] at hr'
    simp only at hr'
    split at hr' <;> simp at hr'
  | some ns =>
    refine ⟨ns, hr, ?_⟩
    have := fillBeforeNodes_types S _ _ _ _ ns hr'
    rw [h] at this
    simpa using this.symm

/-- a state a run arrives at is the state it started from or the target of an edge -/
theorem run_reach (d : Dfa) : ∀ (l : List TypeId) (q q' : Nat), d.run q l = some q' →
    q' = q ∨ ∃ q0 e, e ∈ d.edgesOf q0 ∧ e.2 = q'
  | [], q, q', h => by
    simp only [Dfa.run, Option.some.injEq] at h
    exact .inl h.symm
  | t :: l, q, q', h => by
    simp only [Dfa.run] at h
    cases hm : d.matchType q t with
    | none => simp [hm] at h
    | some y =>
      rw [hm] at h
      rcases run_reach d l y q' h with he | he
      · subst he
        exact .inr ⟨q, (t, q'), Dfa.mem_of_matchType hm, rfl⟩
      · exact .inr he

theorem closable_run (S : Schema) (hcl : Closable S) (w : TypeId) (hw : w < S.nodes.size) (l : List TypeId) (q : Nat)
    (h : (S.dfa w).run 0 l = some q) : (fillBeforeTypes S (S.dfa w) q [] true).isSome = true := by
  rcases run_reach _ l 0 q h with he | ⟨q0, e, he, hq⟩
  · subst he; exact (hcl w hw).1
  · subst hq; exact (hcl w hw).2 q0 e he

/-! ### the start site: `close_node_start` -/

theorem startSiteOk_cons_congr (S : Schema) (os : Nat) (x : Node) (l l' : List Node) :
    S.startSiteOk os (x :: l) = S.startSiteOk os (x :: l') := by
  cases os with
  | zero => simp [Schema.startSiteOk]
  | succ os => cases x <;> simp [Schema.startSiteOk]

theorem spineL_head (x : Node) (l : List Node) : spineL (x :: l) = spineL [x] := by
  cases x <;> simp [spineL]

/-- the part of `close_node_start` after the first child has been closed -/
theorem closeTail_total (S : Schema) (hdet : DetS S) (hf : FillersOK S) (hcl : Closable S) (hts : TextStableP S)
    (t : TypeId) (htlt : t < S.nodes.size) (frag : List Node)
    (hfill : (fillBeforeTypes S (S.dfa t) 0 (S.types frag) false).isSome = true) (oe : Int) (node : Node) :
    ∃ r, (do
      let fill ← fillOpt S (S.dfa t) 0 (S.types frag) false
      let fill ← liftRaise fill
      let frag := fappend fill frag
      let tail ←
        (if oe ≤ 0 then do
          let q ← liftRaise ((S.dfa t).run 0 (S.types frag))
          let fill2 ← fillOpt S (S.dfa t) q [] true
          liftRaise fill2
         else pure [])
      pure (node.withKids (fappend frag tail)) : FM Node) = .ok r := by
  obtain ⟨tys, htysome⟩ := Option.isSome_iff_exists.1 hfill
  obtain ⟨fill, hfillok, hfilltys⟩ := fillOpt_some_of_types S hdet hf t 0 _ false tys htysome
  obtain ⟨_, q1, hrun1, hfin⟩ := fillBeforeTypes_sound S (S.dfa t) (hdet t) 0 _ false tys htysome
  have hq2 : ∃ q2, (S.dfa t).run q1 (S.types frag) = some q2 := by
    unfold fillFinished at hfin
    cases hr : (S.dfa t).run q1 (S.types frag) with
    | none => simp [hr] at hfin
    | some q2 => exact ⟨q2, rfl⟩
  obtain ⟨q2, hq2⟩ := hq2
  have hrunall : (S.dfa t).run 0 (S.types (fappend fill frag)) = some q2 := by
    apply run_fappend_some hts
    rw [Dfa.run_append, hfilltys, hrun1]
    exact hq2
  rw [FM.bind_eq hfillok]
  simp only [liftRaise]
  rw [FM.bind_eq (show (pure fill : FM (List Node)) = .ok fill from rfl)]
  by_cases hoe : oe ≤ 0
  · simp only [if_pos hoe, hrunall]
    obtain ⟨tys2, htys2⟩ := Option.isSome_iff_exists.1 (closable_run S hcl t htlt _ q2 hrunall)
    obtain ⟨fill2, hfill2, _⟩ := fillOpt_some_of_types S hdet hf t q2 [] true tys2 htys2
    rw [FM.bind_eq (show (pure q2 : FM Nat) = .ok q2 from rfl), FM.bind_eq hfill2]
    exact ⟨_, rfl⟩
  · simp only [if_neg hoe]
    exact ⟨_, rfl⟩

theorem FM.bind_total {α β : Type} {x : FM α} {f : α → FM β} (hx : ∃ a, x = .ok a)
    (hf : ∀ a, x = .ok a → ∃ b, f a = .ok b) : ∃ b, (x >>= f) = .ok b := by
  obtain ⟨a, ha⟩ := hx
  obtain ⟨b, hb⟩ := hf a ha
  exact ⟨b, by rw [FM.bind_eq ha]; exact hb⟩

/-- **`close_node_start` returns** on a node whose start spine is covered by its first-child chain and satisfies the
    start-site condition -/
theorem closeNodeStart_total (S : Schema) (hdet : DetS S) (hf : FillersOK S) (hcl : Closable S) (hts : TextStableP S) :
    ∀ (os : Nat) (node : Node) (oe : Int), os ≤ spineL [node] → S.startSiteOk os [node] = true →
      ∃ r, closeNodeStart S os node oe = .ok r
  | 0, node, oe, _, _ => ⟨node, rfl⟩
  | os + 1, node, oe, hsp, hok => by
    cases node with
    | text s m => simp [spineL] at hsp
    | leaf t a m => simp [spineL] at hsp
    | elem t a m kids =>
      simp only [spineL_elem_cons] at hsp
      simp only [Schema.startSiteOk, Bool.and_eq_true, decide_eq_true_eq] at hok
      obtain ⟨⟨htlt, hfill⟩, hkids⟩ := hok
      by_cases h0 : os = 0
      · subst h0
        unfold closeNodeStart
        refine FM.bind_total ⟨kids, rfl⟩ (fun frag hfrag => ?_)
        have : frag = kids := (pure_ok hfrag).symm
        subst this
        exact closeTail_total S hdet hf hcl hts t htlt frag hfill oe _
      · cases kids with
        | nil => simp [spineL] at hsp; omega
        | cons c rest =>
          have h1 : os ≤ spineL [c] := by rw [← spineL_head c rest]; omega
          have h2 : S.startSiteOk os [c] = true := by rw [startSiteOk_cons_congr S os c [] rest]; exact hkids
          have hall := fun oe' => closeNodeStart_total S hdet hf hcl hts os c oe' h1 h2
          unfold closeNodeStart
          refine FM.bind_total ?_ (fun frag hfrag => ?_)
          · rw [if_neg h0]
            exact FM.bind_total (hall _) (fun c' _ => ⟨_, rfl⟩)
          · rw [if_neg h0] at hfrag
            have hfrag' : (closeNodeStart S os c (if ((c :: rest).length == 1) = true then oe - 1 else 0) >>=
                fun c' => (pure (c' :: rest) : FM (List Node))) = .ok frag := hfrag
            obtain ⟨c', hc', hfr⟩ := FM.bind_ok hfrag'
            have : c' :: rest = frag := pure_ok hfr
            subst this
            have htys : S.types (c' :: rest) = S.types (c :: rest) :=
              types_cons_congr S c c' rest (closeNodeStart_tyOf S _ _ _ c' hc')
            exact closeTail_total S hdet hf hcl hts t htlt (c' :: rest) (by rw [htys]; exact hfill) oe _

/-! ### the take loop of `place_nodes` -/

theorem spineL_withMarks (n : Node) (mk : Marks) : spineL [n.withMarks mk] = spineL [n] := by
  cases n <;> simp [Node.withMarks, spineL]

theorem startSiteOk_withMarks (S : Schema) (os : Nat) (n : Node) (mk : Marks) :
    S.startSiteOk os [n.withMarks mk] = S.startSiteOk os [n] := by
  cases os with
  | zero => simp [Schema.startSiteOk]
  | succ os => cases n <;> simp [Node.withMarks, Schema.startSiteOk]

/-- **the take loop returns**: only the first node it takes is closed at its start, to the depth `os`, which the
    first-child chain of the fragment covers and along which the start-site condition holds -/
theorem takeLoop_total (S : Schema) (hdet : DetS S) (hf : FillersOK S) (hcl : Closable S) (hts : TextStableP S)
    (d : Dfa) (fty : TypeId) (os : Nat) (oec : Int) (total : Nat) :
    ∀ (rest : List Node) (taken q : Nat) (add : List Node),
      (taken = 0 → os ≤ spineL rest ∧ S.startSiteOk os rest = true) →
      ∃ tk, takeLoop S d fty os oec total rest taken q add = .ok tk
  | [], taken, q, add, _ => ⟨_, rfl⟩
  | next :: rest, taken, q, add, h0 => by
    unfold takeLoop
    split
    · exact ⟨_, rfl⟩
    · rename_i q' hm
      simp only
      split
      · refine FM.bind_total ?_ (fun n _ => takeLoop_total S hdet hf hcl hts d fty os oec total rest (taken + 1) q' _
          (fun h => by omega))
        by_cases ht : taken = 0
        · subst ht
          obtain ⟨h1, h2⟩ := h0 rfl
          simp only [Nat.zero_add, beq_self_eq_true, if_true]
          exact closeNodeStart_total S hdet hf hcl hts os _ _
            (by rw [spineL_withMarks, ← spineL_head next rest]; exact h1)
            (by rw [startSiteOk_withMarks, startSiteOk_cons_congr S os next [] rest]; exact h2)
        · have : (taken + 1 == 1) = false := by simp; omega
          simp only [this, Bool.false_eq_true, if_false]
          exact ⟨_, rfl⟩
      · exact takeLoop_total S hdet hf hcl hts d fty os oec total rest (taken + 1) q _ (fun h => by omega)

/-! ### the end site: pushing the open end -/

theorem endSiteOk_of_getLast (S : Schema) : ∀ (l : List Node) (t : TypeId) (a : Attrs) (m : Marks) (k : List Node)
    (n : Nat), l.getLast? = some (.elem t a m k) →
    S.endSiteOk l (n + 1) = (((S.dfa t).run 0 (S.types k)).isSome && S.endSiteOk k n)
  | [], _, _, _, _, _, h => by simp at h
  | [x], t, a, m, k, n, h => by
    simp only [List.getLast?_singleton, Option.some.injEq] at h
    subst h
    simp [Schema.endSiteOk]
  | x :: y :: ys, t, a, m, k, n, h => by
    rw [List.getLast?_cons_cons] at h
    have := endSiteOk_of_getLast S (y :: ys) t a m k n h
    rw [← this]
    simp [Schema.endSiteOk]

theorem endSiteOk_zero (S : Schema) : ∀ (l : List Node), S.endSiteOk l 0 = true
  | [] => by simp [Schema.endSiteOk]
  | [x] => by cases x <;> simp [Schema.endSiteOk]
  | x :: y :: ys => by
    have := endSiteOk_zero S (y :: ys)
    simpa [Schema.endSiteOk] using this

/-- **pushing the open end returns** when the last-child chain is long enough and satisfies the end-site condition -/
theorem pushOpenEnd_total (S : Schema) : ∀ (n : Nat) (cur : List Node) (fr : List FItem), n ≤ spineR cur →
    S.endSiteOk cur n = true → ∃ fr', pushOpenEnd S n cur fr = .ok fr'
  | 0, cur, fr, _, _ => ⟨fr, rfl⟩
  | n + 1, cur, fr, hsp, hok => by
    obtain ⟨t, a, m, k, hl⟩ := getLast_of_spineR cur (by omega)
    rw [spineR_of_getLast cur t a m k hl] at hsp
    rw [endSiteOk_of_getLast S cur t a m k n hl, Bool.and_eq_true] at hok
    obtain ⟨q, hq⟩ := Option.isSome_iff_exists.1 hok.1
    unfold pushOpenEnd
    rw [hl]
    simp only [Schema.contentMatchAt, Node.kids, Schema.tyOf, Node.tyOr, List.take_length, hq, liftRaise]
    rw [FM.bind_eq (show (pure q : FM Nat) = .ok q from rfl)]
    exact pushOpenEnd_total S n k _ (by omega) hok.2

/-- … and only then (**the end site is exact**): within the last-child chain, `pushOpenEnd` returns iff every node on
    it has children that are a matchable beginning of its content -/
theorem pushOpenEnd_ok_iff (S : Schema) : ∀ (n : Nat) (cur : List Node) (fr : List FItem), n ≤ spineR cur →
    ((∃ fr', pushOpenEnd S n cur fr = .ok fr') ↔ S.endSiteOk cur n = true)
  | 0, cur, fr, _ => ⟨fun _ => endSiteOk_zero S cur, fun _ => ⟨fr, rfl⟩⟩
  | n + 1, cur, fr, hsp => by
    refine ⟨fun ⟨fr', h⟩ => ?_, fun h => pushOpenEnd_total S (n + 1) cur fr hsp h⟩
    obtain ⟨t, a, m, k, hl⟩ := getLast_of_spineR cur (by omega)
    rw [spineR_of_getLast cur t a m k hl] at hsp
    rw [endSiteOk_of_getLast S cur t a m k n hl, Bool.and_eq_true]
    unfold pushOpenEnd at h
    rw [hl] at h
    simp only at h
    obtain ⟨q, hq, h⟩ := FM.bind_ok h
    have hq := liftRaise_ok hq
    simp only [Schema.contentMatchAt, Node.kids, Schema.tyOf, Node.tyOr, List.take_length] at hq
    exact ⟨by rw [hq]; rfl, (pushOpenEnd_ok_iff S n k _ (by omega)).1 ⟨fr', h⟩⟩

end PM
