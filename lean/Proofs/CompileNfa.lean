/-
  Proofs/CompileNfa.lean — stage 1b of C06's compiler proof: the finished NFA reads, along its paths from
  node 0 to the accepting node, exactly the language of the expression (`nfa_correct`), and every node can
  reach the accepting node (`nfa_coreach`).

  Method: a fragment (`IsFrag`) is a list of edges with one entry node, fresh inner nodes, and dangling
  exits; it is *complete* (every word of its language labels a path entry → exit target), *sound* by a
  labelling argument (if the entry's label contains `L * K`, the fresh nodes can be labelled so that every
  edge respects the labels, `K` being the label of the exit target), and every inner node reaches the exit.
  The constructs of `compile` are combinators on fragments.
-/
import Proofs.Compile
namespace PM
set_option linter.unusedSimpArgs false

/-! ### paths -/

/-- a path in a list of (resolved) edges: `NPath G n w k` reads `w` from node `n` to node `k`; an edge with
    `term = none` reads nothing -/
inductive NPath (G : List NEdge) : Nat → List Nat → Nat → Prop
  | nil (n : Nat) : NPath G n [] n
  | cons {n m k : Nat} {w : List Nat} (ed : NEdge) (hmem : ed ∈ G) (hsrc : ed.src = n) (hto : ed.to = some m)
      (rest : NPath G m w k) : NPath G n (ed.term.toList ++ w) k

theorem NPath.mono {G G' : List NEdge} (h : ∀ ed, ed ∈ G → ed ∈ G') {n k : Nat} {w : List Nat}
    (p : NPath G n w k) : NPath G' n w k := by
  induction p with
  | nil n => exact .nil n
  | cons ed hmem hsrc hto _ ih => exact .cons ed (h ed hmem) hsrc hto ih

theorem NPath.trans {G : List NEdge} {n m k : Nat} {u v : List Nat}
    (p : NPath G n u m) (q : NPath G m v k) : NPath G n (u ++ v) k := by
  induction p with
  | nil n => simpa using q
  | cons ed hmem hsrc hto _ ih =>
    rw [List.append_assoc]
    exact .cons ed hmem hsrc hto (ih q)

theorem NPath.single {G : List NEdge} (ed : NEdge) (hmem : ed ∈ G) {m : Nat} (hto : ed.to = some m) :
    NPath G ed.src ed.term.toList m := by
  have := NPath.cons (G := G) ed hmem rfl hto (.nil m)
  simpa using this

/-! ### labellings -/

/-- the edge respects the labelling: what can be read from its target (label `K` if it is still dangling)
    can, prefixed with its own letter, be read from its source -/
def EdgeOk (lab : Nat → Language Nat) (K : Language Nat) (ed : NEdge) : Prop :=
  ∀ v, v ∈ (match ed.to with | some m => lab m | none => K) → ed.term.toList ++ v ∈ lab ed.src

theorem EdgeOk.transfer {lab lab' : Nat → Language Nat} {K : Language Nat} {ed : NEdge}
    (h : EdgeOk lab K ed) (hs : lab' ed.src = lab ed.src) (ht : ∀ m, ed.to = some m → lab' m = lab m) :
    EdgeOk lab' K ed := by
  intro v hv
  rw [hs]
  apply h
  cases hto : ed.to with
  | none => simpa [hto] using hv
  | some m => simp only [hto] at hv ⊢; rw [← ht m hto]; exact hv

theorem EdgeOk.fill {lab : Nat → Language Nat} {K K' : Language Nat} {ed : NEdge} {x : Nat}
    (h : EdgeOk lab K ed) (hx : lab x = K) : EdgeOk lab K' (fill x ed) := by
  intro v hv
  simp only [fill_to, fill_term, fill_src] at hv ⊢
  apply h
  cases hto : ed.to with
  | none => simpa [hto, hx] using hv
  | some m => simpa [hto] using hv

/-- if every edge respects the labelling and the target's label contains the empty word only … paths into
    `k` read words of the source's label -/
theorem NPath.sound {G : List NEdge} {lab : Nat → Language Nat} (hG : ∀ ed, ed ∈ G → EdgeOk lab 0 ed)
    {n k : Nat} {w : List Nat} (p : NPath G n w k) (hk : [] ∈ lab k) : w ∈ lab n := by
  induction p with
  | nil n => exact hk
  | cons ed hmem hsrc hto _ ih =>
    have := hG ed hmem _ (by simpa [hto] using ih hk)
    rwa [hsrc] at this

/-! ### where the edges of a fragment live -/

/-- source: the entry node or a fresh node; target (if resolved): a fresh node -/
def InB (from_ base c : Nat) (ed : NEdge) : Prop :=
  (ed.src = from_ ∨ (base ≤ ed.src ∧ ed.src < base + c)) ∧ ∀ m, ed.to = some m → base ≤ m ∧ m < base + c

theorem InB.widen {f b c : Nat} {ed : NEdge} (h : InB f b c ed) {f' b' c' : Nat}
    (hf : f = f' ∨ (b' ≤ f ∧ f < b' + c')) (hb : b' ≤ b) (hc : b + c ≤ b' + c') : InB f' b' c' ed := by
  obtain ⟨hs, ht⟩ := h
  refine ⟨?_, fun m hm => ?_⟩
  · rcases hs with hs | hs
    · rcases hf with hf | hf
      · exact Or.inl (hs.trans hf)
      · exact Or.inr (by omega)
    · exact Or.inr (by omega)
  · have := ht m hm; omega

theorem InB.fill {f b c : Nat} {ed : NEdge} (h : InB f b c ed) {x : Nat} (hx : b ≤ x ∧ x < b + c) :
    InB f b c (fill x ed) := by
  obtain ⟨hs, ht⟩ := h
  refine ⟨hs, fun m hm => ?_⟩
  simp only [fill_to, Option.some.injEq] at hm
  cases hto : ed.to with
  | none => simp [hto] at hm; omega
  | some m' => simp [hto] at hm; have := ht m' hto; omega

/-! ### fragments -/

structure IsFrag (F : List NEdge) (from_ base c : Nat) (L : Language Nat) : Prop where
  bounds : ∀ ed, ed ∈ F → InB from_ base c ed
  ne : ∃ w, w ∈ L
  complete : ∀ (G : List NEdge) (x : Nat), (∀ ed, ed ∈ F → fill x ed ∈ G) → ∀ w, w ∈ L → NPath G from_ w x
  coreach : ∀ (G : List NEdge) (x : Nat), (∀ ed, ed ∈ F → fill x ed ∈ G) →
    ∀ n, base ≤ n → n < base + c → ∃ v, NPath G n v x
  sound : ∀ (K : Language Nat) (lab : Nat → Language Nat), from_ < base → L * K ≤ lab from_ →
    ∃ lab' : Nat → Language Nat, (∀ n, n < base → lab' n = lab n) ∧ ∀ ed, ed ∈ F → EdgeOk lab' K ed

theorem IsFrag.congr {F : List NEdge} {from_ base c : Nat} {L L' : Language Nat} (h : IsFrag F from_ base c L)
    (hL : L = L') : IsFrag F from_ base c L' := hL ▸ h

theorem IsFrag.congrF {F F' : List NEdge} {from_ base c c' : Nat} {L : Language Nat} (h : IsFrag F from_ base c L)
    (hF : F = F') (hc : c = c') : IsFrag F' from_ base c' L := hF ▸ hc ▸ h

/-- update of a labelling -/
def upd (lab : Nat → Language Nat) (j : Nat) (K : Language Nat) : Nat → Language Nat :=
  fun n => if n = j then K else lab n

@[simp] theorem upd_self (lab : Nat → Language Nat) (j : Nat) (K : Language Nat) : upd lab j K j = K := by
  simp [upd]

theorem upd_ne (lab : Nat → Language Nat) (j : Nat) (K : Language Nat) {n : Nat} (h : n ≠ j) :
    upd lab j K n = lab n := by
  simp [upd, h]

theorem fill_fill (x j : Nat) (ed : NEdge) : fill x (fill j ed) = fill j ed := by
  simp [fill]

/-! ### the combinators -/

theorem IsFrag.name (f base t : Nat) : IsFrag [⟨f, some t, none⟩] f base 0 (RE.sym t).lang where
  bounds := by
    intro ed hed
    simp only [List.mem_singleton] at hed
    subst hed
    exact ⟨Or.inl rfl, fun m hm => by simp at hm⟩
  ne := ⟨[t], (mem_lang_sym t _).2 rfl⟩
  complete := by
    intro G x hG w hw
    rw [(mem_lang_sym t w).1 hw]
    have := NPath.single (G := G) (fill x ⟨f, some t, none⟩) (hG _ (by simp)) (m := x) (by simp)
    simpa using this
  coreach := by intro G x _ n h1 h2; omega
  sound := by
    intro K lab _ hL
    refine ⟨lab, fun _ _ => rfl, ?_⟩
    intro ed hed
    simp only [List.mem_singleton] at hed
    subst hed
    intro v hv
    simp only at hv
    apply hL
    exact Language.append_mem_mul ((mem_lang_sym t _).2 rfl) hv

theorem IsFrag.eps (f base : Nat) : IsFrag [⟨f, none, none⟩] f base 0 1 where
  bounds := by
    intro ed hed
    simp only [List.mem_singleton] at hed
    subst hed
    exact ⟨Or.inl rfl, fun m hm => by simp at hm⟩
  ne := ⟨[], (Language.mem_one _).2 rfl⟩
  complete := by
    intro G x hG w hw
    rw [(Language.mem_one w).1 hw]
    have := NPath.single (G := G) (fill x ⟨f, none, none⟩) (hG _ (by simp)) (m := x) (by simp)
    simpa using this
  coreach := by intro G x _ n h1 h2; omega
  sound := by
    intro K lab _ hL
    refine ⟨lab, fun _ _ => rfl, ?_⟩
    intro ed hed
    simp only [List.mem_singleton] at hed
    subst hed
    intro v hv
    simp only at hv
    have : v ∈ (1 : Language Nat) * K := by rw [one_mul]; exact hv
    have h2 : v ∈ lab f := hL this
    simpa using h2

theorem IsFrag.alt {F1 F2 : List NEdge} {f b c1 c2 : Nat} {L1 L2 : Language Nat}
    (h1 : IsFrag F1 f b c1 L1) (h2 : IsFrag F2 f (b + c1) c2 L2) :
    IsFrag (F1 ++ F2) f b (c1 + c2) (L1 + L2) where
  bounds := by
    intro ed hed
    rcases List.mem_append.1 hed with hed | hed
    · exact (h1.bounds ed hed).widen (Or.inl rfl) (Nat.le_refl _) (by omega)
    · exact (h2.bounds ed hed).widen (Or.inl rfl) (by omega) (by omega)
  ne := by
    obtain ⟨w, hw⟩ := h1.ne
    exact ⟨w, (Language.mem_add _ _ _).2 (Or.inl hw)⟩
  complete := by
    intro G x hG w hw
    rcases (Language.mem_add _ _ _).1 hw with hw | hw
    · exact h1.complete G x (fun ed hed => hG ed (List.mem_append_left _ hed)) w hw
    · exact h2.complete G x (fun ed hed => hG ed (List.mem_append_right _ hed)) w hw
  coreach := by
    intro G x hG n hn1 hn2
    by_cases hlt : n < b + c1
    · exact h1.coreach G x (fun ed hed => hG ed (List.mem_append_left _ hed)) n hn1 hlt
    · exact h2.coreach G x (fun ed hed => hG ed (List.mem_append_right _ hed)) n (by omega) (by omega)
  sound := by
    intro K lab hfb hL
    have hL1 : L1 * K ≤ lab f := fun v hv => hL (by
      rw [add_mul]; exact (Language.mem_add _ _ _).2 (Or.inl hv))
    obtain ⟨lab1, hag1, hok1⟩ := h1.sound K lab hfb hL1
    have hL2 : L2 * K ≤ lab1 f := fun v hv => by
      rw [hag1 f hfb]
      exact hL (by rw [add_mul]; exact (Language.mem_add _ _ _).2 (Or.inr hv))
    obtain ⟨lab2, hag2, hok2⟩ := h2.sound K lab1 (by omega) hL2
    refine ⟨lab2, fun n hn => by rw [hag2 n (by omega), hag1 n hn], ?_⟩
    intro ed hed
    rcases List.mem_append.1 hed with hed | hed
    · obtain ⟨hs, ht⟩ := h1.bounds ed hed
      refine (hok1 ed hed).transfer (hag2 _ ?_) (fun m hm => hag2 m ?_)
      · rcases hs with hs | hs <;> omega
      · have := ht m hm; omega
    · exact hok2 ed hed

theorem IsFrag.opt {F : List NEdge} {f b c : Nat} {L : Language Nat} (h : IsFrag F f b c L) :
    IsFrag (⟨f, none, none⟩ :: F) f b c (1 + L) := by
  have := (IsFrag.eps f b).alt (F2 := F) (c2 := c) (L2 := L) (by simpa using h)
  exact this.congrF (by simp) (by omega)

theorem le_mem {L M : Language Nat} (h : L ≤ M) {v : List Nat} (hv : v ∈ L) : v ∈ M := h hv

/-- sequence, junction node allocated *after* the first part (`seq`) -/
theorem IsFrag.seq2 {F1 F2 : List NEdge} {f b c1 c2 : Nat} {L1 L2 : Language Nat}
    (h1 : IsFrag F1 f b c1 L1) (h2 : IsFrag F2 (b + c1) (b + c1 + 1) c2 L2) :
    IsFrag (F1.map (fill (b + c1)) ++ F2) f b (c1 + 1 + c2) (L1 * L2) where
  bounds := by
    intro ed hed
    rcases List.mem_append.1 hed with hed | hed
    · obtain ⟨ed', hed', rfl⟩ := List.mem_map.1 hed
      exact ((h1.bounds ed' hed').widen (Or.inl rfl) (Nat.le_refl _) (by omega)).fill (by omega)
    · exact (h2.bounds ed hed).widen (Or.inr (by omega)) (by omega) (by omega)
  ne := by
    obtain ⟨u, hu⟩ := h1.ne
    obtain ⟨v, hv⟩ := h2.ne
    exact ⟨u ++ v, Language.append_mem_mul hu hv⟩
  complete := by
    intro G x hG w hw
    obtain ⟨u, hu, v, hv, rfl⟩ := Language.mem_mul.1 hw
    have p1 := h1.complete G (b + c1) (fun ed hed => by
      have := hG (fill (b + c1) ed) (List.mem_append_left _ (List.mem_map_of_mem hed))
      rwa [fill_fill] at this) u hu
    have p2 := h2.complete G x (fun ed hed => hG ed (List.mem_append_right _ hed)) v hv
    exact p1.trans p2
  coreach := by
    intro G x hG n hn1 hn2
    obtain ⟨v2, hv2⟩ := h2.ne
    have p2 := h2.complete G x (fun ed hed => hG ed (List.mem_append_right _ hed)) v2 hv2
    by_cases hlt : n < b + c1
    · obtain ⟨v, p⟩ := h1.coreach G (b + c1) (fun ed hed => by
        have := hG (fill (b + c1) ed) (List.mem_append_left _ (List.mem_map_of_mem hed))
        rwa [fill_fill] at this) n hn1 hlt
      exact ⟨_, p.trans p2⟩
    · by_cases heq : n = b + c1
      · subst heq; exact ⟨_, p2⟩
      · exact h2.coreach G x (fun ed hed => hG ed (List.mem_append_right _ hed)) n (by omega) (by omega)
  sound := by
    intro K lab hfb hL
    have hL1 : L1 * (L2 * K) ≤ lab f := by rw [← mul_assoc]; exact hL
    obtain ⟨lab1, hag1, hok1⟩ := h1.sound (L2 * K) lab hfb hL1
    obtain ⟨lab2, hag2, hok2⟩ := h2.sound K (upd lab1 (b + c1) (L2 * K)) (by omega) (by simp)
    refine ⟨lab2, fun n hn => by rw [hag2 n (by omega), upd_ne _ _ _ (by omega), hag1 n hn], ?_⟩
    intro ed hed
    rcases List.mem_append.1 hed with hed | hed
    · obtain ⟨ed', hed', rfl⟩ := List.mem_map.1 hed
      obtain ⟨hs, ht⟩ := h1.bounds ed' hed'
      have hok : EdgeOk (upd lab1 (b + c1) (L2 * K)) (L2 * K) ed' :=
        (hok1 ed' hed').transfer (upd_ne _ _ _ (by rcases hs with hs | hs <;> omega))
          (fun m hm => upd_ne _ _ _ (by have := ht m hm; omega))
      have hok' : EdgeOk (upd lab1 (b + c1) (L2 * K)) K (fill (b + c1) ed') := hok.fill (by simp)
      refine hok'.transfer (hag2 _ ?_) (fun m hm => hag2 m ?_)
      · simp only [fill_src]; rcases hs with hs | hs <;> omega
      · simp only [fill_to, Option.some.injEq] at hm
        cases hto : ed'.to with
        | none => simp [hto] at hm; omega
        | some m' => simp [hto] at hm; have := ht m' hto; omega
    · exact hok2 ed hed

/-- sequence, junction node allocated *before* the first part (the copies of `range`) -/
theorem IsFrag.seq2' {F1 F2 : List NEdge} {f b c1 c2 : Nat} {L1 L2 : Language Nat}
    (h1 : IsFrag F1 f (b + 1) c1 L1) (h2 : IsFrag F2 b (b + 1 + c1) c2 L2) :
    IsFrag (F1.map (fill b) ++ F2) f b (1 + c1 + c2) (L1 * L2) where
  bounds := by
    intro ed hed
    rcases List.mem_append.1 hed with hed | hed
    · obtain ⟨ed', hed', rfl⟩ := List.mem_map.1 hed
      exact ((h1.bounds ed' hed').widen (Or.inl rfl) (by omega) (by omega)).fill (by omega)
    · exact (h2.bounds ed hed).widen (Or.inr (by omega)) (by omega) (by omega)
  ne := by
    obtain ⟨u, hu⟩ := h1.ne
    obtain ⟨v, hv⟩ := h2.ne
    exact ⟨u ++ v, Language.append_mem_mul hu hv⟩
  complete := by
    intro G x hG w hw
    obtain ⟨u, hu, v, hv, rfl⟩ := Language.mem_mul.1 hw
    have p1 := h1.complete G b (fun ed hed => by
      have := hG (fill b ed) (List.mem_append_left _ (List.mem_map_of_mem hed))
      rwa [fill_fill] at this) u hu
    have p2 := h2.complete G x (fun ed hed => hG ed (List.mem_append_right _ hed)) v hv
    exact p1.trans p2
  coreach := by
    intro G x hG n hn1 hn2
    obtain ⟨v2, hv2⟩ := h2.ne
    have p2 := h2.complete G x (fun ed hed => hG ed (List.mem_append_right _ hed)) v2 hv2
    by_cases heq : n = b
    · subst heq; exact ⟨_, p2⟩
    · by_cases hlt : n < b + 1 + c1
      · obtain ⟨v, p⟩ := h1.coreach G b (fun ed hed => by
          have := hG (fill b ed) (List.mem_append_left _ (List.mem_map_of_mem hed))
          rwa [fill_fill] at this) n (by omega) hlt
        exact ⟨_, p.trans p2⟩
      · exact h2.coreach G x (fun ed hed => hG ed (List.mem_append_right _ hed)) n (by omega) (by omega)
  sound := by
    intro K lab hfb hL
    have hL1 : L1 * (L2 * K) ≤ upd lab b (L2 * K) f := by
      rw [upd_ne _ _ _ (by omega), ← mul_assoc]; exact hL
    obtain ⟨lab1, hag1, hok1⟩ := h1.sound (L2 * K) (upd lab b (L2 * K)) (by omega) hL1
    have hb1 : lab1 b = L2 * K := by rw [hag1 b (by omega)]; simp
    obtain ⟨lab2, hag2, hok2⟩ := h2.sound K lab1 (by omega) (by rw [hb1])
    refine ⟨lab2, fun n hn => by rw [hag2 n (by omega), hag1 n (by omega), upd_ne _ _ _ (by omega)], ?_⟩
    intro ed hed
    rcases List.mem_append.1 hed with hed | hed
    · obtain ⟨ed', hed', rfl⟩ := List.mem_map.1 hed
      obtain ⟨hs, ht⟩ := h1.bounds ed' hed'
      have hok' : EdgeOk lab1 K (fill b ed') := (hok1 ed' hed').fill hb1
      refine hok'.transfer (hag2 _ ?_) (fun m hm => hag2 m ?_)
      · simp only [fill_src]; rcases hs with hs | hs <;> omega
      · simp only [fill_to, Option.some.injEq] at hm
        cases hto : ed'.to with
        | none => simp [hto] at hm; omega
        | some m' => simp [hto] at hm; have := ht m' hto; omega
    · exact hok2 ed hed

theorem kstar_cons {L : Language Nat} {u y : List Nat} (hu : u ∈ L) (hy : y ∈ KStar.kstar L) :
    u ++ y ∈ KStar.kstar L := by
  obtain ⟨S, rfl, hS⟩ := Language.mem_kstar.1 hy
  refine Language.mem_kstar.2 ⟨u :: S, by simp, ?_⟩
  intro z hz
  rcases List.mem_cons.1 hz with rfl | hz
  · exact hu
  · exact hS z hz

theorem mul_kstar_mul_le (L K : Language Nat) : L * (KStar.kstar L * K) ≤ KStar.kstar L * K := by
  intro v hv
  obtain ⟨u, hu, yk, hyk, rfl⟩ := Language.mem_mul.1 hv
  obtain ⟨y, hy, k, hk, rfl⟩ := Language.mem_mul.1 hyk
  rw [← List.append_assoc]
  exact Language.append_mem_mul (kstar_cons hu hy) hk

/-- a first part, then a loop on the fresh junction node `b`, then the exit edge (`*`, `+`, `{n,}`) -/
theorem IsFrag.thenLoop {F1 F2 : List NEdge} {f b c1 c2 : Nat} {L1 L2 : Language Nat}
    (h1 : IsFrag F1 f (b + 1) c1 L1) (h2 : IsFrag F2 b (b + 1 + c1) c2 L2) :
    IsFrag (F1.map (fill b) ++ F2.map (fill b) ++ [⟨b, none, none⟩]) f b (1 + c1 + c2)
      (L1 * KStar.kstar L2) where
  bounds := by
    intro ed hed
    rcases List.mem_append.1 hed with hed | hed
    · rcases List.mem_append.1 hed with hed | hed
      · obtain ⟨ed', hed', rfl⟩ := List.mem_map.1 hed
        exact ((h1.bounds ed' hed').widen (Or.inl rfl) (by omega) (by omega)).fill (by omega)
      · obtain ⟨ed', hed', rfl⟩ := List.mem_map.1 hed
        exact ((h2.bounds ed' hed').widen (Or.inr (by omega)) (by omega) (by omega)).fill (by omega)
    · simp only [List.mem_singleton] at hed
      subst hed
      exact ⟨Or.inr (by simp; omega), fun m hm => by simp at hm⟩
  ne := by
    obtain ⟨u, hu⟩ := h1.ne
    exact ⟨u ++ [], Language.append_mem_mul hu (Language.nil_mem_kstar _)⟩
  complete := by
    intro G x hG w hw
    obtain ⟨u, hu, y, hy, rfl⟩ := Language.mem_mul.1 hw
    have hG1 : ∀ ed, ed ∈ F1 → fill b ed ∈ G := fun ed hed => by
      have := hG (fill b ed) (List.mem_append_left _ (List.mem_append_left _ (List.mem_map_of_mem hed)))
      rwa [fill_fill] at this
    have hG2 : ∀ ed, ed ∈ F2 → fill b ed ∈ G := fun ed hed => by
      have := hG (fill b ed) (List.mem_append_left _ (List.mem_append_right _ (List.mem_map_of_mem hed)))
      rwa [fill_fill] at this
    have hexit : NPath G b [] x := by
      have := NPath.single (G := G) (fill x ⟨b, none, none⟩) (hG _ (by simp)) (m := x) (by simp)
      simpa using this
    have p1 := h1.complete G b hG1 u hu
    have ploopAll : ∀ S : List (List Nat), (∀ z, z ∈ S → z ∈ L2) → NPath G b S.flatten b := by
      intro S
      induction S with
      | nil => intro _; exact .nil b
      | cons z S ih =>
        intro hS
        simp only [List.flatten_cons]
        exact (h2.complete G b hG2 z (hS z (List.mem_cons_self ..))).trans
          (ih (fun z hz => hS z (List.mem_cons_of_mem _ hz)))
    obtain ⟨S, rfl, hS⟩ := Language.mem_kstar.1 hy
    have ploop := ploopAll S hS
    have := (p1.trans ploop).trans hexit
    simpa using this
  coreach := by
    intro G x hG n hn1 hn2
    have hG1 : ∀ ed, ed ∈ F1 → fill b ed ∈ G := fun ed hed => by
      have := hG (fill b ed) (List.mem_append_left _ (List.mem_append_left _ (List.mem_map_of_mem hed)))
      rwa [fill_fill] at this
    have hG2 : ∀ ed, ed ∈ F2 → fill b ed ∈ G := fun ed hed => by
      have := hG (fill b ed) (List.mem_append_left _ (List.mem_append_right _ (List.mem_map_of_mem hed)))
      rwa [fill_fill] at this
    have hexit : NPath G b [] x := by
      have := NPath.single (G := G) (fill x ⟨b, none, none⟩) (hG _ (by simp)) (m := x) (by simp)
      simpa using this
    by_cases heq : n = b
    · subst heq; exact ⟨_, hexit⟩
    · by_cases hlt : n < b + 1 + c1
      · obtain ⟨v, p⟩ := h1.coreach G b hG1 n (by omega) hlt
        exact ⟨_, p.trans hexit⟩
      · obtain ⟨v, p⟩ := h2.coreach G b hG2 n (by omega) (by omega)
        exact ⟨_, p.trans hexit⟩
  sound := by
    intro K lab hfb hL
    have hL1 : L1 * (KStar.kstar L2 * K) ≤ upd lab b (KStar.kstar L2 * K) f := by
      rw [upd_ne _ _ _ (by omega), ← mul_assoc]; exact hL
    obtain ⟨lab1, hag1, hok1⟩ := h1.sound _ (upd lab b (KStar.kstar L2 * K)) (by omega) hL1
    have hb1 : lab1 b = KStar.kstar L2 * K := by rw [hag1 b (by omega)]; simp
    obtain ⟨lab2, hag2, hok2⟩ := h2.sound (KStar.kstar L2 * K) lab1 (by omega)
      (by rw [hb1]; exact mul_kstar_mul_le L2 K)
    have hb2 : lab2 b = KStar.kstar L2 * K := by rw [hag2 b (by omega), hb1]
    refine ⟨lab2, fun n hn => by rw [hag2 n (by omega), hag1 n (by omega), upd_ne _ _ _ (by omega)], ?_⟩
    intro ed hed
    rcases List.mem_append.1 hed with hed | hed
    · rcases List.mem_append.1 hed with hed | hed
      · obtain ⟨ed', hed', rfl⟩ := List.mem_map.1 hed
        obtain ⟨hs, ht⟩ := h1.bounds ed' hed'
        have hok' : EdgeOk lab1 K (fill b ed') := (hok1 ed' hed').fill hb1
        refine hok'.transfer (hag2 _ ?_) (fun m hm => hag2 m ?_)
        · simp only [fill_src]; rcases hs with hs | hs <;> omega
        · simp only [fill_to, Option.some.injEq] at hm
          cases hto : ed'.to with
          | none => simp [hto] at hm; omega
          | some m' => simp [hto] at hm; have := ht m' hto; omega
      · obtain ⟨ed', hed', rfl⟩ := List.mem_map.1 hed
        exact (hok2 ed' hed').fill hb2
    · simp only [List.mem_singleton] at hed
      subst hed
      intro v hv
      simp only at hv
      show [] ++ v ∈ lab2 b
      rw [hb2]
      have := Language.append_mem_mul (Language.nil_mem_kstar L2) hv
      simpa using this

/-! ### languages of the sugar -/

theorem lang_eps : RE.eps.lang = 1 := rfl
theorem lang_alt (a b : RE) : (RE.alt a b).lang = a.lang + b.lang := rfl
theorem lang_seq (a b : RE) : (RE.seq a b).lang = a.lang * b.lang := rfl
theorem lang_star (a : RE) : (RE.star a).lang = KStar.kstar a.lang := rfl

theorem lang_rep_pow (r : RE) (n : Nat) : (RE.rep r n).lang = r.lang ^ n := by
  induction n with
  | zero => simp [RE.rep, lang_eps]
  | succ n ih => simp [RE.rep, lang_seq, ih, pow_succ']

theorem IsFrag.congrB {F : List NEdge} {from_ from' base base' c : Nat} {L : Language Nat}
    (h : IsFrag F from_ base c L) (hf : from_ = from') (hb : base = base') : IsFrag F from' base' c L :=
  hf ▸ hb ▸ h

/-! ### the repetition helpers of `range` -/

theorem endRep_succ (c n cur base : Nat) : endRep c (n + 1) cur base = base + n * (1 + c) := by
  induction n generalizing cur base with
  | zero => simp [endRep]
  | succ n ih =>
    rw [endRep, ih, Nat.succ_mul]
    omega

theorem fragMand_succ_last (g : Nat → Nat → List NEdge) (c n cur base : Nat) :
    fragMand g c (n + 1) cur base =
      fragMand g c n cur base ++
        (g (endRep c n cur base) (base + n * (1 + c) + 1)).map (fill (base + n * (1 + c))) := by
  induction n generalizing cur base with
  | zero => simp [fragMand, endRep]
  | succ n ih =>
    rw [fragMand, ih base (base + 1 + c)]
    simp only [fragMand, endRep, List.append_assoc]
    have e1 : base + 1 + c + n * (1 + c) = base + (n + 1) * (1 + c) := by rw [Nat.succ_mul]; omega
    rw [e1]

/-- mandatory copies in front of a tail fragment -/
theorem mand_isFrag (g : Nat → Nat → List NEdge) (c : Nat) (L : Language Nat)
    (hg : ∀ f b, IsFrag (g f b) f b c L) (T : List NEdge) (cT : Nat) (LT : Language Nat) (n : Nat) :
    ∀ f b, IsFrag T (endRep c n f b) (b + n * (1 + c)) cT LT →
      IsFrag (fragMand g c n f b ++ T) f b (n * (1 + c) + cT) (L ^ n * LT) := by
  induction n with
  | zero =>
    intro f b hT
    simpa [fragMand, endRep] using hT
  | succ n ih =>
    intro f b hT
    have e1 : b + 1 + c + n * (1 + c) = b + (n + 1) * (1 + c) := by rw [Nat.succ_mul]; omega
    have h2 := ih b (b + 1 + c) (by rw [e1]; exact hT)
    have := (hg f (b + 1)).seq2' h2
    refine (this.congrF (by simp [fragMand]) (by rw [Nat.succ_mul]; omega)).congr ?_
    rw [pow_succ', mul_assoc]

/-- the optional copies and the exit edge -/
theorem optTail_isFrag (g : Nat → Nat → List NEdge) (c : Nat) (L : Language Nat)
    (hg : ∀ f b, IsFrag (g f b) f b c L) (k : Nat) :
    ∀ f b, IsFrag (fragOpt g c k f b ++ [⟨endRep c k f b, none, none⟩]) f b (k * (1 + c)) ((1 + L) ^ k) := by
  induction k with
  | zero =>
    intro f b
    simpa [fragOpt, endRep] using IsFrag.eps f b
  | succ k ih =>
    intro f b
    have := (hg f (b + 1)).opt.seq2' (ih b (b + 1 + c))
    refine (this.congrF (by simp [fragOpt, endRep, fill]) (by rw [Nat.succ_mul]; omega)).congr ?_
    rw [pow_succ']

/-- the loop tail of `{n,}`, `*`: entry edge to the fresh node `b`, loop on it, exit edge -/
theorem starTail_isFrag (g : Nat → Nat → List NEdge) (c : Nat) (L : Language Nat)
    (hg : ∀ f b, IsFrag (g f b) f b c L) (f b : Nat) :
    IsFrag (⟨f, none, some b⟩ :: (g b (b + 1)).map (fill b) ++ [⟨b, none, none⟩]) f b (c + 1) (KStar.kstar L) := by
  have := (IsFrag.eps f (b + 1)).thenLoop (hg b (b + 1))
  refine (this.congrF (by simp [fill]) (by omega)).congr ?_
  rw [one_mul]

/-! ### every expression compiles to a fragment for its language -/

mutual
theorem frag_isFrag : ∀ (e : Expr) (f b : Nat), e.wf = true → IsFrag (frag e f b) f b (cnt e) e.toRE.lang
  | .choice es, f, b, h => by
    simp only [Expr.wf, Bool.and_eq_true, Bool.not_eq_true', List.isEmpty_eq_false_iff] at h
    simp only [frag, cnt, Expr.toRE]
    exact fragChoice_isFrag es f b h.1 h.2
  | .seq es, f, b, h => by
    simp only [Expr.wf, Bool.and_eq_true, Bool.not_eq_true', List.isEmpty_eq_false_iff] at h
    simp only [frag, cnt, Expr.toRE]
    exact fragSeq_isFrag es f b h.1 h.2
  | .star e, f, b, h => by
    simp only [Expr.wf] at h
    simp only [frag, cnt, Expr.toRE, lang_star]
    exact starTail_isFrag (frag e) (cnt e) _ (fun f b => frag_isFrag e f b h) f b
  | .plus e, f, b, h => by
    simp only [Expr.wf] at h
    simp only [frag, cnt, Expr.toRE, RE.plus, lang_seq, lang_star]
    have := (frag_isFrag e f (b + 1) h).thenLoop (frag_isFrag e b (b + 1 + cnt e) h)
    exact this.congrF rfl (by omega)
  | .opt e, f, b, h => by
    simp only [Expr.wf] at h
    simp only [frag, cnt, Expr.toRE, RE.opt, lang_alt, lang_eps]
    exact (frag_isFrag e f b h).opt
  | .range mn mx e, f, b, h => by
    simp only [Expr.wf] at h
    have hg : ∀ f b, IsFrag (frag e f b) f b (cnt e) e.toRE.lang := fun f b => frag_isFrag e f b h
    cases mx with
    | none =>
      cases mn with
      | zero =>
        simp only [frag, cnt, Expr.toRE, RE.range, RE.rep, lang_seq, lang_star, lang_eps, fragMand, endRep,
          List.nil_append, if_true, Nat.zero_mul, Nat.add_zero, Nat.zero_add, one_mul]
        have := starTail_isFrag (frag e) (cnt e) _ hg f b
        exact this.congrF rfl (by omega)
      | succ k =>
        simp only [frag, cnt, Expr.toRE, RE.range, lang_seq, lang_star, lang_rep_pow, Nat.succ_ne_zero, if_false,
          Nat.add_one_ne_zero]
        rw [fragMand_succ_last, endRep_succ]
        simp only [List.append_assoc]
        have e1 : b + (k + 1) * (1 + cnt e) = b + k * (1 + cnt e) + 1 + cnt e := by rw [Nat.succ_mul]; omega
        rw [e1]
        have hT := (hg (endRep (cnt e) k f b) (b + k * (1 + cnt e) + 1)).thenLoop
          (hg (b + k * (1 + cnt e)) (b + k * (1 + cnt e) + 1 + cnt e))
        have := mand_isFrag (frag e) (cnt e) _ hg _ _ _ k f b hT
        refine (this.congrF (by simp) (by rw [Nat.succ_mul]; omega)).congr ?_
        rw [pow_succ, mul_assoc]
    | some m =>
      simp only [frag, cnt, Expr.toRE, RE.range, lang_seq, lang_rep_pow, RE.opt, lang_alt, lang_eps]
      have hT := optTail_isFrag (frag e) (cnt e) _ hg (m - mn) (endRep (cnt e) mn f b) (b + mn * (1 + cnt e))
      exact mand_isFrag (frag e) (cnt e) _ hg _ _ _ mn f b hT
  | .name t, f, b, _ => by
    simp only [frag, cnt, Expr.toRE]
    exact IsFrag.name f b t
theorem fragChoice_isFrag : ∀ (es : List Expr) (f b : Nat), es ≠ [] → Expr.wfs es = true →
    IsFrag (fragChoice es f b) f b (cntChoice es) (RE.alts (Expr.toREs es)).lang
  | [], _, _, h, _ => absurd rfl h
  | [e], f, b, _, h => by
    simp only [Expr.wfs, Bool.and_true] at h
    simp only [fragChoice, cntChoice, Expr.toREs, RE.alts, List.append_nil, Nat.add_zero]
    exact frag_isFrag e f b h
  | e :: e' :: es, f, b, _, h => by
    rw [Expr.wfs, Bool.and_eq_true] at h
    have h2 := fragChoice_isFrag (e' :: es) f (b + cnt e) (by simp) h.2
    have := (frag_isFrag e f b h.1).alt h2
    simp only [Expr.toREs] at this ⊢
    rw [fragChoice, cntChoice]
    exact this
theorem fragSeq_isFrag : ∀ (es : List Expr) (f b : Nat), es ≠ [] → Expr.wfs es = true →
    IsFrag (fragSeq es f b) f b (cntSeq es) (RE.seqs (Expr.toREs es)).lang
  | [], _, _, h, _ => absurd rfl h
  | [e], f, b, _, h => by
    simp only [Expr.wfs, Bool.and_true] at h
    simp only [fragSeq, cntSeq, Expr.toREs, RE.seqs]
    exact frag_isFrag e f b h
  | e :: e' :: es, f, b, _, h => by
    rw [Expr.wfs, Bool.and_eq_true] at h
    have h2 := fragSeq_isFrag (e' :: es) (b + cnt e) (b + cnt e + 1) (by simp) h.2
    have := (frag_isFrag e f b h.1).seq2 h2
    simp only [Expr.toREs] at this ⊢
    rw [fragSeq, cntSeq]
    exact this
end

/-! ### the finished NFA -/

theorem nfaState_edges (e : Expr) : (nfaState e).edges = (frag e 0 1).map (fill (cnt e + 1)) := by
  rw [nfaState_eq]

theorem nfaState_size (e : Expr) : (nfaState e).size = cnt e + 2 := by
  rw [nfaState_eq]

/-- **stage 1**: the words read along the paths of the finished NFA from node 0 to the accepting node
    (the last node, `cnt e + 1`) are exactly the words of the expression -/
theorem nfa_correct (e : Expr) (h : e.wf = true) (w : List Nat) :
    NPath (nfaState e).edges 0 w (cnt e + 1) ↔ w ∈ e.toRE.lang := by
  have hF := frag_isFrag e 0 1 h
  rw [nfaState_edges]
  constructor
  · intro p
    obtain ⟨lab', hag, hok⟩ := hF.sound 1 (fun _ => e.toRE.lang) (by omega) (by rw [mul_one])
    have hG : ∀ ed, ed ∈ (frag e 0 1).map (fill (cnt e + 1)) → EdgeOk (upd lab' (cnt e + 1) 1) 0 ed := by
      intro ed hed
      obtain ⟨ed', hed', rfl⟩ := List.mem_map.1 hed
      obtain ⟨hs, ht⟩ := hF.bounds ed' hed'
      have h1 : EdgeOk (upd lab' (cnt e + 1) 1) 1 ed' :=
        (hok ed' hed').transfer (upd_ne _ _ _ (by rcases hs with hs | hs <;> omega))
          (fun m hm => upd_ne _ _ _ (by have := ht m hm; omega))
      exact h1.fill (by simp)
    have := p.sound hG (by simp [Language.mem_one])
    rwa [upd_ne _ _ _ (by omega), hag 0 (by omega)] at this
  · intro hw
    exact hF.complete _ _ (fun ed hed => List.mem_map_of_mem hed) w hw

/-- every node of the finished NFA reaches the accepting node -/
theorem nfa_coreach (e : Expr) (h : e.wf = true) (n : Nat) (hn : n < cnt e + 2) :
    ∃ v, NPath (nfaState e).edges n v (cnt e + 1) := by
  have hF := frag_isFrag e 0 1 h
  rw [nfaState_edges]
  have hG : ∀ ed, ed ∈ frag e 0 1 → fill (cnt e + 1) ed ∈ (frag e 0 1).map (fill (cnt e + 1)) :=
    fun ed hed => List.mem_map_of_mem hed
  by_cases h0 : n = 0
  · subst h0
    obtain ⟨w, hw⟩ := hF.ne
    exact ⟨w, hF.complete _ _ hG w hw⟩
  · by_cases hacc : n = cnt e + 1
    · subst hacc; exact ⟨[], .nil _⟩
    · exact hF.coreach _ _ hG n (by omega) (by omega)

/-- every edge of the finished NFA is resolved; no edge leaves the accepting node -/
theorem nfa_edge_bounds (e : Expr) (h : e.wf = true) (ed : NEdge) (hed : ed ∈ (nfaState e).edges) :
    ed.src < cnt e + 1 ∧ ∃ m, ed.to = some m ∧ m < cnt e + 2 := by
  have hF := frag_isFrag e 0 1 h
  rw [nfaState_edges] at hed
  obtain ⟨ed', hed', rfl⟩ := List.mem_map.1 hed
  obtain ⟨hs, ht⟩ := hF.bounds ed' hed'
  refine ⟨by simp only [fill_src]; rcases hs with hs | hs <;> omega, ?_⟩
  cases hto : ed'.to with
  | none => exact ⟨cnt e + 1, by simp [hto], by omega⟩
  | some m => exact ⟨m, by simp [hto], by have := ht m hto; omega⟩

end PM
