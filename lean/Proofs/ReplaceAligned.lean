/-
  Proofs/ReplaceAligned.lean — a replace that succeeds cut at two offsets that do not fall between the
  halves of a surrogate pair (`alignedAt`): every path of `replace` resolves both positions, and a
  position inside a pair is a `ValueError` (`splitOk`).
-/
import Proofs.UndoInverse
namespace PM

theorem alignedAt_elem (ty : TypeId) (a : Attrs) (m : Marks) (k ns : List Node) (f : Nat) (h0 : f ≠ 0)
    (hlt : f < 2 + fsize k) : alignedAt (.elem ty a m k :: ns) f = alignedAt k (f - 1) := by
  rw [alignedAt_cons, if_neg h0, if_neg (by simp; omega)]

theorem splitRight_flat_aligned' {R : List Node} {t : Nat} {r : List Node}
    (h : splitRight R t = some (.flat r)) : alignedAt R t = true := by
  rw [splitRight_aligned _ _ _ h]

theorem splitRight_deep_aligned {R : List Node} {t : Nat} {ty : TypeId} {a : Attrs} {m : Marks}
    {k : List Node} {i : Nat} {r : List Node}
    (h : splitRight R t = some (.deep (.elem ty a m k) i r)) : alignedAt R t = alignedAt k i := by
  rw [splitRight_aligned _ _ _ h]

theorem twoWay_aligned (S : Schema) : ∀ (L : List Node) (f : Nat) (R : List Node) (t : Nat)
    (X : List Node), twoWay S L f R t = .ok X → alignedAt L f = true ∧ alignedAt R t = true
  | [], f, R, t, X, h => by
    unfold twoWay at h
    split at h
    · split at h
      · rename_i hs; exact ⟨by simp [alignedAt], splitRight_flat_aligned' hs⟩
      · simp at h
      · simp at h
    · simp at h
  | n :: ns, f, R, t, X, h => by
    unfold twoWay at h
    by_cases hf : f = 0
    · rw [if_pos hf] at h
      subst hf
      split at h
      · rename_i hs; exact ⟨alignedAt_zero _, splitRight_flat_aligned' hs⟩
      · simp at h
      · simp at h
    rw [if_neg hf] at h
    by_cases hle : n.size ≤ f
    · rw [if_pos hle] at h
      cases hx : twoWay S ns (f - n.size) R t with
      | error e => rw [hx] at h; simp at h
      | ok r =>
        have ih := twoWay_aligned S ns _ R t r hx
        rw [alignedAt_skip n ns f hle]
        exact ih
    rw [if_neg hle] at h
    cases n with
    | text s m =>
      simp only at h
      split at h
      · simp at h
      · rename_i hso
        split at h
        · rename_i hs
          refine ⟨?_, splitRight_flat_aligned' hs⟩
          rw [alignedAt_cons, if_neg hf, if_neg hle]
          simpa using hso
        · simp at h
        · simp at h
    | leaf ty a m => simp at h
    | elem ty a m kids =>
      simp only [Node.size_elem, Nat.not_le] at hle
      simp only at h
      split at h
      · rename_i ty' a' m' kids' inner rest hs
        split at h
        · cases hx : twoWay S kids (f - 1) kids' inner with
          | error e => rw [hx] at h; simp at h
          | ok r =>
            have ih := twoWay_aligned S kids _ kids' inner r hx
            rw [alignedAt_elem _ _ _ _ _ _ hf hle, splitRight_deep_aligned hs]
            exact ih
        · simp at h
      · simp at h
      · simp at h

theorem rightJoin_aligned (S : Schema) {M : List Node} {b : Nat} {rs : RSplit} {rj : List Node}
    {R : List Node} {t : Nat} (hs : splitRight R t = some rs) (h : rightJoin S M b rs = .ok rj) :
    alignedAt R t = true := by
  unfold rightJoin at h
  split at h
  · exact splitRight_flat_aligned' hs
  · rename_i cR innerT rest
    split at h
    · simp at h
    · split at h
      · rename_i tyE aE mE kidsE tyR aR mR kidsR hl
        split at h
        · cases hx : twoWay S kidsE (fsize kidsE - (b - 1)) kidsR innerT with
          | error e => rw [hx] at h; simp at h
          | ok r =>
            rw [splitRight_deep_aligned hs]
            exact (twoWay_aligned S _ _ _ _ r hx).2
        · simp at h
      · simp at h

theorem flatTail_aligned (S : Schema) {M : List Node} {a b : Nat} {R : List Node} {t : Nat}
    {X : List Node} (h : flatTail S M a b R t = .ok X) : alignedAt R t = true := by
  unfold flatTail at h
  split at h
  · simp at h
  · split at h
    · simp at h
    · rename_i rs hs
      cases hx : rightJoin S M b rs with
      | error e => rw [hx] at h; simp at h
      | ok rj => exact rightJoin_aligned S hs hx

theorem threeWay_aligned (S : Schema) : ∀ (L : List Node) (f e : Nat) (M : List Node) (a b : Nat)
    (R : List Node) (t : Nat) (X : List Node), threeWay S L f e M a b R t = .ok X →
    alignedAt L f = true ∧ alignedAt R t = true
  | [], f, e, M, a, b, R, t, X, h => by
    unfold threeWay at h
    split at h
    · split at h
      · exact ⟨by simp [alignedAt], flatTail_aligned S h⟩
      · simp at h
    · simp at h
  | n :: ns, f, e, M, a, b, R, t, X, h => by
    unfold threeWay at h
    by_cases hf : f = 0
    · rw [if_pos hf] at h
      subst hf
      split at h
      · exact ⟨alignedAt_zero _, flatTail_aligned S h⟩
      · simp at h
    rw [if_neg hf] at h
    by_cases hle : n.size ≤ f
    · rw [if_pos hle] at h
      cases hx : threeWay S ns (f - n.size) e M a b R t with
      | error err => rw [hx] at h; simp at h
      | ok r =>
        rw [alignedAt_skip n ns f hle]
        exact threeWay_aligned S ns _ e M a b R t r hx
    rw [if_neg hle] at h
    cases n with
    | text s m =>
      simp only at h
      split at h
      · simp at h
      · rename_i hso
        split at h
        · simp at h
        · cases hx : flatTail S M a b R t with
          | error err => rw [hx] at h; simp at h
          | ok r =>
            refine ⟨?_, flatTail_aligned S hx⟩
            rw [alignedAt_cons, if_neg hf, if_neg hle]
            simpa using hso
    | leaf ty a' m => simp at h
    | elem tyL aL mL kidsL =>
      simp only [Node.size_elem, Nat.not_le] at hle
      rw [alignedAt_elem _ _ _ _ _ _ hf hle]
      cases hs : splitRight R t with
      | none => simp [hs] at h
      | some rs =>
        simp only [hs] at h
        split at h
        · -- above the slice
          split at h
          · rename_i tyR aR mR kidsR innerT rest
            split at h
            · cases hx : threeWay S kidsL (f - 1) (e - 1) M a b kidsR innerT with
              | error err => rw [hx] at h; simp at h
              | ok r =>
                rw [splitRight_deep_aligned hs]
                exact threeWay_aligned S kidsL _ _ M a b kidsR innerT r hx
            · simp at h
          · simp at h
        · split at h
          · simp at h
          · split at h
            · simp at h
            · rename_i cS Mtail
              split at h
              · rename_i tyS aS mS kidsS
                split at h
                · simp at h
                · split at h
                  · rename_i rs0 b0 M0 tyR aR mR kidsR innerT rest b' hd heq
                    split at h
                    · simp at h
                    · cases hx : threeWay S kidsL (f - 1) 0 kidsS (a - 1) b' kidsR innerT with
                      | error err => rw [hx] at h; simp at h
                      | ok r =>
                        rw [splitRight_deep_aligned hs]
                        exact threeWay_aligned S kidsL _ _ kidsS _ b' kidsR innerT r hx
                  · split at h
                    · simp at h
                    · cases hx : twoWay S kidsL (f - 1) kidsS (a - 1) with
                      | error err => rw [hx] at h; simp at h
                      | ok lr =>
                        simp only [hx] at h
                        split at h
                        · split at h
                          · rename_i rj hj
                            exact ⟨(twoWay_aligned S _ _ _ _ lr hx).1, rightJoin_aligned S hs hj⟩
                          · simp at h
                        · simp at h
              · simp at h

theorem atLevel_aligned (S : Schema) (sl : Slice) (ty : TypeId) (level : List Node) (f t e : Nat)
    (X : List Node) (hft : f ≤ t) (ht : t ≤ fsize level) (h : atLevel S sl ty level f t e = .ok X) :
    alignedAt level f = true ∧ alignedAt level t = true := by
  unfold atLevel at h
  simp only at h
  split at h
  · rename_i c hc
    split at hc
    · cases hx : twoWay S level f level t with
      | error err => rw [hx] at hc; simp [Except.map] at hc
      | ok r => exact twoWay_aligned S _ _ _ _ r hx
    · split at hc
      · split at hc
        · rename_i l r hl hr
          constructor
          · by_cases h0 : f = 0
            · subst h0; exact alignedAt_zero _
            · exact (fcut_aligned (by omega) (by omega) hl).2
          · by_cases h1 : t = fsize level
            · rw [h1]; exact alignedAt_fsize _
            · exact (fcut_aligned (by omega) (Nat.le_refl _) hr).1
        · simp at hc
        · simp at hc
      · cases hx : threeWay S level f e sl.content sl.openStart sl.openEnd level t with
        | error err => rw [hx] at hc; simp [Except.map] at hc
        | ok r => exact threeWay_aligned S _ _ _ _ _ _ _ _ r hx
  · simp at h

theorem outer_aligned (S : Schema) (sl : Slice) :
    ∀ (rest : List Node) (ty : TypeId) (level : List Node) (f0 t0 idx f t e : Nat) (pre X : List Node),
      level = pre ++ rest → f0 = fsize pre + f → t0 = fsize pre + t → f ≤ t → t ≤ fsize rest →
      outer S sl ty level f0 t0 idx rest f t e = .ok X →
      alignedAt rest f = true ∧ alignedAt rest t = true
  | [], ty, level, f0, t0, idx, f, t, e, pre, X, hl, hf0, ht0, hft, ht, h => by
    simp [alignedAt]
  | n :: ns, ty, level, f0, t0, idx, f, t, e, pre, X, hl, hf0, ht0, hft, ht, h => by
    have here : atLevel S sl ty level f0 t0 e = .ok X →
        alignedAt (n :: ns) f = true ∧ alignedAt (n :: ns) t = true := by
      intro h'
      have := atLevel_aligned S sl ty level f0 t0 e X (by omega)
        (by rw [hl, fsize_append]; omega) h'
      rwa [hl, hf0, ht0, alignedAt_append_pre, alignedAt_append_pre] at this
    simp only [fsize_cons] at ht
    unfold outer at h
    by_cases hf : f = 0
    · rw [if_pos hf] at h; exact here h
    rw [if_neg hf] at h
    by_cases hle : n.size ≤ f
    · rw [if_pos hle] at h
      rw [alignedAt_skip n ns f hle, alignedAt_skip n ns t (by omega)]
      exact outer_aligned S sl ns ty level f0 t0 (idx + 1) (f - n.size) (t - n.size) e
        (pre ++ [n]) X (by simp [hl]) (by rw [fsize_append]; simp; omega)
        (by rw [fsize_append]; simp; omega) (by omega) (by omega) h
    rw [if_neg hle] at h
    cases n with
    | text s mm => exact here h
    | leaf tt aa mm => exact here h
    | elem tyC aC mC kidsC =>
      simp only at h
      by_cases hcond : (e ≠ 0 && decide (t < (Node.elem tyC aC mC kidsC).size)) = true
      · rw [if_pos hcond] at h
        simp only [Bool.and_eq_true, decide_eq_true_eq, ne_eq, Node.size_elem] at hcond
        simp only [Node.size_elem, Nat.not_le] at hle
        cases hx : outer S sl tyC kidsC (f - 1) (t - 1) 0 kidsC (f - 1) (t - 1) (e - 1) with
        | error err => rw [hx] at h; simp at h
        | ok inner =>
          rw [alignedAt_elem _ _ _ _ _ _ hf hle, alignedAt_elem _ _ _ _ _ _ (by omega) hcond.2]
          exact outer_aligned S sl kidsC tyC kidsC (f - 1) (t - 1) 0 (f - 1) (t - 1) (e - 1)
            [] inner rfl (by simp) (by simp) (by omega) (by omega) hx
      · rw [if_neg hcond] at h; exact here h

/-- **a replace that succeeds resolved both ends of its range at pair-aligned offsets** -/
theorem replaceKids_aligned (S : Schema) (ty : TypeId) (K : List Node) (f t : Nat) (sl : Slice)
    (X : List Node) (h : replaceKids S ty K f t sl = .ok X) :
    alignedAt K f = true ∧ alignedAt K t = true := by
  obtain ⟨hft, ht, _, ho⟩ := replaceKids_ok h
  exact outer_aligned S sl K ty K f t 0 f t _ [] X rfl (by simp) (by simp) hft ht ho

end PM
