/-
  Proofs/OpGuardB.lean — the executable payload validity of PM/OpGuard.lean is `openValid`
  (Proofs/ReplaceValid.lean), definition by definition.
-/
import PM.OpGuard
import Proofs.ReplaceValid
import Proofs.TokCore
namespace PM

theorem alignedAtB_eq : ∀ (l : List Node) (p : Nat), alignedAtB l p = alignedAt l p
  | [], _ => by simp [alignedAtB, alignedAt]
  | .text s m :: ns, p => by
    unfold alignedAtB alignedAt
    simp only [alignedAtB_eq ns]
  | .leaf t a m :: ns, p => by
    unfold alignedAtB alignedAt
    simp only [alignedAtB_eq ns]
  | .elem t a m k :: ns, p => by
    unfold alignedAtB alignedAt
    simp only [alignedAtB_eq ns, alignedAtB_eq k]

theorem leftOpenValidB_eq (S : Schema) : ∀ (a : Nat) (l : List Node), leftOpenValidB S a l = leftOpenValid S a l
  | 0, l => by simp [leftOpenValidB, leftOpenValid]
  | a + 1, [] => by simp [leftOpenValidB, leftOpenValid]
  | a + 1, .elem _ _ m k :: rest => by simp [leftOpenValidB, leftOpenValid, leftOpenValidB_eq S a k]
  | a + 1, .text _ _ :: rest => by simp [leftOpenValidB, leftOpenValid]
  | a + 1, .leaf _ _ _ :: rest => by simp [leftOpenValidB, leftOpenValid]

theorem rightOpenValidB_eq (S : Schema) : ∀ (b : Nat) (l : List Node), rightOpenValidB S b l = rightOpenValid S b l
  | 0, l => by simp [rightOpenValidB, rightOpenValid]
  | b + 1, [] => by simp [rightOpenValidB, rightOpenValid]
  | b + 1, [.elem _ _ m k] => by simp [rightOpenValidB, rightOpenValid, rightOpenValidB_eq S b k]
  | b + 1, [.text _ _] => by simp [rightOpenValidB, rightOpenValid]
  | b + 1, [.leaf _ _ _] => by simp [rightOpenValidB, rightOpenValid]
  | b + 1, n :: n' :: rest => by
    simp [rightOpenValidB, rightOpenValid, rightOpenValidB_eq S (b + 1) (n' :: rest)]

theorem openValidB_eq (S : Schema) : ∀ (a b : Nat) (l : List Node), openValidB S a b l = openValid S a b l
  | 0, b, l => by simp [openValidB, openValid, rightOpenValidB_eq]
  | a + 1, 0, l => by simp [openValidB, openValid, leftOpenValidB_eq]
  | a + 1, b + 1, [] => by simp [openValidB, openValid]
  | a + 1, b + 1, [.elem _ _ m k] => by simp [openValidB, openValid, openValidB_eq S a b k]
  | a + 1, b + 1, [.text _ _] => by simp [openValidB, openValid]
  | a + 1, b + 1, [.leaf _ _ _] => by simp [openValidB, openValid]
  | a + 1, b + 1, .elem _ _ m k :: n :: rest => by
    simp [openValidB, openValid, leftOpenValidB_eq, rightOpenValidB_eq]
  | a + 1, b + 1, .text _ _ :: n :: rest => by simp [openValidB, openValid]
  | a + 1, b + 1, .leaf _ _ _ :: n :: rest => by simp [openValidB, openValid]

end PM
