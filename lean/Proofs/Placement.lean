/-
  Proofs/Placement.lean — invariants of the placement core of the HTML importer (PM/FromDom.lean,
  part B).  Property theorems: Props/C19.lean.

  `Coh S P nodes`: every context of the stack has a type and a known `match`, is not open on the left, and
  its `match` is the state its type's content automaton reaches from the start state on the types of
  its `content` followed — when the context has an open child context in `nodes` — by the child's type
  (`enter_inner` advances the parent's `match` when the child is opened, `close_extra` appends the
  finished child later).
-/
import PM.FromDom
import Proofs.Fill
namespace PM.FromDom

/-! ### small facts about nodes -/

theorem tyOf_mkNode (S : Schema) (t : TypeId) (a : Attrs) (m : Marks) (k : List Node) :
    S.tyOf (mkNode S t a m k) = t := by
  unfold mkNode Schema.tyOf
  split <;> rfl

theorem tyOf_withMarks (S : Schema) (n : Node) (m : Marks) : S.tyOf (n.withMarks m) = S.tyOf n := by
  cases n <;> rfl

theorem types_append (S : Schema) (a b : List Node) : S.types (a ++ b) = S.types a ++ S.types b := by
  simp [Schema.types]

/-! ### contexts that differ only in their mark bookkeeping -/

/-- same type, match, content and options (marks, pending, active, stash, solid, attrs may differ) -/
def Same (a b : NodeCtx) : Prop :=
  a.ty = b.ty ∧ a.mtch = b.mtch ∧ a.content = b.content ∧ a.opts = b.opts

theorem Same.rfl' (a : NodeCtx) : Same a a := ⟨rfl, rfl, rfl, rfl⟩

theorem Same.trans {a b c : NodeCtx} (h1 : Same a b) (h2 : Same b c) : Same a c :=
  ⟨h1.1.trans h2.1, h1.2.1.trans h2.2.1, h1.2.2.1.trans h2.2.2.1, h1.2.2.2.trans h2.2.2.2⟩

theorem foldl_same {α : Type} (f : NodeCtx → α → NodeCtx) (hf : ∀ c a, Same (f c a) c) :
    ∀ (l : List α) (c : NodeCtx), Same (l.foldl f c) c
  | [], c => Same.rfl' c
  | a :: l, c => (foldl_same f hf l (f c a)).trans (hf c a)

theorem applyPending_same (S : Schema) (cx : NodeCtx) (ty : TypeId) : Same (cx.applyPending S ty) cx := by
  unfold NodeCtx.applyPending
  apply foldl_same
  intro c a
  have key : ∀ (b : Bool) (x : NodeCtx), Same x c → Same (if b = true then x else c) c := by
    intro b x hx
    cases b
    · exact Same.rfl' c
    · exact hx
  exact key _ _ ⟨rfl, rfl, rfl, rfl⟩

theorem removePending_same (S : Schema) (cx : NodeCtx) (m : TMark) : Same (cx.removePending S m) cx := by
  unfold NodeCtx.removePending NodeCtx.popFromStash
  by_cases h : (cx.pending.any fun o => o.1 == m.1) = true
  · rw [if_pos h]; exact ⟨rfl, rfl, rfl, rfl⟩
  · rw [if_neg h]
    dsimp only
    cases hf : List.find? (fun x => x == m.2) cx.stash with
    | none => exact ⟨rfl, rfl, rfl, rfl⟩
    | some f =>
      dsimp only
      cases ht : cx.ty with
      | none => exact ⟨ht.symm ▸ rfl, rfl, rfl, rfl⟩
      | some t =>
        dsimp only
        split <;> exact ⟨ht.symm ▸ rfl, rfl, rfl, rfl⟩

/-! ### coherence of the stack -/

def ctxOk (S : Schema) (P : Node → Prop) (cx : NodeCtx) (child : Option TypeId) : Prop :=
  cx.opts.openLeft = false ∧ (∀ n ∈ cx.content, P n) ∧ ∃ t q, cx.ty = some t ∧ cx.mtch = some q ∧
    (S.dfa t).run 0 (S.types cx.content ++ child.toList) = some q

def Coh (S : Schema) (P : Node → Prop) : List NodeCtx → Prop
  | [] => True
  | [c] => ctxOk S P c none
  | c :: n :: r => ctxOk S P c n.ty ∧ Coh S P (n :: r)

/-- pointwise `Same` -/
inductive SameL : List NodeCtx → List NodeCtx → Prop
  | nil : SameL [] []
  | cons {a b l l'} : Same a b → SameL l l' → SameL (a :: l) (b :: l')

theorem ctxOk_same {S : Schema} {P : Node → Prop} {a b : NodeCtx} (h : Same a b) (child : Option TypeId) :
    ctxOk S P a child ↔ ctxOk S P b child := by
  obtain ⟨h1, h2, h3, h4⟩ := h
  simp [ctxOk, h1, h2, h3, h4]

theorem Coh_congr (S : Schema) (P : Node → Prop) : ∀ {l l' : List NodeCtx}, SameL l l' → Coh S P l → Coh S P l'
  | [], [], _, _ => trivial
  | [a], [b], h, hc => by
    cases h with
    | cons hab _ => exact (ctxOk_same hab none).mp hc
  | a :: n :: r, b :: n' :: r', h, hc => by
    cases h with
    | cons hab ht =>
      cases ht with
      | cons hn hr =>
        refine ⟨?_, Coh_congr S P (SameL.cons hn hr) hc.2⟩
        rw [← hn.1]
        exact (ctxOk_same hab _).mp hc.1
  | [_], _ :: _ :: _, h, _ => by cases h with | cons _ ht => cases ht
  | _ :: _ :: _, [_], h, _ => by cases h with | cons _ ht => cases ht
  | [], _ :: _, h, _ => by cases h
  | _ :: _, [], h, _ => by cases h

theorem forall2_same_refl : ∀ (l : List NodeCtx), SameL l l
  | [] => .nil
  | a :: l => .cons (Same.rfl' a) (forall2_same_refl l)

theorem forall2_same_trans : ∀ {a b c : List NodeCtx}, SameL a b → SameL b c → SameL a c
  | [], [], [], _, _ => .nil
  | _ :: _, _ :: _, _ :: _, .cons h1 t1, .cons h2 t2 => .cons (h1.trans h2) (forall2_same_trans t1 t2)

theorem Same.symm {a b : NodeCtx} (h : Same a b) : Same b a := ⟨h.1.symm, h.2.1.symm, h.2.2.1.symm, h.2.2.2.symm⟩

theorem sameL_symm : ∀ {a b : List NodeCtx}, SameL a b → SameL b a
  | [], [], _ => .nil
  | _ :: _, _ :: _, .cons h t => .cons h.symm (sameL_symm t)

theorem forall2_same_set : ∀ (l : List NodeCtx) (i : Nat) (cx cx' : NodeCtx), l[i]? = some cx → Same cx' cx →
    SameL (l.set i cx') l
  | [], _, _, _, h, _ => by simp at h
  | a :: l, 0, cx, cx', h, hs => by
    simp at h; subst h
    exact .cons hs (forall2_same_refl l)
  | a :: l, i + 1, cx, cx', h, hs => by
    simp at h
    exact .cons (Same.rfl' a) (forall2_same_set l i cx cx' h hs)

/-- every context of a coherent stack has a type and a known match -/
theorem Coh_known (S : Schema) (P : Node → Prop) : ∀ (l : List NodeCtx), Coh S P l → ∀ cx ∈ l, ∃ t q, cx.ty = some t ∧ cx.mtch = some q
  | [], _, cx, h => by simp at h
  | [c], hc, cx, h => by
    simp at h; subst h
    obtain ⟨_, _, t, q, h1, h2, _⟩ := hc
    exact ⟨t, q, h1, h2⟩
  | c :: n :: r, hc, cx, h => by
    rcases List.mem_cons.mp h with rfl | h
    · obtain ⟨_, _, t, q, h1, h2, _⟩ := hc.1
      exact ⟨t, q, h1, h2⟩
    · exact Coh_known S P (n :: r) hc.2 cx h

/-! ### `Coh` at the inner end of the stack -/

theorem Coh_cons (S : Schema) (P : Node → Prop) (a : NodeCtx) (l : List NodeCtx) :
    Coh S P (a :: l) ↔ ctxOk S P a (l.head?.bind (·.ty)) ∧ Coh S P l := by
  cases l with
  | nil => simp [Coh]
  | cons n r => simp [Coh]

theorem head?_append_one (pre : List NodeCtx) (p : NodeCtx) :
    ((pre ++ [p]).head?.bind (·.ty)) = (match pre with | [] => p.ty | a :: _ => a.ty) := by
  cases pre <;> simp

/-- the innermost context of a coherent stack -/
theorem Coh_snoc_inv (S : Schema) (P : Node → Prop) : ∀ (pre : List NodeCtx) (p : NodeCtx), Coh S P (pre ++ [p]) → ctxOk S P p none
  | [], p, h => h
  | a :: pre, p, h => by
    rw [List.cons_append, Coh_cons] at h
    exact Coh_snoc_inv S P pre p h.2

/-- replace the innermost context by one of the same type -/
theorem Coh_snoc_update (S : Schema) (P : Node → Prop) (p p' : NodeCtx) (hty : p'.ty = p.ty) (hok : ctxOk S P p' none) :
    ∀ (pre : List NodeCtx), Coh S P (pre ++ [p]) → Coh S P (pre ++ [p'])
  | [], _ => hok
  | a :: pre, h => by
    rw [List.cons_append, Coh_cons] at h ⊢
    refine ⟨?_, Coh_snoc_update S P p p' hty hok pre h.2⟩
    have := h.1
    rw [head?_append_one] at this ⊢
    cases pre with
    | nil => simpa [hty] using this
    | cons b r => simpa using this

/-- open a child context below the innermost one -/
theorem Coh_snoc_push (S : Schema) (P : Node → Prop) (p p' c : NodeCtx) (hty : p'.ty = p.ty) (hok : ctxOk S P p' c.ty)
    (hc : ctxOk S P c none) : ∀ (pre : List NodeCtx), Coh S P (pre ++ [p]) → Coh S P (pre ++ [p', c])
  | [], _ => ⟨hok, hc⟩
  | a :: pre, h => by
    rw [List.cons_append, Coh_cons] at h ⊢
    refine ⟨?_, Coh_snoc_push S P p p' c hty hok hc pre h.2⟩
    have := h.1
    cases pre with
    | nil => simpa [hty] using this
    | cons b r => simpa using this

/-- the two innermost contexts -/
theorem Coh_snoc2_inv (S : Schema) (P : Node → Prop) : ∀ (pre : List NodeCtx) (p c : NodeCtx), Coh S P (pre ++ [p, c]) →
    ctxOk S P p c.ty ∧ ctxOk S P c none
  | [], p, c, h => h
  | a :: pre, p, c, h => by
    rw [List.cons_append, Coh_cons] at h
    exact Coh_snoc2_inv S P pre p c h.2

/-- close the innermost context into its parent -/
theorem Coh_snoc_pop (S : Schema) (P : Node → Prop) (p p' c : NodeCtx) (hty : p'.ty = p.ty) (hok : ctxOk S P p' none) :
    ∀ (pre : List NodeCtx), Coh S P (pre ++ [p, c]) → Coh S P (pre ++ [p'])
  | [], _ => hok
  | a :: pre, h => by
    rw [List.cons_append, Coh_cons] at h ⊢
    refine ⟨?_, Coh_snoc_pop S P p p' c hty hok pre h.2⟩
    have := h.1
    cases pre with
    | nil => simpa [hty] using this
    | cons b r => simpa using this

theorem eq_dropLast_append_getLast {α : Type} : ∀ (l : List α) (x : α), l.getLast? = some x → l = l.dropLast ++ [x]
  | [], _, h => by simp at h
  | [a], x, h => by simp at h; simp [h]
  | a :: b :: r, x, h => by
    have := eq_dropLast_append_getLast (b :: r) x (by simpa [List.getLast?_cons_cons] using h)
    rw [List.dropLast_cons_cons, List.cons_append, ← this]

/-! ### close_extra -/

/-- type and match of a context -/
def tm (c : NodeCtx) : Option TypeId × Option Nat := (c.ty, c.mtch)

theorem finishNode_ty (S : Schema) (cx : NodeCtx) (oe : Bool) (t : TypeId) (n : Node)
    (h : cx.finishNode S oe t = .ok n) : S.tyOf n = t := by
  unfold NodeCtx.finishNode at h
  split at h
  · cases h
  · split at h
    · cases h
    · cases h; exact tyOf_mkNode ..

/-- what the invariant needs from `NodeContext.finish(open_end)`: the finished node satisfies `P` -/
def FinishOk (S : Schema) (P : Node → Prop) (oe : Bool) : Prop :=
  ∀ (cx : NodeCtx) (t : TypeId) (n : Node), ctxOk S P cx none → cx.ty = some t → cx.finishNode S oe t = .ok n → P n

theorem closeExtraLoop_spec (S : Schema) (P : Node → Prop) (oe : Bool) (hfin : FinishOk S P oe) :
    ∀ (k : Nat) (nodes nodes' : List NodeCtx),
    Coh S P nodes → k < nodes.length → closeExtraLoop S oe k nodes = .ok nodes' →
    Coh S P nodes' ∧ nodes'.length = nodes.length - k ∧
      ∀ i, i < nodes.length - k → (nodes'[i]?).map tm = (nodes[i]?).map tm
  | 0, nodes, nodes', hc, _, h => by
    simp only [closeExtraLoop, Except.ok.injEq] at h
    subst h
    exact ⟨hc, by simp, fun _ _ => rfl⟩
  | k + 1, nodes, nodes', hc, hk, h => by
    unfold closeExtraLoop at h
    cases hl : nodes.getLast? with
    | none => simp [hl] at h
    | some cx =>
      have hn := eq_dropLast_append_getLast nodes cx hl
      simp only [hl] at h
      cases hty : cx.ty with
      | none => simp [hty] at h
      | some t =>
        simp only [hty] at h
        cases hf : cx.finishNode S oe t with
        | error e => simp [hf] at h
        | ok n =>
          simp only [hf] at h
          have hlen : nodes.dropLast.length = nodes.length - 1 := by simp
          cases hl2 : nodes.dropLast.getLast? with
          | none =>
            have : nodes.dropLast = [] := by simpa using hl2
            rw [this] at hlen
            simp at hlen
            omega
          | some p =>
            have hr := eq_dropLast_append_getLast nodes.dropLast p hl2
            generalize nodes.dropLast.dropLast = pre at hr
            have hnodes : nodes = pre ++ [p, cx] := by rw [hn, hr]; simp
            have happ : appendToLast nodes.dropLast n = pre ++ [{ p with content := p.content ++ [n] }] := by
              simp [appendToLast, hr]
            rw [happ] at h
            rw [hnodes] at hc
            obtain ⟨hp, hcx⟩ := Coh_snoc2_inv S P pre p cx hc
            have hp' : ctxOk S P { p with content := p.content ++ [n] } none := by
              obtain ⟨ho, hP, t', q, h1, h2, h3⟩ := hp
              refine ⟨ho, ?_, t', q, h1, h2, ?_⟩
              · intro x hx
                rcases List.mem_append.mp hx with hx | hx
                · exact hP x hx
                · simp only [List.mem_singleton] at hx
                  subst hx
                  exact hfin cx t x hcx hty hf
              · simpa [types_append, Schema.types, finishNode_ty S cx oe t n hf, hty] using h3
            have hc1 := Coh_snoc_pop S P p { p with content := p.content ++ [n] } cx rfl hp' pre hc
            have hlen1 : (pre ++ [{ p with content := p.content ++ [n] }]).length = nodes.length - 1 := by
              rw [hnodes]; simp
            obtain ⟨r1, r2, r3⟩ := closeExtraLoop_spec S P oe hfin k _ nodes' hc1 (by rw [hlen1]; omega) h
            refine ⟨r1, by rw [r2, hlen1]; omega, ?_⟩
            intro i hi
            rw [r3 i (by rw [hlen1]; omega)]
            have hpl : pre.length = nodes.length - 2 := by rw [hnodes]; simp
            rw [hnodes]
            by_cases hip : i < pre.length
            · simp [List.getElem?_append_left hip]
            · have : i = pre.length := by omega
              subst this
              simp [tm]

/-- `close_extra` on a coherent state whose `open` is inside the stack: the stack is cut to `open + 1`
    contexts, stays coherent, and no surviving context changes its type or match -/
theorem closeExtra_spec (S : Schema) (P : Node → Prop) (st st' : PState) (oe : Bool) (hfin : FinishOk S P oe) (hc : Coh S P st.nodes)
    (ho : st.open_ < st.nodes.length) (h : st.closeExtra S oe = .ok st') :
    Coh S P st'.nodes ∧ st'.nodes.length = st.open_ + 1 ∧ st'.open_ = st.open_ ∧
      (∀ i, i ≤ st.open_ → (st'.nodes[i]?).map tm = (st.nodes[i]?).map tm) := by
  unfold PState.closeExtra at h
  cases hl : closeExtraLoop S oe (st.nodes.length - 1 - st.open_) st.nodes with
  | error e => simp [hl, Except.map] at h
  | ok ns =>
    simp only [hl, Except.map, Except.ok.injEq] at h
    subst h
    obtain ⟨r1, r2, r3⟩ := closeExtraLoop_spec S P oe hfin _ _ _ hc (by omega) hl
    refine ⟨r1, by simp only; omega, rfl, ?_⟩
    intro i hi
    exact r3 i (by omega)

/-! ### find_place -/

theorem set_getElem?_self {α : Type} : ∀ (l : List α) (i : Nat) (x : α), l[i]? = some x → l.set i x = l
  | [], _, _, h => by simp at h
  | a :: l, 0, x, h => by simp at h; simp [h]
  | a :: l, i + 1, x, h => by
    simp at h
    simp [set_getElem?_self l i x h]

/-- with a known match `NodeContext.find_wrapping` asks the automaton and changes nothing -/
theorem findWrapping_known (S : Schema) (cx : NodeCtx) (t : TypeId) (q : Nat) (ty : TypeId)
    (h1 : cx.ty = some t) (h2 : cx.mtch = some q) :
    cx.findWrapping S ty = .ok (cx, PM.findWrapping S (S.dfa t) q ty) := by
  unfold NodeCtx.findWrapping
  simp [h1, h2]

/-- what `find_place` has chosen so far: the route is the wrapping answered by the context at `sync` -/
def RouteFrom (S : Schema) (ty : TypeId) (nodes : List NodeCtx) (route : Option (List TypeId)) (sync : Option Nat) : Prop :=
  ∀ r, route = some r → ∃ d cx t q, sync = some d ∧ nodes[d]? = some cx ∧ cx.ty = some t ∧ cx.mtch = some q ∧
    PM.findWrapping S (S.dfa t) q ty = some r

theorem findPlaceLoop_spec (S : Schema) (ty : TypeId) : ∀ (n : Nat) (nodes : List NodeCtx)
    (route : Option (List TypeId)) (sync : Option Nat) (nodes' : List NodeCtx) (route' : Option (List TypeId)) (sync' : Option Nat),
    (∀ cx ∈ nodes, ∃ t q, cx.ty = some t ∧ cx.mtch = some q) → RouteFrom S ty nodes route sync →
    findPlaceLoop S ty n nodes route sync = .ok (nodes', route', sync') →
    nodes' = nodes ∧ RouteFrom S ty nodes route' sync'
  | 0, nodes, route, sync, nodes', route', sync', _, hr, h => by
    simp only [findPlaceLoop, Except.ok.injEq, Prod.mk.injEq] at h
    obtain ⟨rfl, rfl, rfl⟩ := h
    exact ⟨rfl, hr⟩
  | d + 1, nodes, route, sync, nodes', route', sync', hk, hr, h => by
    unfold findPlaceLoop at h
    cases hd : nodes[d]? with
    | none => simp [hd] at h
    | some cx =>
      obtain ⟨t, q, h1, h2⟩ := hk cx (List.mem_of_getElem? hd)
      simp only [hd, findWrapping_known S cx t q ty h1 h2, set_getElem?_self nodes d cx hd] at h
      have hr2 : ∀ b : Bool, RouteFrom S ty nodes
          (if b = true then PM.findWrapping S (S.dfa t) q ty else route) (if b = true then some d else sync) := by
        intro b
        cases b
        · simpa using hr
        · intro r hrr
          exact ⟨d, cx, t, q, rfl, hd, h1, h2, by simpa using hrr⟩
      split at h
      · simp only [Except.ok.injEq, Prod.mk.injEq] at h
        obtain ⟨rfl, rfl, rfl⟩ := h
        exact ⟨rfl, hr2 _⟩
      · exact findPlaceLoop_spec S ty d nodes _ _ nodes' route' sync' hk (hr2 _) h

/-- a route whose every step is accepted where it is entered: the first wrapper at the state asked, each
    further wrapper (and finally the target) at the start state of the wrapper before it -/
def routeOk (S : Schema) (target : TypeId) : Dfa → Nat → List TypeId → Prop
  | d, q, [] => (d.matchType q target).isSome = true
  | d, q, w :: rest => (d.matchType q w).isSome = true ∧ routeOk S target (S.dfa w) 0 rest

theorem routeOk_of_chainInner (S : Schema) (target : TypeId) : ∀ (w : TypeId) (rest : List TypeId),
    chainInner S target (w :: rest) = true → routeOk S target (S.dfa w) 0 rest
  | w, [], h => by simpa [chainInner, routeOk] using h
  | w, w' :: rest, h => by
    simp only [chainInner, Bool.and_eq_true] at h
    refine ⟨?_, routeOk_of_chainInner S target w' rest h.2⟩
    cases hm : (S.dfa w).matchType 0 w' with
    | none => simp [hm] at h
    | some x => rfl

theorem routeOk_of_isWrapChain (S : Schema) (d : Dfa) (q : Nat) (target : TypeId) (chain : List TypeId)
    (h : isWrapChain S d q target chain = true) : routeOk S target d q chain := by
  cases chain with
  | nil => simpa [isWrapChain, routeOk] using h
  | cons w rest =>
    simp only [isWrapChain, Bool.and_eq_true] at h
    exact ⟨h.2.1, routeOk_of_chainInner S target w rest h.2.2⟩

/-! ### enter_inner -/

theorem wsOptionsFor_openLeft (pre : Bool) (pw : WS) (base : Opts) (_h : base.openLeft = false) :
    (wsOptionsFor pre pw base).openLeft = false := by
  unfold wsOptionsFor
  cases pw <;> simp
  split <;> simp

theorem getElem?_last_of_length {α : Type} (l : List α) (n : Nat) (x : α) (hl : l.length = n + 1) (hx : l[n]? = some x) :
    l = l.dropLast ++ [x] := by
  apply eq_dropLast_append_getLast
  rw [List.getLast?_eq_getElem?, hl]
  simpa using hx

theorem set_last {α : Type} (pre : List α) (x y : α) : (pre ++ [x]).set pre.length y = pre ++ [y] := by
  induction pre with
  | nil => rfl
  | cons a pre ih => simp [ih]

/-- `enter_inner` on a coherent state whose context at `open` accepts the new type: coherent again, the
    new innermost context is the one just opened, at its start state -/
theorem enterInner_spec (S : Schema) (P : Node → Prop) (hfin : FinishOk S P false) (wsPre : TypeId → Bool) (st st' : PState) (ty : TypeId) (attrs : Option Attrs)
    (solid : Bool) (pw : WS) (hc : Coh S P st.nodes) (top : NodeCtx) (t : TypeId) (q q' : Nat)
    (htop : st.nodes[st.open_]? = some top) (h1 : top.ty = some t) (h2 : top.mtch = some q)
    (hm : (S.dfa t).matchType q ty = some q')
    (h : st.enterInner S wsPre ty attrs solid pw = .ok st') :
    Coh S P st'.nodes ∧ ∃ new, st'.nodes[st'.open_]? = some new ∧ new.ty = some ty ∧ new.mtch = some 0 := by
  unfold PState.enterInner at h
  have ho : st.open_ < st.nodes.length := by
    rcases Nat.lt_or_ge st.open_ st.nodes.length with h | h
    · exact h
    · rw [List.getElem?_eq_none h] at htop; cases htop
  cases hce : st.closeExtra S with
  | error e => simp [hce] at h
  | ok st1 =>
    simp only [hce] at h
    obtain ⟨c1, c2, c3, c4⟩ := closeExtra_spec S P st st1 false hfin hc ho hce
    have hk := c4 st.open_ (Nat.le_refl _)
    rw [htop] at hk
    cases htop1 : st1.nodes[st1.open_]? with
    | none => simp [htop1] at h
    | some top1 =>
      rw [c3] at htop1
      rw [htop1] at hk
      simp only [Option.map_some, Option.some.injEq, tm, Prod.mk.injEq, h1, h2] at hk
      simp only [c3, htop1] at h
      have hsplit := getElem?_last_of_length st1.nodes st.open_ top1 c2 htop1
      generalize st1.nodes.dropLast = pre at hsplit
      have hpl : pre.length = st.open_ := by
        have := congrArg List.length hsplit
        simp [c2] at this; omega
      have hok1 := Coh_snoc_inv S P pre top1 (hsplit ▸ c1)
      have hap := applyPending_same S top1 ty
      obtain ⟨a1, a2, a3, a4⟩ := hap
      -- the context at `open` after apply_pending and the match step
      have hmt : (top1.applyPending S ty).mtch = some q := a2.trans hk.2
      have hty : (top1.applyPending S ty).ty = some t := a1.trans hk.1
      simp only [hmt, hty, hm] at h
      simp only [Except.ok.injEq] at h
      subst h
      obtain ⟨ho1, hP1, t1, q1, e1, e2, e3⟩ := hok1
      rw [hk.1] at e1; cases e1
      rw [hk.2] at e2; cases e2
      have hol : (top1.applyPending S ty).opts.openLeft = false := by rw [a4]; exact ho1
      simp only [PState.setTop, c3, hsplit, ← hpl, set_last]
      have hnol := wsOptionsFor_openLeft (wsPre ty) pw _ hol
      simp only [hol, Bool.false_and, Bool.false_eq_true, if_false]
      refine ⟨?_, ?_⟩
      · rw [hsplit] at c1
        rw [List.append_assoc]
        show Coh S P (pre ++ [_, _])
        refine Coh_snoc_push S P top1 _ _ (by simpa using hk.1.symm) ?_ ?_ pre c1
        · refine ⟨by simpa using hol, by simpa [a3] using hP1, t, q', rfl, rfl, ?_⟩
          simp only [NodeCtx.new, a3]
          rw [Dfa.run_append]
          simp only [List.append_nil, Option.toList] at e3
          simp [e3, Dfa.run, hm]
        · refine ⟨by simpa [NodeCtx.new] using hnol, by simp [NodeCtx.new], ty, 0, rfl, by simp [NodeCtx.new, hnol], ?_⟩
          simp [NodeCtx.new, Schema.types, Dfa.run]
      · have hget : ∀ (X Y : NodeCtx), (pre ++ [X] ++ [Y])[pre.length + 1]? = some Y := by
          intro X Y; simp
        exact ⟨_, hget _ _, by simp [NodeCtx.new], by simp [NodeCtx.new, hnol]⟩

/-- the context at `open` accepts `target` next -/
def TopAccepts (S : Schema) (st : PState) (target : TypeId) : Prop :=
  ∃ top t q, st.nodes[st.open_]? = some top ∧ top.ty = some t ∧ top.mtch = some q ∧
    ((S.dfa t).matchType q target).isSome = true

theorem enterRoute_spec (S : Schema) (P : Node → Prop) (hfin : FinishOk S P false) (wsPre : TypeId → Bool) (target : TypeId) :
    ∀ (route : List TypeId) (st st' : PState) (top : NodeCtx) (t : TypeId) (q : Nat),
      Coh S P st.nodes → st.nodes[st.open_]? = some top → top.ty = some t → top.mtch = some q →
      routeOk S target (S.dfa t) q route → enterRoute S wsPre route st = .ok st' →
      Coh S P st'.nodes ∧ TopAccepts S st' target
  | [], st, st', top, t, q, hc, htop, h1, h2, hr, h => by
    simp only [enterRoute, Except.ok.injEq] at h
    subst h
    exact ⟨hc, top, t, q, htop, h1, h2, hr⟩
  | w :: rest, st, st', top, t, q, hc, htop, h1, h2, hr, h => by
    unfold enterRoute at h
    cases he : st.enterInner S wsPre w none false .unset with
    | error e => simp [he] at h
    | ok st1 =>
      simp only [he] at h
      obtain ⟨hw, hrest⟩ := hr
      cases hm : (S.dfa t).matchType q w with
      | none => simp [hm] at hw
      | some q' =>
        obtain ⟨c1, new, n1, n2, n3⟩ := enterInner_spec S P hfin wsPre st st1 w none false .unset hc top t q q' htop h1 h2 hm he
        exact enterRoute_spec S P hfin wsPre target rest st1 st' new w 0 c1 n1 n2 n3 hrest h

/-- `find_place` keeps the stack coherent; when it answers `True` the context at `open` accepts the node -/
theorem findPlace_spec (S : Schema) (P : Node → Prop) (hfin : FinishOk S P false) (wsPre : TypeId → Bool)
    (hdet : ∀ w, (((S.dfa w).edgesOf 0).map (·.1)).Nodup)
    (st st' : PState) (ty : TypeId) (b : Bool) (hc : Coh S P st.nodes)
    (h : st.findPlace S wsPre ty = .ok (st', b)) :
    Coh S P st'.nodes ∧ (b = true → TopAccepts S st' ty) := by
  unfold PState.findPlace at h
  cases hl : findPlaceLoop S ty (st.open_ + 1) st.nodes none none with
  | error e => simp [hl] at h
  | ok res =>
    obtain ⟨nodes', route', sync'⟩ := res
    simp only [hl] at h
    obtain ⟨rfl, hr⟩ := findPlaceLoop_spec S ty _ _ _ _ _ _ _ (Coh_known S P _ hc)
      (by intro r hr; cases hr) hl
    cases route' with
    | none =>
      simp only [Except.ok.injEq, Prod.mk.injEq] at h
      obtain ⟨rfl, rfl⟩ := h
      exact ⟨hc, by intro hb; cases hb⟩
    | some route =>
      obtain ⟨d, cx, t, q, rfl, hd, h1, h2, hw⟩ := hr route rfl
      simp only at h
      cases he : enterRoute S wsPre route { st with open_ := d } with
      | error e => simp [he, Except.map] at h
      | ok st2 =>
        simp only [he, Except.map, Except.ok.injEq, Prod.mk.injEq] at h
        obtain ⟨rfl, rfl⟩ := h
        have hchain := findWrapping_sound_aux S (S.dfa t) q ty hdet route hw
        have := enterRoute_spec S P hfin wsPre ty route { st with open_ := d } st2 cx t q hc hd h1 h2
          (routeOk_of_isWrapChain S _ q ty route hchain) he
        exact ⟨this.1, fun _ => this.2⟩

/-- appending a node of an accepted type to the context at `open` (after `close_extra`) -/
theorem appendTop_spec (S : Schema) (P : Node → Prop) (hfin : FinishOk S P false) (st st1 : PState) (ty : TypeId)
    (hc : Coh S P st.nodes) (hacc : TopAccepts S st ty) (hce : st.closeExtra S = .ok st1) :
    ∃ top1 t q, st1.nodes[st1.open_]? = some top1 ∧ top1.ty = some t ∧ top1.mtch = some q ∧
      ∀ (top2 : NodeCtx), Same top2 top1 → ∀ node, S.tyOf node = ty → P node →
        Coh S P (st1.setTop { top2 with mtch := (S.dfa t).matchType q ty, content := top2.content ++ [node] }).nodes := by
  obtain ⟨top, t, q, htop, h1, h2, hm⟩ := hacc
  have ho : st.open_ < st.nodes.length := by
    rcases Nat.lt_or_ge st.open_ st.nodes.length with h | h
    · exact h
    · rw [List.getElem?_eq_none h] at htop; cases htop
  obtain ⟨c1, c2, c3, c4⟩ := closeExtra_spec S P st st1 false hfin hc ho hce
  have hk := c4 st.open_ (Nat.le_refl _)
  rw [htop] at hk
  cases htop1 : st1.nodes[st1.open_]? with
  | none =>
    rw [c3] at htop1
    rw [htop1] at hk
    cases hk
  | some top1 =>
    rw [c3] at htop1
    rw [htop1] at hk
    simp only [Option.map_some, Option.some.injEq, tm, Prod.mk.injEq, h1, h2] at hk
    refine ⟨top1, t, q, rfl, hk.1, hk.2, ?_⟩
    intro top2 hs node hnty hPn
    obtain ⟨s1, s2, s3, s4⟩ := hs
    have hsplit := getElem?_last_of_length st1.nodes st.open_ top1 c2 htop1
    generalize st1.nodes.dropLast = pre at hsplit
    have hpl : pre.length = st.open_ := by
      have := congrArg List.length hsplit
      simp [c2] at this; omega
    simp only [PState.setTop, c3, hsplit, ← hpl, set_last]
    rw [hsplit] at c1
    obtain ⟨ho1, hP1, t1, q1, e1, e2, e3⟩ := Coh_snoc_inv S P pre top1 c1
    rw [hk.1] at e1; cases e1
    rw [hk.2] at e2; cases e2
    cases hm' : (S.dfa t).matchType q ty with
    | none => simp [hm'] at hm
    | some q' =>
      refine Coh_snoc_update S P top1 _ (by simpa using s1) ?_ pre c1
      refine ⟨by simpa using (s4 ▸ ho1), ?_, t, q', by simpa using s1.trans hk.1, rfl, ?_⟩
      · intro x hx
        rcases List.mem_append.mp hx with hx | hx
        · exact hP1 x (s3 ▸ hx)
        · simp only [List.mem_singleton] at hx
          subst hx
          exact hPn
      simp only [s3, types_append, Option.toList, List.append_nil] at e3 ⊢
      rw [Dfa.run_append, e3]
      simp [Schema.types, hnty, Dfa.run, hm']

theorem isNone_top_of_coh (S : Schema) (P : Node → Prop) (st : PState) (hc : Coh S P st.nodes) (cx : NodeCtx)
    (h : st.nodes[st.open_]? = some cx) : cx.ty.isNone = false := by
  obtain ⟨t, q, h1, _⟩ := Coh_known S P _ hc cx (List.mem_of_getElem? h)
  simp [h1]

theorem insertNode_spec (S : Schema) (P : Node → Prop) (hfin : FinishOk S P false) (wsPre : TypeId → Bool)
    (hdet : ∀ w, (((S.dfa w).edgesOf 0).map (·.1)).Nodup)
    (st st' : PState) (node : Node) (b : Bool) (hc : Coh S P st.nodes)
    (hPn : ∀ m, P (node.withMarks m))
    (h : st.insertNode S wsPre node = .ok (st', b)) : Coh S P st'.nodes := by
  unfold PState.insertNode at h
  -- the `needs_block` prelude never fires on a coherent stack (every context has a type), unless `open`
  -- is outside the stack, in which case what follows fails
  have hpre : ∀ stp, (if ((S.nodeType (S.tyOf node)).isInline && st.needsBlock &&
        ((st.nodes[st.open_]?.map (·.ty)).getD none).isNone) = true then
        (match textblockFromContext S with
          | some b => st.enterInner S wsPre b none false .unset
          | none => .ok st) else .ok st) = .ok stp → Coh S P stp.nodes := by
    intro stp hp
    split at hp
    · rename_i hcond
      cases hget : st.nodes[st.open_]? with
      | some cx =>
        simp [hget, isNone_top_of_coh S P st hc cx hget] at hcond
      | none =>
        cases htb : textblockFromContext S with
        | none => simp only [htb, Except.ok.injEq] at hp; subst hp; exact hc
        | some tb =>
          simp only [htb] at hp
          unfold PState.enterInner at hp
          cases hce : st.closeExtra S with
          | error e => simp [hce] at hp
          | ok st1 =>
            have hge : st.nodes.length ≤ st.open_ := by
              rcases Nat.lt_or_ge st.open_ st.nodes.length with hh | hh
              · rw [List.getElem?_eq_getElem hh] at hget; cases hget
              · exact hh
            have : st1 = st := by
              unfold PState.closeExtra at hce
              have hz : st.nodes.length - 1 - st.open_ = 0 := by omega
              simp only [hz, closeExtraLoop, Except.map, Except.ok.injEq] at hce
              exact hce.symm
            subst this
            simp [hce, hget] at hp
    · simp only [Except.ok.injEq] at hp; subst hp; exact hc
  dsimp only at h
  split at h
  · cases h
  · rename_i stp hp
    have hcp := hpre stp hp
    cases hf : stp.findPlace S wsPre (S.tyOf node) with
    | error e => simp [hf] at h
    | ok res =>
      obtain ⟨st2, b2⟩ := res
      obtain ⟨c2, hacc⟩ := findPlace_spec S P hfin wsPre hdet stp st2 _ b2 hcp hf
      cases b2 with
      | false =>
        simp only [hf, Except.ok.injEq, Prod.mk.injEq] at h
        obtain ⟨rfl, _⟩ := h
        exact c2
      | true =>
        simp only [hf] at h
        cases hce : st2.closeExtra S with
        | error e => simp [hce] at h
        | ok st3 =>
          simp only [hce] at h
          obtain ⟨top1, t, q, ht1, hty, hmt, hgo⟩ := appendTop_spec S P hfin st2 st3 _ c2 (hacc rfl) hce
          have hs := applyPending_same S top1 (S.tyOf node)
          simp only [ht1, hs.1.trans hty, hs.2.1.trans hmt, Except.ok.injEq, Prod.mk.injEq] at h
          obtain ⟨rfl, _⟩ := h
          have := hgo _ hs (node.withMarks (List.foldl
            (fun acc m => if (S.nodeType t).allowsMarkType m.ty = true then Mark.addToSet S m acc else acc)
            (NodeCtx.applyPending S top1 (S.tyOf node)).active node.marks)) (tyOf_withMarks ..) (hPn _)
          rw [hs.1.trans hty] at this
          exact this

theorem enter_spec (S : Schema) (P : Node → Prop) (hfin : FinishOk S P false) (wsPre : TypeId → Bool)
    (hdet : ∀ w, (((S.dfa w).edgesOf 0).map (·.1)).Nodup)
    (st st' : PState) (ty : TypeId) (attrs : Option Attrs) (pw : WS) (b : Bool) (hc : Coh S P st.nodes)
    (h : st.enter S wsPre ty attrs pw = .ok (st', b)) : Coh S P st'.nodes := by
  unfold PState.enter at h
  split at h
  · cases h
  · cases hf : st.findPlace S wsPre ty with
    | error e => simp [hf] at h
    | ok res =>
      obtain ⟨st2, b2⟩ := res
      obtain ⟨c2, hacc⟩ := findPlace_spec S P hfin wsPre hdet st st2 _ b2 hc hf
      cases b2 with
      | false =>
        simp only [hf, Except.ok.injEq, Prod.mk.injEq] at h
        obtain ⟨rfl, _⟩ := h
        exact c2
      | true =>
        simp only [hf] at h
        obtain ⟨top, t, q, htop, h1, h2, hm⟩ := hacc rfl
        cases hm' : (S.dfa t).matchType q ty with
        | none => simp [hm'] at hm
        | some q' =>
          cases he : st2.enterInner S wsPre ty attrs true pw with
          | error e => simp [he, Except.map] at h
          | ok st3 =>
            simp only [he, Except.map, Except.ok.injEq, Prod.mk.injEq] at h
            obtain ⟨rfl, _⟩ := h
            exact (enterInner_spec S P hfin wsPre st2 st3 ty attrs true pw c2 top t q q' htop h1 h2 hm' he).1

theorem addPendingMark_spec (S : Schema) (P : Node → Prop) (st st' : PState) (m : TMark) (hc : Coh S P st.nodes)
    (h : st.addPendingMark S m = .ok st') : Coh S P st'.nodes := by
  unfold PState.addPendingMark at h
  cases htop : st.nodes[st.open_]? with
  | none => simp [htop] at h
  | some top =>
    simp only [htop, Except.ok.injEq] at h
    subst h
    refine Coh_congr S P (sameL_symm (forall2_same_set st.nodes st.open_ top _ htop ?_)) hc
    cases findSameMark m.2 top.pending <;> exact ⟨rfl, rfl, rfl, rfl⟩

theorem removePendingLoop_same (S : Schema) (m : TMark) (upto : Option Nat) : ∀ (n : Nat) (nodes nodes' : List NodeCtx),
    removePendingLoop S m upto n nodes = .ok nodes' → SameL nodes' nodes
  | 0, nodes, nodes', h => by
    simp only [removePendingLoop, Except.ok.injEq] at h
    subst h
    exact forall2_same_refl _
  | d + 1, nodes, nodes', h => by
    unfold removePendingLoop at h
    cases hd : nodes[d]? with
    | none => simp [hd] at h
    | some level =>
      simp only [hd] at h
      have hset := forall2_same_set nodes d level _ hd (removePending_same S level m)
      split at h
      · simp only [Except.ok.injEq] at h
        subst h
        exact hset
      · exact forall2_same_trans (removePendingLoop_same S m upto d _ nodes' h) hset

theorem removePendingMark_spec (S : Schema) (P : Node → Prop) (st st' : PState) (m : TMark) (upto : Option Nat) (hc : Coh S P st.nodes)
    (h : st.removePendingMark S m upto = .ok st') : Coh S P st'.nodes := by
  unfold PState.removePendingMark at h
  cases hl : removePendingLoop S m upto (st.open_ + 1) st.nodes with
  | error e => simp [hl, Except.map] at h
  | ok ns =>
    simp only [hl, Except.map, Except.ok.injEq] at h
    subst h
    exact Coh_congr S P (sameL_symm (removePendingLoop_same S m upto _ _ _ hl)) hc

/-- what an event must bring for the invariant with `P`: inserted nodes satisfy `P` (whatever marks they are
    given), an explicit `close_extra(open_end)` finishes contexts into nodes satisfying `P` -/
def EventOk (S : Schema) (P : Node → Prop) : Event → Prop
  | .insertNode n => ∀ m, P (n.withMarks m)
  | .closeExtra oe => FinishOk S P oe
  | _ => True

/-- every event keeps the stack coherent -/
theorem step_spec (S : Schema) (P : Node → Prop) (hfin : FinishOk S P false) (wsPre : TypeId → Bool)
    (hdet : ∀ w, (((S.dfa w).edgesOf 0).map (·.1)).Nodup)
    (st st' : PState) (e : Event) (r : Option Bool) (hc : Coh S P st.nodes) (hev : EventOk S P e)
    (h : st.step S wsPre e = .ok (st', r)) : Coh S P st'.nodes := by
  cases e with
  | insertNode n =>
    simp only [PState.step] at h
    cases hi : st.insertNode S wsPre n with
    | error e => simp [hi, Except.map] at h
    | ok res =>
      simp only [hi, Except.map, Except.ok.injEq, Prod.mk.injEq] at h
      obtain ⟨rfl, _⟩ := h
      exact insertNode_spec S P hfin wsPre hdet st res.1 n res.2 hc hev hi
  | enter ty attrs pw =>
    simp only [PState.step] at h
    cases hi : st.enter S wsPre ty attrs pw with
    | error e => simp [hi, Except.map] at h
    | ok res =>
      simp only [hi, Except.map, Except.ok.injEq, Prod.mk.injEq] at h
      obtain ⟨rfl, _⟩ := h
      exact enter_spec S P hfin wsPre hdet st res.1 ty attrs pw res.2 hc hi
  | findPlace n =>
    simp only [PState.step] at h
    cases hi : st.findPlace S wsPre (S.tyOf n) with
    | error e => simp [hi, Except.map] at h
    | ok res =>
      simp only [hi, Except.map, Except.ok.injEq, Prod.mk.injEq] at h
      obtain ⟨rfl, _⟩ := h
      exact (findPlace_spec S P hfin wsPre hdet st res.1 _ res.2 hc hi).1
  | addPending m =>
    simp only [PState.step] at h
    cases hi : st.addPendingMark S m with
    | error e => simp [hi, Except.map] at h
    | ok res =>
      simp only [hi, Except.map, Except.ok.injEq, Prod.mk.injEq] at h
      obtain ⟨rfl, _⟩ := h
      exact addPendingMark_spec S P st res m hc hi
  | removePending m upto =>
    simp only [PState.step] at h
    cases hi : st.removePendingMark S m upto with
    | error e => simp [hi, Except.map] at h
    | ok res =>
      simp only [hi, Except.map, Except.ok.injEq, Prod.mk.injEq] at h
      obtain ⟨rfl, _⟩ := h
      exact removePendingMark_spec S P st res m upto hc hi
  | sync to =>
    simp only [PState.step, PState.sync, Except.ok.injEq, Prod.mk.injEq] at h
    obtain ⟨rfl, _⟩ := h
    cases to with
    | none => exact hc
    | some k =>
      dsimp only
      split <;> exact hc
  | setOpen v =>
    simp only [PState.step, Except.ok.injEq, Prod.mk.injEq] at h
    obtain ⟨rfl, _⟩ := h
    exact hc
  | setNeedsBlock b =>
    simp only [PState.step, Except.ok.injEq, Prod.mk.injEq] at h
    obtain ⟨rfl, _⟩ := h
    exact hc
  | closeExtra oe =>
    simp only [PState.step] at h
    cases hi : st.closeExtra S oe with
    | error e => simp [hi, Except.map] at h
    | ok res =>
      simp only [hi, Except.map, Except.ok.injEq, Prod.mk.injEq] at h
      obtain ⟨rfl, _⟩ := h
      rcases Nat.lt_or_ge st.open_ st.nodes.length with ho | ho
      · exact (closeExtra_spec S P st res oe hev hc ho hi).1
      · unfold PState.closeExtra at hi
        have hz : st.nodes.length - 1 - st.open_ = 0 := by omega
        simp only [hz, closeExtraLoop, Except.map, Except.ok.injEq] at hi
        subst hi
        exact hc

theorem run_spec (S : Schema) (P : Node → Prop) (hfin : FinishOk S P false) (wsPre : TypeId → Bool)
    (hdet : ∀ w, (((S.dfa w).edgesOf 0).map (·.1)).Nodup) :
    ∀ (events : List Event) (st st' : PState), Coh S P st.nodes → (∀ e ∈ events, EventOk S P e) →
      PState.run S wsPre st events = .ok st' → Coh S P st'.nodes
  | [], st, st', hc, _, h => by
    simp only [PState.run, Except.ok.injEq] at h
    subst h
    exact hc
  | e :: es, st, st', hc, hev, h => by
    unfold PState.run at h
    cases hs : st.step S wsPre e with
    | error err => simp [hs] at h
    | ok res =>
      simp only [hs] at h
      exact run_spec S P hfin wsPre hdet es res.1 st'
        (step_spec S P hfin wsPre hdet st res.1 e res.2 hc (hev e (by simp)) hs)
        (fun e' he' => hev e' (by simp [he'])) h

theorem init_coh (S : Schema) (P : Node → Prop) (pw : WS) (topOpen : Bool) : Coh S P (PState.init S false pw topOpen).nodes := by
  show ctxOk S P _ none
  refine ⟨by simp [NodeCtx.new], by simp [NodeCtx.new], S.top, 0, by simp [NodeCtx.new], by simp [NodeCtx.new], ?_⟩
  simp [NodeCtx.new, Schema.types, Dfa.run]

/-- `Coh`, context by context: the child of the context at index `i` is the context at `i + 1` -/
theorem Coh_index (S : Schema) (P : Node → Prop) : ∀ (l : List NodeCtx), Coh S P l →
    ∀ i cx, l[i]? = some cx → ctxOk S P cx (l[i + 1]?.bind (·.ty))
  | [], _, i, cx, h => by simp at h
  | a :: l, hc, 0, cx, h => by
    rw [Coh_cons] at hc
    simp only [List.getElem?_cons_zero, Option.some.injEq] at h
    subst h
    simpa [List.head?_eq_getElem?] using hc.1
  | a :: l, hc, i + 1, cx, h => by
    rw [Coh_cons] at hc
    simp only [List.getElem?_cons_succ] at h ⊢
    exact Coh_index S P l hc.2 i cx h

/-! ### the determinism hypothesis, checkable -/

/-- no state of a content automaton has two edges with the same label (what `dfa()` in content.py builds) -/
def Det (S : Schema) : Prop := ∀ t q, (((S.dfa t).edgesOf q).map (·.1)).Nodup

theorem det_of_detB (S : Schema) (h : detB S = true) : Det S := by
  intro t q
  by_cases hq : q < (S.dfa t).size
  · by_cases ht : t < S.nodes.size
    · simp only [detB, List.all_eq_true, List.mem_range, decide_eq_true_eq] at h
      exact h t ht q hq
    · have : (S.dfa t).size = 0 := by
        simp only [Schema.dfa, Schema.nodeType]
        rw [getElem!_neg S.nodes t ht]
        rfl
      omega
  · have : (S.dfa t).edgesOf q = [] := by
      simp only [Dfa.edgesOf]
      rw [Array.getElem?_eq_none (by omega)]
    simp [this]

end PM.FromDom
