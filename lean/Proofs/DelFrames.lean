/-
  Proofs/DelFrames.lean — the frames (Proofs/DelSpine.lean) of a resolved position (C11 `delete_applies`).
-/
import Proofs.DelAssemble
import Proofs.SplitSuccess
namespace PM

/-- the frame of level `i` of a resolved position: the children of `node(i)` in front of and behind the child the
    path goes into, and that child's markup -/
def frameAt (r : RPos) (i : Nat) : Frame :=
  ⟨(r.node i).kids.take (r.index i), (r.node (i + 1)).ty!, (r.node (i + 1)).attrs, (r.node (i + 1)).marks,
    (r.node i).kids.drop (r.index i + 1)⟩

/-- the frames of levels `j … j + n - 1` -/
def framesFrom (r : RPos) : Nat → Nat → List Frame
  | _, 0 => []
  | j, n + 1 => frameAt r j :: framesFrom r (j + 1) n

theorem framesFrom_length (r : RPos) : ∀ (j n : Nat), (framesFrom r j n).length = n
  | _, 0 => rfl
  | j, n + 1 => by simp [framesFrom, framesFrom_length r (j + 1) n]

theorem framesFrom_add (r : RPos) : ∀ (j n m : Nat),
    framesFrom r j (n + m) = framesFrom r j n ++ framesFrom r (j + n) m
  | j, 0, m => by simp [framesFrom]
  | j, n + 1, m => by
    rw [show n + 1 + m = (n + m) + 1 by omega]
    simp only [framesFrom, List.cons_append, framesFrom_add r (j + 1) n m]
    rw [show j + 1 + n = j + (n + 1) by omega]

theorem framesFrom_get (r : RPos) : ∀ (j n i : Nat), i < n → (framesFrom r j n)[i]? = some (frameAt r (j + i))
  | j, n + 1, 0, _ => by simp [framesFrom]
  | j, n + 1, i + 1, h => by
    simp only [framesFrom, List.getElem?_cons_succ]
    rw [framesFrom_get r (j + 1) n i (by omega)]
    congr 2; omega

theorem frameAt_node {doc : Node} {pos : Nat} {r : RPos} (h : doc.resolve pos = some r) (i : Nat) (hi : i < r.depth) :
    (frameAt r i).node (r.node (i + 1)).kids = r.node (i + 1) := by
  obtain ⟨t, a, m, k, e⟩ := resolve_node_elem h i hi
  simp [frameAt, Frame.node, e, Node.ty!, Node.attrs, Node.marks, Node.kids]

/-- the children of `node(j)` are the deeper levels plugged into the frames -/
theorem plug_framesFrom {doc : Node} {pos : Nat} {r : RPos} (h : doc.resolve pos = some r) :
    ∀ (n j : Nat), j + n = r.depth → (r.node j).kids = plug (framesFrom r j n) (r.node r.depth).kids
  | 0, j, hj => by
    have : j = r.depth := by omega
    subst this; rfl
  | n + 1, j, hj => by
    obtain ⟨tyC, aC, mC, kC, e, hs, _, _, _⟩ := Resolved.level_deep h j (by omega)
    have ih := plug_framesFrom h n (j + 1) (by omega)
    have hn := frameAt_node h j (by omega)
    simp only [framesFrom, plug]
    rw [← ih, hn]
    conv => lhs; rw [hs]
    rw [e]
    rfl

theorem pbase_framesFrom {doc : Node} {pos : Nat} {r : RPos} (h : doc.resolve pos = some r) :
    ∀ (n j : Nat), j + n ≤ r.depth → r.start j + pbase (framesFrom r j n) = r.start (j + n)
  | 0, j, _ => by simp [framesFrom, pbase]
  | n + 1, j, hj => by
    obtain ⟨_, _, _, _, _, _, hst, _, _⟩ := Resolved.level_deep h j (by omega)
    have ih := pbase_framesFrom h n (j + 1) (by omega)
    simp only [framesFrom, pbase, frameAt]
    rw [show j + (n + 1) = j + 1 + n by omega, ← ih, hst]
    omega

/-- the document along a resolved position -/
theorem doc_plug {doc : Node} {pos : Nat} {r : RPos} (h : doc.resolve pos = some r) :
    doc.kids = plug (framesFrom r 0 r.depth) r.parent.kids ∧
      pos = pbase (framesFrom r 0 r.depth) + (pos - r.start r.depth) ∧ r.start r.depth ≤ pos ∧
      pos - r.start r.depth ≤ fsize r.parent.kids := by
  have R := resolve_resolved h
  have h1 := plug_framesFrom h r.depth 0 (by omega)
  rw [R.node_zero] at h1
  have h2 := pbase_framesFrom h r.depth 0 (by omega)
  have h0 : r.start 0 = 0 := by simp [RPos.start]
  rw [h0, Nat.zero_add, Nat.zero_add] at h2
  have h3 := R.pos_in r.depth (Nat.le_refl _)
  rw [Resolved.end_eq] at h3
  refine ⟨h1, ?_, h3.1, ?_⟩
  · omega
  · show pos - r.start r.depth ≤ fsize (r.node r.depth).kids
    omega

/-- the type of the node whose children the innermost list is -/
theorem botTy_framesFrom {doc : Node} {pos : Nat} {r : RPos} (S : Schema) (h : doc.resolve pos = some r) :
    ∀ (n j : Nat), j + n ≤ r.depth → botTy (S.tyOf (r.node j)) (framesFrom r j n) = S.tyOf (r.node (j + n))
  | 0, j, _ => rfl
  | n + 1, j, hj => by
    obtain ⟨t, a, m, k, e⟩ := resolve_node_elem h j (by omega)
    have ih := botTy_framesFrom S h n (j + 1) (by omega)
    simp only [framesFrom, botTy, frameAt]
    rw [show j + (n + 1) = j + 1 + n by omega, ← ih, e]
    rfl

end PM
