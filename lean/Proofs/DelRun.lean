/-
  Proofs/DelRun.lean — what `Fitter.close` computes on the state `Fitter.__init__` builds, explicitly (C11
  `delete_applies`): the frontier nodes above the close level are closed with their fillers (`closeMany_eq`), the
  ancestors of the target are re-opened with the fillers in front (`reopen_eq`); `placed` in terms of the frames of
  `from` and of the target (Proofs/DelSpine.lean `leftS`, `rightS`).
-/
import Proofs.DelFrames
import Proofs.FitDelete
namespace PM
open PM.FromDom (notText)

/-- nested copies of the ancestors around a fragment -/
def chainF : List Frame → List Node → List Node
  | [], X => X
  | fr :: frs, X => [fr.node (chainF frs X)]

theorem chainF_append : ∀ (a b : List Frame) (X : List Node), chainF (a ++ b) X = chainF a (chainF b X)
  | [], _, _ => rfl
  | fr :: a, b, X => by simp [chainF, chainF_append a b X]

/-- `add_to_fragment` below a chain of single nodes works inside the innermost fragment -/
theorem addToFragment_chainF : ∀ (frs : List Frame) (Y : List Node) (d : Nat) (c : List Node),
    addToFragment (chainF frs Y) (frs.length + d) c = (addToFragment Y d c >>= fun r => pure (chainF frs r))
  | [], Y, d, c => by
    simp only [chainF, List.length_nil, Nat.zero_add]
    cases addToFragment Y d c <;> rfl
  | fr :: frs, Y, d, c => by
    have ih := addToFragment_chainF frs Y d c
    rw [show (fr :: frs).length + d = (frs.length + d) + 1 by simp; omega]
    simp only [chainF, addToFragment, Frame.node, List.getLast?_singleton, ih]
    cases addToFragment Y d c <;> rfl

theorem textFree_notText_all {l : List Node} (h : textFreeKids l = true) : ∀ n ∈ l, notText n :=
  fun n hn => textFree_notText n (textFreeKids_mem l h n hn)

theorem leftS_snoc : ∀ (inner : List Frame) (fills : List (List Node)) (fr : Frame) (fill X : List Node),
    inner.length = fills.length →
    leftS (inner ++ [fr]) (fills ++ [fill]) X = leftS inner fills [fr.node (X ++ fill)]
  | [], [], fr, fill, X, _ => by simp [leftS]
  | [], _ :: _, _, _, _, h => by simp at h
  | _ :: _, [], _, _, _, h => by simp at h
  | fr0 :: inner, fill0 :: fills, fr, fill, X, h => by
    simp only [List.length_cons, Nat.add_right_cancel_iff] at h
    simp only [List.cons_append, leftS, leftS_snoc inner fills fr fill X h]

theorem snoc_of_length_succ {α : Type} {l : List α} {n : Nat} (h : l.length = n + 1) :
    ∃ l' a, l = l' ++ [a] ∧ l'.length = n := by
  have hne : l ≠ [] := by intro h0; subst h0; simp at h
  exact ⟨l.dropLast, l.getLast hne, (List.dropLast_concat_getLast hne).symm, by simp [h]⟩

/-- the frontier entry can be closed with this filler -/
def FillRel (S : Schema) (it : FItem) (fill : List Node) : Prop :=
  ∃ q, it.st = some q ∧ fillOpt S (S.dfa it.ty) q [] true = .ok (some fill)

/-- **`close_frontier_node` repeated**: the entries `items` of the frontier are closed innermost first, each filler
    going behind the children of its level -/
theorem closeMany_eq (S : Schema) : ∀ (n : Nat) (items : List FItem) (fills : List (List Node)) (inner : List Frame)
    (frTop : List FItem) (outer : List Frame) (X : List Node), items.length = n → fills.length = n →
    inner.length = n → frTop.length = outer.length + 1 → (∀ p ∈ items.zip fills, FillRel S p.1 p.2) →
    closeMany S n (frTop ++ items) (chainF outer (chainF inner X))
      = .ok (frTop, chainF outer (leftS inner fills X))
  | 0, items, fills, inner, frTop, outer, X, h1, h2, h3, _, _ => by
    rw [List.length_eq_zero_iff] at h1 h2 h3
    subst h1; subst h2; subst h3
    simp [closeMany, chainF, leftS, pure, Except.pure]
  | n + 1, items, fills, inner, frTop, outer, X, h1, h2, h3, h4, hrel => by
    obtain ⟨items', it, rfl, hi⟩ := snoc_of_length_succ h1
    obtain ⟨fills', fill, rfl, hf⟩ := snoc_of_length_succ h2
    obtain ⟨inner', frL, rfl, hn⟩ := snoc_of_length_succ h3
    have hz : (items' ++ [it]).zip (fills' ++ [fill]) = items'.zip fills' ++ [(it, fill)] := by
      rw [List.zip_append (by omega)]; rfl
    obtain ⟨q, hq, hfill⟩ := hrel (it, fill) (by rw [hz]; simp)
    have htf := fillOpt_textFree S _ _ _ _ _ hfill
    have hstep : closeFrontierNode S (frTop ++ (items' ++ [it])) (chainF outer (chainF (inner' ++ [frL]) X))
        = .ok (frTop ++ items', chainF outer (chainF inner' [frL.node (X ++ fill)])) := by
      unfold closeFrontierNode
      have hl : (frTop ++ (items' ++ [it])).getLast? = some it := by
        rw [← List.append_assoc, List.getLast?_concat]
      have hd : (frTop ++ (items' ++ [it])).dropLast = frTop ++ items' := by
        rw [← List.append_assoc, List.dropLast_concat]
      simp only [hl, hd]
      have hgs : getSt it = .ok q := by unfold getSt; rw [hq]; rfl
      rw [FM.bind_eq hgs, FM.bind_eq hfill]
      simp only
      split
      · rename_i he
        have : fill = [] := by simpa using he
        subst this
        simp [pure, Except.pure, chainF_append, chainF]
      · have hlen : (frTop ++ items').length = (outer ++ inner' ++ [frL]).length + 0 := by
          simp only [List.length_append, List.length_cons, List.length_nil]; omega
        have e : chainF outer (chainF (inner' ++ [frL]) X) = chainF (outer ++ inner' ++ [frL]) X := by
          rw [chainF_append, chainF_append, chainF_append]
        rw [hlen, e, addToFragment_chainF]
        simp only [addToFragment, bind, Except.bind, pure, Except.pure]
        rw [PM.FromDom.fappend_notText X fill (textFree_notText_all htf), chainF_append, chainF_append]
        rfl
    unfold closeMany
    rw [FM.bind_eq hstep]
    simp only
    rw [closeMany_eq S n items' fills' inner' frTop outer _ hi hf hn h4
      (fun p hp => hrel p (by rw [hz]; simp [hp]))]
    rw [leftS_snoc inner' fills' frL fill X (by omega)]

/-! ### re-opening the ancestors of the target -/

/-- a context around the fragment at depth `dep` of the last-child chain: `add_to_fragment` works inside it -/
def RCtx (ctx : List Node → List Node) (dep : Nat) : Prop :=
  ∀ Y d c, addToFragment (ctx Y) (dep + d) c = (addToFragment Y d c >>= fun r => pure (ctx r))

theorem RCtx.ofChain (frs : List Frame) : RCtx (chainF frs) frs.length := addToFragment_chainF frs

theorem RCtx.comp {ctx : List Node → List Node} {dep : Nat} (h : RCtx ctx dep) (frs : List Frame) :
    RCtx (fun Z => ctx (chainF frs Z)) (dep + frs.length) := by
  intro Y d c
  rw [Nat.add_assoc, h, addToFragment_chainF]
  cases addToFragment Y d c <;> rfl

theorem RCtx.snoc {ctx : List Node → List Node} {dep : Nat} (h : RCtx ctx dep) (Y0 : List Node) (t : TypeId)
    (a : Attrs) (m : Marks) : RCtx (fun Z => ctx (Y0 ++ [.elem t a m Z])) (dep + 1) := by
  intro Y d c
  rw [Nat.add_assoc, h]
  rw [show 1 + d = d + 1 by omega]
  simp only [addToFragment, List.getLast?_concat, List.dropLast_concat]
  cases addToFragment Y d c <;> rfl

/-- one iteration of the loop `for d in range(close.depth + 1, to.depth + 1)` of `close`: the frame put on the open end
    of `placed` (type of `to.node(d)`, the attributes `type.create` computes from the node's, no marks) and the filler -/
def ReopenRel (S : Schema) (mv : RPos) (d : Nat) (x : Frame × List Node) : Prop :=
  ∃ t a m ks a' addopt, mv.node d = .elem t a m ks ∧ (S.nodeType t).isText = false ∧ (S.nodeType t).isLeaf = false ∧
    computeAttrs (S.nodeType t).attrs a = .ok a' ∧
    fillOpt S (S.dfa t) 0 (S.types (ks.drop (mv.index d))) true = .ok addopt ∧
    x.1.ty = t ∧ x.1.attrs = a' ∧ x.1.marks = [] ∧ x.2 = addopt.getD []

def ReopenAll (S : Schema) (mv : RPos) : Nat → List (Frame × List Node) → Prop
  | _, [] => True
  | d, x :: xs => ReopenRel S mv d x ∧ ReopenAll S mv (d + 1) xs

theorem reopen_eq (S : Schema) (mv : RPos) : ∀ (ro : List (Frame × List Node)) (ctx : List Node → List Node)
    (dep : Nat) (Y : List Node) (fr : List FItem) (d : Nat), RCtx ctx dep → fr.length = dep + 1 → LastOKF fr →
    ReopenAll S mv d ro →
    ∃ fr', reopen S mv ro.length d fr (ctx Y) = .ok (fr', ctx (Y ++ rightS (ro.map (·.1)) (ro.map (·.2))))
  | [], ctx, dep, Y, fr, d, _, _, _, _ => ⟨fr, by simp [reopen, rightS, pure, Except.pure]⟩
  | x :: ro, ctx, dep, Y, fr, d, hctx, hlen, hlast, hall => by
    obtain ⟨⟨t, a, m, ks, a', addopt, hn, h1, h2, h3, hfill, e1, e2, e3, e4⟩, hrest⟩ := hall
    obtain ⟨it, q, hitl, hq⟩ := hlast
    have hdep : dep < fr.length := by omega
    have hit : fr[fr.length - 1] = it := by
      rw [List.getLast?_eq_getElem?, List.getElem?_eq_getElem (by omega)] at hitl
      simpa using hitl
    have hnode : S.mkNodeO t a' [] x.2 = .elem t a' [] x.2 := by
      unfold Schema.mkNodeO; simp [h2]
    have hxn : x.1.node (x.2 ++ rightS (ro.map (·.1)) (ro.map (·.2)))
        = .elem t a' [] (x.2 ++ rightS (ro.map (·.1)) (ro.map (·.2))) := by
      simp [Frame.node, e1, e2, e3]
    have hopen : openFrontierNode S fr (ctx Y) t (some a) x.2
        = .ok (fr.set (fr.length - 1) ⟨it.ty, (S.dfa it.ty).matchType q t⟩ ++ [⟨t, some 0⟩],
            ctx (Y ++ [.elem t a' [] x.2])) := by
      unfold openFrontierNode
      simp only
      rw [FM.bind_eq (getItem_lt (by omega)), hit]
      have hgs : getSt it = .ok q := by unfold getSt; rw [hq]; rfl
      rw [FM.bind_eq hgs, FM.bind_eq (createNodeO_ok S t a x.2 h1 a' h3), hnode]
      have : fr.length - 1 = dep + 0 := by omega
      rw [this, hctx]
      simp only [addToFragment, bind, Except.bind, pure, Except.pure]
      rw [PM.FromDom.fappend_notText Y _ (by intro n hn; simp at hn; subst hn; trivial)]
    have hctx' := hctx.snoc Y t a' []
    obtain ⟨fr', hfr'⟩ := reopen_eq S mv ro (fun Z => ctx (Y ++ [.elem t a' [] Z])) (dep + 1) x.2
      (fr.set (fr.length - 1) ⟨it.ty, (S.dfa it.ty).matchType q t⟩ ++ [⟨t, some 0⟩]) (d + 1) hctx'
      (by simp; omega) ⟨⟨t, some 0⟩, 0, by simp, rfl⟩ hrest
    refine ⟨fr', ?_⟩
    simp only [List.length_cons, reopen, hn, Schema.tyOf, Node.tyOr, Node.kids, Node.attrs]
    rw [FM.bind_eq hfill, ← e4, FM.bind_eq hopen]
    simp only
    rw [hfr']
    simp only [List.map_cons, rightS, hxn]

/-! ### what `find_close_level` tested -/

theorem contentAfterFits_spec (S : Schema) (rt : RPos) (d : Nat) (ty : TypeId) (st : Option Nat) (o : Bool)
    (fit : List Node) (h : contentAfterFits S rt d ty st o = .ok (some fit)) :
    d ≤ rt.depth ∧
    ((if o then rt.indexAfter d else rt.index d) = (rt.node d).kids.length →
      S.compatibleContent ty (S.tyOf (rt.node d)) = true) ∧
    ∃ q, st = some q ∧
      fillOpt S (S.dfa ty) q (S.types ((rt.node d).kids.drop (if o then rt.indexAfter d else rt.index d))) true
        = .ok (some fit) ∧
      invalidMarks S ty ((rt.node d).kids.drop (if o then rt.indexAfter d else rt.index d)) = false := by
  unfold contentAfterFits at h
  split at h
  · simp [throw, throwThe, MonadExceptOf.throw] at h
  · rename_i hd
    refine ⟨by omega, ?_⟩
    generalize (if o then rt.indexAfter d else rt.index d) = idx at h ⊢
    unfold contentAfterFitsAt at h
    by_cases hc : (idx == (rt.node d).kids.length && !S.compatibleContent ty (S.tyOf (rt.node d))) = true
    · rw [if_pos hc] at h
      simp [pure, Except.pure] at h
    · rw [if_neg hc] at h
      obtain ⟨q, hq, h⟩ := FM.bind_ok h
      obtain ⟨f, hf, h⟩ := FM.bind_ok h
      have hq' := liftRaise_ok hq
      cases f with
      | none => simp [pure, Except.pure] at h
      | some f =>
        simp only at h
        split at h
        · simp [pure, Except.pure] at h
        · rename_i him
          have := pure_ok h
          simp only [Option.some.injEq] at this
          subst this
          refine ⟨?_, q, hq', hf, by simpa using him⟩
          intro hidx
          simp only [Bool.and_eq_true, beq_iff_eq, Bool.not_eq_true', not_and, Bool.not_eq_false] at hc
          exact hc hidx

theorem closeInner_spec (S : Schema) (rt : RPos) (fr : List FItem) : ∀ n, closeInner S rt fr n = .ok true →
    ∀ d, d < n → ∃ it, fr[d]? = some it ∧ contentAfterFits S rt d it.ty it.st true = .ok (some [])
  | 0, _, d, hd => by omega
  | n + 1, h, d, hd => by
    unfold closeInner at h
    obtain ⟨it, hit, h⟩ := FM.bind_ok h
    obtain ⟨r, hr, h⟩ := FM.bind_ok h
    cases r with
    | none => simp [pure, Except.pure] at h
    | some l =>
      simp only at h
      split at h
      · simp [pure, Except.pure] at h
      · rename_i hl
        have hl' : l = [] := by simpa using hl
        subst hl'
        rcases Nat.lt_or_ge d n with hlt | hge
        · exact closeInner_spec S rt fr n h d hlt
        · have : d = n := by omega
          subst this
          unfold getItem at hit
          split at hit
          · rename_i it' hit'
            have := pure_ok hit
            subst this
            exact ⟨it', hit', hr⟩
          · simp [throw, throwThe, MonadExceptOf.throw] at hit

/-- `drop_inner` of `find_close_level` at level `i` -/
def dropInnerB (rt : RPos) (i : Nat) : Bool :=
  decide (i < rt.depth) && rt.end_ (i + 1) == rt.pos + (rt.depth - (i + 1))

theorem findCloseLevelLoop_spec (S : Schema) (doc : Node) (rt : RPos) (fr : List FItem) :
    ∀ (n : Nat) (lv : CloseLevel), findCloseLevelLoop S doc rt fr n = .ok (some lv) →
      lv.depth < n ∧ ∃ it, fr[lv.depth]? = some it ∧
        contentAfterFits S rt lv.depth it.ty it.st (dropInnerB rt lv.depth) = .ok (some lv.fit) ∧
        closeInner S rt fr lv.depth = .ok true ∧ closeMove doc rt lv.depth (dropInnerB rt lv.depth) = .ok lv.move
  | 0, lv, h => by simp [findCloseLevelLoop, pure, Except.pure] at h
  | i + 1, lv, h => by
    unfold findCloseLevelLoop at h
    obtain ⟨it, hit, h⟩ := FM.bind_ok h
    simp only at h
    obtain ⟨r, hr, h⟩ := FM.bind_ok h
    have next : findCloseLevelLoop S doc rt fr i = .ok (some lv) →
        lv.depth < i + 1 ∧ ∃ it, fr[lv.depth]? = some it ∧
          contentAfterFits S rt lv.depth it.ty it.st (dropInnerB rt lv.depth) = .ok (some lv.fit) ∧
          closeInner S rt fr lv.depth = .ok true ∧
          closeMove doc rt lv.depth (dropInnerB rt lv.depth) = .ok lv.move := fun h' => by
      obtain ⟨h1, h2⟩ := findCloseLevelLoop_spec S doc rt fr i lv h'
      exact ⟨by omega, h2⟩
    cases r with
    | none => exact next h
    | some fit =>
      simp only at h
      obtain ⟨b, hb, h⟩ := FM.bind_ok h
      cases b with
      | false => exact next h
      | true =>
        simp only [if_true] at h
        obtain ⟨mv, hmv, h⟩ := FM.bind_ok h
        have := pure_ok h
        simp only [Option.some.injEq] at this
        subst this
        refine ⟨by simp, ?_⟩
        unfold getItem at hit
        split at hit
        · rename_i it' hit'
          have := pure_ok hit
          subst this
          exact ⟨it', hit', hr, hb, hmv⟩
        · simp [throw, throwThe, MonadExceptOf.throw] at hit

/-! ### the state `Fitter.__init__` builds -/

theorem mapM_FM_inv {α β : Type} (f : α → FM β) : ∀ (l : List α) (r : List β), l.mapM f = .ok r →
    r.length = l.length ∧ ∀ i (h : i < l.length), ∃ b, r[i]? = some b ∧ f l[i] = .ok b
  | [], r, h => by
    have : r = [] := by simpa [List.mapM_nil, pure, Except.pure] using h.symm
    subst this
    exact ⟨rfl, fun i h => by simp at h⟩
  | a :: l, r, h => by
    rw [List.mapM_cons] at h
    obtain ⟨b, hb, h⟩ := FM.bind_ok h
    obtain ⟨bs, hbs, h⟩ := FM.bind_ok h
    have := pure_ok h
    subst this
    obtain ⟨ih1, ih2⟩ := mapM_FM_inv f l bs hbs
    refine ⟨by simp [ih1], ?_⟩
    intro i hi
    cases i with
    | zero => exact ⟨b, rfl, hb⟩
    | succ i =>
      obtain ⟨b', h1, h2⟩ := ih2 i (by simpa using hi)
      exact ⟨b', by simpa using h1, by simpa using h2⟩

theorem nestPlaced_chainF {doc : Node} {f : Nat} {rf : RPos} (hf : doc.resolve f = some rf) :
    ∀ (n j : Nat), j + n ≤ rf.depth →
      (List.range' j n).foldr (fun i acc => [(rf.node (i + 1)).withKids acc]) [] = chainF (framesFrom rf j n) []
  | 0, _, _ => rfl
  | n + 1, j, h => by
    obtain ⟨t, a, m, k, e⟩ := resolve_node_elem hf j (by omega)
    simp only [List.range'_succ, List.foldr_cons, framesFrom, chainF, nestPlaced_chainF hf n (j + 1) (by omega)]
    simp [frameAt, Frame.node, e, Node.withKids, Node.ty!, Node.attrs, Node.marks]

/-- **`Fitter.__init__`**: one frontier entry per ancestor of `from` (its type, the match behind the child the path goes
    into), `placed` the nested empty copies of the ancestors -/
theorem fitInit_spec (S : Schema) {doc : Node} {f : Nat} {rf : RPos} (hf : doc.resolve f = some rf) (sl : Slice)
    (st0 : FitState) (h : fitInit S rf sl = .ok st0) :
    st0.unplaced = sl ∧ st0.placed = chainF (framesFrom rf 0 rf.depth) [] ∧ st0.frontier.length = rf.depth + 1 ∧
    ∀ i, i ≤ rf.depth → ∃ q, st0.frontier[i]? = some ⟨S.tyOf (rf.node i), some q⟩ ∧
      S.contentMatchAt (S.tyOf (rf.node i)) (rf.node i).kids (rf.indexAfter i) = some q := by
  unfold fitInit at h
  obtain ⟨fr, hfr, h⟩ := FM.bind_ok h
  have := pure_ok h
  subst this
  obtain ⟨hlen, hget⟩ := mapM_FM_inv _ _ _ hfr
  refine ⟨rfl, ?_, by simpa using hlen, ?_⟩
  · have := nestPlaced_chainF hf rf.depth 0 (by omega)
    rw [← List.range_eq_range'] at this
    exact this
  · intro i hi
    obtain ⟨b, hb, hfb⟩ := hget i (by simp; omega)
    simp only [List.getElem_range] at hfb
    obtain ⟨q, hq, hfb⟩ := FM.bind_ok hfb
    have := pure_ok hfb
    subst this
    exact ⟨q, hb, liftRaise_ok hq⟩

/-! ### the final `while` of `fit` -/

theorem normalizeOpen_chainF : ∀ (outer : List Frame) (G : List Node) (os oe n : Nat), outer.length < n →
    outer.length ≤ os → outer.length ≤ oe → (G.length = 1 → os = outer.length ∨ oe = outer.length) →
    normalizeOpen n (chainF outer G) os oe = (G, os - outer.length, oe - outer.length)
  | [], G, os, oe, n, hn, _, _, hG => by
    obtain ⟨n', rfl⟩ : ∃ n', n = n' + 1 := ⟨n - 1, by simp at hn; omega⟩
    simp only [chainF, List.length_nil, Nat.sub_zero]
    unfold normalizeOpen
    split
    · rename_i only
      have := hG rfl
      simp only [List.length_nil] at this
      rw [if_neg (by rcases this with h | h <;> simp [h])]
    · rfl
  | fr :: outer, G, os, oe, n, hn, hos, hoe, hG => by
    obtain ⟨n', rfl⟩ : ∃ n', n = n' + 1 := ⟨n - 1, by simp at hn; omega⟩
    simp only [List.length_cons] at hn hos hoe hG
    simp only [chainF, Frame.node]
    unfold normalizeOpen
    simp only
    rw [if_pos (by simp; omega)]
    simp only [Node.kids]
    rw [normalizeOpen_chainF outer G (os - 1) (oe - 1) n' (by omega) (by omega) (by omega)
      (fun h => by rcases hG h with h' | h' <;> omega)]
    simp only [List.length_cons]
    congr 2 <;> omega

/-! ### `close`, explicitly -/

/-- **`Fitter.close` on the state `Fitter.__init__` built**: with the close level `lv` of `find_close_level`, the fillers
    `fills` of the frontier entries above it and the re-opened frames `ro` of the target below it, `placed` becomes the
    chain of `from`'s ancestors down to the close level around the closed levels, the filling of the close level and
    the re-opened levels -/
theorem closeFit_delete_eq (S : Schema) {doc : Node} {rf : RPos} (tgt : RPos) (fr0 : List FItem)
    (lv : CloseLevel) (fills : List (List Node)) (ro : List (Frame × List Node)) (X0 : List Node)
    (hlen : fr0.length = rf.depth + 1) (hsome : ∀ it ∈ fr0, ∃ q, it.st = some q)
    (hlv : findCloseLevel S doc tgt fr0 = .ok (some lv)) (hc : lv.depth ≤ rf.depth)
    (hfl : fills.length = rf.depth - lv.depth)
    (hfills : ∀ p ∈ (fr0.drop (lv.depth + 1)).zip fills, FillRel S p.1 p.2)
    (hfit : textFreeKids lv.fit = true)
    (hro : ro.length = lv.move.depth - lv.depth) (hroAll : ReopenAll S lv.move (lv.depth + 1) ro) :
    closeFit S doc tgt fr0 (chainF (framesFrom rf 0 rf.depth) X0)
      = .ok (some (lv.move, chainF (framesFrom rf 0 lv.depth)
          (leftS (framesFrom rf lv.depth (rf.depth - lv.depth)) fills X0 ++ lv.fit
            ++ rightS (ro.map (·.1)) (ro.map (·.2))))) := by
  unfold closeFit
  rw [FM.bind_eq hlv]
  simp only
  have hsplit : fr0 = fr0.take (lv.depth + 1) ++ fr0.drop (lv.depth + 1) := (List.take_append_drop _ _).symm
  have hfr : framesFrom rf 0 rf.depth
      = framesFrom rf 0 lv.depth ++ framesFrom rf lv.depth (rf.depth - lv.depth) := by
    have := framesFrom_add rf 0 lv.depth (rf.depth - lv.depth)
    rwa [show lv.depth + (rf.depth - lv.depth) = rf.depth by omega, Nat.zero_add] at this
  have hcm := closeMany_eq S (rf.depth - lv.depth) (fr0.drop (lv.depth + 1)) fills
    (framesFrom rf lv.depth (rf.depth - lv.depth)) (fr0.take (lv.depth + 1)) (framesFrom rf 0 lv.depth) X0
    (by simp [hlen]) hfl (framesFrom_length _ _ _) (by simp [hlen, framesFrom_length]; omega) hfills
  rw [← hsplit, ← chainF_append, ← hfr, show rf.depth - lv.depth = fr0.length - 1 - lv.depth by omega] at hcm
  rw [FM.bind_eq hcm]
  simp only
  -- the filling of the close level
  have hstep2 : (if (!lv.fit.isEmpty) = true then
        addToFragment (chainF (framesFrom rf 0 lv.depth)
          (leftS (framesFrom rf lv.depth (fr0.length - 1 - lv.depth)) fills X0)) lv.depth lv.fit
      else pure (chainF (framesFrom rf 0 lv.depth)
          (leftS (framesFrom rf lv.depth (fr0.length - 1 - lv.depth)) fills X0)))
      = .ok (chainF (framesFrom rf 0 lv.depth)
          (leftS (framesFrom rf lv.depth (fr0.length - 1 - lv.depth)) fills X0 ++ lv.fit)) := by
    split
    · have := addToFragment_chainF (framesFrom rf 0 lv.depth)
        (leftS (framesFrom rf lv.depth (fr0.length - 1 - lv.depth)) fills X0) 0 lv.fit
      rw [framesFrom_length, Nat.add_zero] at this
      rw [this]
      simp only [addToFragment, bind, Except.bind, pure, Except.pure]
      rw [PM.FromDom.fappend_notText _ _ (textFree_notText_all hfit)]
    · rename_i he
      have : lv.fit = [] := by simpa using he
      rw [this, List.append_nil]
      rfl
  rw [FM.bind_eq hstep2]
  -- re-opening
  have hctx := RCtx.ofChain (framesFrom rf 0 lv.depth)
  rw [framesFrom_length] at hctx
  have hlast : LastOKF (fr0.take (lv.depth + 1)) := by
    have hl : lv.depth < fr0.length := by omega
    obtain ⟨q, hq⟩ := hsome fr0[lv.depth] (List.getElem_mem _)
    refine ⟨fr0[lv.depth], q, ?_, hq⟩
    rw [List.getLast?_eq_getElem?, List.length_take, Nat.min_eq_left (by omega), Nat.add_sub_cancel,
      List.getElem?_take, if_pos (by omega), List.getElem?_eq_getElem hl]
  obtain ⟨fr', hfr'⟩ := reopen_eq S lv.move ro (chainF (framesFrom rf 0 lv.depth)) lv.depth
    (leftS (framesFrom rf lv.depth (fr0.length - 1 - lv.depth)) fills X0 ++ lv.fit) (fr0.take (lv.depth + 1))
    (lv.depth + 1) hctx (by simp [hlen]; omega) hlast hroAll
  rw [hro] at hfr'
  rw [FM.bind_eq hfr']
  simp only [pure, Except.pure]
  rw [show fr0.length - 1 - lv.depth = rf.depth - lv.depth by omega]

end PM
