/-
  Proofs/DelRun.lean — what `Fitter.close` computes on the state `Fitter.__init__` builds, explicitly (C11
  `delete_applies`): the frontier nodes above the close level are closed with their fillers (`closeMany_eq`), the
  ancestors of the target are re-opened with the fillers in front (`reopen_eq`); `placed` in terms of the frames of
  `from` and of the target (Proofs/DelSpine.lean `leftS`, `rightS`).
-/
import Proofs.DelFrames
import Proofs.FitDelete
namespace PM
open PM.FromDom (notText)

/-- nested copies of the ancestors around a fragment -/
def chainF : List Frame → List Node → List Node
  | [], X => X
  | fr :: frs, X => [fr.node (chainF frs X)]

theorem chainF_append : ∀ (a b : List Frame) (X : List Node), chainF (a ++ b) X = chainF a (chainF b X)
  | [], _, _ => rfl
  | fr :: a, b, X => by simp [chainF, chainF_append a b X]

/-- `add_to_fragment` below a chain of single nodes works inside the innermost fragment -/
theorem addToFragment_chainF : ∀ (frs : List Frame) (Y : List Node) (d : Nat) (c : List Node),
    addToFragment (chainF frs Y) (frs.length + d) c = (addToFragment Y d c >>= fun r => pure (chainF frs r))
  | [], Y, d, c => by
    simp only [chainF, List.length_nil, Nat.zero_add]
    cases addToFragment Y d c <;> rfl
  | fr :: frs, Y, d, c => by
    have ih := addToFragment_chainF frs Y d c
    rw [show (fr :: frs).length + d = (frs.length + d) + 1 by simp; omega]
    simp only [chainF, addToFragment, Frame.node, List.getLast?_singleton, ih]
    cases addToFragment Y d c <;> rfl

theorem textFree_notText_all {l : List Node} (h : textFreeKids l = true) : ∀ n ∈ l, notText n :=
  fun n hn => textFree_notText n (textFreeKids_mem l h n hn)

theorem leftS_snoc : ∀ (inner : List Frame) (fills : List (List Node)) (fr : Frame) (fill X : List Node),
    inner.length = fills.length →
    leftS (inner ++ [fr]) (fills ++ [fill]) X = leftS inner fills [fr.node (X ++ fill)]
  | [], [], fr, fill, X, _ => by simp [leftS]
  | [], _ :: _, _, _, _, h => by simp at h
  | _ :: _, [], _, _, _, h => by simp at h
  | fr0 :: inner, fill0 :: fills, fr, fill, X, h => by
    simp only [List.length_cons, Nat.add_right_cancel_iff] at h
    simp only [List.cons_append, leftS, leftS_snoc inner fills fr fill X h]

theorem snoc_of_length_succ {α : Type} {l : List α} {n : Nat} (h : l.length = n + 1) :
    ∃ l' a, l = l' ++ [a] ∧ l'.length = n := by
  have hne : l ≠ [] := by intro h0; subst h0; simp at h
  exact ⟨l.dropLast, l.getLast hne, (List.dropLast_concat_getLast hne).symm, by simp [h]⟩

/-- the frontier entry can be closed with this filler -/
def FillRel (S : Schema) (it : FItem) (fill : List Node) : Prop :=
  ∃ q, it.st = some q ∧ fillOpt S (S.dfa it.ty) q [] true = .ok (some fill)

/-- **`close_frontier_node` repeated**: the entries `items` of the frontier are closed innermost first, each filler
    going behind the children of its level -/
theorem closeMany_eq (S : Schema) : ∀ (n : Nat) (items : List FItem) (fills : List (List Node)) (inner : List Frame)
    (frTop : List FItem) (outer : List Frame) (X : List Node), items.length = n → fills.length = n →
    inner.length = n → frTop.length = outer.length + 1 → (∀ p ∈ items.zip fills, FillRel S p.1 p.2) →
    closeMany S n (frTop ++ items) (chainF outer (chainF inner X))
      = .ok (frTop, chainF outer (leftS inner fills X))
  | 0, items, fills, inner, frTop, outer, X, h1, h2, h3, _, _ => by
    rw [List.length_eq_zero_iff] at h1 h2 h3
    subst h1; subst h2; subst h3
    simp [closeMany, chainF, leftS, pure, Except.pure]
  | n + 1, items, fills, inner, frTop, outer, X, h1, h2, h3, h4, hrel => by
    obtain ⟨items', it, rfl, hi⟩ := snoc_of_length_succ h1
    obtain ⟨fills', fill, rfl, hf⟩ := snoc_of_length_succ h2
    obtain ⟨inner', frL, rfl, hn⟩ := snoc_of_length_succ h3
    have hz : (items' ++ [it]).zip (fills' ++ [fill]) = items'.zip fills' ++ [(it, fill)] := by
      rw [List.zip_append (by omega)]; rfl
    obtain ⟨q, hq, hfill⟩ := hrel (it, fill) (by rw [hz]; simp)
    have htf := fillOpt_textFree S _ _ _ _ _ hfill
    have hstep : closeFrontierNode S (frTop ++ (items' ++ [it])) (chainF outer (chainF (inner' ++ [frL]) X))
        = .ok (frTop ++ items', chainF outer (chainF inner' [frL.node (X ++ fill)])) := by
      unfold closeFrontierNode
      have hl : (frTop ++ (items' ++ [it])).getLast? = some it := by
        rw [← List.append_assoc, List.getLast?_concat]
      have hd : (frTop ++ (items' ++ [it])).dropLast = frTop ++ items' := by
        rw [← List.append_assoc, List.dropLast_concat]
      simp only [hl, hd]
      have hgs : getSt it = .ok q := by unfold getSt; rw [hq]; rfl
      rw [FM.bind_eq hgs, FM.bind_eq hfill]
      simp only
      split
      · rename_i he
        have : fill = [] := by simpa using he
        subst this
        simp [pure, Except.pure, chainF_append, chainF]
      · have hlen : (frTop ++ items').length = (outer ++ inner' ++ [frL]).length + 0 := by
          simp only [List.length_append, List.length_cons, List.length_nil]; omega
        have e : chainF outer (chainF (inner' ++ [frL]) X) = chainF (outer ++ inner' ++ [frL]) X := by
          rw [chainF_append, chainF_append, chainF_append]
        rw [hlen, e, addToFragment_chainF]
        simp only [addToFragment, bind, Except.bind, pure, Except.pure]
        rw [PM.FromDom.fappend_notText X fill (textFree_notText_all htf), chainF_append, chainF_append]
        rfl
    unfold closeMany
    rw [FM.bind_eq hstep]
    simp only
    rw [closeMany_eq S n items' fills' inner' frTop outer _ hi hf hn h4
      (fun p hp => hrel p (by rw [hz]; simp [hp]))]
    rw [leftS_snoc inner' fills' frL fill X (by omega)]

/-! ### re-opening the ancestors of the target -/

/-- a context around the fragment at depth `dep` of the last-child chain: `add_to_fragment` works inside it -/
def RCtx (ctx : List Node → List Node) (dep : Nat) : Prop :=
  ∀ Y d c, addToFragment (ctx Y) (dep + d) c = (addToFragment Y d c >>= fun r => pure (ctx r))

theorem RCtx.ofChain (frs : List Frame) : RCtx (chainF frs) frs.length := addToFragment_chainF frs

theorem RCtx.comp {ctx : List Node → List Node} {dep : Nat} (h : RCtx ctx dep) (frs : List Frame) :
    RCtx (fun Z => ctx (chainF frs Z)) (dep + frs.length) := by
  intro Y d c
  rw [Nat.add_assoc, h, addToFragment_chainF]
  cases addToFragment Y d c <;> rfl

theorem RCtx.snoc {ctx : List Node → List Node} {dep : Nat} (h : RCtx ctx dep) (Y0 : List Node) (t : TypeId)
    (a : Attrs) (m : Marks) : RCtx (fun Z => ctx (Y0 ++ [.elem t a m Z])) (dep + 1) := by
  intro Y d c
  rw [Nat.add_assoc, h]
  rw [show 1 + d = d + 1 by omega]
  simp only [addToFragment, List.getLast?_concat, List.dropLast_concat]
  cases addToFragment Y d c <;> rfl

/-- one iteration of the loop `for d in range(close.depth + 1, to.depth + 1)` of `close`: the frame put on the open end
    of `placed` (type of `to.node(d)`, the attributes `type.create` computes from the node's, no marks) and the filler -/
def ReopenRel (S : Schema) (mv : RPos) (d : Nat) (x : Frame × List Node) : Prop :=
  ∃ t a m ks a' addopt, mv.node d = .elem t a m ks ∧ (S.nodeType t).isText = false ∧ (S.nodeType t).isLeaf = false ∧
    computeAttrs (S.nodeType t).attrs a = .ok a' ∧
    fillOpt S (S.dfa t) 0 (S.types (ks.drop (mv.index d))) true = .ok addopt ∧
    x.1.ty = t ∧ x.1.attrs = a' ∧ x.1.marks = [] ∧ x.2 = addopt.getD []

def ReopenAll (S : Schema) (mv : RPos) : Nat → List (Frame × List Node) → Prop
  | _, [] => True
  | d, x :: xs => ReopenRel S mv d x ∧ ReopenAll S mv (d + 1) xs

theorem reopen_eq (S : Schema) (mv : RPos) : ∀ (ro : List (Frame × List Node)) (ctx : List Node → List Node)
    (dep : Nat) (Y : List Node) (fr : List FItem) (d : Nat), RCtx ctx dep → fr.length = dep + 1 → LastOKF fr →
    ReopenAll S mv d ro →
    ∃ fr', reopen S mv ro.length d fr (ctx Y) = .ok (fr', ctx (Y ++ rightS (ro.map (·.1)) (ro.map (·.2))))
  | [], ctx, dep, Y, fr, d, _, _, _, _ => ⟨fr, by simp [reopen, rightS, pure, Except.pure]⟩
  | x :: ro, ctx, dep, Y, fr, d, hctx, hlen, hlast, hall => by
    obtain ⟨⟨t, a, m, ks, a', addopt, hn, h1, h2, h3, hfill, e1, e2, e3, e4⟩, hrest⟩ := hall
    obtain ⟨it, q, hitl, hq⟩ := hlast
    have hdep : dep < fr.length := by omega
    have hit : fr[fr.length - 1] = it := by
      rw [List.getLast?_eq_getElem?, List.getElem?_eq_getElem (by omega)] at hitl
      simpa using hitl
    have hnode : S.mkNodeO t a' [] x.2 = .elem t a' [] x.2 := by
      unfold Schema.mkNodeO; simp [h2]
    have hxn : x.1.node (x.2 ++ rightS (ro.map (·.1)) (ro.map (·.2)))
        = .elem t a' [] (x.2 ++ rightS (ro.map (·.1)) (ro.map (·.2))) := by
      simp [Frame.node, e1, e2, e3]
    have hopen : openFrontierNode S fr (ctx Y) t (some a) x.2
        = .ok (fr.set (fr.length - 1) ⟨it.ty, (S.dfa it.ty).matchType q t⟩ ++ [⟨t, some 0⟩],
            ctx (Y ++ [.elem t a' [] x.2])) := by
      unfold openFrontierNode
      simp only
      rw [FM.bind_eq (getItem_lt (by omega)), hit]
      have hgs : getSt it = .ok q := by unfold getSt; rw [hq]; rfl
      rw [FM.bind_eq hgs, FM.bind_eq (createNodeO_ok S t a x.2 h1 a' h3), hnode]
      have : fr.length - 1 = dep + 0 := by omega
      rw [this, hctx]
      simp only [addToFragment, bind, Except.bind, pure, Except.pure]
      rw [PM.FromDom.fappend_notText Y _ (by intro n hn; simp at hn; subst hn; trivial)]
    have hctx' := hctx.snoc Y t a' []
    obtain ⟨fr', hfr'⟩ := reopen_eq S mv ro (fun Z => ctx (Y ++ [.elem t a' [] Z])) (dep + 1) x.2
      (fr.set (fr.length - 1) ⟨it.ty, (S.dfa it.ty).matchType q t⟩ ++ [⟨t, some 0⟩]) (d + 1) hctx'
      (by simp; omega) ⟨⟨t, some 0⟩, 0, by simp, rfl⟩ hrest
    refine ⟨fr', ?_⟩
    simp only [List.length_cons, reopen, hn, Schema.tyOf, Node.tyOr, Node.kids, Node.attrs]
    rw [FM.bind_eq hfill, ← e4, FM.bind_eq hopen]
    simp only
    rw [hfr']
    simp only [List.map_cons, rightS, hxn]

end PM
