/-
  Proofs/Regex.lean — soundness of the certificate check of C06.  The meaning of an expression is
  Mathlib's `RegularExpression.matches'` (a `Language`), through the translation `RE.toMathlib`.
-/
import PM.Regex
import Mathlib.Computability.RegularExpressions
namespace PM

/-- the expression as a Mathlib regular expression over node-type ids -/
def RE.toMathlib : RE → RegularExpression Nat
  | .eps => 1
  | .sym t => RegularExpression.char t
  | .alt a b => a.toMathlib + b.toMathlib
  | .seq a b => a.toMathlib * b.toMathlib
  | .star a => RegularExpression.star a.toMathlib

/-- the language of an expression: a standard definition, not one of ours -/
def RE.lang (r : RE) : Language Nat := r.toMathlib.matches'

/-! ### membership in the language, constructor by constructor -/

theorem mem_lang_eps (w : List Nat) : w ∈ RE.eps.lang ↔ w = [] := by
  show w ∈ (1 : Language Nat) ↔ _
  exact Language.mem_one w

theorem mem_lang_sym (t : Nat) (w : List Nat) : w ∈ (RE.sym t).lang ↔ w = [t] := by
  show w ∈ ({[t]} : Language Nat) ↔ _
  exact Iff.rfl

theorem mem_lang_alt (a b : RE) (w : List Nat) : w ∈ (RE.alt a b).lang ↔ w ∈ a.lang ∨ w ∈ b.lang := by
  show w ∈ a.lang + b.lang ↔ _
  exact Language.mem_add _ _ _

theorem mem_lang_seq (a b : RE) (w : List Nat) :
    w ∈ (RE.seq a b).lang ↔ ∃ u v, u ∈ a.lang ∧ v ∈ b.lang ∧ w = u ++ v := by
  show w ∈ a.lang * b.lang ↔ _
  rw [Language.mem_mul]
  constructor
  · rintro ⟨u, hu, v, hv, rfl⟩; exact ⟨u, v, hu, hv, rfl⟩
  · rintro ⟨u, v, hu, hv, rfl⟩; exact ⟨u, hu, v, hv, rfl⟩

theorem mem_lang_star (a : RE) (w : List Nat) :
    w ∈ (RE.star a).lang ↔ ∃ ws : List (List Nat), w = ws.flatten ∧ ∀ y, y ∈ ws → y ∈ a.lang := by
  show w ∈ KStar.kstar a.lang ↔ _
  exact Language.mem_kstar

theorem nil_mem_lang_star (a : RE) : [] ∈ (RE.star a).lang :=
  (mem_lang_star a []).2 ⟨[], rfl, by simp⟩

theorem append_mem_lang_star (a : RE) (x y : List Nat) (hx : x ∈ a.lang) (hy : y ∈ (RE.star a).lang) :
    x ++ y ∈ (RE.star a).lang := by
  obtain ⟨ws, rfl, hws⟩ := (mem_lang_star a y).1 hy
  refine (mem_lang_star a _).2 ⟨x :: ws, by simp, ?_⟩
  intro z hz
  rcases List.mem_cons.1 hz with rfl | hz
  · exact hx
  · exact hws z hz

/-- a non-empty word of `L*` starts with a non-empty factor -/
theorem cons_mem_lang_star (r : RE) (a : Nat) (v : List Nat) :
    a :: v ∈ (RE.star r).lang ↔ ∃ u u', a :: u ∈ r.lang ∧ u' ∈ (RE.star r).lang ∧ v = u ++ u' := by
  constructor
  · intro h
    have h' : a :: v ∈ KStar.kstar r.lang := h
    obtain ⟨ws, hflat, hws⟩ := Language.mem_kstar_iff_exists_nonempty.1 h'
    cases ws with
    | nil => simp at hflat
    | cons y ws' =>
      have hy := hws y (List.mem_cons_self ..)
      cases y with
      | nil => exact absurd rfl hy.2
      | cons b u =>
        simp only [List.flatten_cons, List.cons_append, List.cons.injEq] at hflat
        obtain ⟨rfl, rfl⟩ := hflat
        refine ⟨u, ws'.flatten, hy.1, ?_, rfl⟩
        exact (mem_lang_star r _).2 ⟨ws', rfl, fun z hz => (hws z (List.mem_cons_of_mem _ hz)).1⟩
  · rintro ⟨u, u', hu, hu', rfl⟩
    exact append_mem_lang_star r (a :: u) u' hu hu'

theorem nullable_iff (r : RE) : r.nullable = true ↔ [] ∈ r.lang := by
  induction r with
  | eps => simp [RE.nullable, mem_lang_eps]
  | sym t => simp [RE.nullable, mem_lang_sym]
  | alt a b iha ihb => simp [RE.nullable, mem_lang_alt, iha, ihb]
  | seq a b iha ihb =>
    rw [mem_lang_seq]
    simp only [RE.nullable, Bool.and_eq_true, iha, ihb]
    constructor
    · rintro ⟨h1, h2⟩; exact ⟨[], [], h1, h2, rfl⟩
    · rintro ⟨u, v, hu, hv, huv⟩
      have := List.append_eq_nil_iff.1 huv.symm
      obtain ⟨rfl, rfl⟩ := this
      exact ⟨hu, hv⟩
  | star a _ => simp [RE.nullable, nil_mem_lang_star]

theorem mem_lang_mkSeq (a b : RE) (w : List Nat) :
    w ∈ (RE.mkSeq a b).lang ↔ w ∈ (RE.seq a b).lang := by
  cases a with
  | eps =>
    simp only [RE.mkSeq, mem_lang_seq, mem_lang_eps]
    constructor
    · intro h; exact ⟨[], w, rfl, h, rfl⟩
    · rintro ⟨u, v, rfl, hv, rfl⟩; simpa using hv
  | sym _ => exact Iff.rfl
  | alt _ _ => exact Iff.rfl
  | seq _ _ => exact Iff.rfl
  | star _ => exact Iff.rfl

/-- Antimirov: the partial derivatives of `r` by `a` together denote the left quotient -/
theorem pd_iff (r : RE) (a : Nat) (v : List Nat) :
    a :: v ∈ r.lang ↔ ∃ r', r' ∈ RE.pd r a ∧ v ∈ r'.lang := by
  induction r generalizing v with
  | eps => simp [RE.pd, mem_lang_eps]
  | sym t =>
    simp only [RE.pd, mem_lang_sym, List.cons.injEq]
    by_cases h : a = t
    · simp [h, mem_lang_eps]
    · simp [h]
  | alt r s ihr ihs =>
    simp only [RE.pd, mem_lang_alt, List.mem_append, ihr, ihs]
    constructor
    · rintro (⟨x, hx, hv⟩ | ⟨x, hx, hv⟩)
      · exact ⟨x, Or.inl hx, hv⟩
      · exact ⟨x, Or.inr hx, hv⟩
    · rintro ⟨x, hx | hx, hv⟩
      · exact Or.inl ⟨x, hx, hv⟩
      · exact Or.inr ⟨x, hx, hv⟩
  | seq r s ihr ihs =>
    rw [mem_lang_seq]
    simp only [RE.pd, List.mem_append, List.mem_map]
    constructor
    · rintro ⟨u, u', hu, hu', huv⟩
      cases u with
      | nil =>
        simp only [List.nil_append] at huv
        subst huv
        obtain ⟨x, hx, hxv⟩ := (ihs v).1 hu'
        refine ⟨x, Or.inr ?_, hxv⟩
        rw [if_pos ((nullable_iff r).2 hu)]
        exact hx
      | cons b u'' =>
        simp only [List.cons_append, List.cons.injEq] at huv
        obtain ⟨rfl, rfl⟩ := huv
        obtain ⟨x, hx, hxv⟩ := (ihr u'').1 hu
        refine ⟨RE.mkSeq x s, Or.inl ⟨x, hx, rfl⟩, ?_⟩
        rw [mem_lang_mkSeq, mem_lang_seq]
        exact ⟨u'', u', hxv, hu', rfl⟩
    · rintro ⟨x, hx | hx, hxv⟩
      · obtain ⟨y, hy, rfl⟩ := hx
        rw [mem_lang_mkSeq, mem_lang_seq] at hxv
        obtain ⟨u, u', hu, hu', rfl⟩ := hxv
        exact ⟨a :: u, u', (ihr u).2 ⟨y, hy, hu⟩, hu', rfl⟩
      · by_cases hn : r.nullable = true
        · rw [if_pos hn] at hx
          exact ⟨[], a :: v, (nullable_iff r).1 hn, (ihs v).2 ⟨x, hx, hxv⟩, rfl⟩
        · rw [if_neg hn] at hx
          simp at hx
  | star r ih =>
    rw [cons_mem_lang_star]
    simp only [RE.pd, List.mem_map]
    constructor
    · rintro ⟨u, u', hu, hu', rfl⟩
      obtain ⟨x, hx, hxu⟩ := (ih u).1 hu
      refine ⟨RE.mkSeq x (RE.star r), ⟨x, hx, rfl⟩, ?_⟩
      rw [mem_lang_mkSeq, mem_lang_seq]
      exact ⟨u, u', hxu, hu', rfl⟩
    · rintro ⟨x, ⟨y, hy, rfl⟩, hxv⟩
      rw [mem_lang_mkSeq, mem_lang_seq] at hxv
      obtain ⟨u, u', hu, hu', rfl⟩ := hxv
      exact ⟨u, u', (ih u).2 ⟨y, hy, hu⟩, hu', rfl⟩

theorem mem_pdSet (rs : List RE) (a : Nat) (x : RE) :
    x ∈ RE.pdSet rs a ↔ ∃ r, r ∈ rs ∧ x ∈ RE.pd r a := by
  simp only [RE.pdSet, List.mem_eraseDups, List.mem_flatMap]

theorem pdSet_iff (rs : List RE) (a : Nat) (v : List Nat) :
    (∃ x, x ∈ RE.pdSet rs a ∧ v ∈ x.lang) ↔ ∃ r, r ∈ rs ∧ a :: v ∈ r.lang := by
  constructor
  · rintro ⟨x, hx, hv⟩
    obtain ⟨r, hr, hxr⟩ := (mem_pdSet rs a x).1 hx
    exact ⟨r, hr, (pd_iff r a v).2 ⟨x, hxr, hv⟩⟩
  · rintro ⟨r, hr, hv⟩
    obtain ⟨x, hx, hxv⟩ := (pd_iff r a v).1 hv
    exact ⟨x, (mem_pdSet rs a x).2 ⟨r, hr, hx⟩, hxv⟩

theorem nullableSet_iff (rs : List RE) : RE.nullableSet rs = true ↔ ∃ r, r ∈ rs ∧ [] ∈ r.lang := by
  simp only [RE.nullableSet, List.any_eq_true, nullable_iff]

/-- **the Bool matcher decides the language** (Antimirov partial derivatives are sound and complete) -/
theorem matchSet_iff (rs : List RE) (w : List Nat) :
    RE.matchSet rs w = true ↔ ∃ r, r ∈ rs ∧ w ∈ r.lang := by
  induction w generalizing rs with
  | nil => simp only [RE.matchSet, nullableSet_iff]
  | cons a w ih => simp only [RE.matchSet, ih, pdSet_iff]

theorem rmatch_iff (r : RE) (w : List Nat) : RE.rmatch r w = true ↔ w ∈ r.lang := by
  simp [RE.rmatch, matchSet_iff]

/-- the sugar of the content-expression grammar means what the documentation says -/
theorem lang_plus (r : RE) (w : List Nat) :
    w ∈ (RE.plus r).lang ↔ ∃ u v, u ∈ r.lang ∧ v ∈ (RE.star r).lang ∧ w = u ++ v := by
  exact mem_lang_seq r (RE.star r) w

theorem lang_opt (r : RE) (w : List Nat) : w ∈ (RE.opt r).lang ↔ w = [] ∨ w ∈ r.lang := by
  simp only [RE.opt, mem_lang_alt, mem_lang_eps]

/-- `r{n}`: exactly `n` repetitions -/
theorem lang_rep (r : RE) (n : Nat) (w : List Nat) :
    w ∈ (RE.rep r n).lang ↔ ∃ ws : List (List Nat), ws.length = n ∧ (∀ u, u ∈ ws → u ∈ r.lang) ∧ w = ws.flatten := by
  induction n generalizing w with
  | zero =>
    simp only [RE.rep, mem_lang_eps, List.length_eq_zero_iff]
    constructor
    · rintro rfl; exact ⟨[], rfl, by simp, rfl⟩
    · rintro ⟨ws, rfl, _, rfl⟩; rfl
  | succ n ih =>
    simp only [RE.rep, mem_lang_seq]
    constructor
    · rintro ⟨u, v, hu, hv, rfl⟩
      obtain ⟨ws, hlen, hws, rfl⟩ := (ih v).1 hv
      refine ⟨u :: ws, by simp [hlen], ?_, by simp⟩
      intro z hz
      rcases List.mem_cons.1 hz with rfl | hz
      · exact hu
      · exact hws z hz
    · rintro ⟨ws, hlen, hws, rfl⟩
      cases ws with
      | nil => simp at hlen
      | cons u ws' =>
        refine ⟨u, ws'.flatten, hws u (List.mem_cons_self ..), ?_, by simp⟩
        exact (ih _).2 ⟨ws', by simpa using hlen, fun z hz => hws z (List.mem_cons_of_mem _ hz), rfl⟩

/-- at most `k` repetitions -/
theorem lang_rep_opt (r : RE) (k : Nat) (w : List Nat) :
    w ∈ (RE.rep (RE.opt r) k).lang ↔
      ∃ ws : List (List Nat), ws.length ≤ k ∧ (∀ u, u ∈ ws → u ∈ r.lang) ∧ w = ws.flatten := by
  induction k generalizing w with
  | zero =>
    simp only [RE.rep, mem_lang_eps, Nat.le_zero, List.length_eq_zero_iff]
    constructor
    · rintro rfl; exact ⟨[], rfl, by simp, rfl⟩
    · rintro ⟨ws, rfl, _, rfl⟩; rfl
  | succ k ih =>
    simp only [RE.rep, mem_lang_seq, lang_opt]
    constructor
    · rintro ⟨u, v, hu, hv, rfl⟩
      obtain ⟨ws, hlen, hws, rfl⟩ := (ih v).1 hv
      rcases hu with rfl | hu
      · exact ⟨ws, Nat.le_succ_of_le hlen, hws, by simp⟩
      · refine ⟨u :: ws, by simpa using hlen, ?_, by simp⟩
        intro z hz
        rcases List.mem_cons.1 hz with rfl | hz
        · exact hu
        · exact hws z hz
    · rintro ⟨ws, hlen, hws, rfl⟩
      cases ws with
      | nil =>
        exact ⟨[], [], Or.inl rfl, (ih _).2 ⟨[], by simp, by simp, rfl⟩, by simp⟩
      | cons u ws' =>
        refine ⟨u, ws'.flatten, Or.inr (hws u (List.mem_cons_self ..)), ?_, by simp⟩
        exact (ih _).2 ⟨ws', by simpa using hlen, fun z hz => hws z (List.mem_cons_of_mem _ hz), rfl⟩

/-- `r{n,m}` (and `r{n,}`): between `n` and `m` (resp. at least `n`) repetitions -/
theorem lang_range (r : RE) (n : Nat) (m : Option Nat) (w : List Nat) :
    w ∈ (RE.range r n m).lang ↔
      ∃ ws : List (List Nat), n ≤ ws.length ∧ (∀ k, m = some k → ws.length ≤ max n k) ∧
        (∀ u, u ∈ ws → u ∈ r.lang) ∧ w = ws.flatten := by
  cases m with
  | none =>
    simp only [RE.range, mem_lang_seq, lang_rep, mem_lang_star]
    constructor
    · rintro ⟨u, v, ⟨ws1, hlen, hws1, rfl⟩, ⟨ws2, rfl, hws2⟩, rfl⟩
      refine ⟨ws1 ++ ws2, by simp [hlen], by simp, ?_, by simp⟩
      intro z hz
      rcases List.mem_append.1 hz with hz | hz
      · exact hws1 z hz
      · exact hws2 z hz
    · rintro ⟨ws, hlen, _, hws, rfl⟩
      refine ⟨(ws.take n).flatten, (ws.drop n).flatten,
        ⟨ws.take n, by simpa using hlen, fun z hz => hws z (List.mem_of_mem_take hz), rfl⟩,
        ⟨ws.drop n, rfl, fun z hz => hws z (List.mem_of_mem_drop hz)⟩, ?_⟩
      rw [← List.flatten_append, List.take_append_drop]
  | some m =>
    simp only [RE.range, mem_lang_seq, lang_rep_opt]
    simp only [lang_rep]
    constructor
    · rintro ⟨u, v, ⟨ws1, hlen, hws1, rfl⟩, ⟨ws2, hlen2, hws2, rfl⟩, rfl⟩
      refine ⟨ws1 ++ ws2, by simp [hlen], ?_, ?_, by simp⟩
      · intro k hk
        cases hk
        simp only [List.length_append, hlen]
        omega
      · intro z hz
        rcases List.mem_append.1 hz with hz | hz
        · exact hws1 z hz
        · exact hws2 z hz
    · rintro ⟨ws, hlen, hmax, hws, rfl⟩
      have hm := hmax m rfl
      refine ⟨(ws.take n).flatten, (ws.drop n).flatten,
        ⟨ws.take n, by simpa using hlen, fun z hz => hws z (List.mem_of_mem_take hz), rfl⟩,
        ⟨ws.drop n, ?_, fun z hz => hws z (List.mem_of_mem_drop hz), rfl⟩, ?_⟩
      · simp only [List.length_drop]; omega
      · rw [← List.flatten_append, List.take_append_drop]

/-- every expression (there is no empty-language constructor) has a word, over its own symbols -/
theorem lang_nonempty (r : RE) : ∃ w, w ∈ r.lang ∧ ∀ a, a ∈ w → a ∈ r.syms := by
  induction r with
  | eps => exact ⟨[], (mem_lang_eps _).2 rfl, by simp⟩
  | sym t => exact ⟨[t], (mem_lang_sym _ _).2 rfl, by simp [RE.syms]⟩
  | alt a b iha _ =>
    obtain ⟨w, hw, hs⟩ := iha
    exact ⟨w, (mem_lang_alt _ _ _).2 (Or.inl hw), fun x hx => by simp [RE.syms, hs x hx]⟩
  | seq a b iha ihb =>
    obtain ⟨w, hw, hs⟩ := iha
    obtain ⟨w', hw', hs'⟩ := ihb
    refine ⟨w ++ w', (mem_lang_seq _ _ _).2 ⟨w, w', hw, hw', rfl⟩, ?_⟩
    intro x hx
    rcases List.mem_append.1 hx with hx | hx
    · simp [RE.syms, hs x hx]
    · simp [RE.syms, hs' x hx]
  | star a _ => exact ⟨[], nil_mem_lang_star a, by simp⟩

/-! ### soundness of the certificate check -/

theorem syms_mkSeq (x s : RE) (b : Nat) (h : b ∈ (RE.mkSeq x s).syms) : b ∈ x.syms ∨ b ∈ s.syms := by
  cases x with
  | eps => exact Or.inr h
  | sym _ => exact List.mem_append.1 h
  | alt _ _ => exact List.mem_append.1 h
  | seq _ _ => exact List.mem_append.1 h
  | star _ => exact List.mem_append.1 h

/-- partial derivatives mention only symbols of the expression -/
theorem pd_syms (r : RE) (a : Nat) (x : RE) (hx : x ∈ RE.pd r a) (b : Nat) (hb : b ∈ x.syms) :
    b ∈ r.syms := by
  induction r generalizing x with
  | eps => simp [RE.pd] at hx
  | sym t =>
    simp only [RE.pd] at hx
    by_cases h : a = t
    · rw [if_pos h] at hx
      simp only [List.mem_singleton] at hx
      subst hx
      simp [RE.syms] at hb
    · rw [if_neg h] at hx
      simp at hx
  | alt r s ihr ihs =>
    simp only [RE.pd, List.mem_append] at hx
    simp only [RE.syms, List.mem_append]
    rcases hx with hx | hx
    · exact Or.inl (ihr x hx hb)
    · exact Or.inr (ihs x hx hb)
  | seq r s ihr ihs =>
    simp only [RE.pd, List.mem_append, List.mem_map] at hx
    simp only [RE.syms, List.mem_append]
    rcases hx with ⟨y, hy, rfl⟩ | hx
    · rcases syms_mkSeq y s b hb with h | h
      · exact Or.inl (ihr y hy h)
      · exact Or.inr h
    · by_cases hn : r.nullable = true
      · rw [if_pos hn] at hx
        exact Or.inr (ihs x hx hb)
      · rw [if_neg hn] at hx
        simp at hx
  | star r ih =>
    simp only [RE.pd, List.mem_map] at hx
    obtain ⟨y, hy, rfl⟩ := hx
    rcases syms_mkSeq y (RE.star r) b hb with h | h
    · exact ih y hy h
    · exact h

/-- no partial derivative by a letter the expression does not mention -/
theorem pd_eq_nil (r : RE) (a : Nat) (h : a ∉ r.syms) : RE.pd r a = [] := by
  induction r with
  | eps => rfl
  | sym t =>
    simp only [RE.syms, List.mem_singleton] at h
    simp [RE.pd, h]
  | alt r s ihr ihs =>
    simp only [RE.syms, List.mem_append, not_or] at h
    simp [RE.pd, ihr h.1, ihs h.2]
  | seq r s ihr ihs =>
    simp only [RE.syms, List.mem_append, not_or] at h
    simp [RE.pd, ihr h.1, ihs h.2]
  | star r ih =>
    simp only [RE.syms] at h
    simp [RE.pd, ih h]

/-- all expressions of the set only mention letters of `sigma` -/
def SymsOk (sigma : List Nat) (rs : List RE) : Prop := ∀ x, x ∈ rs → ∀ b, b ∈ x.syms → b ∈ sigma

theorem symsOk_pdSet (sigma : List Nat) (rs : List RE) (a : Nat) (h : SymsOk sigma rs) :
    SymsOk sigma (RE.pdSet rs a) := by
  intro x hx b hb
  obtain ⟨r, hr, hxr⟩ := (mem_pdSet rs a x).1 hx
  exact h r hr b (pd_syms r a x hxr b hb)

theorem pdSet_eq_nil_of_not_mem (sigma : List Nat) (rs : List RE) (a : Nat) (h : SymsOk sigma rs)
    (ha : a ∉ sigma) : ∀ x, x ∉ RE.pdSet rs a := by
  intro x hx
  obtain ⟨r, hr, hxr⟩ := (mem_pdSet rs a x).1 hx
  have : a ∉ r.syms := fun hmem => ha (h r hr a hmem)
  rw [pd_eq_nil r a this] at hxr
  simp at hxr

theorem sameSet_mem (a b : List RE) (h : RE.sameSet a b = true) (x : RE) : x ∈ a ↔ x ∈ b := by
  simp only [RE.sameSet, Bool.and_eq_true, List.all_eq_true, List.contains_iff_mem] at h
  exact ⟨h.1 x, h.2 x⟩

/-- what `isBisim` says about one related pair -/
structure PairOk (d : Dfa) (sigma : List Nat) (V : Cert) (q : Nat) (rs : List RE) : Prop where
  fin : d.validEnd q = RE.nullableSet rs
  edges : ∀ e, e ∈ d.edgesOf q → e.1 ∈ sigma
  step : ∀ a, a ∈ sigma →
    (∃ q' ps, d.matchType q a = some q' ∧ (q', ps) ∈ V ∧ RE.sameSet ps (RE.pdSet rs a) = true) ∨
    (d.matchType q a = none ∧ RE.pdSet rs a = [])

theorem isBisim_pair (d : Dfa) (sigma : List Nat) (V : Cert) (h : isBisim d sigma V = true)
    (q : Nat) (rs : List RE) (hmem : (q, rs) ∈ V) : PairOk d sigma V q rs := by
  unfold isBisim at h
  rw [List.all_eq_true] at h
  have h1 := h (q, rs) hmem
  simp only [Bool.and_eq_true, List.all_eq_true, beq_iff_eq] at h1
  obtain ⟨⟨hfin, hedges⟩, hstep⟩ := h1
  refine ⟨hfin, ?_, ?_⟩
  · intro e he
    have := hedges e he
    simpa using this
  · intro a ha
    have hs := hstep a ha
    cases hm : d.matchType q a with
    | some q' =>
      rw [hm] at hs
      simp only [List.any_eq_true, Bool.and_eq_true, beq_iff_eq] at hs
      obtain ⟨⟨p, ps⟩, hp, hpq, hsame⟩ := hs
      simp only at hpq hsame
      subst hpq
      exact Or.inl ⟨p, ps, rfl, hp, hsame⟩
    | none =>
      rw [hm] at hs
      simp only [List.isEmpty_iff] at hs
      exact Or.inr ⟨rfl, hs⟩

theorem matchType_none_of_not_mem (d : Dfa) (sigma : List Nat) (q a : Nat)
    (hedges : ∀ e, e ∈ d.edgesOf q → e.1 ∈ sigma) (ha : a ∉ sigma) : d.matchType q a = none := by
  unfold Dfa.matchType
  rw [Option.map_eq_none_iff, List.find?_eq_none]
  intro e he hea
  simp only [beq_iff_eq] at hea
  exact ha (hea ▸ hedges e he)

/-- one letter: either the automaton moves to a related pair, or both sides are stuck -/
theorem bisim_step (d : Dfa) (sigma : List Nat) (V : Cert) (h : isBisim d sigma V = true)
    (q : Nat) (rs : List RE) (hmem : (q, rs) ∈ V) (hs : SymsOk sigma rs) (a : Nat) :
    (∃ q' ps, d.matchType q a = some q' ∧ (q', ps) ∈ V ∧ SymsOk sigma ps ∧
        ∀ x, x ∈ ps ↔ x ∈ RE.pdSet rs a) ∨
    (d.matchType q a = none ∧ ∀ x, x ∉ RE.pdSet rs a) := by
  have hp := isBisim_pair d sigma V h q rs hmem
  by_cases ha : a ∈ sigma
  · rcases hp.step a ha with ⟨q', ps, hm, hv, hsame⟩ | ⟨hm, hnil⟩
    · refine Or.inl ⟨q', ps, hm, hv, ?_, sameSet_mem _ _ hsame⟩
      intro x hx
      exact symsOk_pdSet sigma rs a hs x ((sameSet_mem _ _ hsame x).1 hx)
    · refine Or.inr ⟨hm, ?_⟩
      intro x hx
      rw [hnil] at hx
      simp at hx
  · exact Or.inr ⟨matchType_none_of_not_mem d sigma q a hp.edges ha,
      pdSet_eq_nil_of_not_mem sigma rs a hs ha⟩

/-- acceptance from a related pair -/
theorem bisim_accepts (d : Dfa) (sigma : List Nat) (V : Cert) (h : isBisim d sigma V = true)
    (w : List Nat) : ∀ (q : Nat) (rs : List RE), (q, rs) ∈ V → SymsOk sigma rs →
    ((match d.run q w with | some q' => d.validEnd q' | none => false) = true ↔
      ∃ x, x ∈ rs ∧ w ∈ x.lang) := by
  induction w with
  | nil =>
    intro q rs hmem _
    have hp := isBisim_pair d sigma V h q rs hmem
    simp only [Dfa.run, hp.fin, nullableSet_iff]
  | cons a w ih =>
    intro q rs hmem hs
    rw [← pdSet_iff]
    rcases bisim_step d sigma V h q rs hmem hs a with ⟨q', ps, hm, hv, hsp, hsame⟩ | ⟨hm, hnil⟩
    · simp only [Dfa.run, hm]
      rw [ih q' ps hv hsp]
      constructor
      · rintro ⟨x, hx, hw⟩; exact ⟨x, (hsame x).1 hx, hw⟩
      · rintro ⟨x, hx, hw⟩; exact ⟨x, (hsame x).2 hx, hw⟩
    · simp only [Dfa.run, hm]
      constructor
      · intro hf; exact absurd hf (by simp)
      · rintro ⟨x, hx, _⟩; exact absurd hx (hnil x)

/-- liveness from a related pair -/
theorem bisim_live (d : Dfa) (sigma : List Nat) (V : Cert) (h : isBisim d sigma V = true)
    (hal : allAlive V = true) (w : List Nat) :
    ∀ (q : Nat) (rs : List RE), (q, rs) ∈ V → SymsOk sigma rs →
    ((d.run q w).isSome = true ↔ ∃ v x, x ∈ rs ∧ w ++ v ∈ x.lang) := by
  induction w with
  | nil =>
    intro q rs hmem _
    simp only [Dfa.run, Option.isSome_some, List.nil_append, true_iff]
    unfold allAlive at hal
    rw [List.all_eq_true] at hal
    have h1 := hal (q, rs) hmem
    simp only [Bool.not_eq_true', List.isEmpty_eq_false_iff] at h1
    obtain ⟨x, hx⟩ := List.exists_mem_of_ne_nil rs h1
    obtain ⟨v, hv, _⟩ := lang_nonempty x
    exact ⟨v, x, hx, hv⟩
  | cons a w ih =>
    intro q rs hmem hs
    have key : (∃ v x, x ∈ rs ∧ a :: w ++ v ∈ x.lang) ↔
        ∃ v x, x ∈ RE.pdSet rs a ∧ w ++ v ∈ x.lang := by
      constructor
      · rintro ⟨v, x, hx, hw⟩
        obtain ⟨y, hy, hyw⟩ := (pdSet_iff rs a (w ++ v)).2 ⟨x, hx, hw⟩
        exact ⟨v, y, hy, hyw⟩
      · rintro ⟨v, y, hy, hyw⟩
        obtain ⟨x, hx, hw⟩ := (pdSet_iff rs a (w ++ v)).1 ⟨y, hy, hyw⟩
        exact ⟨v, x, hx, hw⟩
    rw [key]
    rcases bisim_step d sigma V h q rs hmem hs a with ⟨q', ps, hm, hv, hsp, hsame⟩ | ⟨hm, hnil⟩
    · simp only [Dfa.run, hm]
      rw [ih q' ps hv hsp]
      constructor
      · rintro ⟨v, x, hx, hw⟩; exact ⟨v, x, (hsame x).1 hx, hw⟩
      · rintro ⟨v, x, hx, hw⟩; exact ⟨v, x, (hsame x).2 hx, hw⟩
    · simp only [Dfa.run, hm]
      constructor
      · intro hf; exact absurd hf (by simp)
      · rintro ⟨_, x, hx, _⟩; exact absurd hx (hnil x)

/-- what a passed `equivCheck` provides -/
theorem equivCheck_unpack (d : Dfa) (sigma : List Nat) (r : RE) (V : Cert)
    (h : equivCheck d sigma r V = true) :
    isBisim d sigma V = true ∧ allAlive V = true ∧
    ∃ rs, (0, rs) ∈ V ∧ SymsOk sigma rs ∧ ∀ x, x ∈ rs ↔ x = r := by
  unfold equivCheck at h
  simp only [Bool.and_eq_true, List.any_eq_true, List.all_eq_true, beq_iff_eq,
    List.contains_iff_mem] at h
  obtain ⟨⟨⟨⟨⟨q, rs⟩, hmem, hq, hsame⟩, hb⟩, hal⟩, hsyms⟩ := h
  simp only at hq hsame
  subst hq
  have hm : ∀ x, x ∈ rs ↔ x = r := fun x => by
    rw [sameSet_mem _ _ hsame x, List.mem_singleton]
  refine ⟨hb, hal, rs, hmem, ?_, hm⟩
  intro x hx b hb'
  rw [(hm x).1 hx] at hb'
  exact hsyms b hb'

/-- **soundness of the certificate**: if the check passes, the compiled automaton accepts exactly
    the sequences the expression matches (complete content) … -/
theorem equivCheck_accepts (d : Dfa) (sigma : List Nat) (r : RE) (V : Cert)
    (h : equivCheck d sigma r V = true) (w : List Nat) :
    d.accepts w = true ↔ w ∈ r.lang := by
  obtain ⟨hb, _, rs, hmem, hs, hm⟩ := equivCheck_unpack d sigma r V h
  have hacc : d.accepts w = true ↔ ∃ x, x ∈ rs ∧ w ∈ x.lang := by
    have hba := bisim_accepts d sigma V hb w 0 rs hmem hs
    unfold Dfa.accepts
    cases hrun : d.run 0 w with
    | some q' => rw [hrun] at hba; exact hba
    | none => rw [hrun] at hba; exact hba
  rw [hacc]
  constructor
  · rintro ⟨x, hx, hw⟩; rw [(hm x).1 hx] at hw; exact hw
  · intro hw; exact ⟨r, (hm r).2 rfl, hw⟩

/-- … and keeps a match state alive after a prefix exactly when the prefix can still be extended to
    a match (sequences of unbounded length: induction on `w`) -/
theorem equivCheck_live (d : Dfa) (sigma : List Nat) (r : RE) (V : Cert)
    (h : equivCheck d sigma r V = true) (w : List Nat) :
    (d.run 0 w).isSome = true ↔ ∃ v, w ++ v ∈ r.lang := by
  obtain ⟨hb, hal, rs, hmem, hs, hm⟩ := equivCheck_unpack d sigma r V h
  rw [bisim_live d sigma V hb hal w 0 rs hmem hs]
  constructor
  · rintro ⟨v, x, hx, hw⟩; rw [(hm x).1 hx] at hw; exact ⟨v, hw⟩
  · rintro ⟨v, hw⟩; exact ⟨v, r, (hm r).2 rfl, hw⟩

end PM
