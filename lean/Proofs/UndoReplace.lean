/-
  Proofs/UndoReplace.lean — the *success* half of undoing a replace step (C04) for flat replaces:
  the step's slice is closed and so is the slice it replaces (both ends of the range lie in the same
  parent, at child boundaries or inside text).  Then the inverse step — put the old closed slice
  back over the inserted content — takes only the flat paths of `replace` (two-way join at depth 0,
  or `cut ++ content ++ cut`), and what it rebuilds is the original content of a node of the valid
  original document.
-/
import Proofs.Undo
import Proofs.Reinsert
namespace PM

/-! ### scanning `outer` -/

/-- with no levels left above the slice `outer` never descends -/
theorem outer_extra_zero (S : Schema) (sl : Slice) : ∀ (rest : List Node) (ty : TypeId)
    (level : List Node) (f0 t0 idx f t : Nat),
    outer S sl ty level f0 t0 idx rest f t 0 = atLevel S sl ty level f0 t0 0
  | [], ty, level, f0, t0, idx, f, t => by unfold outer; rfl
  | n :: ns, ty, level, f0, t0, idx, f, t => by
    unfold outer
    split
    · rfl
    · split
      · exact outer_extra_zero S sl ns ty level f0 t0 (idx + 1) _ _
      · split
        · simp
        · rfl

/-- the scan skips children that end at or before `f` -/
theorem outer_scan_pre (S : Schema) (sl : Slice) (ty : TypeId) (L : List Node) (f0 t0 e : Nat) :
    ∀ (pre rest : List Node) (idx f t : Nat), fnormKids pre = true → (pre ≠ [] → f ≠ 0) →
    outer S sl ty L f0 t0 idx (pre ++ rest) (fsize pre + f) (fsize pre + t) e
      = outer S sl ty L f0 t0 (idx + pre.length) rest f t e
  | [], rest, idx, f, t, _, _ => by simp
  | p :: ps, rest, idx, f, t, hn, hf => by
    simp only [fnormKids_cons, Bool.and_eq_true] at hn
    have hpos := Node.size_pos_of_norm p hn.1
    have hf0 := hf (by simp)
    rw [List.cons_append]
    conv => lhs; unfold outer
    rw [if_neg (by simp; omega), if_pos (by simp; omega)]
    have e1 : fsize (p :: ps) + f - p.size = fsize ps + f := by simp; omega
    have e2 : fsize (p :: ps) + t - p.size = fsize ps + t := by simp; omega
    rw [e1, e2, outer_scan_pre S sl ty L f0 t0 e ps rest (idx + 1) f t hn.2 (fun _ => hf0)]
    congr 1
    simp; omega

/-! ### two-way join at depth 0 -/

theorem splitRight_flat_of_depth (R : List Node) (t : Nat) (ht : t ≤ fsize R)
    (ha : alignedAt R t = true) (hd : depthAt R t = 0) :
    ∃ rest, splitRight R t = some (.flat rest) := by
  obtain ⟨rs, hrs⟩ := splitRight_total R t ht ha
  cases rs with
  | flat rest => exact ⟨rest, hrs⟩
  | deep c i r =>
    obtain ⟨_, _, _, _, _, h2, _, _⟩ := splitRight_deep_facts R t c i r hrs
    omega

theorem twoWay_flat (S : Schema) : ∀ (L : List Node) (f : Nat) (R : List Node) (t : Nat),
    f ≤ fsize L → alignedAt L f = true → depthAt L f = 0 →
    (∃ rest, splitRight R t = some (.flat rest)) → ∃ X, twoWay S L f R t = .ok X
  | [], f, R, t, hf, _, _, ⟨rest, hs⟩ => by
    have : f = 0 := by simpa using hf
    subst this
    unfold twoWay; rw [hs]; simp
  | n :: ns, f, R, t, hf, ha, hd, ⟨rest, hs⟩ => by
    by_cases hf0 : f = 0
    · subst hf0
      unfold twoWay; rw [hs]; simp
    by_cases hle : n.size ≤ f
    · rw [alignedAt_skip n ns f hle] at ha
      rw [depthAt_skip n ns f hle] at hd
      obtain ⟨r, hr⟩ := twoWay_flat S ns (f - n.size) R t (by simp at hf; omega) ha hd ⟨rest, hs⟩
      unfold twoWay
      rw [if_neg hf0, if_pos hle, hr]
      exact ⟨_, rfl⟩
    cases n with
    | text s m =>
      simp only [Node.size_text, Nat.not_le] at hle
      rw [alignedAt_cons, if_neg hf0, if_neg (by simp; omega)] at ha
      simp only at ha
      unfold twoWay
      rw [if_neg hf0, if_neg (by simp; omega)]
      simp [ha, hs]
    | leaf ty a m => simp at hle; omega
    | elem ty a m kids =>
      simp only [Node.size_elem, Nat.not_le] at hle
      rw [depthAt_elem_cons _ _ _ _ _ _ (by omega) hle] at hd
      omega

/-! ### balance of closed content, depths in the result of a flat replace -/

theorem closed_toks {sl : Slice} (h0 : sl.openStart = 0) (h1 : sl.openEnd = 0) :
    sl.toks = ftoks sl.content := by
  simp only [Slice.toks, h0, h1, List.drop_zero, Nat.sub_zero]
  exact List.take_of_length_le (by rw [ftoks_length]; exact Nat.le_refl _)

/-- depths at both ends of the inserted closed content, when both ends of the replaced range were
    at depth `d` -/
theorem depth_after_closed {K K' : List Node} {f t : Nat} {X : List Tok}
    (hK' : ftoks K' = (ftoks K).take f ++ X ++ (ftoks K).drop t) (hX : balance X = 0)
    (hft : f ≤ t) (ht : t ≤ fsize K) :
    depthAt K' f = depthAt K f ∧ depthAt K' (f + X.length) = depthAt K f ∧
      fsize K' = f + X.length + (fsize K - t) := by
  have hlen : ((ftoks K).take f).length = f := by simp [ftoks_length]; omega
  have hsz : fsize K' = f + X.length + (fsize K - t) := by
    rw [← ftoks_length K', hK']; simp [ftoks_length]; omega
  have h1 := depthAt_balance K' f (by omega)
  have h2 := depthAt_balance K' (f + X.length) (by omega)
  have h3 := depthAt_balance K f (by omega)
  rw [hK', List.append_assoc, take_app_le _ _ _ (by omega), List.take_of_length_le (by omega)] at h1
  rw [hK', take_app_le _ _ _ (by simp [hlen]), take_app_ge _ _ _ (by omega), hlen,
    Nat.add_sub_cancel_left, List.take_of_length_le (Nat.le_refl _), balance_append, hX] at h2
  refine ⟨by omega, by omega, hsz⟩

/-! ### `atLevel`: undoing a flat replace at the level where it happened -/

theorem atLevel_undo_flat (S : Schema) (sl old : Slice) (ty : TypeId) (level level' : List Node)
    (f t e : Nat)
    (h : atLevel S sl ty level f t e = .ok level')
    (h0 : sl.openStart = 0) (h1 : sl.openEnd = 0) (hsn : fnorm sl.content = true)
    (hft : f ≤ t) (ht : t ≤ fsize level)
    (hdf : depthAt level f = 0) (hdt : depthAt level t = 0)
    (hvc : S.validContent ty level = true) (hn : fnorm level = true)
    (hold : (f = t ∧ old = Slice.empty) ∨
      (f < t ∧ ∃ c, fcut level f t = .ok c ∧ old = ⟨c, 0, 0⟩))
    (haf : alignedAt level' f = true) (hat : alignedAt level' (f + fsize sl.content) = true) :
    atLevel S old ty level' f (f + fsize sl.content) 0 = .ok level := by
  have hwf : sl.wf = true := by simp [Slice.wf, h0, h1]
  have htk := atLevel_toks hwf (by omega) h
  rw [closed_toks h0 h1] at htk
  have hn' := atLevel_norm hn hsn h
  have hlen : (ftoks sl.content).length = fsize sl.content := ftoks_length _
  obtain ⟨d1, d2, hsz⟩ := depth_after_closed htk (balance_ftoks _) hft ht
  rw [hlen] at d2 hsz
  rw [hdf] at d1 d2
  have hlt : ((ftoks level).take f).length = f := by simp [ftoks_length]; omega
  -- tokens of `level'` before `f` and after `f + |sl|`
  have hpre : (ftoks level').take f = (ftoks level).take f := by
    rw [htk, List.append_assoc, take_app_le _ _ _ (by omega), List.take_of_length_le (by omega)]
  have hsuf : (ftoks level').drop (f + fsize sl.content) = (ftoks level).drop t := by
    rw [htk, drop_app_ge _ _ _ (by simp [hlt, hlen])]
    simp [hlt, hlen]
  rcases hold with ⟨hft', rfl⟩ | ⟨hft', c, hc, rfl⟩
  · -- pure insertion undone by a deletion: flat two-way join
    subst hft'
    obtain ⟨rest, hrs⟩ := splitRight_flat_of_depth level' (f + fsize sl.content) (by omega) hat d2
    obtain ⟨X, hX⟩ := twoWay_flat S level' f level' (f + fsize sl.content) (by omega) haf d1
      ⟨rest, hrs⟩
    have hre : fromArray X = level :=
      twoWay_rebuild S hX (fnormKids_of_fnorm hn') (fnormKids_of_fnorm hn') hn
        (by rw [hpre, hsuf]; exact List.take_append_drop _ _)
    unfold atLevel
    simp only [Slice.empty, fsize_nil, if_true, hX, Except.map, hre, hvc]
  · -- put the old content back: cut ++ content ++ cut
    have hcl : fcutLoop level f t = .ok c := by
      rw [← fcut_eq_loop (fnormKids_of_fnorm hn) (by omega) ht (by omega)]; exact hc
    obtain ⟨hmid, _, _, _⟩ := mid_cut_facts hcl hft' ht hn
    have hsz0 : fsize c ≠ 0 := by
      have := congrArg List.length hmid
      simp [midToks, ftoks_length] at this
      omega
    obtain ⟨l, hl⟩ := fcut_total level' 0 f (by omega) (by omega) (alignedAt_zero _) haf hn'
    obtain ⟨r, hr⟩ := fcut_total level' (f + fsize sl.content) (fsize level') (by omega)
      (Nat.le_refl _) hat (alignedAt_fsize _) hn'
    have hX : fappend (fappend l c) r = level := by
      apply ftoks_inj _ _ (fappend_norm _ _ (fappend_norm _ _ (fcut_norm _ _ _ _ hn' hl)
        (fcut_norm _ _ _ _ hn hc)) (fcut_norm _ _ _ _ hn' hr)) hn
      rw [fappend_toks, fappend_toks, fcut_prefix_toks hl (by omega) d1, fcut_suffix_toks hr d2,
        fcut_toks level c f t hft' ht hc, ancestorOpens_nil_of_depth hdf, hdt, hpre, hsuf]
      simp only [List.nil_append, List.replicate_zero, List.append_nil]
      exact splice_mid _ _ _ (by omega) (by rw [ftoks_length]; exact ht)
    unfold atLevel
    simp only []
    rw [if_neg hsz0]
    simp only [d1, d2, decide_true, Bool.and_self, if_true, hl, hr, hX, hvc]

/-! ### `outer`: the inverse descends along the same path -/

/-- the forward step stopped at this level -/
theorem undo_here (S : Schema) (sl old : Slice)
    (h0 : sl.openStart = 0) (h1 : sl.openEnd = 0) (hsn : fnorm sl.content = true)
    (ty : TypeId) (level level' : List Node) (f0 t0 extra : Nat)
    (h : atLevel S sl ty level f0 t0 extra = .ok level') (he : extra = depthAt level f0)
    (hd0 : depthAt level f0 = 0) (hdt : depthAt level t0 = depthAt level f0) (hft : f0 ≤ t0)
    (ht : t0 ≤ fsize level)
    (hold : (f0 = t0 ∧ old = Slice.empty) ∨ (f0 < t0 ∧ sliceHere level f0 t0 = .ok old))
    (hvc : S.validContent ty level = true) (hn : fnorm level = true)
    (haf : alignedAt level' f0 = true) (hat : alignedAt level' (f0 + fsize sl.content) = true) :
    outer S old ty level' f0 (f0 + fsize sl.content) 0 level' f0 (f0 + fsize sl.content) extra
      = .ok level := by
  rw [he, hd0, outer_extra_zero]
  refine atLevel_undo_flat S sl old ty level level' f0 t0 extra h h0 h1 hsn hft ht hd0
    (by omega) hvc hn ?_ haf hat
  rcases hold with h | ⟨hlt, hs⟩
  · exact .inl h
  · obtain ⟨c, hc, ho⟩ := sliceHere_inv hs
    refine .inr ⟨hlt, c, hc, ?_⟩
    rw [ho, hd0]; congr 1; omega

theorem outer_undo_flat (S : Schema) (sl old : Slice)
    (h0 : sl.openStart = 0) (h1 : sl.openEnd = 0) (hsn : fnorm sl.content = true)
    (ho0 : old.openStart = 0) (ho1 : old.openEnd = 0) :
    ∀ (rest : List Node) (ty : TypeId) (level : List Node) (f0 t0 idx f t extra : Nat)
      (pre level' : List Node),
      level = pre ++ rest → idx = pre.length → f0 = fsize pre + f → t0 = fsize pre + t →
      f ≤ t → t ≤ fsize rest →
      outer S sl ty level f0 t0 idx rest f t extra = .ok level' →
      extra = depthAt level f0 → depthAt level t0 = depthAt level f0 →
      ((f = t ∧ old = Slice.empty) ∨ (f < t ∧ sliceScan level f0 t0 rest f t = .ok old)) →
      S.validContent ty level = true → S.checkKids level = true → fnorm level = true →
      alignedAt level' f0 = true → alignedAt level' (f0 + fsize sl.content) = true →
      outer S old ty level' f0 (f0 + fsize sl.content) 0 level' f0 (f0 + fsize sl.content) extra
        = .ok level
  | [] => by
    intro ty level f0 t0 idx f t extra pre level' hl hi hf0 ht0 hft ht h he hdt hold hvc hv hn haf hat
    have here := undo_here S sl old h0 h1 hsn
    have htz : t = 0 := by simpa using ht
    have hfz : f = 0 := by omega
    subst htz; subst hfz
    unfold outer at h
    have hd0 : depthAt level f0 = 0 := by
      rw [hl, hf0, depthAt_append_pre]; simp
    refine here ty level level' f0 t0 extra h he hd0 hdt (by omega) (by rw [hl, fsize_append]; simp; omega)
      ?_ hvc hn haf hat
    rcases hold with ⟨_, ho⟩ | ⟨hlt, _⟩
    · exact .inl ⟨by omega, ho⟩
    · omega
  | n :: ns => by
    intro ty level f0 t0 idx f t extra pre level' hl hi hf0 ht0 hft ht h he hdt hold hvc hv hn haf hat
    have here := undo_here S sl old h0 h1 hsn
    have ih := outer_undo_flat S sl old h0 h1 hsn ho0 ho1 ns
    simp only [fsize_cons] at ht
    have htl : t0 ≤ fsize level := by rw [hl, fsize_append]; simp; omega
    have hdf : depthAt level f0 = depthAt (n :: ns) f := by rw [hl, hf0, depthAt_append_pre]
    rw [sliceScan_cons] at hold
    unfold outer at h
    split at h
    · -- f = 0
      rename_i hfz
      refine here ty level level' f0 t0 extra h he (by rw [hdf, hfz]; simp) hdt (by omega) htl ?_ hvc hn haf hat
      rcases hold with ⟨he', ho⟩ | ⟨hlt, hs⟩
      · exact .inl ⟨by omega, ho⟩
      · rw [if_pos hfz] at hs; exact .inr ⟨by omega, hs⟩
    · rename_i hfz
      split at h
      · -- skip this child
        rename_i hle
        refine ih ty level f0 t0 (idx + 1) (f - n.size) (t - n.size) extra (pre ++ [n]) level'
          (by simp [hl]) (by simp [hi]) (by rw [fsize_append]; simp; omega)
          (by rw [fsize_append]; simp; omega) (by omega) (by omega) h he hdt ?_ hvc hv hn haf hat
        rcases hold with ⟨he', ho⟩ | ⟨hlt, hs⟩
        · exact .inl ⟨by omega, ho⟩
        · rw [if_neg hfz, if_pos hle] at hs; exact .inr ⟨by omega, hs⟩
      · rename_i hlt
        -- when the scan of the old slice stops here
        have stopHere : depthAt (n :: ns) f = 0 →
            (f < t → sliceScan level f0 t0 (n :: ns) f t = sliceHere level f0 t0) →
            atLevel S sl ty level f0 t0 extra = .ok level' →
            outer S old ty level' f0 (f0 + fsize sl.content) 0 level' f0 (f0 + fsize sl.content) extra
              = .ok level := by
          intro hd0 hsc h'
          refine here ty level level' f0 t0 extra h' he (by rw [hdf, hd0]) hdt (by omega) htl ?_ hvc hn haf hat
          rcases hold with ⟨he', ho⟩ | ⟨hlt', hs⟩
          · exact .inl ⟨by omega, ho⟩
          · rw [← sliceScan_cons, hsc hlt'] at hs; exact .inr ⟨by omega, hs⟩
        cases n with
        | text s m =>
          exact stopHere (depthAt_nonelem_cons _ ns f (by omega) (by simp))
            (fun _ => by rw [sliceScan_cons, if_neg hfz, if_neg hlt]) h
        | leaf ty' a m =>
          exact stopHere (depthAt_nonelem_cons _ ns f (by omega) (by simp))
            (fun _ => by rw [sliceScan_cons, if_neg hfz, if_neg hlt]) h
        | elem tyC aC mC kidsC =>
          simp only [Node.size_elem, Nat.not_le] at hlt
          have hdf' : depthAt level f0 = 1 + depthAt kidsC (f - 1) := by
            rw [hdf, depthAt_elem_cons _ _ _ _ _ _ (by omega) hlt]
          simp only at h
          split at h
          · -- descend
            rename_i hcond
            simp only [Bool.and_eq_true, decide_eq_true_eq, Node.size_elem] at hcond
            obtain ⟨hex, htsz⟩ := hcond
            split at h
            · rename_i inner hin
              simp only [Except.ok.injEq] at h
              subst hl
              obtain ⟨c1, c2, c3⟩ := child_facts hv hn
              have hdt' : depthAt (pre ++ Node.elem tyC aC mC kidsC :: ns) t0 = 1 + depthAt kidsC (t - 1) := by
                rw [ht0, depthAt_append_pre]
                by_cases htz : t = 0
                · omega
                · rw [depthAt_elem_cons _ _ _ _ _ _ (by omega) htsz]
              -- size of the rebuilt child content
              have hwf : sl.wf = true := by simp [Slice.wf, h0, h1]
              have htk := outer_toks S sl hwf kidsC tyC kidsC (f - 1) (t - 1) 0 (f - 1) (t - 1)
                (extra - 1) [] inner rfl rfl (by simp) (by simp) (by omega) (by omega) hin
              rw [closed_toks h0 h1] at htk
              have hsz : fsize inner = (f - 1) + fsize sl.content + (fsize kidsC - (t - 1)) := by
                rw [← ftoks_length inner, htk]; simp [ftoks_length]; omega
              have hlev : level' = pre ++ Node.elem tyC aC mC inner :: ns := by
                rw [← h, hi, set_mid]
              subst hlev
              -- alignment inside the rebuilt child
              have haf' : alignedAt inner (f - 1) = true := by
                rw [hf0, alignedAt_append_pre, alignedAt_cons, if_neg hfz, if_neg (by simp; omega)] at haf
                exact haf
              have hat' : alignedAt inner (f - 1 + fsize sl.content) = true := by
                have e : fsize pre + f + fsize sl.content = fsize pre + (f + fsize sl.content) := by omega
                rw [hf0, e, alignedAt_append_pre, alignedAt_cons, if_neg (by omega),
                  if_neg (by simp; omega)] at hat
                have e2 : f + fsize sl.content - 1 = f - 1 + fsize sl.content := by omega
                rw [← e2]; exact hat
              have hold' : (f - 1 = t - 1 ∧ old = Slice.empty) ∨
                  (f - 1 < t - 1 ∧ sliceScan kidsC (f - 1) (t - 1) kidsC (f - 1) (t - 1) = .ok old) := by
                rcases hold with ⟨he', ho⟩ | ⟨hlt', hs⟩
                · exact .inl ⟨by omega, ho⟩
                · rw [if_neg hfz, if_neg (by simp; omega)] at hs
                  simp only [Node.size_elem] at hs
                  rw [if_pos htsz] at hs
                  exact .inr ⟨by omega, hs⟩
              have IH := outer_undo_flat S sl old h0 h1 hsn ho0 ho1 kidsC tyC kidsC (f - 1) (t - 1) 0
                (f - 1) (t - 1) (extra - 1) [] inner rfl rfl (by simp) (by simp) (by omega) (by omega)
                hin (by omega) (by omega) hold' c1 c2 c3 haf' hat'
              -- the inverse scan
              have hpre : fnormKids pre = true := by
                have := fnormKids_of_fnorm hn
                rw [fnormKids_append] at this
                simp only [Bool.and_eq_true] at this
                exact this.1
              have e : f0 + fsize sl.content = fsize pre + (f + fsize sl.content) := by omega
              rw [e, hf0, outer_scan_pre S old ty _ _ _ extra pre _ 0 f (f + fsize sl.content) hpre
                (fun _ => hfz)]
              conv => lhs; unfold outer
              rw [if_neg hfz, if_neg (by simp; omega)]
              simp only [Node.size_elem]
              have hc' : (decide (extra ≠ 0) && decide (f + fsize sl.content < 2 + fsize inner)) = true := by
                simp only [Bool.and_eq_true, decide_eq_true_eq]
                exact ⟨hex, by omega⟩
              have e3 : f + fsize sl.content - 1 = f - 1 + fsize sl.content := by omega
              rw [if_pos hc', e3, IH]
              simp only [Nat.zero_add, set_mid]
            · simp at h
          · -- no descent although `f` is deep: impossible for a closed old slice
            rename_i hcond
            simp only [Bool.and_eq_true, decide_eq_true_eq, Node.size_elem, not_and] at hcond
            have hge : ¬ t < 2 + fsize kidsC := hcond (by omega)
            rcases hold with ⟨he', _⟩ | ⟨hlt', hs⟩
            · omega
            · rw [if_neg hfz, if_neg (by simp; omega)] at hs
              simp only [Node.size_elem] at hs
              rw [if_neg hge] at hs
              obtain ⟨c, _, ho⟩ := sliceHere_inv hs
              rw [ho] at ho0
              simp only at ho0
              omega

/-! ### `replaceKids` -/

/-- the depth guard `replaceKids` checks -/
theorem replaceKids_depths {S : Schema} {ty : TypeId} {kids : List Node} {f t : Nat} {sl : Slice}
    {kids' : List Node} (h : replaceKids S ty kids f t sl = .ok kids') :
    sl.openStart ≤ depthAt kids f ∧
      (depthAt kids f : Int) - sl.openStart = (depthAt kids t : Int) - sl.openEnd := by
  unfold replaceKids at h
  split at h
  · simp at h
  · simp only at h
    split at h
    · simp at h
    · split at h
      · simp at h
      · rename_i h1 h2
        exact ⟨by omega, by simpa using h2⟩

/-- **undo of a flat replace applies and restores the child list**: the step's slice is closed and
    the slice it replaced is closed. -/
theorem replaceKids_undo_closed (S : Schema) (ty : TypeId) (K K' : List Node) (f t : Nat)
    (sl old : Slice)
    (hvc : S.validContent ty K = true) (hv : S.checkKids K = true) (hn : fnorm K = true)
    (hsn : fnorm sl.content = true) (h0 : sl.openStart = 0) (h1 : sl.openEnd = 0)
    (hr : replaceKids S ty K f t sl = .ok K')
    (hs : sliceKids K f t = .ok old) (ho0 : old.openStart = 0) (ho1 : old.openEnd = 0)
    (haf : alignedAt K' f = true) (hat : alignedAt K' (f + fsize sl.content) = true) :
    replaceKids S ty K' f (f + fsize sl.content) old = .ok K := by
  obtain ⟨hft, ht, hwf, ho⟩ := replaceKids_ok hr
  obtain ⟨_, hdep⟩ := replaceKids_depths hr
  rw [h0, h1] at hdep
  have hdt : depthAt K t = depthAt K f := by omega
  rw [h0, Nat.sub_zero] at ho
  have hold : (f = t ∧ old = Slice.empty) ∨ (f < t ∧ sliceScan K f t K f t = .ok old) := by
    by_cases he : f = t
    · subst he
      simp [sliceKids] at hs
      exact .inl ⟨rfl, hs.symm⟩
    · have hs' := hs
      unfold sliceKids at hs'
      rw [if_neg he] at hs'
      split at hs'
      · simp at hs'
      · exact .inr ⟨by omega, hs'⟩
  have main := outer_undo_flat S sl old h0 h1 hsn ho0 ho1 K ty K f t 0 f t (depthAt K f) [] K'
    rfl rfl (by simp) (by simp) hft ht ho rfl hdt hold hvc hv hn haf hat
  have htk := replaceKids_toks S ty K f t sl K' hr
  rw [closed_toks h0 h1] at htk
  obtain ⟨d1, d2, hsz⟩ := depth_after_closed htk (balance_ftoks _) hft ht
  rw [ftoks_length] at d2 hsz
  have howf := (sliceKids_norm K f t old hn hs).2
  unfold replaceKids
  rw [if_neg (by simp [inRange]; omega)]
  simp only []
  rw [if_neg (by omega), if_neg (by omega), if_neg (by simp [howf]), ho0, Nat.sub_zero, d1]
  exact main

end PM
