/-
  Proofs/RoundTripSerM.lean — `serialize_fragment` on a list of inline nodes with marks emits the forest `build`.
-/
import Proofs.RoundTripSer
import Proofs.RoundTripForest
namespace PM.RoundTrip
open PM PM.Dom PM.FromDom PM.DomWalk

/-- name and attributes of the element a mark is emitted as (`[tag, attrs, 0]`) -/
def markSpec (D : ToDom) (m : Mark) : Option (List Char × List (List Char × Option (List Char))) :=
  match D.mark m true with
  | some (.el name sattrs [.hole]) => some (name, sattrs)
  | _ => none

mutual
def treeHtml (S : Schema) (D : ToDom) (univ : List Mark) : MTree → Html
  | .leaf n => htmlOf S D univ n
  | .wrap m kids =>
    match markSpec D m with
    | some (name, sattrs) => .el name (rAttrs sattrs) (forestHtml S D univ kids)
    | none => .text []
def forestHtml (S : Schema) (D : ToDom) (univ : List Mark) : List MTree → List Html
  | [] => []
  | t :: ts => treeHtml S D univ t :: forestHtml S D univ ts
end

theorem forestHtml_append (S : Schema) (D : ToDom) (univ : List Mark) : ∀ (a b : List MTree),
    forestHtml S D univ (a ++ b) = forestHtml S D univ a ++ forestHtml S D univ b
  | [], b => by simp [forestHtml]
  | t :: a, b => by simp [forestHtml, forestHtml_append S D univ a b]

def frameOf (S : Schema) (D : ToDom) (univ : List Mark) (x : Mark × List MTree) : Frame :=
  { mark := markId univ x.1,
    spec := (match markSpec D x.1 with
      | some (name, sattrs) => .el name sattrs [.hole]
      | none => .hole),
    outer := forestHtml S D univ x.2 }

/-- a mark the serializer emits as an element with a hole, spanning, known to the identity table -/
structure MOk (D : ToDom) (univ : List Mark) (m : Mark) : Prop where
  spec : ∃ name sattrs, D.mark m true = some (.el name sattrs [.hole])
  spanning : D.spanning m.ty = true
  mem : m ∈ univ

theorem markSpec_of (D : ToDom) (m : Mark) (name : List Char) (sattrs : List (List Char × Option (List Char)))
    (h : D.mark m true = some (.el name sattrs [.hole])) : markSpec D m = some (name, sattrs) := by
  unfold markSpec; rw [h]

theorem markId_inj (univ : List Mark) (a b : Mark) (ha : a ∈ univ) (hb : b ∈ univ) :
    (markId univ a == markId univ b) = decide (a = b) := by
  unfold markId
  by_cases h : a = b
  · subst h; simp
  · simp only [h, decide_false, beq_eq_false_iff_ne, ne_eq]
    intro he
    have h1 : univ.idxOf a < univ.length := List.idxOf_lt_length_iff.2 ha
    have h2 : univ.idxOf b < univ.length := List.idxOf_lt_length_iff.2 hb
    have e1 := List.getElem_idxOf h1
    have e2 := List.getElem_idxOf h2
    apply h
    rw [← e1, ← e2]
    congr 1

theorem closeFrames_sim (S : Schema) (D : ToDom) (univ : List Mark) : ∀ (n : Nat) (fs : FStack) (G : List MTree),
    (∀ x ∈ fs, MOk D univ x.1) →
    closeFrames n (fs.map (frameOf S D univ)) (forestHtml S D univ G) =
      ((popF n fs G).1.map (frameOf S D univ), forestHtml S D univ (popF n fs G).2)
  | 0, fs, G, _ => by simp [closeFrames, popF]
  | n + 1, [], G, _ => by simp [closeFrames, popF]
  | n + 1, (m, O) :: fs, G, h => by
    obtain ⟨name, sattrs, hsp⟩ := (h (m, O) List.mem_cons_self).spec
    have hms := markSpec_of D m name sattrs hsp
    rw [List.map_cons, closeFrames.eq_3, popF]
    simp only [frameOf, hms, renderSpec, if_true]
    have := closeFrames_sim S D univ n fs (O ++ [.wrap m G]) (fun x hx => h x (List.mem_cons_of_mem _ hx))
    rw [forestHtml_append] at this
    simp only [forestHtml, treeHtml, hms, rAttrs] at this
    exact this


theorem annMarks_cons (D : ToDom) (univ : List Mark) (m : Mark) (ms : Marks) :
    annMarks D univ true (m :: ms) = (markId univ m, D.mark m true, D.spanning m.ty) :: annMarks D univ true ms := rfl

theorem keepCount_sim (S : Schema) (D : ToDom) (univ : List Mark) : ∀ (act : FStack) (ms : Marks),
    (∀ x ∈ act, MOk D univ x.1) → (∀ m ∈ ms, MOk D univ m) →
    serFrag.keepCount (act.map (frameOf S D univ)) (annMarks D univ true ms) =
      (keepLen (act.map (·.1)) ms, annMarks D univ true (ms.drop (keepLen (act.map (·.1)) ms)))
  | act, [], _, _ => by
    rw [show annMarks D univ true [] = [] from rfl, serFrag.keepCount.eq_3 _ _ (by simp) (by simp)]
    cases act <;> simp [keepLen, annMarks]
  | [], m :: ms, _, hm => by
    obtain ⟨name, sattrs, hsp⟩ := (hm m List.mem_cons_self).spec
    rw [annMarks_cons, hsp, List.map_nil, serFrag.keepCount.eq_3 _ _ (by simp) (by simp)]
    simp [keepLen, annMarks_cons, hsp]
  | a :: act, m :: ms, ha, hm => by
    obtain ⟨name, sattrs, hsp⟩ := (hm m List.mem_cons_self).spec
    have hspan := (hm m List.mem_cons_self).spanning
    rw [annMarks_cons, hsp, List.map_cons, serFrag.keepCount.eq_1]
    have hid := markId_inj univ m a.1 (hm m List.mem_cons_self).mem (ha a List.mem_cons_self).mem
    simp only [frameOf, hid, hspan, Bool.and_true, List.map_cons, keepLen]
    by_cases he : m = a.1
    · simp only [he, decide_true, if_true]
      have ih := keepCount_sim S D univ act ms (fun x hx => ha x (List.mem_cons_of_mem _ hx))
        (fun x hx => hm x (List.mem_cons_of_mem _ hx))
      rw [ih]
      simp
    · simp [he, annMarks_cons, hsp, hspan]

/-- the loop of `serialize_fragment` that opens the remaining marks of a node -/
def openFrames (toAdd : List (Nat × Option Spec × Bool)) (st : List Frame) (cur : List Html) : List Frame × List Html :=
  toAdd.foldl (fun (acc : List Frame × List Html) (m : Nat × Option Spec × Bool) =>
    match m.2.1 with
    | some sp => ({ mark := m.1, spec := sp, outer := acc.2 } :: acc.1, [])
    | none => acc) (st, cur)

theorem serFrag_cons (marks : List (Nat × Option Spec × Bool)) (spec : Spec) (kids : List SNode) (rest : List SNode)
    (stack : List Frame) (cur : List Html) :
    serFrag (.mk marks spec kids :: rest) stack cur =
      serFrag rest
        (openFrames (serFrag.keepCount stack.reverse marks).2
          (closeFrames (stack.length - (serFrag.keepCount stack.reverse marks).1) stack cur).1
          (closeFrames (stack.length - (serFrag.keepCount stack.reverse marks).1) stack cur).2).1
        ((openFrames (serFrag.keepCount stack.reverse marks).2
          (closeFrames (stack.length - (serFrag.keepCount stack.reverse marks).1) stack cur).1
          (closeFrames (stack.length - (serFrag.keepCount stack.reverse marks).1) stack cur).2).2 ++
          [serNode (.mk marks spec kids)]) := by
  rw [serFrag.eq_2]
  rfl

theorem open_sim (S : Schema) (D : ToDom) (univ : List Mark) : ∀ (ms : Marks) (fs : FStack) (G : List MTree),
    (∀ m ∈ ms, MOk D univ m) →
    openFrames (annMarks D univ true ms) (fs.map (frameOf S D univ)) (forestHtml S D univ G) =
    ((openF ms fs G).1.map (frameOf S D univ), forestHtml S D univ (openF ms fs G).2)
  | [], fs, G, _ => by simp [annMarks, openF, openFrames]
  | m :: ms, fs, G, hm => by
    obtain ⟨name, sattrs, hsp⟩ := (hm m List.mem_cons_self).spec
    have hms := markSpec_of D m name sattrs hsp
    unfold openFrames
    rw [annMarks_cons, List.foldl_cons, openF]
    simp only [hsp]
    have ih := open_sim S D univ ms ((m, G) :: fs) [] (fun x hx => hm x (List.mem_cons_of_mem _ hx))
    unfold openFrames at ih
    simp only [List.map_cons, frameOf, hms, forestHtml] at ih
    exact ih

theorem popF_all : ∀ (fs : FStack) (G : List MTree), popF fs.length fs G = ([], closeF fs G)
  | [], G => rfl
  | (m, O) :: fs, G => by rw [List.length_cons, popF, popF_all fs, closeF]

theorem popF_mem : ∀ (n : Nat) (fs : FStack) (G : List MTree) (x : Mark × List MTree), x ∈ (popF n fs G).1 → x ∈ fs
  | 0, _, _, _, h => h
  | _ + 1, [], _, _, h => h
  | n + 1, (m, O) :: fs, G, x, h => by
    rw [popF] at h
    exact List.mem_cons_of_mem _ (popF_mem n fs _ x h)

theorem openF_mem : ∀ (ms : Marks) (fs : FStack) (G : List MTree) (x : Mark × List MTree), x ∈ (openF ms fs G).1 →
    x ∈ fs ∨ x.1 ∈ ms
  | [], _, _, _, h => .inl h
  | m :: ms, fs, G, x, h => by
    rw [openF] at h
    rcases openF_mem ms _ _ x h with h | h
    · rcases List.mem_cons.1 h with rfl | h
      · exact .inr List.mem_cons_self
      · exact .inl h
    · exact .inr (List.mem_cons_of_mem _ h)

/-- an inline child the serializer handles with marks: a text or an inline leaf, all marks emitted as elements -/
def InlOk (S : Schema) (D : ToDom) (univ : List Mark) (k : Node) : Prop :=
  (match k with
   | .text .. => True
   | .leaf t _ m => m = [] ∨ (S.nodeType t).isInline = true
   | .elem .. => False) ∧ ∀ m ∈ k.marks, MOk D univ m

theorem annotate_inl (S : Schema) (D : ToDom) (univ : List Mark) (k : Node) (h : InlOk S D univ k) :
    ∃ spec akids, annotate S D univ k = .mk (annMarks D univ true k.marks) spec akids := by
  cases k with
  | text s m => exact ⟨_, _, by rw [annotate]; rfl⟩
  | leaf t a m =>
    rcases h.1 with hm | hin
    · subst hm; exact ⟨_, _, by rw [annotate]; rfl⟩
    · exact ⟨_, _, by rw [annotate, hin]; rfl⟩
  | elem t a m kids => exact absurd h.1 (by simp)

/-- **`serialize_fragment` emits the forest `build`** -/
theorem serFrag_forest (S : Schema) (D : ToDom) (univ : List Mark) : ∀ (kids : List Node) (fs : FStack) (G : List MTree),
    (∀ k ∈ kids, InlOk S D univ k) → (∀ x ∈ fs, MOk D univ x.1) →
    serFrag (annotateList S D univ kids) (fs.map (frameOf S D univ)) (forestHtml S D univ G) =
      forestHtml S D univ (build kids fs G)
  | [], fs, G, _, hfs => by
    rw [annotateList, serFrag, List.length_map, closeFrames_sim S D univ fs.length fs G hfs, popF_all, build]
  | k :: rest, fs, G, hk, hfs => by
    have hk0 := hk k List.mem_cons_self
    obtain ⟨spec, akids, ha⟩ := annotate_inl S D univ k hk0
    rw [annotateList, ha, serFrag_cons, ← List.map_reverse,
      keepCount_sim S D univ fs.reverse k.marks (fun x hx => hfs x (List.mem_reverse.1 hx)) hk0.2]
    simp only [List.length_map]
    rw [show (fs.reverse.map (·.1)) = pathOf fs from rfl,
      closeFrames_sim S D univ _ fs G hfs]
    dsimp only
    rw [open_sim S D univ _ _ _ (fun m hm => hk0.2 m (List.mem_of_mem_drop hm)),
      ← ha, show serNode (annotate S D univ k) = htmlOf S D univ k from rfl]
    have : forestHtml S D univ (openF (k.marks.drop (keepLen (pathOf fs) k.marks))
        (popF (fs.length - keepLen (pathOf fs) k.marks) fs G).1 (popF (fs.length - keepLen (pathOf fs) k.marks) fs G).2).2 ++
        [htmlOf S D univ k] = forestHtml S D univ ((openF (k.marks.drop (keepLen (pathOf fs) k.marks))
        (popF (fs.length - keepLen (pathOf fs) k.marks) fs G).1 (popF (fs.length - keepLen (pathOf fs) k.marks) fs G).2).2 ++
        [MTree.leaf k]) := by
      rw [forestHtml_append]; simp [forestHtml, treeHtml]
    rw [this, serFrag_forest S D univ rest _ _ (fun x hx => hk x (List.mem_cons_of_mem _ hx))
      (fun x hx => by
        rcases openF_mem _ _ _ x hx with h | h
        · exact hfs x (popF_mem _ _ _ x h)
        · exact hk0.2 x.1 (List.mem_of_mem_drop h)), build]

end PM.RoundTrip
