/- Proofs/GapTailInsert.lean — `insert_remove` for the gap shape `TailPath`: a gap that starts at a child
   boundary or inside a text child and runs to the end of the content of the node it sits in can be put
   back by `insert_into` after `remove_range` removed it (schemas with `TextLoop`). -/
import Proofs.GapTailDef
import Proofs.TokValid
namespace PM
open PM

theorem TailPath.le {level : List Node} {F T : Nat} (h : TailPath level F T) :
    F ≤ T ∧ T ≤ fsize level := by
  induction h with
  | hereB hl hF hT => subst hl; subst hF; subst hT; simp only [fsize_append]; omega
  | hereT hl _ _ hF hT =>
    subst hl; subst hF; subst hT
    simp only [fsize_append, fsize_cons, Node.size_text, List.length_append]; omega
  | down hl hF hT _ ih => subst hl; simp only [fsize_append, fsize_cons, Node.size_elem]; omega

/-- the fit check behind a cut text child of valid content -/
theorem canReplace_text (S : Schema) (hts : TextLoop S) (p : TypeId) (l r : List Node)
    (s s1 s2 : List Nat) (m : Marks)
    (hv : S.validContent p (l ++ .text s m :: r) = true) :
    S.canReplace p (l ++ [.text s1 m]) (l.length + 1) (l.length + 1) (.text s2 m :: r) 0 (r.length + 1)
      = some true := by
  simp only [Schema.validContent, Bool.and_eq_true, Dfa.accepts] at hv
  obtain ⟨hacc, hmk⟩ := hv
  split at hacc
  · rename_i q hq
    have e : S.types (l ++ Node.text s m :: r) = S.types l ++ [S.textTy] ++ S.types r := by
      simp [Schema.types, Schema.tyOf, Node.tyOr]
    rw [e] at hq
    obtain ⟨q0, q1, h0, h1, h2⟩ := run_split hq
    rw [Dfa.run_singleton] at h1
    have h1' := hts p q0 q1 h1
    have hmG : ((Node.text s2 m :: r).all fun k => (S.nodeType p).allowsMarks k.marks) = true := by
      simp only [List.all_eq_true] at hmk ⊢
      intro x hx
      simp only [List.mem_cons] at hx
      rcases hx with hx | hx
      · subst hx
        exact hmk (Node.text s m) (by simp)
      · exact hmk x (by simp [hx])
    have hpre : (S.dfa p).run 0 (S.types ((l ++ [Node.text s1 m]).take (l.length + 1))) = some q1 := by
      have : (l ++ [Node.text s1 m]).take (l.length + 1) = l ++ [Node.text s1 m] := by
        apply List.take_of_length_le; simp
      rw [this]
      have e2 : S.types (l ++ [Node.text s1 m]) = S.types l ++ [S.textTy] := by
        simp [Schema.types, Schema.tyOf, Node.tyOr]
      rw [e2, Dfa.run_append, h0]
      simp only [Option.bind_some, Dfa.run_singleton, h1]
    have hmid : (S.dfa p).run q1 (S.types (Node.text s2 m :: r)) = some q := by
      have e3 : S.types (Node.text s2 m :: r) = S.textTy :: S.types r := by
        simp [Schema.types, Schema.tyOf, Node.tyOr]
      rw [e3, Dfa.run_cons, h1']
      simpa using h2
    have hdrop : (l ++ [Node.text s1 m]).drop (l.length + 1) = [] := by
      apply List.drop_of_length_le; simp
    have htake : ((Node.text s2 m :: r).take (r.length + 1)).drop 0 = Node.text s2 m :: r := by
      simp
    unfold Schema.canReplace Schema.contentMatchAt
    simp only [hpre, htake, hmid, hdrop]
    simp [Schema.types, Dfa.run, hacc, hmG]
  · simp at hacc

/-- inserting at the very end of a level -/
theorem insertInto_at_end (S : Schema) (G : List Node) (parent : Option TypeId) (L : List Node)
    (oa ob : Nat) (hn : fnorm L = true)
    (hcr : ∀ p, parent = some p → S.canReplace p L L.length L.length G 0 G.length = some true) :
    ∃ c, insertInto S G parent L (fsize L) 0 L (fsize L) oa ob = .ok (some c) := by
  have hscan := insertInto_scan_pre S G parent L (fsize L) oa ob L [] 0 0 (fnormKids_of_fnorm hn)
  simp only [List.append_nil, Nat.add_zero, Nat.zero_add] at hscan
  rw [hscan]
  unfold insertInto
  rw [if_pos rfl]
  obtain ⟨cr, hcr'⟩ := fcut_total L (fsize L) (fsize L) (Nat.le_refl _) (Nat.le_refl _)
    (alignedAt_fsize _) (alignedAt_fsize _) hn
  obtain ⟨cl, hcl⟩ := fcut_total L 0 (fsize L) (Nat.zero_le _) (Nat.le_refl _)
    (alignedAt_zero _) (alignedAt_fsize _) hn
  unfold flatInsert
  simp only [hcl, hcr']
  cases parent with
  | none => exact ⟨_, rfl⟩
  | some p =>
    simp only [hcr p rfl]
    exact ⟨_, rfl⟩

/-- removing everything from `F` to the end of a level leaves the first `F` tokens -/
theorem removeRange_tail {level level' : List Node} {F : Nat} (hF : F ≤ fsize level)
    (hn : fnorm level = true)
    (hrr : removeRange level F (fsize level) 0 level F (fsize level) = .ok level') :
    fnorm level' = true ∧ ftoks level' = (ftoks level).take F := by
  refine ⟨removeRange_norm level level F (fsize level) 0 F (fsize level) [] level' rfl rfl hn hrr, ?_⟩
  obtain ⟨h, _⟩ := removeRange_toks level level F (fsize level) 0 F (fsize level) [] level' rfl rfl
    (by simp) (by simp) hF hrr
  rw [h, List.drop_of_length_le (by rw [ftoks_length]; exact Nat.le_refl _), List.append_nil]

theorem fnorm_text_last {l : List Node} {s s' : List Nat} {m : Marks} (hs : s' ≠ [])
    (h : fnorm (l ++ [.text s m]) = true) : fnorm (l ++ [.text s' m]) = true := by
  simp only [fnorm, Bool.and_eq_true, fnormKids_append, chainOk_append, fnormKids_cons,
    Node.norm_text] at h ⊢
  refine ⟨⟨h.1.1, ?_⟩, ⟨h.2.1.1, by simp [chainOk]⟩, ?_⟩
  · cases s' with
    | nil => exact absurd rfl hs
    | cons => simp [fnormKids]
  · have := h.2.2
    simp only [List.head?_cons] at this ⊢
    rw [seamOk_sameKind_right (sameKind_text s s' m)]; exact this

theorem fnorm_text_head {r : List Node} {s s' : List Nat} {m : Marks} (hs : s' ≠ [])
    (h : fnorm (.text s m :: r) = true) : fnorm (.text s' m :: r) = true := by
  simp only [fnorm, Bool.and_eq_true, fnormKids_cons, Node.norm_text] at h ⊢
  refine ⟨⟨?_, h.1.2⟩, ?_⟩
  · cases s' with
    | nil => exact absurd rfl hs
    | cons => simp
  · rw [chainOk_cons_sameKind (sameKind_text s s' m)]; exact h.2

theorem insert_remove_tail (S : Schema) (hts : TextLoop S) (G : List Node) (hnG : fnorm G = true)
    {level : List Node} {F T : Nat} (h : TailPath level F T) :
    ∀ (level' : List Node) (parent : Option TypeId) (oa ob : Nat),
      removeRange level F T 0 level F T = .ok level' → fnorm level = true →
      openValid S oa ob level = true → (∀ p, parent = some p → S.validContent p level = true) →
      ftoks G = ((ftoks level).drop F).take (T - F) →
      ∃ c, insertInto S G parent level' F 0 level' F oa ob = .ok (some c) := by
  induction h with
  | @hereB level l r F T hl hF hT =>
    intro level' parent oa ob hrr hn _ hpar htk
    subst hl; subst hF; subst hT
    have hnl := fnorm_append_left hn
    have hnr := fnorm_append_right hn
    obtain ⟨hn', htk'⟩ := removeRange_tail (by rw [fsize_append]; omega) hn hrr
    have el : level' = l := by
      apply ftoks_inj _ _ hn' hnl
      rw [htk', ftoks_append]
      exact win_take _ _ _ (ftoks_length _)
    subst el
    have eG : G = r := by
      apply ftoks_inj _ _ hnG hnr
      rw [htk, ftoks_append, win_drop _ _ _ (ftoks_length _)]
      apply List.take_of_length_le
      rw [ftoks_length, fsize_append]; omega
    subst eG
    apply insertInto_at_end S G parent level' oa ob hnl
    intro p hp
    have := canReplace_mid S p level' G [] (by simpa using hpar p hp)
    simpa using this
  | @hereT level l r s1 s2 m F T hl hs1 hs2 hF hT =>
    intro level' parent oa ob hrr hn _ hpar htk
    subst hl; subst hF; subst hT
    have e1 : l ++ Node.text (s1 ++ s2) m :: r = (l ++ [Node.text (s1 ++ s2) m]) ++ r := by simp
    have hnl1 : fnorm (l ++ [Node.text s1 m]) = true :=
      fnorm_text_last hs1 (fnorm_append_left (e1 ▸ hn))
    have hnr2 : fnorm (Node.text s2 m :: r) = true := fnorm_text_head hs2 (fnorm_append_right hn)
    have hsz : fsize (l ++ Node.text (s1 ++ s2) m :: r) = fsize l + (s1.length + s2.length + fsize r) := by
      simp only [fsize_append, fsize_cons, Node.size_text, List.length_append]
    have htoks : ftoks (l ++ Node.text (s1 ++ s2) m :: r)
        = ftoks (l ++ [Node.text s1 m]) ++ ftoks (Node.text s2 m :: r) := by
      simp only [ftoks_append, ftoks_cons, Node.toks_text, List.map_append, ftoks_nil,
        List.append_nil, List.append_assoc]
    have hlen1 : (ftoks (l ++ [Node.text s1 m])).length = fsize l + s1.length := by
      rw [ftoks_length]; simp [fsize_append]
    obtain ⟨hn', htk'⟩ := removeRange_tail (by rw [hsz]; omega) hn hrr
    have el : level' = l ++ [Node.text s1 m] := by
      apply ftoks_inj _ _ hn' hnl1
      rw [htk', htoks]
      exact win_take _ _ _ hlen1
    subst el
    have eG : G = Node.text s2 m :: r := by
      apply ftoks_inj _ _ hnG hnr2
      rw [htk, htoks, win_drop _ _ _ hlen1]
      apply List.take_of_length_le
      rw [ftoks_length, hsz]; simp only [fsize_cons, Node.size_text]; omega
    subst eG
    have hFsz : fsize l + s1.length = fsize (l ++ [Node.text s1 m]) := by simp [fsize_append]
    rw [hFsz]
    apply insertInto_at_end S _ parent _ oa ob hnl1
    intro p hp
    have := canReplace_text S hts p l r (s1 ++ s2) s1 s2 m (hpar p hp)
    simpa using this
  | @down level pre ns k ty a m F T F' T' hl hF hT hk ih =>
    intro level' parent oa ob hrr hn hov hpar htk
    subst hl
    obtain ⟨hft', ht'⟩ := hk.le
    have hpre := fnormKids_append_left hn
    have hnk := fnorm_child hn
    -- what `remove_range` did
    have hscan := removeRange_scan_pre (pre ++ Node.elem ty a m k :: ns) F T pre
      (Node.elem ty a m k :: ns) 0 (1 + F') (1 + T') hpre
    rw [← Nat.add_assoc, ← Nat.add_assoc, ← hF, ← hT] at hscan
    rw [hscan] at hrr
    unfold removeRange at hrr
    rw [if_neg (by omega), if_neg (by simp; omega)] at hrr
    simp only [Node.size_elem, Nat.add_sub_cancel_left] at hrr
    rw [if_pos (by omega)] at hrr
    cases hin : removeRange k F' T' 0 k F' T' with
    | error e => rw [hin] at hrr; simp at hrr
    | ok inner =>
      rw [hin] at hrr
      simp only [Except.ok.injEq] at hrr
      rw [Nat.zero_add, set_mid] at hrr
      subst hrr
      obtain ⟨hitk, _⟩ := removeRange_toks k k F' T' 0 F' T' [] inner rfl rfl (by simp) (by simp) hft' hin
      have hisz : F' ≤ fsize inner := by
        have := congrArg List.length hitk
        simp only [List.length_append, List.length_take, List.length_drop, ftoks_length] at this
        omega
      obtain ⟨hovk, hvk⟩ := openValid_child S ty a m k ns oa ob pre hov
      -- the inner call
      have hS : (decide (0 < oa) && (0 + pre.length == 0)) = decide (0 < oa ∧ pre = []) := by
        by_cases h1 : 0 < oa <;> cases pre <;> simp [h1]
      have hE : (decide (0 < ob) && (0 + pre.length == (pre ++ Node.elem ty a m inner :: ns).length - 1))
          = decide (0 < ob ∧ ns = []) := by
        by_cases h1 : 0 < ob <;> cases ns <;> simp [h1] <;> omega
      obtain ⟨c, hc⟩ := ih inner
        (if (decide (0 < oa ∧ pre = []) || decide (0 < ob ∧ ns = [])) = true then none else some ty)
        (if 0 < oa ∧ pre = [] then oa - 1 else 0) (if 0 < ob ∧ ns = [] then ob - 1 else 0)
        hin hnk hovk
        (by
          intro p hp
          by_cases h1 : 0 < oa ∧ pre = []
          · simp [h1] at hp
          · by_cases h2 : 0 < ob ∧ ns = []
            · simp [h2] at hp
            · simp [h1, h2] at hp
              subst hp
              exact hvk h1 h2)
        (by rw [htk, hF, hT, show fsize pre + 1 + T' - (fsize pre + 1 + F') = T' - F' by omega]
            exact window_elem pre ty a m k ns F' T' hft' ht')
      -- what `insert_into` does
      have hscan2 := insertInto_scan_pre S G parent (pre ++ Node.elem ty a m inner :: ns) F oa ob pre
        (Node.elem ty a m inner :: ns) 0 (1 + F') hpre
      rw [← Nat.add_assoc, ← hF] at hscan2
      rw [hscan2]
      unfold insertInto
      rw [if_neg (by omega), if_neg (by simp; omega)]
      simp only [Nat.add_sub_cancel_left, hS, hE]
      have hoa : (if decide (0 < oa ∧ pre = []) = true then oa - 1 else 0)
          = (if 0 < oa ∧ pre = [] then oa - 1 else 0) := by
        by_cases h1 : 0 < oa ∧ pre = [] <;> simp [h1]
      have hob : (if decide (0 < ob ∧ ns = []) = true then ob - 1 else 0)
          = (if 0 < ob ∧ ns = [] then ob - 1 else 0) := by
        by_cases h1 : 0 < ob ∧ ns = [] <;> simp [h1]
      rw [hoa, hob, hc]
      exact ⟨_, rfl⟩

end PM
