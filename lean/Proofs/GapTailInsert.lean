/- Proofs/GapTailInsert.lean — helper lemmas about the gap shape `TailPath` (a gap that starts at a child
   boundary or inside a text child and runs to the end of the content of the node it sits in). -/
import Proofs.GapTailDef
import Proofs.TokValid
namespace PM
open PM

theorem TailPath.le {level : List Node} {F T : Nat} (h : TailPath level F T) :
    F ≤ T ∧ T ≤ fsize level := by
  induction h with
  | hereB hl hF hT => subst hl; subst hF; subst hT; simp only [fsize_append]; omega
  | hereT hl _ _ hF hT =>
    subst hl; subst hF; subst hT
    simp only [fsize_append, fsize_cons, Node.size_text, List.length_append]; omega
  | down hl hF hT _ ih => subst hl; simp only [fsize_append, fsize_cons, Node.size_elem]; omega

/-- the fit check behind a cut text child of valid content -/
theorem canReplace_text (S : Schema) (hts : TextLoop S) (p : TypeId) (l r : List Node)
    (s s1 s2 : List Nat) (m : Marks)
    (hv : S.validContent p (l ++ .text s m :: r) = true) :
    S.canReplace p (l ++ [.text s1 m]) (l.length + 1) (l.length + 1) (.text s2 m :: r) 0 (r.length + 1)
      = some true := by
  simp only [Schema.validContent, Bool.and_eq_true, Dfa.accepts] at hv
  obtain ⟨hacc, hmk⟩ := hv
  split at hacc
  · rename_i q hq
    have e : S.types (l ++ Node.text s m :: r) = S.types l ++ [S.textTy] ++ S.types r := by
      simp [Schema.types, Schema.tyOf, Node.tyOr]
    rw [e] at hq
    obtain ⟨q0, q1, h0, h1, h2⟩ := run_split hq
    rw [Dfa.run_singleton] at h1
    have h1' := hts p q0 q1 h1
    have hmG : ((Node.text s2 m :: r).all fun k => (S.nodeType p).allowsMarks k.marks) = true := by
      simp only [List.all_eq_true] at hmk ⊢
      intro x hx
      simp only [List.mem_cons] at hx
      rcases hx with hx | hx
      · subst hx
        exact hmk (Node.text s m) (by simp)
      · exact hmk x (by simp [hx])
    have hpre : (S.dfa p).run 0 (S.types ((l ++ [Node.text s1 m]).take (l.length + 1))) = some q1 := by
      have : (l ++ [Node.text s1 m]).take (l.length + 1) = l ++ [Node.text s1 m] := by
        apply List.take_of_length_le; simp
      rw [this]
      have e2 : S.types (l ++ [Node.text s1 m]) = S.types l ++ [S.textTy] := by
        simp [Schema.types, Schema.tyOf, Node.tyOr]
      rw [e2, Dfa.run_append, h0]
      simp only [Option.bind_some, Dfa.run_singleton, h1]
    have hmid : (S.dfa p).run q1 (S.types (Node.text s2 m :: r)) = some q := by
      have e3 : S.types (Node.text s2 m :: r) = S.textTy :: S.types r := by
        simp [Schema.types, Schema.tyOf, Node.tyOr]
      rw [e3, Dfa.run_cons, h1']
      simpa using h2
    have hdrop : (l ++ [Node.text s1 m]).drop (l.length + 1) = [] := by
      apply List.drop_of_length_le; simp
    have htake : ((Node.text s2 m :: r).take (r.length + 1)).drop 0 = Node.text s2 m :: r := by
      simp
    unfold Schema.canReplace Schema.contentMatchAt
    simp only [hpre, htake, hmid, hdrop]
    simp [Schema.types, Dfa.run, hacc, hmG]
  · simp at hacc

/-- removing everything from `F` to the end of a level leaves the first `F` tokens -/
theorem removeRange_tail {level level' : List Node} {F : Nat} (hF : F ≤ fsize level)
    (hn : fnorm level = true)
    (hrr : removeRange level F (fsize level) 0 level F (fsize level) = .ok level') :
    fnorm level' = true ∧ ftoks level' = (ftoks level).take F := by
  refine ⟨removeRange_norm level level F (fsize level) 0 F (fsize level) [] level' rfl rfl hn hrr, ?_⟩
  obtain ⟨h, _⟩ := removeRange_toks level level F (fsize level) 0 F (fsize level) [] level' rfl rfl
    (by simp) (by simp) hF hrr
  rw [h, List.drop_of_length_le (by rw [ftoks_length]; exact Nat.le_refl _), List.append_nil]

theorem fnorm_text_last {l : List Node} {s s' : List Nat} {m : Marks} (hs : s' ≠ [])
    (h : fnorm (l ++ [.text s m]) = true) : fnorm (l ++ [.text s' m]) = true := by
  simp only [fnorm, Bool.and_eq_true, fnormKids_append, chainOk_append, fnormKids_cons,
    Node.norm_text] at h ⊢
  refine ⟨⟨h.1.1, ?_⟩, ⟨h.2.1.1, by simp [chainOk]⟩, ?_⟩
  · cases s' with
    | nil => exact absurd rfl hs
    | cons => simp [fnormKids]
  · have := h.2.2
    simp only [List.head?_cons] at this ⊢
    rw [seamOk_sameKind_right (sameKind_text s s' m)]; exact this

theorem fnorm_text_head {r : List Node} {s s' : List Nat} {m : Marks} (hs : s' ≠ [])
    (h : fnorm (.text s m :: r) = true) : fnorm (.text s' m :: r) = true := by
  simp only [fnorm, Bool.and_eq_true, fnormKids_cons, Node.norm_text] at h ⊢
  refine ⟨⟨?_, h.1.2⟩, ?_⟩
  · cases s' with
    | nil => exact absurd rfl hs
    | cons => simp
  · rw [chainOk_cons_sameKind (sameKind_text s s' m)]; exact h.2

/- `insert_remove_tail` (the gap shape `TailPath` is put back, schemas with `TextLoop`) stood here while `insert_into`
   tested `can_replace` at the child index of the insertion point.  Since the repair of `insert_into` (it validates the
   content it built) the general `insert_remove_any` of Proofs/GapBack.lean covers every gap shape without a schema
   condition; `gapFitsBack_of_tail` (Proofs/GapTailFits.lean) is proved from it. -/

end PM
