/- Proofs/FitAround.lean — the replace-around answers of `replace_step` for a **deletion**: `insert = 0` and the gap is
   `[to, to.end())` (`delete_around_shape`); inserting valid closed nodes at position 0 of a valid payload — at the start
   of the innermost node of its open start spine — keeps it a valid payload (`insertAt_zero_openValid`); the gap
   `[to, to.end())` of a valid document is a closed slice of valid nodes (`gap_to_end_valid`).  Together:
   `C01.PayloadValid` of such a step. -/
import Proofs.FitPayload
import Proofs.FlatInsertCore
set_option linter.unusedVariables false
namespace PM

/-! ### the shape of a deletion's replace-around answer -/

theorem delete_around_shape (S : Schema) (doc : Node) (f t : Nat) (hv : S.checkNode doc = true)
    (F T G1 G2 : Nat) (sl : Slice) (ins : Nat) (b : Bool)
    (h : replaceStep S doc f t Slice.empty = .ok (some (.replaceAround F T G1 G2 sl ins b))) :
    ins = 0 ∧ b = false ∧ ∃ rt, doc.resolve t = some rt ∧ G1 = rt.pos ∧ G2 = rt.end_ rt.depth := by
  unfold replaceStep at h
  split at h
  · simp [pure, Except.pure] at h
  · split at h
    · rename_i rf rt hf ht
      split at h
      · simp [throw, throwThe, MonadExceptOf.throw] at h
      · have := pure_ok h
        simp at this
      · obtain ⟨st0, h0, hu, _, hlen, _, hsz⟩ := fitInit_ok S hf hv Slice.empty
        unfold fitterFit at h
        rw [FM.bind_eq h0, FM.bind_eq (fitLoop_empty S _ st0 hu)] at h
        obtain ⟨mi, _, h⟩ := FM.bind_ok h
        simp only at h
        obtain ⟨target, _, h⟩ := FM.bind_ok h
        obtain ⟨c, _, h⟩ := FM.bind_ok h
        cases c with
        | none => simp [pure, Except.pure] at h
        | some c =>
          simp only at h
          unfold fitEmit at h
          simp only at h
          cases mi with
          | none =>
            simp only at h
            split at h
            · have := pure_ok h
              simp at this
            · simp [pure, Except.pure] at h
          | some p =>
            simp only at h
            split at h
            · simp [throw, throwThe, MonadExceptOf.throw] at h
            · have := pure_ok h
              simp only [Option.some.injEq, Step.replaceAround.injEq] at this
              obtain ⟨_, _, e3, e4, _, e6, e7⟩ := this
              refine ⟨?_, e7.symm, rt, ht, e3.symm, e4.symm⟩
              rw [← e6, hlen, hsz]
              simp only [Nat.add_sub_cancel]
              omega
    · simp [throw, throwThe, MonadExceptOf.throw] at h

/-! ### inserting at position 0 of a valid payload -/

theorem rightOpenValid_succ_last (S : Schema) (b : Nat) : ∀ (l : List Node), rightOpenValid S (b + 1) l = true →
    ∃ init t a m k, l = init ++ [.elem t a m k] ∧ S.checkKids init = true ∧ canonicalMarks S m = true ∧
      rightOpenValid S b k = true
  | [], h => by simp [rightOpenValid] at h
  | [n], h => by
    cases n with
    | elem t a m k =>
      simp only [rightOpenValid, Bool.and_eq_true] at h
      exact ⟨[], t, a, m, k, rfl, by simp, h.1, h.2⟩
    | text s m => simp [rightOpenValid] at h
    | leaf t a m => simp [rightOpenValid] at h
  | n :: n' :: rest, h => by
    simp only [rightOpenValid, Bool.and_eq_true] at h
    obtain ⟨init, t, a, m, k, e, h1, h2, h3⟩ := rightOpenValid_succ_last S b (n' :: rest) h.2
    exact ⟨n :: init, t, a, m, k, by rw [e]; rfl, by simp [h.1, h1], h2, h3⟩

/-- valid closed nodes in front of content that is valid up to its open end -/
theorem rightOpenValid_fappend_left (S : Schema) (ob : Nat) (Y level : List Node) (hY : S.checkKids Y = true)
    (h : rightOpenValid S ob level = true) : rightOpenValid S ob (fappend Y level) = true := by
  cases ob with
  | zero =>
    simp only [rightOpenValid] at h ⊢
    exact fappend_checkKids S Y level hY h
  | succ b =>
    obtain ⟨init, t, a, m, k, e, h1, h2, h3⟩ := rightOpenValid_succ_last S b level h
    subst e
    unfold fappend
    cases init with
    | nil =>
      simp only [List.nil_append]
      split
      · exact h
      · rw [addNode_elem, List.append_nil, rightOpenValid_snoc]
        simp [hY, h2, h3]
    | cons c init' =>
      simp only [List.cons_append]
      split
      · exact h
      · simp only [checkKids_cons, Bool.and_eq_true] at h1
        rw [← List.append_assoc, rightOpenValid_snoc, checkKids_append]
        simp [addNode_checkKids S Y c hY h1.1, h1.2, h2, h3]

theorem fcut_zero_zero (level : List Node) : fcut level 0 0 = .ok [] ∨ (fcut level 0 0 = .ok level ∧ fsize level = 0) := by
  unfold fcut
  by_cases h : fsize level = 0
  · right
    simp [h]
  · left
    rw [if_neg (by simp; omega), if_pos (Nat.le_refl _)]

theorem fcut_zero_full (level : List Node) : fcut level 0 (fsize level) = .ok level := by
  simp [fcut]

theorem rightOpenValid_succ_size (S : Schema) (b : Nat) (l : List Node) (h : rightOpenValid S (b + 1) l = true) :
    2 ≤ fsize l := by
  obtain ⟨init, t, a, m, k, e, _⟩ := rightOpenValid_succ_last S b l h
  subst e
  simp [fsize_append]
  omega

/-- the flat case: the nodes go in front of the whole level -/
theorem flatInsert_front_valid (S : Schema) (gap : List Node) (hg : S.checkKids gap = true) (ob : Nat)
    (level c : List Node) (hl : rightOpenValid S ob level = true)
    (h : flatInsert S gap none level 0 0 = .ok (some c)) : rightOpenValid S ob c = true := by
  unfold flatInsert at h
  simp only [fcut_zero_full] at h
  rcases fcut_zero_zero level with h0 | ⟨h0, hsz⟩
  · rw [h0] at h
    simp only [Except.ok.injEq, Option.some.injEq] at h
    subst h
    rw [fappend_nil_left]
    exact rightOpenValid_fappend_left S ob gap level hg hl
  · rw [h0] at h
    simp only [Except.ok.injEq, Option.some.injEq] at h
    subst h
    cases ob with
    | zero =>
      simp only [rightOpenValid] at hl
      exact rightOpenValid_fappend_left S 0 _ level (fappend_checkKids S level gap hl hg) (by simpa [rightOpenValid] using hl)
    | succ b =>
      have := rightOpenValid_succ_size S b level hl
      omega

theorem insertInto_zero_openValid (S : Schema) (gap : List Node) (hg : S.checkKids gap = true) :
    ∀ (oa ob : Nat) (level c : List Node), oa ≤ spineL level → openValid S oa ob level = true →
    insertInto S gap none level oa 0 level oa oa ob = .ok (some c) → openValid S oa ob c = true
  | 0, ob, level, c, _, hv, h => by
    rw [openValid_zero_left] at hv ⊢
    have hf : flatInsert S gap none level 0 0 = .ok (some c) := by
      unfold insertInto at h
      cases level with
      | nil => simpa using h
      | cons n ns => simpa using h
    exact flatInsert_front_valid S gap hg ob level c hv hf
  | oa + 1, ob, level, c, hsp, hv, h => by
    cases level with
    | nil => simp [spineL] at hsp
    | cons n ns =>
      cases n with
      | text s m => simp [spineL] at hsp
      | leaf t a m => simp [spineL] at hsp
      | elem ty a m kids =>
        simp only [spineL_elem_cons] at hsp
        have hk : oa ≤ spineL kids := by omega
        have hsz := spineL_le kids
        unfold insertInto at h
        rw [if_neg (by omega), if_neg (by simp only [Node.size_elem]; omega)] at h
        simp only [Nat.add_sub_cancel, Nat.zero_lt_succ, decide_true, beq_self_eq_true, Bool.and_self,
          Bool.true_or, if_true] at h
        split at h
        · rename_i inner hin
          simp only [Except.ok.injEq, Option.some.injEq] at h
          subst h
          simp only [List.set_cons_zero]
          cases ns with
          | nil =>
            simp only [List.length_singleton, Nat.sub_self, beq_self_eq_true, Bool.and_true] at hin
            cases ob with
            | zero =>
              simp only [Nat.lt_irrefl, decide_false, Bool.false_eq_true, if_false] at hin
              simp only [openValid, leftOpenValid, Bool.and_eq_true] at hv ⊢
              have ih := insertInto_zero_openValid S gap hg oa 0 kids inner hk
                (by rw [openValid_zero_right]; exact hv.1.2) hin
              rw [openValid_zero_right] at ih
              exact ⟨⟨hv.1.1, ih⟩, hv.2⟩
            | succ b =>
              simp only [Nat.zero_lt_succ, decide_true, if_true, Nat.add_sub_cancel] at hin
              simp only [openValid, Bool.and_eq_true] at hv ⊢
              exact ⟨hv.1, insertInto_zero_openValid S gap hg oa b kids inner hk hv.2 hin⟩
          | cons q qs =>
            have hne : ((0 : Nat) == (Node.elem ty a m kids :: q :: qs).length - 1) = false := by simp
            simp only [hne, Bool.and_false, Bool.false_eq_true, if_false] at hin
            cases ob with
            | zero =>
              simp only [openValid, leftOpenValid, Bool.and_eq_true] at hv ⊢
              have ih := insertInto_zero_openValid S gap hg oa 0 kids inner hk
                (by rw [openValid_zero_right]; exact hv.1.2) hin
              rw [openValid_zero_right] at ih
              exact ⟨⟨hv.1.1, ih⟩, hv.2⟩
            | succ b =>
              simp only [openValid, Bool.and_eq_true] at hv ⊢
              have ih := insertInto_zero_openValid S gap hg oa 0 kids inner hk
                (by rw [openValid_zero_right]; exact hv.1.2) hin
              rw [openValid_zero_right] at ih
              exact ⟨⟨hv.1.1, ih⟩, hv.2⟩
        · simp at h
        · simp at h

/-- **`Slice.insert_at(0, gap)` keeps payload validity** when `gap` consists of valid closed nodes -/
theorem insertAt_zero_openValid (S : Schema) (sl ins : Slice) (gap : List Node) (hg : S.checkKids gap = true)
    (hwf : sl.openStart ≤ spineL sl.content) (hv : openValid S sl.openStart sl.openEnd sl.content = true)
    (h : sl.insertAt S 0 gap = .ok (some ins)) : openValid S ins.openStart ins.openEnd ins.content = true := by
  rw [insertAt_of_le (insertAt_ok h).1] at h
  unfold Slice.insertAtIn at h
  simp only [Nat.zero_add] at h
  split at h
  · rename_i c hc
    simp only [Except.ok.injEq, Option.some.injEq] at h
    subst h
    exact insertInto_zero_openValid S gap hg _ _ _ c hwf hv hc
  · simp at h
  · simp at h

/-! ### the gap `[to, to.end())` of a valid document is a closed slice of valid nodes -/

/-- the prefix balance inside the content window of the parent: the balance at the window's start plus the
    depth inside the parent's content -/
theorem balance_in_window {doc : Node} {t : Nat} {rt : RPos} (R : Resolved doc t rt) (j : Nat)
    (hj : j ≤ fsize (rt.node rt.depth).kids) :
    balance ((ftoks doc.kids).take (rt.start rt.depth + j)) =
      balance ((ftoks doc.kids).take (rt.start rt.depth)) + (depthAt (rt.node rt.depth).kids j : Int) := by
  have hw := R.window_kids rt.depth (Nat.le_refl _)
  have h1 : ((ftoks doc.kids).drop (rt.start rt.depth)).take j = (ftoks (rt.node rt.depth).kids).take j := by
    rw [← hw, List.take_take, Nat.min_eq_left hj]
  rw [List.take_add, balance_append, h1, depthAt_balance _ _ hj]

theorem parent_offset_flat {doc : Node} {t : Nat} {rt : RPos} (R : Resolved doc t rt) :
    depthAt (rt.node rt.depth).kids (t - rt.start rt.depth) = 0 := by
  have E := R.entry rt.depth (Nat.le_refl _)
  have hpe : (rt.entry rt.depth).pos = rt.start rt.depth + fsize ((rt.node rt.depth).kids.take (rt.index rt.depth)) :=
    E.pos_eq
  have hle := E.pos_le
  have hsplit : (rt.node rt.depth).kids =
      (rt.node rt.depth).kids.take (rt.index rt.depth) ++ (rt.node rt.depth).kids.drop (rt.index rt.depth) :=
    (List.take_append_drop _ _).symm
  have hoff : t - rt.start rt.depth =
      fsize ((rt.node rt.depth).kids.take (rt.index rt.depth)) + (t - (rt.entry rt.depth).pos) := by omega
  rw [hoff]
  conv => lhs; arg 1; rw [hsplit]
  rw [depthAt_append_pre]
  rcases R.last with h0 | ⟨s, m, hget, hlt⟩
  · rw [← h0]; simp
  · have hget' : (rt.node rt.depth).kids[rt.index rt.depth]? = some (.text s m) := hget
    have hlen : rt.index rt.depth < (rt.node rt.depth).kids.length := by
      rcases Nat.lt_or_ge (rt.index rt.depth) (rt.node rt.depth).kids.length with h | h
      · exact h
      · rw [List.getElem?_eq_none h] at hget'; simp at hget'
    rw [List.drop_eq_getElem_cons hlen]
    have : (rt.node rt.depth).kids[rt.index rt.depth] = .text s m := by
      rw [List.getElem?_eq_getElem hlen] at hget'
      simpa using hget'
    rw [this]
    exact depthAt_nonelem_cons _ _ _ (by simpa using hlt) (by intro ty a m' k h; cases h)

/-- **the gap `[to, to.end())`**: the slice from a position to the end of its parent is closed, and on a valid
    document its nodes are valid -/
theorem gap_to_end_valid (S : Schema) {doc : Node} {t : Nat} {rt : RPos} (ht : doc.resolve t = some rt)
    (hv : S.checkNode doc = true) (gap : Slice) (h : doc.slice rt.pos (rt.end_ rt.depth) = .ok gap) :
    S.checkKids gap.content = true := by
  have R := resolve_resolved ht
  have hov := slice_openValid S doc _ _ gap hv h
  rw [R.pos_eq] at h
  have hpin := R.pos_in rt.depth (Nat.le_refl _)
  by_cases hft : t = rt.end_ rt.depth
  · unfold Node.slice sliceKids at h
    rw [if_pos hft] at h
    simp only [Except.ok.injEq] at h
    subst h
    simp [Slice.empty]
  · have hend : rt.end_ rt.depth ≤ fsize doc.kids := (R.end_le_size rt.depth (Nat.le_refl _)).1
    have spec := sliceKids_spec doc.kids t (rt.end_ rt.depth) gap (by omega) hend h
    obtain ⟨sh, h1, h2, h3, k, hk1, hk2, hk3⟩ := spec.opens
    -- balances
    have hB := fun j hj => balance_in_window R j hj
    have hflat := parent_offset_flat R
    have hd1 := depthAt_balance doc.kids t R.le
    have hd2 := depthAt_balance doc.kids (rt.end_ rt.depth) hend
    have e1 := hB (t - rt.start rt.depth) (by rw [Resolved.end_eq] at hpin; omega)
    rw [show rt.start rt.depth + (t - rt.start rt.depth) = t by omega, hflat] at e1
    have e2 := hB (fsize (rt.node rt.depth).kids) (Nat.le_refl _)
    rw [depthAt_fsize] at e2
    have e3 := hB (k - rt.start rt.depth) (by rw [Resolved.end_eq] at hk2; omega)
    rw [show rt.start rt.depth + (k - rt.start rt.depth) = k by omega] at e3
    rw [Resolved.end_eq] at hd2 h2
    have hos : gap.openStart = 0 := by omega
    have hoe : gap.openEnd = 0 := by omega
    rw [hos, hoe] at hov
    simpa [openValid, rightOpenValid] using hov

/-- **the payload of a deletion's replace-around answer is valid** in the sense of C01: the slice with the gap
    content in place is a valid payload -/
theorem delete_around_payload (S : Schema) (hdet : DetS S) (hleaf : PM.FromDom.LeafOk S) (doc : Node) (f t : Nat)
    (hv : S.checkNode doc = true) (hattrs : S.nodeAttrsOK doc = true) (F T G1 G2 : Nat) (sl : Slice) (ins : Nat)
    (b : Bool) (h : replaceStep S doc f t Slice.empty = .ok (some (.replaceAround F T G1 G2 sl ins b))) :
    ∀ gap res, doc.slice G1 G2 = .ok gap → sl.insertAt S ins gap.content = .ok (some res) →
      openValid S res.openStart res.openEnd res.content = true := by
  intro gap res hgap hres
  obtain ⟨hi, _, rt, hrt, e1, e2⟩ := delete_around_shape S doc f t hv F T G1 G2 sl ins b h
  subst hi; subst e1; subst e2
  obtain ⟨sl', hs, hval⟩ := replaceStep_empty_valid S hdet hleaf doc f t hv hattrs _ h
  simp only [Step.sliceOf, Option.some.injEq] at hs
  subst hs
  obtain ⟨sl'', hs2, hleft, _⟩ := replaceStep_wf_left S doc f t Slice.empty _ (by decide) h
  simp only [Step.sliceOf, Option.some.injEq] at hs2
  subst hs2
  exact insertAt_zero_openValid S sl res gap.content (gap_to_end_valid S hrt hv gap hgap) hleft hval hres

/-! ### every replace-around answer: the gap is `[to, to.end())`, the structure flag is not set -/

theorem replaceStep_around_shape (S : Schema) (doc : Node) (f t : Nat) (req : Slice)
    (F T G1 G2 : Nat) (sl : Slice) (ins : Nat) (b : Bool)
    (h : replaceStep S doc f t req = .ok (some (.replaceAround F T G1 G2 sl ins b))) :
    b = false ∧ F = f ∧ ∃ rt, doc.resolve t = some rt ∧ G1 = rt.pos ∧ G2 = rt.end_ rt.depth := by
  unfold replaceStep at h
  split at h
  · simp [pure, Except.pure] at h
  · split at h
    · rename_i rf rt hf ht
      split at h
      · simp [throw, throwThe, MonadExceptOf.throw] at h
      · have := pure_ok h
        simp at this
      · unfold fitterFit at h
        obtain ⟨st0, _, h⟩ := FM.bind_ok h
        obtain ⟨st1, _, h⟩ := FM.bind_ok h
        obtain ⟨mi, _, h⟩ := FM.bind_ok h
        simp only at h
        obtain ⟨target, _, h⟩ := FM.bind_ok h
        obtain ⟨c, _, h⟩ := FM.bind_ok h
        cases c with
        | none => simp [pure, Except.pure] at h
        | some c =>
          simp only at h
          unfold fitEmit at h
          simp only at h
          cases mi with
          | none =>
            simp only at h
            split at h
            · have := pure_ok h
              simp at this
            · simp [pure, Except.pure] at h
          | some p =>
            simp only at h
            split at h
            · simp [throw, throwThe, MonadExceptOf.throw] at h
            · have := pure_ok h
              simp only [Option.some.injEq, Step.replaceAround.injEq] at this
              obtain ⟨e1, _, e3, e4, _, _, e7⟩ := this
              have R := resolve_resolved hf
              exact ⟨e7.symm, by rw [← e1, R.pos_eq], rt, ht, e3.symm, e4.symm⟩
    · simp [throw, throwThe, MonadExceptOf.throw] at h

end PM
