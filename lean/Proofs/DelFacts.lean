/-
  Proofs/DelFacts.lean — what the run of the Fitter on a deletion establishes about the levels of the result
  document (C11 `delete_applies`): validity level by level from the frontier's matches, the fillers and the checks of
  `find_close_level`; `compatible_content` of the joined ancestors from those checks and the guard `joinCompatB`.
-/
import Proofs.DelRun
import Proofs.DelGuards
namespace PM
open PM.FromDom (LeafOk)

/-! ### one level: children read so far, a filling, children still to come -/

theorem sigOf_types (S : Schema) {a b : List Node} (h : sigOf S a = sigOf S b) : S.types a = S.types b := by
  have := congrArg (List.map Prod.fst) h
  simpa [sigOf, Schema.types, List.map_map, Function.comp_def] using this

theorem sigOf_marksOK (S : Schema) (ty : TypeId) {a b : List Node} (h : sigOf S a = sigOf S b)
    (hb : MarksOK S ty b) : MarksOK S ty a := by
  have h2 : a.map Node.marks = b.map Node.marks := by
    have := congrArg (List.map Prod.snd) h
    simpa [sigOf, List.map_map, Function.comp_def] using this
  intro c hc
  have : c.marks ∈ b.map Node.marks := by rw [← h2]; exact List.mem_map_of_mem hc
  obtain ⟨c', hc', e⟩ := List.mem_map.1 this
  rw [← e]; exact hb c' hc'

theorem marksOK_of_valid (S : Schema) (ty : TypeId) (l : List Node) (h : S.validContent ty l = true) :
    MarksOK S ty l := by
  simp only [Schema.validContent, Bool.and_eq_true, List.all_eq_true] at h
  exact h.2

theorem invalidMarks_false (S : Schema) (ty : TypeId) (l : List Node) (h : invalidMarks S ty l = false) :
    MarksOK S ty l := by
  intro c hc
  unfold invalidMarks at h
  rw [List.any_eq_false] at h
  have := h c hc
  simpa using this

/-- **one level of the result**: the children `L1` lead the automaton of `ty` to `q`; `fill_before(after, True)` at `q`
    answered `fill`; then `L1 ++ fill ++ after` is valid content — also with children of the same types and marks in
    place of `L1` and `after` -/
theorem level_valid (S : Schema) (hdet : DetS S) (hleaf : LeafOk S) (ty : TypeId) (L1 H fill after H2 : List Node)
    (q : Nat) (hq : (S.dfa ty).run 0 (S.types L1) = some q) (hH : S.types H = S.types L1) (hm1 : MarksOK S ty H)
    (hfill : fillOpt S (S.dfa ty) q (S.types after) true = .ok (some fill)) (hH2 : S.types H2 = S.types after)
    (hm2 : MarksOK S ty H2) : S.validContent ty (H ++ fill ++ H2) = true := by
  have hft := fillBeforeNodes_types S _ _ _ _ _ (liftRaise_ok hfill)
  obtain ⟨_, q1, hr1, hfin⟩ := fillBeforeTypes_sound S (S.dfa ty) (hdet ty) q _ true _ hft
  have hfm := fillOpt_nodes S hdet hleaf _ _ _ _ _ hfill
  simp only [Schema.validContent, Bool.and_eq_true, List.all_eq_true]
  constructor
  · unfold Dfa.accepts
    simp only [Schema.types, List.map_append] at hq hr1 hfin hH hH2 ⊢
    rw [hH, hH2, List.append_assoc, Dfa.run_append, hq]
    simp only [Option.bind_some]
    rw [Dfa.run_append, hr1]
    simp only [Option.bind_some]
    unfold fillFinished at hfin
    cases hr2 : (S.dfa ty).run q1 (List.map S.tyOf after) with
    | none => rw [hr2] at hfin; simp at hfin
    | some f => rw [hr2] at hfin; simpa using hfin
  · intro c hc
    simp only [List.mem_append] at hc
    rcases hc with (hc | hc) | hc
    · exact hm1 c hc
    · rw [(hfm c hc).2]; exact allowsMarks_nil _
    · exact hm2 c hc

/-! ### the children of a checked node -/

theorem run_take_of_valid (S : Schema) (ty : TypeId) (L : List Node) (h : S.validContent ty L = true) (i : Nat) :
    ∃ q qf, (S.dfa ty).run 0 (S.types (L.take i)) = some q ∧ (S.dfa ty).run q (S.types (L.drop i)) = some qf ∧
      (S.dfa ty).validEnd qf = true := by
  simp only [Schema.validContent, Dfa.accepts, Bool.and_eq_true] at h
  have hacc := h.1
  rw [types_take_drop S L i, Dfa.run_append] at hacc
  cases hr : (S.dfa ty).run 0 (S.types (L.take i)) with
  | none => rw [hr] at hacc; simp at hacc
  | some q =>
    rw [hr] at hacc
    simp only [Option.bind_some] at hacc
    cases hr2 : (S.dfa ty).run q (S.types (L.drop i)) with
    | none => rw [hr2] at hacc; simp at hacc
    | some qf => rw [hr2] at hacc; exact ⟨q, qf, rfl, hr2, by simpa using hacc⟩

theorem marksOK_sub (S : Schema) (ty : TypeId) {l l' : List Node} (h : MarksOK S ty l) (hs : ∀ c ∈ l', c ∈ l) :
    MarksOK S ty l' := fun c hc => h c (hs c hc)

theorem checkKids_sub (S : Schema) {l l' : List Node} (h : S.checkKids l = true) (hs : ∀ c ∈ l', c ∈ l) :
    S.checkKids l' = true :=
  (checkKids_iff S l').2 (fun c hc => (checkKids_iff S l).1 h c (hs c hc))

/-! ### the levels of a resolved position in a valid document -/

theorem node_elem_of {ty0 : TypeId} {a0 : Attrs} {m0 : Marks} {K : List Node} {pos : Nat} {r : RPos}
    (h : (Node.elem ty0 a0 m0 K).resolve pos = some r) (i : Nat) (hi : i ≤ r.depth) :
    ∃ t a m k, r.node i = .elem t a m k := by
  cases i with
  | zero => exact ⟨ty0, a0, m0, K, (resolve_resolved h).node_zero⟩
  | succ i => exact resolve_node_elem h i (by omega)

/-- what `Node.check` says about level `i` -/
theorem level_check (S : Schema) {ty0 : TypeId} {a0 : Attrs} {m0 : Marks} {K : List Node} {pos : Nat} {r : RPos}
    (h : (Node.elem ty0 a0 m0 K).resolve pos = some r) (hv : S.checkNode (.elem ty0 a0 m0 K) = true)
    (i : Nat) (hi : i ≤ r.depth) :
    S.validContent (S.tyOf (r.node i)) (r.node i).kids = true ∧ S.checkKids (r.node i).kids = true ∧
      canonicalMarks S (r.node i).marks = true := by
  obtain ⟨t, a, m, k, e⟩ := node_elem_of h i hi
  have := (resolve_resolved h).node_check hv i hi
  rw [e, checkNode_elem] at this
  simp only [Bool.and_eq_true] at this
  rw [e]
  exact ⟨this.1.1, this.2, this.1.2⟩

/-- the children of level `i` around the child the path goes into, up to types and marks -/
theorem level_sig (S : Schema) {doc : Node} {pos : Nat} {r : RPos} (h : doc.resolve pos = some r) (i : Nat)
    (hi : i < r.depth) :
    sigOf S ((frameAt r i).pre ++ [(frameAt r i).node []]) = sigOf S ((r.node i).kids.take (r.index i + 1)) ∧
    sigOf S ((frameAt r i).node [] :: (frameAt r i).post) = sigOf S ((r.node i).kids.drop (r.index i)) ∧
    (r.node i).kids = (frameAt r i).pre ++ r.node (i + 1) :: (frameAt r i).post ∧
    r.index i < (r.node i).kids.length := by
  obtain ⟨tyC, aC, mC, kC, e, hs, _, _, _⟩ := Resolved.level_deep h i hi
  have hlen : r.index i < (r.node i).kids.length := by
    have := congrArg List.length hs
    simp only [List.length_append, List.length_take, List.length_cons, List.length_drop] at this
    omega
  have hAl : ((r.node i).kids.take (r.index i)).length = r.index i := by
    rw [List.length_take]; omega
  have e1 : (r.node i).kids.take (r.index i + 1) = (r.node i).kids.take (r.index i) ++ [.elem tyC aC mC kC] := by
    conv => lhs; rw [hs]
    have := take_mid ((r.node i).kids.take (r.index i)) ((r.node i).kids.drop (r.index i + 1)) (.elem tyC aC mC kC)
    rwa [hAl] at this
  have e2 : (r.node i).kids.drop (r.index i) = .elem tyC aC mC kC :: (r.node i).kids.drop (r.index i + 1) := by
    conv => lhs; rw [hs]
    have := List.drop_left (l₁ := (r.node i).kids.take (r.index i))
      (l₂ := .elem tyC aC mC kC :: (r.node i).kids.drop (r.index i + 1))
    rwa [hAl] at this
  refine ⟨?_, ?_, ?_, hlen⟩
  · rw [e1]
    simp [frameAt, Frame.node, sigOf, e, Node.ty!, Node.attrs, Node.marks, Schema.tyOf, Node.tyOr]
  · rw [e2]
    simp [frameAt, Frame.node, sigOf, e, Node.ty!, Node.attrs, Node.marks, Schema.tyOf, Node.tyOr]
  · rw [e]; exact hs

theorem frameAt_ty (S : Schema) {doc : Node} {pos : Nat} {r : RPos} (h : doc.resolve pos = some r) (i : Nat)
    (hi : i < r.depth) : (frameAt r i).ty = S.tyOf (r.node (i + 1)) ∧ (frameAt r i).marks = (r.node (i + 1)).marks := by
  obtain ⟨t, a, m, k, e⟩ := resolve_node_elem h i hi
  simp [frameAt, e, Node.ty!, Schema.tyOf, Node.tyOr, Node.marks]

theorem indexAfter_lt (r : RPos) (i : Nat) (hi : i < r.depth) : r.indexAfter i = r.index i + 1 := by
  unfold RPos.indexAfter
  rw [if_neg (by simp; omega)]

/-! ### the innermost level of `from` -/

/-- the match of the frontier entry of level `i`: `qtop` at the innermost level (where the loop of `fit` may have placed
    content), elsewhere the state behind the child the path goes into -/
def frontSt (S : Schema) (rf : RPos) (qtop : Nat) (i : Nat) : Option Nat :=
  if i = rf.depth then some qtop else S.contentMatchAt (S.tyOf (rf.node i)) (rf.node i).kids (rf.indexAfter i)

theorem frontSt_lt (S : Schema) (rf : RPos) (qtop i : Nat) (hi : i < rf.depth) :
    frontSt S rf qtop i = S.contentMatchAt (S.tyOf (rf.node i)) (rf.node i).kids (rf.indexAfter i) := by
  unfold frontSt; rw [if_neg (by omega)]

theorem frontSt_top (S : Schema) (rf : RPos) (qtop : Nat) : frontSt S rf qtop rf.depth = some qtop := by
  unfold frontSt; rw [if_pos rfl]

/-- what the innermost level of `from` must provide: with the frontier's match `qtop` there, whatever filling
    `fill_before(after, True)` answered at `qtop` makes `botL ++ fill ++ after` valid content -/
def BotLOK (S : Schema) (rf : RPos) (qtop : Nat) (botL : List Node) : Prop :=
  ∀ fill after H2, fillOpt S (S.dfa (S.tyOf rf.parent)) qtop (S.types after) true = .ok (some fill) →
    S.types H2 = S.types after → MarksOK S (S.tyOf rf.parent) H2 →
    S.validContent (S.tyOf rf.parent) (botL ++ fill ++ H2) = true

/-- the plain case: `botL` are the children up to `from` (the text child `from` is in cut short) -/
theorem botLOK_of_sig (S : Schema) (hdet : DetS S) (hleaf : LeafOk S) {ty0 : TypeId} {a0 : Attrs} {m0 : Marks}
    {K : List Node} {f : Nat} {rf : RPos} (hf : (Node.elem ty0 a0 m0 K).resolve f = some rf)
    (hv : S.checkNode (.elem ty0 a0 m0 K) = true) (botL : List Node) (q : Nat)
    (hq : S.contentMatchAt (S.tyOf rf.parent) rf.parent.kids (rf.indexAfter rf.depth) = some q)
    (hbL : sigOf S botL = sigOf S (rf.parent.kids.take (rf.indexAfter rf.depth))) : BotLOK S rf q botL := by
  intro fill after H2 hfill hH2 hm2
  obtain ⟨hvD, _, _⟩ := level_check S hf hv rf.depth (Nat.le_refl _)
  exact level_valid S hdet hleaf (S.tyOf rf.parent) _ _ fill _ _ q hq (sigOf_types S hbL)
    (sigOf_marksOK S _ hbL (marksOK_sub S _ (marksOK_of_valid S _ _ hvD) (fun c hc => List.mem_of_mem_take hc)))
    hfill hH2 hm2

/-! ### the closed levels of `from` -/

theorem mem_take_of {α : Type} {l : List α} {i : Nat} {c : α} (h : c ∈ l.take i) : c ∈ l := List.mem_of_mem_take h
theorem mem_drop_of {α : Type} {l : List α} {i : Nat} {c : α} (h : c ∈ l.drop i) : c ∈ l := List.mem_of_mem_drop h

/-- **the levels of `from` below the close level are valid once closed**: each frontier entry's match is the state
    behind the children up to the path, the filler leads from there to a valid end -/
theorem leftOK_of_run (S : Schema) (hdet : DetS S) (hleaf : LeafOk S) {ty0 : TypeId} {a0 : Attrs} {m0 : Marks}
    {K : List Node} {f : Nat} {rf : RPos} (hf : (Node.elem ty0 a0 m0 K).resolve f = some rf)
    (hv : S.checkNode (.elem ty0 a0 m0 K) = true) (qtop : Nat) (botL : List Node)
    (hbL : BotLOK S rf qtop botL)
    (hkL : S.checkKids botL = true) :
    ∀ (n j : Nat) (fills : List (List Node)), j + n = rf.depth → fills.length = n →
      (∀ k, k < n → ∃ q fill, frontSt S rf qtop (j + 1 + k) = some q ∧ fills[k]? = some fill ∧
          fillOpt S (S.dfa (S.tyOf (rf.node (j + 1 + k)))) q [] true = .ok (some fill)) →
      LeftOK S (framesFrom rf j n) fills botL
  | 0, j, fills, _, hl, _ => by
    rw [List.length_eq_zero_iff] at hl
    subst hl
    exact hkL
  | n + 1, j, fills, hj, hl, hF => by
    cases fills with
    | nil => simp at hl
    | cons fill fills' =>
      simp only [List.length_cons, Nat.add_right_cancel_iff] at hl
      obtain ⟨q, fill0, hq, hget, hfill⟩ := hF 0 (by omega)
      simp only [List.getElem?_cons_zero, Option.some.injEq, Nat.add_zero] at hget hq hfill
      subst hget
      obtain ⟨hvj, hkj, _⟩ := level_check S hf hv j (by omega)
      obtain ⟨hvj1, hkj1, hcm1⟩ := level_check S hf hv (j + 1) (by omega)
      obtain ⟨hty, hmk⟩ := frameAt_ty S hf j (by omega)
      have ih := leftOK_of_run S hdet hleaf hf hv qtop botL hbL hkL n (j + 1) fills' (by omega) hl
        (fun k hk => by
          obtain ⟨q', fill', h1, h2, h3⟩ := hF (k + 1) (by omega)
          rw [show j + 1 + (k + 1) = j + 1 + 1 + k by omega] at h1 h3
          exact ⟨q', fill', h1, by simpa using h2, h3⟩)
      refine ⟨checkKids_sub S hkj (fun c hc => mem_take_of hc), by rw [hmk]; exact hcm1,
        fillOpt_valid S hdet hleaf _ _ _ _ _ hfill, ?_, ih⟩
      rw [hty]
      cases n with
      | zero =>
        have e : j + 1 = rf.depth := by omega
        simp only [framesFrom, headL]
        rw [e] at hq hfill ⊢
        rw [frontSt_top] at hq
        simp only [Option.some.injEq] at hq
        subst hq
        have := hbL fill [] [] hfill rfl (fun c hc => by simp at hc)
        simp only [List.append_nil] at this
        exact this
      | succ n' =>
        have hH : sigOf S (headL (framesFrom rf (j + 1) (n' + 1)) botL)
            = sigOf S ((rf.node (j + 1)).kids.take (rf.indexAfter (j + 1))) := by
          simp only [framesFrom, headL]
          rw [indexAfter_lt rf (j + 1) (by omega)]
          exact (level_sig S hf (j + 1) (by omega)).1
        rw [frontSt_lt S rf qtop (j + 1) (by omega)] at hq
        have := level_valid S hdet hleaf (S.tyOf (rf.node (j + 1))) _ _ fill [] [] q hq (sigOf_types S hH)
          (sigOf_marksOK S _ hH (marksOK_sub S _ (marksOK_of_valid S _ _ hvj1) (fun c hc => mem_take_of hc))) hfill rfl
          (fun c hc => by simp at hc)
        simpa using this

end PM

namespace PM
open PM.FromDom (LeafOk)

/-! ### the re-opened levels of the end position -/

/-- the frame of a re-opened ancestor: the attributes `type.create` computes, no marks -/
def reFrame (fr : Frame) (a' : Attrs) : Frame := ⟨fr.pre, fr.ty, a', [], fr.post⟩

/-- the attributes `type.create(node.attrs)` computes (the node's own when that fails) -/
def attrsOf (S : Schema) (n : Node) : Attrs :=
  match computeAttrs (S.nodeType (S.tyOf n)).attrs n.attrs with
  | .ok a => a
  | .error _ => n.attrs

/-- the filler `close` puts in front of the re-opened level `d` (nothing when `fill_before` has no answer) -/
def addOf (S : Schema) (mv : RPos) (d : Nat) : List Node :=
  match fillOpt S (S.dfa (S.tyOf (mv.node d))) 0 (S.types ((mv.node d).kids.drop (mv.index d))) true with
  | .ok (some a) => a
  | _ => []

/-- the frames `close` re-opens, levels `j + 1 … j + n` of the end position, with their fillers -/
def roFrom (S : Schema) (mv : RPos) : Nat → Nat → List (Frame × List Node)
  | _, 0 => []
  | j, n + 1 => (reFrame (frameAt mv j) (attrsOf S (mv.node (j + 1))), addOf S mv (j + 1)) :: roFrom S mv (j + 1) n

theorem roFrom_length (S : Schema) (mv : RPos) : ∀ (j n : Nat), (roFrom S mv j n).length = n
  | _, 0 => rfl
  | j, n + 1 => by simp [roFrom, roFrom_length S mv (j + 1) n]

theorem sameRight_roFrom (S : Schema) (mv : RPos) : ∀ (j n : Nat),
    sameRight (framesFrom mv j n) ((roFrom S mv j n).map (·.1))
  | _, 0 => trivial
  | j, n + 1 => ⟨rfl, rfl, sameRight_roFrom S mv (j + 1) n⟩

theorem reopenAll_roFrom (S : Schema) (hdet : DetS S) (hfl : FillersOK S) {doc : Node} {p : Nat} {mv : RPos}
    (hmv : doc.resolve p = some mv) (hattrs : S.nodeAttrsOK doc = true) :
    ∀ (n j : Nat), j + n ≤ mv.depth → ReopenAll S mv (j + 1) (roFrom S mv j n)
  | 0, _, _ => trivial
  | n + 1, j, hj => by
    refine ⟨?_, reopenAll_roFrom S hdet hfl hmv hattrs n (j + 1) (by omega)⟩
    obtain ⟨t, a, m, ks, hn⟩ := resolve_node_elem hmv j (by omega)
    have hok := (resolve_resolved hmv).node_attrsOK hattrs (j + 1) (by omega)
    rw [hn] at hok
    obtain ⟨h1, h2, a', h3⟩ := nodeAttrsOK_elem hok
    obtain ⟨r, hr⟩ := fillOpt_ok S hdet hfl t 0 (S.types (ks.drop (mv.index (j + 1)))) true
    refine ⟨t, a, m, ks, a', r, hn, h1, h2, h3, hr, ?_, ?_, rfl, ?_⟩
    · simp [reFrame, frameAt, hn, Node.ty!]
    · simp [reFrame, attrsOf, hn, Schema.tyOf, Node.tyOr, Node.attrs, h3]
    · simp only [addOf, hn, Schema.tyOf, Node.tyOr, Node.kids, hr]
      cases r <;> rfl

theorem framesFN_framesFrom {doc : Node} {pos : Nat} {r : RPos} (h : doc.resolve pos = some r)
    (hn : fnorm doc.kids = true) (j n : Nat) (hj : j + n ≤ r.depth) : framesFN (framesFrom r j n) := by
  have h1 := (doc_plug h).1
  rw [h1] at hn
  have h2 := (plug_framesFN _ _ hn).1
  have : framesFrom r 0 r.depth = framesFrom r 0 j ++ (framesFrom r j n ++ framesFrom r (j + n) (r.depth - (j + n))) := by
    have e1 := framesFrom_add r 0 j (r.depth - j)
    have e2 := framesFrom_add r j n (r.depth - (j + n))
    rw [show j + (r.depth - j) = r.depth by omega, Nat.zero_add] at e1
    rw [show n + (r.depth - (j + n)) = r.depth - j by omega] at e2
    rw [e1, e2]
  rw [this, framesFN_append, framesFN_append] at h2
  simpa using h2.2.1

theorem framesFN_roFrom (S : Schema) (mv : RPos) : ∀ (j n : Nat), framesFN (framesFrom mv j n) →
    framesFN ((roFrom S mv j n).map (·.1))
  | _, 0, _ => trivial
  | j, n + 1, h => ⟨h.1, h.2.1, framesFN_roFrom S mv (j + 1) n h.2.2⟩

/-- **the re-opened levels are valid**: `fill_before(rest, True, index)` from the start state answered (guard
    `reopenOKB`) and leads to the rest of the node's children -/
theorem rightOK_of_run (S : Schema) (hdet : DetS S) (hleaf : LeafOk S) (hfl : FillersOK S) (hro : reopenOKB S = true)
    {ty0 : TypeId} {a0 : Attrs} {m0 : Marks} {K : List Node} {p : Nat} {mv : RPos}
    (hmv : (Node.elem ty0 a0 m0 K).resolve p = some mv) (hv : S.checkNode (.elem ty0 a0 m0 K) = true)
    (botR : List Node) (hbR : sigOf S botR = sigOf S (mv.parent.kids.drop (mv.index mv.depth)))
    (hkR : S.checkKids botR = true) :
    ∀ (n j : Nat), j + n = mv.depth →
      RightOK S ((roFrom S mv j n).map (·.1)) ((roFrom S mv j n).map (·.2)) botR
  | 0, _, _ => hkR
  | n + 1, j, hj => by
    obtain ⟨hvj, hkj, _⟩ := level_check S hmv hv j (by omega)
    obtain ⟨hvj1, hkj1, _⟩ := level_check S hmv hv (j + 1) (by omega)
    obtain ⟨hty, _⟩ := frameAt_ty S hmv j (by omega)
    have ih := rightOK_of_run S hdet hleaf hfl hro hmv hv botR hbR hkR n (j + 1) (by omega)
    -- the filler exists
    obtain ⟨q, qf, hq, hqf, hve⟩ := run_take_of_valid S _ _ hvj1 (mv.index (j + 1))
    have hsome := reopen_fill_isSome S hro (S.tyOf (mv.node (j + 1))) q qf _ hqf hve
    obtain ⟨r, hr⟩ := fillOpt_ok S hdet hfl (S.tyOf (mv.node (j + 1))) 0
      (S.types ((mv.node (j + 1)).kids.drop (mv.index (j + 1)))) true
    have hr' : ∃ add, r = some add := by
      have h' := liftRaise_ok hr
      unfold fillBeforeNodes at h'
      split at h'
      · rename_i hnone
        rw [hnone] at hsome; simp at hsome
      · split at h'
        · simp at h'
        · simp only [Option.some.injEq] at h'
          exact ⟨_, h'.symm⟩
    obtain ⟨add, rfl⟩ := hr'
    have hadd : addOf S mv (j + 1) = add := by simp only [addOf, hr]
    simp only [roFrom, List.map_cons, RightOK, reFrame, hadd]
    refine ⟨checkKids_sub S hkj (fun c hc => mem_drop_of hc), by simp [canonicalMarks],
      fillOpt_valid S hdet hleaf _ _ _ _ _ hr, ?_, ih⟩
    show S.validContent (frameAt mv j).ty _ = true
    rw [hty]
    -- the children behind the filler, up to types; their marks are allowed
    have hH2 : S.types (headR ((roFrom S mv (j + 1) n).map (·.1)) botR)
        = S.types ((mv.node (j + 1)).kids.drop (mv.index (j + 1))) ∧
        MarksOK S (S.tyOf (mv.node (j + 1))) (headR ((roFrom S mv (j + 1) n).map (·.1)) botR) := by
      have hmall := marksOK_sub S _ (marksOK_of_valid S _ _ hvj1)
        (fun c hc => mem_drop_of (i := mv.index (j + 1)) hc)
      cases n with
      | zero =>
        have e : j + 1 = mv.depth := by omega
        simp only [roFrom, List.map_nil, headR]
        rw [e] at hmall ⊢
        exact ⟨sigOf_types S hbR, sigOf_marksOK S _ hbR hmall⟩
      | succ n' =>
        obtain ⟨_, hs2, hsplit, _⟩ := level_sig S hmv (j + 1) (by omega)
        simp only [roFrom, List.map_cons, headR, reFrame]
        constructor
        · rw [← sigOf_types S hs2]
          simp [Schema.types, Frame.node, Schema.tyOf, Node.tyOr]
        · intro c hc
          simp only [List.mem_cons] at hc
          rcases hc with rfl | hc
          · simp only [Frame.node, Node.marks]; exact allowsMarks_nil _
          · refine marksOK_of_valid S _ _ hvj1 c ?_
            rw [hsplit]; simp [hc]
    have := level_valid S hdet hleaf (S.tyOf (mv.node (j + 1))) [] [] add _ _ 0 rfl rfl (fun c hc => by simp at hc)
      hr hH2.1 hH2.2
    simpa using this

/-! ### the top level of the two parts, up to types and marks -/

theorem headL_facts (S : Schema) {doc : Node} {f : Nat} {rf : RPos} (hf : doc.resolve f = some rf) (botL : List Node)
    (hbL : sigOf S botL = sigOf S (rf.parent.kids.take (rf.indexAfter rf.depth))) (j n : Nat) (hj : j + n = rf.depth) :
    sigOf S (headL (framesFrom rf j n) botL) = sigOf S ((rf.node j).kids.take (rf.indexAfter j)) := by
  cases n with
  | zero =>
    have : j = rf.depth := by omega
    simp only [framesFrom, headL]
    rw [hbL, this]
    rfl
  | succ n' =>
    simp only [framesFrom, headL]
    rw [indexAfter_lt rf j (by omega)]
    exact (level_sig S hf j (by omega)).1

theorem headR_facts (S : Schema) {doc : Node} {p : Nat} {mv : RPos} (hmv : doc.resolve p = some mv) (botR : List Node)
    (hbR : sigOf S botR = sigOf S (mv.parent.kids.drop (mv.index mv.depth))) (ty : TypeId) (j n : Nat)
    (hj : j + n = mv.depth) (hm : MarksOK S ty ((mv.node j).kids.drop (mv.index j))) :
    S.types (headR ((roFrom S mv j n).map (·.1)) botR) = S.types ((mv.node j).kids.drop (mv.index j)) ∧
      MarksOK S ty (headR ((roFrom S mv j n).map (·.1)) botR) := by
  cases n with
  | zero =>
    have e : j = mv.depth := by omega
    simp only [roFrom, List.map_nil, headR]
    rw [e] at hm ⊢
    exact ⟨sigOf_types S hbR, sigOf_marksOK S _ hbR hm⟩
  | succ n' =>
    obtain ⟨_, hs2, hsplit, hlt⟩ := level_sig S hmv j (by omega)
    simp only [roFrom, List.map_cons, headR, reFrame]
    constructor
    · rw [← sigOf_types S hs2]
      simp [Schema.types, Frame.node, Schema.tyOf, Node.tyOr]
    · intro c hc
      simp only [List.mem_cons] at hc
      rcases hc with rfl | hc
      · simp only [Frame.node, Node.marks]; exact allowsMarks_nil _
      · refine hm c ?_
        have : (mv.node j).kids.drop (mv.index j) = mv.node (j + 1) :: (frameAt mv j).post := by
          conv => lhs; rw [hsplit]
          have hAl : (frameAt mv j).pre.length = mv.index j := by
            simp only [frameAt, List.length_take]; omega
          have := List.drop_left (l₁ := (frameAt mv j).pre) (l₂ := mv.node (j + 1) :: (frameAt mv j).post)
          rwa [hAl] at this
        rw [this]; simp [hc]

/-! ### `compatible_content` of the joined ancestors -/

/-- **what `content_after_fits` leaves open, closed by `joinCompatB`**: when children follow the position, the first
    of them is accepted (after the filling) in the frontier's automaton and stands in the valid content of the
    target's ancestor — its type labels an edge of both automata -/
theorem compat_of_fits (S : Schema) (hdet : DetS S) (hjc : joinCompatB S = true) (node : Node)
    (hnv : S.validContent (S.tyOf node) node.kids = true) (idx : Nat) (hidx : idx ≤ node.kids.length)
    (ty : TypeId) (q : Nat) (fit : List Node)
    (h1 : idx = node.kids.length → S.compatibleContent ty (S.tyOf node) = true)
    (hfill : fillOpt S (S.dfa ty) q (S.types (node.kids.drop idx)) true = .ok (some fit)) :
    S.compatibleContent ty (S.tyOf node) = true := by
  rcases Nat.eq_or_lt_of_le hidx with he | hlt
  · exact h1 he
  · have hft := fillBeforeNodes_types S _ _ _ _ _ (liftRaise_ok hfill)
    obtain ⟨_, q1, _, hfin⟩ := fillBeforeTypes_sound S (S.dfa ty) (hdet ty) q _ true _ hft
    obtain ⟨q', qf, _, hq2, _⟩ := run_take_of_valid S _ _ hnv idx
    have hne : node.kids.drop idx ≠ [] := by
      intro h0
      have := congrArg List.length h0
      simp only [List.length_drop, List.length_nil] at this
      omega
    obtain ⟨x, rest, hx⟩ := List.exists_cons_of_ne_nil hne
    rw [hx] at hfin hq2
    simp only [Schema.types, List.map_cons] at hfin hq2
    unfold fillFinished at hfin
    simp only [Dfa.run] at hfin hq2
    cases hm1 : (S.dfa ty).matchType q1 (S.tyOf x) with
    | none => rw [hm1] at hfin; simp at hfin
    | some r1 =>
      cases hm2 : (S.dfa (S.tyOf node)).matchType q' (S.tyOf x) with
      | none => rw [hm2] at hq2; simp at hq2
      | some r2 =>
        exact joinCompat_of_B S hjc (Dfa.mem_of_matchType hm1) (Dfa.mem_of_matchType hm2) rfl

/-! ### what `find_close_level` established, in terms of the position the step ends at -/

/-- `find_close_level(tgt)` answered level `c` with the filling `fit`; `mv` is the position `close` continues from
    (`tgt`, or the position behind `tgt.node(c + 1)` when that node is dropped: `di`) -/
structure CloseFacts (S : Schema) (rf : RPos) (qtop : Nat) (tgt mv : RPos) (c : Nat) (fit : List Node) (di : Bool) :
    Prop where
  hcD : c ≤ rf.depth
  hcT : c ≤ tgt.depth
  hcM : c ≤ mv.depth
  nodes : ∀ i, i ≤ c → mv.node i = tgt.node i
  idx : ∀ i, i < c → mv.index i = tgt.index i
  idxc : mv.index c = if di then tgt.indexAfter c else tgt.index c
  inner : ∀ i, i < c → ∃ q, frontSt S rf qtop i = some q ∧
    contentAfterFits S tgt i (S.tyOf (rf.node i)) (some q) true = .ok (some [])
  level : ∃ q, frontSt S rf qtop c = some q ∧
    contentAfterFits S tgt c (S.tyOf (rf.node c)) (some q) di = .ok (some fit)

/-- **the joined levels are valid**: `from`'s ancestor accepts, behind the child the path goes into, the children
    behind the end position (`content_after_fits(…, open=True)` answered the empty filling) -/
theorem joinOK_of_run (S : Schema) (hdet : DetS S) (hleaf : LeafOk S) {ty0 : TypeId} {a0 : Attrs} {m0 : Marks}
    {K : List Node} {f p : Nat} {rf tgt mv : RPos} {qtop c : Nat} {fit : List Node} {di : Bool}
    (hf : (Node.elem ty0 a0 m0 K).resolve f = some rf) (hmv : (Node.elem ty0 a0 m0 K).resolve p = some mv)
    (hv : S.checkNode (.elem ty0 a0 m0 K) = true) (C : CloseFacts S rf qtop tgt mv c fit di) :
    ∀ (n j : Nat), j + n = c → JoinOK S (S.tyOf (rf.node j)) (framesFrom rf j n) (framesFrom mv j n)
  | 0, _, _ => trivial
  | n + 1, j, hj => by
    have hjc : j < c := by omega
    obtain ⟨hvj, hkj, _⟩ := level_check S hf hv j (by have := C.hcD; omega)
    obtain ⟨_, _, hcm1⟩ := level_check S hf hv (j + 1) (by have := C.hcD; omega)
    obtain ⟨_, hkmj, _⟩ := level_check S hmv hv j (by have := C.hcM; omega)
    obtain ⟨hty, hmk⟩ := frameAt_ty S hf j (by have := C.hcD; omega)
    obtain ⟨hs1, _, _, _⟩ := level_sig S hf j (by have := C.hcD; omega)
    obtain ⟨q, hq, hfits⟩ := C.inner j hjc
    obtain ⟨_, _, q', hq', hfill, him⟩ := contentAfterFits_spec S tgt j _ _ true [] hfits
    simp only [if_true, Option.some.injEq] at hq' hfill him
    subst hq'
    have ih := joinOK_of_run S hdet hleaf hf hmv hv C n (j + 1) (by omega)
    rw [← hty] at ih
    refine ⟨checkKids_sub S hkj (fun x hx => mem_take_of hx), checkKids_sub S hkmj (fun x hx => mem_drop_of hx),
      by rw [hmk]; exact hcm1, ?_, ih⟩
    have hpost : (frameAt mv j).post = (tgt.node j).kids.drop (tgt.indexAfter j) := by
      simp only [frameAt]
      rw [C.nodes j (by omega), C.idx j hjc, indexAfter_lt tgt j (by have := C.hcT; omega)]
    rw [frontSt_lt S rf qtop j (by have := C.hcD; omega), indexAfter_lt rf j (by have := C.hcD; omega)] at hq
    have := level_valid S hdet hleaf (S.tyOf (rf.node j)) _ ((frameAt rf j).pre ++ [(frameAt rf j).node []]) [] _
      (frameAt mv j).post q hq (sigOf_types S hs1)
      (sigOf_marksOK S _ hs1 (marksOK_sub S _ (marksOK_of_valid S _ _ hvj) (fun x hx => mem_take_of hx)))
      hfill (by rw [hpost]) (by rw [hpost]; exact invalidMarks_false S _ _ him)
    simpa using this

/-- **the close level is valid**: the children of `from`'s ancestor up to the path, the filling `find_close_level`
    computed, the children of the end position's ancestor from the path on -/
theorem closeLevel_valid (S : Schema) (hdet : DetS S) (hleaf : LeafOk S) {ty0 : TypeId} {a0 : Attrs} {m0 : Marks}
    {K : List Node} {f p : Nat} {rf tgt mv : RPos} {qtop c : Nat} {fit : List Node} {di : Bool}
    (hf : (Node.elem ty0 a0 m0 K).resolve f = some rf) (hmv : (Node.elem ty0 a0 m0 K).resolve p = some mv)
    (hv : S.checkNode (.elem ty0 a0 m0 K) = true) (C : CloseFacts S rf qtop tgt mv c fit di) (botL botR : List Node)
    (hbL : BotLOK S rf qtop botL)
    (hbR : sigOf S botR = sigOf S (mv.parent.kids.drop (mv.index mv.depth))) :
    S.validContent (S.tyOf (rf.node c))
      (headL (framesFrom rf c (rf.depth - c)) botL ++ fit
        ++ headR ((roFrom S mv c (mv.depth - c)).map (·.1)) botR) = true := by
  obtain ⟨hvc, _, _⟩ := level_check S hf hv c C.hcD
  obtain ⟨q, hq, hfits⟩ := C.level
  obtain ⟨_, _, q', hq', hfill, him⟩ := contentAfterFits_spec S tgt c _ _ di fit hfits
  simp only [Option.some.injEq] at hq'
  subst hq'
  rw [← C.idxc, ← C.nodes c (Nat.le_refl _)] at hfill him
  have hR := headR_facts S hmv botR hbR (S.tyOf (rf.node c)) c (mv.depth - c) (by have := C.hcM; omega)
    (invalidMarks_false S _ _ him)
  cases hn : rf.depth - c with
  | zero =>
    have e : c = rf.depth := by have := C.hcD; omega
    simp only [framesFrom, headL]
    rw [e] at hq hfill hR ⊢
    rw [frontSt_top] at hq
    simp only [Option.some.injEq] at hq
    subst hq
    exact hbL fit _ _ hfill hR.1 hR.2
  | succ n' =>
    have hL : sigOf S (headL (framesFrom rf c (n' + 1)) botL)
        = sigOf S ((rf.node c).kids.take (rf.indexAfter c)) := by
      simp only [framesFrom, headL]
      rw [indexAfter_lt rf c (by omega)]
      exact (level_sig S hf c (by omega)).1
    rw [frontSt_lt S rf qtop c (by omega)] at hq
    exact level_valid S hdet hleaf (S.tyOf (rf.node c)) _ _ fit _ _ q hq (sigOf_types S hL)
      (sigOf_marksOK S _ hL (marksOK_sub S _ (marksOK_of_valid S _ _ hvc) (fun x hx => mem_take_of hx)))
      hfill hR.1 hR.2

/-- **the joined ancestors are `compatible_content`** (guard `joinCompatB` where `content_after_fits` did not test) -/
theorem compatFrames_of_run (S : Schema) (hdet : DetS S) (hjc : joinCompatB S = true) {ty0 : TypeId} {a0 : Attrs}
    {m0 : Marks} {K : List Node} {f p t : Nat} {rf tgt mv : RPos} {qtop c : Nat} {fit : List Node} {di : Bool}
    (hf : (Node.elem ty0 a0 m0 K).resolve f = some rf) (hmv : (Node.elem ty0 a0 m0 K).resolve p = some mv)
    (htg : (Node.elem ty0 a0 m0 K).resolve t = some tgt)
    (hv : S.checkNode (.elem ty0 a0 m0 K) = true) (C : CloseFacts S rf qtop tgt mv c fit di) :
    ∀ (n j : Nat), j + n = c → compatFrames S (framesFrom rf j n) (framesFrom mv j n)
  | 0, _, _ => trivial
  | n + 1, j, hj => by
    refine ⟨?_, compatFrames_of_run S hdet hjc hf hmv htg hv C n (j + 1) (by omega)⟩
    rw [(frameAt_ty S hf j (by have := C.hcD; omega)).1, (frameAt_ty S hmv j (by have := C.hcM; omega)).1,
      C.nodes (j + 1) (by omega), compat_symm]
    obtain ⟨hvt, _, _⟩ := level_check S htg hv (j + 1) (by have := C.hcT; omega)
    rcases Nat.lt_or_ge (j + 1) c with hlt | hge
    · -- an inner level: tested with `open = True`
      obtain ⟨q, hq, hfits⟩ := C.inner (j + 1) hlt
      obtain ⟨_, hc1, q', hq', hfill, _⟩ := contentAfterFits_spec S tgt (j + 1) _ _ true [] hfits
      simp only [if_true, Option.some.injEq] at hq' hfill hc1
      subst hq'
      have hlen := (level_sig S htg (j + 1) (by have := C.hcT; omega)).2.2.2
      rw [indexAfter_lt tgt (j + 1) (by have := C.hcT; omega)] at hfill hc1
      exact compat_of_fits S hdet hjc (tgt.node (j + 1)) hvt _ (by omega) _ q [] hc1 hfill
    · -- the close level itself
      have e : j + 1 = c := by omega
      obtain ⟨q, hq, hfits⟩ := C.level
      obtain ⟨_, hc1, q', hq', hfill, _⟩ := contentAfterFits_spec S tgt c _ _ di fit hfits
      simp only [Option.some.injEq] at hq'
      subst hq'
      rw [← C.idxc] at hfill hc1
      have hle : mv.index c ≤ (tgt.node c).kids.length := by
        rw [← C.nodes c (Nat.le_refl _)]
        exact ((resolve_resolved hmv).entry c C.hcM).idx_le
      rw [e]
      exact compat_of_fits S hdet hjc (tgt.node c) (e ▸ hvt) _ hle _ q fit hc1 hfill

end PM
