/- Proofs/FillOrder.lean — the fuelled searches the Fitter calls (PM/FillOrder.lean): the fuel they are
   given is enough (their `none` is never "out of fuel"), and what their answers mean.

   * `fillBeforeTypes` is literally the search of PM/Fill.lean (`fillBeforeTypes_eq`), so soundness
     and completeness (= fuel sufficiency) are `fillBefore_sound_aux` / `fillBefore_complete_aux`.
   * `findWrappingTypes`: direct invariant of the breadth-first queue for what an answer means
     (`findWrappingTypes_spec`), and a simulation by `wrapSearch` of PM/Fill.lean for the fuel
     (`findWrappingTypes_complete`: `none` means that no wrapper chain exists at all).
   * `createAndFill`: more fuel never changes an answer (`createAndFillO_fuel_mono`).  NOT proved here:
     that `none` at the fuel `#types + 1` is `none` at every fuel (a type needed inside itself, where
     the code recurses without bound) — the sibling definition of PM/CreateFill.lean has that proof
     (Proofs/CreateFill.lean `createAndFill_raises_aux`). -/
import PM.FillOrder
import Proofs.Fill
import Proofs.Wrap
namespace PM

/-! ### fill_before -/

theorem fillEdgesO_eq_of (d : Dfa) (gen : TypeId → Bool) (after : List TypeId) (toEnd : Bool) (fuel : Nat)
    (search : Nat → List TypeId → List Nat → Option (List TypeId) × List Nat)
    (hP : ∀ (q : Nat) (types : List TypeId) (seen : List Nat),
      search q types seen = fillSearch d gen after toEnd fuel q types seen) :
    ∀ (edges : List (TypeId × Nat)) (types : List TypeId) (seen : List Nat),
      fillEdgesO search gen edges types seen = fillEdges d gen after toEnd fuel edges types seen
  | [], types, seen => by simp [fillEdgesO, fillEdges]
  | (t, nxt) :: rest, types, seen => by
    rw [fillEdgesO.eq_2, fillEdges.eq_2, hP]
    by_cases hc : (gen t && !seen.contains nxt) = true
    · rw [if_pos hc, if_pos hc]
      rcases fillSearch d gen after toEnd fuel nxt (types ++ [t]) (nxt :: seen) with ⟨_ | r, s⟩
      · exact fillEdgesO_eq_of d gen after toEnd fuel search hP rest types s
      · rfl
    · rw [if_neg hc, if_neg hc]
      exact fillEdgesO_eq_of d gen after toEnd fuel search hP rest types seen

theorem fillSearchO_eq (d : Dfa) (gen : TypeId → Bool) (after : List TypeId) (toEnd : Bool) :
    ∀ (fuel q : Nat) (types : List TypeId) (seen : List Nat),
      fillSearchO d gen after toEnd fuel q types seen = fillSearch d gen after toEnd fuel q types seen
  | 0, q, types, seen => by simp [fillSearchO, fillSearch]
  | fuel + 1, q, types, seen => by
    rw [fillSearchO.eq_2, fillSearch.eq_2,
      fillEdgesO_eq_of d gen after toEnd fuel _ (fillSearchO_eq d gen after toEnd fuel)]
    rfl

/-- the order-faithful search is the search of PM/Fill.lean -/
theorem fillBeforeTypes_eq (S : Schema) (d : Dfa) (q : Nat) (after : List TypeId) (toEnd : Bool) :
    fillBeforeTypes S d q after toEnd = fillBefore d S.generatable q after toEnd := by
  unfold fillBeforeTypes fillBefore
  rw [fillSearchO_eq d S.generatable after toEnd]

/-- **what a filling is**: generatable types that lead from `q` to a state from which `after`
    matches (to a valid end when asked) -/
theorem fillBeforeTypes_sound (S : Schema) (d : Dfa) (hdet : ∀ q, ((d.edgesOf q).map (·.1)).Nodup)
    (q : Nat) (after : List TypeId) (toEnd : Bool) (tys : List TypeId)
    (h : fillBeforeTypes S d q after toEnd = some tys) :
    tys.all S.generatable = true ∧ ∃ q1, d.run q tys = some q1 ∧ fillFinished d after toEnd q1 = true := by
  rw [fillBeforeTypes_eq] at h
  have := fillBefore_sound_aux d S.generatable q after toEnd hdet tys h
  rw [isFill_eq, Bool.and_eq_true] at this
  refine ⟨this.1, ?_⟩
  rcases hr : d.run q tys with _ | q1
  · simp [hr] at this
  · exact ⟨q1, rfl, by simpa [hr] using this.2⟩

/-- **the fuel of `fill_before` is enough**: `none` means that no filling exists, not that the
    search was cut short -/
theorem fillBeforeTypes_complete (S : Schema) (d : Dfa) (hd : ∀ q t q', (t, q') ∈ d.edgesOf q → q' < d.size)
    (q : Nat) (after : List TypeId) (toEnd : Bool) (h : fillBeforeTypes S d q after toEnd = none)
    (fill : List TypeId) : isFill d S.generatable q after toEnd fill = false := by
  rw [fillBeforeTypes_eq] at h
  exact fillBefore_complete_aux d hd S.generatable q after toEnd h fill

/-- the filling found in front of one node type: afterwards that type matches -/
theorem fillBeforeTypes_one (S : Schema) (d : Dfa) (hdet : ∀ q, ((d.edgesOf q).map (·.1)).Nodup)
    (q : Nat) (ty : TypeId) (tys : List TypeId) (h : fillBeforeTypes S d q [ty] false = some tys) :
    ∃ q1, d.run q tys = some q1 ∧ (d.matchType q1 ty).isSome = true := by
  obtain ⟨_, q1, hr, hf⟩ := fillBeforeTypes_sound S d hdet q [ty] false tys h
  refine ⟨q1, hr, ?_⟩
  unfold fillFinished at hf
  simp only [Dfa.run] at hf
  cases hm : d.matchType q1 ty with
  | none => simp [hm] at hf
  | some _ => rfl

/-! ### create_and_fill: the node has the type asked for -/

theorem tyOf_mkNodeO (S : Schema) (ty : TypeId) (a : Attrs) (m : Marks) (k : List Node) :
    S.tyOf (S.mkNodeO ty a m k) = ty := by
  unfold Schema.mkNodeO
  split <;> rfl

theorem createAndFill_ty (S : Schema) : ∀ (fuel : Nat) (ty : TypeId) (n : Node),
    createAndFill S fuel ty = some n → S.tyOf n = ty
  | 0, _, _, h => by simp [createAndFill] at h
  | fuel + 1, ty, n, h => by
    unfold createAndFill at h
    split at h
    · simp at h
    · split at h
      · simp at h
      · split at h
        · simp at h
        · simp only [Option.some.injEq] at h
          subst h
          exact tyOf_mkNodeO S ty _ _ _

theorem mapM_createAndFill_types (S : Schema) (fuel : Nat) : ∀ (tys : List TypeId) (ns : List Node),
    tys.mapM (createAndFill S fuel) = some ns → S.types ns = tys
  | [], ns, h => by
    simp only [List.mapM_nil, Option.pure_def, Option.some.injEq] at h
    subst h; rfl
  | t :: ts, ns, h => by
    simp only [List.mapM_cons, Option.pure_def, Option.bind_eq_bind] at h
    cases hn : createAndFill S fuel t with
    | none => simp [hn] at h
    | some n =>
      cases hr : ts.mapM (createAndFill S fuel) with
      | none => simp [hn, hr] at h
      | some r =>
        simp only [hn, hr, Option.bind_some, Option.some.injEq] at h
        subst h
        simp only [Schema.types, List.map_cons, List.cons.injEq]
        exact ⟨createAndFill_ty S fuel t n hn, mapM_createAndFill_types S fuel ts r hr⟩

theorem mapM_option_mono {α β : Type} (f g : α → Option β) (hfg : ∀ a b, f a = some b → g a = some b) :
    ∀ (l : List α) (r : List β), l.mapM f = some r → l.mapM g = some r
  | [], r, h => by simpa using h
  | a :: l, r, h => by
    simp only [List.mapM_cons, Option.pure_def, Option.bind_eq_bind] at h ⊢
    cases hfa : f a with
    | none => simp [hfa] at h
    | some b =>
      cases hl : l.mapM f with
      | none => simp [hfa, hl] at h
      | some bs =>
        simp only [hfa, hl, Option.bind_some] at h
        rw [hfg a b hfa, mapM_option_mono f g hfg l bs hl]
        simpa using h

/-- **more fuel never changes an answer of `create_and_fill`** -/
theorem createAndFillO_fuel_succ (S : Schema) : ∀ (fuel : Nat) (ty : TypeId) (n : Node),
    createAndFill S fuel ty = some n → createAndFill S (fuel + 1) ty = some n
  | 0, _, _, h => by simp [createAndFill] at h
  | fuel + 1, ty, n, h => by
    rw [createAndFill.eq_2] at h ⊢
    split at h
    · simp at h
    · rename_i attrs ha
      split at h
      · simp at h
      · rename_i tys htys
        split at h
        · simp at h
        · rename_i kids hk
          rw [mapM_option_mono _ _ (createAndFillO_fuel_succ S fuel) tys kids hk]
          exact h

theorem createAndFillO_fuel_mono (S : Schema) (fuel k : Nat) (ty : TypeId) (n : Node)
    (h : createAndFill S fuel ty = some n) : createAndFill S (fuel + k) ty = some n := by
  induction k with
  | zero => exact h
  | succ k ih => exact createAndFillO_fuel_succ S _ ty n ih

/-- the nodes of a filling have the filling's types -/
theorem fillBeforeNodes_types (S : Schema) (d : Dfa) (q : Nat) (after : List TypeId) (toEnd : Bool)
    (ns : List Node) (h : fillBeforeNodes S d q after toEnd = some (some ns)) :
    fillBeforeTypes S d q after toEnd = some (S.types ns) := by
  unfold fillBeforeNodes at h
  split at h
  · simp at h
  · rename_i tys htys
    split at h
    · simp at h
    · rename_i r hr
      simp only [Option.some.injEq] at h
      subst h
      rw [htys, mapM_createAndFill_types S _ tys r hr]

/-! ### find_wrapping: what an answer means -/

/-- an item of the queue: the root (the position asked about, no wrappers yet), or the start of the
    innermost wrapper chosen so far -/
def WrapItem.ok (q : Nat) (it : WrapItem) : Prop :=
  (it.ty = none ∧ it.state = q ∧ it.chain = []) ∨
  (∃ t c, it.ty = some t ∧ it.state = 0 ∧ it.chain = c ++ [t])

theorem wrapEdges_ok (S : Schema) (d : Dfa) (q : Nat) (cur : WrapItem) :
    ∀ (edges : List (TypeId × Nat)) (seen : List TypeId) (it : WrapItem),
      it ∈ (wrapEdges S d cur edges seen).1 → it.ok q
  | [], seen, it, h => by simp [wrapEdges] at h
  | (t, nxt) :: rest, seen, it, h => by
    unfold wrapEdges at h
    split at h
    · simp only [List.mem_cons] at h
      rcases h with rfl | h
      · exact .inr ⟨t, cur.chain, rfl, rfl, rfl⟩
      · exact wrapEdges_ok S d q cur rest _ it h
    · exact wrapEdges_ok S d q cur rest _ it h

theorem wrapSearchO_spec (S : Schema) (root : Dfa) (q : Nat) (target : TypeId) :
    ∀ (fuel : Nat) (queue : List WrapItem) (seen : List TypeId) (w : List TypeId),
      (∀ it ∈ queue, it.ok q) → wrapSearchO S root target fuel queue seen = some w →
      (w = [] ∧ (root.matchType q target).isSome = true) ∨
      (∃ t c, w = c ++ [t] ∧ ((S.dfa t).matchType 0 target).isSome = true)
  | 0, _, _, _, _, h => by simp [wrapSearchO] at h
  | _ + 1, [], _, _, _, h => by simp [wrapSearchO] at h
  | fuel + 1, cur :: queue, seen, w, hq, h => by
    rw [wrapSearchO.eq_3] at h
    have hrest : ∀ (d : Dfa) (fuel' : Nat),
        wrapSearchO S root target fuel' (queue ++ (wrapEdges S d cur (d.edgesOf cur.state) seen).1)
          (wrapEdges S d cur (d.edgesOf cur.state) seen).2 = some w → fuel' = fuel →
        (w = [] ∧ (root.matchType q target).isSome = true) ∨
        (∃ t c, w = c ++ [t] ∧ ((S.dfa t).matchType 0 target).isSome = true) := by
      intro d fuel' h' hf
      subst hf
      refine wrapSearchO_spec S root q target fuel' _ _ w ?_ h'
      intro it hit
      rcases List.mem_append.1 hit with hit | hit
      · exact hq it (List.mem_cons_of_mem _ hit)
      · exact wrapEdges_ok S _ q cur _ _ it hit
    rcases hq cur (by simp) with ⟨h1, h2, h3⟩ | ⟨t, c, h1, h2, h3⟩
    · simp only [h1] at h
      split at h
      · rename_i hm
        simp only [Option.some.injEq] at h
        subst h
        rw [h2] at hm
        exact .inl ⟨h3, hm⟩
      · exact hrest _ _ h rfl
    · simp only [h1] at h
      split at h
      · rename_i hm
        simp only [Option.some.injEq] at h
        subst h
        rw [h2] at hm
        exact .inr ⟨t, c, h3, hm⟩
      · exact hrest _ _ h rfl

/-- **what `find_wrapping` answers**: the empty chain exactly when the type matches here already;
    otherwise the innermost wrapper accepts the type as its first child -/
theorem findWrappingTypes_spec (S : Schema) (d : Dfa) (q : Nat) (target : TypeId) (w : List TypeId)
    (h : findWrappingTypes S d q target = some w) :
    (w = [] ∧ (d.matchType q target).isSome = true) ∨
    (∃ t c, w = c ++ [t] ∧ ((S.dfa t).matchType 0 target).isSome = true) := by
  unfold findWrappingTypes at h
  refine wrapSearchO_spec S d q target _ _ _ w ?_ h
  intro it hit
  simp only [List.mem_singleton] at hit
  subst hit
  exact .inl ⟨rfl, rfl, rfl⟩

/-- a type that matches here needs no wrapper: the answer is the empty chain -/
theorem findWrappingTypes_of_match (S : Schema) (d : Dfa) (q : Nat) (target : TypeId)
    (h : (d.matchType q target).isSome = true) : findWrappingTypes S d q target = some [] := by
  unfold findWrappingTypes
  rw [wrapSearchO.eq_3]
  simp only [h, if_true]

/-! ### find_wrapping: the chain can be opened step by step -/

/-- every wrapper of the chain is a possible wrapper type and is accepted where it is opened: the
    first at state `q` of `d`, each next one as first child of the one before -/
def ChainFrom (S : Schema) : Dfa → Nat → List TypeId → Prop
  | _, _, [] => True
  | d, q, w :: rest => S.wrappable w = true ∧ (d.matchType q w).isSome = true ∧ ChainFrom S (S.dfa w) 0 rest

/-- where the chain ends: the automaton and state the next wrapper (or the target) is matched in -/
def chainEnd (S : Schema) (d : Dfa) (q : Nat) : List TypeId → Dfa × Nat
  | [] => (d, q)
  | w :: rest => chainEnd S (S.dfa w) 0 rest

theorem ChainFrom_snoc (S : Schema) : ∀ (c : List TypeId) (d : Dfa) (q : Nat) (t : TypeId),
    ChainFrom S d q c → S.wrappable t = true →
    (((chainEnd S d q c).1).matchType (chainEnd S d q c).2 t).isSome = true → ChainFrom S d q (c ++ [t])
  | [], _, _, _, _, hw, hm => ⟨hw, hm, trivial⟩
  | w :: rest, _, _, t, ⟨h1, h2, h3⟩, hw, hm => ⟨h1, h2, ChainFrom_snoc S rest (S.dfa w) 0 t h3 hw hm⟩

theorem chainEnd_snoc (S : Schema) : ∀ (c : List TypeId) (d : Dfa) (q : Nat) (t : TypeId),
    chainEnd S d q (c ++ [t]) = (S.dfa t, 0)
  | [], _, _, _ => rfl
  | w :: rest, _, _, t => chainEnd_snoc S rest (S.dfa w) 0 t

/-- a queue item: its chain can be opened from the root position and ends at the item's position -/
def WrapItem.chainOk (S : Schema) (root : Dfa) (q : Nat) (it : WrapItem) : Prop :=
  ChainFrom S root q it.chain ∧
    chainEnd S root q it.chain = ((match it.ty with | none => root | some t => S.dfa t), it.state)

theorem wrapEdges_chainOk (S : Schema) (root : Dfa) (q : Nat) (cur : WrapItem) (d : Dfa)
    (hd : d = (match cur.ty with | none => root | some t => S.dfa t)) (hcur : cur.chainOk S root q) :
    ∀ (edges : List (TypeId × Nat)) (seen : List TypeId), (∀ e ∈ edges, e ∈ d.edgesOf cur.state) →
      ∀ it ∈ (wrapEdges S d cur edges seen).1, it.chainOk S root q
  | [], seen, _, it, h => by simp [wrapEdges] at h
  | (t, nxt) :: rest, seen, hsub, it, h => by
    have ih := fun seen' => wrapEdges_chainOk S root q cur d hd hcur rest seen'
      (fun e he => hsub e (List.mem_cons_of_mem _ he))
    unfold wrapEdges at h
    split at h
    · rename_i hc
      simp only [Bool.and_eq_true] at hc
      simp only [List.mem_cons] at h
      rcases h with rfl | h
      · have hm : (d.matchType cur.state t).isSome = true :=
          Dfa.matchType_isSome_of_mem (hsub (t, nxt) (by simp))
        refine ⟨ChainFrom_snoc S cur.chain root q t hcur.1 hc.1.1 ?_, ?_⟩
        · rw [hcur.2, ← hd]; exact hm
        · simp only [chainEnd_snoc]
      · exact ih _ it h
    · exact ih _ it h

theorem wrapSearchO_chain (S : Schema) (root : Dfa) (q : Nat) (target : TypeId) :
    ∀ (fuel : Nat) (queue : List WrapItem) (seen : List TypeId) (w : List TypeId),
      (∀ it ∈ queue, it.chainOk S root q) → wrapSearchO S root target fuel queue seen = some w →
      ChainFrom S root q w
  | 0, _, _, _, _, h => by simp [wrapSearchO] at h
  | _ + 1, [], _, _, _, h => by simp [wrapSearchO] at h
  | fuel + 1, cur :: queue, seen, w, hq, h => by
    rw [wrapSearchO.eq_3] at h
    have hrest : ∀ (d : Dfa), d = (match cur.ty with | none => root | some t => S.dfa t) →
        wrapSearchO S root target fuel (queue ++ (wrapEdges S d cur (d.edgesOf cur.state) seen).1)
          (wrapEdges S d cur (d.edgesOf cur.state) seen).2 = some w → ChainFrom S root q w := by
      intro d hd h'
      refine wrapSearchO_chain S root q target fuel _ _ w ?_ h'
      intro it hit
      rcases List.mem_append.1 hit with hit | hit
      · exact hq it (List.mem_cons_of_mem _ hit)
      · exact wrapEdges_chainOk S root q cur d hd (hq cur (by simp)) _ _ (fun e he => he) it hit
    cases hty : cur.ty with
    | none =>
      simp only [hty] at h hrest
      split at h
      · simp only [Option.some.injEq] at h
        subst h
        exact (hq cur (by simp)).1
      · exact hrest root rfl h
    | some t =>
      simp only [hty] at h hrest
      split at h
      · simp only [Option.some.injEq] at h
        subst h
        exact (hq cur (by simp)).1
      · exact hrest (S.dfa t) rfl h

/-- **the wrappers `find_wrapping` answers can be opened one inside the other**, starting at the
    position asked about -/
theorem findWrappingTypes_chain (S : Schema) (d : Dfa) (q : Nat) (target : TypeId) (w : List TypeId)
    (h : findWrappingTypes S d q target = some w) : ChainFrom S d q w := by
  unfold findWrappingTypes at h
  refine wrapSearchO_chain S d q target _ _ _ w ?_ h
  intro it hit
  simp only [List.mem_singleton] at hit
  subst hit
  exact ⟨trivial, rfl⟩

/-! ### find_wrapping: the fuel is enough (simulation by `wrapSearch` of PM/Fill.lean) -/

def WrapItem.toActive (it : WrapItem) : Active :=
  { dfaOf := it.ty.getD 0, state := it.state, chain := it.chain, root := it.ty.isNone }

theorem wrappable_eq (S : Schema) (t : TypeId) : S.wrappable t = S.wrapOk t := rfl

theorem wrapEdges_sim (S : Schema) (d : Dfa) (cur : WrapItem) :
    ∀ (edges : List (TypeId × Nat)) (seen : List TypeId),
      ((wrapEdges S d cur edges seen).1.map WrapItem.toActive, (wrapEdges S d cur edges seen).2) =
        wrapExpand S d cur.toActive edges seen
  | [], seen => by simp [wrapEdges, wrapExpand]
  | (t, nxt) :: rest, seen => by
    have ih1 := wrapEdges_sim S d cur rest (t :: seen)
    have ih2 := wrapEdges_sim S d cur rest seen
    have hR : wrapExpand S d cur.toActive ((t, nxt) :: rest) seen =
        if (S.wrappable t && !seen.contains t && (cur.ty.isNone || d.validEnd nxt)) = true then
          ({ dfaOf := t, state := 0, chain := cur.chain ++ [t], root := false } ::
            (wrapExpand S d cur.toActive rest (t :: seen)).1, (wrapExpand S d cur.toActive rest (t :: seen)).2)
        else wrapExpand S d cur.toActive rest seen := rfl
    have hL : wrapEdges S d cur ((t, nxt) :: rest) seen =
        if (S.wrappable t && !seen.contains t && (cur.ty.isNone || d.validEnd nxt)) = true then
          (⟨some t, 0, cur.chain ++ [t]⟩ :: (wrapEdges S d cur rest (t :: seen)).1,
            (wrapEdges S d cur rest (t :: seen)).2)
        else wrapEdges S d cur rest seen := rfl
    rw [hL, hR]
    by_cases hc : (S.wrappable t && !seen.contains t && (cur.ty.isNone || d.validEnd nxt)) = true
    · rw [if_pos hc, if_pos hc, ← ih1]
      rfl
    · rw [if_neg hc, if_neg hc]
      exact ih2

theorem wrapSearchO_sim (S : Schema) (root : Dfa) (target : TypeId) :
    ∀ (fuel : Nat) (queue : List WrapItem) (seen : List TypeId),
      wrapSearchO S root target fuel queue seen =
        wrapSearch S root target fuel (queue.map WrapItem.toActive) seen
  | 0, _, _ => by simp [wrapSearchO, wrapSearch]
  | _ + 1, [], _ => by simp [wrapSearchO, wrapSearch]
  | fuel + 1, cur :: queue, seen => by
    have ih := wrapSearchO_sim S root target fuel
    -- the automaton the popped item is positioned in
    obtain ⟨d, hd1, hd2⟩ : ∃ d : Dfa, (match cur.ty with | none => root | some t => S.dfa t) = d ∧
        cur.toActive.dfa S root = d := by
      refine ⟨_, rfl, ?_⟩
      unfold Active.dfa WrapItem.toActive
      cases cur.ty <;> simp
    have hL : wrapSearchO S root target (fuel + 1) (cur :: queue) seen =
        if (d.matchType cur.state target).isSome = true then some cur.chain
        else wrapSearchO S root target fuel (queue ++ (wrapEdges S d cur (d.edgesOf cur.state) seen).1)
          (wrapEdges S d cur (d.edgesOf cur.state) seen).2 := by
      rw [wrapSearchO.eq_3]
      subst hd1
      rfl
    have hR : wrapSearch S root target (fuel + 1) (cur.toActive :: queue.map WrapItem.toActive) seen =
        if (d.matchType cur.state target).isSome = true then some cur.chain
        else wrapSearch S root target fuel
          (queue.map WrapItem.toActive ++ (wrapExpand S d cur.toActive (d.edgesOf cur.state) seen).1)
          (wrapExpand S d cur.toActive (d.edgesOf cur.state) seen).2 := by
      rw [wrapSearch.eq_3, hd2]
      rfl
    rw [List.map_cons, hL, hR]
    by_cases hc : (d.matchType cur.state target).isSome = true
    · rw [if_pos hc, if_pos hc]
    · rw [if_neg hc, if_neg hc, ih, List.map_append, ← wrapEdges_sim S d cur (d.edgesOf cur.state) seen]

/-- **the fuel of `find_wrapping` is enough**: with labels in range (`n` = number of node types),
    `none` means that no position reachable through wrappers accepts the target — in particular no
    wrapper chain exists -/
theorem findWrappingTypes_complete (S : Schema) (d : Dfa) (q : Nat) (target : TypeId)
    (hwf : ∀ x t s, (t, s) ∈ (wDfa S d x).edgesOf (wState q x) → t < S.nodes.size)
    (h : findWrappingTypes S d q target = none) :
    ∀ x m, WReach S d q x m → ¬ WGoal S d q target x := by
  unfold findWrappingTypes at h
  rw [wrapSearchO_sim] at h
  refine wrapSearch_complete S d q target S.nodes.size hwf _ _ _ (winv_init S d q target) ?_ h
  have := unseen_le S.nodes.size []
  simp only [List.length_cons, List.length_nil]
  omega

end PM
