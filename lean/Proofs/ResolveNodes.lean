/-
  Proofs/ResolveNodes.lean — `node_before` / `node_after` / `marks()` of a resolved position
  against the token sequence (helper lemmas for Props/C09.lean).
-/
import PM.Resolve
import Proofs.Toks
import Proofs.TokCore
import Proofs.Resolve
namespace PM

theorem window_shift {α : Type} (G T : List α) (p n k : Nat) (h : (G.drop p).take n = T) :
    (G.drop (p + k)).take (n - k) = T.drop k := by
  rw [← h, List.drop_take, List.drop_drop]

theorem window_prefix {α : Type} (G T : List α) (p n k : Nat) (h : (G.drop p).take n = T) (hk : k ≤ n) :
    (G.drop p).take k = T.take k := by
  rw [← h, List.take_take, Nat.min_eq_left hk]

theorem fsize_take_succ (kids : List Node) (i : Nat) (c : Node) (h : kids[i]? = some c) :
    fsize (kids.take (i + 1)) = fsize (kids.take i) + c.size := by
  have hs := kids_split kids i c h
  have hl : (kids.take i).length = i := by
    have : i < kids.length := by
      rcases Nat.lt_or_ge i kids.length with h' | h'
      · exact h'
      · simp [List.getElem?_eq_none h'] at h
    simp; omega
  conv => lhs; rw [hs]
  rw [List.take_append, hl, List.take_of_length_le (by omega), show i + 1 - i = 1 by omega]
  simp [fsize_append]

/-- the facts about the innermost level of a resolved position that `node_before`, `node_after`
    and `marks` read -/
structure Innermost (doc : Node) (pos : Nat) (r : RPos) : Prop where
  idx_le : r.index r.depth ≤ r.parent.kids.length
  epos : (r.entry r.depth).pos = r.start r.depth + fsize (r.parent.kids.take (r.index r.depth))
  off : r.textOffset + (r.entry r.depth).pos = pos
  window : ((ftoks doc.kids).drop (r.start r.depth)).take (fsize r.parent.kids) = ftoks r.parent.kids
  inText : r.textOffset ≠ 0 →
    ∃ s m, r.parent.kids[r.index r.depth]? = some (.text s m) ∧ r.textOffset < s.length

theorem innermost {doc : Node} {pos : Nat} {r : RPos} (h : doc.resolve pos = some r) :
    Innermost doc pos r := by
  have R := resolve_resolved h
  have E := R.entry r.depth (Nat.le_refl _)
  refine ⟨E.idx_le, E.pos_eq, ?_, R.window_kids r.depth (Nat.le_refl _), ?_⟩
  · have := E.pos_le
    simp only [RPos.textOffset, R.pos_eq]; omega
  · intro hne
    simp only [RPos.textOffset, R.pos_eq] at hne ⊢
    rcases R.last with hl | ⟨s, m, hs, hlt⟩
    · omega
    · exact ⟨s, m, hs, hlt⟩

/-- **node_after**, structurally -/
theorem nodeAfter_struct (r : RPos) :
    (r.textOffset = 0 → r.nodeAfter = r.parent.kids[r.index r.depth]?) ∧
    (∀ s m, r.textOffset ≠ 0 → r.parent.kids[r.index r.depth]? = some (.text s m) →
      r.nodeAfter = if splitOk s r.textOffset then some (.text (s.drop r.textOffset) m) else none) := by
  constructor
  · intro h0
    unfold RPos.nodeAfter
    cases r.parent.kids[r.index r.depth]? with
    | none => rfl
    | some c => simp [h0]
  · intro s m hne hc
    unfold RPos.nodeAfter
    rw [hc]; simp [hne]

/-- **node_before**, structurally -/
theorem nodeBefore_struct (r : RPos) :
    (r.textOffset = 0 → r.nodeBefore =
      if r.index r.depth = 0 then none else r.parent.kids[r.index r.depth - 1]?) ∧
    (∀ s m, r.textOffset ≠ 0 → r.parent.kids[r.index r.depth]? = some (.text s m) →
      r.nodeBefore = if splitOk s r.textOffset then some (.text (s.take r.textOffset) m) else none) := by
  constructor
  · intro h0
    unfold RPos.nodeBefore
    simp [h0]
  · intro s m hne hc
    unfold RPos.nodeBefore
    rw [hc]; simp [hne]

/-- **node_after on tokens**: the node after the position is what the tokens from the position on spell -/
theorem nodeAfter_toks {doc : Node} {pos : Nat} {r : RPos} (h : doc.resolve pos = some r)
    (a : Node) (ha : r.nodeAfter = some a) :
    ((ftoks doc.kids).drop pos).take a.size = a.toks ∧ pos + a.size ≤ r.end_ r.depth := by
  have I := innermost h
  have hend : r.end_ r.depth = r.start r.depth + fsize r.parent.kids := rfl
  obtain ⟨s0, s1⟩ := nodeAfter_struct r
  by_cases h0 : r.textOffset = 0
  · rw [s0 h0] at ha
    have hp : pos = r.start r.depth + fsize (r.parent.kids.take (r.index r.depth)) := by
      have := I.off; have := I.epos; omega
    have hw := window_child _ _ _ _ _ I.window ha
    have hb := child_size_le _ _ _ ha
    rw [← hp] at hw
    exact ⟨hw, by omega⟩
  · obtain ⟨s, m, hc, hlt⟩ := I.inText h0
    rw [s1 s m h0 hc] at ha
    split at ha
    · simp only [Option.some.injEq] at ha; subst ha
      have hw := window_child _ _ _ _ _ I.window hc
      rw [← I.epos] at hw
      have hw2 := window_shift _ _ _ _ r.textOffset hw
      have hb := child_size_le _ _ _ hc
      have hoff := I.off; have hepos := I.epos
      simp only [Node.size_text, Node.toks_text, List.length_drop] at hw2 hb ⊢
      rw [show (r.entry r.depth).pos + r.textOffset = pos by omega, ← List.map_drop] at hw2
      exact ⟨hw2, by omega⟩
    · simp at ha

/-- **node_before on tokens**: the node before the position is what the tokens up to the position spell -/
theorem nodeBefore_toks {doc : Node} {pos : Nat} {r : RPos} (h : doc.resolve pos = some r)
    (b : Node) (hb : r.nodeBefore = some b) :
    r.start r.depth + b.size ≤ pos ∧
    ((ftoks doc.kids).drop (pos - b.size)).take b.size = b.toks := by
  have I := innermost h
  obtain ⟨s0, s1⟩ := nodeBefore_struct r
  by_cases h0 : r.textOffset = 0
  · rw [s0 h0] at hb
    split at hb
    · simp at hb
    · rename_i hi
      obtain ⟨j, hj⟩ : ∃ j, r.index r.depth = j + 1 := ⟨r.index r.depth - 1, by omega⟩
      rw [hj, Nat.add_sub_cancel] at hb
      have hp : pos = r.start r.depth + fsize (r.parent.kids.take (j + 1)) := by
        have := I.off; have := I.epos; rw [hj] at this; omega
      have hsz := fsize_take_succ _ _ _ hb
      have hw := window_child _ _ _ _ _ I.window hb
      rw [show r.start r.depth + fsize (r.parent.kids.take j) = pos - b.size by omega] at hw
      exact ⟨by omega, hw⟩
  · obtain ⟨s, m, hc, hlt⟩ := I.inText h0
    rw [s1 s m h0 hc] at hb
    split at hb
    · simp only [Option.some.injEq] at hb; subst hb
      have hw := window_child _ _ _ _ _ I.window hc
      rw [← I.epos] at hw
      have hw2 := window_prefix _ _ _ _ r.textOffset hw (by simp; omega)
      have hoff := I.off; have hepos := I.epos
      simp only [Node.size_text, Node.toks_text, List.length_take] at hw2 ⊢
      rw [Nat.min_eq_left (by omega)]
      rw [show pos - r.textOffset = (r.entry r.depth).pos by omega]
      rw [← List.map_take] at hw2
      exact ⟨by omega, hw2⟩
    · simp at hb

end PM
