/- Proofs/StepValid.lean — helper lemmas for Props/C01.lean (validity of what each step kind builds) -/
import PM.Step
import Proofs.ReplaceValid
import Proofs.Marks
namespace PM

/-! ### mark sets -/

theorem setFrom_of_sorted (l : Marks) (h : RankSorted l) : setFrom l = l := by
  unfold setFrom
  suffices hs : ∀ (rest acc : Marks), RankSorted (acc ++ rest) →
      rest.foldl (fun acc m => insertByRank m acc) acc = acc ++ rest by
    simpa using hs l [] (by simpa using h)
  intro rest
  induction rest with
  | nil => intro acc _; simp
  | cons x xs ih =>
    intro acc hs
    have hle : ∀ o, o ∈ acc → o.ty ≤ x.ty := fun o ho =>
      (List.pairwise_append.mp hs).2.2 o ho x (by simp)
    simp only [List.foldl_cons]
    rw [insertByRank_of_le x acc hle, ih (acc ++ [x]) (by simpa using hs)]
    simp

theorem setFrom_canonical (S : Schema) (m : Marks) (h : canonicalMarks S m = true) :
    canonicalMarks S (setFrom m) = true := by
  rw [setFrom_of_sorted m ((canonicalMarks_iff_canonP S m).1 h).sorted]; exact h

theorem addToSet_canonical (S : Schema) (mrk : Mark) (m : Marks) (h : canonicalMarks S m = true) :
    canonicalMarks S (mrk.addToSet S m) = true :=
  (canonicalMarks_iff_canonP S _).2 (addToSet_canonP S mrk m ((canonicalMarks_iff_canonP S m).1 h))

theorem removeFromSet_canonical (S : Schema) (mrk : Mark) (m : Marks) (h : canonicalMarks S m = true) :
    canonicalMarks S (mrk.removeFromSet m) = true :=
  (canonicalMarks_iff_canonP S _).2 (removeFromSet_canonP S mrk m ((canonicalMarks_iff_canonP S m).1 h))

theorem mem_addToSet (S : Schema) (mrk x : Mark) (set : Marks) (h : x ∈ mrk.addToSet S set) :
    x = mrk ∨ x ∈ set := by
  rw [addToSet_eq] at h
  split at h
  · exact .inr h
  · rcases (mem_insertByRank mrk x _).mp h with h | h
    · exact .inl h
    · exact .inr (List.mem_filter.mp h).1

theorem allowsMarks_addToSet (S : Schema) (nt : NodeType) (mrk : Mark) (m : Marks)
    (ha : nt.allowsMarkType mrk.ty = true) (h : nt.allowsMarks m = true) :
    nt.allowsMarks (mrk.addToSet S m) = true := by
  simp only [NodeType.allowsMarks, List.all_eq_true] at h ⊢
  intro x hx
  rcases mem_addToSet S mrk x m hx with rfl | hx
  · exact ha
  · exact h x hx

theorem allowsMarks_removeFromSet (nt : NodeType) (mrk : Mark) (m : Marks)
    (h : nt.allowsMarks m = true) : nt.allowsMarks (mrk.removeFromSet m) = true := by
  simp only [NodeType.allowsMarks, List.all_eq_true, Mark.removeFromSet] at h ⊢
  intro x hx
  exact h x (List.mem_filter.mp hx).1

/-! ### `node_at`, `recreate`, the node-markup steps -/

theorem nodeAtKids_valid (S : Schema) : ∀ (kids : List Node) (pos : Nat) (n : Node),
    S.checkKids kids = true → nodeAtKids kids pos = .ok (some n) → S.checkNode n = true
  | [], pos, n, hk, h => by
    unfold nodeAtKids at h
    split at h <;> simp at h
  | x :: xs, pos, n, hk, h => by
    simp only [checkKids_cons, Bool.and_eq_true] at hk
    unfold nodeAtKids at h
    split at h
    · simp at h; subst h; exact hk.1
    · split at h
      · exact nodeAtKids_valid S xs _ n hk.2 h
      · cases x with
        | text s m => simp at h; subst h; exact hk.1
        | leaf t a m => simp at h; subst h; exact hk.1
        | elem t a m kids =>
          have h1 := hk.1
          simp only [checkNode_elem, Bool.and_eq_true] at h1
          exact nodeAtKids_valid S kids _ n h1.2 h

theorem checkNode_kids {S : Schema} {doc : Node} (h : S.checkNode doc = true) :
    S.checkKids doc.kids = true := by
  cases doc with
  | text s m => simp [Node.kids]
  | leaf t a m => simp [Node.kids]
  | elem t a m k =>
    simp only [checkNode_elem, Bool.and_eq_true] at h
    simpa [Node.kids] using h.2

/-- the one-node payload the node-mark / attr steps build is a valid payload -/
theorem recreate_payload (S : Schema) (n u : Node) (attrs : Attrs) (marks : Marks)
    (hn : S.checkNode n = true) (hm : canonicalMarks S marks = true)
    (h : S.recreate n attrs marks = .ok u) :
    openValid S 0 (if n.isLeaf then 0 else 1) [u] = true := by
  unfold Schema.recreate at h
  cases n with
  | text s m => simp at h
  | leaf t a m =>
    simp only at h
    cases hc : computeAttrs (S.nodeType t).attrs attrs with
    | error e => rw [hc] at h; simp [Except.map] at h
    | ok a' =>
      rw [hc] at h; simp [Except.map] at h; subst h
      simp only [checkNode_leaf, Bool.and_eq_true] at hn
      simp [Node.isLeaf, openValid, rightOpenValid, checkNode_leaf, setFrom_canonical S marks hm, hn.2]
  | elem t a m k =>
    simp only at h
    cases hc : computeAttrs (S.nodeType t).attrs attrs with
    | error e => rw [hc] at h; simp [Except.map] at h
    | ok a' =>
      rw [hc] at h; simp [Except.map] at h; subst h
      simp [Node.isLeaf, openValid, rightOpenValid, setFrom_canonical S marks hm]

theorem nodeStep_valid (S : Schema) (doc doc' n u : Node) (pos : Nat) (attrs : Attrs) (marks : Marks)
    (hd : S.checkNode doc = true) (hn : doc.nodeAt pos = .ok (some n))
    (hm : canonicalMarks S marks = true) (hu : S.recreate n attrs marks = .ok u)
    (h : S.replace doc pos (pos + 1) ⟨[u], 0, if n.isLeaf then 0 else 1⟩ = .ok doc') :
    S.checkNode doc' = true := by
  have hnv := nodeAtKids_valid S doc.kids pos n (checkNode_kids hd) hn
  exact replace_valid S doc doc' pos (pos + 1) _ hd (recreate_payload S n u attrs marks hnv hm hu) h

theorem Node.marks_canonical {S : Schema} {n : Node} (h : S.checkNode n = true) :
    canonicalMarks S n.marks = true := by
  cases n with
  | text s m => simpa [Node.marks] using h
  | leaf t a m =>
    simp only [checkNode_leaf, Bool.and_eq_true] at h; simpa [Node.marks] using h.1
  | elem t a m k =>
    simp only [checkNode_elem, Bool.and_eq_true] at h; simpa [Node.marks] using h.1.2

/-! ### text merging and the content automaton -/

/-- same statement as `C01.TextStable` (Props files are not importable from here) -/
def TextStableP (S : Schema) : Prop :=
  ∀ t q q1 q2, (S.dfa t).matchType q S.textTy = some q1 →
    (S.dfa t).matchType q1 S.textTy = some q2 → q2 = q1

theorem Dfa.run_append_sv (d : Dfa) : ∀ (q : Nat) (a b : List TypeId),
    d.run q (a ++ b) = (d.run q a).bind (fun q' => d.run q' b)
  | q, [], b => by simp [Dfa.run]
  | q, x :: xs, b => by
    simp only [List.cons_append, Dfa.run]
    split
    · exact Dfa.run_append_sv d _ xs b
    · rfl

theorem Dfa.run_text_text {S : Schema} (hts : TextStableP S) (t : TypeId) (q r : Nat)
    (rest : List TypeId)
    (h : (S.dfa t).run q (S.textTy :: S.textTy :: rest) = some r) :
    (S.dfa t).run q (S.textTy :: rest) = some r := by
  simp only [Dfa.run] at h ⊢
  split at h
  · rename_i q1 h1
    split at h
    · rename_i q2 h2
      have := hts t q q1 q2 h1 h2
      subst this
      exact h
    · simp at h
  · simp at h

theorem types_append (S : Schema) (a b : List Node) : S.types (a ++ b) = S.types a ++ S.types b := by
  simp [Schema.types]

/-- one `add_node` step does not change the state the automaton reaches -/
theorem run_addNode {S : Schema} (hts : TextStableP S) (t : TypeId) (T : List Node) (c : Node)
    (rest : List TypeId) (q r : Nat)
    (h : (S.dfa t).run q (S.types (T ++ [c]) ++ rest) = some r) :
    (S.dfa t).run q (S.types (addNode T c) ++ rest) = some r := by
  unfold addNode
  split
  · rename_i s m s' m' hl
    split
    · have hT := getLast?_decomp hl
      rw [hT] at h
      simp only [types_append, List.append_assoc] at h ⊢
      rw [Dfa.run_append_sv] at h ⊢
      cases hq : (S.dfa t).run q (S.types T.dropLast) with
      | none => rw [hq] at h; simp at h
      | some q' =>
        rw [hq] at h
        simp only [Option.bind_some] at h ⊢
        exact Dfa.run_text_text hts t q' r rest (by simpa [Schema.types, Schema.tyOf, Node.tyOr] using h)
    · exact h
  · exact h

theorem run_addNodes {S : Schema} (hts : TextStableP S) (t : TypeId) : ∀ (cs T : List Node) (q r : Nat),
    (S.dfa t).run q (S.types (T ++ cs)) = some r →
    (S.dfa t).run q (S.types (addNodes T cs)) = some r
  | [], T, q, r, h => by simpa [addNodes] using h
  | c :: cs, T, q, r, h => by
    simp only [addNodes, List.foldl_cons]
    apply run_addNodes hts t cs (addNode T c) q r
    have h1 : S.types (T ++ c :: cs) = S.types (T ++ [c]) ++ S.types cs := by
      rw [← types_append]; simp
    rw [h1] at h
    have := run_addNode hts t T c (S.types cs) q r h
    rwa [← types_append] at this

theorem addNode_marks (P : Marks → Prop) (T : List Node) (c : Node)
    (hT : ∀ y ∈ T, P y.marks) (hc : P c.marks) : ∀ x ∈ addNode T c, P x.marks := by
  unfold addNode
  split
  · rename_i s m s' m' hl
    split
    · intro x hx
      rcases List.mem_append.mp hx with hx | hx
      · exact hT x (List.dropLast_subset T hx)
      · simp at hx; subst hx
        have := hT _ (List.mem_of_getLast? hl)
        simpa [Node.marks] using this
    · intro x hx
      rcases List.mem_append.mp hx with hx | hx
      · exact hT x hx
      · simp at hx; subst hx; exact hc
  · intro x hx
    rcases List.mem_append.mp hx with hx | hx
    · exact hT x hx
    · simp at hx; subst hx; exact hc

theorem addNodes_marks (P : Marks → Prop) : ∀ (cs T : List Node),
    (∀ y ∈ T, P y.marks) → (∀ y ∈ cs, P y.marks) → ∀ x ∈ addNodes T cs, P x.marks
  | [], T, hT, _ => by simpa [addNodes] using hT
  | c :: cs, T, hT, hc => by
    simp only [addNodes, List.foldl_cons]
    exact addNodes_marks P cs (addNode T c)
      (addNode_marks P T c hT (hc c (by simp))) (fun y hy => hc y (by simp [hy]))

/-- under `TextStable`, `from_array` keeps content validity -/
theorem validContent_fromArray {S : Schema} (hts : TextStableP S) (t : TypeId) (L : List Node)
    (h : S.validContent t L = true) : S.validContent t (fromArray L) = true := by
  simp only [Schema.validContent, Bool.and_eq_true, List.all_eq_true] at h ⊢
  constructor
  · have h1 := h.1
    simp only [Dfa.accepts] at h1 ⊢
    split at h1
    · rename_i q hq
      have := run_addNodes hts t L [] 0 q (by simpa using hq)
      simp only [fromArray, this]; exact h1
    · simp at h1
  · exact addNodes_marks (fun m => (S.nodeType t).allowsMarks m = true) L [] (by simp) h.2

/-! ### shape of `from_array` around non-text nodes -/

theorem addNode_ne_nil (T : List Node) (c : Node) : addNode T c ≠ [] := by
  unfold addNode
  split
  · split <;> simp
  · simp

theorem addNode_cons_head (e : Node) (T : List Node) (c : Node) (h : T ≠ [] ∨ e.isText = false) :
    addNode (e :: T) c = e :: addNode T c := by
  cases T with
  | nil =>
    rcases h with h | h
    · exact absurd rfl h
    · cases e with
      | text s m => simp [Node.isText] at h
      | leaf t a m => simp [addNode]
      | elem t a m k => simp [addNode]
  | cons y ys =>
    unfold addNode
    simp only [List.getLast?_cons_cons, List.dropLast_cons_cons, List.cons_append]
    split
    · split <;> rfl
    · rfl

theorem addNodes_cons_head (e : Node) : ∀ (cs T : List Node), (T ≠ [] ∨ e.isText = false) →
    addNodes (e :: T) cs = e :: addNodes T cs
  | [], T, _ => by simp [addNodes]
  | c :: cs, T, h => by
    simp only [addNodes, List.foldl_cons]
    rw [addNode_cons_head e T c h]
    exact addNodes_cons_head e cs (addNode T c) (.inl (addNode_ne_nil T c))

theorem fromArray_cons_nontext (e : Node) (rest : List Node) (h : e.isText = false) :
    fromArray (e :: rest) = e :: fromArray rest := by
  unfold fromArray
  have : addNodes [] (e :: rest) = addNodes [e] rest := by
    simp only [addNodes, List.foldl_cons]
    congr 1
  rw [this, addNodes_cons_head e rest [] (.inr h)]

theorem fromArray_concat_elem (X : List Node) (ty a m k) :
    fromArray (X ++ [Node.elem ty a m k]) = fromArray X ++ [Node.elem ty a m k] := by
  simp only [fromArray, addNodes, List.foldl_append, List.foldl_cons, List.foldl_nil]
  unfold addNode
  split
  · rename_i h; simp at h
  · rfl

/-! ### right-open validity as a decomposition -/

theorem rightOpenValid_succ_decomp (S : Schema) (b : Nat) : ∀ L : List Node,
    rightOpenValid S (b + 1) L = true → ∃ init ty a m k, L = init ++ [Node.elem ty a m k]
  | [], h => by simp [rightOpenValid] at h
  | [.text ..], h => by simp [rightOpenValid] at h
  | [.leaf ..], h => by simp [rightOpenValid] at h
  | [.elem ty a m k], _ => ⟨[], ty, a, m, k, rfl⟩
  | n :: n' :: rest, h => by
    simp only [rightOpenValid, Bool.and_eq_true] at h
    obtain ⟨init, ty, a, m, k, he⟩ := rightOpenValid_succ_decomp S b (n' :: rest) h.2
    exact ⟨n :: init, ty, a, m, k, by rw [he]; rfl⟩

theorem rightOpenValid_concat_mk (S : Schema) (b : Nat) (ty a m) (k : List Node) : ∀ init : List Node,
    S.checkKids init = true → canonicalMarks S m = true → rightOpenValid S b k = true →
    rightOpenValid S (b + 1) (init ++ [Node.elem ty a m k]) = true
  | [], _, hm, hk => by simp only [List.nil_append, rightOpenValid, hm, hk]; rfl
  | x :: xs, hi, hm, hk => by
    simp only [checkKids_cons, Bool.and_eq_true] at hi
    exact rightOpenValid_cons hi.1 (rightOpenValid_concat_mk S b ty a m k xs hi.2 hm hk)

/-! ### mapping marks over a payload (AddMarkStep / RemoveMarkStep) -/

/-- how a mark-step map may change the mark set of a child of a node of type `p` -/
def MarkGood (S : Schema) (p : TypeId) (m m' : Marks) : Prop :=
  (canonicalMarks S m = true → canonicalMarks S m' = true) ∧
  ((S.nodeType p).allowsMarks m = true → (S.nodeType p).allowsMarks m' = true)

/-- the shape shared by `addMarkNode` and `removeMarkNode`: markup-preserving up to the mark set,
    children mapped with their actual parent type and re-normalised with `from_array` -/
structure MarkMap (S : Schema) (g : TypeId → Node → Node) : Prop where
  text : ∀ p s m, ∃ m', g p (.text s m) = .text s m' ∧ MarkGood S p m m'
  leaf : ∀ p t a m, ∃ m', g p (.leaf t a m) = .leaf t a m' ∧ MarkGood S p m m'
  elem : ∀ p t a m k, ∃ m', g p (.elem t a m k) = .elem t a m' (fromArray (k.map (g t))) ∧
    MarkGood S p m m'

namespace MarkMap
variable {S : Schema} {g : TypeId → Node → Node}

theorem tyOf (hg : MarkMap S g) (p : TypeId) (n : Node) : S.tyOf (g p n) = S.tyOf n := by
  cases n with
  | text s m => obtain ⟨m', he, _⟩ := hg.text p s m; rw [he]; rfl
  | leaf t a m => obtain ⟨m', he, _⟩ := hg.leaf p t a m; rw [he]; rfl
  | elem t a m k => obtain ⟨m', he, _⟩ := hg.elem p t a m k; rw [he]; rfl

theorem allows (hg : MarkMap S g) (p : TypeId) (n : Node)
    (h : (S.nodeType p).allowsMarks n.marks = true) :
    (S.nodeType p).allowsMarks (g p n).marks = true := by
  cases n with
  | text s m => obtain ⟨m', he, hgood⟩ := hg.text p s m; rw [he]; exact hgood.2 h
  | leaf t a m => obtain ⟨m', he, hgood⟩ := hg.leaf p t a m; rw [he]; exact hgood.2 h
  | elem t a m k => obtain ⟨m', he, hgood⟩ := hg.elem p t a m k; rw [he]; exact hgood.2 h

theorem validContent_map (hg : MarkMap S g) (t : TypeId) (k : List Node)
    (h : S.validContent t k = true) : S.validContent t (k.map (g t)) = true := by
  simp only [Schema.validContent, Bool.and_eq_true, List.all_eq_true] at h ⊢
  constructor
  · have : S.types (k.map (g t)) = S.types k := by
      simp only [Schema.types, List.map_map]
      apply List.map_congr_left
      intro n _; exact hg.tyOf t n
    rw [this]; exact h.1
  · intro x hx
    obtain ⟨y, hy, rfl⟩ := List.mem_map.mp hx
    exact hg.allows t y (h.2 y hy)

mutual
theorem checkNode (hg : MarkMap S g) (hts : TextStableP S) : ∀ (n : Node) (p : TypeId),
    S.checkNode n = true → S.checkNode (g p n) = true
  | .text s m, p, h => by
    obtain ⟨m', he, hgood⟩ := hg.text p s m
    rw [he]; simp only [checkNode_text] at h ⊢; exact hgood.1 h
  | .leaf t a m, p, h => by
    obtain ⟨m', he, hgood⟩ := hg.leaf p t a m
    rw [he]; simp only [checkNode_leaf, Bool.and_eq_true] at h ⊢; exact ⟨hgood.1 h.1, h.2⟩
  | .elem t a m k, p, h => by
    obtain ⟨m', he, hgood⟩ := hg.elem p t a m k
    rw [he]; simp only [checkNode_elem, Bool.and_eq_true] at h ⊢
    exact ⟨⟨validContent_fromArray hts t _ (hg.validContent_map t k h.1.1), hgood.1 h.1.2⟩,
      fromArray_checkKids S _ (checkKids hg hts k t h.2)⟩
theorem checkKids (hg : MarkMap S g) (hts : TextStableP S) : ∀ (l : List Node) (p : TypeId),
    S.checkKids l = true → S.checkKids (l.map (g p)) = true
  | [], p, h => by simp
  | n :: ns, p, h => by
    simp only [checkKids_cons, Bool.and_eq_true, List.map_cons] at h ⊢
    exact ⟨checkNode hg hts n p h.1, checkKids hg hts ns p h.2⟩
end

theorem leftOpen (hg : MarkMap S g) (hts : TextStableP S) : ∀ (a : Nat) (k : List Node) (p : TypeId),
    leftOpenValid S a k = true → leftOpenValid S a (fromArray (k.map (g p))) = true
  | 0, k, p, h => by
    simp only [leftOpenValid] at h ⊢
    exact fromArray_checkKids S _ (hg.checkKids hts k p h)
  | a + 1, [], p, h => by simp [leftOpenValid] at h
  | a + 1, .text .. :: _, p, h => by simp [leftOpenValid] at h
  | a + 1, .leaf .. :: _, p, h => by simp [leftOpenValid] at h
  | a + 1, .elem t at_ m kk :: rest, p, h => by
    simp only [leftOpenValid, Bool.and_eq_true] at h
    obtain ⟨m', he, hgood⟩ := hg.elem p t at_ m kk
    rw [List.map_cons, he, fromArray_cons_nontext _ _ (by simp [Node.isText])]
    simp only [leftOpenValid, Bool.and_eq_true]
    exact ⟨⟨hgood.1 h.1.1, leftOpen hg hts a kk t h.1.2⟩,
      fromArray_checkKids S _ (hg.checkKids hts rest p h.2)⟩

theorem rightOpen (hg : MarkMap S g) (hts : TextStableP S) : ∀ (b : Nat) (L : List Node) (p : TypeId),
    rightOpenValid S b L = true → rightOpenValid S b (fromArray (L.map (g p))) = true
  | 0, L, p, h => by
    simp only [rightOpenValid] at h ⊢
    exact fromArray_checkKids S _ (hg.checkKids hts L p h)
  | b + 1, L, p, h => by
    obtain ⟨init, t, at_, m, k, rfl⟩ := rightOpenValid_succ_decomp S b L h
    obtain ⟨hi, hm, hk⟩ := rightOpenValid_concat S b t at_ m k init h
    obtain ⟨m', he, hgood⟩ := hg.elem p t at_ m k
    rw [List.map_append, List.map_cons, List.map_nil, he, fromArray_concat_elem]
    exact rightOpenValid_concat_mk S b t at_ m' _ _
      (fromArray_checkKids S _ (hg.checkKids hts init p hi)) (hgood.1 hm) (rightOpen hg hts b k t hk)

theorem openValid (hg : MarkMap S g) (hts : TextStableP S) : ∀ (a b : Nat) (M : List Node) (p : TypeId),
    PM.openValid S a b M = true → PM.openValid S a b (fromArray (M.map (g p))) = true
  | 0, b, M, p, h => by
    rw [openValid_zero_left] at h ⊢
    exact hg.rightOpen hts b M p h
  | a + 1, 0, M, p, h => by
    rw [openValid_zero_right] at h ⊢
    exact hg.leftOpen hts (a + 1) M p h
  | a + 1, b + 1, [], p, h => by simp [PM.openValid] at h
  | a + 1, b + 1, .text .. :: _, p, h => by simp [PM.openValid] at h
  | a + 1, b + 1, .leaf .. :: _, p, h => by simp [PM.openValid] at h
  | a + 1, b + 1, [.elem t at_ m k], p, h => by
    simp only [PM.openValid, Bool.and_eq_true] at h
    obtain ⟨m', he, hgood⟩ := hg.elem p t at_ m k
    rw [List.map_cons, List.map_nil, he, fromArray_cons_nontext _ _ (by simp [Node.isText])]
    have : fromArray ([] : List Node) = [] := rfl
    rw [this]
    exact openValid_single_elem (hgood.1 h.1) (openValid hg hts a b k t h.2)
  | a + 1, b + 1, .elem t at_ m k :: n :: rest, p, h => by
    simp only [PM.openValid, Bool.and_eq_true] at h
    obtain ⟨m', he, hgood⟩ := hg.elem p t at_ m k
    rw [List.map_cons, he, fromArray_cons_nontext _ _ (by simp [Node.isText])]
    exact openValid_cons_elem (hgood.1 h.1.1) (hg.leftOpen hts a k t h.1.2)
      (hg.rightOpen hts (b + 1) (n :: rest) p h.2)

end MarkMap

/-! ### the two instances -/

theorem MarkGood.refl (S : Schema) (p : TypeId) (m : Marks) : MarkGood S p m m := ⟨id, id⟩

theorem MarkGood.add (S : Schema) (p : TypeId) (mrk : Mark) (m : Marks)
    (h : (S.nodeType p).allowsMarkType mrk.ty = true) : MarkGood S p m (mrk.addToSet S m) :=
  ⟨addToSet_canonical S mrk m, allowsMarks_addToSet S _ mrk m h⟩

theorem MarkGood.remove (S : Schema) (p : TypeId) (mrk : Mark) (m : Marks) :
    MarkGood S p m (mrk.removeFromSet m) :=
  ⟨removeFromSet_canonical S mrk m, allowsMarks_removeFromSet _ mrk m⟩

theorem addMarkKids_eq_map (S : Schema) (mrk : Mark) (p : TypeId) (l : List Node) :
    addMarkKids S mrk p l = l.map (addMarkNode S mrk p) := by
  induction l with
  | nil => simp [addMarkKids]
  | cons n ns ih => simp [addMarkKids, ih]

theorem removeMarkKids_eq_map (S : Schema) (mrk : Mark) (l : List Node) :
    removeMarkKids S mrk l = l.map (removeMarkNode S mrk) := by
  induction l with
  | nil => simp [removeMarkKids]
  | cons n ns ih => simp [removeMarkKids, ih]

theorem addMark_markMap (S : Schema) (mrk : Mark) : MarkMap S (addMarkNode S mrk) where
  text p s m := by
    unfold addMarkNode
    by_cases h : (S.nodeType p).allowsMarkType mrk.ty = true
    · exact ⟨_, by rw [if_pos h], MarkGood.add S p mrk m h⟩
    · exact ⟨_, by rw [if_neg h], MarkGood.refl S p m⟩
  leaf p t a m := by
    unfold addMarkNode
    by_cases h : ((S.nodeType t).isInline && (S.nodeType p).allowsMarkType mrk.ty) = true
    · have h' := h
      simp only [Bool.and_eq_true] at h'
      exact ⟨_, by rw [if_pos h], MarkGood.add S p mrk m h'.2⟩
    · exact ⟨_, by rw [if_neg h], MarkGood.refl S p m⟩
  elem p t a m k := by
    unfold addMarkNode
    simp only [addMarkKids_eq_map]
    by_cases h : ((S.nodeType t).isInline && (S.nodeType t).isAtom &&
        (S.nodeType p).allowsMarkType mrk.ty) = true
    · have h' := h
      simp only [Bool.and_eq_true] at h'
      exact ⟨_, by rw [if_pos h], MarkGood.add S p mrk m h'.2⟩
    · exact ⟨_, by rw [if_neg h], MarkGood.refl S p m⟩

theorem removeMark_markMap (S : Schema) (mrk : Mark) : MarkMap S (fun _ => removeMarkNode S mrk) where
  text p s m := by
    unfold removeMarkNode
    exact ⟨_, rfl, MarkGood.remove S p mrk m⟩
  leaf p t a m := by
    unfold removeMarkNode
    by_cases h : (S.nodeType t).isInline = true
    · exact ⟨_, by rw [if_pos h], MarkGood.remove S p mrk m⟩
    · exact ⟨_, by rw [if_neg h], MarkGood.refl S p m⟩
  elem p t a m k := by
    unfold removeMarkNode
    simp only [removeMarkKids_eq_map]
    by_cases h : (S.nodeType t).isInline = true
    · exact ⟨_, by rw [if_pos h], MarkGood.remove S p mrk m⟩
    · exact ⟨_, by rw [if_neg h], MarkGood.refl S p m⟩

/-- the payload AddMarkStep builds from a valid payload is valid -/
theorem addMark_payload (S : Schema) (hts : TextStableP S) (mrk : Mark) (p : TypeId) (a b : Nat)
    (M : List Node) (h : openValid S a b M = true) :
    openValid S a b (fromArray (addMarkKids S mrk p M)) = true := by
  rw [addMarkKids_eq_map]
  exact (addMark_markMap S mrk).openValid hts a b M p h

/-- the payload RemoveMarkStep builds from a valid payload is valid -/
theorem removeMark_payload (S : Schema) (hts : TextStableP S) (mrk : Mark) (a b : Nat)
    (M : List Node) (h : openValid S a b M = true) :
    openValid S a b (fromArray (removeMarkKids S mrk M)) = true := by
  rw [removeMarkKids_eq_map]
  exact (removeMark_markMap S mrk).openValid hts a b M 0 h

theorem slice_openValid (S : Schema) (src : Node) (f t : Nat) (sl : Slice)
    (hs : S.checkNode src = true) (h : src.slice f t = .ok sl) :
    openValid S sl.openStart sl.openEnd sl.content = true :=
  sliceKids_openValid S src.kids f t sl (checkNode_kids hs) h

end PM
