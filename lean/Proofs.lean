import Proofs.Map
import Proofs.Toks
