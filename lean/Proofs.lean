import Proofs.Map
