import Proofs.Map
import Proofs.Toks
import Proofs.Structure
import Proofs.Range
import Proofs.FlatInsertCore
import Proofs.ShallowKeys
import Proofs.GapBack
import Proofs.GapBackAligned
