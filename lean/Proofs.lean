import Proofs.Map
import Proofs.Toks
import Proofs.Structure
import Proofs.Range
import Proofs.FromDom
import Proofs.Placement
import Proofs.PlacementValid
import Proofs.PlacementMarks
