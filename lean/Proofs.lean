import Proofs.Map
import Proofs.Toks
import Proofs.Structure
import Proofs.Range
