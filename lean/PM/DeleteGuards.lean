/-
  PM/DeleteGuards.lean — decidable schema-level hypotheses of `delete_applies` (Props/C11.lean): what the step
  `replace_step` emits for a deletion needs of the *schema* in order to apply, beyond what the Fitter tests itself.
  Evaluated by the driver (op `schemaHyps`) on every named schema a run uses and compared there with the same
  predicates computed on the real `Schema` object (harness/props/c11.py); kernel-checked for the bundled family
  (harness/translate_schemas.py, lean/Gen/Guards).

  * `joinCompatB` — two node types whose content automata share an edge label are `compatible_content`.
    `Fitter.find_close_level` accepts a level when the rest of the node around `to` is accepted from the frontier's
    match; it tests `compatible_content` of the two node types only when nothing follows `to` in that node
    (`content_after_fits`: `index == child_count and not type.compatible_content(…)`).  `replace` then calls
    `check_join` on the two document ancestors at every joined depth.  When something follows `to`, its first node's
    type labels an edge of both automata — the guard turns that into `compatible_content`.
  * `reopenOKB` — from the start state of every content automaton, every state is covered by a state reachable over
    generatable node types only (`covered`: that state offers every continuation the covered one offers).  `Fitter.close`
    re-opens the ancestors of `to` below the close level with `type.content_match.fill_before(node.content, True,
    index)` and stores the node *whatever the answer* (`None` becomes empty content): without a filling the re-opened
    node is short of the children in front of `to` and the replace refuses it.
  * `textAbsorbB` — reading a text node never loses a continuation (weaker than `FromDom.textStableB`, which asks
    for the same continuations): `fits_trivially` tests `can_replace(i, j)` on whole children, the replace keeps the
    half of a text child in front of `from`.
  * `inlineUniformB` — in the automaton of a node type with inline content every state offers the same edges to
    the same targets (`inline*`, `text*`, `inline+`, `(text | image)*`): the replace-around answer of the Fitter
    ("move the inline content behind `to` into the textblock `from` is in") puts the fillers `close_frontier_node`
    computed *without* the moved content behind it.
-/
import PM.Fitter
namespace PM

/-- the node types that label an edge of the content automaton of `t` -/
def Schema.labelsOf (S : Schema) (t : TypeId) : List TypeId :=
  (List.range (S.dfa t).size).flatMap (fun q => ((S.dfa t).edgesOf q).map (·.1))

/-- **two node types whose content automata share an edge label are `compatible_content`** -/
def joinCompatB (S : Schema) : Bool :=
  (List.range S.nodes.size).all (fun a => (List.range S.nodes.size).all (fun b =>
    !((S.labelsOf a).any (fun x => (S.labelsOf b).contains x)) || S.compatibleContent a b))

/-- state `r` offers every continuation state `q` offers: the same edges to the same targets, and it is a valid
    end if `q` is -/
def Dfa.coversB (d : Dfa) (r q : Nat) : Bool :=
  ((d.edgesOf q).all (fun e => d.matchType r e.1 == some e.2)) && (!d.validEnd q || d.validEnd r)

/-- keep the first entry of every state -/
def dedupSt : List (Nat × List TypeId) → List (Nat × List TypeId)
  | [] => []
  | p :: ps => p :: (dedupSt ps).filter (fun x => x.1 != p.1)

/-- one round of the search for the states reachable over generatable types, each with a path leading to it -/
def genStep (S : Schema) (d : Dfa) (ps : List (Nat × List TypeId)) : List (Nat × List TypeId) :=
  dedupSt (ps ++ ps.flatMap (fun p => (d.edgesOf p.1).filterMap (fun e =>
    if S.generatable e.1 then (d.matchType p.1 e.1).map (fun q' => (q', p.2 ++ [e.1])) else none)))

def genPaths (S : Schema) (d : Dfa) : Nat → List (Nat × List TypeId)
  | 0 => [(0, [])]
  | n + 1 => genStep S d (genPaths S d n)

/-- **every state of every content automaton is covered by a state reachable from the start state over generatable
    node types** (and the edges of the automata lead to states of the automaton) -/
def reopenOKB (S : Schema) : Bool :=
  (List.range S.nodes.size).all (fun t =>
    let d := S.dfa t
    (List.range d.size).all (fun q => (d.edgesOf q).all (fun e => decide (e.2 < d.size))) &&
    (List.range d.size).all (fun q => (genPaths S d d.size).any (fun p => d.coversB p.1 q)))

/-- **reading a text node never loses a continuation**: the state behind a text edge offers every edge the state
    in front of it offers, to the same target, and is a valid end if that one is -/
def textAbsorbB (S : Schema) : Bool :=
  (List.range S.nodes.size).all (fun t => (List.range (S.dfa t).size).all (fun q =>
    match (S.dfa t).matchType q S.textTy with
    | some q' => (S.dfa t).coversB q' q
    | none => true))

/-- **the automaton of a node type with inline content is uniform**: every state offers the edges of every other
    state, to the same targets -/
def inlineUniformB (S : Schema) : Bool :=
  (List.range S.nodes.size).all (fun t => !(S.nodeType t).inlineContent ||
    (List.range (S.dfa t).size).all (fun q => (List.range (S.dfa t).size).all (fun r =>
      ((S.dfa t).edgesOf q).all (fun e => (S.dfa t).matchType r e.1 == some e.2))))

/-! ### a hypothesis about the document: no high surrogate without its low surrogate -/

/-- every high surrogate unit of the text is followed by a low surrogate unit (what a Python `str` without lone
    surrogates satisfies; `TextNode.__init__` encodes the text as UTF-16, which refuses lone surrogates) -/
def highClosed : List Nat → Bool
  | [] => true
  | [a] => !isHigh a
  | a :: b :: r => (!isHigh a || isLow b) && highClosed (b :: r)

mutual
def Node.highClosed : Node → Bool
  | .text s _ => PM.highClosed s
  | .leaf .. => true
  | .elem _ _ _ k => highClosedKids k
def highClosedKids : List Node → Bool
  | [] => true
  | n :: ns => n.highClosed && highClosedKids ns
end

/-- the position does not fall between the two halves of a surrogate pair of the text child it resolves into
    (`C11.pairAligned`, Props/C11.lean, is this function: `pairAligned_eq`) -/
def pairAlignedB (doc : Node) (pos : Nat) : Bool :=
  match doc.resolve pos with
  | some r =>
    r.textOffset = 0 ||
      (match r.parent.kids[r.index r.depth]? with
       | some (.text s _) => splitOk s r.textOffset
       | _ => true)
  | none => true

/-! ### a hypothesis about a request `replace(from, to, slice)`: the direct fit -/

/-- **the node `from` is in accepts the closed slice's nodes as they stand behind `from`**:
    `from.parent.content_match_at(from.index_after())`, then `match_type` over every node of the content.  Then
    `Fitter.find_fittable` answers the innermost frontier entry at once and `place_nodes` takes every node: the loop of
    `fit` runs once (typing into a textblock, over a selection inside it or across blocks; `insert` / `replace_with` of
    nodes the parent takes at that place). -/
def directFitB (S : Schema) (doc : Node) (f : Nat) (sl : Slice) : Bool :=
  match doc.resolve f with
  | some rf =>
    sl.openStart == 0 && sl.openEnd == 0 &&
    (match S.contentMatchAt (S.tyOf rf.parent) rf.parent.kids (rf.indexAfter rf.depth) with
     | some q => ((S.dfa (S.tyOf rf.parent)).run q (S.types sl.content)).isSome
     | none => false)
  | none => false

end PM
