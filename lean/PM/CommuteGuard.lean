/-
  PM/CommuteGuard.lean — the decidable guard under which two replace steps with separated ranges both
  apply after rebasing (C17, `commute_succeeds_replace`; with `(from, to, slice)` of a replace-around step in
  place of one replace step: `commute_succeeds_around`): one of the two steps happens entirely inside an
  element node the other one does not touch.  Specification predicates over the model's data (not models
  of library functions); the harness evaluates them on the pairs it generates (driver op `commuteGuard`)
  and checks the implication on the real code.

  `e1`, `e2` are the numbers of levels each step's `replace_outer` descends at most:
  `depth(from) − slice.openStart`.
-/
import PM.Basic
import PM.Replace
namespace PM

/-- the left step (`f1 … t1`) descends into an element child `n` of a node both steps reach, and the
    right step's range (`f2 … t2`) begins behind `n` -/
def insideLeft : List Node → (f1 t1 e1 f2 t2 e2 : Nat) → Bool
  | [], _, _, _, _, _, _ => false
  | n :: ns, f1, t1, e1, f2, t2, e2 =>
    if f1 = 0 then false
    else if n.size ≤ f1 then insideLeft ns (f1 - n.size) (t1 - n.size) e1 (f2 - n.size) (t2 - n.size) e2
    else match n with
      | .elem _ _ _ kids =>
        if e1 ≠ 0 && t1 < n.size then
          if n.size ≤ f2 then true
          else e2 ≠ 0 && t2 < n.size && insideLeft kids (f1 - 1) (t1 - 1) (e1 - 1) (f2 - 1) (t2 - 1) (e2 - 1)
        else false
      | _ => false

/-- the right step (`f2 … t2`) descends into an element child `m` of a node both steps reach, and the
    left step's range (`f1 … t1`, offsets truncated at 0 while children are skipped) ends in front of `m` -/
def insideRight : List Node → (f1 t1 e1 f2 t2 e2 : Nat) → Bool
  | [], _, _, _, _, _, _ => false
  | n :: ns, f1, t1, e1, f2, t2, e2 =>
    if f2 = 0 then false
    else if n.size ≤ f2 then insideRight ns (f1 - n.size) (t1 - n.size) e1 (f2 - n.size) (t2 - n.size) e2
    else match n with
      | .elem _ _ _ kids =>
        if e2 ≠ 0 && t2 < n.size then
          if t1 = 0 then true
          else e1 ≠ 0 && decide (0 < f1) && insideRight kids (f1 - 1) (t1 - 1) (e1 - 1) (f2 - 1) (t2 - 1) (e2 - 1)
        else false
      | _ => false

/-- **the guard of `commute_succeeds_replace`**: one of the two replace steps (`f1 ≤ t1 < f2 ≤ t2`, slices
    `s1`, `s2`) happens inside an element node the other one does not touch -/
def commuteGuard (kids : List Node) (f1 t1 : Nat) (s1 : Slice) (f2 t2 : Nat) (s2 : Slice) : Bool :=
  insideLeft kids f1 t1 (depthAt kids f1 - s1.openStart) f2 t2 (depthAt kids f2 - s2.openStart) ||
  insideRight kids f1 t1 (depthAt kids f1 - s1.openStart) f2 t2 (depthAt kids f2 - s2.openStart)

/-- **the shape of every replace-around step the library builds** (`lift`, `wrap`, `set_node_markup`,
    `set_block_type`), hypothesis `AroundShape` of the C17 theorems about replace-around steps: ranges in
    order, the slice's open depths covered by its content, the insertion point inside the slice.  Tied:
    driver op `aroundShape`, compared with the same predicate on the real step objects, and required to
    hold for every replace-around step the harness obtains from a high-level operation. -/
def aroundShape (f t gf gt : Nat) (sl : Slice) (ins : Nat) : Bool :=
  sl.wf && decide ((ins : Int) ≤ sl.size) && decide (f ≤ gf) && decide (gf ≤ gt) && decide (gt ≤ t)

/-- the replace step (`f1 … t1`, at most `e1` levels of descent) descends into an element node that lies
    entirely inside the window `[gf, gt]` (offsets truncated at 0 while children are skipped: `gf = 0` = "the
    window begins at or before this node") -/
def insideGap : List Node → (gf gt f1 t1 e1 : Nat) → Bool
  | [], _, _, _, _, _ => false
  | n :: ns, gf, gt, f1, t1, e1 =>
    if f1 = 0 then false
    else if n.size ≤ f1 then insideGap ns (gf - n.size) (gt - n.size) (f1 - n.size) (t1 - n.size) e1
    else match n with
      | .elem _ _ _ kids =>
        if e1 ≠ 0 && t1 < n.size then
          if gf = 0 && n.size ≤ gt then true
          else insideGap kids (gf - 1) (gt - 1) (f1 - 1) (t1 - 1) (e1 - 1)
        else false
      | _ => false

/-- **the guard for a step strictly inside the kept gap of a replace-around step** (`gapFrom < f1 ≤ t1 < gapTo`):
    the step (a replace step, or `(from, to, slice)` of a replace-around step) happens entirely inside an
    element node of the gap content, so the gap stays a closed slice with the same top-level node types and
    the node it is moved into by the replace-around step sees the same children.  Excludes a split / an open
    slice that closes the gap's parent (the gap is then no longer a closed slice: the rebased replace-around
    step fails) and insertions at the gap's own level (the new parent may not accept them).  Tied: driver op
    `gapGuard`; oracle "guard ⇒ the real code's four applications succeed and converge". -/
def gapGuard (kids : List Node) (gf gt f1 t1 : Nat) (s1 : Slice) : Bool :=
  insideGap kids gf gt f1 t1 (depthAt kids f1 - s1.openStart)

end PM
