/-
  PM/FillOrder.lean — order-faithful, node-producing versions of the content-filling functions the
  Fitter calls (content.py: `ContentMatch.fill_before`, `find_wrapping` / `compute_wrapping`;
  schema.py: `NodeType.create_and_fill()` without arguments, `NodeType.create`).

  Unlike the relational tie of C15, the Fitter's answer depends on *which* filling / wrapping is
  chosen, so the search order is that of the code: `fill_before` is a depth-first search over
  `match.next` in edge order with one seen-list shared by the whole search; `compute_wrapping` is a
  breadth-first search with a seen-set of type names.  Tied exactly (harness/rangeplan.py: `fillBefore`,
  `findWrapping`).
-/
import PM.Basic
import PM.Content
import PM.Fill
import PM.Marks
import PM.Step
namespace PM

/-! ### fill_before: the chosen filler types -/

/-- `match.fill_before(after, to_end, start_index)` as the list of filler *types*
    (`after` = the types of `after[start_index:]`); `none` = Python `None`.
    The search itself is `PM.fillSearch` (PM/Fill.lean; it is already in the order of the code: depth
    first over `match.next` in edge order, one seen-list shared by the whole search), here with the
    schema's own notion of a generatable type — so the theorems of Props/C15.lean about `fillBefore`
    are theorems about the search the Fitter uses. -/
def fillBeforeTypes (S : Schema) (d : Dfa) (q : Nat) (after : List TypeId) (toEnd : Bool) :
    Option (List TypeId) :=
  fillBefore d S.generatable q after toEnd

/-! ### find_wrapping: breadth-first over wrapper types -/

structure WrapItem where
  ty    : Option TypeId     -- `None` for the root item (the match position asked about)
  state : Nat
  chain : List TypeId       -- wrappers chosen so far, outermost first
deriving Repr, Inhabited

/-- the body of `for i in range(len(match.next))`: appended items and the grown seen-set
    (`S.wrapOk t` = `not type.is_leaf and not type.has_required_attrs()`, PM/Fill.lean) -/
def wrapEdges (S : Schema) (d : Dfa) (cur : WrapItem) :
    List (TypeId × Nat) → List TypeId → List WrapItem × List TypeId
  | [], seen => ([], seen)
  | (t, nxt) :: rest, seen =>
    if S.wrapOk t && !seen.contains t && (cur.ty.isNone || d.validEnd nxt) then
      let (more, seen') := wrapEdges S d cur rest (t :: seen)
      (⟨some t, 0, cur.chain ++ [t]⟩ :: more, seen')
    else wrapEdges S d cur rest seen

/-- `compute_wrapping(target)` started at state `q` of automaton `root` -/
def wrapSearchO (S : Schema) (root : Dfa) (target : TypeId) :
    (fuel : Nat) → (queue : List WrapItem) → (seen : List TypeId) → Option (List TypeId)
  | 0, _, _ => none
  | _ + 1, [], _ => none
  | fuel + 1, cur :: queue, seen =>
    let d := match cur.ty with
      | none => root
      | some t => S.dfa t
    if (d.matchType cur.state target).isSome then some cur.chain
    else
      let (more, seen') := wrapEdges S d cur (d.edgesOf cur.state) seen
      wrapSearchO S root target fuel (queue ++ more) seen'

/-- `match.find_wrapping(target)` (the cache does not change the answer); every wrappable type enters
    the queue at most once, so `#types + 2` iterations suffice -/
def findWrappingTypes (S : Schema) (d : Dfa) (q : Nat) (target : TypeId) : Option (List TypeId) :=
  wrapSearchO S d target (S.nodes.size + 2) [⟨none, q, []⟩] []

/-! ### creating nodes -/

/-- `Node(type, attrs, content, marks)`: leaf types are the `.leaf` constructor of the model -/
def Schema.mkNodeO (S : Schema) (ty : TypeId) (attrs : Attrs) (marks : Marks) (kids : List Node) : Node :=
  if (S.nodeType ty).isLeaf then .leaf ty attrs marks else .elem ty attrs marks kids

/-- `type.create_and_fill()` (no attributes, no content, no marks): default attributes, content
    `content_match.fill_before(Fragment.empty, True)` with every filler created the same way.
    `none` = the code does not produce a node (a required attribute: `ValueError`; no filling:
    `None`, which the callers then put into a fragment; a type that needs itself: unbounded
    recursion — `fuel` = number of node types + 1 detects it, the call being deterministic). -/
def createAndFill (S : Schema) : (fuel : Nat) → TypeId → Option Node
  | 0, _ => none
  | fuel + 1, ty =>
    match computeAttrs (S.nodeType ty).attrs [] with
    | .error _ => none
    | .ok attrs =>
      match fillBeforeTypes S (S.dfa ty) 0 [] true with
      | none => none
      | some tys =>
        match tys.mapM (createAndFill S fuel) with
        | none => none
        | some kids => some (S.mkNodeO ty attrs [] kids)

/-- the nodes of a `fill_before` answer.  Outer `none` = the code raises while building the
    fragment; inner `none` = `fill_before` returns `None`. -/
def fillBeforeNodes (S : Schema) (d : Dfa) (q : Nat) (after : List TypeId) (toEnd : Bool) :
    Option (Option (List Node)) :=
  match fillBeforeTypes S d q after toEnd with
  | none => some none
  | some tys =>
    match tys.mapM (createAndFill S (S.nodes.size + 1)) with
    | none => none
    | some ns => some (some ns)

end PM
