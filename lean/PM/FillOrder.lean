/-
  PM/FillOrder.lean — order-faithful, node-producing versions of the content-filling functions the
  Fitter calls (content.py: `ContentMatch.fill_before`, `find_wrapping` / `compute_wrapping`;
  schema.py: `NodeType.create_and_fill()` without arguments, `NodeType.create`).

  Unlike the relational tie of C15, the Fitter's answer depends on *which* filling / wrapping is
  chosen, so the search order is that of the code: `fill_before` is a depth-first search over
  `match.next` in edge order with one seen-list shared by the whole search; `compute_wrapping` is a
  breadth-first search with a seen-set of type names.  Tied exactly (harness/rangeplan.py: `fillBefore`,
  `findWrapping`).
-/
import PM.Basic
import PM.Content
import PM.Fill
import PM.Marks
import PM.Step
namespace PM

/-! ### fill_before: the chosen filler types -/

/-- the loop `for i in match.next` of `search`, given `search` itself for the states one level down
    (a separate definition so that the recursion of `fillSearchO` is structural in the fuel and the
    kernel can evaluate it) -/
def fillEdgesO (search : Nat → List TypeId → List Nat → Option (List TypeId) × List Nat) (gen : TypeId → Bool) :
    (edges : List (TypeId × Nat)) → (types : List TypeId) → (seen : List Nat) → Option (List TypeId) × List Nat
  | [], _, seen => (none, seen)
  | (t, nxt) :: rest, types, seen =>
    if gen t && !seen.contains nxt then
      match search nxt (types ++ [t]) (nxt :: seen) with
      | (some r, seen') => (some r, seen')
      | (none, seen') => fillEdgesO search gen rest types seen'
    else fillEdgesO search gen rest types seen

/-- `search(match, types)`; returns the answer and the updated seen-list.  `fuel` bounds the recursion
    depth (each recursive call first marks a new state as seen, so the number of states + 1 suffices:
    Proofs/FillOrder.lean `fillBeforeTypes_complete`). -/
def fillSearchO (d : Dfa) (gen : TypeId → Bool) (after : List TypeId) (toEnd : Bool) :
    (fuel : Nat) → (q : Nat) → (types : List TypeId) → (seen : List Nat) → Option (List TypeId) × List Nat
  | 0, _, _, seen => (none, seen)
  | fuel + 1, q, types, seen =>
    let finished := match d.run q after with
      | some f => !toEnd || d.validEnd f
      | none => false
    if finished then (some types, seen)
    else fillEdgesO (fillSearchO d gen after toEnd fuel) gen (d.edgesOf q) types seen

/-- `match.fill_before(after, to_end, start_index)` as the list of filler *types*
    (`after` = the types of `after[start_index:]`); `none` = Python `None`.
    `fillSearchO` is the search of PM/Fill.lean (`PM.fillSearch`: depth first over `match.next` in edge
    order, one seen-list shared by the whole search) written so that the kernel can evaluate it;
    Proofs/FillOrder.lean `fillBeforeTypes_eq` proves the two equal, so the theorems of Props/C15.lean
    about `fillBefore` are theorems about the search the Fitter uses. -/
def fillBeforeTypes (S : Schema) (d : Dfa) (q : Nat) (after : List TypeId) (toEnd : Bool) :
    Option (List TypeId) :=
  (fillSearchO d S.generatable after toEnd (d.size + 1) q [] [q]).1

/-! ### find_wrapping: breadth-first over wrapper types -/

structure WrapItem where
  ty    : Option TypeId     -- `None` for the root item (the match position asked about)
  state : Nat
  chain : List TypeId       -- wrappers chosen so far, outermost first
deriving Repr, Inhabited

/-- `not type.is_leaf and not type.has_required_attrs()` — the same function as `Schema.wrapOk` of
    PM/Fill.lean (Proofs/FillOrder.lean `wrappable_eq`, by `rfl`), kept under this name for the Fitter's guards -/
def Schema.wrappable (S : Schema) (t : TypeId) : Bool :=
  !(S.nodeType t).isLeaf && !(S.nodeType t).attrs.any (fun a => !a.hasDefault)

/-- the body of `for i in range(len(match.next))`: appended items and the grown seen-set
    (`S.wrapOk t` = `not type.is_leaf and not type.has_required_attrs()`, PM/Fill.lean) -/
def wrapEdges (S : Schema) (d : Dfa) (cur : WrapItem) :
    List (TypeId × Nat) → List TypeId → List WrapItem × List TypeId
  | [], seen => ([], seen)
  | (t, nxt) :: rest, seen =>
    if S.wrapOk t && !seen.contains t && (cur.ty.isNone || d.validEnd nxt) then
      let (more, seen') := wrapEdges S d cur rest (t :: seen)
      (⟨some t, 0, cur.chain ++ [t]⟩ :: more, seen')
    else wrapEdges S d cur rest seen

/-- `compute_wrapping(target)` started at state `q` of automaton `root` -/
def wrapSearchO (S : Schema) (root : Dfa) (target : TypeId) :
    (fuel : Nat) → (queue : List WrapItem) → (seen : List TypeId) → Option (List TypeId)
  | 0, _, _ => none
  | _ + 1, [], _ => none
  | fuel + 1, cur :: queue, seen =>
    let d := match cur.ty with
      | none => root
      | some t => S.dfa t
    if (d.matchType cur.state target).isSome then some cur.chain
    else
      let (more, seen') := wrapEdges S d cur (d.edgesOf cur.state) seen
      wrapSearchO S root target fuel (queue ++ more) seen'

/-- `match.find_wrapping(target)` (the cache does not change the answer); every wrappable type enters
    the queue at most once, so `#types + 2` iterations suffice -/
def findWrappingTypes (S : Schema) (d : Dfa) (q : Nat) (target : TypeId) : Option (List TypeId) :=
  wrapSearchO S d target (S.nodes.size + 2) [⟨none, q, []⟩] []

/-! ### creating nodes -/

/-- `Node(type, attrs, content, marks)`: leaf types are the `.leaf` constructor of the model -/
def Schema.mkNodeO (S : Schema) (ty : TypeId) (attrs : Attrs) (marks : Marks) (kids : List Node) : Node :=
  if (S.nodeType ty).isLeaf then .leaf ty attrs marks else .elem ty attrs marks kids

/-- `type.create_and_fill()` (no attributes, no content, no marks): default attributes, content
    `content_match.fill_before(Fragment.empty, True)` with every filler created the same way.
    `none` = the code does not produce a node (a required attribute: `ValueError`; no filling:
    `None`, which the callers then put into a fragment; a type that needs itself: unbounded
    recursion — `fuel` = number of node types + 1 detects it, the call being deterministic). -/
def createAndFill (S : Schema) : (fuel : Nat) → TypeId → Option Node
  | 0, _ => none
  | fuel + 1, ty =>
    match computeAttrs (S.nodeType ty).attrs [] with
    | .error _ => none
    | .ok attrs =>
      match fillBeforeTypes S (S.dfa ty) 0 [] true with
      | none => none
      | some tys =>
        match tys.mapM (createAndFill S fuel) with
        | none => none
        | some kids => some (S.mkNodeO ty attrs [] kids)

/-- the nodes of a `fill_before` answer.  Outer `none` = the code raises while building the
    fragment; inner `none` = `fill_before` returns `None`. -/
def fillBeforeNodes (S : Schema) (d : Dfa) (q : Nat) (after : List TypeId) (toEnd : Bool) :
    Option (Option (List Node)) :=
  match fillBeforeTypes S d q after toEnd with
  | none => some none
  | some tys =>
    match tys.mapM (createAndFill S (S.nodes.size + 1)) with
    | none => none
    | some ns => some (some ns)

end PM
