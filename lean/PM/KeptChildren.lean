/-
  PM/KeptChildren.lean — *what* `Transform.clear_incompatible(pos, parent_type, match)` leaves of the
  children of a node, as a structural function on the child list that does not mention steps,
  positions or transforms (the specification side of `PSt.clearIncompatible`, PM/TypePlan.lean):

  walking the children left to right with the automaton of the new parent type,
  * a child whose type the current state does not accept is dropped (the state stays);
  * an accepted child advances the state and loses the marks the new parent type does not allow.
    The code removes them with `RemoveMarkStep(cur, end, mark)` for every such mark **of the
    child**: that step strips the mark from every *inline* node in the range — the child itself when
    it is inline, and every inline node inside it (`stripMarksNode`);
  * in an accepted text child every `\r\n`, `\n`, `\r` becomes one space carrying
    `parent_type.allowed_marks(child.marks)` (as a mark *set*: `setFrom`), unless the new parent
    type is a code type;
  * when the walk does not end in a valid end state the fillers of
    `match.fill_before(Fragment.empty, True)` follow (`retypeFill`).

  Text is given unit by unit where newlines are replaced (`nlNodes`): adjacent text nodes with
  equal marks are the same text (same token sequence `ftoks`; `Fragment.from_array` joins them).
-/
import PM.TypePlan
namespace PM

mutual
/-- every inline node in the subtree loses the marks equal to a mark in `bad` -/
def stripMarksNode (S : Schema) (bad : Marks) : Node → Node
  | .text s m => .text s (m.filter (fun x => !bad.contains x))
  | .leaf t a m =>
    .leaf t a (if (S.nodeType t).isInline then m.filter (fun x => !bad.contains x) else m)
  | .elem t a m kids =>
    .elem t a (if (S.nodeType t).isInline then m.filter (fun x => !bad.contains x) else m)
      (stripMarksKids S bad kids)
def stripMarksKids (S : Schema) (bad : Marks) : List Node → List Node
  | [] => []
  | n :: ns => stripMarksNode S bad n :: stripMarksKids S bad ns
end

/-- a text with every `\r\n` / `\n` / `\r` replaced by one space marked `sp`; the other units keep
    the marks `keep` (one text node per unit) -/
def nlNodes (keep sp : Marks) : List Nat → List Node
  | [] => []
  | [c] => if c == 10 || c == 13 then [.text [32] sp] else [.text [c] keep]
  | c :: d :: r =>
    if c == 13 && d == 10 then .text [32] sp :: nlNodes keep sp r
    else if c == 10 || c == 13 then .text [32] sp :: nlNodes keep sp (d :: r)
    else .text [c] keep :: nlNodes keep sp (d :: r)

/-- the marks of a child the new parent type does not allow (`not parent_type.allows_mark_type(m.type)`) -/
def badMarks (S : Schema) (pty : TypeId) (ms : Marks) : Marks :=
  ms.filter (fun m => !(S.nodeType pty).allowsMarkType m.ty)

/-- what is left of one accepted child -/
def cleanChild (S : Schema) (pty : TypeId) : Node → List Node
  | .text s ms =>
    let keep := (S.nodeType pty).allowedMarks ms
    if (S.nodeType pty).code then [.text s keep] else nlNodes keep (setFrom keep) s
  | c => [stripMarksNode S (badMarks S pty c.marks) c]

/-- the children `clear_incompatible` keeps, from match state `q` of the new parent type `pty` -/
def keptChildren (S : Schema) (pty : TypeId) : List Node → (q : Nat := 0) → List Node
  | [], _ => []
  | c :: cs, q =>
    match (S.dfa pty).matchType q (S.tyOf c) with
    | none => keptChildren S pty cs q
    | some q' => cleanChild S pty c ++ keptChildren S pty cs q'

/-- the match state after the kept children -/
def keptState (S : Schema) (pty : TypeId) : List Node → (q : Nat := 0) → Nat
  | [], q => q
  | c :: cs, q =>
    match (S.dfa pty).matchType q (S.tyOf c) with
    | none => keptState S pty cs q
    | some q' => keptState S pty cs q'

/-- the nodes appended when the walk ends in state `q`: nothing at a valid end, else
    `match.fill_before(Fragment.empty, True)` (the operation fails when there is none) -/
def retypeFill (S : Schema) (pty : TypeId) (q : Nat) : List Node :=
  if (S.dfa pty).validEnd q then []
  else
    match fillBefore (S.dfa pty) S.generatable q [] true with
    | none => []
    | some tys => (tys.mapM (S.createAndFill0 (S.nodes.size + 1))).getD []

/-- the children of a node of content `kids` after `clear_incompatible(pos, pty, match)`, `q` = the
    state `match` (default: the start state of `pty`) -/
def retypedChildren (S : Schema) (pty : TypeId) (kids : List Node) (q : Nat := 0) : List Node :=
  keptChildren S pty kids q ++ retypeFill S pty (keptState S pty kids q)

end PM
