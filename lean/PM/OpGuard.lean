/-
  PM/OpGuard.lean — the guard `FamilyGuard` of Props/C04.lean (`family_step`, `opHistory_undo`) for the
  two replace kinds, as an executable predicate: what a recorded replace / replace-around step has
  to satisfy, besides "the document is valid and in normal form", for its inverse to restore the
  document exactly.  A specification predicate over the model's data (not a model of a library
  function); Props/C04.lean `structGuardB_family` proves it implies `FamilyGuard`; the harness ties
  "guard true ⇒ the real inverse restores the real document" and measures it true on the steps the
  structural operations record (harness/props/c04_ops.py).
-/
import PM.Basic
import PM.Content
import PM.Replace
import PM.Step
import PM.UndoGuard
namespace PM

/-- `alignedAt` of Proofs/TokCore.lean: the offset does not fall between the two halves of a surrogate
    pair of a text child -/
def alignedAtB : List Node → Nat → Bool
  | [], _ => true
  | n :: ns, pos =>
    if pos = 0 then true
    else if n.size ≤ pos then alignedAtB ns (pos - n.size)
    else match n with
      | .text s _ => splitOk s pos
      | .elem _ _ _ kids => alignedAtB kids (pos - 1)
      | .leaf .. => true

/-- `leftOpenValid` of Proofs/ReplaceValid.lean -/
def leftOpenValidB (S : Schema) : Nat → List Node → Bool
  | 0, kids => S.checkKids kids
  | a + 1, (.elem _ _ m k) :: rest => canonicalMarks S m && leftOpenValidB S a k && S.checkKids rest
  | _ + 1, _ => false

/-- `rightOpenValid` of Proofs/ReplaceValid.lean -/
def rightOpenValidB (S : Schema) : Nat → List Node → Bool
  | 0, kids => S.checkKids kids
  | _ + 1, [] => false
  | b + 1, [.elem _ _ m k] => canonicalMarks S m && rightOpenValidB S b k
  | _ + 1, [_] => false
  | b + 1, n :: n' :: rest => S.checkNode n && rightOpenValidB S (b + 1) (n' :: rest)

/-- `openValid` of Proofs/ReplaceValid.lean: payload validity of slice content open `a` / `b` levels -/
def openValidB (S : Schema) : Nat → Nat → List Node → Bool
  | 0, b, kids => rightOpenValidB S b kids
  | a + 1, 0, kids => leftOpenValidB S (a + 1) kids
  | a + 1, b + 1, [.elem _ _ m k] => canonicalMarks S m && openValidB S a b k
  | a + 1, b + 1, (.elem _ _ m k) :: n :: rest =>
    canonicalMarks S m && leftOpenValidB S a k && rightOpenValidB S (b + 1) (n :: rest)
  | _ + 1, _ + 1, _ => false

/-- the parts of the guard, for reporting: `(shape, payload, structure checks of the inverse, fit guard `gapFitsBack`, pair-alignment of the inverse's cuts)`; `none` for the other six step kinds -/
def structGuardParts (S : Schema) (s : Step) (d d' : Node) : Option (Bool × Bool × Bool × Bool × Bool) :=
  match s with
  | .replace f _ sl _ =>
    some (fnorm sl.content, openValidB S sl.openStart sl.openEnd sl.content, true, true,
      alignedAtB d'.kids f && alignedAtB d'.kids (f + sl.size.toNat))
  | .replaceAround f t gf gt sl ins b =>
    let shape := fnorm sl.content && sl.wf && decide ((ins : Int) ≤ sl.size) &&
      decide (f ≤ gf) && decide (gf ≤ gt) && decide (gt ≤ t)
    let payload := match d.slice gf gt with
      | .ok gap =>
        match sl.insertAt S ins gap.content with
        | .ok (some x) => openValidB S x.openStart x.openEnd x.content
        | _ => true
      | .error _ => true
    let hst := !b || (contentBetween d' f (f + ins) == some false &&
      contentBetween d' (f + ins + (gt - gf)) (f + sl.size.toNat + (gt - gf)) == some false)
    let clean := gapFitsBack S d f t gf gt
    let al := alignedAtB d'.kids f && alignedAtB d'.kids (f + sl.size.toNat + (gt - gf)) &&
      alignedAtB d'.kids (f + ins) && alignedAtB d'.kids (f + ins + (gt - gf))
    some (shape, payload, hst, clean, al)
  | _ => none

/-- the structural sufficient condition for the fit guard (`gapFitsBack_of_clean_apply`), for reporting -/
def gapCleanOf (s : Step) (d : Node) : Bool :=
  match s with
  | .replaceAround f t gf gt _ _ _ =>
    match d.slice f t with
    | .ok old => gapClean old.content none (gf - f + old.openStart) (gt - f + old.openStart)
    | .error _ => false
  | _ => true

/-- **`FamilyGuard` for a replace / replace-around step**, executable -/
def structGuardB (S : Schema) (s : Step) (d d' : Node) : Bool :=
  match structGuardParts S s d d' with
  | some (a, b, c, e, g) => a && b && c && e && g
  | none => false

end PM
