/-
  PM/Fragment.lean — model of prosemirror/model/fragment.py (find_index, cut, append, from_array,
  replace_child, cut_by_index) and of Node.cut / TextNode.cut (node.py).
-/
import PM.Basic
namespace PM

/-! ### UTF-16 surrogates: which cut offsets Python can represent -/

def isHigh (u : Nat) : Bool := 0xD800 ≤ u && u < 0xDC00
def isLow  (u : Nat) : Bool := 0xDC00 ≤ u && u < 0xE000

/-- cutting the unit list at offset `k` does not separate a surrogate pair -/
def splitOk (s : List Nat) (k : Nat) : Bool :=
  match k with
  | 0 => true
  | k + 1 =>
    match s[k]?, s[k + 1]? with
    | some a, some b => !(isHigh a && isLow b)
    | _, _ => true

/-- `TextNode.cut(from, to)` on the unit list (`to` already clamped by the caller).
    A cut inside a surrogate pair raises `UnicodeDecodeError` (a `ValueError`);
    an empty result raises `ValueError("Empty text nodes are not allowed")`. -/
def cutText (s : List Nat) (from_ to : Nat) : Res (List Nat) :=
  if from_ = 0 && to = s.length then .ok s
  else if !splitOk s from_ || !splitOk s to then .error .valueError
  else
    let r := (s.take to).drop from_
    if r.isEmpty then .error .valueError else .ok r

/-! ### find_index -/

/-- `Fragment.find_index(pos)` with `round = -1`: `(index, offset)`; `none` = position outside. -/
def findIndexAux : List Node → (pos i cur : Nat) → Option (Nat × Nat)
  | [], pos, i, cur => if pos = 0 then some (i, cur) else none
  | n :: ns, pos, i, cur =>
    if pos = 0 then some (i, cur)
    else if n.size ≤ pos then findIndexAux ns (pos - n.size) (i + 1) (cur + n.size)
    else some (i, cur)

def findIndex (kids : List Node) (pos : Nat) : Option (Nat × Nat) := findIndexAux kids pos 0 0

/-! ### cut -/

mutual
/-- `Node.cut(from, to)` (offsets relative to the node's content; for text: unit offsets) -/
def Node.cut : Node → Nat → Nat → Res Node
  | .text s m, from_, to => (cutText s from_ to).map (Node.text · m)
  | .leaf t a m, _, _ => .ok (.leaf t a m)
  | .elem t a m kids, from_, to =>
    if from_ = 0 && to = fsize kids then .ok (.elem t a m kids)
    else if to ≤ from_ then .ok (.elem t a m [])
    else (fcutLoop kids from_ to).map (Node.elem t a m ·)
/-- the `while pos < to` loop of `Fragment.cut`, offsets relative to the head of the list -/
def fcutLoop : List Node → Nat → Nat → Res (List Node)
  | [], _, to => if 0 < to then .error .internal else .ok []
  | n :: ns, from_, to =>
    if to = 0 then .ok []
    else
      let sz := n.size
      if from_ < sz then
        if 0 < from_ || to < sz then
          match n with
          | .text s m =>
            match cutText s from_ (min s.length to) with
            | .ok s' =>
              match fcutLoop ns (from_ - sz) (to - sz) with
              | .ok rest => .ok (.text s' m :: rest)
              | .error e => .error e
            | .error e => .error e
          | .leaf t a m =>
            match fcutLoop ns (from_ - sz) (to - sz) with
            | .ok rest => .ok (.leaf t a m :: rest)
            | .error e => .error e
          | .elem t a m kids =>
            match Node.cut (.elem t a m kids) (from_ - 1) (min (fsize kids) (to - 1)) with
            | .ok c =>
              match fcutLoop ns (from_ - sz) (to - sz) with
              | .ok rest => .ok (c :: rest)
              | .error e => .error e
            | .error e => .error e
        else
          match fcutLoop ns (from_ - sz) (to - sz) with
          | .ok rest => .ok (n :: rest)
          | .error e => .error e
      else fcutLoop ns (from_ - sz) (to - sz)
end

/-- `Fragment.cut(from, to)` -/
def fcut (kids : List Node) (from_ to : Nat) : Res (List Node) :=
  if from_ = 0 && to = fsize kids then .ok kids
  else if to ≤ from_ then .ok []
  else fcutLoop kids from_ to

/-! ### append / from_array -/

/-- `add_node(child, target)` of replace.py, also the step of `Fragment.from_array` -/
def addNode (target : List Node) (child : Node) : List Node :=
  match target.getLast?, child with
  | some (.text s m), .text s' m' =>
    if m = m' then target.dropLast ++ [.text (s ++ s') m] else target ++ [child]
  | _, _ => target ++ [child]

def addNodes (target : List Node) (cs : List Node) : List Node := cs.foldl addNode target

/-- `Fragment.from_array` -/
def fromArray (l : List Node) : List Node := addNodes [] l

/-- `Fragment.append`: concatenation with a single text merge at the seam -/
def fappend (a b : List Node) : List Node :=
  match b with
  | [] => a
  | c :: rest => if a.isEmpty then b else addNode a c ++ rest

def cutByIndex (kids : List Node) (from_ to : Nat) : List Node := (kids.take to).drop from_

def replaceChild (kids : List Node) (i : Nat) (n : Node) : List Node := kids.set i n

end PM
